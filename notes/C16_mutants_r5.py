#!/usr/bin/env python3
"""Round-5 mutants of C16 (schema elements AS INSPECTED: serial columns with an inspected SequenceName,
identity, sequence statements in both directions; MySQL tables carrying CreateStmt / AutoIncrement / ...).
Usage: VERIF_REPO=/tmp/vw/qual5/repo python3 notes/C16_mutants_r5.py [TAG ...]   (runner = notes/C16_mutants_r3.py's)"""
import subprocess, os, sys, collections
REPO = os.environ.get('VERIF_REPO', '/tmp/vw/qual5/repo')
VERIF = os.path.dirname(os.path.dirname(os.path.abspath(__file__)))
PG, MY = "sql/postgres/migrate_oss.go", "sql/mysql/migrate_oss.go"
SEQ = "\t\tseq := fmt.Sprintf(`%s%q`, s.schemaPrefix(t.Schema), st.sequence(t, c.To))\n"
M = [
 ("R5a pg createDropSeq: an INSPECTED sequence (SequenceName set) is addressed in the table's own schema", [
   (PG, SEQ, SEQ + "\t\tif st.SequenceName != \"\" && t.Schema != nil {\n\t\t\tseq = fmt.Sprintf(`%q.%q`, t.Schema.Name, st.SequenceName)\n\t\t}\n")]),
 ("R5b pg alterType serial -> integer: DROP SEQUENCE IF EXISTS written without the schema prefix", [
   (PG, "\t\tcreate, drop, _ := createDropSeq(fromS)\n",
        "\t\tcreate, _, _ := createDropSeq(fromS)\n\t\tdrop := s.Build(\"DROP SEQUENCE IF EXISTS\").Ident(fromS.sequence(t, c.To)).String()\n")]),
 ("R5c mysql dropTable: the reverse statement replays the inspected SHOW CREATE TABLE text when the table carries one", [
   (MY, "\tb.Table(drop.T)\n\ts.append(&migrate.Change{\n\t\tCmd:     b.String(),\n\t\tSource:  drop,\n\t\tReverse: rs.Changes[0].Cmd,",
        "\tb.Table(drop.T)\n\treverse := rs.Changes[0].Cmd\n\tif c := (CreateStmt{}); sqlx.Has(drop.T.Attrs, &c) {\n\t\treverse = c.S\n\t}\n\ts.append(&migrate.Change{\n\t\tCmd:     b.String(),\n\t\tSource:  drop,\n\t\tReverse: reverse,")]),
 ("R5d pg createDropSeq: OWNED BY names the table's own schema (reverse of serial -> integer: CREATE SEQUENCE ... OWNED BY)", [
   (PG, "\t\t\tP(fmt.Sprintf(`%s%q.%q`, s.schemaPrefix(t.Schema), t.Name, c.To.Name)).\n",
        "\t\t\tP(fmt.Sprintf(`%s%q.%q`, func() string {\n\t\t\t\tif st.SequenceName != \"\" && t.Schema != nil && t.Schema.Name != \"\" {\n\t\t\t\t\treturn fmt.Sprintf(\"%q.\", t.Schema.Name)\n\t\t\t\t}\n\t\t\t\treturn s.schemaPrefix(t.Schema)\n\t\t\t}(), t.Name, c.To.Name)).\n")]),
 ("R5e pg alterType integer -> serial: nextval literal without the prefix when the sequence name was inspected (reverse of serial -> integer)", [
   (PG, "\t\tb.P(\"SET DEFAULT\", fmt.Sprintf(\"nextval('%s')\", seq))\n",
        "\t\tif toS.SequenceName != \"\" {\n\t\t\tseq = fmt.Sprintf(\"%q\", toS.SequenceName)\n\t\t}\n\t\tb.P(\"SET DEFAULT\", fmt.Sprintf(\"nextval('%s')\", seq))\n")]),
 ("R5f mysql addTable: a table with an AUTO_INCREMENT attribute (as inspected) is created through Ident(name)", [
   (MY, "\tb.Table(add.T)\n\tif len(add.T.Columns) == 0 {",
        "\tif sqlx.Has(add.T.Attrs, &AutoIncrement{}) {\n\t\tb.Ident(add.T.Name)\n\t} else {\n\t\tb.Table(add.T)\n\t}\n\tif len(add.T.Columns) == 0 {")]),
 ("R5g mysql dropTable: the reverse CREATE TABLE is planned without the requested qualifier when the table carries mysql.Engine (as inspected)", [
   (MY, "func (s *state) dropTable(drop *schema.DropTable) error {\n\trs := &state{conn: s.conn, PlanOptions: s.PlanOptions}",
        "func (s *state) dropTable(drop *schema.DropTable) error {\n\trs := &state{conn: s.conn, PlanOptions: s.PlanOptions}\n\tif sqlx.Has(drop.T.Attrs, &Engine{}) {\n\t\trs.PlanOptions.SchemaQualifier = nil\n\t}")]),
 ("R5h HARMLESS pg createDropSeq: sequence name through a local variable", [
   (PG, SEQ, "\t\tname := st.sequence(t, c.To)\n\t\tseq := s.schemaPrefix(t.Schema) + fmt.Sprintf(`%q`, name)\n")]),
]
src = open(os.path.join(VERIF, 'notes', 'C16_mutants_r3.py')).read()
src = src[src.index("KNOWN = {"):].replace("STAGES = ['builder', 'pgident', 'lexq', 'scope', 'skel', 'plan', 'replay']",
                                           "STAGES = ['builder', 'pgident', 'lexq', 'scope', 'skel', 'insp', 'plan', 'replay']")
exec(src)
