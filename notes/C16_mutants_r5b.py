#!/usr/bin/env python3
"""Round-5 mutants, second batch: Planner.checkpoint / PlanWithExclude (atlas) and the oracle's own
tokenizer (harness/cmd/qual/lexq.go lexChains, tied to Qual/StmtLex.v by stage stmtlex).
Usage: VERIF_REPO=/tmp/vw/qual5/repo python3 notes/C16_mutants_r5b.py [TAG ...]"""
import subprocess, os, sys, collections
REPO = os.environ.get('VERIF_REPO', '/tmp/vw/qual5/repo')
VERIF = os.path.dirname(os.path.dirname(os.path.abspath(__file__)))
MIG = "sql/migrate/migrate.go"
LEX = os.path.join(VERIF, "harness/cmd/qual/lexq.go")
M = [
 ("R5i Planner.checkpoint: PlanChanges without p.planOpts (qualifier, indent lost)", [
   (MIG, "\t// No changes mean an empty checkpoint.\n\tif len(changes) == 0 {\n\t\treturn &Plan{Name: name}, nil\n\t}\n\treturn p.drv.PlanChanges(ctx, name, changes, p.planOpts...)",
         "\t// No changes mean an empty checkpoint.\n\tif len(changes) == 0 {\n\t\treturn &Plan{Name: name}, nil\n\t}\n\treturn p.drv.PlanChanges(ctx, name, changes)")]),
 ("R5j Planner.current: the exclude patterns are not handed to the schema-scoped inspection", [
   (MIG, "\t\treturn SchemaConn(p.drv, \"\", &schema.InspectOptions{\n\t\t\tExclude: p.exclude,\n\t\t})",
         "\t\treturn SchemaConn(p.drv, \"\", &schema.InspectOptions{})")]),
 ("R5k Planner.checkpoint: the empty schema the replayed one is diffed against has no name", [
   (MIG, "\t\t\ts2 := schema.New(s1.Name).AddAttrs(s1.Attrs...)", "\t\t\ts2 := schema.New(\"\").AddAttrs(s1.Attrs...)")]),
 ("R5l Planner.checkpoint: an empty diff is planned instead of returning the empty plan", [
   (MIG, "\t// No changes mean an empty checkpoint.\n\tif len(changes) == 0 {\n\t\treturn &Plan{Name: name}, nil\n\t}\n\treturn p.drv.PlanChanges(ctx, name, changes, p.planOpts...)",
         "\treturn p.drv.PlanChanges(ctx, name, changes, p.planOpts...)")]),
 ("R5m Planner.current: the exclude patterns are not handed to the realm-scoped inspection", [
   (MIG, "\t\t\treturn RealmConn(p.drv, &schema.InspectRealmOption{\n\t\t\t\tExclude: p.exclude,\n\t\t\t})",
         "\t\t\treturn RealmConn(p.drv, &schema.InspectRealmOption{})")]),
 ("R5n pg alterType default arm: an enum type written with FormatType (raw) instead of enumIdent -- must NOT be absorbed by the recorded finding", [
   ("sql/postgres/migrate_oss.go", "\t\tif e, ok := c.To.Type.Type.(*schema.EnumType); ok {\n\t\t\tf = s.enumIdent(e)\n\t\t} else if f, err = FormatType(c.To.Type.Type); err != nil {",
    "\t\tif f, err = FormatType(c.To.Type.Type); err != nil {")]),
 # the oracle's tokenizer (not atlas code): drift between lexChains and the Coq scanner must be seen
 ("T1 TOKENIZER lexChains: backslash escapes honoured in PostgreSQL strings too", [
   (LEX, "if stmt[j] == '\\\\' && !pg && j+1 < len(stmt) {", "if stmt[j] == '\\\\' && j+1 < len(stmt) {")]),
 ("T2 TOKENIZER lexChains: a chain continues after a dot even when no quote follows", [
   (LEX, "if i+1 < len(stmt) && stmt[i] == '.' && stmt[i+1] == qi {\n\t\t\t\t\ti++\n\t\t\t\t\tcontinue\n\t\t\t\t}",
         "if i+1 < len(stmt) && stmt[i] == '.' && (stmt[i+1] == qi || stmt[i+1] == '.') {\n\t\t\t\t\ti++\n\t\t\t\t\tif stmt[i] != qi {\n\t\t\t\t\t\tbreak\n\t\t\t\t\t}\n\t\t\t\t\tcontinue\n\t\t\t\t}")]),
 ("T3 TOKENIZER lexChains: glued-to-the-word-after check dropped", [
   (LEX, "\t\t\tif i < len(stmt) && isWordByte(stmt[i]) {\n\t\t\t\tbad(\"quoted identifier glued to the word after it at byte \" + itoa(i))\n\t\t\t}\n", "")]),
]
src = open(os.path.join(VERIF, 'notes', 'C16_mutants_r3.py')).read()
src = src[src.index("KNOWN = {"):].replace("STAGES = ['builder', 'pgident', 'lexq', 'scope', 'skel', 'plan', 'replay']",
                                           "STAGES = ['builder', 'pgident', 'lexq', 'scope', 'skel', 'insp', 'stmtlex', 'plan', 'replay']")
src = src.replace("p = os.path.join(REPO, f)", "p = f if os.path.isabs(f) else os.path.join(REPO, f)")
exec(src)
