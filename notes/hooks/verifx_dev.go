// Copyright 2021-present The Atlas Authors. All rights reserved.
// This source code is licensed under the Apache 2.0 license found
// in the LICENSE file in the root directory of this source tree.

//go:build verif

package verifx

import (
	"context"

	"ariga.io/atlas/sql/internal/sqlx"
	"ariga.io/atlas/sql/migrate"
	"ariga.io/atlas/sql/schema"
)

// NormalizeSchema runs sqlx.DevDriver.NormalizeSchema with the given driver as the dev database.
func NormalizeSchema(ctx context.Context, drv migrate.Driver, s *schema.Schema) (*schema.Schema, error) {
	return (&sqlx.DevDriver{Driver: drv}).NormalizeSchema(ctx, s)
}

// NormalizeRealm runs sqlx.DevDriver.NormalizeRealm with the given driver as the dev database.
func NormalizeRealm(ctx context.Context, drv migrate.Driver, r *schema.Realm) (*schema.Realm, error) {
	return (&sqlx.DevDriver{Driver: drv}).NormalizeRealm(ctx, r)
}
