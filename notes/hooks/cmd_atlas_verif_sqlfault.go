// Copyright 2021-present The Atlas Authors. All rights reserved.
// This source code is licensed under the Apache 2.0 license found
// in the LICENSE file in the root directory of this source tree.

//go:build verif

package main

import (
	"context"
	"database/sql"
	"database/sql/driver"
	"errors"
	"net/url"
	"os"
	"regexp"
	"strconv"
	"strings"
	"sync"

	"ariga.io/atlas/sql/sqlclient"
	"ariga.io/atlas/sql/sqlite"

	"github.com/mattn/go-sqlite3"
)

// Verification hook (add-only, compiled with -tags verif only): the URL scheme
// "sqlitefault://<file>" opens the same SQLite database as "sqlite://<file>" through the
// same Atlas driver, but the database/sql driver underneath fails chosen statements with
// an ordinary error:
//
//	VERIF_SQL_FAULT='<regex>@<n>[,<regex>@<n>...]'  the n-th (1-based) statement of this
//	                 process matching <regex> fails with "database is locked"
//	VERIF_SQL_LOG=<file>   one line per statement that reached the driver: "ok", "FAIL" (injected)
//	                 or "ERR" (refused by SQLite itself), then the statement text
//
// Nothing else differs from the sqlite:// scheme (client name, dialect, tx opener).
const verifFaultDriver = "sqlite3_verif_fault"

func init() {
	sql.Register(verifFaultDriver, &verifDrv{})
	sqlclient.Register(
		"sqlitefault",
		sqlclient.OpenerFunc(func(_ context.Context, u *url.URL) (*sqlclient.Client, error) {
			dsn := strings.TrimPrefix(u.String(), u.Scheme+"://")
			db, err := sql.Open(verifFaultDriver, dsn)
			if err != nil {
				return nil, err
			}
			drv, err := sqlite.Open(db)
			if err != nil {
				return nil, errors.Join(err, db.Close())
			}
			return &sqlclient.Client{
				Name:   sqlite.DriverName,
				DB:     db,
				URL:    &sqlclient.URL{URL: u, DSN: dsn, Schema: "main"},
				Driver: drv,
			}, nil
		}),
		sqlclient.RegisterDriverOpener(sqlite.Open),
		sqlclient.RegisterTxOpener(sqlite.OpenTx),
		sqlclient.RegisterURLParser(sqlclient.URLParserFunc(func(u *url.URL) *sqlclient.URL {
			return &sqlclient.URL{URL: u, DSN: strings.TrimPrefix(u.String(), u.Scheme+"://"), Schema: "main"}
		})),
	)
}

type verifFault struct {
	re   *regexp.Regexp
	n    int
	seen int
}

var verifFaults = struct {
	sync.Mutex
	once sync.Once
	fs   []*verifFault
}{}

// verifCall runs one statement through do unless a fault is due for it, and logs it.
func verifCall(q string, do func() error) (err error) {
	verifFaults.once.Do(func() {
		for _, m := range regexp.MustCompile(`(.+?)@(\d+)(?:,|$)`).FindAllStringSubmatch(os.Getenv("VERIF_SQL_FAULT"), -1) {
			n, _ := strconv.Atoi(m[2])
			verifFaults.fs = append(verifFaults.fs, &verifFault{re: regexp.MustCompile(m[1]), n: n})
		}
	})
	verifFaults.Lock()
	fail := false
	for _, f := range verifFaults.fs {
		if f.re.MatchString(q) {
			if f.seen++; f.seen == f.n {
				fail = true
			}
		}
	}
	verifFaults.Unlock()
	tag := "ok   "
	switch {
	case fail:
		tag, err = "FAIL ", errVerifFault
	default:
		if err = do(); err != nil {
			tag = "ERR  "
		}
	}
	if p := os.Getenv("VERIF_SQL_LOG"); p != "" {
		if f, err := os.OpenFile(p, os.O_APPEND|os.O_CREATE|os.O_WRONLY, 0o644); err == nil {
			f.WriteString(tag + strings.Join(strings.Fields(q), " ") + "\n")
			f.Close()
		}
	}
	return err
}

var errVerifFault = errors.New("database is locked")

type (
	verifDrv  struct{ sqlite3.SQLiteDriver }
	verifConn struct{ *sqlite3.SQLiteConn }
)

func (d *verifDrv) Open(dsn string) (driver.Conn, error) {
	c, err := d.SQLiteDriver.Open(dsn)
	if err != nil {
		return nil, err
	}
	return &verifConn{c.(*sqlite3.SQLiteConn)}, nil
}

func (c *verifConn) ExecContext(ctx context.Context, q string, args []driver.NamedValue) (r driver.Result, err error) {
	err = verifCall(q, func() (e error) { r, e = c.SQLiteConn.ExecContext(ctx, q, args); return })
	return
}

func (c *verifConn) QueryContext(ctx context.Context, q string, args []driver.NamedValue) (r driver.Rows, err error) {
	err = verifCall(q, func() (e error) { r, e = c.SQLiteConn.QueryContext(ctx, q, args); return })
	return
}

func (c *verifConn) PrepareContext(ctx context.Context, q string) (s driver.Stmt, err error) {
	err = verifCall(q, func() (e error) { s, e = c.SQLiteConn.PrepareContext(ctx, q); return })
	return
}

func (c *verifConn) Prepare(q string) (driver.Stmt, error) {
	return c.PrepareContext(context.Background(), q)
}

func (c *verifConn) Exec(q string, args []driver.Value) (r driver.Result, err error) {
	err = verifCall(q, func() (e error) { r, e = c.SQLiteConn.Exec(q, args); return })
	return
}

func (c *verifConn) Query(q string, args []driver.Value) (r driver.Rows, err error) {
	err = verifCall(q, func() (e error) { r, e = c.SQLiteConn.Query(q, args); return })
	return
}
