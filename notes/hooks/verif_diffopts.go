// Copyright 2021-present The Atlas Authors. All rights reserved.
// This source code is licensed under the Apache 2.0 license found
// in the LICENSE file in the root directory of this source tree.

//go:build verif

package cmdapi

import (
	"fmt"
	"os"
	"reflect"
	"strings"

	"ariga.io/atlas/sql/mysql"
	"ariga.io/atlas/sql/postgres"
	"ariga.io/atlas/sql/schema"
	"ariga.io/atlas/sql/sqlite"

	"github.com/spf13/cobra"
	"github.com/zclconf/go-cty/cty"
)

// Verification hook (add-only, compiled with -tags verif only): the hidden command
//
//	atlas verif-diffopts -c file://atlas.hcl --dialect sqlite|mysql|postgres --from a.hcl --to b.hcl --seq 'a;a+b;b;a!;-'
//
// loads the named environments of the project file ONCE (EnvByName, i.e. the cached project and
// its Diff policy objects), keeps the value diffOptions(cmd, env) returned for each of them, and
// runs one SchemaDiff of the dialect's DefaultDiff per step of --seq on freshly evaluated copies
// of the two HCL schemas.  A step is a '+'-joined list of environment names: the kept option
// values of these environments, concatenated in that order ("a+a": the same values twice).
// "name!" stands for diffOptions(cmd, env) computed again from the kept Env at that point, "-"
// for no policy (DiffNormalized only).  One line per step: the canonical text of the change set
// (kind:name, nested changes in braces).  Nothing but the flags below is read; nothing is written.
func init() {
	var dialect, from, to, seq string
	cmd := &cobra.Command{
		Use:    "verif-diffopts",
		Hidden: true,
		RunE: func(cmd *cobra.Command, _ []string) error {
			var (
				differ schema.Differ
				eval   func([]byte, any, map[string]cty.Value) error
			)
			switch dialect {
			case "sqlite":
				differ, eval = sqlite.DefaultDiff, sqlite.EvalHCLBytes
			case "mysql":
				differ, eval = mysql.DefaultDiff, mysql.EvalHCLBytes
			case "postgres":
				differ, eval = postgres.DefaultDiff, postgres.EvalHCLBytes
			default:
				return fmt.Errorf("unknown dialect %q", dialect)
			}
			load := func(path string) (*schema.Schema, error) {
				b, err := os.ReadFile(path)
				if err != nil {
					return nil, err
				}
				r := &schema.Realm{}
				if err := eval(b, r, nil); err != nil {
					return nil, err
				}
				if len(r.Schemas) != 1 {
					return nil, fmt.Errorf("%s: expected one schema, got %d", path, len(r.Schemas))
				}
				return r.Schemas[0], nil
			}
			envs := map[string]*Env{}
			kept := map[string][]schema.DiffOption{}
			env := func(name string) (*Env, error) {
				if e, ok := envs[name]; ok {
					return e, nil
				}
				_, es, err := EnvByName(cmd, name, GlobalFlags.Vars)
				if err != nil {
					return nil, err
				}
				if len(es) != 1 {
					return nil, fmt.Errorf("env %q: %d blocks", name, len(es))
				}
				envs[name] = es[0]
				kept[name] = diffOptions(cmd, es[0])
				return es[0], nil
			}
			for _, step := range strings.Split(seq, ";") {
				var opts []schema.DiffOption
				if step == "-" {
					opts = append(opts, schema.DiffNormalized())
				} else {
					for _, n := range strings.Split(step, "+") {
						again := strings.HasSuffix(n, "!")
						e, err := env(strings.TrimSuffix(n, "!"))
						if err != nil {
							return err
						}
						if again {
							opts = append(opts, diffOptions(cmd, e)...)
						} else {
							opts = append(opts, kept[e.Name]...)
						}
					}
				}
				f, err := load(from)
				if err != nil {
					return err
				}
				t, err := load(to)
				if err != nil {
					return err
				}
				changes, err := differ.SchemaDiff(f, t, opts...)
				if err != nil {
					cmd.Println("err")
					continue
				}
				cmd.Println(verifShowChanges(changes))
			}
			return nil
		},
	}
	addGlobalFlags(cmd.Flags())
	cmd.Flags().StringVar(&dialect, "dialect", "sqlite", "")
	cmd.Flags().StringVar(&from, "from", "", "")
	cmd.Flags().StringVar(&to, "to", "", "")
	cmd.Flags().StringVar(&seq, "seq", "-", "")
	Root.AddCommand(cmd)
}

func verifShowChanges(cs []schema.Change) string {
	if len(cs) == 0 {
		return "[]"
	}
	l := make([]string, 0, len(cs))
	for _, c := range cs {
		s := reflect.TypeOf(c).Elem().Name() + ":"
		switch c := c.(type) {
		case *schema.AddTable:
			s += c.T.Name
		case *schema.DropTable:
			s += c.T.Name
		case *schema.ModifyTable:
			s += c.T.Name + "{" + strings.ReplaceAll(verifShowChanges(c.Changes), ";", ",") + "}"
		case *schema.AddColumn:
			s += c.C.Name
		case *schema.DropColumn:
			s += c.C.Name
		case *schema.ModifyColumn:
			s += c.From.Name
		case *schema.AddIndex:
			s += c.I.Name
		case *schema.DropIndex:
			s += c.I.Name
		case *schema.ModifyIndex:
			s += c.From.Name
		case *schema.AddForeignKey:
			s += c.F.Symbol
		case *schema.DropForeignKey:
			s += c.F.Symbol
		case *schema.ModifyForeignKey:
			s += c.From.Symbol
		}
		l = append(l, s)
	}
	return strings.Join(l, ";")
}
