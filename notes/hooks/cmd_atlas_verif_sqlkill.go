// Copyright 2021-present The Atlas Authors. All rights reserved.
// This source code is licensed under the Apache 2.0 license found
// in the LICENSE file in the root directory of this source tree.

//go:build verif

package main

import (
	"context"
	"database/sql"
	"database/sql/driver"
	"errors"
	"net/url"
	"os"
	"regexp"
	"strconv"
	"strings"
	"sync"
	"time"

	"ariga.io/atlas/sql/sqlclient"
	"ariga.io/atlas/sql/sqlite"

	"github.com/mattn/go-sqlite3"
)

// Verification hook (add-only, compiled with -tags verif only): the URL scheme
// "sqlitekill://<file>" opens the same SQLite database as "sqlite://<file>" through the same
// Atlas driver; the database/sql driver underneath can end or suspend the process at a chosen
// SQL statement (crash points at statement granularity everywhere in the command: creation of
// the revisions table, BEGIN / COMMIT / ROLLBACK, reads and writes of the revisions table):
//
//	VERIF_SQL_KILL='<regex>@<n>:before|after'   the process exits with status 137 right before /
//	                 right after the n-th (1-based) statement of this process matching <regex>
//	VERIF_SQL_PAUSE='<regex>@<n>=<path>'  before the n-th matching statement the process creates
//	                 <path>.reached and waits (at most 60 s) until <path> exists
//	VERIF_SQL_LOG=<file>   one line per statement that reached the driver ("ok" / "ERR", text)
//
// Transaction control issued by database/sql (driver.ConnBeginTx / Tx.Commit / Tx.Rollback) is
// reported as the statements BEGIN, COMMIT and ROLLBACK.
const verifKillDriver = "sqlite3_verif_kill"

func init() {
	sql.Register(verifKillDriver, &verifKDrv{})
	sqlclient.Register(
		"sqlitekill",
		sqlclient.OpenerFunc(func(_ context.Context, u *url.URL) (*sqlclient.Client, error) {
			dsn := strings.TrimPrefix(u.String(), u.Scheme+"://")
			db, err := sql.Open(verifKillDriver, dsn)
			if err != nil {
				return nil, err
			}
			drv, err := sqlite.Open(db)
			if err != nil {
				return nil, errors.Join(err, db.Close())
			}
			return &sqlclient.Client{
				Name:   sqlite.DriverName,
				DB:     db,
				URL:    &sqlclient.URL{URL: u, DSN: dsn, Schema: "main"},
				Driver: drv,
			}, nil
		}),
		sqlclient.RegisterDriverOpener(sqlite.Open),
		sqlclient.RegisterTxOpener(sqlite.OpenTx),
		sqlclient.RegisterCodec(sqlite.MarshalHCL, sqlite.EvalHCL),
		sqlclient.RegisterURLParser(sqlclient.URLParserFunc(func(u *url.URL) *sqlclient.URL {
			return &sqlclient.URL{URL: u, DSN: strings.TrimPrefix(u.String(), u.Scheme+"://"), Schema: "main"}
		})),
	)
}

type verifKillSpec struct {
	re    *regexp.Regexp
	n     int
	seen  int
	after bool   // kill after the statement ran
	pause string // "" = kill; else the path to wait for
}

var verifKills = struct {
	sync.Mutex
	once sync.Once
	ks   []*verifKillSpec
}{}

func verifKillLog(tag, q string) {
	if p := os.Getenv("VERIF_SQL_LOG"); p != "" {
		if f, err := os.OpenFile(p, os.O_APPEND|os.O_CREATE|os.O_WRONLY, 0o644); err == nil {
			f.WriteString(tag + strings.Join(strings.Fields(q), " ") + "\n")
			f.Close()
		}
	}
}

// verifKCall runs one statement through do; the process may end or wait around it.
func verifKCall(q string, do func() error) error {
	verifKills.once.Do(func() {
		if m := regexp.MustCompile(`^(.+)@(\d+):(before|after)$`).FindStringSubmatch(os.Getenv("VERIF_SQL_KILL")); m != nil {
			n, _ := strconv.Atoi(m[2])
			verifKills.ks = append(verifKills.ks, &verifKillSpec{re: regexp.MustCompile(m[1]), n: n, after: m[3] == "after"})
		}
		if m := regexp.MustCompile(`^(.+)@(\d+)=(.+)$`).FindStringSubmatch(os.Getenv("VERIF_SQL_PAUSE")); m != nil {
			n, _ := strconv.Atoi(m[2])
			verifKills.ks = append(verifKills.ks, &verifKillSpec{re: regexp.MustCompile(m[1]), n: n, pause: m[3]})
		}
	})
	var due []*verifKillSpec
	verifKills.Lock()
	for _, k := range verifKills.ks {
		if k.re.MatchString(q) {
			if k.seen++; k.seen == k.n {
				due = append(due, k)
			}
		}
	}
	verifKills.Unlock()
	for _, k := range due {
		switch {
		case k.pause != "":
			os.WriteFile(k.pause+".reached", nil, 0o644)
			for i := 0; i < 6000; i++ {
				if _, err := os.Stat(k.pause); err == nil {
					break
				}
				time.Sleep(10 * time.Millisecond)
			}
		case !k.after:
			verifKillLog("KILL ", q)
			os.Exit(137)
		}
	}
	err := do()
	if err != nil {
		verifKillLog("ERR  ", q)
	} else {
		verifKillLog("ok   ", q)
	}
	for _, k := range due {
		if k.pause == "" && k.after {
			verifKillLog("KILLA", q)
			os.Exit(137)
		}
	}
	return err
}

type (
	verifKDrv  struct{ sqlite3.SQLiteDriver }
	verifKConn struct{ *sqlite3.SQLiteConn }
	verifKTx   struct{ driver.Tx }
)

func (d *verifKDrv) Open(dsn string) (driver.Conn, error) {
	c, err := d.SQLiteDriver.Open(dsn)
	if err != nil {
		return nil, err
	}
	return &verifKConn{c.(*sqlite3.SQLiteConn)}, nil
}

func (c *verifKConn) ExecContext(ctx context.Context, q string, args []driver.NamedValue) (r driver.Result, err error) {
	err = verifKCall(q, func() (e error) { r, e = c.SQLiteConn.ExecContext(ctx, q, args); return })
	return
}

func (c *verifKConn) QueryContext(ctx context.Context, q string, args []driver.NamedValue) (r driver.Rows, err error) {
	err = verifKCall(q, func() (e error) { r, e = c.SQLiteConn.QueryContext(ctx, q, args); return })
	return
}

func (c *verifKConn) PrepareContext(ctx context.Context, q string) (s driver.Stmt, err error) {
	err = verifKCall(q, func() (e error) { s, e = c.SQLiteConn.PrepareContext(ctx, q); return })
	return
}

func (c *verifKConn) Prepare(q string) (driver.Stmt, error) {
	return c.PrepareContext(context.Background(), q)
}

func (c *verifKConn) Exec(q string, args []driver.Value) (r driver.Result, err error) {
	err = verifKCall(q, func() (e error) { r, e = c.SQLiteConn.Exec(q, args); return })
	return
}

func (c *verifKConn) Query(q string, args []driver.Value) (r driver.Rows, err error) {
	err = verifKCall(q, func() (e error) { r, e = c.SQLiteConn.Query(q, args); return })
	return
}

func (c *verifKConn) BeginTx(ctx context.Context, opts driver.TxOptions) (t driver.Tx, err error) {
	err = verifKCall("BEGIN", func() (e error) { t, e = c.SQLiteConn.BeginTx(ctx, opts); return })
	if err != nil {
		return nil, err
	}
	return &verifKTx{t}, nil
}

func (c *verifKConn) Begin() (driver.Tx, error) {
	return c.BeginTx(context.Background(), driver.TxOptions{})
}

func (t *verifKTx) Commit() error   { return verifKCall("COMMIT", t.Tx.Commit) }
func (t *verifKTx) Rollback() error { return verifKCall("ROLLBACK", t.Tx.Rollback) }
