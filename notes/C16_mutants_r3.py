#!/usr/bin/env python3
"""Round-3 mutants of C16 (gap 1: qualifiers / names with special characters; gap 2: plans made
from a replayed history).  Usage: python3 notes/C16_mutants_r3.py [TAG ...]
Each mutant is a list of (file, old, new) edits applied to the scratch repo, built, checked with
`./check C16 --tier quick`, and reverted."""
import subprocess, os, sys, collections
REPO = os.environ.get('VERIF_REPO', '/tmp/vw/qual3/repo')
VERIF = os.path.dirname(os.path.dirname(os.path.abspath(__file__)))
SQLX, PG, MY, MYD, MIG = ("sql/internal/sqlx/sqlx.go", "sql/postgres/migrate_oss.go", "sql/mysql/migrate_oss.go",
                          "sql/mysql/driver_oss.go", "sql/migrate/migrate.go")
M = [
 # ---- gap 1
 ("G1a sqlx mayQualify: a dotted custom qualifier is split into catalog.schema identifiers", [
   (SQLX, "\t\tif *b.Schema != \"\" {\n\t\t\tb.Ident(*b.Schema)\n\t\t\tb.rewriteLastByte('.')\n\t\t}",
          "\t\tif *b.Schema != \"\" {\n\t\t\tfor _, part := range strings.Split(*b.Schema, \".\") {\n\t\t\t\tb.Ident(part)\n\t\t\t\tb.rewriteLastByte('.')\n\t\t\t}\n\t\t}")]),
 ("G1b pg typeIdent: the qualifier is folded to lower case", [
   (PG, "\t\t\treturn fmt.Sprintf(\"%q.%q\", *s.SchemaQualifier, name)",
        "\t\t\treturn fmt.Sprintf(\"%q.%q\", strings.ToLower(*s.SchemaQualifier), name)")]),
 ("G1c pg schemaPrefix: the qualifier is quoted only when it is not a plain word (keywords stay bare)", [
   (PG, "\t\tif *s.SchemaQualifier != \"\" {\n\t\t\treturn fmt.Sprintf(\"%q.\", *s.SchemaQualifier)\n\t\t}",
        "\t\tif q := *s.SchemaQualifier; q != \"\" {\n\t\t\tif strings.Trim(q, \"abcdefghijklmnopqrstuvwxyz_\") == \"\" {\n\t\t\t\treturn q + \".\"\n\t\t\t}\n\t\t\treturn fmt.Sprintf(\"%q.\", q)\n\t\t}")]),
 ("G1d mysql StmtBuilder: the qualifier is lower-cased (lower_case_table_names habit)", [
   (MYD, "\treturn &sqlx.Builder{\n\t\tQuoteOpening: '`',\n\t\tQuoteClosing: '`',\n\t\tSchema:       opts.SchemaQualifier,",
         "\tif opts.SchemaQualifier != nil {\n\t\tl := strings.ToLower(*opts.SchemaQualifier)\n\t\topts.SchemaQualifier = &l\n\t}\n\treturn &sqlx.Builder{\n\t\tQuoteOpening: '`',\n\t\tQuoteClosing: '`',\n\t\tSchema:       opts.SchemaQualifier,")]),
 ("G1e sqlx mayQualify: the qualifier is trimmed at the first space", [
   (SQLX, "\t\t\tb.Ident(*b.Schema)\n\t\t\tb.rewriteLastByte('.')",
          "\t\t\tb.Ident(strings.Fields(*b.Schema)[0])\n\t\t\tb.rewriteLastByte('.')")]),
 ("G1f pg DROP INDEX reverse: prefix written through Ident of qualifier + '.' + name (one identifier)", [
   (PG, "\t\t\t\tb.WriteString(s.schemaPrefix(t.Schema))\n\t\t\t\tb.Ident(idx.Name)",
        "\t\t\t\tif s.SchemaQualifier != nil && *s.SchemaQualifier != \"\" {\n\t\t\t\t\tb.Ident(*s.SchemaQualifier + \".\" + idx.Name)\n\t\t\t\t} else {\n\t\t\t\t\tb.WriteString(s.schemaPrefix(t.Schema))\n\t\t\t\t\tb.Ident(idx.Name)\n\t\t\t\t}")]),
 ("G1h HARMLESS sqlx Ident: quote characters inside a name are doubled (repair of the recorded finding)", [
   (SQLX, "\t\tb.WriteByte(b.QuoteOpening)\n\t\tb.WriteString(s)\n\t\tb.WriteByte(b.QuoteClosing)",
          "\t\tb.WriteByte(b.QuoteOpening)\n\t\tb.WriteString(strings.ReplaceAll(s, string(b.QuoteClosing), string(b.QuoteClosing)+string(b.QuoteClosing)))\n\t\tb.WriteByte(b.QuoteClosing)")]),
 ("G1i HARMLESS sqlx mayQualify: qualifier written through a local variable and WriteByte('.')", [
   (SQLX, "\t\t\tb.Ident(*b.Schema)\n\t\t\tb.rewriteLastByte('.')",
          "\t\t\tq := *b.Schema\n\t\t\tb.WriteByte(b.QuoteOpening)\n\t\t\tb.WriteString(q)\n\t\t\tb.WriteByte(b.QuoteClosing)\n\t\t\tb.WriteByte('.')")]),
 # ---- gap 2
 ("G2a Planner.plan: the plan options (qualifier, indent) are not passed to PlanChanges", [
   (MIG, "\tif len(changes) == 0 {\n\t\treturn nil, ErrNoPlan\n\t}\n\treturn p.drv.PlanChanges(ctx, name, changes, p.planOpts...)",
         "\tif len(changes) == 0 {\n\t\treturn nil, ErrNoPlan\n\t}\n\treturn p.drv.PlanChanges(ctx, name, changes)")]),
 ("G2b Planner.plan: the replayed schema is not renamed to the desired name", [
   (MIG, "\t\t\tif s1.Name != s2.Name {\n\t\t\t\ts1.Name = s2.Name\n\t\t\t}\n\t\t\tchanges, err = p.drv.SchemaDiff(&s1, &s2, p.diffOpts...)",
         "\t\t\tchanges, err = p.drv.SchemaDiff(&s1, &s2, p.diffOpts...)")]),
 ("G2c mysql fks: REFERENCES through RefTable(altered table, parent) as its doc comment suggests", [
   (MY, "func (s *state) fks(commaF func(any, func(int, *sqlx.Builder) error) error, fks ...*schema.ForeignKey) error {",
        "func (s *state) fks(t *schema.Table, commaF func(any, func(int, *sqlx.Builder) error) error, fks ...*schema.ForeignKey) error {"),
   (MY, "\t\tb.P(\"REFERENCES\").Table(fk.RefTable)", "\t\tb.P(\"REFERENCES\").RefTable(t, fk.RefTable)"),
   (MY, "s.fks(b.MapIndentErr, add.T.ForeignKeys...)", "s.fks(add.T, b.MapIndentErr, add.T.ForeignKeys...)"),
   (MY, "s.fks(b.MapCommaErr, change.F)", "s.fks(t, b.MapCommaErr, change.F)")]),
 ("G2d Planner.plan: the qualifier is honoured only when the replayed and desired names agree", [
   (MIG, "\t\t\tif s1.Name != s2.Name {\n\t\t\t\ts1.Name = s2.Name\n\t\t\t}",
         "\t\t\tif s1.Name != s2.Name {\n\t\t\t\ts1.Name = s2.Name\n\t\t\t\tp.planOpts = append(p.planOpts, func(o *PlanOptions) { o.SchemaQualifier = nil })\n\t\t\t}")]),
 ("G2e pg dropTable reverse / addTable: enum columns of a replayed table keep their own schema (typeIdent prefers ns over the empty qualifier)", [
   (PG, "\tcase s.SchemaQualifier != nil:\n\t\tif *s.SchemaQualifier != \"\" {\n\t\t\treturn fmt.Sprintf(\"%q.%q\", *s.SchemaQualifier, name)\n\t\t}",
        "\tcase s.SchemaQualifier != nil && *s.SchemaQualifier != \"\":\n\t\treturn fmt.Sprintf(\"%q.%q\", *s.SchemaQualifier, name)")]),
 ("G2h CheckChangesScope: the requested custom qualifier is counted as a schema name", [
   ("sql/internal/sqlx/plan.go", "\tnames := make(map[string]struct{})\n\tfor _, c := range changes {\n\t\tvar t *schema.Table",
    "\tnames := make(map[string]struct{})\n\tif q := V(opts.SchemaQualifier); q != \"\" {\n\t\tnames[q] = struct{}{}\n\t}\n\tfor _, c := range changes {\n\t\tvar t *schema.Table")]),
 ("G2g HARMLESS Planner.plan: the two copies are made one after the other and the name is assigned unconditionally", [
   (MIG, "\t\t\ts1, s2 := *current.Schemas[0], *desired.Schemas[0]\n\t\t\t// Avoid comparing schema names when scope is limited to one schema,\n\t\t\t// and the schema qualifier is controlled by the caller.\n\t\t\tif s1.Name != s2.Name {\n\t\t\t\ts1.Name = s2.Name\n\t\t\t}",
         "\t\t\ts2 := *desired.Schemas[0]\n\t\t\ts1 := *current.Schemas[0]\n\t\t\t// Avoid comparing schema names when scope is limited to one schema,\n\t\t\t// and the schema qualifier is controlled by the caller.\n\t\t\ts1.Name = s2.Name")]),
 ("G2f HARMLESS Planner.plan: the replayed schema itself is renamed (repair of the recorded finding)", [
   (MIG, "\t\t\ts1, s2 := *current.Schemas[0], *desired.Schemas[0]\n\t\t\t// Avoid comparing schema names when scope is limited to one schema,\n\t\t\t// and the schema qualifier is controlled by the caller.\n\t\t\tif s1.Name != s2.Name {\n\t\t\t\ts1.Name = s2.Name\n\t\t\t}\n\t\t\tchanges, err = p.drv.SchemaDiff(&s1, &s2, p.diffOpts...)",
         "\t\t\ts1, s2 := current.Schemas[0], desired.Schemas[0]\n\t\t\t// Avoid comparing schema names when scope is limited to one schema,\n\t\t\t// and the schema qualifier is controlled by the caller. The replayed\n\t\t\t// schema is renamed itself: its tables and types point to it.\n\t\t\tif s1.Name != s2.Name {\n\t\t\t\ts1.Name = s2.Name\n\t\t\t}\n\t\t\tchanges, err = p.drv.SchemaDiff(s1, s2, p.diffOpts...)")]),
]
# the mutants of the first rounds (notes/C16_mutants.py), re-run with tag prefix "M"
if os.environ.get('WITH_OLD'):
    src = open(os.path.join(VERIF, 'notes', 'C16_mutants.py')).read()
    ns = {}
    exec(src[src.index('M = ['):src.index('only = sys.argv')], ns)
    M = [(n, [(f, o, w)]) for (n, f, o, w) in ns['M']] + M
KNOWN = {'scope-accepts-cross-schema-enum', 'scope-accepts-cross-schema-other', 'scope-accepts-cross-schema-enum-and-other',
         'plan-accepts-cross-schema-enum', 'plan-accepts-cross-schema-other', 'ident-quote-unescaped', 'ident-goquote-escaped',
         'nextval-literal-unescaped', 'replay-plan-rejected-two-schemas', 'replay-history-unreadable-quote-char'}
STAGES = ['builder', 'pgident', 'lexq', 'scope', 'skel', 'plan', 'replay']
only = sys.argv[1:]
env = dict(os.environ, VERIF_REPO=REPO, GOFLAGS='-mod=mod', GOPROXY='off')
for name, edits in M:
    tag = name.split()[0]
    if only and tag not in only:
        continue
    saved = {}
    ok = True
    for f, old, new in edits:
        p = os.path.join(REPO, f)
        src = open(p).read()
        saved.setdefault(p, src)
        if src.count(old) != 1:
            print(tag, "PATTERN COUNT", src.count(old), "in", f); ok = False; break
        open(p, 'w').write(src.replace(old, new))
    try:
        if not ok:
            continue
        b = subprocess.run(['go', 'build', '-tags', 'verif', './sql/...'], cwd=REPO, env=env, capture_output=True, text=True)
        if b.returncode != 0:
            print(tag, "DOES NOT COMPILE", b.stderr[:400]); continue
        r = subprocess.run(['./check', 'C16', '--tier', 'quick'], cwd=VERIF, env=env, capture_output=True, text=True)
        out = r.stdout + r.stderr
        lines = [l for l in out.splitlines() if not l.startswith('KNOWN-FINDING')]
        viol = [l for l in lines if 'VIOLATION' in l]
        det = []
        for st in STAGES:
            w = os.path.join(VERIF, 'work', 'C16', st)
            def idx(f):
                d = collections.defaultdict(list)
                try:
                    for l in open(os.path.join(w, f), errors='replace'):
                        d[l.split(' ', 1)[0]].append(l)
                except FileNotFoundError:
                    pass
                return d
            if st != 'plan':
                a, bb = idx('impl.txt'), idx('model.txt')
                n = sum(1 for k in a if a[k] != bb.get(k))
                if n:
                    det.append('%s:corr=%d' % (st, n))
            cls = collections.Counter()
            first = {}
            try:
                for l in open(os.path.join(w, 'oracle.txt'), errors='replace'):
                    pp = l.rstrip('\n').split('\t')
                    if len(pp) > 2:
                        cls[pp[1]] += 1
                        first.setdefault(pp[1], pp[0] + ': ' + pp[2][:260])
            except FileNotFoundError:
                pass
            new = {k: v for k, v in cls.items() if k not in KNOWN}
            if new:
                det.append('%s:oracle=%s' % (st, dict(new)))
                k = sorted(new)[0]
                det.append('   e.g. [%s] %s' % (k, first[k]))
            gone = [k for k in KNOWN if st in ('plan', 'replay') and k.startswith(('ident-', 'replay-')) and False]
        nf = 'no-failing-input-found' if any('no-failing-input-found' in v for v in viol) else ''
        print("==", name)
        print("   exit", r.returncode, nf, "|", '\n      '.join(det))
        print("   ", lines[-1] if lines else '')
        sys.stdout.flush()
    finally:
        for p, src in saved.items():
            open(p, 'w').write(src)
subprocess.run(['git', '-C', REPO, 'status', '--short'])
