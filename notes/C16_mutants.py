import subprocess, os, sys, re
REPO='/tmp/vw/qual/repo'
VERIF='/tmp/vw/qual/verif'
M = [
 ("M1 mysql addTable: b.Table(add.T) -> b.Ident(add.T.Name)", "sql/mysql/migrate_oss.go",
  "\tb.Table(add.T)\n\tif len(add.T.Columns) == 0 {", "\tb.Ident(add.T.Name)\n\tif len(add.T.Columns) == 0 {"),
 ("M2 mysql renameTable: reverse statement unqualified", "sql/mysql/migrate_oss.go",
  'Reverse: s.Build("RENAME TABLE").Table(c.To).P("TO").Table(c.From).String(),', 'Reverse: s.Build("RENAME TABLE").Ident(c.To.Name).P("TO").Table(c.From).String(),'),
 ("M3 pg addIndexes: DROP INDEX without schemaPrefix", "sql/postgres/migrate_oss.go",
  "\t\t\t\tb.WriteString(s.schemaPrefix(t.Schema))\n\t\t\t\tb.Ident(idx.Name)", "\t\t\t\tb.Ident(idx.Name)"),
 ("M4 CheckChangesScope ignores DropSchema", "sql/internal/sqlx/plan.go",
  "case *schema.AddSchema, *schema.DropSchema:\n\t\t\treturn fmt.Errorf(\"%T is not allowed when migration plan is scoped to one schema\", c)", "case *schema.AddSchema:\n\t\t\treturn fmt.Errorf(\"%T is not allowed when migration plan is scoped to one schema\", c)"),
 ("M5 mayQualify: qualifier \"\" treated as unset", "sql/internal/sqlx/sqlx.go",
  "\tcase b.Schema != nil:\n\t\t// Empty means skip prefix.", "\tcase b.Schema != nil && *b.Schema != \"\":\n\t\t// Empty means skip prefix."),
 ("M6 pg typeIdent: qualifier only consulted when the type has no schema", "sql/postgres/migrate_oss.go",
  "\tcase s.SchemaQualifier != nil:\n\t\tif *s.SchemaQualifier != \"\" {\n\t\t\treturn fmt.Sprintf(\"%q.%q\", *s.SchemaQualifier, name)", "\tcase s.SchemaQualifier != nil && ns == nil:\n\t\tif *s.SchemaQualifier != \"\" {\n\t\t\treturn fmt.Sprintf(\"%q.%q\", *s.SchemaQualifier, name)"),
 ("M7 pg indexComment: Ident instead of SchemaResource", "sql/postgres/migrate_oss.go",
  's.Build("COMMENT ON INDEX").SchemaResource(t.Schema, idx.Name).P("IS")', 's.Build("COMMENT ON INDEX").Ident(idx.Name).P("IS")'),
 ("M8 pg fks: REFERENCES Ident(name) instead of Table", "sql/postgres/migrate_oss.go",
  'b.P("REFERENCES").Table(fk.RefTable)\n\t\tb.Wrap(func(b *sqlx.Builder) {\n\t\t\tb.MapComma(fk.RefColumns, func(i int, b *sqlx.Builder) {\n\t\t\t\tb.Ident(fk.RefColumns[i].Name)\n\t\t\t})\n\t\t})\n\t\tif fk.OnUpdate != "" {\n\t\t\tb.P("ON UPDATE", string(fk.OnUpdate))\n\t\t}\n\t\tif fk.OnDelete != "" {\n\t\t\tb.P("ON DELETE", string(fk.OnDelete))\n\t\t}\n\t})',
  'b.P("REFERENCES").Ident(fk.RefTable.Name)\n\t\tb.Wrap(func(b *sqlx.Builder) {\n\t\t\tb.MapComma(fk.RefColumns, func(i int, b *sqlx.Builder) {\n\t\t\t\tb.Ident(fk.RefColumns[i].Name)\n\t\t\t})\n\t\t})\n\t\tif fk.OnUpdate != "" {\n\t\t\tb.P("ON UPDATE", string(fk.OnUpdate))\n\t\t}\n\t\tif fk.OnDelete != "" {\n\t\t\tb.P("ON DELETE", string(fk.OnDelete))\n\t\t}\n\t})'),
 ("M9 CheckChangesScope: len(names) > 2", "sql/internal/sqlx/plan.go", "if len(names) > 1 {", "if len(names) > 2 {"),
 ("M10 Builder.P: no space suppression after '(' (harmless for C16)", "sql/internal/sqlx/sqlx.go",
  "[]byte{' ', '(', '\\n'}", "[]byte{' ', '\\n'}"),
 ("M11 RefTable: SameSchema test dropped (not used by the OSS planners)", "sql/internal/sqlx/sqlx.go",
  ' && !SameSchema(childT.Schema, parentT.Schema) {', ' {'),
 ("M12 pg columnComment: table.column without qualifier", "sql/postgres/migrate_oss.go",
  's.Build("COMMENT ON COLUMN").TableResource(t, c)', 's.Build("COMMENT ON COLUMN").Ident(t.Name).Ident(c.Name)'),
 ("M13 pg createDropSeq: OWNED BY without schemaPrefix", "sql/postgres/migrate_oss.go",
  'P(fmt.Sprintf(`%s%q.%q`, s.schemaPrefix(t.Schema), t.Name, c.To.Name)).', 'P(fmt.Sprintf(`%q.%q`, t.Name, c.To.Name)).'),
 ("M14 CheckChangesScope: DropTable not scoped", "sql/internal/sqlx/plan.go",
  "\t\tcase *schema.DropTable:\n\t\t\tt = c.T\n\t\tcase *schema.RenameTable:", "\t\tcase *schema.RenameTable:"),
 ("M15 mysql alterTable head: Table(t) instead of SchemaResource (harmless refactor)", "sql/mysql/migrate_oss.go",
  's.Build("ALTER TABLE").SchemaResource(t.Schema, name)', 's.Build("ALTER TABLE").Table(&schema.Table{Name: name, Schema: t.Schema})'),
 ("M16 pg RenameIndex: reverse statement unqualified", "sql/postgres/migrate_oss.go",
  'Reverse: s.Build("ALTER INDEX").SchemaResource(modify.T.Schema, change.To.Name)', 'Reverse: s.Build("ALTER INDEX").Ident(change.To.Name)'),
 ("M17 Builder.Clone keeps... mayQualify custom qualifier written twice? no: Ident(*b.Schema) dropped rewrite '.'", "sql/internal/sqlx/sqlx.go",
  "\t\t\tb.Ident(*b.Schema)\n\t\t\tb.rewriteLastByte('.')", "\t\t\tb.Ident(*b.Schema)"),
 ("M19 revert repair: enum arm without the t.Schema.Name guard", "sql/internal/sqlx/plan.go",
  'e.Schema.Name != "" && t.Schema != nil && t.Schema.Name != "" {', 'e.Schema.Name != "" && t.Schema != nil {'),
 ("M20 RenameTable scope: only the From end is recorded", "sql/internal/sqlx/plan.go",
  "for _, t := range []*schema.Table{c.From, c.To} {", "for _, t := range []*schema.Table{c.From} {"),
 ("M21 revert repair: RenameObject reverse through Ident", "sql/postgres/migrate_oss.go",
  'Reverse: s.Build("ALTER TYPE").P(s.enumIdent(e2), "RENAME TO").Ident(e1.T).String(),', 'Reverse: s.Build("ALTER TYPE").Ident(e2.T).P("RENAME TO").Ident(e1.T).String(),'),
 ("M22 revert repair: DROP INDEX prefix only when the table has a Schema", "sql/postgres/migrate_oss.go",
  "\t\t\t\tb.WriteString(s.schemaPrefix(t.Schema))\n\t\t\t\tb.Ident(idx.Name)", "\t\t\t\tif t.Schema != nil {\n\t\t\t\t\tb.WriteString(s.schemaPrefix(t.Schema))\n\t\t\t\t}\n\t\t\t\tb.Ident(idx.Name)"),
 ("M18 CheckChangesScope: ModifySchema allowed in every mode", "sql/internal/sqlx/plan.go",
  "case !opts.Mode.Is(migrate.PlanModeInPlace):", "case false:"),
]
only = sys.argv[1:] 
env = dict(os.environ, VERIF_REPO=REPO, GOFLAGS='-mod=mod', GOPROXY='off')
for name, f, old, new in M:
    tag = name.split()[0]
    if only and tag not in only: continue
    p = os.path.join(REPO, f)
    src = open(p).read()
    if src.count(old) != 1:
        print(tag, "PATTERN COUNT", src.count(old)); continue
    open(p,'w').write(src.replace(old,new))
    try:
        b = subprocess.run(['go','build','-tags','verif','./sql/...'],cwd=REPO,env=env,capture_output=True,text=True)
        if b.returncode != 0:
            print(tag, "DOES NOT COMPILE", b.stderr[:300]); continue
        r = subprocess.run(['./check','C16','--tier','quick'],cwd=VERIF,env=env,capture_output=True,text=True)
        out = r.stdout + r.stderr
        lines = [l for l in out.splitlines() if not l.startswith('KNOWN-FINDING')]
        viol = [l for l in lines if 'VIOLATION' in l]
        last = lines[-1] if lines else ''
        det=[]
        import collections
        for st in ['builder','pgident','scope','skel','plan']:
            w=os.path.join(VERIF,'work','C16',st)
            def idx(f):
                d=collections.defaultdict(list)
                try:
                    for l in open(os.path.join(w,f),errors='replace'): d[l.split(' ',1)[0]].append(l)
                except FileNotFoundError: pass
                return d
            if st!='plan':
                a,b=idx('impl.txt'),idx('model.txt')
                n=sum(1 for k in a if a[k]!=b.get(k))
                if n: det.append('%s:corr=%d'%(st,n))
            cls=collections.Counter()
            try:
                for l in open(os.path.join(w,'oracle.txt'),errors='replace'):
                    pp=l.split('\t')
                    if len(pp)>1: cls[pp[1]]+=1
            except FileNotFoundError: pass
            known={'scope-accepts-cross-schema-enum','scope-accepts-cross-schema-other','scope-accepts-cross-schema-enum-and-other','plan-accepts-cross-schema-enum','plan-accepts-cross-schema-other'}
            new={k:v for k,v in cls.items() if k not in known}
            if new: det.append('%s:oracle=%s'%(st,dict(new)))
        nf='no-failing-input-found' if any('no-failing-input-found' in v for v in viol) else ''
        print("==", name); print("   exit", r.returncode, nf, "|", '; '.join(det))
        sys.stdout.flush()
    finally:
        open(p,'w').write(src)
subprocess.run(['git','-C',REPO,'status','--short'])
