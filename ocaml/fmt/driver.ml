(* Driver for the extracted M-FMT model.  modes:
   plan   <id> <format> <10 option bits> <now> <version> <name> <delim> <ndir> <dir>... <nchanges> {<cmd> <comment> <nrev> <rev>...}
   quote  <id> <fn> <10 option bits> <arg>...
   files  <id> <format> <n> <name>...
   (all strings hex, "-" = empty) *)
open Model

let rec pos_of_int i = if i = 1 then XH else if i land 1 = 0 then XO (pos_of_int (i lsr 1)) else XI (pos_of_int (i lsr 1))
let n_of_int i = if i = 0 then N0 else Npos (pos_of_int i)
let rec int_of_pos = function XH -> 1 | XO p -> 2 * int_of_pos p | XI p -> 2 * int_of_pos p + 1
let int_of_n = function N0 -> 0 | Npos p -> int_of_pos p

let byte_tbl = Array.init 256 n_of_int
let bytes_of_string (s : string) =
  let r = ref [] in
  for i = String.length s - 1 downto 0 do r := byte_tbl.(Char.code s.[i]) :: !r done; !r
let string_of_bytes b =
  let buf = Buffer.create 64 in
  Stdlib.List.iter (fun x -> Buffer.add_char buf (Char.chr (int_of_n x))) b; Buffer.contents buf
let unhex (h : string) : string =
  if h = "-" then "" else
  String.init (String.length h / 2) (fun i -> Char.chr (int_of_string ("0x" ^ String.sub h (2 * i) 2)))
let hexdigits = "0123456789abcdef"
let hex (s : string) : string =
  if s = "" then "-" else begin
    let b = Bytes.create (2 * String.length s) in
    String.iteri (fun i c -> Bytes.set b (2*i) hexdigits.[Char.code c lsr 4]; Bytes.set b (2*i+1) hexdigits.[Char.code c land 15]) s;
    Bytes.to_string b end
let hexb b = hex (string_of_bytes b)
let ub h = bytes_of_string (unhex h)

let opts_of_bits (b : string) : opts =
  let g i = b.[i] = '1' in
  { matchBegin = g 0; matchBeginAtomic = g 1; matchBeginTryCatch = g 2; matchDollarQuote = g 3;
    backslashEscapes = g 4; escapedStringExt = g 5; hashComments = g 6; goCommand = g 7;
    beginEndTerminator = g 8; omitDelimiter = g 9 }

let format_of = function
  | "atlas" -> FAtlas | "golang-migrate" -> FGolangMigrate | "goose" -> FGoose
  | "flyway" -> FFlyway | "liquibase" -> FLiquibase | "dbmate" -> FDBMate
  | s -> failwith ("format " ^ s)

let kind_name = function
  | EUnclosedParen -> "unclosed-paren" | EUnexpectedParen -> "unexpected-paren" | EUnclosedQuote -> "unclosed-quote"
  | EEmptyDelim -> "empty-delim" | ENoInputAfterDelim -> "no-input-after-delim"
  | EUnexpectedDollar -> "unexpected-dollar" | EUnclosedDollar -> "unclosed-dollar"
  | _ -> "other"

let semi = bytes_of_string ";"

let process mode oc line =
  if line <> "" then begin
    let toks = Array.of_list (Stdlib.List.filter (fun s -> s <> "") (String.split_on_char ' ' line)) in
    let id = toks.(0) in
    match mode with
    | "plan" ->
      let f = format_of toks.(1) in
      let o = opts_of_bits toks.(2) in
      let now = ub toks.(3) and version = ub toks.(4) and name = ub toks.(5) and delim = ub toks.(6) in
      let i = ref 7 in
      let next () = let t = toks.(!i) in incr i; t in
      let ndir = int_of_string (next ()) in
      let dirs = Stdlib.List.init ndir (fun _ -> ub (next ())) in
      let nch = int_of_string (next ()) in
      let changes = Stdlib.List.init nch (fun _ ->
        let cmd = ub (next ()) in
        let cm = ub (next ()) in
        let nr = int_of_string (next ()) in
        let rs = Stdlib.List.init nr (fun _ -> ub (next ())) in
        { c_cmd = cmd; c_comment = cm; c_reverse = rs }) in
      let p = { p_version = version; p_name = name; p_delim = delim; p_directives = dirs; p_changes = changes } in
      let files = format_files f now p in
      Printf.fprintf oc "%s files %d%s\n" id (Stdlib.List.length files)
        (String.concat "" (Stdlib.List.map (fun (n, c) -> " " ^ hexb n ^ "=" ^ hexb c) files));
      let names = dir_files f (Stdlib.List.map fst files) in
      Printf.fprintf oc "%s dir %d%s\n" id (Stdlib.List.length names)
        (String.concat "" (Stdlib.List.map (fun n -> " " ^ hexb n) names));
      (* read every selected file, in order; the first error wins *)
      let rec go names acc =
        match names with
        | [] -> "read ok " ^ string_of_int (Stdlib.List.length acc) ^ String.concat "" (Stdlib.List.map (fun t -> " " ^ hexb t) acc)
        | n :: rest ->
          let content = Stdlib.List.assoc n files in
          (match read f o content with
           | RStmts l -> go rest (acc @ Stdlib.List.map (fun (s : stmt) -> s.text) l)
           | RScanErr k -> "read err " ^ kind_name k
           | RPragmaErr -> "read err pragma"
           | RBad -> "read bad")
      in
      Printf.fprintf oc "%s %s\n" id (go names []);
      let d = match f with FAtlas -> (match delim with [] -> semi | _ -> delim) | _ -> semi in
      let bits = String.concat "" (Stdlib.List.map (fun c -> if scan_closed o d c.c_cmd then "1" else "0") changes) in
      Printf.fprintf oc "%s closed %s\n" id (if bits = "" then "-" else bits);
      Printf.fprintf oc "%s hyp %b\n" id (roundtrip_hyp f o now p)
    | "read" ->
      let f = format_of toks.(1) in
      let o = opts_of_bits toks.(2) in
      let content = ub toks.(3) in
      Printf.fprintf oc "%s %s\n" id
        (match read f o content with
         | RStmts l -> "read ok " ^ string_of_int (Stdlib.List.length l) ^ String.concat "" (Stdlib.List.map (fun (s : stmt) -> " " ^ hexb s.text) l)
         | RScanErr k -> "read err " ^ kind_name k
         | RPragmaErr -> "read err pragma"
         | RBad -> "read bad")
    | "import" ->
      let f = format_of toks.(1) in
      let n = int_of_string toks.(2) in
      let files = Stdlib.List.init n (fun k -> (ub toks.(3 + 2 * k), ub toks.(4 + 2 * k))) in
      (match import_dir f [] files with
       | None -> Printf.fprintf oc "%s imp err\n" id
       | Some out ->
         let out = Stdlib.List.map (fun (a, b) -> (string_of_bytes a, string_of_bytes b)) out in
         (* a later file with the same name overwrites an earlier one; the directory lists by name *)
         let tbl = Hashtbl.create 8 in
         Stdlib.List.iter (fun (a, b) -> Hashtbl.replace tbl a b) out;
         let names = Stdlib.List.sort_uniq compare (Stdlib.List.map fst out) in
         Printf.fprintf oc "%s imp ok %d%s\n" id (Stdlib.List.length names)
           (String.concat "" (Stdlib.List.map (fun a -> " " ^ hex a ^ "=" ^ hex (Hashtbl.find tbl a)) names)))
    | "files" ->
      let f = format_of toks.(1) in
      let n = int_of_string toks.(2) in
      let names = Stdlib.List.init n (fun k -> ub toks.(3 + k)) in
      let sel = dir_files f names in
      Printf.fprintf oc "%s dir %d%s\n" id (Stdlib.List.length sel)
        (String.concat "" (Stdlib.List.map (fun n -> " " ^ hexb n) sel))
    | "quote" ->
      let fn = toks.(1) in
      let o = opts_of_bits toks.(2) in
      let arg k = ub toks.(3 + k) in
      let out =
        match fn with
        | "single_quote" ->
          (* token after the argument: what the real strconv.Unquote returns for it ("!" = error, "-"/hex = value) *)
          let u = if Array.length toks > 4 then toks.(4) else "!" in
          let unq _ = if u = "!" then None else Some (ub u) in
          (match single_quote unq (arg 0) with Some r -> r | None -> bytes_of_string "<err>")
        | "pg_quote" -> pg_quote (arg 0)
        | "mysql_quote" ->
          (* tokens after the argument: the non-printable non-ASCII runes of the input (decimal) *)
          let np = Stdlib.List.init (Array.length toks - 4) (fun k -> n_of_int (int_of_string toks.(4 + k))) in
          mysql_quote np (arg 0)
        | "format_values" -> format_values (Stdlib.List.init (Array.length toks - 3) arg)
        | "ident" -> ident (Stdlib.List.hd (arg 0)) (Stdlib.List.hd (arg 1)) (arg 2)
        | s -> failwith ("fn " ^ s) in
      Printf.fprintf oc "%s out %s closed=%b\n" id (hexb out) (lit_closed o out)
    | m -> failwith ("mode " ^ m)
  end

let () =
  let mode = if Array.length Sys.argv > 1 then Sys.argv.(1) else "plan" in
  let lines = ref [] in
  (try while true do lines := input_line stdin :: !lines done with End_of_file -> ());
  let arr = Array.of_list (Stdlib.List.rev !lines) in
  let n = Array.length arr in
  let nproc = if n < 200 then 1 else (try int_of_string (Sys.getenv "VERIF_MODEL_PROCS") with _ -> 14) in
  if nproc = 1 then Array.iter (process mode stdout) arr
  else begin
    let files = Array.init nproc (fun _ -> Filename.temp_file "fmtmodel" ".txt") in
    let pids = Array.init nproc (fun k ->
      match Unix.fork () with
      | 0 ->
        let oc = open_out files.(k) in
        let i = ref k in
        while !i < n do process mode oc arr.(!i); i := !i + nproc done;
        close_out oc; exit 0
      | pid -> pid) in
    let failed = ref false in
    Array.iter (fun pid -> match Unix.waitpid [] pid with (_, Unix.WEXITED 0) -> () | _ -> failed := true) pids;
    Array.iter (fun f ->
      let ic = open_in f in
      (try while true do print_string (input_line ic); print_char '\n' done with End_of_file -> ());
      close_in ic; Sys.remove f) files;
    if !failed then (prerr_endline "a model worker failed"; exit 3)
  end
