(* Extraction of M-FMT (formatters, readers, closedness, quoting). ExtrOcamlBasic only. *)
Require Extraction.
Require Import ExtrOcamlBasic.
From Atlas Require Import Base.Bytes Lex.LexModel Lex.ClosedModel Lex.FmtModel Lex.FmtImportModel Lex.QuoteModel Lex.FmtHyp.
Extraction Language OCaml.
Extraction "model.ml" format_files up_content read texts dir_files scan_closed delim_ok stmt_text
  goose_text dbmate_text lines roundtrip_hyp import_dir imported_stmts source_stmts
  single_quote pg_quote mysql_quote format_values ident is_quoted lit_closed.
