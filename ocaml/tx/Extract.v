(* Extraction of M-TX (on top of M-EXEC / M-PEND). ExtrOcamlBasic only. *)
Require Extraction.
Require Import ExtrOcamlBasic.
From Atlas Require Import Base.Bytes Exec.ExecModel Exec.PendingModel Exec.RunModel Exec.TxModel Exec.DryModel Exec.FkModel Exec.TxOrderModel Exec.LockModel Exec.CrashPointsModel Exec.DryFlagsModel.
Extraction Language OCaml.
Extraction "model.ml" apply_run crash_state read_revisions migrate_apply apply_changes apply_run_fk apply_changes_fk apply_run_ord locked_apply concurrent_apply point_name all_points migrate_apply_cmd.
