(* Driver for the extracted M-TX model: scenarios of `atlas migrate apply`
   invocations (optionally crashing at a named point) on one database. *)
type str = string
open Model

let rec nat_of_int i = if i <= 0 then O else S (nat_of_int (i - 1))
let rec int_of_nat = function O -> 0 | S n -> 1 + int_of_nat n
let rec pos_of_int i = if i = 1 then XH else if i land 1 = 0 then XO (pos_of_int (i lsr 1)) else XI (pos_of_int (i lsr 1))
let n_of_int i = if i = 0 then N0 else Npos (pos_of_int i)
let rec int_of_pos = function XH -> 1 | XO p -> 2 * int_of_pos p | XI p -> 2 * int_of_pos p + 1
let int_of_n = function N0 -> 0 | Npos p -> int_of_pos p

let bytes_of_string (s : str) : bytes =
  Stdlib.List.init (String.length s) (fun i -> n_of_int (Char.code s.[i]))
let string_of_bytes (b : bytes) : str =
  String.concat "" (Stdlib.List.map (fun x -> String.make 1 (Char.chr (int_of_n x))) b)
let unhex (h : str) : str =
  if h = "-" then "" else
  String.init (String.length h / 2) (fun i -> Char.chr (int_of_string ("0x" ^ String.sub h (2 * i) 2)))
let hex (s : str) : str =
  if s = "" then "-" else String.concat "" (Stdlib.List.init (String.length s) (fun i -> Printf.sprintf "%02x" (Char.code s.[i])))
let hs (b : bytes) : str = Sha256.hs (string_of_bytes b)
let heq (a : str) (b : str) = (a = b)
let b2s b = if b then "1" else "0"

(* journal entry = the number between parentheses of the statement text *)
let stmt_id (s : str) : str =
  try
    let i = String.index s '(' and j = String.index s ')' in
    String.sub s (i + 1) (j - i - 1)
  with Not_found -> "?"

let show_rev (r : str rev) =
  Printf.sprintf "%s:%d:%d:%d:%s:%d" (string_of_bytes r.r_version) (int_of_nat r.r_applied) (int_of_nat r.r_total)
    (Stdlib.List.length r.r_hashes) (b2s r.r_err) (int_of_n r.r_kind)

let show_db (d : str db) =
  Printf.sprintf "journal=[%s] revs=[%s]"
    (String.concat "," (Stdlib.List.map (fun s -> stmt_id (string_of_bytes s)) d.d_journal))
    (String.concat " " (Stdlib.List.map show_rev (read_revisions d.d_tbl)))

(* names of the crash points: the extracted Exec/CrashPointsModel.v (Coq strings -> OCaml) *)
let char_of_ascii (Ascii (b0, b1, b2, b3, b4, b5, b6, b7)) =
  let bit b i = if b then 1 lsl i else 0 in
  Char.chr (bit b0 0 + bit b1 1 + bit b2 2 + bit b3 3 + bit b4 4 + bit b5 5 + bit b6 6 + bit b7 7)
let rec ostring = function EmptyString -> "" | String (a, r) -> Stdlib.String.make 1 (char_of_ascii a) ^ ostring r
let point_name p = ostring (Model.point_name p)
let point_of s =
  match Stdlib.List.find_opt (fun p -> point_name p = s) all_points with
  | Some p -> p | None -> failwith ("point " ^ s)

let toks = ref [||]
let pos = ref 0
let next () = let t = !toks.(!pos) in incr pos; t
let next_int () = int_of_string (next ())

let mode_of = function "none" -> TxNone | "file" -> TxFile | "all" -> TxAll | s -> failwith ("mode " ^ s)

let parse_dir () : tfile list =
  let nfiles = next_int () in
  Stdlib.List.init nfiles (fun _ -> ()) |> Stdlib.List.map (fun () ->
    let v = bytes_of_string (unhex (next ())) in
    let dtok = next () in
    let ckpt = String.length dtok > 0 && dtok.[String.length dtok - 1] = '!' in
    let dtok = if ckpt then String.sub dtok 0 (String.length dtok - 1) else dtok in
    let dir = match dtok with "-" -> None | "bad" -> Some None | m -> Some (Some (mode_of m)) in
    let bad = match next () with "-" -> None | k -> Some (nat_of_int (int_of_string k)) in
    let ns = next_int () in
    let stmts = Stdlib.List.init ns (fun _ -> ()) |> Stdlib.List.map (fun () -> bytes_of_string (unhex (next ()))) in
    { tf_file = { f_version = v; f_stmts = stmts; f_ckpt = ckpt }; tf_directive = dir; tf_bad = bad })

let show_exit = function
  | ADone -> "ok" | APend PNoPending -> "ok" | AFail _ -> "fail" | ADirective -> "fail" | APend _ -> "fail"

(* ---- foreign-key check at commit (FkModel.v) ---- *)
let z_of_int i = if i = 0 then Z0 else if i > 0 then Zpos (pos_of_int i) else Zneg (pos_of_int (-i))
let int_of_z = function Z0 -> 0 | Zpos p -> int_of_pos p | Zneg p -> - (int_of_pos p)
let parse_viol () =
  let t = bytes_of_string (unhex (next ())) in
  let r = next_int () in
  let rf = bytes_of_string (unhex (next ())) in
  let i = next_int () in
  { v_tbl = t; v_row = z_of_int r; v_ref = rf; v_index = z_of_int i }
let parse_viols () = let n = next_int () in Stdlib.List.init n (fun _ -> ()) |> Stdlib.List.map (fun () -> parse_viol ())
let show_viols vs =
  String.concat "," (Stdlib.List.sort compare (Stdlib.List.map (fun v ->
    Printf.sprintf "%s:%d:%s:%d" (string_of_bytes v.v_tbl) (int_of_z v.v_row) (string_of_bytes v.v_ref) (int_of_z v.v_index)) vs))
let starts_with p s = String.length s >= String.length p && String.sub s 0 (String.length p) = p

(* what PRAGMA foreign_key_check reports for a set of effects: measured by the harness with an
   independent client for the initial database and for each statement that touches the FK tables
   (at most one of them is ever present): the set of the last such statement, else the initial one *)
let violations_of pre (special : (str * (str * violation list)) list) (j : bytes list) : violation list =
  Stdlib.List.fold_left (fun acc s ->
    match Stdlib.List.assoc_opt (string_of_bytes s) special with Some (_, vs) -> vs | None -> acc) pre j

(* "F nsteps fk npre {viol} nspecial {stmt name nviol {viol}} {mode n dir}" |
   "V txmode fk N bad canon_0..canon_N nbefore {viol} nafter {viol}" *)
let run_fk_line id =
  match next () with
  | "F" ->
    let nsteps = next_int () in
    let fk = next () = "1" in
    let pre = parse_viols () in
    let nsp = next_int () in
    let special = Stdlib.List.init nsp (fun _ -> ()) |> Stdlib.List.map (fun () ->
      let st = unhex (next ()) in let name = next () in let vs = parse_viols () in (st, (name, vs))) in
    let viol = violations_of pre special in
    let db = ref { d_journal = []; d_tbl = [] } in
    for i = 0 to nsteps - 1 do
      let mode = mode_of (next ()) in
      let n = next_int () in
      let dir = parse_dir () in
      let (o, d') = apply_run_fk heq hs viol fk mode (nat_of_int n) dir !db in
      let ex = match o with
        | FFkMismatch -> "fkfail"
        | FOut ADone -> "ok" | FOut (APend PNoPending) -> "ok" | FOut _ -> "fail" in
      db := d';
      let js = Stdlib.List.map string_of_bytes d'.d_journal in
      let ids = Stdlib.List.filter (starts_with "INSERT INTO journal") js |> Stdlib.List.map stmt_id in
      let sp = Stdlib.List.filter_map (fun s -> match Stdlib.List.assoc_opt s special with Some (nm, _) -> Some nm | None -> None) js in
      Printf.printf "%s step%d exit=%s journal=[%s] revs=[%s] special=%s viol=[%s]\n" id i ex
        (String.concat "," ids)
        (String.concat " " (Stdlib.List.map show_rev (read_revisions d'.d_tbl)))
        (if sp = [] then "-" else String.concat "" sp)
        (show_viols (viol d'.d_journal))
    done
  | "V" ->
    let txmode = mode_of (next ()) in
    let fk = next () = "1" in
    let n = next_int () in
    let bad = match next () with "-" -> None | k -> Some (nat_of_int (int_of_string k)) in
    let canon = Array.init (n + 1) (fun _ -> next_int ()) in
    let before = parse_viols () in
    let after = parse_viols () in
    let stmts = Stdlib.List.init n (fun i -> bytes_of_string (string_of_int i)) in
    (* the engine: no effect yet -> before; the whole plan -> after (other prefixes are never checked) *)
    let viol j = if Stdlib.List.length j = n && n > 0 then after else before in
    let ((o, d'), _) = apply_changes_fk viol txmode stmts bad { s_effects = []; s_fk = fk } in
    let ex = match o with SOk -> "ok" | SFkMismatch -> "fkfail" | SApplyErr _ -> "fail" in
    Printf.printf "%s exit=%s state=%d\n" id ex canon.(Stdlib.List.length d'.s_effects)
  | t -> failwith ("fk line kind " ^ t)

(* dry stage: "D nsteps {mode n dry baseline allow dirty dir}" | "S txmode fk viol N bad canon_0..canon_N" *)
let run_dry_line id =
  match next () with
  | "D" ->
    let nsteps = next_int () in
    let st = ref { cd_revtable = false; cd_db = { d_journal = []; d_tbl = [] } } in
    for i = 0 to nsteps - 1 do
      let mode = mode_of (next ()) in
      let n = next_int () in
      let dry = next () = "1" in
      let baseline = match next () with "-" -> None | h -> Some (bytes_of_string (unhex h)) in
      let allow = next () = "1" in
      let dirty = next () = "1" in
      let dir = parse_dir () in
      let cf = { c_order = Linear; c_baseline = baseline; c_allow_dirty = allow; c_dirty = dirty } in
      let (o, d') = migrate_apply_cmd heq hs dry mode (nat_of_int n) cf dir !st in
      st := d';
      let ex = match o with CmdFlagsExclusive -> "fail" | Cmd o -> show_exit o in
      Printf.printf "%s step%d exit=%s table=%s %s\n" id i ex (b2s d'.cd_revtable) (show_db d'.cd_db)
    done
  | "S" ->
    let txmode = mode_of (next ()) in
    let fk = next () = "1" in
    let viol = next () = "1" in
    let n = next_int () in
    let bad = match next () with "-" -> None | k -> Some (nat_of_int (int_of_string k)) in
    let canon = Array.init (n + 1) (fun _ -> next_int ()) in
    let stmts = Stdlib.List.init n (fun i -> bytes_of_string (string_of_int i)) in
    let ((o, d'), _) = apply_changes txmode stmts bad viol { s_effects = []; s_fk = fk } in
    let ex = match o with SOk -> "ok" | _ -> "fail" in
    Printf.printf "%s exit=%s state=%d\n" id ex canon.(Stdlib.List.length d'.s_effects)
  | "V" -> decr pos; run_fk_line id
  | t -> failwith ("dry line kind " ^ t)

(* lock stage (LockModel.v): "L nsteps {P e|i <expiry> | R now timeout mode n crash k dir}" |
   "C tA TA tB TB mode n before-exec k dir" *)
let show_lock = function None -> "none" | Some None -> "invalid" | Some (Some _) -> "held"
let show_cout = function
  | CLockTaken -> "locktaken" | CLockInvalid -> "lockinvalid" | CCrashed -> "crash"
  | CUnlockErr _ -> "unlockerr" | CRan o -> show_exit o
let run_lock_line id =
  match next () with
  | "L" ->
    let nsteps = next_int () in
    let st = ref (None, { d_journal = []; d_tbl = [] }) in
    for i = 0 to nsteps - 1 do
      match next () with
      | "P" ->
        let kind = next () in
        let e = next_int () in
        st := ((if kind = "i" then Some None else Some (Some (n_of_int e))), snd !st);
        Printf.printf "%s step%d exit=planted lock=%s %s\n" id i (show_lock (fst !st)) (show_db (snd !st))
      | "R" ->
        let now = next_int () in
        let timeout = next_int () in
        let mode = mode_of (next ()) in
        let n = next_int () in
        let crash = next () in
        let k = next_int () in
        let dir = parse_dir () in
        let cr = match crash with "-" -> CNo | "acquire" -> CInAcquire | p -> CAt (point_of p, nat_of_int k) in
        let (o, s') = locked_apply heq hs (n_of_int now) (n_of_int timeout) cr mode (nat_of_int n) dir !st in
        st := s';
        Printf.printf "%s step%d exit=%s lock=%s %s\n" id i (show_cout o) (show_lock (fst s')) (show_db (snd s'))
      | t -> failwith ("lock step kind " ^ t)
    done
  | "C" ->
    let ta = next_int () in let tta = next_int () in let tb = next_int () in let ttb = next_int () in
    let _mode = next () in
    let n = next_int () in
    let crash = next () in
    let k = next_int () in
    let dir = parse_dir () in
    let d0 = { d_journal = []; d_tbl = [] } in
    let ((_, _), tr) = apply_run heq hs TxNone (nat_of_int n) dir d0 in
    (match crash_state tr (point_of crash) (nat_of_int k) with
     | None -> Printf.printf "%s unreachable\n" id
     | Some dc ->
       let la = Some (Some (n_of_int (ta + tta))) in
       let (ob, (lb, db)) = locked_apply heq hs (n_of_int tb) (n_of_int ttb) CNo TxNone (nat_of_int n) dir (la, dc) in
       Printf.printf "%s B exit=%s lock=%s %s\n" id (show_cout ob) (show_lock lb) (show_db db);
       (match concurrent_apply heq hs (n_of_int ta) (n_of_int tta) (n_of_int tb) (n_of_int ttb) (point_of crash) (nat_of_int k) (nat_of_int n) dir d0 with
        | Some ((oa, _), (l, d)) -> Printf.printf "%s A exit=%s lock=%s %s\n" id (show_cout oa) (show_lock l) (show_db d)
        | None -> Printf.printf "%s unreachable\n" id))
  | t -> failwith ("lock line kind " ^ t)

let () =
  let lock_stage = Array.length Sys.argv > 1 && Sys.argv.(1) = "lock" in
  let dry_stage = Array.length Sys.argv > 1 && Sys.argv.(1) = "dry" in
  let fk_stage = Array.length Sys.argv > 1 && Sys.argv.(1) = "fk" in
  (try
    while true do
      let line = input_line stdin in
      if line <> "" && lock_stage then begin
        toks := Array.of_list (Stdlib.List.filter (fun s -> s <> "") (String.split_on_char ' ' line));
        pos := 0;
        let id = next () in
        run_lock_line id
      end else
      if line <> "" && fk_stage then begin
        toks := Array.of_list (Stdlib.List.filter (fun s -> s <> "") (String.split_on_char ' ' line));
        pos := 0;
        let id = next () in
        run_fk_line id
      end else
      if line <> "" && dry_stage then begin
        toks := Array.of_list (Stdlib.List.filter (fun s -> s <> "") (String.split_on_char ' ' line));
        pos := 0;
        let id = next () in
        run_dry_line id
      end else
      if line <> "" then begin
        toks := Array.of_list (Stdlib.List.filter (fun s -> s <> "") (String.split_on_char ' ' line));
        pos := 0;
        let id = next () in
        let nsteps = next_int () in
        let db = ref { d_journal = []; d_tbl = [] } in
        for i = 0 to nsteps - 1 do
          let mtok = next () in
          let (mode, ord) = match String.split_on_char '/' mtok with
            | [m] -> (mode_of m, Linear)
            | [m; "linear-skip"] -> (mode_of m, LinearSkip)
            | [m; "non-linear"] -> (mode_of m, NonLinear)
            | _ -> failwith ("mode " ^ mtok) in
          let n = next_int () in
          let crash = next () in
          let k = next_int () in
          let dir = parse_dir () in
          let ((o, d'), tr) = apply_run_ord heq hs ord mode (nat_of_int n) dir !db in
          let normal () =
            let ex = match o with
              | ADone -> "ok" | APend PNoPending -> "ok" | AFail _ -> "fail" | ADirective -> "fail" | APend _ -> "fail" in
            db := d';
            Printf.printf "%s step%d exit=%s %s points=[%s]\n" id i ex (show_db d')
              (String.concat "," (Stdlib.List.map (fun (p, _) -> point_name p) tr)) in
          if crash = "-" then normal ()
          else match crash_state tr (point_of crash) (nat_of_int k) with
            | Some d -> db := d; Printf.printf "%s step%d exit=crash %s points=[]\n" id i (show_db d)
            | None -> normal ()
        done
      end
    done
  with End_of_file -> ())
