(* Extraction of M-SORT. ExtrOcamlBasic only: bool, option, unit, list, prod,
   sumbool, sumor map to OCaml's; nat stays inductive. *)
Require Extraction.
Require Import ExtrOcamlBasic.
From Atlas Require Import Plan.SortModel Plan.SortObjModel Plan.SortTidbModel Plan.SortSqliteModel.
Extraction Language OCaml.
Extraction "model.ml" plan replay mysql_sources pg_sources DetachCycles SortChanges sortMap dependencies qn qcode topLevel plan_all xplan xDetachCycles xSortChanges xpg_sources treplay xreplay erase_all tidb_plan tidb_order tidb_sources priority sqlite_plan sreplay skipFKs alterable.
