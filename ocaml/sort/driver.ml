(* Driver for the extracted M-SORT model.
   Reads the case file the Go harness wrote (one change set + catalogue per line)
   and prints the model's observations in the canonical text the harness prints. *)
open Model

let rec nat_of_int i = if i <= 0 then O else S (nat_of_int (i - 1))
let rec int_of_nat = function O -> 0 | S n -> 1 + int_of_nat n

let toks = ref [||]
let pos = ref 0
let next () = let t = !toks.(!pos) in incr pos; t
let next_int () = int_of_string (next ())
let next_nat () = nat_of_int (next_int ())
let times n f = Stdlib.List.init n (fun _ -> ()) |> Stdlib.List.map (fun () -> f ())

(* a table is printed as 100*schema + name, like the harness does (schema 0 = no schema) *)
let parse_table () = let n = next_nat () in let s = next_nat () in let i = next_nat () in { t_name = n; t_schema = s; t_id = i }
let parse_q () = let n = next_nat () in let s = next_nat () in qcode s n
let show_t t = 100 * int_of_nat t.t_schema + int_of_nat t.t_name
let parse_fk () =
  let s = next_nat () in
  let t = parse_table () in
  let r = parse_table () in
  { f_sym = s; f_tab = t; f_ref = r }
let parse_tc () =
  match next () with
  | "+" -> AddFK (parse_fk ())
  | "-" -> DropFK (parse_fk ())
  | "~" -> let a = parse_fk () in let b = parse_fk () in ModifyFK (a, b)
  | "o" -> Other (next_nat ())
  | s -> failwith ("tchange " ^ s)
let parse_change () =
  let k = next () in
  let t = parse_table () in
  let n = next_int () in
  match k with
  | "A" -> AddTable (t, times n parse_fk)
  | "D" -> DropTable (t, times n parse_fk)
  | "M" -> ModifyTable (t, times n parse_tc)
  | s -> failwith ("change " ^ s)

let show_fk f = Printf.sprintf "%d.%d" (int_of_nat f.f_sym) (show_t f.f_ref)
let show_tc = function
  | AddFK f -> "+" ^ show_fk f
  | DropFK f -> "-" ^ show_fk f
  | ModifyFK (a, b) -> "~" ^ show_fk a ^ ">" ^ show_fk b
  | Other k -> "o" ^ string_of_int (int_of_nat k)
let show_change = function
  | AddTable (t, fks) -> Printf.sprintf "A:%d:%s" (show_t t) (String.concat "," (Stdlib.List.map show_fk fks))
  | DropTable (t, fks) -> Printf.sprintf "D:%d:%s" (show_t t) (String.concat "," (Stdlib.List.map show_fk fks))
  | ModifyTable (t, cs) -> Printf.sprintf "M:%d:%s" (show_t t) (String.concat "," (Stdlib.List.map show_tc cs))

(* ---- round 5: change sets with enum objects (stage objects, mode "obj") *)
let parse_enum () = let e = next_int () in { e_name = nat_of_int (e / 2); e_id = nat_of_int e }
let parse_xtc () =
  match next () with
  | "+" -> XT (AddFK (parse_fk ()))
  | "-" -> XT (DropFK (parse_fk ()))
  | "~" -> let a = parse_fk () in let b = parse_fk () in XT (ModifyFK (a, b))
  | "o" -> XT (Other (next_nat ()))
  | "c" ->
    let k = next_int () in
    let e = parse_enum () in
    (match k with
     | 0 -> XAddCol e
     | 1 -> XModCol (None, Some e)
     | 3 -> XModCol (Some e, None)
     | _ -> XDropCol e)
  | s -> failwith ("xtchange " ^ s)
let parse_xchange () =
  match next () with
  | "P" -> XAddObject (parse_enum ())
  | "Q" -> XDropObject (parse_enum ())
  | k ->
    let t = parse_table () in
    let ne = next_int () in
    let tys = times ne parse_enum in
    let n = next_int () in
    (match k with
     | "A" -> XAddTable (t, times n parse_fk, tys)
     | "D" -> XDropTable (t, times n parse_fk, tys)
     | "M" -> XModifyTable (t, times n parse_xtc)
     | s -> failwith ("xchange " ^ s))
let show_e e = string_of_int (int_of_nat e.e_id)
let show_xtc = function
  | XT c -> show_tc c
  | XAddCol e -> "c0." ^ show_e e
  | XModCol (None, Some e) -> "c1." ^ show_e e
  | XModCol (Some e, None) -> "c3." ^ show_e e
  | XModCol (_, _) -> "c?"
  | XDropCol e -> "c2." ^ show_e e
let show_xchange = function
  | XAddTable (t, fks, tys) ->
    Printf.sprintf "A:%d:%s:%s" (show_t t) (String.concat "," (Stdlib.List.map show_fk fks)) (String.concat "," (Stdlib.List.map show_e tys))
  | XDropTable (t, fks, tys) ->
    Printf.sprintf "D:%d:%s:%s" (show_t t) (String.concat "," (Stdlib.List.map show_fk fks)) (String.concat "," (Stdlib.List.map show_e tys))
  | XModifyTable (t, cs) -> Printf.sprintf "M:%d:%s" (show_t t) (String.concat "," (Stdlib.List.map show_xtc cs))
  | XAddObject e -> "P:" ^ show_e e
  | XDropObject e -> "Q:" ^ show_e e
let show_xout l = "[" ^ String.concat " " (Stdlib.List.map show_xchange l) ^ "]"

let show_out l = "[" ^ String.concat " " (Stdlib.List.map show_change l) ^ "]"
(* more than 12 changes: Go's sort.Slice is no longer the stable insertion sort of the executable model; the
   harness then compares the multiset of planned changes (and the replay verdict) *)
let big = ref false
let show_obs l =
  if !big then "{" ^ String.concat " " (Stdlib.List.sort compare (Stdlib.List.map show_change l)) ^ "}" else show_out l

let () =
  let _mode = if Array.length Sys.argv > 1 then Sys.argv.(1) else "plan" in
  (try
    while true do
      let line = input_line stdin in
      if line <> "" then begin
        toks := Array.of_list (Stdlib.List.filter (fun s -> s <> "") (String.split_on_char ' ' line));
        pos := 0;
        let id = next () in
        let nt = next_int () in
        let tabs = times nt parse_q in
        let nf = next_int () in
        let fks = times nf (fun () -> let a = parse_q () in let b = next_nat () in let c = parse_q () in ((a, b), c)) in
        let c0 = { c_tabs = tabs; c_fks = fks } in
        (* schema-level changes in front of the table changes: both planners emit them first, once each
           (topLevel), and sort the table changes alone; the sort entry point gets the table changes only *)
        let npre = next_int () in
        let pre = times npre (fun () ->
          let k = next () in let s = next_nat () in
          match k with "S" -> AddSchema s | "T" -> DropSchema s | "U" -> ModifySchema s | x -> failwith ("schange " ^ x)) in
        let show_s = function
          | AddSchema s -> "S" ^ string_of_int (int_of_nat s)
          | DropSchema s -> "T" ^ string_of_int (int_of_nat s)
          | ModifySchema s -> "U" ^ string_of_int (int_of_nat s) in
        let nc = next_int () in
        if _mode = "obj" then begin
          let xs = times nc parse_xchange in
          (match next () with "T" -> () | s -> failwith ("types marker " ^ s));
          let nty = next_int () in
          let tys = times nty next_nat in
          let nu = next_int () in
          let uses = times nu (fun () -> let q = parse_q () in let k = next_nat () in (q, k)) in
          let tv l = match treplay l (tys, uses) with Some _ -> "ok" | None -> "fail" in
          let rv l = match replay (erase_all l) c0 with Some _ -> "ok" | None -> "fail" in
          (match xplan xs with
           | XPOut -> Stdlib.List.iter (fun k -> Printf.printf "%s %s out=outoffuel\n" id k) ["sort"; "pg"]
           | XPOk l ->
             Printf.printf "%s sort out=%s replay=%s types=%s\n" id (show_xout l) (rv l) (tv l);
             let p = Stdlib.List.concat_map xpg_sources l in
             Printf.printf "%s pg out=%s replay=%s types=%s\n" id (show_xout p) (rv p) (tv p))
        end else
        let cs = times nc parse_change in
        big := nc > 12;
        let verdict l = match replay l c0 with Some _ -> "ok" | None -> "fail" in
        if _mode = "sqlite" then begin
          (* stage sqlite: the statements follow the change list; bracket iff a table is dropped or rebuilt *)
          let (off, l) = sqlite_plan cs in
          let v = match sreplay off l c0 with Some _ -> "ok" | None -> "fail" in
          Printf.printf "%s sqlite out=%s fk=%s replay=%s\n" id (show_out l) (if off then "off" else "on") v
        end else
        if _mode = "tidb" then
          (* stage tidb: tidb.go PlanChanges = DetachCycles, flat, stable sort by priority, the MySQL planner on each atomic change *)
          (match tidb_plan cs with
           | TOut -> Printf.printf "%s tidb out=outoffuel\n" id
           | TOk l -> Printf.printf "%s tidb out=%s replay=%s\n" id (show_obs l) (verdict l))
        else
        if _mode = "raw" then
          (match sortChanges cs with
           | None -> Printf.printf "%s raw out=outoffuel\n" id
           | Some l -> Printf.printf "%s raw out=%s\n" id (show_out l))
        else
        (* state.plan = topLevel, then DetachCycles + SortChanges of the table changes; the sort entry point of
           the harness gets the table changes only *)
        (match plan_all (Stdlib.List.map (fun c -> GSchema c) pre @ Stdlib.List.map (fun c -> GTable c) cs) with
         | None ->
           Stdlib.List.iter (fun k -> Printf.printf "%s %s out=outoffuel\n" id k) ["sort"; "mysql"; "pg"]
         | Some (tops, l) ->
           let top = if npre = 0 then "" else " top=" ^ String.concat "," (Stdlib.List.map show_s tops) in
           Printf.printf "%s sort out=%s replay=%s\n" id (show_obs l) (verdict l);
           let m = Stdlib.List.concat_map mysql_sources l in
           Printf.printf "%s mysql out=%s replay=%s%s\n" id (show_obs m) (verdict m) top;
           let p = Stdlib.List.concat_map pg_sources l in
           Printf.printf "%s pg out=%s replay=%s%s\n" id (show_obs p) (verdict p) top)
      end
    done
  with End_of_file -> ())
