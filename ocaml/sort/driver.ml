(* Driver for the extracted M-SORT model.
   Reads the case file the Go harness wrote (one change set + catalogue per line)
   and prints the model's observations in the canonical text the harness prints. *)
open Model

let rec nat_of_int i = if i <= 0 then O else S (nat_of_int (i - 1))
let rec int_of_nat = function O -> 0 | S n -> 1 + int_of_nat n

let toks = ref [||]
let pos = ref 0
let next () = let t = !toks.(!pos) in incr pos; t
let next_int () = int_of_string (next ())
let next_nat () = nat_of_int (next_int ())
let times n f = Stdlib.List.init n (fun _ -> ()) |> Stdlib.List.map (fun () -> f ())

(* a table is printed as 100*schema + name, like the harness does (schema 0 = no schema) *)
let parse_table () = let n = next_nat () in let s = next_nat () in let i = next_nat () in { t_name = n; t_schema = s; t_id = i }
let parse_q () = let n = next_nat () in let s = next_nat () in qcode s n
let show_t t = 100 * int_of_nat t.t_schema + int_of_nat t.t_name
let parse_fk () =
  let s = next_nat () in
  let t = parse_table () in
  let r = parse_table () in
  { f_sym = s; f_tab = t; f_ref = r }
let parse_tc () =
  match next () with
  | "+" -> AddFK (parse_fk ())
  | "-" -> DropFK (parse_fk ())
  | "~" -> let a = parse_fk () in let b = parse_fk () in ModifyFK (a, b)
  | "o" -> Other (next_nat ())
  | s -> failwith ("tchange " ^ s)
let parse_change () =
  let k = next () in
  let t = parse_table () in
  let n = next_int () in
  match k with
  | "A" -> AddTable (t, times n parse_fk)
  | "D" -> DropTable (t, times n parse_fk)
  | "M" -> ModifyTable (t, times n parse_tc)
  | s -> failwith ("change " ^ s)

let show_fk f = Printf.sprintf "%d.%d" (int_of_nat f.f_sym) (show_t f.f_ref)
let show_tc = function
  | AddFK f -> "+" ^ show_fk f
  | DropFK f -> "-" ^ show_fk f
  | ModifyFK (a, b) -> "~" ^ show_fk a ^ ">" ^ show_fk b
  | Other k -> "o" ^ string_of_int (int_of_nat k)
let show_change = function
  | AddTable (t, fks) -> Printf.sprintf "A:%d:%s" (show_t t) (String.concat "," (Stdlib.List.map show_fk fks))
  | DropTable (t, fks) -> Printf.sprintf "D:%d:%s" (show_t t) (String.concat "," (Stdlib.List.map show_fk fks))
  | ModifyTable (t, cs) -> Printf.sprintf "M:%d:%s" (show_t t) (String.concat "," (Stdlib.List.map show_tc cs))

let show_out l = "[" ^ String.concat " " (Stdlib.List.map show_change l) ^ "]"
(* more than 12 changes: Go's sort.Slice is no longer the stable insertion sort of the executable model; the
   harness then compares the multiset of planned changes (and the replay verdict) *)
let big = ref false
let show_obs l =
  if !big then "{" ^ String.concat " " (Stdlib.List.sort compare (Stdlib.List.map show_change l)) ^ "}" else show_out l

let () =
  let _mode = if Array.length Sys.argv > 1 then Sys.argv.(1) else "plan" in
  (try
    while true do
      let line = input_line stdin in
      if line <> "" then begin
        toks := Array.of_list (Stdlib.List.filter (fun s -> s <> "") (String.split_on_char ' ' line));
        pos := 0;
        let id = next () in
        let nt = next_int () in
        let tabs = times nt parse_q in
        let nf = next_int () in
        let fks = times nf (fun () -> let a = parse_q () in let b = next_nat () in let c = parse_q () in ((a, b), c)) in
        let c0 = { c_tabs = tabs; c_fks = fks } in
        (* schema-level changes in front of the table changes: both planners emit them first, once each
           (topLevel), and sort the table changes alone; the sort entry point gets the table changes only *)
        let npre = next_int () in
        let pre = times npre (fun () ->
          let k = next () in let s = next_nat () in
          match k with "S" -> AddSchema s | "T" -> DropSchema s | "U" -> ModifySchema s | x -> failwith ("schange " ^ x)) in
        let show_s = function
          | AddSchema s -> "S" ^ string_of_int (int_of_nat s)
          | DropSchema s -> "T" ^ string_of_int (int_of_nat s)
          | ModifySchema s -> "U" ^ string_of_int (int_of_nat s) in
        let nc = next_int () in
        let cs = times nc parse_change in
        big := nc > 12;
        let verdict l = match replay l c0 with Some _ -> "ok" | None -> "fail" in
        if _mode = "raw" then
          (match sortChanges cs with
           | None -> Printf.printf "%s raw out=outoffuel\n" id
           | Some l -> Printf.printf "%s raw out=%s\n" id (show_out l))
        else
        (* state.plan = topLevel, then DetachCycles + SortChanges of the table changes; the sort entry point of
           the harness gets the table changes only *)
        (match plan_all (Stdlib.List.map (fun c -> GSchema c) pre @ Stdlib.List.map (fun c -> GTable c) cs) with
         | None ->
           Stdlib.List.iter (fun k -> Printf.printf "%s %s out=outoffuel\n" id k) ["sort"; "mysql"; "pg"]
         | Some (tops, l) ->
           let top = if npre = 0 then "" else " top=" ^ String.concat "," (Stdlib.List.map show_s tops) in
           Printf.printf "%s sort out=%s replay=%s\n" id (show_obs l) (verdict l);
           let m = Stdlib.List.concat_map mysql_sources l in
           Printf.printf "%s mysql out=%s replay=%s%s\n" id (show_obs m) (verdict m) top;
           let p = Stdlib.List.concat_map pg_sources l in
           Printf.printf "%s pg out=%s replay=%s%s\n" id (show_obs p) (verdict p) top)
      end
    done
  with End_of_file -> ())
