(* Driver for the extracted M-DIR model.
   Reads the case file the Go harness wrote and prints the model's
   observations in the same canonical text the harness prints.
   HS is instantiated with base64(sha256(.)) (ocaml/common/sha256.ml); the
   shape the theorems assume of it (44 base64 bytes) is checked on every
   value it returns. *)
open Model

let rec nat_of_int i = if i <= 0 then O else S (nat_of_int (i - 1))
let rec int_of_nat = function O -> 0 | S n -> 1 + int_of_nat n
let rec pos_of_int i = if i = 1 then XH else if i land 1 = 0 then XO (pos_of_int (i lsr 1)) else XI (pos_of_int (i lsr 1))
let n_of_int i = if i = 0 then N0 else Npos (pos_of_int i)
let rec int_of_pos = function XH -> 1 | XO p -> 2 * int_of_pos p | XI p -> 2 * int_of_pos p + 1
let int_of_n = function N0 -> 0 | Npos p -> int_of_pos p

let byte_tbl = Array.init 256 n_of_int
let bytes_of_string (s : string) : bytes =
  let r = ref [] in
  for i = String.length s - 1 downto 0 do r := byte_tbl.(Char.code s.[i]) :: !r done; !r
let string_of_bytes (b : bytes) : string =
  let buf = Buffer.create 64 in
  Stdlib.List.iter (fun x -> Buffer.add_char buf (Char.chr (int_of_n x))) b; Buffer.contents buf

let unhex (h : string) : string =
  if h = "-" then "" else
  String.init (String.length h / 2) (fun i -> Char.chr (int_of_string ("0x" ^ String.sub h (2 * i) 2)))
let hexdigits = "0123456789abcdef"
let hex (s : string) : string =
  if s = "" then "-" else begin
    let b = Bytes.create (2 * String.length s) in
    String.iteri (fun i c -> Bytes.set b (2*i) hexdigits.[Char.code c lsr 4]; Bytes.set b (2*i+1) hexdigits.[Char.code c land 15]) s;
    Bytes.to_string b end
let hexb b = hex (string_of_bytes b)

let is_b64 c = (c >= 'A' && c <= 'Z') || (c >= 'a' && c <= 'z') || (c >= '0' && c <= '9') || c = '+' || c = '/' || c = '='
let hs (b : bytes) : bytes =
  let h = Sha256.hs (string_of_bytes b) in
  if String.length h <> 44 || not (String.for_all is_b64 h) then begin
    prerr_endline ("HS shape hypothesis violated: " ^ h); exit 3 end;
  bytes_of_string h

let toks = ref [||]
let pos = ref 0
let next () = let t = !toks.(!pos) in incr pos; t
let next_int () = int_of_string (next ())
let next_bytes () = bytes_of_string (unhex (next ()))
let next_files () =
  let n = next_int () in
  Stdlib.List.init n (fun _ -> ()) |> Stdlib.List.map (fun () -> let a = next_bytes () in let c = next_bytes () in (a, c))

let show_names fs = match fs with [] -> "-" | _ -> String.concat "," (Stdlib.List.map (fun (n, _) -> hexb n) fs)
let show_u = function
  | UOk es -> "ok:" ^ (match es with [] -> "-" | _ -> String.concat "," (Stdlib.List.map (fun (n, h) -> hexb n ^ ":" ^ hexb h) es))
  | UFormat -> "format"
  | UMismatch -> "mismatch"
let show_reason = function Added -> "added" | Edited -> "edited" | Removed -> "removed"
let show_v = function
  | VOk -> "ok" | VNotFound -> "notfound" | VFormat -> "format" | VMismatch -> "mismatch" | VPanic -> "panic"
  | VChecksum (l, t, p, f, r) -> Printf.sprintf "cs:%d:%d:%d:%s:%s" (int_of_nat l) (int_of_nat t) (int_of_nat p) (hexb f) (show_reason r)

let show_store (st : store) =
  let fs = files_of st in
  let sum = store_get st s_atlas_sum in
  Printf.sprintf "files=%s ign=%s hf=%s u=%s v=%s"
    (show_names fs)
    (match fs with [] -> "-" | _ -> String.concat "" (Stdlib.List.map (fun (_, c) -> if sum_ignored c then "1" else "0") fs))
    (hexb (marshal hs (newhash hs fs)))
    (match sum with None -> "~" | Some b -> show_u (unmarshal hs b))
    (show_v (validate_store hs st))

let () =
  let mode = if Array.length Sys.argv > 1 then Sys.argv.(1) else "dir" in
  (try
    while true do
      let line = input_line stdin in
      if line <> "" then begin
        toks := Array.of_list (Stdlib.List.filter (fun s -> s <> "") (String.split_on_char ' ' line));
        pos := 0;
        let id = next () in
        match mode with
        | "dir" ->
          let st = next_files () in
          Printf.printf "%s %s\n" id (show_store st)
        | "line" ->
          let c = next_bytes () in
          Printf.printf "%s ign=%s\n" id (if sum_ignored c then "1" else "0")
        | "ops" ->
          let st = next_files () in
          let nops = next_int () in
          let ops = Stdlib.List.init nops (fun _ -> ()) |> Stdlib.List.map (fun () ->
            match next () with
            | "P" -> OpWritePlan (next_files ())
            | "K" -> let n = next_bytes () in let t = next_bytes () in let c = next_bytes () in OpWriteCheckpoint (n, t, c)
            | "C" -> OpCopyFiles (next_files ())
            | s -> failwith ("op " ^ s)) in
          Stdlib.List.iteri (fun i st' -> Printf.printf "%s op%d %s\n" id i (show_store st')) (run_ops hs st ops)
        | "cons" ->
          (* <id> <command> <version index: - | n | i> <store> <checkpoint bits per store entry> <setup 0|1> *)
          let cmd = next () in
          let vt = next () in
          let st = next_files () in
          let bits = next () in
          let setup = next_int () = 1 in
          let cks = Stdlib.List.filteri (fun i _ -> bits <> "-" && bits.[i] = '1') st |> Stdlib.List.map snd in
          let is_checkpoint c = Stdlib.List.mem c cks in
          let idx = match vt with "-" -> None | "n" -> Some None | i -> Some (Some (nat_of_int (int_of_string i))) in
          let setup_ok _ () = setup in
          let rest _ _ () = () in
          let k _ () = () in
          let show = function
            | Refused v -> "refused v=" ^ show_v v
            | NotFoundVersion -> "notfound v=" ^ show_v (validate_store hs st)
            | Failed -> "failed v=" ^ show_v (validate_store hs st)
            | Proceeded () -> "proceeds v=" ^ show_v (validate_store hs st) in
          let command c = show (run hs is_checkpoint setup_ok rest c st ()) in
          let o = match cmd with
            | "hash" ->
              let st' = migrate_hash hs st in
              Printf.sprintf "repaired v=%s sum=%s" (show_v (validate_store hs st'))
                (match store_get st' s_atlas_sum with None -> "-" | Some b -> hexb b)
            | "apply" -> command CApply
            | "status" -> command CStatus
            | "set" -> command CSet
            | "new" -> command CNew
            | "diff" -> command CDiff
            | "validate" -> command (CValidate false)
            | "validate-dev" -> command (CValidate true)
            | "lint" -> command CLint
            | "import" -> command CImportFrom
            | "statesql" -> command (CStateSQL idx)
            | "pending" -> show (executor_pending hs k st ())
            | "execn" -> show (execute_n hs k st ())
            | "execto" -> show (execute_to hs is_checkpoint k (match idx with Some i -> i | None -> None) st ())
            | "replay" -> show (replay hs is_checkpoint (fun () -> true) k idx st ())
            | c -> failwith ("command " ^ c) in
          Printf.printf "%s out=%s\n" id o
        | "fmt" ->
          (match next () with
           | "T" ->
             let f = (match next () with
               | "atlas" -> FAtlas | "golang-migrate" -> FGolangMigrate | "goose" -> FGoose
               | "flyway" -> FFlyway | "liquibase" -> FLiquibase | "dbmate" -> FDBMate
               | s -> failwith ("format " ^ s)) in
             let cli = next_int () = 1 in
             let n = next_int () in
             let t = Stdlib.List.init n (fun _ -> ()) |> Stdlib.List.map (fun () ->
               let p = String.split_on_char '/' (next ()) |> Stdlib.List.map (fun h -> bytes_of_string (unhex h)) in
               let k = next () in
               (p, if k = "D" then KDir else KFile (bytes_of_string (unhex (String.sub k 1 (String.length k - 1)))))) in
             let show_tv = function TV v -> show_v v | TVErr -> "err" in
             let files, hf = match format_files f t with
               | FOk fs -> show_names fs, hexb (marshal hs (newhash hs fs))
               | FErr -> "err", "-" in
             let v = validate_tree hs f t in
             let w = match write_sum_tree hs f t with Some t' -> show_tv (validate_tree hs f t') | None -> "err" in
             let arc, uf, ua = match archive_tree f t with
               | None -> "err", "-", "-"
               | Some a ->
                 let st = unarchive a in
                 (match a with [] -> "-" | _ -> String.concat "," (Stdlib.List.map (fun (n, c) -> hexb n ^ ":" ^ hexb c) a)),
                 show_names (files_of st), show_v (validate_store hs st) in
             Printf.printf "%s files=%s hf=%s v=%s w=%s arc=%s uf=%s ua=%s\n" id files hf (show_tv v) w arc uf ua;
             if cli then Printf.printf "%s cli=%s\n" id (match v with TV VOk -> "ok" | _ -> "fail")
           | "K" ->
             let st = next_files () in
             let bits = next () in
             let cks = Stdlib.List.filteri (fun i _ -> bits <> "-" && bits.[i] = '1') st |> Stdlib.List.map fst in
             let is_ck (n, _) = Stdlib.List.mem n cks in
             let fs = files_of st in
             Printf.printf "%s cks=%s from=%s\n" id (show_names (checkpoint_files is_ck fs))
               (match files_from_last_checkpoint is_ck fs with Some l -> show_names l | None -> "notfound")
           | "U" ->
             (* <id> U <parse 0|1> <scheme> <fmt: ~ | hex> <flag> <isdir 0|1> <tree> *)
             let parse_ok = next_int () = 1 in
             let scheme = next_bytes () in
             let fmt = (match next () with "~" -> None | h -> Some (bytes_of_string (unhex h))) in
             let flag = next_bytes () in
             let is_dir = next_int () = 1 in
             let n = next_int () in
             let t = Stdlib.List.init n (fun _ -> ()) |> Stdlib.List.map (fun () ->
               let p = String.split_on_char '/' (next ()) |> Stdlib.List.map (fun h -> bytes_of_string (unhex h)) in
               let k = next () in
               (p, if k = "D" then KDir else KFile (bytes_of_string (unhex (String.sub k 1 (String.length k - 1)))))) in
             Printf.printf "%s out=%s\n" id (match check_dir_url hs parse_ok scheme fmt flag is_dir t with
               | PErrParse -> "parse" | PErrOpen -> "openerr" | PErrNotExist -> "notexist" | PCloud -> "cloud"
               | PValidated (TV VOk) -> "ok"
               | PValidated (TV (VChecksum _)) -> "cs"
               | PValidated (TV VNotFound) -> "notfound"
               | PValidated _ -> "other")
           | k -> failwith ("fmt case " ^ k))
        | m -> failwith ("mode " ^ m)
      end
    done
  with End_of_file -> ())
