(* Extraction of M-DIR. ExtrOcamlBasic only: bool, option, unit, list, prod,
   sumbool, sumor map to OCaml's; nat, positive, N stay inductive. *)
Require Extraction.
Require Import ExtrOcamlBasic.
From Atlas Require Import Base.Bytes Dir.DirModel Dir.DirConsumersModel Dir.DirFormatsModel.
Extraction Language OCaml.
Extraction "model.ml" files_of newhash marshal unmarshal validate validate_store sum_ignored store_get run_ops s_atlas_sum
  run executor_pending execute_n execute_to replay migrate_hash
  format_files validate_tree write_sum_tree tree_sum archive_tree archive_store unarchive
  checkpoint_files files_from_last_checkpoint check_dir_url.
