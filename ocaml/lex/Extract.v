(* Extraction of M-LEX. ExtrOcamlBasic only: bool, option, unit, list, prod,
   sumbool, sumor map to OCaml's; nat, positive, N, Z stay inductive. *)
Require Extraction.
Require Import ExtrOcamlBasic.
From Atlas Require Import Base.Bytes Lex.LexModel Lex.LexDirective.
Extraction Language OCaml.
Extraction "model.ml" scan Scan fuel_of Line decode_rune trim_left_space trim_right_space trim_space directive_delimiter scan_directives.
