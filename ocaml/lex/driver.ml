(* Driver for the extracted M-LEX model: reads the case file the Go harness
   wrote and prints the model's observations in the same canonical text.
   modes:  scan   <id> <10 option bits> <hex input>
           line   <id> <hex text> <pos>
           runes  <id> <hex bytes>
           directive <id> <10 option bits> <hex name> <hex input>           *)
open Model

let rec pos_of_int i = if i = 1 then XH else if i land 1 = 0 then XO (pos_of_int (i lsr 1)) else XI (pos_of_int (i lsr 1))
let n_of_int i = if i = 0 then N0 else Npos (pos_of_int i)
let z_of_int i = if i = 0 then Z0 else if i > 0 then Zpos (pos_of_int i) else Zneg (pos_of_int (-i))
let rec int_of_pos = function XH -> 1 | XO p -> 2 * int_of_pos p | XI p -> 2 * int_of_pos p + 1
let int_of_n = function N0 -> 0 | Npos p -> int_of_pos p
let int_of_z = function Z0 -> 0 | Zpos p -> int_of_pos p | Zneg p -> - (int_of_pos p)

let byte_tbl = Array.init 256 n_of_int
let bytes_of_string (s : string) =
  let r = ref [] in
  for i = String.length s - 1 downto 0 do r := byte_tbl.(Char.code s.[i]) :: !r done; !r
let string_of_bytes b =
  let buf = Buffer.create 64 in
  Stdlib.List.iter (fun x -> Buffer.add_char buf (Char.chr (int_of_n x))) b; Buffer.contents buf
let unhex (h : string) : string =
  if h = "-" then "" else
  String.init (String.length h / 2) (fun i -> Char.chr (int_of_string ("0x" ^ String.sub h (2 * i) 2)))
let hexdigits = "0123456789abcdef"
let hex (s : string) : string =
  if s = "" then "-" else begin
    let b = Bytes.create (2 * String.length s) in
    String.iteri (fun i c -> Bytes.set b (2*i) hexdigits.[Char.code c lsr 4]; Bytes.set b (2*i+1) hexdigits.[Char.code c land 15]) s;
    Bytes.to_string b end
let hexb b = hex (string_of_bytes b)

let opts_of_bits (b : string) : opts =
  let g i = b.[i] = '1' in
  { matchBegin = g 0; matchBeginAtomic = g 1; matchBeginTryCatch = g 2; matchDollarQuote = g 3;
    backslashEscapes = g 4; escapedStringExt = g 5; hashComments = g 6; goCommand = g 7;
    beginEndTerminator = g 8; omitDelimiter = g 9 }

let kind_name = function
  | EUnclosedParen -> "unclosed-paren" | EUnexpectedParen -> "unexpected-paren" | EUnclosedQuote -> "unclosed-quote"
  | EEmptyDelim -> "empty-delim" | ENoInputAfterDelim -> "no-input-after-delim"
  | EUnexpectedDollar -> "unexpected-dollar" | EUnclosedDollar -> "unclosed-dollar"
  | EMissingBeginAtomic -> "missing-begin-atomic" | EMissingBeginTry -> "missing-begin-try" | EMissingBegin -> "missing-begin"
  | EEofBody -> "eof-body" | EScanBody -> "scan-body" | EEofCompound -> "eof-compound" | EScanCompound -> "scan-compound"
  | EInvalidGo -> "invalid-go"

let show_stmt (s : stmt) =
  Printf.sprintf "%d:%s:%s" (int_of_z s.pos) (hexb s.text)
    (match s.comments with [] -> "-" | cs -> String.concat "," (Stdlib.List.map hexb cs))

let show_scan = function
  | Ok ss -> "ok " ^ string_of_int (Stdlib.List.length ss) ^ (String.concat "" (Stdlib.List.map (fun s -> " " ^ show_stmt s) ss))
  | Err e -> Printf.sprintf "err %s %d %d" (kind_name e.e_kind) (int_of_z e.e_line) (int_of_z e.e_col)
  | Panic -> "panic"
  | OutOfFuel -> "outoffuel"

let process mode oc line =
  if line <> "" then begin
    let toks = Array.of_list (Stdlib.List.filter (fun s -> s <> "") (String.split_on_char ' ' line)) in
    let id = toks.(0) in
    match mode with
    | "scan" ->
      let o = opts_of_bits toks.(1) in
      let inp = bytes_of_string (unhex toks.(2)) in
      (* scan0 = Coq [scan] (fuel = fuel_of input); OCaml [scan] = Coq [Scan] *)
      Printf.fprintf oc "%s %s\n" id (show_scan (scan0 o inp))
    | "line" ->
      let t = bytes_of_string (unhex toks.(1)) in
      let p = int_of_string toks.(2) in
      Printf.fprintf oc "%s %s\n" id (match Model.line t (z_of_int p) with Ok z -> "line " ^ string_of_int (int_of_z z) | Panic -> "panic" | _ -> "other")
    | "runes" ->
      let b = bytes_of_string (unhex toks.(1)) in
      let (r, w) = decode_rune b in
      Printf.fprintf oc "%s r=%d w=%d tl=%d tr=%d\n" id (int_of_n r) (int_of_z w)
        (Stdlib.List.length (trim_left_space b)) (Stdlib.List.length (trim_right_space b))
    | "directive" ->
      let o = opts_of_bits toks.(1) in
      let nm = bytes_of_string (unhex toks.(2)) in
      let inp = bytes_of_string (unhex toks.(3)) in
      Printf.fprintf oc "%s %s\n" id
        (match scan_directives o nm inp with
         | Ok l -> "ok " ^ string_of_int (Stdlib.List.length l) ^
                   String.concat "" (Stdlib.List.map (fun (p, ds) ->
                     Printf.sprintf " %d:%s" (int_of_z p) (match ds with [] -> "-" | _ -> String.concat "," (Stdlib.List.map hexb ds))) l)
         | Err e -> Printf.sprintf "err %s %d %d" (kind_name e.e_kind) (int_of_z e.e_line) (int_of_z e.e_col)
         | Panic -> "panic"
         | OutOfFuel -> "outoffuel")
    | m -> failwith ("mode " ^ m)
  end

(* the cases are independent: they are split over worker processes (output order is irrelevant,
   observations are compared per case id). *)
let () =
  let mode = if Array.length Sys.argv > 1 then Sys.argv.(1) else "scan" in
  let lines = ref [] in
  (try while true do lines := input_line stdin :: !lines done with End_of_file -> ());
  let arr = Array.of_list (Stdlib.List.rev !lines) in
  let n = Array.length arr in
  let nproc = if n < 2000 then 1 else (try int_of_string (Sys.getenv "VERIF_MODEL_PROCS") with _ -> 14) in
  if nproc = 1 then Array.iter (process mode stdout) arr
  else begin
    let files = Array.init nproc (fun _ -> Filename.temp_file "lexmodel" ".txt") in
    let pids = Array.init nproc (fun k ->
      match Unix.fork () with
      | 0 ->
        let oc = open_out files.(k) in
        let i = ref k in
        while !i < n do process mode oc arr.(!i); i := !i + nproc done;
        close_out oc; exit 0
      | pid -> pid) in
    let failed = ref false in
    Array.iter (fun pid -> match Unix.waitpid [] pid with (_, Unix.WEXITED 0) -> () | _ -> failed := true) pids;
    Array.iter (fun f ->
      let ic = open_in f in
      (try while true do print_string (input_line ic); print_char '\n' done with End_of_file -> ());
      close_in ic; Sys.remove f) files;
    if !failed then (prerr_endline "a model worker failed"; exit 3)
  end
