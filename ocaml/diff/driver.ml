(* Driver for the extracted M-SCHEMA differ (argv[1] = sqlite | mysql | postgres | postgres-ns: PostgreSQL with the schema scope "public").
   Reads the case file the Go harness wrote (one diff call per line, format in
   harness/cmd/diff) and prints the model's canonical change list, in the
   order the model returns it (the order of the Go code). *)
open Model

let rec nat_of_int i = if i <= 0 then O else S (nat_of_int (i - 1))
let rec int_of_nat = function O -> 0 | S n -> 1 + int_of_nat n
let rec pos_of_int i = if i = 1 then XH else if i land 1 = 0 then XO (pos_of_int (i lsr 1)) else XI (pos_of_int (i lsr 1))
let n_of_int i = if i = 0 then N0 else Npos (pos_of_int i)
let rec int_of_pos = function XH -> 1 | XO p -> 2 * int_of_pos p | XI p -> 2 * int_of_pos p + 1
let int_of_n = function N0 -> 0 | Npos p -> int_of_pos p

let bytes_of_string (s : string) = Stdlib.List.init (String.length s) (fun i -> n_of_int (Char.code s.[i]))
let string_of_bytes b = String.concat "" (Stdlib.List.map (fun x -> String.make 1 (Char.chr (int_of_n x))) b)
let unhex (h : string) : string =
  if h = "-" then "" else
  String.init (String.length h / 2) (fun i -> Char.chr (int_of_string ("0x" ^ String.sub h (2 * i) 2)))
let hex (s : string) : string =
  if s = "" then "-" else String.concat "" (Stdlib.List.init (String.length s) (fun i -> Printf.sprintf "%02x" (Char.code s.[i])))
let hexb b = hex (string_of_bytes b)
let raw b = string_of_bytes b

let toks = ref [||]
let pos = ref 0
let next () = let t = !toks.(!pos) in incr pos; t
let next_int () = int_of_string (next ())
let next_str () = bytes_of_string (unhex (next ()))
let next_bool () = next () = "1"
let next_opt () = match next () with "~" -> None | h -> Some (bytes_of_string (unhex h))
let times n f = Stdlib.List.init n (fun _ -> ()) |> Stdlib.List.map (fun () -> f ())

let parse_col () =
  let name = next_str () in
  let cls = next_int () in
  let t = next_str () in
  let null = next_bool () in
  let d = match next () with
    | "~" -> None
    | s -> let v = bytes_of_string (unhex (String.sub s 2 (String.length s - 2))) in
           if s.[0] = 'L' then Some (DLit v) else Some (DRaw v) in
  let g = match next () with
    | "~" -> None
    | s -> (match String.split_on_char ':' s with
            | [a; b] -> Some (bytes_of_string (unhex a), bytes_of_string (unhex b))
            | _ -> failwith "gen") in
  let c = next_opt () in
  { c_name = name; c_class = n_of_int cls; c_T = t; c_null = null; c_default = d; c_gen = g; c_comment = c }

let parse_part () =
  let seq = next_int () in
  let desc = next_bool () in
  let c = next_opt () in
  let x = next_opt () in
  { p_seq = n_of_int seq; p_desc = desc; p_col = c; p_expr = x }

let parse_idx () =
  let name = next_str () in
  let u = next_bool () in
  let np = next_int () in
  let parts = times np parse_part in
  let pred = next_opt () in
  let com = next_opt () in
  let org = next_opt () in
  { i_name = name; i_unique = u; i_parts = parts; i_pred = pred; i_comment = com; i_origin = org }

let parse_fk () =
  let sym = next_str () in
  let nc = next_int () in
  let cols = times nc next_str in
  let rt = next_str () in
  let nr = next_int () in
  let rc = times nr next_str in
  let ou = next_str () in
  let od = next_str () in
  { f_symbol = sym; f_cols = cols; f_reftable = rt; f_refcols = rc; f_onupdate = ou; f_ondelete = od }

let parse_table () =
  let name = next_str () in
  let wr = next_bool () in
  let st = next_bool () in
  let nc = next_int () in
  let cols = times nc parse_col in
  let pk = match next () with "~" -> None | "P" -> Some (parse_idx ()) | s -> failwith ("pk " ^ s) in
  let ni = next_int () in
  let idxs = times ni parse_idx in
  let nf = next_int () in
  let fks = times nf parse_fk in
  let nk = next_int () in
  let chks = times nk (fun () -> let n = next_str () in let e = next_str () in { k_name = n; k_expr = e }) in
  { t_name = name; t_without_rowid = wr; t_strict = st; t_cols = cols; t_pk = pk; t_idx = idxs; t_fks = fks; t_checks = chks }

let parse_schema () =
  let name = next_str () in
  let nt = next_int () in
  let ts = times nt parse_table in
  { s_name = name; s_tables = ts }

let k n = string_of_int (int_of_n n)

let show_change = function
  | AddColumn c -> "+C(" ^ raw c ^ ")"
  | DropColumn c -> "-C(" ^ raw c ^ ")"
  | ModifyColumn (c, b) -> "~C(" ^ raw c ^ ":" ^ k b ^ ")"
  | AddIndex n -> "+I(" ^ raw n ^ ")"
  | DropIndex n -> "-I(" ^ raw n ^ ")"
  | ModifyIndex (n, b) -> "~I(" ^ raw n ^ ":" ^ k b ^ ")"
  | AddPrimaryKey -> "+PK"
  | DropPrimaryKey -> "-PK"
  | ModifyPrimaryKey b -> "~PK(" ^ k b ^ ")"
  | RenameConstraint (a, b) -> "RC(" ^ raw a ^ ">" ^ raw b ^ ")"
  | AddForeignKey s -> "+FK(" ^ raw s ^ ")"
  | DropForeignKey s -> "-FK(" ^ raw s ^ ")"
  | ModifyForeignKey (s, b) -> "~FK(" ^ raw s ^ ":" ^ k b ^ ")"
  | AddCheck (n, e) -> "+CK(" ^ raw n ^ ":" ^ hexb e ^ ")"
  | DropCheck (n, e) -> "-CK(" ^ raw n ^ ":" ^ hexb e ^ ")"
  | ModifyCheck (n, e, n2, e2) -> "~CK(" ^ raw n ^ ":" ^ hexb e ^ ">" ^ raw n2 ^ ":" ^ hexb e2 ^ ")"
  | AddAttr a -> "+A(" ^ k a ^ ")"
  | DropAttr a -> "-A(" ^ k a ^ ")"
  | ModifyAttr a -> "~A(" ^ k a ^ ")"

let show_subs cs = "{" ^ String.concat "," (Stdlib.List.map show_change cs) ^ "}"

let show_schange = function
  | AddTable n -> "+T(" ^ raw n ^ ")"
  | DropTable n -> "-T(" ^ raw n ^ ")"
  | ModifyTable (n, cs) -> "~T(" ^ raw n ^ ")" ^ show_subs cs

let skip_of_mask (m : int) (t : tag) : bool =
  let b = match t with
    | TgAddTable -> 1 | TgDropTable -> 2 | TgModifyTable -> 4
    | TgAddColumn -> 8 | TgDropColumn -> 16 | TgModifyColumn -> 32
    | TgAddIndex -> 64 | TgDropIndex -> 128 | TgModifyIndex -> 256
    | TgAddForeignKey -> 512 | TgDropForeignKey -> 1024 | TgModifyForeignKey -> 2048
    | TgRenameConstraint -> 4096 | TgOther -> 0 in
  m land b <> 0

(* The MySQL server variants of harness/cmd/diff/fakemy.go: capabilities by version and the
   effective charset tables (the entries of the embedded tables of
   sql/mysql/internal/mysqlversion/is for the names the generated cases use, overridden /
   extended by the rows the fake server returns). *)
let my_variant (name : string) : mysql_variant =
  let tbl l = Stdlib.List.map (fun (a, b) -> (bytes_of_string a, bytes_of_string b)) l in
  let co_mysql = ["utf8mb4_0900_ai_ci", "utf8mb4"; "utf8mb4_general_ci", "utf8mb4"; "utf8mb4_bin", "utf8mb4";
                  "latin1_swedish_ci", "latin1"; "latin1_bin", "latin1"; "ascii_general_ci", "ascii"; "ascii_bin", "ascii"] in
  let co_maria = ["utf8mb4_general_ci", "utf8mb4"; "utf8mb4_bin", "utf8mb4"; "utf8mb4_uca1400_ai_ci", "utf8mb4";
                  "latin1_swedish_ci", "latin1"; "latin1_bin", "latin1"; "ascii_general_ci", "ascii"; "ascii_bin", "ascii"] in
  match name with
  | "default" -> (* mysql.DefaultDiff: 8.0.31, embedded tables *)
    { mv_check = true; mv_index_expr = true;
      mv_ch2co = tbl ["utf8mb4", "utf8mb4_0900_ai_ci"; "latin1", "latin1_swedish_ci"; "ascii", "ascii_general_ci"];
      mv_co2ch = tbl co_mysql }
  | "my57" -> (* 5.7.44 *)
    { mv_check = false; mv_index_expr = false;
      mv_ch2co = tbl ["utf8mb4", "utf8mb4_general_ci"; "latin1", "latin1_swedish_ci"; "ascii", "ascii_general_ci"];
      mv_co2ch = tbl co_mysql }
  | "my80" -> (* 8.0.36, ascii defaults to ascii_bin on this server *)
    { mv_check = true; mv_index_expr = true;
      mv_ch2co = tbl ["utf8mb4", "utf8mb4_0900_ai_ci"; "latin1", "latin1_swedish_ci"; "ascii", "ascii_bin"];
      mv_co2ch = tbl co_mysql }
  | "maria" -> (* 10.11.6-MariaDB *)
    { mv_check = true; mv_index_expr = false;
      mv_ch2co = tbl ["utf8mb4", "utf8mb4_general_ci"; "latin1", "latin1_swedish_ci"; "ascii", "ascii_general_ci"];
      mv_co2ch = tbl co_maria }
  | v -> failwith ("mysql variant " ^ v)

(* round 5: realm level (DiffRealm.v) *)
let parse_schema_x () =
  let cs = next_opt () in
  let co = next_opt () in
  let cm = next_opt () in
  let s = parse_schema () in
  { sx_schema = s; sx_charset = cs; sx_collate = co; sx_comment = cm }

let parse_realm () =
  let cs = next_opt () in
  let co = next_opt () in
  let n = next_int () in
  let ss = times n parse_schema_x in
  { r_charset = cs; r_collate = co; r_schemas = ss }

let show_sattr = function
  | SAddAttr (a, v) -> "+A(" ^ k a ^ ":" ^ hexb v ^ ")"
  | SModifyAttr (a, v1, v2) -> "~A(" ^ k a ^ ":" ^ hexb v1 ^ ">" ^ hexb v2 ^ ")"

let show_rchange = function
  | AddSchema n -> "+S(" ^ raw n ^ ")"
  | DropSchema n -> "-S(" ^ raw n ^ ")"
  | ModifySchema (n, cs) -> "~S(" ^ raw n ^ "){" ^ String.concat "," (Stdlib.List.map show_sattr cs) ^ "}"
  | InSchema (n, c) -> raw n ^ "/" ^ show_schange c

let rskip_of_mask (m : int) (t : rtag) : bool =
  match t with
  | RtAddSchema -> m land 8192 <> 0
  | RtDropSchema -> m land 16384 <> 0
  | RtModifySchema -> m land 32768 <> 0
  | RtTag t -> skip_of_mask m t

(* one realm case: <id> R|X <dialect> <mask> <realm> <realm>; X = SchemaDiff of the first schemas *)
let process_realm line =
  toks := Array.of_list (Stdlib.List.filter (fun s -> s <> "") (String.split_on_char ' ' line));
  pos := 0;
  let id = next () in
  let op = next () in
  let dialect = next () in
  let mask = next_int () in
  let from = parse_realm () in
  let to_ = parse_realm () in
  let rskip = rskip_of_mask mask in
  let realm_diff, schema_diff_x = match dialect with
    | "sqlite" -> sqlite_realm_diff, sqlite_schema_diff_x
    | "mysql" -> let v = my_variant "default" in mysql_realm_diff_v v, mysql_schema_diff_x_v v
    | "postgres" -> pg_realm_diff_ns [], pg_schema_diff_x_ns []
    | "postgres-ns" -> pg_realm_diff_ns (bytes_of_string "public"), pg_schema_diff_x_ns (bytes_of_string "public")
    | d -> failwith ("dialect " ^ d) in
  let res = match op with
    | "R" -> realm_diff rskip from to_
    | "X" ->
      (match from.r_schemas, to_.r_schemas with
       | s1 :: _, s2 :: _ -> schema_diff_x rskip from s1 s2
       | _ -> None)
    | o -> failwith ("op " ^ o) in
  let obs = match res with
    | None -> "err"
    | Some [] -> "[]"
    | Some cs -> String.concat ";" (Stdlib.List.map show_rchange cs) in
  id ^ " " ^ obs ^ "\n"

(* round 5: table attributes (DiffTableAttrs.v) *)
let parse_table_x () =
  let cm = next_opt () in
  let cs = next_opt () in
  let co = next_opt () in
  let en = match next () with
    | "~" -> None
    | s -> (match String.split_on_char ':' s with
            | [v; d] -> Some (bytes_of_string (unhex v), d = "1")
            | _ -> failwith "engine") in
  let ai = match next () with "~" -> None | s -> Some (n_of_int (int_of_string s)) in
  let sv = next_bool () in
  let pt = next_opt () in
  let t = parse_table () in
  { tx_table = t; tx_comment = cm; tx_charset = cs; tx_collate = co; tx_engine = en; tx_autoinc = ai;
    tx_sysver = sv; tx_partition = pt }

let parse_schema_tx () =
  let name = next_str () in
  let cs = next_opt () in
  let co = next_opt () in
  let n = next_int () in
  let ts = times n parse_table_x in
  { stx_name = name; stx_charset = cs; stx_collate = co; stx_tables = ts }

(* <id> S|T <dialect> <mask> <schema_tx> <schema_tx>; T = TableDiff of the first tables *)
let process_tattrs line =
  toks := Array.of_list (Stdlib.List.filter (fun s -> s <> "") (String.split_on_char ' ' line));
  pos := 0;
  let id = next () in
  let op = next () in
  let dialect = next () in
  let mask = next_int () in
  let skip = skip_of_mask mask in
  if op = "K" then begin
    (* <id> K <dialect> <mask> <schema charset|~> <schema collation|~> <table_xk> <table_xk>;
       table_xk = <n> { <name> <expr> <flag> } <table_x without checks> *)
    let pcs = next_opt () in
    let pco = next_opt () in
    let parse_xk () =
      let nk = next_int () in
      let ks = times nk (fun () -> let n = next_str () in let e = next_str () in let f = next_bool () in
                                   { kx_name = n; kx_expr = e; kx_flag = f }) in
      let tx = parse_table_x () in
      { xk_table = tx; xk_checks = ks } in
    let from = parse_xk () in
    let to_ = parse_xk () in
    let td = match dialect with
      | "mysql" -> mysql_table_diff_xk (my_variant "default")
      | "postgres" -> pg_table_diff_xk []
      | d -> failwith ("dialect " ^ d) in
    id ^ " " ^ (match td skip pcs pco from to_ with None -> "err" | Some cs -> show_subs cs) ^ "\n"
  end else
  let from = parse_schema_tx () in
  let to_ = parse_schema_tx () in
  let schema_diff, table_diff = match dialect with
    | "mysql" -> let v = my_variant "default" in mysql_schema_diff_tx v, mysql_table_diff_tx v
    | "postgres" -> pg_schema_diff_tx [], pg_table_diff_tx []
    | d -> failwith ("dialect " ^ d) in
  let obs = match op with
    | "S" ->
      (match schema_diff skip from to_ with
       | None -> "err"
       | Some [] -> "[]"
       | Some cs -> String.concat ";" (Stdlib.List.map show_schange cs))
    | "T" ->
      (match from.stx_tables, to_.stx_tables with
       | t1 :: _, t2 :: _ ->
         (match table_diff skip from.stx_charset from.stx_collate t1 t2 with
          | None -> "err"
          | Some cs -> show_subs cs)
       | _ -> "err")
    | o -> failwith ("op " ^ o) in
  id ^ " " ^ obs ^ "\n"

(* round 5: views (DiffViews.v) *)
let parse_schema_v () =
  let s = parse_schema () in
  let nv = next_int () in
  let vs = times nv (fun () ->
    let name = next_str () in
    let def = next_str () in
    let mat = next_bool () in
    let nc = next_int () in
    let cols = times nc (fun () -> let n = next_str () in let c = next_opt () in (n, c)) in
    let ni = next_int () in
    let idx = times ni parse_idx in
    { v_name = name; v_def = def; v_mat = mat; v_cols = cols; v_idx = idx }) in
  { sv_schema = s; sv_views = vs }

let show_svchange = function
  | ST c -> show_schange c
  | SV (AddView (n, m)) -> "+V(" ^ raw n ^ ":" ^ (if m then "1" else "0") ^ ")"
  | SV (DropView (n, m)) -> "-V(" ^ raw n ^ ":" ^ (if m then "1" else "0") ^ ")"
  | SV (ModifyView (n, m, cs)) -> "~V(" ^ raw n ^ ":" ^ (if m then "1" else "0") ^ ")" ^ show_subs cs

(* <id> V <dialect> <mask> <schema_v> <schema_v> *)
let process_views line =
  toks := Array.of_list (Stdlib.List.filter (fun s -> s <> "") (String.split_on_char ' ' line));
  pos := 0;
  let id = next () in
  let _op = next () in
  let dialect = next () in
  let mask = next_int () in
  let from = parse_schema_v () in
  let to_ = parse_schema_v () in
  let vskip = function
    | VtAddView -> mask land 8192 <> 0
    | VtDropView -> mask land 16384 <> 0
    | VtModifyView -> mask land 32768 <> 0
    | VtTag t -> skip_of_mask mask t in
  let sd = match dialect with
    | "sqlite" -> sqlite_schema_diff_v
    | "mysql" -> mysql_schema_diff_v_v (my_variant "default")
    | "postgres" -> pg_schema_diff_v_ns []
    | d -> failwith ("dialect " ^ d) in
  let obs = match sd vskip from to_ with
    | None -> "err"
    | Some [] -> "[]"
    | Some cs -> String.concat ";" (Stdlib.List.map show_svchange cs) in
  id ^ " " ^ obs ^ "\n"

(* round 5: enum objects (DiffObjects.v) *)
let process_objects line =
  toks := Array.of_list (Stdlib.List.filter (fun s -> s <> "") (String.split_on_char ' ' line));
  pos := 0;
  let id = next () in
  let _op = next () in
  let _dialect = next () in
  let mask = next_int () in
  let parse_schema_o () =
    let s = parse_schema () in
    let n = next_int () in
    let es = times n (fun () -> let t = next_str () in let nv = next_int () in let vs = times nv next_str in
                                { e_T = t; e_values = vs }) in
    { so_schema = s; so_enums = es } in
  let from = parse_schema_o () in
  let to_ = parse_schema_o () in
  let oskip = function
    | OtAddObject -> mask land 8192 <> 0
    | OtDropObject -> mask land 16384 <> 0
    | OtModifyObject -> mask land 32768 <> 0
    | OtTag t -> skip_of_mask mask t in
  let hexs vs = String.concat "," (Stdlib.List.map hexb vs) in
  let show = function
    | SOT c -> show_schange c
    | SO (AddObject t) -> "+O(" ^ raw t ^ ")"
    | SO (DropObject t) -> "-O(" ^ raw t ^ ")"
    | SO (ModifyObject (t, v1, v2)) -> "~O(" ^ raw t ^ ")[" ^ hexs v1 ^ ">" ^ hexs v2 ^ "]" in
  let obs = match pg_schema_diff_o [] oskip from to_ with
    | None -> "err"
    | Some [] -> "[]"
    | Some cs -> String.concat ";" (Stdlib.List.map show cs) in
  id ^ " " ^ obs ^ "\n"

let () =
  let dialect = if Array.length Sys.argv > 1 then Sys.argv.(1) else "sqlite" in
  if dialect = "objects" then begin
    (try while true do let l = input_line stdin in if l <> "" then print_string (process_objects l) done with End_of_file -> ());
    exit 0
  end;
  if dialect = "views" then begin
    (try while true do let l = input_line stdin in if l <> "" then print_string (process_views l) done with End_of_file -> ());
    exit 0
  end;
  if dialect = "tattrs" then begin
    (try while true do let l = input_line stdin in if l <> "" then print_string (process_tattrs l) done with End_of_file -> ());
    exit 0
  end;
  if dialect = "realm" then begin
    (try while true do let l = input_line stdin in if l <> "" then print_string (process_realm l) done with End_of_file -> ());
    exit 0
  end;
  let schema_diff, table_diff = match dialect with
    | "sqlite" -> sqlite_schema_diff, sqlite_table_diff
    | "mysql" -> let v = my_variant "default" in mysql_schema_diff_v v, mysql_table_diff_v v
    | "mysql-my57" | "mysql-my80" | "mysql-maria" ->
      let v = my_variant (String.sub dialect 6 (String.length dialect - 6)) in mysql_schema_diff_v v, mysql_table_diff_v v
    | "postgres" -> pg_schema_diff, pg_table_diff
    | "postgres-ns" -> pg_public_schema_diff, pg_public_table_diff
    | d -> failwith ("dialect " ^ d) in
  let process line =
    toks := Array.of_list (Stdlib.List.filter (fun s -> s <> "") (String.split_on_char ' ' line));
    pos := 0;
    let id = next () in
    let op = next () in
    let mask = next_int () in
    let from = parse_schema () in
    let to_ = parse_schema () in
    let skip = skip_of_mask mask in
    let obs = match op with
      | "S" ->
        (match schema_diff skip from to_ with
         | None -> "err"
         | Some [] -> "[]"
         | Some cs -> String.concat ";" (Stdlib.List.map show_schange cs))
      | "T" ->
        (match from.s_tables, to_.s_tables with
         | t1 :: _, t2 :: _ ->
           (match table_diff skip t1 t2 with
            | None -> "err"
            | Some cs -> show_subs cs)
         | _ -> "err")
      | o -> failwith ("op " ^ o) in
    id ^ " " ^ obs ^ "\n" in
  (* the cases are independent: read them all, evaluate contiguous chunks in forked workers
     (VERIF_MODEL_JOBS, default 8), print the answers in the order of the input *)
  let lines = ref [] in
  (try while true do let l = input_line stdin in if l <> "" then lines := l :: !lines done with End_of_file -> ());
  let all = Array.of_list (Stdlib.List.rev !lines) in
  let n = Array.length all in
  let jobs = try max 1 (int_of_string (Sys.getenv "VERIF_MODEL_JOBS")) with _ -> 8 in
  let jobs = if n < 64 then 1 else jobs in
  if jobs = 1 then Array.iter (fun l -> print_string (process l)) all
  else begin
    let chunk = (n + jobs - 1) / jobs in
    let kids = Stdlib.List.init jobs (fun j ->
      let lo = j * chunk and hi = min n ((j + 1) * chunk) in
      let tmp = Filename.temp_file "model_diff" ".out" in
      flush stdout;
      match Unix.fork () with
      | 0 ->
        let oc = open_out tmp in
        (try for i = lo to hi - 1 do output_string oc (process all.(i)) done; close_out oc; Unix._exit 0
         with e -> prerr_endline (Printexc.to_string e); Unix._exit 3)
      | pid -> (pid, tmp)) in
    let ok = ref true in
    Stdlib.List.iter (fun (pid, tmp) ->
      (match Unix.waitpid [] pid with
       | _, Unix.WEXITED 0 -> ()
       | _ -> ok := false);
      let ic = open_in_bin tmp in
      let len = in_channel_length ic in
      print_string (really_input_string ic len);
      close_in ic; Sys.remove tmp) kids;
    if not !ok then exit 3
  end
