(* Extraction of M-SCHEMA (C02): the generic differ instantiated with the SQLite driver.
   ExtrOcamlBasic only; nat, positive, N stay inductive. *)
Require Extraction.
Require Import ExtrOcamlBasic.
From Atlas Require Import Base.Bytes Diff.Schema Diff.DiffModel Diff.DiffSqlite.
Extraction Language OCaml.
Extraction "model.ml" sqlite_schema_diff sqlite_table_diff.
