(* Extraction of M-SCHEMA (C02): the generic differ instantiated with the SQLite, MySQL and
   PostgreSQL drivers.  ExtrOcamlBasic only; nat, positive, N stay inductive. *)
Require Extraction.
Require Import ExtrOcamlBasic.
From Atlas Require Import Base.Bytes Diff.Schema Diff.DiffModel Diff.DiffSqlite Diff.DiffDialects Diff.DiffMysqlVariants Diff.DiffRealm Diff.DiffTableAttrs Diff.DiffCheckFlags Diff.DiffViews Diff.DiffObjects.
Extraction Language OCaml.
Extraction "model.ml" sqlite_schema_diff sqlite_table_diff mysql_schema_diff mysql_table_diff pg_schema_diff pg_table_diff pg_public_schema_diff pg_public_table_diff mysql_schema_diff_v mysql_table_diff_v
  sqlite_realm_diff sqlite_schema_diff_x mysql_realm_diff_v mysql_schema_diff_x_v pg_realm_diff_ns pg_schema_diff_x_ns
  mysql_schema_diff_tx mysql_table_diff_tx pg_schema_diff_tx pg_table_diff_tx mysql_table_diff_xk pg_table_diff_xk
  sqlite_schema_diff_v mysql_schema_diff_v_v pg_schema_diff_v_ns pg_schema_diff_o.
