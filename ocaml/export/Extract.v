(* Extraction of the C03 models. ExtrOcamlBasic only. *)
Require Extraction.
Require Import ExtrOcamlBasic.
From Atlas Require Import Base.Bytes Diff.Schema Sqlite.PlanModel Sqlite.ExportDump Sqlite.ExportRealm Sqlite.ExportFault Sqlite.ExportModel Sqlite.ExportPrint Sqlite.ExportPrintIndent Hcl.SpecModel.
Extraction Language OCaml.
Extraction "model.ml" recover scan_expr fill_checks hcl_roundtrip print_table print_table_ind print_index idx_exprs expr_last_index dump_creates dump_script fault_outcomes.
