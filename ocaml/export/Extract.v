(* Extraction of the C03 models. ExtrOcamlBasic only. *)
Require Extraction.
Require Import ExtrOcamlBasic.
From Atlas Require Import Base.Bytes Diff.Schema Sqlite.PlanModel Sqlite.ExportDump Sqlite.ExportModel Sqlite.ExportPrint Hcl.SpecModel.
Extraction Language OCaml.
Extraction "model.ml" recover scan_expr fill_checks hcl_roundtrip print_table print_index idx_exprs expr_last_index dump_creates.
