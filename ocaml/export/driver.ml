(* Driver for the extracted C03 models.  Mode "regex": one case per line
   <id> <text> <cols> <hidden> <pk> <partial stmts> <fks>
   (bytes as hex, "-" = empty; lists comma separated; a foreign key is
   sym|col:col|reftable|col:col, foreign keys separated by ';').
   Prints the recovery of sql/sqlite/inspect.go in the harness's canonical text. *)
open Model

let rec pos_of_int i = if i = 1 then XH else if i land 1 = 0 then XO (pos_of_int (i lsr 1)) else XI (pos_of_int (i lsr 1))
let n_of_int i = if i = 0 then N0 else Npos (pos_of_int i)
let rec int_of_pos = function XH -> 1 | XO p -> 2 * int_of_pos p | XI p -> 2 * int_of_pos p + 1
let int_of_n = function N0 -> 0 | Npos p -> int_of_pos p

let bytes_of_string (s : Stdlib.String.t) = Stdlib.List.init (Stdlib.String.length s) (fun i -> n_of_int (Char.code s.[i]))
let unhex (h : Stdlib.String.t) : Stdlib.String.t =
  if h = "-" then "" else
  Stdlib.String.init (Stdlib.String.length h / 2) (fun i -> Char.chr (int_of_string ("0x" ^ Stdlib.String.sub h (2 * i) 2)))
let hb h = bytes_of_string (unhex h)
let hex (b : n list) : Stdlib.String.t =
  if b = [] then "-" else Stdlib.String.concat "" (Stdlib.List.map (fun x -> Printf.sprintf "%02x" (int_of_n x)) b)
let split c s = if s = "-" || s = "" then [] else Stdlib.String.split_on_char c s
let hlist s = Stdlib.List.map hb (split ',' s)

let parse_fk (s : Stdlib.String.t) =
  match Stdlib.String.split_on_char '|' s with
  | [sym; cols; rt; rcols] ->
    { pf_symbol = hb sym; pf_cols = Stdlib.List.map hb (split ':' cols); pf_reftable = hb rt; pf_refcols = Stdlib.List.map hb (split ':' rcols) }
  | _ -> failwith ("bad fk " ^ s)

let err_name = function
  | EGenNotFound -> "gen-not-found" | EGenEmpty -> "gen-empty" | EAutoNoColumn -> "autoinc-no-column"
  | EAutoUnexpectedPK -> "autoinc-unexpected-pk" | EMissingWhere -> "missing-where" | EUnmodelled -> "unmodelled"

let join = Stdlib.String.concat ","
let or_dash s = if s = "" then "-" else s

let () =
  let mode = if Array.length Sys.argv > 1 then Sys.argv.(1) else "regex" in
  ignore mode;
  try
    while true do
      let line = input_line stdin in
      match Stdlib.String.split_on_char ' ' line with
      | [id; text; cols; hidden; pk; partials; fks] ->
        let r = recover (hb text) (hlist cols) (hlist hidden) (hlist pk) (hlist partials)
                  (Stdlib.List.map parse_fk (split ';' fks)) in
        (match r with
         | Inl e -> Printf.printf "%s err=%s\n" id (err_name e)
         | Inr x ->
           let gens = join (Stdlib.List.map (fun (c, e) -> hex c ^ ":" ^ hex e) x.r_gens) in
           let auto = (match x.r_auto with Some c -> hex c | None -> "-") in
           let preds = join (Stdlib.List.map hex x.r_preds) in
           let fks = join (Stdlib.List.map hex x.r_fks) in
           let checks = join (Stdlib.List.map (fun (n, e) -> (match n with Some w -> hex w | None -> "-") ^ ":" ^ hex e) x.r_checks) in
           Printf.printf "%s gens=%s auto=%s preds=%s fks=%s checks=%s\n" id (or_dash gens) auto (or_dash preds) (or_dash fks) (or_dash checks))
      | _ -> ()
    done
  with End_of_file -> ()
