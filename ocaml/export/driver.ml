(* Driver for the extracted C03 models.  Mode "regex": one case per line
   <id> <text> <cols> <hidden> <pk> <partial stmts> <fks>
   (bytes as hex, "-" = empty; lists comma separated; a foreign key is
   sym|col:col|reftable|col:col, foreign keys separated by ';').
   Prints the recovery of sql/sqlite/inspect.go in the harness's canonical text. *)
open Model

let rec pos_of_int i = if i = 1 then XH else if i land 1 = 0 then XO (pos_of_int (i lsr 1)) else XI (pos_of_int (i lsr 1))
let n_of_int i = if i = 0 then N0 else Npos (pos_of_int i)
let rec int_of_pos = function XH -> 1 | XO p -> 2 * int_of_pos p | XI p -> 2 * int_of_pos p + 1
let int_of_n = function N0 -> 0 | Npos p -> int_of_pos p

let bytes_of_string (s : Stdlib.String.t) = Stdlib.List.init (Stdlib.String.length s) (fun i -> n_of_int (Char.code s.[i]))
let unhex (h : Stdlib.String.t) : Stdlib.String.t =
  if h = "-" then "" else
  Stdlib.String.init (Stdlib.String.length h / 2) (fun i -> Char.chr (int_of_string ("0x" ^ Stdlib.String.sub h (2 * i) 2)))
let hb h = bytes_of_string (unhex h)
let hex (b : n list) : Stdlib.String.t =
  if b = [] then "-" else Stdlib.String.concat "" (Stdlib.List.map (fun x -> Printf.sprintf "%02x" (int_of_n x)) b)
let split c s = if s = "-" || s = "" then [] else Stdlib.String.split_on_char c s
let hlist s = Stdlib.List.map hb (split ',' s)

let parse_fk (s : Stdlib.String.t) =
  match Stdlib.String.split_on_char '|' s with
  | [sym; cols; rt; rcols] ->
    { pf_symbol = hb sym; pf_cols = Stdlib.List.map hb (split ':' cols); pf_reftable = hb rt; pf_refcols = Stdlib.List.map hb (split ':' rcols) }
  | _ -> failwith ("bad fk " ^ s)

let err_name = function
  | EGenNotFound -> "gen-not-found" | EGenEmpty -> "gen-empty" | EAutoNoColumn -> "autoinc-no-column"
  | EAutoUnexpectedPK -> "autoinc-unexpected-pk" | EMissingWhere -> "missing-where" | EUnmodelled -> "unmodelled"

let join = Stdlib.String.concat ","
let or_dash s = if s = "" then "-" else s


(* ---- mode "spec": schema tokens (format of harness/cmd/export/tok.go) *)
let toks = ref [||]
let pos = ref 0
let next () = let t = !toks.(!pos) in incr pos; t
let next_int () = int_of_string (next ())
let next_str () = hb (next ())
let next_bool () = next () = "1"
let next_opt () = match next () with "~" -> None | h -> Some (hb h)
let times n f = Stdlib.List.init n (fun _ -> ()) |> Stdlib.List.map (fun () -> f ())

let parse_col () =
  let name = next_str () in
  let cls = next_int () in
  let t = next_str () in
  let null = next_bool () in
  let d = match next () with
    | "~" -> None
    | s -> let v = hb (Stdlib.String.sub s 2 (Stdlib.String.length s - 2)) in
           if s.[0] = 'L' then Some (DLit v) else Some (DRaw v) in
  let g = match next () with
    | "~" -> None
    | s -> (match Stdlib.String.split_on_char ':' s with
            | [a; b] -> Some (hb a, hb b)
            | _ -> failwith "gen") in
  let c = next_opt () in
  { c_name = name; c_class = n_of_int cls; c_T = t; c_null = null; c_default = d; c_gen = g; c_comment = c }
let parse_part () =
  let seq = next_int () in
  let desc = next_bool () in
  let c = next_opt () in
  let x = next_opt () in
  { p_seq = n_of_int seq; p_desc = desc; p_col = c; p_expr = x }
let parse_idx () =
  let name = next_str () in
  let u = next_bool () in
  let np = next_int () in
  let parts = times np parse_part in
  let pred = next_opt () in
  let com = next_opt () in
  let org = next_opt () in
  { i_name = name; i_unique = u; i_parts = parts; i_pred = pred; i_comment = com; i_origin = org }
let parse_tfk () =
  let sym = next_str () in
  let nc = next_int () in
  let cols = times nc next_str in
  let rt = next_str () in
  let nr = next_int () in
  let rc = times nr next_str in
  let ou = next_str () in
  let od = next_str () in
  { f_symbol = sym; f_cols = cols; f_reftable = rt; f_refcols = rc; f_onupdate = ou; f_ondelete = od }
let parse_table () =
  let name = next_str () in
  let wr = next_bool () in
  let st = next_bool () in
  let nc = next_int () in
  let cols = times nc parse_col in
  let pk = match next () with "~" -> None | "P" -> Some (parse_idx ()) | s -> failwith ("pk " ^ s) in
  let ni = next_int () in
  let idxs = times ni parse_idx in
  let nf = next_int () in
  let fks = times nf parse_tfk in
  let nk = next_int () in
  let chks = times nk (fun () -> let n = next_str () in let e = next_str () in { k_name = n; k_expr = e }) in
  let na = next_int () in
  let ai = times na next_str in
  { x_t = { t_name = name; t_without_rowid = wr; t_strict = st; t_cols = cols; t_pk = pk; t_idx = idxs; t_fks = fks; t_checks = chks };
    x_autoinc = ai }

let b01 b = if b then "1" else "0"
let opt = function None -> "~" | Some b -> hex b
let show_col c =
  [hex c.c_name; string_of_int (int_of_n c.c_class); hex c.c_T; b01 c.c_null;
   (match c.c_default with None -> "~" | Some (DLit v) -> "L:" ^ hex v | Some (DRaw v) -> "R:" ^ hex v);
   (match c.c_gen with None -> "~" | Some (a, b) -> hex a ^ ":" ^ hex b);
   opt c.c_comment]
let show_idx i =
  [hex i.i_name; b01 i.i_unique; string_of_int (Stdlib.List.length i.i_parts)]
  @ Stdlib.List.concat_map (fun p -> [string_of_int (int_of_n p.p_seq); b01 p.p_desc; opt p.p_col; opt p.p_expr]) i.i_parts
  @ [opt i.i_pred; opt i.i_comment; opt i.i_origin]
let show_table x =
  let t = x.x_t in
  [hex t.t_name; b01 t.t_without_rowid; b01 t.t_strict; string_of_int (Stdlib.List.length t.t_cols)]
  @ Stdlib.List.concat_map show_col t.t_cols
  @ (match t.t_pk with None -> ["~"] | Some i -> "P" :: show_idx i)
  @ [string_of_int (Stdlib.List.length t.t_idx)] @ Stdlib.List.concat_map show_idx t.t_idx
  @ [string_of_int (Stdlib.List.length t.t_fks)]
  @ Stdlib.List.concat_map (fun f ->
      [hex f.f_symbol; string_of_int (Stdlib.List.length f.f_cols)] @ Stdlib.List.map hex f.f_cols
      @ [hex f.f_reftable; string_of_int (Stdlib.List.length f.f_refcols)] @ Stdlib.List.map hex f.f_refcols
      @ [hex f.f_onupdate; hex f.f_ondelete]) t.t_fks
  @ [string_of_int (Stdlib.List.length t.t_checks)]
  @ Stdlib.List.concat_map (fun k -> [hex k.k_name; hex k.k_expr]) t.t_checks
  @ [string_of_int (Stdlib.List.length x.x_autoinc)] @ Stdlib.List.map hex x.x_autoinc

let spec_line (line : Stdlib.String.t) =
  let parts = Stdlib.String.split_on_char ' ' line in
  match parts with
  | id :: rest ->
    toks := Array.of_list rest; pos := 0;
    let name = next () in
    let nt = next_int () in
    let xs = times nt parse_table in
    (match hcl_roundtrip xs with
     | ROk ys -> Printf.printf "%s %s\n" id (Stdlib.String.concat " " (name :: string_of_int (Stdlib.List.length ys) :: Stdlib.List.concat_map show_table ys))
     | RErr -> Printf.printf "%s err\n" id
     | RPanic -> Printf.printf "%s panic\n" id
     | RUnmodelled -> Printf.printf "%s unmodelled\n" id)
  | [] -> ()

let print_line (line : Stdlib.String.t) =
  let parts = Stdlib.String.split_on_char ' ' line in
  match parts with
  | id :: rest ->
    toks := Array.of_list rest; pos := 0;
    let first = next () in
    let ind = if Stdlib.String.length first > 4 && Stdlib.String.sub first 0 4 = "ind=" then Some (hb (Stdlib.String.sub first 4 (Stdlib.String.length first - 4))) else None in
    let nt = next_int () in
    let xs = times nt parse_table in
    let one x =
      match (match ind with Some i -> print_table_ind i x | None -> print_table x) with
      | None -> "err"
      | Some t ->
        let idx = Stdlib.List.map (fun i -> match print_index x.x_t i with Some s -> hex s | None -> "ERR") x.x_t.t_idx in
        if Stdlib.List.mem "ERR" idx then "err" else Stdlib.String.concat "," (hex t :: idx) in
    let o = if xs = [] then "-" else Stdlib.String.concat ";" (Stdlib.List.map one xs) in
    Printf.printf "%s %s\n" id o
  | [] -> ()

let script_line_ref : (Stdlib.String.t -> unit) ref = ref (fun _ -> ())
(* ---- mode "dump": <id> dump <hex table>|<hex ref>:<hex ref>,...  ->  <id> creates <hex>,... *)
let dump_line line =
  match Stdlib.String.split_on_char ' ' line with
  | _ :: ("script" | "scriptx") :: _ -> script_line_ref.contents line
  | id :: "dump" :: rest ->
    let ts = (match rest with [] -> "" | x :: _ -> x) in
    let tables = if ts = "" then [] else Stdlib.String.split_on_char ',' ts in
    let one t = (match Stdlib.String.split_on_char '|' t with
      | [n; refs] -> (hb (if n = "-" then "" else n), Stdlib.List.map (fun r -> hb (if r = "-" then "" else r)) (if refs = "" then [] else Stdlib.String.split_on_char ':' refs))
      | _ -> failwith "dump: bad table token") in
    (match dump_creates (Stdlib.List.map one tables) with
     | Some names -> Printf.printf "%s creates %s\n" id (Stdlib.String.concat "," (Stdlib.List.map hex names))
     | None -> Printf.printf "%s err\n" id)
  | _ -> ()

(* ---- mode "dump", second line kind: <id> script|scriptx <bound 0|1> <table>,...   with
   table = <hex name>|<hex ref>:<hex ref>|<idx>;<idx>   idx = <hex name>~<hex origin or ->~<x or hex col:hex col>
   ->  <id> objs T<hex>,I<hex>@<hex>,... [exec=ok|clash]   (scriptx: without the verdict of the catalogue replay) *)
let script_line line =
  match Stdlib.String.split_on_char ' ' line with
  | id :: kw :: b :: rest ->
    let ts = (match rest with [] -> "" | x :: _ -> x) in
    let tables = if ts = "" then [] else Stdlib.String.split_on_char ',' ts in
    let un h = hb (if h = "" then "-" else h) in
    let one_idx s = (match Stdlib.String.split_on_char '~' s with
      | [n; o; cols] ->
        ((un n, (if o = "-" then None else Some (un o))),
         (if cols = "x" then None else Some (Stdlib.List.map un (if cols = "" then [] else Stdlib.String.split_on_char ':' cols))))
      | _ -> failwith "script: bad index token") in
    let one t = (match Stdlib.String.split_on_char '|' t with
      | [n; refs; idxs] ->
        ((un n, Stdlib.List.map un (if refs = "" then [] else Stdlib.String.split_on_char ':' refs)),
         Stdlib.List.map one_idx (if idxs = "" then [] else Stdlib.String.split_on_char ';' idxs))
      | _ -> failwith "script: bad table token") in
    (match dump_script (b = "1") (Stdlib.List.map one tables) with
     | Some (os, ok) ->
       let o = Stdlib.String.concat "," (Stdlib.List.map (function
         | OTable (n, _) -> "T" ^ hex n | OIndex (i, t) -> "I" ^ hex i ^ "@" ^ hex t | OOther -> "?") os) in
       if kw = "script" then Printf.printf "%s objs %s exec=%s\n" id (or_dash o) (if ok then "ok" else "clash")
       else Printf.printf "%s objs %s\n" id (or_dash o)
     | None -> Printf.printf "%s err\n" id)
  | _ -> ()

let () = script_line_ref := script_line

(* ---- mode "fault": <id> faults <n1>,<n2>,...  ->  <id> reads=<N> outcomes=err,... *)
let rec nat_of_int i = if i <= 0 then O else S (nat_of_int (i - 1))
let rec int_of_nat = function O -> 0 | S n -> 1 + int_of_nat n
let fault_line line =
  match Stdlib.String.split_on_char ' ' line with
  | id :: "faults" :: rest ->
    let cs = (match rest with [] -> "" | x :: _ -> x) in
    let counts = if cs = "" then [] else Stdlib.List.map (fun s -> nat_of_int (int_of_string s)) (Stdlib.String.split_on_char ',' cs) in
    let (n, outs) = fault_outcomes counts in
    Printf.printf "%s reads=%d outcomes=%s\n" id (int_of_nat n)
      (Stdlib.String.concat "," (Stdlib.List.map (fun b -> if b then "err" else "value") outs))
  | _ -> ()

let () =
  let mode = if Array.length Sys.argv > 1 then Sys.argv.(1) else "regex" in
  try
    while true do
      let line = input_line stdin in
      if mode = "fault" then fault_line line else if mode = "dump" then dump_line line else if mode = "spec" then spec_line line else if mode = "print" then print_line line else
      match Stdlib.String.split_on_char ' ' line with
      | [id; text; cols; hidden; pk; partials; fks; xidx] ->
        let r = recover (hb text) (hlist cols) (hlist hidden) (hlist pk) (hlist partials)
                  (Stdlib.List.map parse_fk (split ';' fks)) in
        (match r with
         | Inl e -> Printf.printf "%s err=%s\n" id (err_name e)
         | Inr x ->
           let gens = join (Stdlib.List.map (fun (c, e) -> hex c ^ ":" ^ hex e) x.r_gens) in
           let auto = (match x.r_auto with Some c -> hex c | None -> "-") in
           let preds = join (Stdlib.List.map hex x.r_preds) in
           let fks = join (Stdlib.List.map hex x.r_fks) in
           let checks = join (Stdlib.List.map (fun (n, e) -> (match n with Some w -> hex w | None -> "-") ^ ":" ^ hex e) x.r_checks) in
           let xparts = Stdlib.String.concat ";" (Stdlib.List.map (fun t ->
               match Stdlib.String.split_on_char '|' t with
               | [stmt; flags] ->
                 let n = Stdlib.String.length flags / 2 in
                 let parts = Stdlib.List.init n (fun i -> (flags.[2*i] = 'x', flags.[2*i+1] = '1')) in
                 join (Stdlib.List.map hex (idx_exprs expr_last_index (hb stmt) parts))
               | _ -> failwith "xidx") (split ';' xidx)) in
           Printf.printf "%s gens=%s auto=%s preds=%s fks=%s checks=%s xparts=%s\n" id (or_dash gens) auto (or_dash preds) (or_dash fks) (or_dash checks) (or_dash xparts))
      | _ -> ()
    done
  with End_of_file -> ()
