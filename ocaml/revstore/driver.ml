(* Driver for the extracted M-STORE model (C12, stages cli / fault).
   Reads the histories the Go harness wrote (one per line) and prints the
   model's observations in the canonical text the harness prints for the
   real `atlas migrate apply` runs. *)
open Model

let rec nat_of_int i = if i <= 0 then O else S (nat_of_int (i - 1))
let rec int_of_nat = function O -> 0 | S n -> 1 + int_of_nat n
let rec pos_of_int i = if i = 1 then XH else if i land 1 = 0 then XO (pos_of_int (i lsr 1)) else XI (pos_of_int (i lsr 1))
let n_of_int i = if i = 0 then N0 else Npos (pos_of_int i)
let rec int_of_pos = function XH -> 1 | XO p -> 2 * int_of_pos p | XI p -> 2 * int_of_pos p + 1
let int_of_n = function N0 -> 0 | Npos p -> int_of_pos p

let bytes_of_string (s : string) : bytes =
  Stdlib.List.init (String.length s) (fun i -> n_of_int (Char.code s.[i]))
let string_of_bytes (b : bytes) : string =
  String.concat "" (Stdlib.List.map (fun x -> String.make 1 (Char.chr (int_of_n x))) b)
let unhex (h : string) : string =
  if h = "-" then "" else
  String.init (String.length h / 2) (fun i -> Char.chr (int_of_string ("0x" ^ String.sub h (2 * i) 2)))
let hex (s : string) : string =
  if s = "" then "-" else String.concat "" (Stdlib.List.init (String.length s) (fun i -> Printf.sprintf "%02x" (Char.code s.[i])))
let hexb b = hex (string_of_bytes b)
let hs (b : bytes) : string = Sha256.hs (string_of_bytes b)
let heq (a : string) (b : string) = (a = b)
let b2s b = if b then "1" else "0"

(* version:applied:total:#partial_hashes:error:type *)
let show_row (r : string rev) =
  Printf.sprintf "%s:%d:%d:%d:%s:%d" (hexb r.r_version) (int_of_nat r.r_applied) (int_of_nat r.r_total)
    (Stdlib.List.length r.r_hashes) (b2s r.r_err) (int_of_n r.r_kind)

let show_exec = function
  | ODone -> "done" | OStmtErr -> "stmterr" | OWriteErr -> "writeerr"
  | OHistory i -> Printf.sprintf "history:%d" (int_of_nat i) | OPanic -> "panic"
let show_outcome = function
  | CReadErr -> "readerr"
  | CPend PNoPending -> "nopending"
  | CPend _ -> "pend"
  | CRun SReadErr -> "readerr"
  | CRun (SExec o) -> show_exec o

let toks = ref [||]
let pos = ref 0
let next () = let t = !toks.(!pos) in incr pos; t
let next_int () = int_of_string (next ())

let parse_files () : file list =
  let nfiles = next_int () in
  Stdlib.List.init nfiles (fun _ -> ()) |> Stdlib.List.map (fun () ->
    let v = bytes_of_string (unhex (next ())) in
    let ck = next () = "1" in
    let ns = next_int () in
    let stmts = Stdlib.List.init ns (fun _ -> ()) |> Stdlib.List.map (fun () -> bytes_of_string (unhex (next ()))) in
    { f_version = v; f_stmts = stmts; f_ckpt = ck })

let parse_run () : cli_run =
  let txfile = match next () with "none" -> false | "file" -> true | s -> failwith ("txmode " ^ s) in
  let order = match next () with "linear" -> Linear | "linear-skip" -> LinearSkip | "non-linear" -> NonLinear | s -> failwith ("order " ^ s) in
  let faults = match next () with "-" -> [] | s -> Stdlib.List.init (String.length s) (fun i -> s.[i] = '1') in
  let files = parse_files () in
  { cr_txfile = txfile; cr_order = order; cr_dir = files; cr_faults = faults }

(* ---- mode c09: M-STORE-TX histories (C09 stage cli):
   <id> <nruns> { <tx-mode> <count> <faults> <nfiles> { <version> <directive> <nstmts> <stmt>.. } } *)
let parse_mode s = match s with "none" -> TxNone | "file" -> TxFile | "all" -> TxAll | s -> failwith ("txmode " ^ s)
let parse_tfiles () : tfile list =
  let nfiles = next_int () in
  Stdlib.List.init nfiles (fun _ -> ()) |> Stdlib.List.map (fun () ->
    let v = bytes_of_string (unhex (next ())) in
    let d = match next () with
      | "-" -> None | "bad" -> Some None | s -> Some (Some (parse_mode s)) in
    let ns = next_int () in
    let stmts = Stdlib.List.init ns (fun _ -> ()) |> Stdlib.List.map (fun () -> bytes_of_string (unhex (next ()))) in
    { tf_file = { f_version = v; f_stmts = stmts; f_ckpt = false }; tf_directive = d; tf_bad = None })
let parse_mrun () : m_run =
  let g = parse_mode (next ()) in
  let n = nat_of_int (next_int ()) in
  let faults = match next () with "-" -> [] | s -> Stdlib.List.init (String.length s) (fun i -> s.[i] = '1') in
  let dir = parse_tfiles () in
  { mr_mode = g; mr_n = n; mr_dir = dir; mr_faults = faults }
let show_mx = function
  | XReadErr -> "readerr"
  | XPend PNoPending -> "nopending"
  | XPend _ -> "pend"
  | XRun MDone -> "done"
  | XRun MDirective -> "directive"
  | XRun (MFail SReadErr) -> "readerr"
  | XRun (MFail (SExec o)) -> show_exec o
let rec drop n l = if n <= 0 then l else match l with [] -> [] | _ :: t -> drop (n - 1) t

let c09_main () =
  (try
    while true do
      let line = input_line stdin in
      if line <> "" then begin
        toks := Array.of_list (Stdlib.List.filter (fun s -> s <> "") (String.split_on_char ' ' line));
        pos := 0;
        let id = next () in
        let nruns = next_int () in
        let runs = Stdlib.List.init nruns (fun _ -> ()) |> Stdlib.List.map (fun () -> parse_mrun ()) in
        let res = m_history heq hs runs { s_journal = []; s_tbl = [] } in
        let last = ref { s_journal = []; s_tbl = [] } in
        Stdlib.List.iteri (fun i ((o, d), _) ->
          let delta = drop (Stdlib.List.length !last.s_journal) d.s_journal in
          last := d;
          Printf.printf "%s run%d outcome=%s journal=[%s] table=[%s]\n" id i (show_mx o)
            (String.concat "," (Stdlib.List.map (fun (_, s) -> hexb s) delta))
            (String.concat " " (Stdlib.List.map show_row (read_revisions d.s_tbl)))) res;
        let dir = match Stdlib.List.rev runs with r :: _ -> Stdlib.List.map (fun tf -> tf.tf_file) r.mr_dir | [] -> [] in
        let st = match report true true dir (read_revisions !last.s_tbl) with
          | SOk s -> if s.s_ok then "OK" else "PENDING"
          | _ -> "err" in
        Printf.printf "%s status=%s\n" id st
      end
    done
  with End_of_file -> ())

let () =
  if Array.length Sys.argv > 1 && Sys.argv.(1) = "c09" then c09_main () else
  (try
    while true do
      let line = input_line stdin in
      if line <> "" then begin
        toks := Array.of_list (Stdlib.List.filter (fun s -> s <> "") (String.split_on_char ' ' line));
        pos := 0;
        let id = next () in
        let nruns = next_int () in
        let runs = Stdlib.List.init nruns (fun _ -> ()) |> Stdlib.List.map (fun () -> parse_run ()) in
        let res = cli_history heq hs runs [] in
        let last_t = ref [] in
        Stdlib.List.iteri (fun i ((o, t), j) ->
          last_t := t;
          Printf.printf "%s run%d outcome=%s journal=[%s] table=[%s]\n" id i (show_outcome o)
            (String.concat "," (Stdlib.List.map (fun (_, s) -> hexb s) j))
            (String.concat " " (Stdlib.List.map show_row (read_revisions t)))) res;
        (* `migrate status` on the final directory and table *)
        let dir = match Stdlib.List.rev runs with r :: _ -> r.cr_dir | [] -> [] in
        let st = match report true true dir (read_revisions !last_t) with
          | SOk s -> if s.s_ok then "OK" else "PENDING"
          | _ -> "err" in
        Printf.printf "%s status=%s\n" id st
      end
    done
  with End_of_file -> ())
