(* Extraction of M-STORE (EntRevisions + the CLI apply loop) on top of M-EXEC / M-PEND,
   and of M-STORE-TX (the same store under the per-file transaction multiplexer, C09 stage cli).
   ExtrOcamlBasic only: bool, option, unit, list, prod, sumbool, sumor map to OCaml's;
   nat, positive, N stay inductive. *)
Require Extraction.
Require Import ExtrOcamlBasic.
From Atlas Require Import Base.Bytes Exec.ExecModel Exec.PendingModel Exec.RunModel Exec.StatusModel Exec.StoreModel
  Exec.TxModel Exec.StoreTxModel.
Extraction Language OCaml.
Extraction "model.ml" cli_history cli_apply execute_st read_revisions report m_history cli_apply_m.
