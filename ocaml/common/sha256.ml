(* SHA-256 and standard base64, on OCaml strings. Used to instantiate the
   models' abstract hash HS with the function the Go code uses. Checked
   against Go's output on every correspondence case that carries a hash. *)
let k = [|
  0x428a2f98; 0x71374491; 0xb5c0fbcf; 0xe9b5dba5; 0x3956c25b; 0x59f111f1; 0x923f82a4; 0xab1c5ed5;
  0xd807aa98; 0x12835b01; 0x243185be; 0x550c7dc3; 0x72be5d74; 0x80deb1fe; 0x9bdc06a7; 0xc19bf174;
  0xe49b69c1; 0xefbe4786; 0x0fc19dc6; 0x240ca1cc; 0x2de92c6f; 0x4a7484aa; 0x5cb0a9dc; 0x76f988da;
  0x983e5152; 0xa831c66d; 0xb00327c8; 0xbf597fc7; 0xc6e00bf3; 0xd5a79147; 0x06ca6351; 0x14292967;
  0x27b70a85; 0x2e1b2138; 0x4d2c6dfc; 0x53380d13; 0x650a7354; 0x766a0abb; 0x81c2c92e; 0x92722c85;
  0xa2bfe8a1; 0xa81a664b; 0xc24b8b70; 0xc76c51a3; 0xd192e819; 0xd6990624; 0xf40e3585; 0x106aa070;
  0x19a4c116; 0x1e376c08; 0x2748774c; 0x34b0bcb5; 0x391c0cb3; 0x4ed8aa4a; 0x5b9cca4f; 0x682e6ff3;
  0x748f82ee; 0x78a5636f; 0x84c87814; 0x8cc70208; 0x90befffa; 0xa4506ceb; 0xbef9a3f7; 0xc67178f2 |]

let m32 = 0xFFFFFFFF
let rotr x n = ((x lsr n) lor (x lsl (32 - n))) land m32

let digest (msg : string) : string =
  let len = String.length msg in
  let padlen = let r = (len + 9) mod 64 in if r = 0 then 0 else 64 - r in
  let total = len + 9 + padlen in
  let b = Bytes.make total '\000' in
  Bytes.blit_string msg 0 b 0 len;
  Bytes.set b len '\x80';
  let bits = len * 8 in
  for i = 0 to 7 do
    Bytes.set b (total - 1 - i) (Char.chr ((bits lsr (8 * i)) land 0xff))
  done;
  let h = [| 0x6a09e667; 0xbb67ae85; 0x3c6ef372; 0xa54ff53a; 0x510e527f; 0x9b05688c; 0x1f83d9ab; 0x5be0cd19 |] in
  let w = Array.make 64 0 in
  for blk = 0 to total / 64 - 1 do
    for i = 0 to 15 do
      let o = blk * 64 + i * 4 in
      w.(i) <- (Char.code (Bytes.get b o) lsl 24) lor (Char.code (Bytes.get b (o+1)) lsl 16)
               lor (Char.code (Bytes.get b (o+2)) lsl 8) lor (Char.code (Bytes.get b (o+3)))
    done;
    for i = 16 to 63 do
      let s0 = (rotr w.(i-15) 7) lxor (rotr w.(i-15) 18) lxor (w.(i-15) lsr 3) in
      let s1 = (rotr w.(i-2) 17) lxor (rotr w.(i-2) 19) lxor (w.(i-2) lsr 10) in
      w.(i) <- (w.(i-16) + s0 + w.(i-7) + s1) land m32
    done;
    let a = ref h.(0) and bb = ref h.(1) and c = ref h.(2) and d = ref h.(3)
    and e = ref h.(4) and f = ref h.(5) and g = ref h.(6) and hh = ref h.(7) in
    for i = 0 to 63 do
      let s1 = (rotr !e 6) lxor (rotr !e 11) lxor (rotr !e 25) in
      let ch = (!e land !f) lxor ((lnot !e) land m32 land !g) in
      let t1 = (!hh + s1 + ch + k.(i) + w.(i)) land m32 in
      let s0 = (rotr !a 2) lxor (rotr !a 13) lxor (rotr !a 22) in
      let mj = (!a land !bb) lxor (!a land !c) lxor (!bb land !c) in
      let t2 = (s0 + mj) land m32 in
      hh := !g; g := !f; f := !e; e := (!d + t1) land m32;
      d := !c; c := !bb; bb := !a; a := (t1 + t2) land m32
    done;
    h.(0) <- (h.(0) + !a) land m32; h.(1) <- (h.(1) + !bb) land m32;
    h.(2) <- (h.(2) + !c) land m32; h.(3) <- (h.(3) + !d) land m32;
    h.(4) <- (h.(4) + !e) land m32; h.(5) <- (h.(5) + !f) land m32;
    h.(6) <- (h.(6) + !g) land m32; h.(7) <- (h.(7) + !hh) land m32
  done;
  let out = Bytes.create 32 in
  for i = 0 to 7 do
    for j = 0 to 3 do
      Bytes.set out (i*4 + j) (Char.chr ((h.(i) lsr (24 - 8*j)) land 0xff))
    done
  done;
  Bytes.to_string out

let b64 (s : string) : string =
  let tbl = "ABCDEFGHIJKLMNOPQRSTUVWXYZabcdefghijklmnopqrstuvwxyz0123456789+/" in
  let n = String.length s in
  let buf = Buffer.create ((n + 2) / 3 * 4) in
  let i = ref 0 in
  while !i < n do
    let b0 = Char.code s.[!i] in
    let b1 = if !i + 1 < n then Char.code s.[!i+1] else 0 in
    let b2 = if !i + 2 < n then Char.code s.[!i+2] else 0 in
    Buffer.add_char buf tbl.[b0 lsr 2];
    Buffer.add_char buf tbl.[((b0 land 3) lsl 4) lor (b1 lsr 4)];
    Buffer.add_char buf (if !i + 1 < n then tbl.[((b1 land 15) lsl 2) lor (b2 lsr 6)] else '=');
    Buffer.add_char buf (if !i + 2 < n then tbl.[b2 land 63] else '=');
    i := !i + 3
  done;
  Buffer.contents buf

let hs (s : string) : string = b64 (digest s)
