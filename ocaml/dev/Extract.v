(* Extraction of M-DEV. ExtrOcamlBasic only; nat, positive, N stay inductive. *)
Require Extraction.
Require Import ExtrOcamlBasic.
From Atlas Require Import Base.Bytes Dev.DevSession Dev.DevTxModel Dev.DevServer Dev.DevServerPg.
Extraction Language OCaml.
Extraction "model.ml" observe run_cmd tx_observe run_scenario run_scenario_pg run_twice run_twice_pg fault_stream.
