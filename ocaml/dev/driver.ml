(* Driver for the extracted M-DEV model: reads the case file of harness/cmd/dev
   and prints, per case, the observation the harness prints for the real code. *)
open Model

let rec nat_of_int i = if i <= 0 then O else S (nat_of_int (i - 1))
let rec int_of_nat = function O -> 0 | S n -> 1 + int_of_nat n
let rec pos_of_int i = if i = 1 then XH else if i land 1 = 0 then XO (pos_of_int (i lsr 1)) else XI (pos_of_int (i lsr 1))
let n_of_int i = if i = 0 then N0 else Npos (pos_of_int i)

let bytes_of_string (s : string) : bytes =
  Stdlib.List.init (String.length s) (fun i -> n_of_int (Char.code s.[i]))
let unhex (h : string) : string =
  if h = "-" then "" else
  String.init (String.length h / 2) (fun i -> Char.chr (int_of_string ("0x" ^ String.sub h (2 * i) 2)))
let hb h = bytes_of_string (unhex h)

let toks = ref [||]
let pos = ref 0
let next () = let t = !toks.(!pos) in incr pos; t
let next_int () = int_of_string (next ())
let times n f = Stdlib.List.init n (fun _ -> ()) |> Stdlib.List.map (fun () -> f ())

let parse_stmt () : stmt =
  match next () with
  | "ct" -> let a = hb (next ()) in SCreateTable a
  | "ci" -> let a = hb (next ()) in let b = hb (next ()) in SCreateIndex (a, b)
  | "cv" -> let a = hb (next ()) in SCreateView a
  | "cg" -> let a = hb (next ()) in let b = hb (next ()) in SCreateTrigger (a, b)
  | "dt" -> let a = hb (next ()) in SDropTable a
  | "dv" -> let a = hb (next ()) in SDropView a
  | "di" -> let a = hb (next ()) in SDropIndex a
  | "in" -> let a = hb (next ()) in SInsert a
  | "bad" -> SBad
  | "ctu" -> let a = hb (next ()) in SCreateTableU a
  | "ciu" -> let a = hb (next ()) in let b = hb (next ()) in SCreateIndexU (a, b)
  | s -> failwith ("stmt " ^ s)

let parse_mstmt () = let m = nat_of_int (next_int ()) in let s = parse_stmt () in (m, s)

let parse_file () : mfile =
  let ck = next () = "1" in
  let n = next_int () in
  let ss = times n parse_mstmt in
  { mf_ckpt = ck; mf_stmts = ss }

let parse_dir () : mdir = let n = next_int () in times n parse_file

let parse_obj () : obj =
  let k = match next () with "t" -> KTable | "i" -> KIndex | "v" -> KView | "g" -> KTrigger | s -> failwith ("kind " ^ s) in
  let n = hb (next ()) in let t = hb (next ()) in let r = n_of_int (next_int ()) in
  let insp = next () = "1" in
  { o_kind = k; o_name = n; o_tbl = t; o_rows = r; o_insp = insp }

let parse_src () : source =
  match next () with
  | "none" -> SrcNone
  | "url" -> SrcURL
  | "sql" -> let n = next_int () in SrcSQL (times n parse_mstmt)
  | "dir" -> SrcDir (parse_dir ())
  | "hcl" ->
    let n = next_int () in
    SrcHCL (times n (fun () ->
      let m = nat_of_int (next_int ()) in let name = hb (next ()) in
      let unins = next () = "1" in
      let ni = next_int () in
      let idx = times ni (fun () -> let m = nat_of_int (next_int ()) in let i = hb (next ()) in (m, i)) in
      { ht_m = m; ht_name = name; ht_idx = idx; ht_unins = unins }))
  | s -> failwith ("src " ^ s)

let b2s b = if b then "1" else "0"

let parse_bits () : bool list = let n = next_int () in times n (fun () -> next () = "1")

let rec int_of_pos = function XH -> 1 | XO p -> 2 * int_of_pos p | XI p -> 2 * int_of_pos p + 1
let int_of_n = function N0 -> 0 | Npos p -> int_of_pos p

(* mode tx: <id> <nfile> <table ids> <n> <B|C|R|X|T<id>>* *)
let tx_main () =
  (try
    while true do
      let line = input_line stdin in
      if line <> "" then begin
        toks := Array.of_list (Stdlib.List.filter (fun s -> s <> "") (String.split_on_char ' ' line));
        pos := 0;
        let id = next () in
        let nf = next_int () in
        let file = times nf (fun () -> n_of_int (next_int ())) in
        let n = next_int () in
        let ss = times n (fun () ->
          match next () with
          | "B" -> TBegin | "C" -> TCommit | "R" -> TRollback | "X" -> TBad
          | t when t.[0] = 'T' -> TCreate (n_of_int (int_of_string (String.sub t 1 (String.length t - 1))))
          | t -> failwith ("tstmt " ^ t)) in
        let (o, left) = tx_observe ss file in
        let os = match o with
          | TOk -> "ok" | TRefused -> "refused" | TRestoreFail -> "rfail"
          | TFail k -> Printf.sprintf "fail:%d" (int_of_nat k) in
        let tabs = Stdlib.List.sort compare (Stdlib.List.map int_of_n left) in
        let ts = if tabs = [] then "-" else String.concat "," (Stdlib.List.map string_of_int tabs) in
        Printf.printf "%s out=%s tabs=%s\n" id os ts
      end
    done
  with End_of_file -> ())

(* mode server: <id> <m|p> <bound> <nsch> {<sid> <nt> <tids>}* <sess n {op s t}* | norms n {..} | normr n {..}> <nf> <positions> *)
let server_main () =
  let opt i = if i < 0 then None else Some (n_of_int i) in
  let parse_schs () =
    let n = next_int () in
    times n (fun () -> let id = next_int () in let nt = next_int () in
      let ts = times nt (fun () -> n_of_int (next_int ())) in { s_id = n_of_int id; s_tabs = ts }) in
  (try
    while true do
      let line = input_line stdin in
      if line <> "" then begin
        toks := Array.of_list (Stdlib.List.filter (fun s -> s <> "") (String.split_on_char ' ' line));
        pos := 0;
        let id = next () in
        let dialect = next () in
        let bound = next_int () in
        let schs = parse_schs () in
        let parse_body () =
          let n = next_int () in
          times n (fun () ->
              let op = next () in let s = next_int () in let t = next_int () in
              match op with
              | "ct" -> SCt (opt s, n_of_int t) | "dt" -> SDt (opt s, n_of_int t)
              | "cs" -> SCs (n_of_int s, false) | "ds" -> SDs (n_of_int s) | "bad" -> SBadS
              | o -> failwith ("sstmt " ^ o)) in
        let body2 = ref None in
        let scen = match next () with
          | "sess" -> ScSess (parse_body ())
          | "twice" -> let b1 = parse_body () in body2 := Some (parse_body ()); ScSess b1
          | "norms" -> (match parse_schs () with [d] -> ScNormS d.s_tabs | _ -> failwith "norms")
          | "normr" -> ScNormR (parse_schs ())
          | s -> failwith ("scenario " ^ s) in
        let nf = next_int () in
        let positions = times nf (fun () -> nat_of_int (next_int ())) in
        let total = 400 in
        let fs = fault_stream positions (nat_of_int total) in
        let pg_cur = if bound < 0 then Some N0 else opt bound in
        let (r, r2) = match !body2, scen with
          | Some b2, ScSess b1 ->
            let (a, b) =
              if dialect = "p" then run_twice_pg (opt bound) b1 b2 { sv_schemas = schs; sv_cur = pg_cur } fs
              else run_twice b1 b2 { sv_schemas = schs; sv_cur = opt bound } fs in
            (a, Some b)
          | _ -> ((
          if dialect = "p" then
            (* PostgreSQL: Driver.schema = the bound schema; CURRENT_SCHEMA() = it, or "public" (id 0) *)
            run_scenario_pg (opt bound) scen { sv_schemas = schs; sv_cur = (if bound < 0 then Some N0 else opt bound) } fs
          else run_scenario scen { sv_schemas = schs; sv_cur = opt bound } fs), None) in
        let is_sess = (match scen with ScSess _ -> true | _ -> false) in
        let out_s (r : sresult) = match r.r_out with
          | SOk -> "ok" | SRefused -> "refused" | SErr -> "err"
          (* Normalize* return Snapshot's error like any other: the caller cannot tell them apart *)
          | SSnapErr -> if is_sess then "snaperr" else "err"
          | SFail k -> Printf.sprintf "fail:%d" (int_of_nat k) in
        let rerr_s (r : sresult) = if is_sess && r.r_ran && not r.r_restored then 1 else 0 in
        let os = out_s r in
        let rerr = rerr_s r in
        let last = (match r2 with Some b -> b | None -> r) in
        let calls = total - Stdlib.List.length last.r_fs in
        let ev = function
          | ECt (s, t) -> Printf.sprintf "ct:%d.%d" (int_of_n s) (int_of_n t)
          | EDt (s, t) -> Printf.sprintf "dt:%d.%d" (int_of_n s) (int_of_n t)
          | ECs s -> Printf.sprintf "cs:%d" (int_of_n s)
          | EDs s -> Printf.sprintf "ds:%d" (int_of_n s) in
        let all_trace = r.r_trace @ (match r2 with Some b -> b.r_trace | None -> []) in
        let tr = if all_trace = [] then "-" else String.concat "," (Stdlib.List.map ev all_trace) in
        let fin = if last.r_srv.sv_schemas = [] then "-" else
          String.concat ";" (Stdlib.List.map (fun s ->
            Printf.sprintf "%d:%s" (int_of_n s.s_id) (String.concat "," (Stdlib.List.map (fun t -> string_of_int (int_of_n t)) s.s_tabs)))
            last.r_srv.sv_schemas) in
        (match r2 with
         | None -> Printf.printf "%s out=%s rerr=%d calls=%d trace=%s final=%s\n" id os rerr calls tr fin
         | Some b -> Printf.printf "%s out=%s rerr=%d calls=%d trace=%s final=%s out2=%s rerr2=%d\n" id os rerr calls tr fin (out_s b) (rerr_s b))
      end
    done
  with End_of_file -> ())

let () =
  if Array.length Sys.argv > 1 && Sys.argv.(1) = "tx" then tx_main () else
  if Array.length Sys.argv > 1 && Sys.argv.(1) = "server" then server_main () else
  (try
    while true do
      let line = input_line stdin in
      if line <> "" then begin
        toks := Array.of_list (Stdlib.List.filter (fun s -> s <> "") (String.split_on_char ' ' line));
        pos := 0;
        let id = next () in
        let norm = match next () with "0" -> NoNorm | "r" -> NormRealm | "s" -> NormSchema | s -> failwith ("norm " ^ s) in
        let cmdname = next () in
        let latest = next_int () in
        let changes = next () = "1" in
        let excl = next () = "1" in
        let cmd = match cmdname with
          | "validate" -> CValidate | "lint" -> CLint (nat_of_int latest) | "diff" -> CDiff
          | "sdiff" -> CSchemaDiff | "sapply" -> CSchemaApply | "sinspect" -> CSchemaInspect
          | "checkpoint" -> CCheckpoint | s -> failwith ("cmd " ^ s) in
        let fs = parse_bits () in
        let qs = parse_bits () in
        let rs = parse_bits () in
        let nobj = next_int () in
        let d = times nobj parse_obj in
        let dir = parse_dir () in
        let from = parse_src () in
        let to_ = parse_src () in
        let (((o, same), empty), dirw) = observe norm cmd excl dir from to_ changes (fs, qs) rs d in
        (* markers are 100*script+k; directory files are scripts 1..n.  DevLoader.base
           reports a failing statement of a base file (not one of the latest N) by file only *)
        let nfiles = Stdlib.List.length dir in
        let os = match o with
          | OOk -> "ok" | ORefused -> "refused" | ORestoreFail -> "rfail"
          (* the inspector's error does not say which read failed: the observation is the exit itself *)
          | OInspectFail _ -> "ifail" | OSnapshotFail -> "snapfail"
          | OFail m ->
            let m = int_of_nat m in
            let f = m / 100 in
            if cmdname = "lint" && nfiles > latest && f <= nfiles - latest then Printf.sprintf "fail:file%d" f
            else Printf.sprintf "fail:%d" m in
        Printf.printf "%s out=%s same=%s empty=%s dirw=%s\n" id os (b2s same) (b2s empty) (b2s dirw)
      end
    done
  with End_of_file -> ())
