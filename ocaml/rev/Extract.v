(* Extraction of the C17 models. ExtrOcamlBasic only: bool, option, unit, list, prod,
   sumbool, sumor map to OCaml's; nat, positive, N, Z stay inductive. *)
Require Extraction.
Require Import ExtrOcamlBasic.
From Atlas Require Import Base.Bytes Lex.DownModel Lex.DownAlterModel Lex.DownLayoutModel.
Extraction Language OCaml.
Extraction "model.ml" SetReversible has_reverse ReverseStmts reverse up_body down_body goose_file dbmate_file liquibase_file line_scan line_closed no_nl alterTable_mysql alterTable_postgres reverse_objects line_scan_fast liquibase_down_fast lq_cmd_ok_fast goose_down_stmts dbmate_down_stmts.
