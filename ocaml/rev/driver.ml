(* Driver of the extracted C17 models.
   mode "down": one plan per line
     <id> <now> <n> { <comment> <cmd> <kind> <k> <rev>*k }*n        (bytes in hex, "-" = empty)
   prints what harness/cmd/rev/down.go prints for the real formatters:
     <id> flag <bool>
     <id> <formatter>.<file index> <base64(sha256(file bytes))>                       *)
open Model

let rec nat_of_int i = if i <= 0 then O else S (nat_of_int (i - 1))
let rec pos_of_int i = if i = 1 then XH else if i land 1 = 0 then XO (pos_of_int (i lsr 1)) else XI (pos_of_int (i lsr 1))
let n_of_int i = if i = 0 then N0 else Npos (pos_of_int i)
let rec int_of_pos = function XH -> 1 | XO p -> 2 * int_of_pos p | XI p -> 2 * int_of_pos p + 1
let int_of_n = function N0 -> 0 | Npos p -> int_of_pos p

let bytes_of_string (s : string) : bytes =
  Stdlib.List.init (String.length s) (fun i -> n_of_int (Char.code s.[i]))
let string_of_bytes (b : bytes) : string =
  let buf = Buffer.create 64 in
  Stdlib.List.iter (fun x -> Buffer.add_char buf (Char.chr (int_of_n x))) b;
  Buffer.contents buf

let unhex (h : string) : string =
  if h = "-" then "" else
  String.init (String.length h / 2) (fun i -> Char.chr (int_of_string ("0x" ^ String.sub h (2 * i) 2)))

let hs (b : bytes) : string = Sha256.hs (string_of_bytes b)

let parse_changes (toks : string array) (start : int) : mchange list =
  let n = int_of_string toks.(start) in
  let pos = ref (start + 1) in
  let next () = let t = toks.(!pos) in incr pos; t in
  let cs = ref [] in
  for _ = 1 to n do
    let comment = bytes_of_string (unhex (next ())) in
    let cmd = bytes_of_string (unhex (next ())) in
    let kind = int_of_string (next ()) in
    let k = int_of_string (next ()) in
    let revs = ref [] in
    for _ = 1 to k do revs := bytes_of_string (unhex (next ())) :: !revs done;
    let revs = Stdlib.List.rev !revs in
    let r = match kind with
      | 0 -> RNil
      | 1 -> RStr (Stdlib.List.hd revs)
      | _ -> RList revs in
    cs := { c_cmd = cmd; c_comment = comment; c_reverse = r } :: !cs
  done;
  Stdlib.List.rev !cs

let show_res id name = function
  | Ok b -> Printf.printf "%s %s %s\n" id name (hs b)
  | Panic -> Printf.printf "%s %s panic\n" id name
  | OutOfFuel -> Printf.printf "%s %s outoffuel\n" id name

(* mode "layout": the "down" lines plus, per formatter, the statement list the model's linear readers
   give on the down section (DownLayoutModel): <id> <formatter>.down <count> <base64(sha256(join "\000"))>;
   the lines come in the order harness/cmd/rev/down.go writes them *)
let stmts_obs id name (st : bytes list) =
  Printf.printf "%s %s.down %d %s\n" id name (Stdlib.List.length st)
    (Sha256.hs (String.concat "\x00" (Stdlib.List.map string_of_bytes st)))

let plan_line layout line =
  let toks = Array.of_list (String.split_on_char ' ' line) in
  let id = toks.(0) in
  let now = bytes_of_string (if toks.(1) = "-" then "" else toks.(1)) in
  let cs = parse_changes toks 2 in
  let closed = Stdlib.List.for_all (fun c ->
      let rs = reverseStmts c in
      (rs = [] || no_nl c.c_comment) && Stdlib.List.for_all line_closed rs) cs in
  let sect name = function
    | Ok d when closed -> stmts_obs id name (line_scan_fast d)
    | _ -> Printf.printf "%s %s.down open\n" id name in
  let onefile name reader = function
    | Ok f when closed ->
      (match reader f with
       | Some st -> stmts_obs id name st
       | None -> Printf.printf "%s %s.down nomarker\n" id name)
    | _ -> Printf.printf "%s %s.down open\n" id name in
  (* each model function is evaluated once per plan; golang-migrate and flyway share their two content templates *)
  let ub = up_body cs and db = down_body cs in
  let ub_h = hs ub in
  let show_h name = function
    | Ok h -> Printf.printf "%s %s %s\n" id name h
    | Panic -> Printf.printf "%s %s panic\n" id name
    | OutOfFuel -> Printf.printf "%s %s outoffuel\n" id name in
  let db_h = (match db with Ok b -> Ok (hs b) | Panic -> Panic | OutOfFuel -> OutOfFuel) in
  let db_fast = lazy (match db with Ok d when closed -> Some (line_scan_fast d) | _ -> None) in
  let sect_memo name = match Lazy.force db_fast with
    | Some st -> stmts_obs id name st
    | None -> Printf.printf "%s %s.down open\n" id name in
  ignore sect;
  Printf.printf "%s flag %s\n" id (if setReversible cs then "true" else "false");
  Printf.printf "%s golang-migrate.0 %s\n" id ub_h;
  show_h "golang-migrate.1" db_h;
  (match db with
   | Ok d when closed ->
     (* stage down: the specification reader; stage layout: the linear one (equal: C17_layout_readers_eq) *)
     let st = if layout then (match Lazy.force db_fast with Some st -> st | None -> []) else line_scan d in
     Printf.printf "%s golang-migrate.scan %s\n" id
       (Sha256.hs (String.concat "\x00" (Stdlib.List.map string_of_bytes st)))
   | _ -> Printf.printf "%s golang-migrate.scan open\n" id);
  if layout then sect_memo "golang-migrate";
  let gf = goose_file cs in
  show_res id "goose.0" gf;
  if layout then onefile "goose" goose_down_stmts gf;
  Printf.printf "%s flyway.0 %s\n" id ub_h;
  show_h "flyway.1" db_h;
  if layout then sect_memo "flyway";
  Printf.printf "%s liquibase.0 %s\n" id (hs (liquibase_file now cs));
  if layout then begin
    let lq_closed = Stdlib.List.for_all (fun c ->
        no_nl c.c_comment && lq_cmd_ok_fast c.c_cmd && Stdlib.List.for_all line_closed (reverseStmts c)) cs in
    if lq_closed then stmts_obs id "liquibase" (liquibase_down_fast now cs)
    else Printf.printf "%s liquibase.down open\n" id
  end;
  let df = dbmate_file cs in
  show_res id "dbmate.0" df;
  if layout then onefile "dbmate" dbmate_down_stmts df

let down_line = plan_line false
let layout_line = plan_line true

(* mode "alter": <id> <dialect> <n> <arm>*n, arm = hex of "<kind letter>:<object key>" *)
let alter_line line =
  let toks = Array.of_list (String.split_on_char ' ' line) in
  let id = toks.(0) and dialect = toks.(1) in
  let n = int_of_string toks.(2) in
  let arms = Stdlib.List.init n (fun i ->
      let s = unhex toks.(3 + i) in
      if s.[0] = 'm' then
        (* m<type><null><default><attr><generated>:<column> *)
        let b i = s.[1 + i] = '1' in
        { a_kind = KModCol { k_type = b 0; k_null = b 1; k_default = b 2; k_attr = b 3; k_generated = b 4 };
          a_key = bytes_of_string (String.sub s 7 (String.length s - 7)) }
      else
      let kind = match s.[0] with
        | 'o' -> KOther | 'd' -> KDropConst | 'c' -> KCheckNamed | 'u' -> KCheckUnnamed
        | 'g' -> KGenerated | 'a' -> KAttr | _ -> failwith "arm kind" in
      { a_kind = kind; a_key = bytes_of_string (String.sub s 2 (String.length s - 2)) }) in
  let r = if dialect = "postgres" then alterTable_postgres arms else alterTable_mysql arms in
  match reverse_objects r with
  | None -> Printf.printf "%s A none\n" id
  | Some ks -> Printf.printf "%s A %s\n" id (String.concat " " (Stdlib.List.map string_of_bytes ks))

let () =
  (* the byte lists of a 64 KiB statement are millions of small blocks: a large minor heap keeps them out of the major GC *)
  Gc.set { (Gc.get ()) with Gc.minor_heap_size = 8 * 1024 * 1024; Gc.space_overhead = 200 };
  let mode = if Array.length Sys.argv > 1 then Sys.argv.(1) else "down" in
  (try
    while true do
      let line = input_line stdin in
      if line <> "" then
        match mode with
        | "down" -> down_line line
        | "alter" -> alter_line line
        | "layout" -> layout_line line
        | _ -> failwith ("unknown mode " ^ mode)
    done
  with End_of_file -> ())
