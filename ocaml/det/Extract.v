(* Extraction of the C20 site models. ExtrOcamlBasic only; nat / N stay inductive. *)
Require Extraction.
Require Import ExtrOcamlBasic.
From Atlas Require Import Base.Bytes Plan.SortModel Dir.DirModel Det.OrderModel Det.QualifyModel Det.QualifyClosure.
Extraction Language OCaml.
Extraction "model.ml" dependencies DetachCycles_over CheckChangesScope_names ChecksumText files_of lookup byKeys toAttrs EvalOptions_files as_extra_attrs as_extra_children QualifyObjects_over QualifyObjects_closed_over byLabel QualifyReferences_ref.
