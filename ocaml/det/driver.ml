(* Driver for the extracted C20 site models (Det/OrderModel.v).
   Every case line carries the entries of a Go map in ONE order (a permutation chosen by the
   harness); the observation printed must equal what the real code printed for that input. *)
open Model

let rec nat_of_int i = if i <= 0 then O else S (nat_of_int (i - 1))
let rec int_of_nat = function O -> 0 | S n -> 1 + int_of_nat n
let rec pos_of_int i = if i = 1 then XH else if i land 1 = 0 then XO (pos_of_int (i lsr 1)) else XI (pos_of_int (i lsr 1))
let n_of_int i = if i = 0 then N0 else Npos (pos_of_int i)
let rec int_of_pos = function XH -> 1 | XO p -> 2 * int_of_pos p | XI p -> 2 * int_of_pos p + 1
let int_of_n = function N0 -> 0 | Npos p -> int_of_pos p

let byte_tbl = Array.init 256 n_of_int
let bytes_of_string (s : string) : bytes =
  let r = ref [] in
  for i = String.length s - 1 downto 0 do r := byte_tbl.(Char.code s.[i]) :: !r done; !r
let string_of_bytes (b : bytes) : string =
  let buf = Buffer.create 64 in
  Stdlib.List.iter (fun x -> Buffer.add_char buf (Char.chr (int_of_n x))) b; Buffer.contents buf
let unhex (h : string) : string =
  if h = "-" then "" else
  String.init (String.length h / 2) (fun i -> Char.chr (int_of_string ("0x" ^ String.sub h (2 * i) 2)))
let hexdigits = "0123456789abcdef"
let hex (s : string) : string =
  if s = "" then "-" else begin
    let b = Bytes.create (2 * String.length s) in
    String.iteri (fun i c -> Bytes.set b (2*i) hexdigits.[Char.code c lsr 4]; Bytes.set b (2*i+1) hexdigits.[Char.code c land 15]) s;
    Bytes.to_string b end
let hexb b = hex (string_of_bytes b)
let hs (b : bytes) : bytes = bytes_of_string (Sha256.hs (string_of_bytes b))

let toks = ref [||]
let pos = ref 0
let next () = let t = !toks.(!pos) in incr pos; t
let next_int () = int_of_string (next ())
let next_nat () = nat_of_int (next_int ())
let next_bytes () = bytes_of_string (unhex (next ()))
let times n f = Stdlib.List.init n (fun _ -> ()) |> Stdlib.List.map (fun () -> f ())

let show_change = function
  | AddTable (t, _) -> "A" ^ string_of_int (int_of_nat t.t_name)
  | DropTable (t, _) -> "D" ^ string_of_int (int_of_nat t.t_name)
  | ModifyTable (t, _) -> "M" ^ string_of_int (int_of_nat t.t_name)

let run id =
  match next () with
  | "sm" ->
    (* n, then per table: name k ref*k ; then m and a permutation of [0, m) *)
    let n = next_int () in
    let raw = times n (fun () -> let name = next_int () in let k = next_int () in let refs = times k next_int in (name, refs)) in
    let tab x = { t_name = nat_of_int x; t_schema = O; t_id = nat_of_int x } in
    let cs = Stdlib.List.map (fun (name, refs) ->
      AddTable (tab name, Stdlib.List.mapi (fun i r -> { f_sym = nat_of_int (100 * name + i); f_tab = tab name; f_ref = tab r }) refs)) raw in
    let deps = dependencies cs in
    let m = next_int () in
    let perm = times m next_int in
    if m <> Stdlib.List.length deps then Printf.printf "%s sm BAD-PERM %d %d\n" id m (Stdlib.List.length deps)
    else begin
      let pd = Stdlib.List.map (fun i -> Stdlib.List.nth deps i) perm in
      match detachCycles_over pd cs with
      | DCOut -> Printf.printf "%s sm out-of-fuel\n" id
      | DCOk l -> Printf.printf "%s sm %s\n" id (String.concat " " (Stdlib.List.map show_change l))
    end
  | "sc" ->
    let n = next_int () in
    let names = times n next_bytes in
    (match checkChangesScope_names names with
     | None -> Printf.printf "%s sc ok\n" id
     | Some ks -> Printf.printf "%s sc err %s\n" id (String.concat "," (Stdlib.List.map hexb ks)))
  | "fs" ->
    let n = next_int () in
    let st = times n (fun () -> let a = next_bytes () in let c = next_bytes () in (a, c)) in
    Printf.printf "%s fs %s %s\n" id
      (String.concat "," (Stdlib.List.map (fun (a, _) -> hexb a) (files_of st)))
      (hexb (checksumText hs st))
  | "lk" ->
    (* type id, names in registration order, then the registry map in some order *)
    let ty = next_int () in
    let n = next_int () in
    let names = times n next_bytes in
    let r = times n (fun () -> let a = next_bytes () in let t = next_int () in (a, t)) in
    (match lookup (fun t -> t = ty) names r with
     | None -> Printf.printf "%s lk none\n" id
     | Some k -> Printf.printf "%s lk %s\n" id (hexb k))
  | "ef" ->
    (* files: name, locals defined, locals of other files referred to *)
    let n = next_int () in
    let files = times n (fun () ->
      let name = next_bytes () in
      let nd = next_int () in let defs = times nd next_bytes in
      let nn = next_int () in let needs = times nn next_bytes in
      (name, (defs, needs))) in
    (match evalOptions_files files with
     | None -> Printf.printf "%s ef error\n" id
     | Some names -> Printf.printf "%s ef ok %s\n" id (String.concat "," (Stdlib.List.map hexb names)))
  | "ra" ->
    (* r.Attrs (name, value), r.Children (type, name), then existingAttrs and existingChildren keys in some order *)
    let n = next_int () in
    let attrs = times n (fun () -> let a = next_bytes () in let v = next_int () in (a, v)) in
    let m = next_int () in
    let children = times m (fun () -> let t = next_bytes () in let nm = next_bytes () in (t, nm)) in
    let ea = times (next_int ()) next_bytes in
    let ec = times (next_int ()) next_bytes in
    Printf.printf "%s ra %s | %s\n" id
      (String.concat "," (Stdlib.List.map (fun (a, v) -> hexb a ^ "=" ^ string_of_int v) (as_extra_attrs attrs ea [])))
      (String.concat "," (Stdlib.List.map (fun (t, nm) -> hexb t ^ ":" ^ hexb nm) (as_extra_children fst children ec [])))
  | "ta" ->
    (* attributes of one HCL block: name, value (0 = null: omitted) *)
    let n = next_int () in
    let attrs = times n (fun () -> let a = next_bytes () in let v = next_int () in (a, v)) in
    (match toAttrs (fun _ v -> if v = 0 then ANull else AVal v) attrs with
     | None -> Printf.printf "%s ta error\n" id
     | Some l -> Printf.printf "%s ta %s\n" id (String.concat "," (Stdlib.List.map (fun (a, v) -> hexb a ^ "=" ^ string_of_int v) l)))
  | "qo" ->
    (* specs (schema, label) in slice order; then the order in which byLabel is delivered:
       a permutation of its entries, and whether the inner maps are delivered reversed *)
    let n = next_int () in
    let specs = times n (fun () -> let s = next_nat () in let l = next_nat () in { q_schema = s; q_label = l }) in
    let m = next_int () in
    let perm = times m next_int in
    let rev = next_int () in
    let bl0 = byLabel specs in
    if m <> Stdlib.List.length bl0 then Printf.printf "%s qo BAD-PERM %d %d\n" id m (Stdlib.List.length bl0)
    else begin
      let bl = Stdlib.List.map (fun i -> let (l, v) = Stdlib.List.nth bl0 i in (l, if rev = 1 then Stdlib.List.rev v else v)) perm in
      (* the code after fix C20-qualify-pass3-not-closed: the last loop iterates to closure *)
      let res = qualifyObjects_closed_over bl specs in
      let strs = Stdlib.List.map (fun (o, q) ->
        Printf.sprintf "%d.%d=%s" (int_of_nat o.q_schema) (int_of_nat o.q_label)
          (match q with None -> "-" | Some x -> string_of_int (int_of_nat x))) res in
      Printf.printf "%s qo %s\n" id (String.concat "," (Stdlib.List.sort compare strs))
    end
  | "qr" ->
    (* as qo, then the referenced tables (schema, label): how QualifyReferences writes the reference *)
    let n = next_int () in
    let specs = times n (fun () -> let s = next_nat () in let l = next_nat () in { q_schema = s; q_label = l }) in
    let m = next_int () in
    let perm = times m next_int in
    let rev = next_int () in
    let k = next_int () in
    let targets = times k (fun () -> let s = next_nat () in let l = next_nat () in { q_schema = s; q_label = l }) in
    let bl0 = byLabel specs in
    if m <> Stdlib.List.length bl0 then Printf.printf "%s qr BAD-PERM %d %d\n" id m (Stdlib.List.length bl0)
    else begin
      let bl = Stdlib.List.map (fun i -> let (l, v) = Stdlib.List.nth bl0 i in (l, if rev = 1 then Stdlib.List.rev v else v)) perm in
      (* the code after fix C20-qualify-pass3-not-closed: the last loop iterates to closure *)
      let res = qualifyObjects_closed_over bl specs in
      let strs = Stdlib.List.map (fun t ->
        Printf.sprintf "%d.%d=>%s" (int_of_nat t.q_schema) (int_of_nat t.q_label)
          (match qualifyReferences_ref res t with
           | RefQualified (q, l) -> Printf.sprintf "%d.%d" (int_of_nat q) (int_of_nat l)
           | RefPlain l -> string_of_int (int_of_nat l)
           | RefMissing -> "missing")) targets in
      Printf.printf "%s qr %s\n" id (String.concat "," (Stdlib.List.sort compare strs))
    end
  | k -> Printf.printf "%s unknown-kind %s\n" id k

let () =
  (try
    while true do
      let line = input_line stdin in
      if line <> "" then begin
        toks := Array.of_list (Stdlib.List.filter (fun s -> s <> "") (String.split_on_char ' ' line));
        pos := 0;
        let id = next () in
        run id
      end
    done
  with End_of_file -> ())
