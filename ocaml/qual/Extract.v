(* Extraction of M-BUILD. ExtrOcamlBasic only: bool, option, unit, list, prod,
   sumbool, sumor map to OCaml's; nat, positive, N, Z stay inductive. *)
Require Extraction.
Require Import ExtrOcamlBasic.
From Atlas Require Import Base.Bytes Qual.Builder Qual.Scope Qual.RefSkeleton Qual.Lexq Qual.Replay Qual.StmtLex Qual.Checkpoint.
Extraction Language OCaml.
Extraction "model.ml" new_builder run out Atlas.Qual.Builder.String panicked typeIdent schemaPrefix CheckChangesScope plan_chains plan_obs strconvQuote lex_chain Planner_plan lex_stmt Planner_checkpoint Planner_plan_exclude.
