(* Driver for the extracted M-BUILD model (sqlx.Builder, PG typeIdent/schemaPrefix,
   CheckChangesScope, planner reference skeletons).  Reads the case file the Go harness
   wrote and prints the model's observations in the same canonical text. *)
open Model

(* ---- numbers: N / positive / Z stay inductive *)
let rec pos_of_int i =
  if i = 1 then XH else if i land 1 = 0 then XO (pos_of_int (i lsr 1)) else XI (pos_of_int (i lsr 1))
let n_of_int i = if i = 0 then N0 else Npos (pos_of_int i)
let rec int_of_pos = function XH -> 1 | XO p -> 2 * int_of_pos p | XI p -> 2 * int_of_pos p + 1
let int_of_n = function N0 -> 0 | Npos p -> int_of_pos p

(* ---- bytes <-> hex *)
let bytes_of_string s = Stdlib.List.init (String.length s) (fun i -> n_of_int (Char.code s.[i]))
let string_of_bytes l =
  let b = Buffer.create 64 in
  Stdlib.List.iter (fun c -> Buffer.add_char b (Char.chr (int_of_n c))) l;
  Buffer.contents b
let unhex h =
  if h = "-" then "" else
  String.init (String.length h / 2) (fun i -> Char.chr (int_of_string ("0x" ^ String.sub h (2 * i) 2)))
let hex s =
  if s = "" then "-" else
  String.concat "" (Stdlib.List.init (String.length s) (fun i -> Printf.sprintf "%02x" (Char.code s.[i])))

(* ---- Go's strconv.Quote: the extracted Qual/Lexq.v strconvQuote (ASCII model), compared with
   Go's %q on every pgident case *)
let quote_go l = strconvQuote l

(* ---- token stream *)
let toks = ref [||]
let pos = ref 0
let next () = let t = !toks.(!pos) in incr pos; t
let next_int () = int_of_string (next ())
let next_bytes () = bytes_of_string (unhex (next ()))
let times n f = Stdlib.List.init n (fun _ -> ()) |> Stdlib.List.map (fun () -> f ())
(* a nilable schema / qualifier: "_" = nil, otherwise hex of the name ("-" = empty) *)
let next_opt () = match next () with "_" -> None | h -> Some (bytes_of_string (unhex h))
let next_obj () = let s = next_opt () in let n = next_bytes () in { o_schema = s; o_name = n }

let parse_op () =
  match next () with
  | "P" -> let k = next_int () in OP (times k next_bytes)
  | "I" -> OIdent (next_bytes ())
  | "T" -> OTable (next_obj ())
  | "R" -> let c = next_obj () in let p = next_obj () in ORefTable (c, p)
  | "TR" -> let t = next_obj () in let r = next_bytes () in OTableResource (t, r)
  | "SR" -> let s = next_opt () in let n = next_bytes () in OSchemaResource (s, n)
  | "FC" -> let f = next_obj () in let k = next_int () in OFuncCall (f, times k next_bytes)
  | "II" -> OIndentIn | "IO" -> OIndentOut | "NL" -> ONL | "CM" -> OComma
  | "WO" -> OWrapOpen | "WC" -> OWrapClose
  | "QO" -> OQuoteOpen (next_bytes ()) | "QC" -> OQuoteClose
  | "WS" -> OWriteString (next_bytes ())
  | "WB" -> OWriteByte (n_of_int (next_int ()))
  | "CL" -> OClone
  | s -> failwith ("op " ^ s)

let do_builder id =
  let qo = n_of_int (next_int ()) in
  let qc = n_of_int (next_int ()) in
  let q = next_opt () in
  let ind = next_bytes () in
  let n = next_int () in
  let ops = times n parse_op in
  let b = run (new_builder qo qc q ind) ops in
  if panicked b then Printf.printf "%s panic\n" id
  else Printf.printf "%s buf=%s str=%s\n" id (hex (string_of_bytes (out b))) (hex (string_of_bytes (string b)))

let do_pgident id =
  let q = next_opt () in
  let ns = next_opt () in
  let name = next_bytes () in
  Printf.printf "%s type=%s prefix=%s\n" id
    (hex (string_of_bytes (typeIdent quote_go q ns name)))
    (hex (string_of_bytes (schemaPrefix quote_go q ns)))

let parse_col () = match next () with
  | "p" -> TPlain
  | "e" -> TEnum (next_opt ())
  | s -> failwith ("col " ^ s)
let parse_stable () =
  let s = next_opt () in
  let n = next_int () in
  { st_schema = s; st_cols = times n parse_col }
let parse_change () = match next () with
  | "MS" -> CModifySchema (next_opt ())
  | "AS" -> CAddSchema | "DS" -> CDropSchema
  | "AT" -> CAddTable (parse_stable ())
  | "MT" -> CModifyTable (parse_stable ())
  | "DT" -> CDropTable (parse_stable ())
  | "RT" -> let a = next_opt () in let b = next_opt () in CRenameTable (a, b)
  | "OT" -> let k = next_int () in COther (times k next_bytes)
  | s -> failwith ("change " ^ s)

let show_scope = function
  | SOk -> "ok"
  | EModifyNotAllowed -> "modify-not-allowed"
  | EModifyOther -> "modify-other"
  | ESchemaChange -> "schema-change"
  | EMulti n -> Printf.sprintf "multi:%d" (int_of_n n)
  | SPanic -> "panic"

let do_scope id =
  let q = next_opt () in
  let mode = n_of_int (next_int ()) in
  let n = next_int () in
  let cs = times n parse_change in
  Printf.printf "%s res=%s\n" id (show_scope (checkChangesScope q mode cs))


(* ---- reference skeletons *)
let rec nat_of_int i = if i <= 0 then O else S (nat_of_int (i - 1))
let next_bool () = next () = "1"
let parse_enum () = match next () with
  | "_" -> None
  | "e" -> let ns = next_opt () in let en = next_bytes () in Some (ns, en)
  | s -> failwith ("enum " ^ s)
let parse_ser () = match next () with
  | "_" -> None
  | "s" -> Some (next_bytes ())
  | s -> failwith ("serial " ^ s)
let parse_col_s () =
  let n = next_bytes () in
  let e = parse_enum () in
  let c = next_bool () in
  { c_name = n; c_enum = e; c_comment = c }
let parse_idx () =
  let n = next_bytes () in
  let k = next_int () in
  let cols = times k next_bytes in
  let u = next_bool () in
  let c = next_bool () in
  { i_name = n; i_cols = cols; i_uconst = u; i_comment = c }
let parse_fk () =
  let k = next_int () in
  let cols = times k next_bytes in
  let r = next_obj () in
  { f_cols = cols; f_ref = r }
let parse_tab () =
  let o = next_obj () in
  let nc = next_int () in let cols = times nc parse_col_s in
  let ni = next_int () in let idxs = times ni parse_idx in
  let nf = next_int () in let fks = times nf parse_fk in
  let c = next_bool () in
  { t_obj = o; t_cols = cols; t_idx = idxs; t_fks = fks; t_comment = c }
let parse_sub () = match next () with
  | "AC" -> AddColumn (parse_col_s ())
  | "DC" -> DropColumn (parse_col_s ())
  | "RC" -> RenameColumn
  | "AI" -> AddIndex (parse_idx ())
  | "DI" -> DropIndex (parse_idx ())
  | "RI" -> let a = next_bytes () in let b = next_bytes () in RenameIndex (a, b)
  | "AF" -> AddForeignKey (parse_fk ())
  | "DF" -> DropForeignKey (parse_fk ())
  | "AK" -> AddCheck (next_bool ())
  | "DK" -> DropCheck
  | "MK" -> ModifyCheck
  | "MC" ->
    let n = next_bytes () in
    let fe = parse_enum () in let te = parse_enum () in
    let fs = parse_ser () in let ts = parse_ser () in
    let ty = next_bool () in let oth = next_bool () in let cm = next_bool () in
    ModifyColumn (n, fe, te, fs, ts, ty, oth, cm)
  | "MI" -> let a = parse_idx () in let b = parse_idx () in let pa = next_bool () in let cm = next_bool () in ModifyIndex (a, b, pa, cm)
  | "MF" -> let a = parse_fk () in let b = parse_fk () in ModifyForeignKey (a, b)
  | "APK" -> AddPrimaryKey | "DPK" -> DropPrimaryKey | "MPK" -> ModifyPrimaryKey
  | "TC" -> TableComment false
  | "TCA" -> TableComment true
  | s -> failwith ("sub " ^ s)
let parse_change_s () = match next () with
  | "AT" -> AddTable (parse_tab ())
  | "DT" -> DropTable (parse_tab ())
  | "RT" -> let a = next_obj () in let b = next_obj () in RenameTable (a, b)
  | "MT" -> let t = parse_tab () in let k = next_int () in ModifyTable (t, times k parse_sub)
  | "AO" -> let ns = next_opt () in let n = next_bytes () in AddObject (ns, n)
  | "DO" -> let ns = next_opt () in let n = next_bytes () in DropObject (ns, n)
  | "MO" -> let ns = next_opt () in let n = next_bytes () in let k = next_int () in ModifyObject (ns, n, nat_of_int k)
  | "RO" -> let nsf = next_opt () in let a = next_bytes () in let nst = next_opt () in let b = next_bytes () in RenameObject (nsf, a, nst, b)
  | s -> failwith ("change " ^ s)

let do_skel id =
  let pg = next_bool () in
  let q = next_opt () in
  let n = next_int () in
  let cs = times n parse_change_s in
  let show chains =
    let ch = Stdlib.List.map (fun c -> String.concat "." (Stdlib.List.map (fun b -> hex (string_of_bytes b)) c)) chains in
    if ch = [] then "-" else String.concat "," ch in
  let lines = Stdlib.List.map (fun (((rev, head), chains), lits) ->
    Printf.sprintf "%s %s %s %s %s" id (if rev then "r" else "c")
      (String.concat "_" (String.split_on_char ' ' (string_of_bytes head)))
      (show chains) (show lits)) (plan_obs pg q cs) in
  Stdlib.List.iter print_endline (Stdlib.List.sort compare lines)

(* ---- the dialect's reader of a quoted identifier chain (Qual/Lexq.v lex_chain) *)
let rec int_len = function [] -> 0 | _ :: r -> 1 + int_len r
let do_lexq id =
  let qo = n_of_int (next_int ()) in
  let text = next_bytes () in
  match lex_chain qo qo text with
  | None -> Printf.printf "%s none\n" id
  | Some (l, rest) ->
    Printf.printf "%s chain=%s rest=%d\n" id
      (String.concat "." (Stdlib.List.map (fun b -> hex (string_of_bytes b)) l)) (int_len rest)

(* ---- the statement-level scanner (Qual/StmtLex.v lex_stmt) *)
let do_stmtlex id =
  let pg = next_bool () in
  let text = next_bytes () in
  let ((chains, lits), bad) = lex_stmt pg text in
  let hb b = let s = string_of_bytes b in if s = "" then "-" else hex s in
  let j = function [] -> "_" | l -> String.concat "," l in
  Printf.printf "%s chains=%s lits=%s bad=%s\n" id
    (j (Stdlib.List.map (fun c -> String.concat "." (Stdlib.List.map hb c)) chains))
    (j (Stdlib.List.map hb lits)) (if bad then "1" else "0")

(* ---- Planner.plan, schema scope (Qual/Replay.v) *)
let do_replay id =
  let q = next_opt () in
  let mode = n_of_int (next_int ()) in
  let dev = next_bytes () in
  let user = next_bytes () in
  let no = next_int () in let objs = times no next_bytes in
  let tab () = let n = next_bytes () in let e = next_bool () in { rt_name = n; rt_enum = e } in
  let nc = next_int () in let cur = times nc tab in
  let nd = next_int () in let des = times nd tab in
  let nm = next_int () in let mods = times nm next_bytes in
  let modified t1 _ = Stdlib.List.mem t1.rt_name mods in
  let is_ck = String.length id > 3 && String.sub id (String.length id - 3) 3 = ".ck" in
  let res = if is_ck then planner_checkpoint modified q mode dev objs des
            else planner_plan modified q mode dev user objs cur des in
  match res with
  | PNoPlan -> Printf.printf "%s noplan\n" id
  | PPlanned -> Printf.printf "%s planned\n" id
  | PRejected r -> Printf.printf "%s rejected:%s\n" id (show_scope r)

let () =
  let mode = if Array.length Sys.argv > 1 then Sys.argv.(1) else "builder" in
  (try
    while true do
      let line = input_line stdin in
      if line <> "" then begin
        toks := Array.of_list (Stdlib.List.filter (fun s -> s <> "") (String.split_on_char ' ' line));
        pos := 0;
        let id = next () in
        match mode with
        | "builder" -> do_builder id
        | "pgident" -> do_pgident id
        | "scope" -> do_scope id
        | "skel" -> do_skel id
        | "lexq" -> do_lexq id
        | "replay" -> do_replay id
        | "stmtlex" -> do_stmtlex id
        | m -> failwith ("mode " ^ m)
      end
    done
  with End_of_file -> ())
