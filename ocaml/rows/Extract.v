(* Extraction of M-SQLITE rows (C05). ExtrOcamlBasic only; nat, positive, N stay inductive. *)
Require Extraction.
Require Import ExtrOcamlBasic.
From Atlas Require Import Base.Bytes Diff.Schema Sqlite.RowsModel.
Extraction Language OCaml.
Extraction "model.ml" ApplyChanges PlanChanges exec_all schema_apply schema_apply_f table_options str_eqb.
