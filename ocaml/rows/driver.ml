(* Driver for the extracted M-SQLITE rows model (C05): reads the case file of
   harness/cmd/rows (tie.go: tieCase) and prints what tieObs prints for the real run.
   mode "apply": state + change list -> Model.applyChanges *)
open Model

let rec pos_of_int i = if i = 1 then XH else if i land 1 = 0 then XO (pos_of_int (i lsr 1)) else XI (pos_of_int (i lsr 1))
let n_of_int i = if i = 0 then N0 else Npos (pos_of_int i)
let rec int_of_pos = function XH -> 1 | XO p -> 2 * int_of_pos p | XI p -> 2 * int_of_pos p + 1
let int_of_n = function N0 -> 0 | Npos p -> int_of_pos p

let bytes_of_string (s : string) =
  Stdlib.List.init (String.length s) (fun i -> n_of_int (Char.code s.[i]))
let string_of_bytes b =
  String.concat "" (Stdlib.List.map (fun n -> String.make 1 (Char.chr (int_of_n n))) b)
let unhex (h : string) : string =
  if h = "-" then "" else
  String.init (String.length h / 2) (fun i -> Char.chr (int_of_string ("0x" ^ String.sub h (2 * i) 2)))
let hexs (s : string) : string =
  if s = "" then "-" else String.concat "" (Stdlib.List.init (String.length s) (fun i -> Printf.sprintf "%02x" (Char.code s.[i])))
let hb h = bytes_of_string (unhex h)

let toks = ref [||]
let pos = ref 0
let next () = let t = !toks.(!pos) in incr pos; t
let next_int () = int_of_string (next ())
let next_bool () = next () = "1"
let times n f = let rec go i acc = if i >= n then Stdlib.List.rev acc else go (i + 1) (f () :: acc) in go 0 []

let star = VVal (bytes_of_string "*")

let parse_value () : value =
  let t = next () in
  if t = "N" then VNull else VVal (bytes_of_string (unhex (String.sub t 1 (String.length t - 1))))

let parse_col () : rcol =
  let n = hb (next ()) in
  let ty = hb (next ()) in
  let nn = next_bool () in
  let dk = match next () with "0" -> DNone | "1" -> DLiteral false | "2" -> DLiteral true | _ -> DRawExpr in
  let dv = parse_value () in
  let g = next_bool () in let st = next_bool () in let hi = next_bool () in let hf = next_bool () in
  { rc_name = n; rc_type = ty; rc_notnull = nn; rc_dkind = dk; rc_defval = dv; rc_gen = g; rc_stored = st; rc_hasidx = hi; rc_hasfk = hf }

let parse_fk () : rfk =
  let nc = next_int () in
  let cols = times nc (fun () -> hb (next ())) in
  let r = hb (next ()) in
  let nr = next_int () in
  let rcols = times nr (fun () -> hb (next ())) in
  let a = match next () with "1" -> ARestrict | "2" -> ACascade | "3" -> ASetNull | "4" -> ASetDefault | _ -> ANoAction in
  { fk_cols = cols; fk_ref = r; fk_refcols = rcols; fk_ondelete = a }

let parse_tdef () : tdef =
  let n = hb (next ()) in
  let strict = next_bool () in
  let worowid = next_bool () in
  let nc = next_int () in
  let cols = times nc parse_col in
  let nf = next_int () in
  let fks = times nf parse_fk in
  let ni = next_int () in
  let idx = times ni (fun () -> hb (next ())) in
  { td_name = n; td_cols = cols; td_fks = fks; td_idx = idx; td_strict = strict; td_without_rowid = worowid }

let parse_tchange () : tchange =
  match next () with
  | "AC" -> AddColumn (parse_col ())
  | "DC" -> DropColumn (hb (next ()))
  | "MC" -> let n = hb (next ()) in let k = n_of_int (next_int ()) in ModifyColumn (n, k)
  | "RC" -> let a = hb (next ()) in let b = hb (next ()) in RenameColumn (a, b)
  | "AI" -> AddIndex (hb (next ()))
  | "DI" -> DropIndex (hb (next ()))
  | "RI" -> let a = hb (next ()) in let b = hb (next ()) in RenameIndex (a, b)
  | "OC" -> OtherChange (n_of_int (next_int ()))
  | s -> failwith ("tchange " ^ s)

let parse_schange () : schange =
  match next () with
  | "AT" -> AddTable (parse_tdef ())
  | "DT" -> DropTable (parse_tdef ())
  | "MT" -> let t = parse_tdef () in let n = next_int () in ModifyTable (t, times n parse_tchange)
  | "RT" -> let a = hb (next ()) in let b = hb (next ()) in RenameTable (a, b)
  | "UN" -> UnsupportedChange
  | s -> failwith ("schange " ^ s)

let parse_table () : etable =
  let n = hb (next ()) in
  let nc = next_int () in
  let cols = times nc parse_col in
  let nf = next_int () in
  let fks = times nf parse_fk in
  let nr = next_int () in
  let rows = times nr (fun () -> Stdlib.List.map (fun c -> let v = parse_value () in (c.rc_name, v)) cols) in
  { et_name = n; et_cols = cols; et_fks = fks; et_rows = rows }

(* conversion between declared types: identity on the same type; otherwise masked, NULL stays NULL *)
let conv (a : bytes) (b : bytes) (v : value) : value =
  if str_eqb a b then v else match v with VNull -> VNull | _ -> star
let genv _ _ _ = star

let show_value = function
  | VNull -> "N"
  | VVal t -> let s = string_of_bytes t in if s = "*" then "*" else "V" ^ hexs s

let err_name = function
  | ENoSuchTable -> "ENoSuchTable" | EExists -> "EExists" | ENoSuchColumn -> "ENoSuchColumn"
  | EDupColumn -> "EDupColumn" | ENotNull -> "ENotNull" | EAddNotNull -> "EAddNotNull"
  | EArity -> "EArity" | EGenerated -> "EGenerated" | EFK -> "EFK" | EFuel -> "EFuel" | ELocked -> "ELocked"

(* a column is masked when it is generated or when the table had a column of that name with
   another declared type before (conversion by affinity is outside the model) *)
let show_table (before : etable list) (t : etable) : string =
  let cols = Stdlib.List.map (fun c -> hexs (string_of_bytes c.rc_name)) t.et_cols in
  let find n = Stdlib.List.find_opt (fun b -> string_of_bytes b.et_name = n) before in
  let tn = string_of_bytes t.et_name in
  let old = match find tn with
    | Some b -> Some b
    | None -> if String.length tn > 4 && String.sub tn 0 4 = "new_" then find (String.sub tn 4 (String.length tn - 4)) else None in
  let masked c =
    c.rc_gen || (match c.rc_defval with VVal t -> string_of_bytes t = "'?'" | VNull -> false) ||
    (match old with
     | None -> false
     | Some b -> Stdlib.List.exists (fun oc -> str_eqb oc.rc_name c.rc_name && not (str_eqb oc.rc_type c.rc_type)) b.et_cols) in
  let rows = Stdlib.List.map (fun r ->
      String.concat "," (Stdlib.List.map (fun c ->
          if masked c then "*" else
          let rec get = function [] -> "?" | (k, v) :: r' -> if str_eqb k c.rc_name then show_value v else get r' in
          get r) t.et_cols)) t.et_rows in
  let rows = Stdlib.List.sort compare rows in
  Printf.sprintf "tbl %s cols=%s n=%d rows=%s" (hexs (string_of_bytes t.et_name)) (String.concat "," cols)
    (Stdlib.List.length rows) (String.concat ";" rows)

let show_opts (t : tdef) : string =
  match Stdlib.List.map (function OWithoutRowid -> "W" | OStrict -> "S") (table_options t) with
  | [] -> "-" | l -> String.concat "" l

(* declared type text of every column of a CREATE TABLE the plan contains (round 5) *)
let show_types (t : tdef) : string =
  match t.td_cols with
  | [] -> "-"
  | l -> String.concat "," (Stdlib.List.map (fun c -> hexs (string_of_bytes c.rc_name) ^ ":" ^ hexs (string_of_bytes c.rc_type)) l)

let run_apply id =
  let fk = next_bool () in
  let tx = next_int () in          (* 0 on the connection, 1 through OpenTx, 2 inside a plain transaction *)
  let k = next_int () in
  let show_fk = next_bool () in
  let fcode = next_int () in
  let fidx = next_int () in
  let nt = next_int () in
  let tabs = times nt parse_table in
  let nc = next_int () in
  let cs = times nc parse_schange in
  let rec take n l = if n <= 0 then [] else match l with [] -> [] | x :: r -> x :: take (n - 1) r in
  let show head d' =
    Printf.printf "%s res %s\n" id head;
    (match planChanges cs with
     | POk p -> Stdlib.List.iter (function SCreateTable t -> Printf.printf "%s create %s %s %s\n" id (hexs (string_of_bytes t.td_name)) (show_opts t) (show_types t) | _ -> ()) p
     | PErr _ -> ());
    let ts = Stdlib.List.sort (fun a b -> compare (string_of_bytes a.et_name) (string_of_bytes b.et_name)) d'.d_tables in
    Stdlib.List.iter (fun t -> Printf.printf "%s %s\n" id (show_table tabs t)) ts in
  let rec nat_of_int i = if i <= 0 then O else S (nat_of_int (i - 1)) in
  if fcode > 0 then begin
    (* --tx-mode file with one failing statement: where do the tables end up? *)
    let d = { d_tables = tabs; d_fk = fk; d_intx = false } in
    let f = match fcode with
      | 1 -> FQueryFK | 2 -> FSetFKOff | 3 -> FBegin | 4 -> FCheckBefore | 5 -> FStmt (nat_of_int fidx)
      | 6 -> FCheckAfter | 7 -> FCommit | _ -> FRestoreFK in
    match schema_apply_f conv genv TxFile f d cs with
    | None -> Printf.printf "%s res planerr\n" id
    | Some (d', r) ->
        let after = match schema_apply conv genv TxFile d cs with Some (d0, None) -> Some d0.d_tables | _ -> None in
        (* tables compared by name, columns (name, type, NOT NULL, default value, kind) and rows *)
        let norm ts =
          Stdlib.List.sort compare (Stdlib.List.map (fun t ->
            (string_of_bytes t.et_name,
             Stdlib.List.map (fun c -> (string_of_bytes c.rc_name, string_of_bytes c.rc_type, c.rc_notnull, show_value c.rc_defval, c.rc_gen)) t.et_cols,
             Stdlib.List.sort compare (Stdlib.List.map (fun r ->
               Stdlib.List.map (fun c -> if c.rc_gen then "*" else
                 let rec get = function [] -> "?" | (k, v) :: r' -> if str_eqb k c.rc_name then show_value v else get r' in get r) t.et_cols) t.et_rows))) ts) in
        let state = if norm d'.d_tables = norm tabs then "before"
                    else (match after with Some a when norm a = norm d'.d_tables -> "after" | _ -> "other") in
        Printf.printf "%s res fault err=%s state=%s\n" id (match r with None -> "0" | Some _ -> "1") state
  end else if k >= 0 then begin
    (* the first k statements of the plan, on the connection *)
    let d = { d_tables = tabs; d_fk = fk; d_intx = false } in
    match planChanges cs with
    | PErr _ -> Printf.printf "%s res planerr\n" id
    | POk p ->
        (match exec_all conv genv d (take k p) with
         | EErr e -> Printf.printf "%s res %s\n" id (err_name e)
         | EOk d' -> show "prefix" d')
  end else if tx = 2 then begin
    let d = { d_tables = tabs; d_fk = fk; d_intx = true } in
    match applyChanges conv genv d cs with
    | None -> Printf.printf "%s res planerr\n" id
    | Some (EErr e) -> Printf.printf "%s res %s\n" id (err_name e)
    | Some (EOk d') -> show "ok" d'
  end else begin
    let d = { d_tables = tabs; d_fk = fk; d_intx = false } in
    match schema_apply conv genv (if tx = 1 then TxFile else TxNone) d cs with
    | None -> Printf.printf "%s res planerr\n" id
    | Some (_, Some e) -> Printf.printf "%s res %s\n" id (err_name e)
    | Some (d', None) -> show "ok" d'; if show_fk then Printf.printf "%s fk %d\n" id (if d'.d_fk then 1 else 0)
  end

let hn b = hexs (string_of_bytes b)

let show_stmt = function
  | SPragmaFK on -> if on then "PF 1" else "PF 0"
  | SCreateTable t -> "CT " ^ hn t.td_name ^ " " ^ show_opts t
  | SDropTable n -> "DT " ^ hn n
  | SRenameTable (a, b) -> "RT " ^ hn a ^ " " ^ hn b
  | SCopyRows (to_t, toC, fromC, from_t) ->
      "CR " ^ hn to_t ^ " [" ^ String.concat "," (Stdlib.List.map hn toC) ^ "] ["
      ^ String.concat "," (Stdlib.List.map (function ECol n -> "C:" ^ hn n | EIfNull (n, _) -> "I:" ^ hn n) fromC)
      ^ "] " ^ hn from_t
  | SAddColumn (t, c) -> "AC " ^ hn t ^ " " ^ hn c.rc_name
  | SRenameColumn (t, a, b) -> "RC " ^ hn t ^ " " ^ hn a ^ " " ^ hn b
  | SCreateIndex (t, i) -> "CI " ^ hn t ^ " " ^ hn i
  | SDropIndex i -> "DI " ^ hn i

let run_plan id =
  let nc = next_int () in
  let cs = times nc parse_schange in
  match planChanges cs with
  | PErr _ -> Printf.printf "%s planerr\n" id
  | POk l -> Printf.printf "%s plan %s\n" id (String.concat " ; " (Stdlib.List.map show_stmt l))

let () =
  let mode = if Array.length Sys.argv > 1 then Sys.argv.(1) else "apply" in
  (try
    while true do
      let line = input_line stdin in
      if String.length line > 0 then begin
        let parts = Array.of_list (Stdlib.List.filter (fun s -> s <> "") (String.split_on_char ' ' line)) in
        let id = parts.(0) in
        toks := parts; pos := 1;
        (try
          match mode with
          | "apply" -> run_apply id
          | "plan" -> run_plan id
          | m -> failwith ("mode " ^ m)
        with e -> Printf.printf "%s driver-error %s\n" id (Printexc.to_string e))
      end
    done
  with End_of_file -> ())
