(* Extraction of M-LINT. ExtrOcamlBasic only; nat, positive, N stay inductive. *)
Require Extraction.
Require Import ExtrOcamlBasic.
From Atlas Require Import Base.Bytes Lint.LintModel Lint.LintNolintModel Lint.LintGenModel Lint.LintEnvModel.
Extraction Language OCaml.
Extraction "model.ml" lint analyze_file lint_nl destructive_run lint_env.
