(* Extraction of M-LINT. ExtrOcamlBasic only; nat, positive, N stay inductive. *)
Require Extraction.
Require Import ExtrOcamlBasic.
From Atlas Require Import Base.Bytes Lint.LintModel Lint.LintNolintModel.
Extraction Language OCaml.
Extraction "model.ml" lint analyze_file lint_nl.
