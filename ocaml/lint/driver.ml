(* Driver for the extracted M-LINT model: reads the case file of harness/cmd/lint
   and prints, per case, the observation the harness prints for the real code.
   mode "cli": a case is a migration directory + --latest N  -> Model.lint
   mode "api": a case is a list of statement change lists    -> Model.analyze_file
   mode "nl":  a cli case followed by `nl k` and, per file with comments, its id, the header comment
               lines and the comment group of each statement position    -> Model.lint_nl *)
open Model

let rec nat_of_int i = if i <= 0 then O else S (nat_of_int (i - 1))
let rec pos_of_int i = if i = 1 then XH else if i land 1 = 0 then XO (pos_of_int (i lsr 1)) else XI (pos_of_int (i lsr 1))
let n_of_int i = if i = 0 then N0 else Npos (pos_of_int i)
let rec int_of_pos = function XH -> 1 | XO p -> 2 * int_of_pos p | XI p -> 2 * int_of_pos p + 1
let int_of_n = function N0 -> 0 | Npos p -> int_of_pos p

let bytes_of_string (s : string) : bytes =
  Stdlib.List.init (String.length s) (fun i -> n_of_int (Char.code s.[i]))
let string_of_bytes (b : bytes) : string =
  String.concat "" (Stdlib.List.map (fun n -> String.make 1 (Char.chr (int_of_n n))) b)
let unhex (h : string) : string =
  if h = "-" then "" else
  String.init (String.length h / 2) (fun i -> Char.chr (int_of_string ("0x" ^ String.sub h (2 * i) 2)))
let hb h = bytes_of_string (unhex h)

let toks = ref [||]
let pos = ref 0
let next () = let t = !toks.(!pos) in incr pos; t
let next_int () = int_of_string (next ())
let times n f = Stdlib.List.init n (fun _ -> ()) |> Stdlib.List.map (fun () -> f ())

let parse_col () : column =
  let n = hb (next ()) in let v = next () = "1" in let s = n_of_int (next_int ()) in
  { c_name = n; c_virtual = v; c_sig = s }

let parse_stmt () : stmt =
  match next () with
  | "ct" -> let t = hb (next ()) in let n = next_int () in CreateTable (t, times n parse_col)
  | "dt" -> DropTable (hb (next ()))
  | "ac" -> let t = hb (next ()) in let c = parse_col () in AddColumn (t, c)
  | "dc" -> let t = hb (next ()) in let c = hb (next ()) in DropColumn (t, c)
  | "rt" -> let t = hb (next ()) in let u = hb (next ()) in RenameTable (t, u)
  | "rc" -> let t = hb (next ()) in let c = hb (next ()) in let d = hb (next ()) in RenameColumn (t, c, d)
  | "ci" -> let i = hb (next ()) in let t = hb (next ()) in let n = next_int () in
            CreateIndex (i, t, times n (fun () -> hb (next ())))
  | "di" -> DropIndex (hb (next ()))
  | "is" -> let t = hb (next ()) in let u = hb (next ()) in InsertSelect (t, u)
  | "ok" -> Other true
  | "bad" -> Other false
  | s -> failwith ("stmt " ^ s)

let parse_pstmt () = let p = n_of_int (next_int ()) in let s = parse_stmt () in (p, s)

let parse_file () : mfile =
  let id = n_of_int (next_int ()) in
  let ck = next () = "1" in
  let n = next_int () in
  { f_id = id; f_ckpt = ck; f_stmts = times n parse_pstmt }

let show_diag (d : diag) : string =
  Printf.sprintf "%s@%d(%s)"
    (match d.d_code with DS102 -> "DS102" | DS103 -> "DS103")
    (int_of_n d.d_pos)
    (String.concat "," (Stdlib.List.map string_of_bytes d.d_names))

let show_diags ds = "[" ^ String.concat ";" (Stdlib.List.map show_diag ds) ^ "]"

(* api mode: explicit change lists *)
let parse_tab () : table =
  let n = hb (next ()) in let k = next_int () in
  { t_name = n; t_cols = times k parse_col; t_idxs = [] }

let parse_tchange () : tchange =
  match next () with
  | "+c" -> AddColumnC (parse_col ())
  | "-c" -> DropColumnC (parse_col ())
  | "~c" -> let a = parse_col () in let b = parse_col () in ModifyColumnC (a, b)
  | s -> failwith ("tchange " ^ s)

let parse_change () : change =
  match next () with
  | "+t" -> AddTableC (parse_tab ())
  | "-t" -> DropTableC (parse_tab ())
  | "~t" -> let t = parse_tab () in let n = next_int () in ModifyTableC (t, times n parse_tchange)
  | "rt" -> let a = parse_tab () in let b = parse_tab () in RenameTableC (a, b)
  | s -> failwith ("change " ^ s)

let parse_schange () : schange =
  let p = n_of_int (next_int ()) in let n = next_int () in
  { sc_pos = p; sc_changes = times n parse_change }

let parse_nl () =
  (match next () with "nl" -> () | s -> failwith ("nl " ^ s));
  let k = next_int () in
  times k (fun () ->
    let id = n_of_int (next_int ()) in
    let nh = next_int () in
    let hdr = times nh (fun () -> hb (next ())) in
    let ns = next_int () in
    let stmts = times ns (fun () ->
      let p = n_of_int (next_int ()) in
      let nc = next_int () in
      (p, times nc (fun () -> hb (next ())))) in
    (id, { nl_hdr = hdr; nl_stmts = stmts }))

(* gen mode: the destructive analyzer on explicit multi-schema change lists (LintGenModel) *)
let hopt () = match next () with "!" -> None | h -> Some (hb h)
let parse_gcol () : gcolumn =
  let n = hb (next ()) in let g = hopt () in { gc_name = n; gc_gen = g }
let parse_gsch () : gschema =
  let n = hb (next ()) in let k = n_of_int (next_int ()) in { gs_name = n; gs_ntables = k }
let parse_gtab () : gtable =
  let s = hopt () in let n = hb (next ()) in let k = next_int () in
  { gt_schema = s; gt_name = n; gt_cols = times k parse_gcol }
let parse_gtchange () : gtchange =
  match next () with
  | "+c" -> GAddColumn (parse_gcol ())
  | "-c" -> GDropColumn (parse_gcol ())
  | "rc" -> let a = parse_gcol () in let b = parse_gcol () in GRenameColumn (a, b)
  | "oc" -> let k = n_of_int (next_int ()) in let n = hb (next ()) in GOtherT (k, n)
  | s -> failwith ("gtchange " ^ s)
let parse_gchange () : gchange =
  match next () with
  | "+s" -> GAddSchema (parse_gsch ())
  | "-s" -> GDropSchema (parse_gsch ())
  | "+t" -> GAddTable (parse_gtab ())
  | "-t" -> GDropTable (parse_gtab ())
  | "~t" -> let t = parse_gtab () in let n = next_int () in GModifyTable (t, times n parse_gtchange)
  | "rt" -> let a = parse_gtab () in let b = parse_gtab () in GRenameTable (a, b)
  | "o" -> GOther (n_of_int (next_int ()))
  | s -> failwith ("gchange " ^ s)
let parse_gschange () : gschange =
  let p = n_of_int (next_int ()) in let n = next_int () in
  { gsc_pos = p; gsc_changes = times n parse_gchange }
let parse_cfg () : gblock list =
  match next () with
  | "nil" -> []
  | k -> times (int_of_string k) (fun () ->
      let ty = hb (next ()) in let na = next_int () in
      (ty, times na (fun () -> let key = hb (next ()) in let v = next () = "1" in (key, v))))
let hex_of_bytes (b : bytes) : string =
  if b = [] then "-" else String.concat "" (Stdlib.List.map (fun n -> Printf.sprintf "%02x" (int_of_n n)) b)
let show_gdiag (d : gdiag) : string =
  let names = String.concat "," (Stdlib.List.map hex_of_bytes d.gd_names) in
  match d.gd_code with
  | GDS101 -> Printf.sprintf "DS101@%d(%s#%d)" (int_of_n d.gd_pos) names (int_of_n d.gd_ntables)
  | GDS102 -> Printf.sprintf "DS102@%d(%s)" (int_of_n d.gd_pos) names
  | GDS103 -> Printf.sprintf "DS103@%d(%s)" (int_of_n d.gd_pos) names

let show_result id = function
  | LintLoadError (f, _) -> Printf.printf "%s exit=1 loaderr=%d\n" id (int_of_n f)
  | LintReport (files, failed) ->
    Printf.printf "%s\n" (String.trim (Printf.sprintf "%s exit=%d %s" id (if failed then 1 else 0)
      (String.concat " " (Stdlib.List.map (fun (f, ds) -> Printf.sprintf "%d:%s" (int_of_n f) (show_diags ds)) files))))

let () =
  let mode = if Array.length Sys.argv > 1 then Sys.argv.(1) else "cli" in
  try
    while true do
      let line = input_line stdin in
      let ts = String.split_on_char ' ' line |> Stdlib.List.filter (fun s -> s <> "") in
      match ts with
      | [] -> ()
      | id :: rest ->
        toks := Array.of_list rest; pos := 0;
        (match mode with
         | "api" ->
           let n = next_int () in
           let cl = times n parse_schange in
           let ds = analyze_file cl in
           Printf.printf "%s err=%d %s\n" id (if ds = [] then 0 else 1) (show_diags ds)
         | "gen" ->
           let cfg = parse_cfg () in
           let n = next_int () in
           let cl = times n parse_gschange in
           (match destructive_run cfg cl with
            | GPanic -> Printf.printf "%s panic\n" id
            | GDone (ds, rep, err) ->
              Printf.printf "%s err=%d rep=%d [%s]\n" id (if err then 1 else 0) (if rep then 1 else 0)
                (String.concat ";" (Stdlib.List.map show_gdiag ds)))
         | "env" ->
           let cl = n_of_int (next_int ()) in
           let cg = hb (next ()) in
           let ch = parse_cfg () in
           let fl = (match next () with "!" -> None | k -> Some (n_of_int (int_of_string k))) in
           let fg = hopt () in
           let nf = next_int () in
           let dir = times nf parse_file in
           (match lint_env dir { fl_latest = fl; fl_git_base = fg } { ec_latest = cl; ec_git_base = cg; ec_children = ch } with
            | EnvRequired -> Printf.printf "%s exit=1 err=required\n" id
            | EnvExclusive -> Printf.printf "%s exit=1 err=exclusive\n" id
            | EnvGit _ -> Printf.printf "%s git\n" id
            | EnvLint r -> show_result id r)
         | "nl" ->
           let latest = next_int () in
           let nf = next_int () in
           let dir = times nf parse_file in
           let nls = parse_nl () in
           show_result id (lint_nl dir nls (nat_of_int latest))
         | _ ->
           let latest = next_int () in
           let nf = next_int () in
           let dir = times nf parse_file in
           (match lint dir (nat_of_int latest) with
            | LintLoadError (f, _) -> Printf.printf "%s exit=1 loaderr=%d\n" id (int_of_n f)
            | LintReport (files, failed) ->
              Printf.printf "%s exit=%d %s\n" id (if failed then 1 else 0)
                (String.concat " " (Stdlib.List.map (fun (f, ds) -> Printf.sprintf "%d:%s" (int_of_n f) (show_diags ds)) files))))
    done
  with End_of_file -> ()
