(* Extraction of M-TYPE. ExtrOcamlBasic only. *)
Require Extraction.
Require Import ExtrOcamlBasic.
From Atlas Require Import Base.Bytes Hcl.Str Hcl.RegistryDefs Hcl.Registry Hcl.TypesSqlite Hcl.TypesMysql Hcl.TypesPg.
Extraction Language OCaml.
Extraction "model.ml" Sqlite.obs_fmt_sqlite Sqlite.obs_hcl_sqlite Mysql.obs_fmt_mysql Mysql.obs_hcl_mysql Pg.obs_fmt_pg Pg.obs_raw_pg.
