(* Extraction of M-TYPE. ExtrOcamlBasic only. *)
Require Extraction.
Require Import ExtrOcamlBasic.
From Atlas Require Import Base.Bytes Hcl.Str Hcl.RegistryDefs Hcl.Registry Hcl.TypesSqlite.
Extraction Language OCaml.
Extraction "model.ml" Sqlite.obs_fmt_sqlite Sqlite.obs_hcl_sqlite.
