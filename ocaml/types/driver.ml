(* Driver for the extracted M-TYPE model (C15). Reads the case file written by
   harness/cmd/types (one type per line: <id> <dialect> <canonical type text>) and
   prints the model's two observation lines in the harness's canonical text. *)
open Model

let rec pos_of_int i = if i = 1 then XH else if i land 1 = 0 then XO (pos_of_int (i lsr 1)) else XI (pos_of_int (i lsr 1))
let n_of_int i = if i = 0 then N0 else Npos (pos_of_int i)
let rec int_of_pos = function XH -> 1 | XO p -> 2 * int_of_pos p | XI p -> 2 * int_of_pos p + 1
let int_of_n = function N0 -> 0 | Npos p -> int_of_pos p
let z_of_int i = if i = 0 then Z0 else if i > 0 then Zpos (pos_of_int i) else Zneg (pos_of_int (-i))

let bytes_of_string (s : Stdlib.String.t) = Stdlib.List.init (Stdlib.String.length s) (fun i -> n_of_int (Char.code s.[i]))
let string_of_bytes b = Stdlib.String.concat "" (Stdlib.List.map (fun x -> Stdlib.String.make 1 (Char.chr (int_of_n x))) b)
let unhex (h : Stdlib.String.t) : Stdlib.String.t =
  if h = "-" then "" else
  Stdlib.String.init (Stdlib.String.length h / 2) (fun i -> Char.chr (int_of_string ("0x" ^ Stdlib.String.sub h (2 * i) 2)))
let hb h = bytes_of_string (unhex h)

(* split "a=1,b=Cls{x=1,y=2},c=3" at top-level commas *)
let split_top (s : Stdlib.String.t)  =
  let parts = ref [] and cur = Buffer.create 16 and depth = ref 0 in
  Stdlib.String.iter (fun c ->
    if c = '{' || c = '[' then incr depth;
    if c = '}' || c = ']' then decr depth;
    if c = ',' && !depth = 0 then (parts := Buffer.contents cur :: !parts; Buffer.clear cur)
    else Buffer.add_char cur c) s;
  if Buffer.length cur > 0 then parts := Buffer.contents cur :: !parts;
  Stdlib.List.rev !parts

(* "Cls{...}" -> (Cls, [(k,v)]) *)
let parse_struct (s : Stdlib.String.t)  =
  let i = Stdlib.String.index s '{' in
  let cls = Stdlib.String.sub s 0 i in
  let body = Stdlib.String.sub s (i + 1) (Stdlib.String.length s - i - 2) in
  let kv = Stdlib.List.map (fun f ->
    let j = Stdlib.String.index f '=' in
    (Stdlib.String.sub f 0 j, Stdlib.String.sub f (j + 1) (Stdlib.String.length f - j - 1))) (split_top body) in
  (cls, kv)

let get kv k = try Stdlib.List.assoc k kv with Not_found -> failwith ("missing field " ^ k)
let gs kv k = hb (get kv k)
let gi kv k = z_of_int (int_of_string (get kv k))
let gb kv k = get kv k = "1"
let go kv k = match get kv k with "nil" -> None | v -> Some (z_of_int (int_of_string v))
let gl kv k =
  let v = get kv k in
  let v = Stdlib.String.sub v 1 (Stdlib.String.length v - 2) in
  if v = "" then [] else Stdlib.List.map hb (Stdlib.String.split_on_char ':' v)

let sqlite_ty (s : Stdlib.String.t) : Sqlite.ty =
  let (cls, kv) = parse_struct s in
  let open Sqlite in
  match cls with
  | "schema.BoolType" -> BoolType (gs kv "T")
  | "schema.BinaryType" -> BinaryType (gs kv "T", go kv "Size")
  | "schema.EnumType" -> EnumType (gs kv "T", gl kv "Values")
  | "schema.IntegerType" -> IntegerType (gs kv "T", gb kv "Unsigned")
  | "schema.StringType" -> StringType (gs kv "T", gi kv "Size")
  | "schema.TimeType" -> TimeType (gs kv "T", go kv "Precision", go kv "Scale")
  | "schema.FloatType" -> FloatType (gs kv "T", gb kv "Unsigned", gi kv "Precision")
  | "schema.DecimalType" -> DecimalType (gs kv "T", gi kv "Precision", gi kv "Scale", gb kv "Unsigned")
  | "schema.JSONType" -> JSONType (gs kv "T")
  | "schema.SpatialType" -> SpatialType (gs kv "T")
  | "schema.UUIDType" -> UUIDType (gs kv "T")
  | "schema.UnsupportedType" -> UnsupportedType (gs kv "T")
  | "sqlite.UserDefinedType" -> UserDefinedType (gs kv "T")
  | c -> failwith ("sqlite class " ^ c)

let mysql_iattrs kv =
  let v = get kv "Attrs" in
  let v = Stdlib.String.sub v 1 (Stdlib.String.length v - 2) in
  if v = "" then [] else Stdlib.List.map (fun a ->
    match Stdlib.String.split_on_char '/' a with
    | ["mysql.DisplayWidth"; n] -> Mysql.DisplayWidth (z_of_int (int_of_string n))
    | ["mysql.ZeroFill"; h] -> Mysql.ZeroFill (hb h)
    | _ -> failwith ("mysql attr " ^ a)) (Stdlib.String.split_on_char ':' v)

let mysql_ty (s : Stdlib.String.t) : Mysql.ty =
  let (cls, kv) = parse_struct s in
  let open Mysql in
  match cls with
  | "schema.BoolType" -> BoolType (gs kv "T")
  | "schema.BinaryType" -> BinaryType (gs kv "T", go kv "Size")
  | "schema.EnumType" -> EnumType (gs kv "T", gl kv "Values")
  | "schema.IntegerType" -> IntegerType (gs kv "T", gb kv "Unsigned", mysql_iattrs kv)
  | "schema.StringType" -> StringType (gs kv "T", gi kv "Size")
  | "schema.TimeType" -> TimeType (gs kv "T", go kv "Precision", go kv "Scale")
  | "schema.FloatType" -> FloatType (gs kv "T", gb kv "Unsigned", gi kv "Precision")
  | "schema.DecimalType" -> DecimalType (gs kv "T", gi kv "Precision", gi kv "Scale", gb kv "Unsigned")
  | "schema.JSONType" -> JSONType (gs kv "T")
  | "schema.SpatialType" -> SpatialType (gs kv "T")
  | "schema.UUIDType" -> UUIDType (gs kv "T")
  | "schema.UnsupportedType" -> UnsupportedType (gs kv "T")
  | "mysql.BitType" -> BitType (gs kv "T", gi kv "Size")
  | "mysql.SetType" -> SetType (gl kv "Values")
  | "mysql.NetworkType" -> NetworkType (gs kv "T")
  | c -> failwith ("mysql class " ^ c)

let pg_ty (s : Stdlib.String.t) : Pg.ty =
  let (cls, kv) = parse_struct s in
  let open Pg in
  match cls with
  | "postgres.ArrayType" -> ArrayType (gs kv "T")
  | "postgres.BitType" -> BitType (gs kv "T", gi kv "Len")
  | "schema.BoolType" -> BoolType (gs kv "T")
  | "schema.BinaryType" -> BinaryType (gs kv "T")
  | "postgres.CurrencyType" -> CurrencyType (gs kv "T")
  | "postgres.CompositeType" -> CompositeType (gs kv "T")
  | "postgres.DomainType" -> DomainType (gs kv "T")
  | "schema.EnumType" -> EnumType (gs kv "T")
  | "schema.IntegerType" -> IntegerType (gs kv "T")
  | "postgres.IntervalType" -> IntervalType (gs kv "T", gs kv "F", go kv "Precision")
  | "schema.StringType" -> StringType (gs kv "T", gi kv "Size")
  | "schema.TimeType" -> TimeType (gs kv "T", go kv "Precision")
  | "schema.FloatType" -> FloatType (gs kv "T", gi kv "Precision")
  | "schema.DecimalType" -> DecimalType (gs kv "T", gi kv "Precision", gi kv "Scale")
  | "postgres.SerialType" -> SerialType (gs kv "T")
  | "schema.JSONType" -> JSONType (gs kv "T")
  | "schema.UUIDType" -> UUIDType (gs kv "T")
  | "schema.SpatialType" -> SpatialType (gs kv "T")
  | "postgres.NetworkType" -> NetworkType (gs kv "T")
  | "postgres.RangeType" -> RangeType (gs kv "T")
  | "postgres.OIDType" -> OIDType (gs kv "T")
  | "postgres.TextSearchType" -> TextSearchType (gs kv "T")
  | "postgres.UserDefinedType" -> UserDefinedType (gs kv "T")
  | "postgres.XMLType" -> XMLType (gs kv "T")
  | "postgres.PseudoType" -> PseudoType (gs kv "T")
  | "schema.UnsupportedType" -> UnsupportedType (gs kv "T")
  | c -> failwith ("postgres class " ^ c)

let () =
  (try
    while true do
      let line = input_line stdin in
      if line <> "" then begin
        match Stdlib.String.split_on_char ' ' line with
        | id :: dialect :: ty :: _ ->
          (match dialect with
            | "sqlite" -> let t = sqlite_ty ty in
              Printf.printf "%s %s\n%s %s\n" id (string_of_bytes (Sqlite.obs_fmt_sqlite t)) id (string_of_bytes (Sqlite.obs_hcl_sqlite t))
            | "mysql" -> let t = mysql_ty ty in
              Printf.printf "%s %s\n%s %s\n" id (string_of_bytes (Mysql.obs_fmt_mysql t)) id (string_of_bytes (Mysql.obs_hcl_mysql t))
            | "postgres" -> (* FormatType / ParseType / FormatType *)
              Printf.printf "%s %s\n" id (string_of_bytes (Pg.obs_fmt_pg (pg_ty ty)))
            | "pgraw" -> (* ParseType of a raw text *)
              Printf.printf "%s %s\n" id (string_of_bytes (Pg.obs_raw_pg (hb ty)))
            | d -> failwith ("dialect " ^ d))
        | _ -> failwith ("bad case line: " ^ line)
      end
    done
  with End_of_file -> ())
