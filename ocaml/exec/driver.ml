(* Driver for the extracted M-EXEC/M-PEND model.
   Reads the case file the Go harness wrote (one history per line) and prints
   the model's observations in the same canonical text the harness prints. *)
open Model

let rec nat_of_int i = if i <= 0 then O else S (nat_of_int (i - 1))
let rec int_of_nat = function O -> 0 | S n -> 1 + int_of_nat n
let rec pos_of_int i = if i = 1 then XH else if i land 1 = 0 then XO (pos_of_int (i lsr 1)) else XI (pos_of_int (i lsr 1))
let n_of_int i = if i = 0 then N0 else Npos (pos_of_int i)
let rec int_of_pos = function XH -> 1 | XO p -> 2 * int_of_pos p | XI p -> 2 * int_of_pos p + 1
let int_of_n = function N0 -> 0 | Npos p -> int_of_pos p

let bytes_of_string (s : string) : bytes =
  Stdlib.List.init (String.length s) (fun i -> n_of_int (Char.code s.[i]))
let string_of_bytes (b : bytes) : string =
  String.concat "" (Stdlib.List.map (fun x -> String.make 1 (Char.chr (int_of_n x))) b)

let unhex (h : string) : string =
  if h = "-" then "" else
  String.init (String.length h / 2) (fun i -> Char.chr (int_of_string ("0x" ^ String.sub h (2 * i) 2)))
let hex (s : string) : string =
  if s = "" then "-" else String.concat "" (Stdlib.List.init (String.length s) (fun i -> Printf.sprintf "%02x" (Char.code s.[i])))

let hs (b : bytes) : string = Sha256.hs (string_of_bytes b)
let heq (a : string) (b : string) = (a = b)

let b2s b = if b then "1" else "0"
let hexb b = hex (string_of_bytes b)

let show_rev (r : string rev) =
  Printf.sprintf "%s:%d:%d:%s:%s:%d" (hexb r.r_version) (int_of_nat r.r_applied) (int_of_nat r.r_total)
    (match r.r_hashes with [] -> "-" | l -> String.concat "," l) (b2s r.r_err) (int_of_n r.r_kind)

let show_event = function
  | EExec (_, _, s, ok) -> Printf.sprintf "x:%s:%s" (hexb s) (b2s ok)
  | EWrite (r, ok) -> Printf.sprintf "w:%s:%s" (show_rev r) (b2s ok)

let show_files fs = String.concat "," (Stdlib.List.map (fun f -> hexb f.f_version) fs)

let show_outcome = function
  | RExec ODone -> "done"
  | RExec OStmtErr -> "stmterr"
  | RExec OWriteErr -> "writeerr"
  | RExec (OHistory i) -> Printf.sprintf "history:%d" (int_of_nat i)
  | RExec OPanic -> "panic"
  | RPend PNoPending -> "nopending"
  | RPend PNotClean -> "notclean"
  | RPend PBaselineNotFound -> "baselinenotfound"
  | RPend (PMissing v) -> "missing:" ^ hexb v
  | RPend (PNonLinear (s, p)) -> Printf.sprintf "nonlinear:%s:%s" (show_files s) (show_files p)
  | RPend PWriteErr -> "writeerr"
  | RPend (PFiles _) -> "internal"

let show_status (st : string sresult) : string =
                  (match st with
                 | SOk s ->
                   Printf.sprintf "status=%s cur=%s next=%s count=%d total=%d pend=[%s] ooo=[%s] applied=[%s] avail=[%s] err=%s"
                     (if s.s_ok then "OK" else "PENDING")
                     (match s.s_current with CurNone -> "none" | CurVer v -> "v" ^ hexb v)
                     (match s.s_next with NextEmpty -> "-" | NextLatest -> "latest" | NextVer v -> "v" ^ hexb v)
                     (int_of_nat s.s_count) (int_of_nat s.s_total) (show_files s.s_pending) (show_files s.s_ooo)
                     (String.concat " " (Stdlib.List.map (fun r ->
                        Printf.sprintf "%s:%d:%d" (hexb r.r_version) (int_of_nat r.r_applied) (int_of_nat r.r_total)) s.s_applied))
                     (show_files s.s_available) (b2s s.s_error)
                 | SErr PNotClean -> "status=err:notclean"
                 | SErr (PMissing v) -> "status=err:missing:" ^ hexb v
                 | SErr p -> "status=err:" ^ show_outcome (RPend p)
                 | SFileNotFound v -> "status=err:filenotfound:" ^ hexb v
                 | SPanic -> "status=err:panic")

(* token stream *)
let toks = ref [||]
let pos = ref 0
let next () = let t = !toks.(!pos) in incr pos; t
let next_int () = int_of_string (next ())

let parse_files () : file list =
  let nfiles = next_int () in
  Stdlib.List.init nfiles (fun _ -> ()) |> Stdlib.List.map (fun () ->
    let v = bytes_of_string (unhex (next ())) in
    let ck = next () = "1" in
    let ns = next_int () in
    let stmts = Stdlib.List.init ns (fun _ -> ()) |> Stdlib.List.map (fun () -> bytes_of_string (unhex (next ()))) in
    { f_version = v; f_stmts = stmts; f_ckpt = ck })

let parse_run () : run =
  let order = match next () with "linear" -> Linear | "linear-skip" -> LinearSkip | "non-linear" -> NonLinear | s -> failwith ("order " ^ s) in
  let baseline = match next () with "-" -> None | h -> Some (bytes_of_string (unhex h)) in
  let allow_dirty = next () = "1" in
  let dirty = next () = "1" in
  let n = next_int () in
  let faults = match next () with "-" -> [] | s -> Stdlib.List.init (String.length s) (fun i -> s.[i] = '1') in
  let nfiles = next_int () in
  let files = Stdlib.List.init nfiles (fun _ -> ()) |> Stdlib.List.map (fun () ->
    let v = bytes_of_string (unhex (next ())) in
    let ck = next () = "1" in
    let ns = next_int () in
    let stmts = Stdlib.List.init ns (fun _ -> ()) |> Stdlib.List.map (fun () -> bytes_of_string (unhex (next ()))) in
    { f_version = v; f_stmts = stmts; f_ckpt = ck }) in
  { run_cfg = { c_order = order; c_baseline = baseline; c_allow_dirty = allow_dirty; c_dirty = dirty };
    run_n = nat_of_int n; run_dir = files; run_faults = faults }

let () =
  let mode = if Array.length Sys.argv > 1 then Sys.argv.(1) else "runs" in
  (try
    while true do
      let line = input_line stdin in
      if line <> "" then begin
        toks := Array.of_list (Stdlib.List.filter (fun s -> s <> "") (String.split_on_char ' ' line));
        pos := 0;
        let id = next () in
        match mode with
        | "runs" ->
          let nruns = next_int () in
          let runs = Stdlib.List.init nruns (fun _ -> ()) |> Stdlib.List.map (fun () -> parse_run ()) in
          let res = run_all heq hs runs [] in
          Stdlib.List.iteri (fun i ((o, t), es) ->
            Printf.printf "%s run%d outcome=%s events=[%s] table=[%s]\n" id i (show_outcome o)
              (String.concat " " (Stdlib.List.map show_event es))
              (String.concat " " (Stdlib.List.map show_rev (read_revisions t)))) res
        | "reuse" ->
          (* C09 stage reuse: calls on ONE executor value (M-REUSE): cfg + directory, then the calls *)
          let r = parse_run () in
          let nops = next_int () in
          let faults () = match next () with "-" -> [] | s -> Stdlib.List.init (String.length s) (fun i -> s.[i] = '1') in
          let ops = Stdlib.List.init nops (fun _ -> ()) |> Stdlib.List.map (fun () ->
            match next () with
            | "N" -> let n = next_int () in let f = faults () in OpN (nat_of_int n, f)
            | "T" -> let v = bytes_of_string (unhex (next ())) in let f = faults () in OpTo (v, f)
            | "P" -> OpPending
            | k -> failwith ("op " ^ k)) in
          let e = { e_cfg = r.run_cfg; e_dir = r.run_dir } in
          let show_tbl t = String.concat " " (Stdlib.List.map show_rev (read_revisions t)) in
          Stdlib.List.iteri (fun i res ->
            match res with
            | ResRun (o, t, es) ->
              Printf.printf "%s op%d outcome=%s events=[%s] table=[%s]\n" id i
                (match o with TNotFound -> "notfound" | TRun ro -> show_outcome ro)
                (String.concat " " (Stdlib.List.map show_event es)) (show_tbl t)
            | ResPending (p, t) ->
              Printf.printf "%s op%d pending=%s table=[%s]\n" id i
                (match p with PFiles fs -> "files:" ^ show_files fs | p -> show_outcome (RPend p)) (show_tbl t))
            (session heq hs (execute_to heq hs) e ops [])
        | "pending" ->
          (* one Pending decision: cfg + files, then a revision table *)
          let r = parse_run () in
          let nrev = next_int () in
          let revs = Stdlib.List.init nrev (fun _ -> ()) |> Stdlib.List.map (fun () ->
            let v = bytes_of_string (unhex (next ())) in
            let a = next_int () in let t = next_int () in
            let k = next_int () in
            { r_version = v; r_applied = nat_of_int a; r_total = nat_of_int t; r_hashes = []; r_err = false; r_kind = n_of_int k }) in
          let (p, w) = pending r.run_cfg r.run_dir revs in
          let ps = match p with
            | PFiles fs -> "files:" ^ show_files fs
            | p -> show_outcome (RPend p) in
          Printf.printf "%s pending=%s baseline=%s\n" id ps
            (match w with None -> "-" | Some r -> hexb r.r_version)
        | "cli" ->
          (* CLI agreement stage: a list of self-contained queries
             (directory, observed database state, command) *)
          let nq = next_int () in
          for q = 0 to nq - 1 do
            let files = parse_files () in
            let has_table = next () = "1" in
            let dirty = next () = "1" in
            let nrev = next_int () in
            let revs = Stdlib.List.init nrev (fun _ -> ()) |> Stdlib.List.map (fun () ->
              let v = bytes_of_string (unhex (next ())) in
              let a = next_int () in let t = next_int () in
              let e = next () = "1" in
              let k = next_int () in
              { r_version = v; r_applied = nat_of_int a; r_total = nat_of_int t; r_hashes = []; r_err = e; r_kind = n_of_int k }) in
            let revs = read_revisions revs in
            let text = match next () with
              | "S" ->
                show_status (report has_table dirty files revs)
              | "A" ->
                let order = match next () with "linear" -> Linear | "linear-skip" -> LinearSkip | "non-linear" -> NonLinear | s -> failwith ("order " ^ s) in
                let baseline = match next () with "-" -> None | h -> Some (bytes_of_string (unhex h)) in
                let allow = next () = "1" in
                let n = next_int () in
                let c = { c_order = order; c_baseline = baseline; c_allow_dirty = allow; c_dirty = dirty } in
                let (p, wr) = apply_plan c (nat_of_int n) files revs in
                Printf.sprintf "plan=%s baseline=%s"
                  (match p with
                   | PFiles fs -> "files:" ^ show_files fs
                   | PNonLinear (s, _) -> "nonlinear:" ^ show_files s
                   | p -> show_outcome (RPend p))
                  (match wr with None -> "-" | Some r -> hexb r.r_version)
              | "T" ->
                let arg = match next () with "-" -> None | h -> Some (bytes_of_string (unhex h)) in
                (match migrate_set arg files revs with
                 | SetOk t -> Printf.sprintf "set=ok table=[%s]" (String.concat " " (Stdlib.List.map (fun r ->
                     Printf.sprintf "%s:%d:%d:%s:%d" (hexb r.r_version) (int_of_nat r.r_applied) (int_of_nat r.r_total) (b2s r.r_err) (int_of_n r.r_kind))
                     (read_revisions t)))
                 | SetNotFound -> "set=notfound"
                 | SetArgs -> "set=args")
              | k -> failwith ("query " ^ k) in
            Printf.printf "%s q%d %s\n" id q text
          done
        | "hist" ->
          (* closed loop: the model threads its own database state through the whole
             operation sequence; each command carries the directory of that moment *)
          let dirty0 = next () = "1" in
          let nq = next_int () in
          let ks = Stdlib.List.init nq (fun _ -> ()) |> Stdlib.List.map (fun () ->
            let files = parse_files () in
            let k = match next () with
              | "S" -> CStatus
              | "A" ->
                let order = match next () with "linear" -> Linear | "linear-skip" -> LinearSkip | "non-linear" -> NonLinear | s -> failwith ("order " ^ s) in
                let baseline = match next () with "-" -> None | h -> Some (bytes_of_string (unhex h)) in
                let allow = next () = "1" in
                let n = next_int () in
                let mode = match next () with "none" -> TxNone | "file" -> TxFile | "all" -> TxAll | s -> failwith ("txmode " ^ s) in
                let dry = next () = "1" in
                CApply (order, baseline, allow, nat_of_int n, mode, dry)
              | "T" -> CSet (match next () with "-" -> None | h -> Some (bytes_of_string (unhex h)))
              | k -> failwith ("command " ^ k) in
            (files, k)) in
          let fails (s : bytes) =
            let t = string_of_bytes s in
            String.length t >= 23 && String.sub t 0 23 = "INSERT INTO missing_tbl" in
          let show_tbl t = String.concat " " (Stdlib.List.map (fun r ->
            Printf.sprintf "%s:%d:%d:%s:%d" (hexb r.r_version) (int_of_nat r.r_applied) (int_of_nat r.r_total) (b2s r.r_err) (int_of_n r.r_kind))
            (read_revisions t)) in
          let res = history heq hs fails ks { db_table = false; db_dirty = dirty0; db_revs = [] } in
          Stdlib.List.iteri (fun q (a, d) ->
            let text = match a with
              | AStatus st -> show_status st
              | AApply (p, wr) ->
                Printf.sprintf "plan=%s baseline=%s table=[%s] dirty=%s"
                  (match p with
                   | PFiles fs -> "files:" ^ show_files fs
                   | PNonLinear (s, _) -> "nonlinear:" ^ show_files s
                   | p -> show_outcome (RPend p))
                  (match wr with None -> "-" | Some r -> hexb r.r_version)
                  (show_tbl d.db_revs) (b2s d.db_dirty)
              | ASet r ->
                Printf.sprintf "set=%s table=[%s]"
                  (match r with SetOk _ -> "ok" | SetNotFound -> "notfound" | SetArgs -> "args")
                  (show_tbl d.db_revs) in
            Printf.printf "%s q%d %s\n" id q text) res
        | m -> failwith ("mode " ^ m)
      end
    done
  with End_of_file -> ())
