(* Extraction of M-EXEC / M-PEND / M-REUSE. ExtrOcamlBasic only: bool, option, unit,
   list, prod, sumbool, sumor map to OCaml's; nat, positive, N stay inductive. *)
Require Extraction.
Require Import ExtrOcamlBasic.
From Atlas Require Import Base.Bytes Exec.ExecModel Exec.PendingModel Exec.RunModel Exec.StatusModel Exec.HistoryModel
  Exec.ReuseModel.
Extraction Language OCaml.
Extraction "model.ml" run_all execute_n pending execute read_revisions report apply_plan migrate_set history
  session execute_to.
