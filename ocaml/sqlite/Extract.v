(* Extraction of M-SQLITE: planner (PlanModel), abstract engine (EngineModel), inspect (InspectModel)
   and the SQLite differ they are composed with.  ExtrOcamlBasic only; nat, positive, N, Z stay inductive. *)
Require Extraction.
Require Import ExtrOcamlBasic.
From Atlas Require Import Base.Bytes Diff.Schema Diff.DiffModel Diff.DiffSqlite Sqlite.PlanModel Sqlite.EngineModel Sqlite.InspectModel.
Extraction Language OCaml.
Extraction "model.ml" sqlite_schema_diff no_skip schema_of PlanChanges diff_and_plan plan_stmts
  empty_db exec exec_all exec_count inspect inspect_schema itoa.
