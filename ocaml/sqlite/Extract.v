(* Extraction of M-SQLITE: planner (PlanModel), abstract engine (EngineModel), inspect (InspectModel)
   and the SQLite differ they are composed with.  ExtrOcamlBasic only; nat, positive, N, Z stay inductive. *)
Require Extraction.
Require Import ExtrOcamlBasic.
From Atlas Require Import Base.Bytes Diff.Schema Diff.DiffModel Diff.DiffSqlite Sqlite.PlanModel Sqlite.EngineModel Sqlite.InspectModel Sqlite.ConvergeSupported Sqlite.EngineRowsProofs Sqlite.ConvergeSyntactic Sqlite.ConvergeFeature Sqlite.ConvergeExported.
Extraction Language OCaml.
Extraction "model.ml" sqlite_schema_diff no_skip schema_of PlanChanges diff_and_plan plan_stmts
  empty_db exec exec_all exec_count inspect inspect_schema itoa supported db_ok_b desired_ok_b compatible_b forget desired_syntactic_b in_feature_set nrm stable_b supported_exported.
