(* Driver for the extracted M-SQLITE model (argv[1] = plan | engine).
   Reads the case file written by harness/cmd/sqlite and prints the model's observation lines in the
   same canonical text as the Go side. *)
open Model

let rec nat_of_int i = if i <= 0 then O else S (nat_of_int (i - 1))
let rec int_of_nat = function O -> 0 | S n -> 1 + int_of_nat n
let rec pos_of_int i = if i = 1 then XH else if i land 1 = 0 then XO (pos_of_int (i lsr 1)) else XI (pos_of_int (i lsr 1))
let n_of_int i = if i = 0 then N0 else Npos (pos_of_int i)
let rec int_of_pos = function XH -> 1 | XO p -> 2 * int_of_pos p | XI p -> 2 * int_of_pos p + 1
let int_of_n = function N0 -> 0 | Npos p -> int_of_pos p
let z_of_int i = if i = 0 then Z0 else if i > 0 then Zpos (pos_of_int i) else Zneg (pos_of_int (-i))
let int_of_z = function Z0 -> 0 | Zpos p -> int_of_pos p | Zneg p -> - (int_of_pos p)

let bytes_of_string (s : string) = Stdlib.List.init (String.length s) (fun i -> n_of_int (Char.code s.[i]))
let string_of_bytes b = String.concat "" (Stdlib.List.map (fun x -> String.make 1 (Char.chr (int_of_n x))) b)
let unhex (h : string) : string =
  if h = "-" then "" else
  String.init (String.length h / 2) (fun i -> Char.chr (int_of_string ("0x" ^ String.sub h (2 * i) 2)))
let hex (s : string) : string =
  if s = "" then "-" else String.concat "" (Stdlib.List.init (String.length s) (fun i -> Printf.sprintf "%02x" (Char.code s.[i])))
let hexb b = hex (string_of_bytes b)
let raw b = string_of_bytes b

let toks = ref [||]
let pos = ref 0
let next () = let t = !toks.(!pos) in incr pos; t
let next_int () = int_of_string (next ())
let next_str () = bytes_of_string (unhex (next ()))
let next_bool () = next () = "1"
let next_opt () = match next () with "~" -> None | h -> Some (bytes_of_string (unhex h))
let times n f = Stdlib.List.init n (fun _ -> ()) |> Stdlib.List.map (fun () -> f ())

(* ---- parsing (the token format of harness/cmd/sqlite/obs.go) ---- *)
let parse_col () =
  let name = next_str () in
  let cls = next_int () in
  let t = next_str () in
  let null = next_bool () in
  let d = match next () with
    | "~" -> None
    | s -> let v = bytes_of_string (unhex (String.sub s 2 (String.length s - 2))) in
           if s.[0] = 'L' then Some (DLit v) else Some (DRaw v) in
  let g = match next () with
    | "~" -> None
    | s -> (match String.split_on_char ':' s with
            | [a; b] -> Some (bytes_of_string (unhex a), bytes_of_string (unhex b))
            | _ -> failwith "gen") in
  let c = next_opt () in
  { c_name = name; c_class = n_of_int cls; c_T = t; c_null = null; c_default = d; c_gen = g; c_comment = c }

let parse_part () =
  let seq = next_int () in
  let desc = next_bool () in
  let c = next_opt () in
  let x = next_opt () in
  { p_seq = n_of_int seq; p_desc = desc; p_col = c; p_expr = x }

let parse_idx () =
  let name = next_str () in
  let u = next_bool () in
  let np = next_int () in
  let parts = times np parse_part in
  let pred = next_opt () in
  let com = next_opt () in
  let org = next_opt () in
  { i_name = name; i_unique = u; i_parts = parts; i_pred = pred; i_comment = com; i_origin = org }

let parse_fk () =
  let sym = next_str () in
  let nc = next_int () in
  let cols = times nc next_str in
  let rt = next_str () in
  let nr = next_int () in
  let rc = times nr next_str in
  let ou = next_str () in
  let od = next_str () in
  { f_symbol = sym; f_cols = cols; f_reftable = rt; f_refcols = rc; f_onupdate = ou; f_ondelete = od }

(* a table, the names of its AUTOINCREMENT columns and its inline UNIQUE constraints *)
let parse_xtable () =
  let name = next_str () in
  let wr = next_bool () in
  let st = next_bool () in
  let nc = next_int () in
  let cols = times nc parse_col in
  let pk = match next () with "~" -> None | "P" -> Some (parse_idx ()) | s -> failwith ("pk " ^ s) in
  let ni = next_int () in
  let idxs = times ni parse_idx in
  let nf = next_int () in
  let fks = times nf parse_fk in
  let nk = next_int () in
  let chks = times nk (fun () -> let n = next_str () in let e = next_str () in { k_name = n; k_expr = e }) in
  let na = next_int () in
  let ai = times na next_str in
  let nu = next_int () in
  let us = times nu (fun () -> let k = next_int () in times k next_str) in
  ({ x_t = { t_name = name; t_without_rowid = wr; t_strict = st; t_cols = cols; t_pk = pk; t_idx = idxs; t_fks = fks; t_checks = chks };
     x_autoinc = ai }, us)

let parse_xschema () =
  let name = next_str () in
  let nt = next_int () in
  let ts = times nt parse_xtable in
  (name, ts)

(* ---- printing ---- *)
let k n = string_of_int (int_of_n n)

let show_change = function
  | AddColumn c -> "+C(" ^ raw c ^ ")"
  | DropColumn c -> "-C(" ^ raw c ^ ")"
  | ModifyColumn (c, b) -> "~C(" ^ raw c ^ ":" ^ k b ^ ")"
  | AddIndex n -> "+I(" ^ raw n ^ ")"
  | DropIndex n -> "-I(" ^ raw n ^ ")"
  | ModifyIndex (n, b) -> "~I(" ^ raw n ^ ":" ^ k b ^ ")"
  | AddPrimaryKey -> "+PK"
  | DropPrimaryKey -> "-PK"
  | ModifyPrimaryKey b -> "~PK(" ^ k b ^ ")"
  | RenameConstraint (a, b) -> "RC(" ^ raw a ^ ">" ^ raw b ^ ")"
  | AddForeignKey s -> "+FK(" ^ raw s ^ ")"
  | DropForeignKey s -> "-FK(" ^ raw s ^ ")"
  | ModifyForeignKey (s, b) -> "~FK(" ^ raw s ^ ":" ^ k b ^ ")"
  | AddCheck (n, e) -> "+CK(" ^ raw n ^ ":" ^ hexb e ^ ")"
  | DropCheck (n, e) -> "-CK(" ^ raw n ^ ":" ^ hexb e ^ ")"
  | ModifyCheck (n, e, n2, e2) -> "~CK(" ^ raw n ^ ":" ^ hexb e ^ ">" ^ raw n2 ^ ":" ^ hexb e2 ^ ")"
  | AddAttr a -> "+A(" ^ k a ^ ")"
  | DropAttr a -> "-A(" ^ k a ^ ")"
  | ModifyAttr a -> "~A(" ^ k a ^ ")"

let show_subs cs = "{" ^ String.concat "," (Stdlib.List.map show_change cs) ^ "}"
let show_schange = function
  | AddTable n -> "+T(" ^ raw n ^ ")"
  | DropTable n -> "-T(" ^ raw n ^ ")"
  | ModifyTable (n, cs) -> "~T(" ^ raw n ^ ")" ^ show_subs cs
let show_changes = function
  | None -> "err"
  | Some [] -> "[]"
  | Some cs -> String.concat ";" (Stdlib.List.map show_schange cs)

let b01 b = if b then "1" else "0"
let opt_tok = function None -> "~" | Some b -> hexb b

(* canonical tokens of an inspected schema: tables and indexes sorted by name *)
let tok_col c =
  let d = match c.c_default with None -> "~" | Some (DLit v) -> "L:" ^ hexb v | Some (DRaw v) -> "R:" ^ hexb v in
  let g = match c.c_gen with None -> "~" | Some (x, t) -> hexb x ^ ":" ^ hexb t in
  [hexb c.c_name; k c.c_class; hexb c.c_T; b01 c.c_null; d; g; opt_tok c.c_comment]
let tok_idx i =
  [hexb i.i_name; b01 i.i_unique; string_of_int (Stdlib.List.length i.i_parts)]
  @ Stdlib.List.concat_map (fun p -> [k p.p_seq; b01 p.p_desc; opt_tok p.p_col; opt_tok p.p_expr]) i.i_parts
  @ [opt_tok i.i_pred; opt_tok i.i_comment; opt_tok i.i_origin]
let tok_fk f =
  [hexb f.f_symbol; string_of_int (Stdlib.List.length f.f_cols)] @ Stdlib.List.map hexb f.f_cols
  @ [hexb f.f_reftable; string_of_int (Stdlib.List.length f.f_refcols)] @ Stdlib.List.map hexb f.f_refcols
  @ [hexb f.f_onupdate; hexb f.f_ondelete]
let tok_xtable x =
  let t = x.x_t in
  let idxs = Stdlib.List.sort (fun a b -> compare (raw a.i_name) (raw b.i_name)) t.t_idx in
  [hexb t.t_name; b01 t.t_without_rowid; b01 t.t_strict; string_of_int (Stdlib.List.length t.t_cols)]
  @ Stdlib.List.concat_map tok_col t.t_cols
  @ (match t.t_pk with None -> ["~"] | Some p -> "P" :: tok_idx p)
  @ [string_of_int (Stdlib.List.length idxs)] @ Stdlib.List.concat_map tok_idx idxs
  @ [string_of_int (Stdlib.List.length t.t_fks)] @ Stdlib.List.concat_map tok_fk t.t_fks
  @ [string_of_int (Stdlib.List.length t.t_checks)] @ Stdlib.List.concat_map (fun c -> [hexb c.k_name; hexb c.k_expr]) t.t_checks
  @ [string_of_int (Stdlib.List.length x.x_autoinc)] @ Stdlib.List.map hexb x.x_autoinc
let tok_xschema (xs : xtable list) =
  let xs = Stdlib.List.sort (fun a b -> compare (raw a.x_t.t_name) (raw b.x_t.t_name)) xs in
  String.concat " " (string_of_int (Stdlib.List.length xs) :: Stdlib.List.concat_map tok_xtable xs)

(* statement skeletons *)
let show_sexpr = function
  | XCol c -> raw c
  | XIfNull (c, x) -> "IFNULL(" ^ raw c ^ "," ^ hexb x ^ ")"
let show_stmt = function
  | SCreateTable (x, _) -> "CT(" ^ raw x.x_t.t_name ^ ")"
  | SDropTable n -> "DT(" ^ raw n ^ ")"
  | SRenameTable (a, b) -> "RT(" ^ raw a ^ ">" ^ raw b ^ ")"
  | SAddColumn (t, c, _) -> "AC(" ^ raw t ^ "." ^ raw c.c_name ^ ")"
  | SDropColumn (t, c) -> "DC(" ^ raw t ^ "." ^ raw c ^ ")"
  | SRenameColumn (t, a, b) -> "RC(" ^ raw t ^ "." ^ raw a ^ ">" ^ raw b ^ ")"
  | SCreateIndex (t, i) -> "CI(" ^ raw t ^ "." ^ raw i.i_name ^ ":" ^ b01 i.i_unique ^ ")"
  | SDropIndex n -> "DI(" ^ raw n ^ ")"
  | SCopyRows (t, tc, f, fe) ->
      "CP(" ^ raw t ^ "<" ^ raw f ^ ":" ^ String.concat "," (Stdlib.List.map raw tc) ^ "|" ^ String.concat "," (Stdlib.List.map show_sexpr fe) ^ ")"
  | SPragmaFK on -> "FK(" ^ b01 on ^ ")"
let show_kind = function
  | CmCreateTable -> "create-table" | CmDropTable -> "drop-table"
  | CmDropAfterCopy true -> "drop-after-copy" | CmDropAfterCopy false -> "drop-without-copy"
  | CmRenameTemp -> "rename-temp" | CmAddColumn -> "add-column" | CmCreateIndex -> "create-index"
  | CmDropIndex -> "drop-index" | CmCopyRows -> "copy-rows" | CmFKOff -> "fk-off" | CmFKOn -> "fk-on"
(* the body of CREATE TABLE as the planner hands it to the engine *)
let show_create x =
  let t = x.x_t in
  "cols=" ^ String.concat "," (Stdlib.List.map (fun c -> raw c.c_name) t.t_cols)
  ^ " pk=" ^ (match t.t_pk with None -> "~" | Some p -> String.concat "," (Stdlib.List.map (fun p -> match p.p_col with Some c -> raw c | None -> "?") p.i_parts))
  ^ " fks=" ^ String.concat "," (Stdlib.List.map (fun f -> raw f.f_symbol) t.t_fks)
  ^ " checks=" ^ string_of_int (Stdlib.List.length t.t_checks)
  ^ " wr=" ^ b01 t.t_without_rowid ^ " strict=" ^ b01 t.t_strict
  ^ " ai=" ^ String.concat "," (Stdlib.List.map raw (Stdlib.List.filter (fun a -> Stdlib.List.exists (fun c -> c.c_name = a) t.t_cols) x.x_autoinc))

let print_plan id (p : plan option) =
  match p with
  | None -> Printf.printf "%s P err\n" id
  | Some p ->
    Printf.printf "%s P rev=%s tx=%s n=%d\n" id (b01 p.p_reversible) (b01 p.p_transactional) (Stdlib.List.length p.p_changes);
    Stdlib.List.iteri (fun i c ->
      Printf.printf "%s C%d %s ; R=%s ; K=%s%s\n" id i (show_stmt c.pc_cmd)
        (String.concat "," (Stdlib.List.map show_stmt c.pc_reverse)) (show_kind c.pc_comment)
        (match c.pc_cmd with SCreateTable (x, _) -> " ; " ^ show_create x | _ -> "")) p.p_changes

(* ---- rows ---- *)
let parse_value () =
  let t = next () in
  match t.[0] with
  | 'N' -> VNull
  | 'I' -> VInt (z_of_int (int_of_string (String.sub t 1 (String.length t - 1))))
  | 'T' -> VText (bytes_of_string (unhex (String.sub t 1 (String.length t - 1))))
  | _ -> failwith ("value " ^ t)
let show_value = function
  | VNull -> "N"
  | VInt z -> "I" ^ string_of_int (int_of_z z)
  | VText b -> "T" ^ hexb b
  | VBlob b -> "B" ^ hexb b
  | VReal b -> "F" ^ hexb b
  | VExpr b -> "X" ^ hexb b

let show_rows (d : db) =
  let ts = Stdlib.List.sort (fun a b -> compare (raw a.ct_x.x_t.t_name) (raw b.ct_x.x_t.t_name)) d.db_tables in
  String.concat " " (Stdlib.List.map (fun ct ->
    let t = ct.ct_x.x_t in
    let stored = Stdlib.List.filter (fun c -> c.c_gen = None) t.t_cols in
    let rows = Stdlib.List.map (fun (r : (z * (n list * value) list)) ->
        String.concat "," (Stdlib.List.map (fun c ->
          match Stdlib.List.find_opt (fun (n, _) -> n = c.c_name) (snd r) with
          | Some (_, v) -> show_value v | None -> "N") stored)) ct.ct_rows in
    let rows = Stdlib.List.sort compare rows in
    raw t.t_name ^ "[" ^ String.concat ";" rows ^ "]") ts)

let () =
  let mode = if Array.length Sys.argv > 1 then Sys.argv.(1) else "plan" in
  (try
    while true do
      let line = input_line stdin in
      if line <> "" then begin
        toks := Array.of_list (Stdlib.List.filter (fun s -> s <> "") (String.split_on_char ' ' line));
        pos := 0;
        let id = next () in
        let op = next () in
        match mode, op with
        | "plan", "P" ->
          let (n1, from) = parse_xschema () in
          let (_, to_) = parse_xschema () in
          let fx = Stdlib.List.map fst from and tx = Stdlib.List.map fst to_ in
          let cs = sqlite_schema_diff no_skip (schema_of n1 fx) (schema_of n1 tx) in
          Printf.printf "%s D %s\n" id (show_changes cs);
          (match cs with
           | None -> Printf.printf "%s P err\n" id
           | Some cs -> print_plan id (planChanges fx tx cs))
        | ("sup", "E") | ("sup", "X") ->
          (* not a correspondence mode: is the case inside the domain of theorem C01_converges_rows ? *)
          let fk = next_bool () in
          let (_, a) = parse_xschema () in
          let setup = Stdlib.List.concat_map (fun ((x : xtable), us) ->
              let t = x.x_t in
              SCreateTable ({ x with x_t = { t with t_idx = [] } }, us)
              :: Stdlib.List.map (fun i -> SCreateIndex (t.t_name, i)) t.t_idx) a in
          let d0 = { db_tables = []; db_fk = fk; db_tx = false } in
          let nrows = next_int () in
          let _ = times nrows (fun () ->
              let _ = next_str () in let _ = next_int () in let nc = next_int () in
              times nc (fun () -> let _ = next_str () in let _ = parse_value () in ())) in
          let (_, b) = parse_xschema () in
          let bx = Stdlib.List.map fst b in
          (match exec_all d0 setup with
           | Err _ -> Printf.printf "%s SUP setup-err\n" id
           | Ok d1 ->
             Printf.printf "%s SUP db=%s desired=%s compat=%s all=%s syntactic=%s feature=%s stable=%s exported=%s\n" id (b01 (db_ok_b d1))
               (b01 (Stdlib.List.for_all desired_ok_b bx)) (b01 (compatible_b d1 bx)) (b01 (supported d1 bx))
               (b01 (Stdlib.List.for_all desired_syntactic_b bx)) (b01 (in_feature_set d1 bx))
               (b01 (stable_b bx)) (b01 (supported_exported d1 bx)))
        | ("engine", "E") | ("updown", "U") | ("exported", "X") ->
          let fk = next_bool () in
          let (n1, a) = parse_xschema () in
          (* setup: CREATE TABLE (with inline uniques) + CREATE INDEX per table, in order *)
          let setup = Stdlib.List.concat_map (fun ((x : xtable), us) ->
              let t = x.x_t in
              SCreateTable ({ x with x_t = { t with t_idx = [] } }, us)
              :: Stdlib.List.map (fun i -> SCreateIndex (t.t_name, i)) t.t_idx) a in
          let d0 = { db_tables = []; db_fk = fk; db_tx = false } in
          let nrows = next_int () in
          let rows = times nrows (fun () ->
              let tn = next_str () in
              let rid = next_int () in
              let nc = next_int () in
              let cells = times nc (fun () -> let c = next_str () in let v = parse_value () in (c, v)) in
              (tn, (z_of_int rid, cells))) in
          let (_, b) = parse_xschema () in
          let bx = Stdlib.List.map fst b in
          (match exec_all d0 setup with
           | Err _ -> Printf.printf "%s S0 err\n" id
           | Ok d1 ->
             Printf.printf "%s S0 ok\n" id;
             let d1 = { d1 with db_tables = Stdlib.List.map (fun ct ->
                 { ct with ct_rows = Stdlib.List.filter_map (fun (tn, r) -> if tn = ct.ct_x.x_t.t_name then Some r else None) rows }) d1.db_tables } in
             let ia = inspect d1 in
             Printf.printf "%s I0 %s\n" id (tok_xschema ia);
             let cs = sqlite_schema_diff no_skip (schema_of n1 ia) (schema_of n1 bx) in
             Printf.printf "%s D %s\n" id (show_changes cs);
             (match cs with
              | None -> Printf.printf "%s AP plan-err\n" id
              | Some cs ->
                match planChanges ia bx cs with
                | None -> Printf.printf "%s AP plan-err\n" id
                | Some p ->
                  let ((d2, kk), e) = exec_count d1 (plan_stmts p) O in
                  (match e with
                   | None -> Printf.printf "%s AP ok\n" id
                   | Some _ -> Printf.printf "%s AP err@%d\n" id (int_of_nat kk));
                  (* exported: the desired graph after diff + plan = [nrm] (Normalize / addIndexes rename in place) *)
                  if mode = "exported" then
                    Printf.printf "%s NB %s\n" id (String.concat ";" (Stdlib.List.map (fun (x : xtable) ->
                      hexb x.x_t.t_name ^ ":" ^ String.concat "," (Stdlib.List.map (fun i -> hexb i.i_name) x.x_t.t_idx)) (nrm bx)));
                  let ib = inspect d2 in
                  Printf.printf "%s I1 %s\n" id (tok_xschema ib);
                  Printf.printf "%s R1 %s\n" id (show_rows d2);
                  Printf.printf "%s FK1 %s\n" id (b01 d2.db_fk);
                  Printf.printf "%s D2 %s\n" id (show_changes (sqlite_schema_diff no_skip (schema_of n1 ib) (schema_of n1 bx)));
                  if mode = "updown" then begin
                    if e <> None then Printf.printf "%s DN skipped\n" id
                    else if not p.p_reversible then Printf.printf "%s DN irreversible\n" id
                    else begin
                      let down = Stdlib.List.concat_map (fun c -> c.pc_reverse) (Stdlib.List.rev p.p_changes) in
                      let ((d3, k3), e3) = exec_count d2 down O in
                      (match e3 with
                       | None -> Printf.printf "%s DN ok\n" id
                       | Some _ -> Printf.printf "%s DN err@%d\n" id (int_of_nat k3));
                      Printf.printf "%s I2 %s\n" id (tok_xschema (inspect d3));
                      Printf.printf "%s R2 %s\n" id (show_rows d3)
                    end
                  end))
        | m, o -> failwith ("mode/op " ^ m ^ "/" ^ o)
      end
    done
  with End_of_file -> ())
