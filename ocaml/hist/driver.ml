(* Driver for the extracted M-EDIT model (C12, stages wsapi / wscli).
   Reads the histories the Go harness wrote (one per line) and prints the model's
   observations in the canonical text the harness prints for the real runs.
   The hash instance is the one of EditModel: the table holds the *stored text*
   "h1:" ^ base64(sha256(concatenated statement texts)) (hs_stored, extracted),
   compared with stored_eqb (extracted: TrimPrefix "h1:"). *)
open Model

let rec nat_of_int i = if i <= 0 then O else S (nat_of_int (i - 1))
let rec int_of_nat = function O -> 0 | S n -> 1 + int_of_nat n
let rec pos_of_int i = if i = 1 then XH else if i land 1 = 0 then XO (pos_of_int (i lsr 1)) else XI (pos_of_int (i lsr 1))
let n_of_int i = if i = 0 then N0 else Npos (pos_of_int i)
let rec int_of_pos = function XH -> 1 | XO p -> 2 * int_of_pos p | XI p -> 2 * int_of_pos p + 1
let int_of_n = function N0 -> 0 | Npos p -> int_of_pos p

let bytes_of_string (s : string) : bytes =
  Stdlib.List.init (String.length s) (fun i -> n_of_int (Char.code s.[i]))
let string_of_bytes (b : bytes) : string =
  String.concat "" (Stdlib.List.map (fun x -> String.make 1 (Char.chr (int_of_n x))) b)
let unhex (h : string) : string =
  if h = "-" then "" else
  String.init (String.length h / 2) (fun i -> Char.chr (int_of_string ("0x" ^ String.sub h (2 * i) 2)))
let hex (s : string) : string =
  if s = "" then "-" else String.concat "" (Stdlib.List.init (String.length s) (fun i -> Printf.sprintf "%02x" (Char.code s.[i])))
let hexb b = hex (string_of_bytes b)
let b2s b = if b then "1" else "0"

(* the hash instance: stored texts *)
let raw (b : bytes) : bytes = bytes_of_string (Sha256.hs (string_of_bytes b))
let hs (b : bytes) : bytes = hs_stored raw b
let heq (a : bytes) (b : bytes) : bool = stored_eqb a b
let trimmed (h : bytes) = string_of_bytes (trim_prefix h h1_prefix)

let join_or_dash sep = function [] -> "-" | l -> String.concat sep l

(* version:applied:total:hashes("h1:" trimmed):err:type *)
let show_rev r =
  Printf.sprintf "%s:%d:%d:%s:%s:%d" (hexb r.r_version) (int_of_nat r.r_applied) (int_of_nat r.r_total)
    (join_or_dash "," (Stdlib.List.map trimmed r.r_hashes)) (b2s r.r_err) (int_of_n r.r_kind)
(* version:applied:total:#partial_hashes:error:type *)
let show_row r =
  Printf.sprintf "%s:%d:%d:%d:%s:%d" (hexb r.r_version) (int_of_nat r.r_applied) (int_of_nat r.r_total)
    (Stdlib.List.length r.r_hashes) (b2s r.r_err) (int_of_n r.r_kind)
(* the stored texts verbatim, revision by revision *)
let show_raw t =
  String.concat " " (Stdlib.List.map (fun r -> join_or_dash "," (Stdlib.List.map string_of_bytes r.r_hashes)) t)

let show_event = function
  | EExec (_, _, s, ok) -> Printf.sprintf "x:%s:%s" (hexb s) (b2s ok)
  | EWrite (r, ok) -> Printf.sprintf "w:%s:%s" (show_rev r) (b2s ok)

let show_exec = function
  | ODone -> "done" | OStmtErr -> "stmterr" | OWriteErr -> "writeerr"
  | OHistory i -> Printf.sprintf "history:%d" (int_of_nat i) | OPanic -> "panic"
let show_run_outcome = function
  | RExec o -> show_exec o
  | RPend PNoPending -> "nopending"
  | RPend _ -> "pend"
let show_cli_outcome = function
  | CReadErr -> "readerr"
  | CPend PNoPending -> "nopending"
  | CPend _ -> "pend"
  | CRun SReadErr -> "readerr"
  | CRun (SExec o) -> show_exec o

(* what the name means: version/description, file by file *)
let show_names (d : nfile list) =
  String.concat "," (Stdlib.List.map (fun f -> hexb (version_of_name f.nf_name) ^ "/" ^ hexb (desc_of_name f.nf_name)) d)

let toks = ref [||]
let pos = ref 0
let next () = let t = !toks.(!pos) in incr pos; t
let next_int () = int_of_string (next ())

let parse_files () : nfile list =
  let nfiles = next_int () in
  Stdlib.List.init nfiles (fun _ -> ()) |> Stdlib.List.map (fun () ->
    let n = bytes_of_string (unhex (next ())) in
    let ck = next () = "1" in
    let ns = next_int () in
    let stmts = Stdlib.List.init ns (fun _ -> ()) |> Stdlib.List.map (fun () -> bytes_of_string (unhex (next ()))) in
    { nf_name = n; nf_stmts = stmts; nf_ckpt = ck })
let parse_faults () = match next () with "-" -> [] | s -> Stdlib.List.init (String.length s) (fun i -> s.[i] = '1')

let () =
  let mode = if Array.length Sys.argv > 1 then Sys.argv.(1) else "api" in
  (try
    while true do
      let line = input_line stdin in
      if line <> "" then begin
        toks := Array.of_list (Stdlib.List.filter (fun s -> s <> "") (String.split_on_char ' ' line));
        pos := 0;
        let id = next () in
        let nruns = next_int () in
        match mode with
        | "api" ->
          let runs = Stdlib.List.init nruns (fun _ -> ()) |> Stdlib.List.map (fun () ->
            let faults = parse_faults () in
            let files = parse_files () in
            { nr_dir = files; nr_faults = faults }) in
          let res = nrun_all heq hs runs [] in
          Stdlib.List.iteri (fun i (((o, t), es), r) ->
            let t = read_revisions t in
            Printf.printf "%s run%d outcome=%s events=[%s] table=[%s] raw=[%s] names=[%s]\n" id i (show_run_outcome o)
              (String.concat " " (Stdlib.List.map show_event es))
              (String.concat " " (Stdlib.List.map show_rev t)) (show_raw t) (show_names r.nr_dir))
            (Stdlib.List.combine res runs)
        | "cli" ->
          let runs = Stdlib.List.init nruns (fun _ -> ()) |> Stdlib.List.map (fun () ->
            let txfile = match next () with "none" -> false | "file" -> true | s -> failwith ("txmode " ^ s) in
            let order = match next () with "linear" -> Linear | "linear-skip" -> LinearSkip | "non-linear" -> NonLinear | s -> failwith ("order " ^ s) in
            let faults = parse_faults () in
            let files = parse_files () in
            { ncr_txfile = txfile; ncr_order = order; ncr_dir = files; ncr_faults = faults }) in
          let res = ncli_history heq hs runs [] in
          let last_t = ref [] in
          Stdlib.List.iteri (fun i (((o, t), j), r) ->
            last_t := t;
            let t = read_revisions t in
            Printf.printf "%s run%d outcome=%s journal=[%s] table=[%s] raw=[%s] names=[%s]\n" id i (show_cli_outcome o)
              (String.concat "," (Stdlib.List.map (fun (_, s) -> hexb s) j))
              (String.concat " " (Stdlib.List.map show_row t)) (show_raw t) (show_names r.ncr_dir))
            (Stdlib.List.combine res runs);
          let dir = match Stdlib.List.rev runs with r :: _ -> Stdlib.List.map file_of r.ncr_dir | [] -> [] in
          let st = match report true true dir (read_revisions !last_t) with
            | SOk s -> if s.s_ok then "OK" else "PENDING"
            | _ -> "err" in
          Printf.printf "%s status=%s\n" id st
        | m -> failwith ("mode " ^ m)
      end
    done
  with End_of_file -> ())
