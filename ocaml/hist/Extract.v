(* Extraction of M-EDIT (C12 round 5: named files, the "h1:" text of a stored partial hash)
   on top of M-EXEC / M-PEND / M-STORE. ExtrOcamlBasic only: bool, option, unit, list, prod,
   sumbool, sumor map to OCaml's; nat, positive, N stay inductive. *)
Require Extraction.
Require Import ExtrOcamlBasic.
From Atlas Require Import Base.Bytes Exec.ExecModel Exec.PendingModel Exec.RunModel Exec.StatusModel Exec.StoreModel Exec.EditModel.
Extraction Language OCaml.
Extraction "model.ml" nrun_all ncli_history read_revisions report version_of_name desc_of_name hs_stored stored_eqb trim_prefix h1_prefix file_of.
