(* Extraction of M-GLOB (C19): filepath.Match, schema.ExcludeRealm/ExcludeSchema, and the
   skip filter over the generic differ.  ExtrOcamlBasic only; nat, positive, N stay inductive. *)
Require Extraction.
Require Import ExtrOcamlBasic.
From Atlas Require Import Base.Bytes Diff.Schema Diff.DiffModel Diff.DiffSqlite Excl.Glob Excl.Exclude Excl.Skip Excl.Options Excl.Consumers Excl.ExcludeX.
Extraction Language OCaml.
Extraction "model.ml" Match ExcludeRealm ExcludeSchema sqlite_schema_diff skip_of remove_kinds no_skip sqlite_diff_sequence kinds_of command_diff effective ExcludeRealmX ExcludeSchemaX.
