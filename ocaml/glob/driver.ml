(* Driver for the extracted M-GLOB model (C19).  Reads the case file the Go harness
   (harness/cmd/glob) wrote and prints the model's observations in the same canonical text. *)
open Model

let rec nat_of_int i = if i <= 0 then O else S (nat_of_int (i - 1))
let rec int_of_nat = function O -> 0 | S n -> 1 + int_of_nat n
let rec pos_of_int i = if i = 1 then XH else if i land 1 = 0 then XO (pos_of_int (i lsr 1)) else XI (pos_of_int (i lsr 1))
let n_of_int i = if i = 0 then N0 else Npos (pos_of_int i)
let rec int_of_pos = function XH -> 1 | XO p -> 2 * int_of_pos p | XI p -> 2 * int_of_pos p + 1
let int_of_n = function N0 -> 0 | Npos p -> int_of_pos p

let bytes_of_string (s : string) = Stdlib.List.init (String.length s) (fun i -> n_of_int (Char.code s.[i]))
let string_of_bytes b = String.concat "" (Stdlib.List.map (fun x -> String.make 1 (Char.chr (int_of_n x))) b)
let unhex (h : string) : string =
  if h = "-" then "" else
  String.init (String.length h / 2) (fun i -> Char.chr (int_of_string ("0x" ^ String.sub h (2 * i) 2)))
let hex (s : string) : string =
  if s = "" then "-" else String.concat "" (Stdlib.List.init (String.length s) (fun i -> Printf.sprintf "%02x" (Char.code s.[i])))
let hexb b = hex (string_of_bytes b)

let toks = ref [||]
let pos = ref 0
let next () = let t = !toks.(!pos) in incr pos; t
let next_int () = int_of_string (next ())
let next_str () = bytes_of_string (unhex (next ()))
let next_bool () = next () = "1"
let next_opt () = match next () with "~" -> None | h -> Some (bytes_of_string (unhex h))
let times n f = Stdlib.List.init n (fun _ -> ()) |> Stdlib.List.map (fun () -> f ())

(* the schema format of harness/cmd/diff (ocaml/diff/driver.ml) *)
let parse_col () =
  let name = next_str () in
  let cls = next_int () in
  let t = next_str () in
  let null = next_bool () in
  let d = match next () with
    | "~" -> None
    | s -> let v = bytes_of_string (unhex (String.sub s 2 (String.length s - 2))) in
           if s.[0] = 'L' then Some (DLit v) else Some (DRaw v) in
  let g = match next () with
    | "~" -> None
    | s -> (match String.split_on_char ':' s with
            | [a; b] -> Some (bytes_of_string (unhex a), bytes_of_string (unhex b))
            | _ -> failwith "gen") in
  let c = next_opt () in
  { c_name = name; c_class = n_of_int cls; c_T = t; c_null = null; c_default = d; c_gen = g; c_comment = c }

let parse_part () =
  let seq = next_int () in
  let desc = next_bool () in
  let c = next_opt () in
  let x = next_opt () in
  { p_seq = n_of_int seq; p_desc = desc; p_col = c; p_expr = x }

let parse_idx () =
  let name = next_str () in
  let u = next_bool () in
  let np = next_int () in
  let parts = times np parse_part in
  let pred = next_opt () in
  let com = next_opt () in
  let org = next_opt () in
  { i_name = name; i_unique = u; i_parts = parts; i_pred = pred; i_comment = com; i_origin = org }

let parse_fk () =
  let sym = next_str () in
  let nc = next_int () in
  let cols = times nc next_str in
  let rt = next_str () in
  let nr = next_int () in
  let rc = times nr next_str in
  let ou = next_str () in
  let od = next_str () in
  { f_symbol = sym; f_cols = cols; f_reftable = rt; f_refcols = rc; f_onupdate = ou; f_ondelete = od }

let parse_table () =
  let name = next_str () in
  let wr = next_bool () in
  let st = next_bool () in
  let nc = next_int () in
  let cols = times nc parse_col in
  let pk = match next () with "~" -> None | "P" -> Some (parse_idx ()) | s -> failwith ("pk " ^ s) in
  let ni = next_int () in
  let idxs = times ni parse_idx in
  let nf = next_int () in
  let fks = times nf parse_fk in
  let nk = next_int () in
  let chks = times nk (fun () -> let n = next_str () in let e = next_str () in { k_name = n; k_expr = e }) in
  { t_name = name; t_without_rowid = wr; t_strict = st; t_cols = cols; t_pk = pk; t_idx = idxs; t_fks = fks; t_checks = chks }

let parse_schema () =
  let name = next_str () in
  let nt = next_int () in
  let ts = times nt parse_table in
  { s_name = name; s_tables = ts }

(* canonical text of a realm (same as harness/cmd/glob/exclude.go: showRealm) *)
let show_parts ps =
  String.concat "," (Stdlib.List.map (fun p -> match p.p_col with Some c -> hexb c | None -> "~") ps)
let show_table t =
  Printf.sprintf "T(%s){c=%s;pk=%s;i=%s;f=%s;k=%s}" (hexb t.t_name)
    (String.concat "," (Stdlib.List.map (fun c -> hexb c.c_name) t.t_cols))
    (match t.t_pk with None -> "~" | Some p -> "(" ^ show_parts p.i_parts ^ ")")
    (String.concat "," (Stdlib.List.map (fun i -> hexb i.i_name ^ "(" ^ show_parts i.i_parts ^ ")") t.t_idx))
    (String.concat "," (Stdlib.List.map (fun f -> hexb f.f_symbol ^ "(" ^ String.concat "," (Stdlib.List.map hexb f.f_cols) ^ ")") t.t_fks))
    (String.concat "," (Stdlib.List.map (fun k -> hexb k.k_name) t.t_checks))
let show_realm r =
  String.concat " " (Stdlib.List.map (fun s ->
    Printf.sprintf "S(%s)[%s]" (hexb s.s_name) (String.concat " " (Stdlib.List.map show_table s.s_tables))) r)

let kind_of_name = function
  | "AddAttr" -> KAddAttr
  | "DropAttr" -> KDropAttr
  | "ModifyAttr" -> KModifyAttr
  | "AddSchema" -> KAddSchema
  | "DropSchema" -> KDropSchema
  | "ModifySchema" -> KModifySchema
  | "AddTable" -> KAddTable
  | "DropTable" -> KDropTable
  | "ModifyTable" -> KModifyTable
  | "RenameTable" -> KRenameTable
  | "AddView" -> KAddView
  | "DropView" -> KDropView
  | "ModifyView" -> KModifyView
  | "RenameView" -> KRenameView
  | "AddFunc" -> KAddFunc
  | "DropFunc" -> KDropFunc
  | "ModifyFunc" -> KModifyFunc
  | "RenameFunc" -> KRenameFunc
  | "AddProc" -> KAddProc
  | "DropProc" -> KDropProc
  | "ModifyProc" -> KModifyProc
  | "RenameProc" -> KRenameProc
  | "AddObject" -> KAddObject
  | "DropObject" -> KDropObject
  | "ModifyObject" -> KModifyObject
  | "RenameObject" -> KRenameObject
  | "AddTrigger" -> KAddTrigger
  | "DropTrigger" -> KDropTrigger
  | "ModifyTrigger" -> KModifyTrigger
  | "RenameTrigger" -> KRenameTrigger
  | "AddIndex" -> KAddIndex
  | "DropIndex" -> KDropIndex
  | "ModifyIndex" -> KModifyIndex
  | "RenameIndex" -> KRenameIndex
  | "AddPrimaryKey" -> KAddPrimaryKey
  | "DropPrimaryKey" -> KDropPrimaryKey
  | "ModifyPrimaryKey" -> KModifyPrimaryKey
  | "AddCheck" -> KAddCheck
  | "DropCheck" -> KDropCheck
  | "ModifyCheck" -> KModifyCheck
  | "AddColumn" -> KAddColumn
  | "DropColumn" -> KDropColumn
  | "ModifyColumn" -> KModifyColumn
  | "RenameColumn" -> KRenameColumn
  | "AddForeignKey" -> KAddForeignKey
  | "DropForeignKey" -> KDropForeignKey
  | "ModifyForeignKey" -> KModifyForeignKey
  | "RenameConstraint" -> KRenameConstraint
  | s -> failwith ("kind " ^ s)

let raw b = string_of_bytes b
let k n = string_of_int (int_of_n n)
let show_change = function
  | AddColumn c -> "+C(" ^ raw c ^ ")"
  | DropColumn c -> "-C(" ^ raw c ^ ")"
  | ModifyColumn (c, b) -> "~C(" ^ raw c ^ ":" ^ k b ^ ")"
  | AddIndex n -> "+I(" ^ raw n ^ ")"
  | DropIndex n -> "-I(" ^ raw n ^ ")"
  | ModifyIndex (n, b) -> "~I(" ^ raw n ^ ":" ^ k b ^ ")"
  | AddPrimaryKey -> "+PK"
  | DropPrimaryKey -> "-PK"
  | ModifyPrimaryKey b -> "~PK(" ^ k b ^ ")"
  | RenameConstraint (a, b) -> "RC(" ^ raw a ^ ">" ^ raw b ^ ")"
  | AddForeignKey s -> "+FK(" ^ raw s ^ ")"
  | DropForeignKey s -> "-FK(" ^ raw s ^ ")"
  | ModifyForeignKey (s, b) -> "~FK(" ^ raw s ^ ":" ^ k b ^ ")"
  | AddCheck (n, e) -> "+CK(" ^ raw n ^ ":" ^ hexb e ^ ")"
  | DropCheck (n, e) -> "-CK(" ^ raw n ^ ":" ^ hexb e ^ ")"
  | ModifyCheck (n, e, n2, e2) -> "~CK(" ^ raw n ^ ":" ^ hexb e ^ ">" ^ raw n2 ^ ":" ^ hexb e2 ^ ")"
  | AddAttr a -> "+A(" ^ k a ^ ")"
  | DropAttr a -> "-A(" ^ k a ^ ")"
  | ModifyAttr a -> "~A(" ^ k a ^ ")"
let show_schange = function
  | AddTable n -> "+T(" ^ raw n ^ ")"
  | DropTable n -> "-T(" ^ raw n ^ ")"
  | ModifyTable (n, cs) -> "~T(" ^ raw n ^ "){" ^ String.concat "," (Stdlib.List.map show_change cs) ^ "}"
let show_changes = function
  | None -> "err"
  | Some [] -> "[]"
  | Some cs -> String.concat ";" (Stdlib.List.map show_schange cs)

let show_err = function
  | EBadPattern -> "badpattern" | ETooMany -> "toomany" | ESplit -> "split"
  | EOutside -> "outside-domain" | EInternal -> "internal"

let () =
  let mode = if Array.length Sys.argv > 1 then Sys.argv.(1) else "match" in
  (try
    while true do
      let line = input_line stdin in
      if line <> "" then begin
        toks := Array.of_list (Stdlib.List.filter (fun s -> s <> "") (String.split_on_char ' ' line));
        pos := 0;
        let id = next () in
        match mode with
        | "match" ->
          let p = next_str () in
          let n = next_str () in
          Printf.printf "%s r=%s\n" id
            (match match0 p n with Ok true -> "true" | Ok false -> "false" | Bad -> "bad" | Fuel -> "fuel" | Panic -> "panic")
        | "exclude" ->
          let op = next () in
          let li = next_bool () in
          let lf = next_bool () in
          let np = next_int () in
          let pats = times np next_str in
          let ns = next_int () in
          let r = times ns parse_schema in
          let res =
            if op = "R" then excludeRealm (li, lf) r pats
            else
              let k = int_of_string (String.sub op 1 (String.length op - 1)) in
              excludeSchema (li, lf) r (Stdlib.List.nth r k) pats in
          (match res with
           | EErr e -> Printf.printf "%s err=%s\n" id (show_err e)
           | EOk r' -> Printf.printf "%s ok %s\n" id (show_realm r'))
        | "skip" ->
          let nk = next_int () in
          let ks = times nk (fun () -> kind_of_name (next ())) in
          let from = parse_schema () in
          let to_ = parse_schema () in
          let got = sqlite_schema_diff (skip_of ks) from to_ in
          (* the model's own reference must agree with the model's filtered diff (theorem C19_skip) *)
          let want = (match sqlite_schema_diff no_skip from to_ with None -> None | Some cs -> Some (remove_kinds ks cs)) in
          if show_changes got <> show_changes want then Printf.printf "%s MODEL-REFERENCE-DIFFERS %s\n" id (show_changes want);
          Printf.printf "%s %s\n" id (show_changes got)
        | "skipopts" ->
          (* a sequence of diffs sharing option values: <ncalls> { <nopts> { N | S <nk> <kind>... } } <from> <to> *)
          let nc = next_int () in
          let calls = times nc (fun () ->
            let no = next_int () in
            times no (fun () ->
              match next () with
              | "N" -> ONormalized
              | "S" -> let nk = next_int () in OSkip (times nk (fun () -> kind_of_name (next ())))
              | s -> failwith ("option " ^ s))) in
          let from = parse_schema () in
          let to_ = parse_schema () in
          let got = sqlite_diff_sequence calls from to_ in
          (* theorem C19_skip_options_reusable (1), re-checked on the extracted code *)
          let base = sqlite_schema_diff no_skip from to_ in
          let want = Stdlib.List.map (fun ds -> match base with None -> None | Some cs -> Some (remove_kinds (kinds_of ds) cs)) calls in
          let show l = String.concat " || " (Stdlib.List.map show_changes l) in
          if show got <> show want then Printf.printf "%s MODEL-REFERENCE-DIFFERS %s\n" id (show want);
          Printf.printf "%s %s\n" id (show got)
        | "consumers" ->
          (* <cmd I|D|A|M|C> <nflags> <hex>... (~ | E <n> <hex>...) <from schema> <to schema> *)
          let cmd = next () in
          let nf = next_int () in
          let flags = times nf next_str in
          let env = (match next () with
            | "~" -> None
            | "E" -> let n = next_int () in Some (times n next_str)
            | s -> failwith ("env " ^ s)) in
          let from = parse_schema () in
          let to_ = parse_schema () in
          let c = (match cmd with "I" -> CInspect | "D" -> CDiff | "A" -> CApply | "M" -> CMigrateDiff | "C" -> CClean | s -> failwith ("cmd " ^ s)) in
          let inv = { i_cmd = c; i_flags = flags; i_env = env } in
          let show_tab t =
            Printf.sprintf "T(%s){c=%s;i=%s}" (hexb t.t_name)
              (String.concat "," (Stdlib.List.map (fun c -> hexb c.c_name) t.t_cols))
              (String.concat "," (Stdlib.List.sort compare (Stdlib.List.map (fun i -> hexb i.i_name) t.t_idx))) in
          let show_state r =
            "[" ^ String.concat " " (Stdlib.List.sort compare (Stdlib.List.concat_map (fun s -> Stdlib.List.map show_tab s.s_tables) r)) ^ "]" in
          let atoms = function
            | None -> "differr"
            | Some cs ->
              let a = Stdlib.List.concat_map (function
                | AddTable n -> ["+T(" ^ hexb n ^ ")"]
                | DropTable n -> ["-T(" ^ hexb n ^ ")"]
                | ModifyTable (n, l) -> Stdlib.List.map (fun ch ->
                    let q k x = k ^ "(" ^ hexb n ^ "." ^ hexb x ^ ")" in
                    match ch with
                    | AddColumn x -> q "+C" x | DropColumn x -> q "-C" x | ModifyColumn (x, _) -> q "~C" x
                    | AddIndex x -> q "+I" x | DropIndex x -> q "-I" x | ModifyIndex (x, _) -> q "~I" x
                    | _ -> "?(" ^ hexb n ^ ")") l) cs in
              if a = [] then "-" else String.concat "," (Stdlib.List.sort compare a) in
          (match command_diff inv [from] [to_] with
           | EErr _ -> Printf.printf "%s err\n" id
           | EOk ((f, t), d) ->
             (match cmd with
              | "I" -> Printf.printf "%s ok from=%s\n" id (show_state f)
              | "D" -> Printf.printf "%s ok from=%s to=%s ch=%s\n" id (show_state f) (show_state t) (atoms d)
              | _ -> Printf.printf "%s ok ch=%s\n" id (atoms d)))
        | "excludex" ->
          (* <op R|S<k>> <li> <lf> <npats> <hex>... <xrealm> *)
          let op = next () in
          let li = next_bool () in
          let lf = next_bool () in
          let np = next_int () in
          let pats = times np next_str in
          let strs () = let n = next_int () in times n next_str in
          let objs () = let n = next_int () in times n (fun () ->
            match next () with
            | "~" -> let i = next_int () in { o_spec = None; o_id = n_of_int i }
            | "N" -> let t = next_str () in let nm = next_str () in let i = next_int () in { o_spec = Some (t, nm); o_id = n_of_int i }
            | s -> failwith ("obj " ^ s)) in
          let robjs = objs () in
          let ns = next_int () in
          let schemas = times ns (fun () ->
            let name = next_str () in
            let nt = next_int () in
            let tabs = times nt (fun () -> let t = parse_table () in let g = strs () in { xt_t = t; xt_trigs = g }) in
            let nv = next_int () in
            let views = times nv (fun () -> let n = next_str () in let c = strs () in let g = strs () in { v_name = n; v_cols = c; v_trigs = g }) in
            let funcs = strs () in
            let procs = strs () in
            let o = objs () in
            { xs_name = name; xs_tables = tabs; xs_views = views; xs_funcs = funcs; xs_procs = procs; xs_objects = o }) in
          let r = { xr_objects = robjs; xr_schemas = schemas } in
          let res =
            if op = "R" then excludeRealmX (li, lf) r pats
            else
              let k = int_of_string (String.sub op 1 (String.length op - 1)) in
              excludeSchemaX (li, lf) r (Stdlib.List.nth schemas k) pats in
          let h l = String.concat "," (Stdlib.List.map hexb l) in
          let show_objs l = String.concat "," (Stdlib.List.map (fun o ->
            match o.o_spec with
            | Some (t, n) -> Printf.sprintf "%s:%s#%d" (hexb t) (hexb n) (int_of_n o.o_id)
            | None -> Printf.sprintf "~#%d" (int_of_n o.o_id)) l) in
          (match res with
           | EErr e -> Printf.printf "%s err=%s\n" id (show_err e)
           | EOk r' ->
             let ss = Stdlib.List.map (fun s ->
               Printf.sprintf "S(%s)[%s|g=%s|%s|F=%s|P=%s|O=%s]" (hexb s.xs_name)
                 (String.concat " " (Stdlib.List.map (fun t -> show_table t.xt_t) s.xs_tables))
                 (String.concat ";" (Stdlib.List.map (fun t -> hexb t.xt_t.t_name ^ ":" ^ h t.xt_trigs) s.xs_tables))
                 (String.concat " " (Stdlib.List.map (fun v -> Printf.sprintf "V(%s){c=%s;g=%s}" (hexb v.v_name) (h v.v_cols) (h v.v_trigs)) s.xs_views))
                 (h s.xs_funcs) (h s.xs_procs) (show_objs s.xs_objects)) r'.xr_schemas in
             Printf.printf "%s ok O=%s %s\n" id (show_objs r'.xr_objects) (String.concat " " ss))
        | m -> failwith ("mode " ^ m)
      end
    done
  with End_of_file -> ())
