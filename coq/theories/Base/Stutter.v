(** Stuttering prefixes: [stutter d p j] -- the list [j] is the list [p] in
    which [d] additional adjacent copies of elements were inserted (each copy
    directly after the element it repeats). Used by C09/C10: the journal of all
    attempts is the planned statement list with at most one repeat per failed
    bookkeeping write. *)
From Coq Require Import List Arith Lia.
Import ListNotations.

Inductive stutter {A : Type} : nat -> list A -> list A -> Prop :=
| stutter_nil : stutter 0 [] []
| stutter_new d p j x : stutter d p j -> stutter d (p ++ [x]) (j ++ [x])
| stutter_dup d p j x : stutter d (p ++ [x]) j -> stutter (S d) (p ++ [x]) (j ++ [x]).

(** The declarative reading: element number [i] of [p] occurs [1 + reps[i]]
    times in a row. *)
Definition expand {A : Type} (p : list A) (reps : list nat) : list A :=
  flat_map (fun xn => repeat (fst xn) (S (snd xn))) (combine p reps).

Lemma stutter_app {A} d (p j x : list A) : stutter d p j -> stutter d (p ++ x) (j ++ x).
Proof.
  intros H. induction x as [|y x IH] using rev_ind.
  - rewrite !app_nil_r. exact H.
  - rewrite !app_assoc. apply stutter_new. exact IH.
Qed.

Lemma stutter_zero {A} (p j : list A) : stutter 0 p j -> j = p.
Proof.
  intros H. remember 0 as d eqn:E. induction H as [|d p j x H IH|d p j x H IH].
  - reflexivity.
  - rewrite (IH E). reflexivity.
  - discriminate.
Qed.

Lemma stutter_refl {A} (p : list A) : stutter 0 p p.
Proof. apply (stutter_app 0 [] [] p). constructor. Qed.

Lemma combine_snoc {A B} (p : list A) (q : list B) x y :
  length p = length q -> combine (p ++ [x]) (q ++ [y]) = combine p q ++ [(x, y)].
Proof.
  revert q; induction p as [|a p IH]; intros [|b q] H; simpl in *; try discriminate; [reflexivity|].
  rewrite IH by lia. reflexivity.
Qed.

Lemma repeat_snoc {A} (x : A) n : repeat x (S n) = repeat x n ++ [x].
Proof. induction n as [|n IH]; [reflexivity|]. simpl in *. rewrite <- IH. reflexivity. Qed.

Lemma list_sum_snoc l n : list_sum (l ++ [n]) = list_sum l + n.
Proof. induction l as [|a l IH]; simpl; [lia|]. rewrite IH. lia. Qed.

Lemma stutter_expand {A} d (p j : list A) :
  stutter d p j ->
  exists reps, length reps = length p /\ list_sum reps = d /\ j = expand p reps.
Proof.
  intros H. induction H as [|d p j x H IH|d p j x H IH].
  - exists []. repeat split.
  - destruct IH as (reps & Hl & Hs & ->). exists (reps ++ [0]).
    split; [rewrite !app_length; simpl; lia|]. split; [rewrite list_sum_snoc; lia|].
    unfold expand. rewrite combine_snoc by (symmetry; exact Hl).
    rewrite flat_map_app. simpl. reflexivity.
  - destruct IH as (reps & Hl & Hs & ->).
    destruct (exists_last (l := reps)) as (reps0 & n & ->).
    { intros ->. rewrite app_length in Hl. simpl in Hl. lia. }
    rewrite !app_length in Hl. simpl in Hl.
    exists (reps0 ++ [S n]).
    split; [rewrite !app_length; simpl; lia|].
    split; [rewrite list_sum_snoc in *; lia|].
    unfold expand. rewrite !combine_snoc by lia. rewrite !flat_map_app. simpl.
    rewrite !app_nil_r. rewrite <- app_assoc. f_equal.
    change (x :: x :: repeat x n) with (repeat x (S (S n))).
    rewrite (repeat_snoc x (S n)). reflexivity.
Qed.

(** Every element of [p] occurs in [j], in the order of [p]: nothing is skipped. *)
Lemma stutter_length {A} d (p j : list A) : stutter d p j -> length j = length p + d.
Proof.
  intros H. induction H as [|d p j x H IH|d p j x H IH]; [reflexivity| |].
  - rewrite !app_length, IH. simpl. lia.
  - rewrite app_length, IH. simpl. lia.
Qed.

Lemma stutter_In {A} d (p j : list A) x : stutter d p j -> (In x j <-> In x p).
Proof.
  intros H. induction H as [|d p j y H IH|d p j y H IH]; [reflexivity| |].
  - rewrite !in_app_iff, IH. reflexivity.
  - rewrite in_app_iff, IH, in_app_iff. simpl. tauto.
Qed.

Lemma firstn_add_skipn {A} (l : list A) a b : firstn a l ++ firstn b (skipn a l) = firstn (a + b) l.
Proof.
  revert l; induction a as [|a IH]; intros l; [reflexivity|].
  destruct l as [|x l]; simpl; [rewrite firstn_nil; reflexivity|]. rewrite IH. reflexivity.
Qed.
