(** Byte strings as lists of [N], with boolean equality and the
    lexicographic order Go uses for [string] comparison. Stdlib only. *)
From Coq Require Import List NArith Bool Arith Lia.
Import ListNotations.

Definition bytes := list N.

Fixpoint bytes_eqb (a b : bytes) : bool :=
  match a, b with
  | [], [] => true
  | x :: a', y :: b' => N.eqb x y && bytes_eqb a' b'
  | _, _ => false
  end.

Lemma bytes_eqb_eq a b : bytes_eqb a b = true <-> a = b.
Proof.
  revert b; induction a as [|x a IH]; intros [|y b]; simpl; split; intros H;
    try discriminate; try reflexivity.
  - apply andb_true_iff in H as [H1 H2]. apply N.eqb_eq in H1. apply IH in H2. congruence.
  - inversion H; subst. rewrite N.eqb_refl. simpl. apply IH. reflexivity.
Qed.

Lemma bytes_eqb_refl a : bytes_eqb a a = true.
Proof. apply bytes_eqb_eq; reflexivity. Qed.

Lemma bytes_eqb_neq a b : bytes_eqb a b = false <-> a <> b.
Proof.
  split; intros H.
  - intros E. apply bytes_eqb_eq in E. congruence.
  - destruct (bytes_eqb a b) eqn:E; [apply bytes_eqb_eq in E; contradiction|reflexivity].
Qed.

Lemma bytes_eqb_sym a b : bytes_eqb a b = bytes_eqb b a.
Proof.
  destruct (bytes_eqb a b) eqn:E.
  - apply bytes_eqb_eq in E; subst. symmetry; apply bytes_eqb_refl.
  - symmetry. apply bytes_eqb_neq. apply bytes_eqb_neq in E. congruence.
Qed.

Definition bytes_eq_dec (a b : bytes) : {a = b} + {a <> b}.
Proof. decide equality. apply N.eq_dec. Defined.

(** Lexicographic comparison = Go's [strings.Compare] on byte strings. *)
Fixpoint bytes_compare (a b : bytes) : comparison :=
  match a, b with
  | [], [] => Eq
  | [], _ :: _ => Lt
  | _ :: _, [] => Gt
  | x :: a', y :: b' =>
      match N.compare x y with
      | Eq => bytes_compare a' b'
      | c => c
      end
  end.

Definition bytes_ltb (a b : bytes) : bool :=
  match bytes_compare a b with Lt => true | _ => false end.
Definition bytes_leb (a b : bytes) : bool :=
  match bytes_compare a b with Gt => false | _ => true end.

Lemma bytes_compare_eq a b : bytes_compare a b = Eq <-> a = b.
Proof.
  revert b; induction a as [|x a IH]; intros [|y b]; simpl; split; intros H;
    try discriminate; try reflexivity.
  - destruct (N.compare x y) eqn:C; try discriminate.
    apply N.compare_eq_iff in C. apply IH in H. congruence.
  - inversion H; subst. rewrite N.compare_refl. apply IH. reflexivity.
Qed.

Lemma bytes_compare_refl a : bytes_compare a a = Eq.
Proof. apply bytes_compare_eq; reflexivity. Qed.

Lemma bytes_compare_antisym a b : bytes_compare b a = CompOpp (bytes_compare a b).
Proof.
  revert b; induction a as [|x a IH]; intros [|y b]; simpl; try reflexivity.
  rewrite (N.compare_antisym x y). destruct (N.compare x y); simpl; auto.
Qed.

Lemma bytes_compare_lt_trans a b c :
  bytes_compare a b = Lt -> bytes_compare b c = Lt -> bytes_compare a c = Lt.
Proof.
  revert b c; induction a as [|x a IH]; intros [|y b] [|z c]; simpl; intros H1 H2;
    try discriminate; try reflexivity.
  destruct (N.compare x y) eqn:C1; try discriminate;
  destruct (N.compare y z) eqn:C2; try discriminate.
  - apply N.compare_eq_iff in C1, C2; subst. rewrite N.compare_refl. eapply IH; eauto.
  - apply N.compare_eq_iff in C1; subst. rewrite C2. reflexivity.
  - apply N.compare_eq_iff in C2; subst. rewrite C1. reflexivity.
  - change (x < y)%N in C1. change (y < z)%N in C2.
    assert (x < z)%N as L by lia.
    apply N.compare_lt_iff in L. rewrite L. reflexivity.
Qed.

Lemma bytes_ltb_irrefl a : bytes_ltb a a = false.
Proof. unfold bytes_ltb. rewrite bytes_compare_refl. reflexivity. Qed.

Lemma bytes_ltb_trans a b c : bytes_ltb a b = true -> bytes_ltb b c = true -> bytes_ltb a c = true.
Proof.
  unfold bytes_ltb. intros H1 H2.
  destruct (bytes_compare a b) eqn:E1; try discriminate.
  destruct (bytes_compare b c) eqn:E2; try discriminate.
  rewrite (bytes_compare_lt_trans _ _ _ E1 E2). reflexivity.
Qed.

Lemma bytes_leb_ltb a b : bytes_leb a b = negb (bytes_ltb b a).
Proof.
  unfold bytes_leb, bytes_ltb. rewrite (bytes_compare_antisym a b).
  destruct (bytes_compare a b); reflexivity.
Qed.

Lemma bytes_ltb_neq a b : bytes_ltb a b = true -> a <> b.
Proof. intros H E; subst. rewrite bytes_ltb_irrefl in H. discriminate. Qed.

Lemma bytes_trichotomy a b : bytes_ltb a b = true \/ a = b \/ bytes_ltb b a = true.
Proof.
  unfold bytes_ltb. rewrite (bytes_compare_antisym a b).
  destruct (bytes_compare a b) eqn:E; simpl; auto.
  apply bytes_compare_eq in E; auto.
Qed.
