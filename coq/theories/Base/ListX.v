(** Small list lemmas missing from the 8.16 standard library. *)
From Coq Require Import List Arith Lia.
Import ListNotations.

Lemma nth_error_firstn {A} (l : list A) k j : j < k -> nth_error (firstn k l) j = nth_error l j.
Proof.
  revert k j; induction l as [|a l IH]; intros k j H.
  - rewrite firstn_nil. reflexivity.
  - destruct k as [|k]; [lia|]. destruct j as [|j]; simpl; [reflexivity|]. apply IH; lia.
Qed.

Lemma firstn_S_snoc {A} (l : list A) k x :
  nth_error l k = Some x -> firstn (S k) l = firstn k l ++ [x].
Proof.
  revert k; induction l as [|a l IH]; intros [|k] H; simpl in *; try discriminate.
  - inversion H; reflexivity.
  - f_equal. apply IH; exact H.
Qed.

Lemma nth_error_some_lt {A} (l : list A) k : k < length l -> exists x, nth_error l k = Some x.
Proof.
  intros H. destruct (nth_error l k) eqn:E; [eauto|].
  apply nth_error_None in E. lia.
Qed.

Lemma skipn_nth_cons {A} (l : list A) k x :
  nth_error l k = Some x -> skipn k l = x :: skipn (S k) l.
Proof.
  revert k; induction l as [|a l IH]; intros [|k] H; simpl in *; try discriminate.
  - inversion H; reflexivity.
  - apply IH; exact H.
Qed.

Lemma skipn_length_ge {A} (l : list A) k : length l <= k -> skipn k l = [].
Proof. intros H. apply skipn_all2. exact H. Qed.
