(** Lemmas about the string layer (Hcl/Str.v): decimal printing / parsing,
    lower-casing, field splitting. *)
From Coq Require Import String Ascii.
From Coq Require Import List NArith ZArith Bool Lia.
From Atlas Require Import Base.Bytes Hcl.Str.
Import ListNotations.
Local Open Scope N_scope.

(** ** mem_b *)
Lemma mem_b_In x l : mem_b x l = true -> In x l.
Proof.
  unfold mem_b. intros H. apply existsb_exists in H as [y [Hy E]].
  apply bytes_eqb_eq in E. subst. exact Hy.
Qed.

Lemma In_mem_b x l : In x l -> mem_b x l = true.
Proof.
  intros H. unfold mem_b. apply existsb_exists. exists x. split; [exact H|apply bytes_eqb_refl].
Qed.

(** ** digits *)
Lemma digit_of_is_digit n : is_digit (digit_of n) = true.
Proof.
  unfold is_digit, digit_of.
  assert (n mod 10 < 10) by (apply N.mod_lt; lia).
  generalize dependent (n mod 10). intros m H.
  apply andb_true_iff; split; apply N.leb_le; lia.
Qed.

Lemma val_digits_app ds d : val_digits (ds ++ [d]) = 10 * val_digits ds + (d - 48).
Proof. unfold val_digits. rewrite fold_left_app. reflexivity. Qed.

Lemma all_digits_app a b : all_digits (a ++ b) = all_digits a && all_digits b.
Proof. apply forallb_app. Qed.

(** the digits [itoa_go] puts in front of its accumulator *)
Lemma itoa_go_spec fuel : forall n acc,
  n < 2 ^ N.of_nat fuel -> (0 < fuel)%nat ->
  exists ds, itoa_go fuel n acc = ds ++ acc /\ all_digits ds = true /\ ds <> [] /\ val_digits ds = n.
Proof.
  induction fuel as [|f IH]; intros n acc Hn Hf; [lia|].
  simpl. destruct (n <? 10) eqn:E.
  - apply N.ltb_lt in E. exists [digit_of n]. repeat split.
    + simpl. rewrite digit_of_is_digit. reflexivity.
    + discriminate.
    + unfold val_digits, digit_of. cbn [fold_left]. rewrite N.mod_small by lia. lia.
  - apply N.ltb_ge in E.
    assert (Hf' : (0 < f)%nat).
    { destruct f; [|lia]. simpl in Hn. lia. }
    assert (Hdiv : n / 10 < 2 ^ N.of_nat f).
    { apply N.div_lt_upper_bound; [lia|].
      rewrite Nat2N.inj_succ, N.pow_succ_r' in Hn. lia. }
    destruct (IH (n / 10) (digit_of n :: acc) Hdiv Hf') as [ds [H1 [H2 [H3 H4]]]].
    exists (ds ++ [digit_of n]). repeat split.
    + rewrite H1. rewrite <- app_assoc. reflexivity.
    + rewrite all_digits_app, H2. simpl. rewrite digit_of_is_digit. reflexivity.
    + destruct ds; discriminate.
    + rewrite val_digits_app, H4. unfold digit_of.
      pose proof (N.div_mod n 10 ltac:(lia)) as Hdm.
      generalize dependent (n mod 10). generalize dependent (n / 10). intros q _ _ _ m Hdm. lia.
Qed.

Lemma itoa_n_spec n :
  all_digits (itoa_n n) = true /\ itoa_n n <> [] /\ val_digits (itoa_n n) = n.
Proof.
  unfold itoa_n.
  destruct (itoa_go_spec (S (N.to_nat (N.size n))) n []) as [ds [H1 [H2 [H3 H4]]]].
  - rewrite Nat2N.inj_succ, N2Nat.id, N.pow_succ_r'.
    pose proof (N.size_gt n). lia.
  - lia.
  - rewrite H1, app_nil_r. auto.
Qed.

Lemma all_digits_cons_not_sign d ds : all_digits (d :: ds) = true -> d <> 45 /\ d <> 43.
Proof.
  simpl. intros H. apply andb_true_iff in H as [H _]. unfold is_digit in H.
  apply andb_true_iff in H as [H1 H2]. apply N.leb_le in H1. lia.
Qed.

Lemma atoi_digits s : all_digits s = true -> s <> [] -> atoi s = Some (Z.of_N (val_digits s)).
Proof.
  intros H Hne. destruct s as [|d ds]; [congruence|].
  destruct (all_digits_cons_not_sign _ _ H) as [H1 H2].
  unfold atoi.
  destruct d as [|p]; [simpl in H; discriminate|].
  (* d is neither '-' (45) nor '+' (43): the default branch *)
  assert (E : forall A (a b c : A), match N.pos p with 45 => a | 43 => b | _ => c end = c).
  { intros. destruct p as [p|p|]; try reflexivity;
    repeat (destruct p as [p|p|]; try reflexivity); exfalso; auto. }
  rewrite E. rewrite H. reflexivity.
Qed.

(** strconv.Atoi (strconv.Itoa n) = n for every n >= 0 *)
Lemma atoi_itoa_n n : atoi (itoa_n n) = Some (Z.of_N n).
Proof.
  destruct (itoa_n_spec n) as [H1 [H2 H3]]. rewrite atoi_digits by assumption. rewrite H3. reflexivity.
Qed.

Lemma atoi_itoa_nonneg z : (0 <= z)%Z -> atoi (itoa z) = Some z.
Proof.
  intros H. unfold itoa. destruct z as [|p|p]; try lia.
  - reflexivity.
  - rewrite atoi_itoa_n. rewrite Z2N.id by lia. reflexivity.
Qed.

Lemma is_uint_itoa_nonneg z : (0 <= z)%Z -> is_uint (itoa z) = true /\ itoa z <> [].
Proof.
  intros H. unfold itoa, is_uint. destruct z as [|p|p]; try lia.
  - split; [reflexivity|discriminate].
  - destruct (itoa_n_spec (Z.to_N (Z.pos p))) as [H1 [H2 _]]. auto.
Qed.

(** digits are not separators, not spaces, not upper-case *)
Lemma digit_not_sep c : is_digit c = true -> type_sep c = false.
Proof.
  unfold is_digit, type_sep. intros H. apply andb_true_iff in H as [H1 H2].
  apply N.leb_le in H1, H2.
  repeat (apply orb_false_iff; split); apply N.eqb_neq; lia.
Qed.

Lemma all_digits_no_sep s : all_digits s = true -> forallb (fun c => negb (type_sep c)) s = true.
Proof.
  induction s as [|c s IH]; simpl; [reflexivity|]. intros H.
  apply andb_true_iff in H as [H1 H2]. rewrite (digit_not_sep _ H1). simpl. auto.
Qed.

(** ** fields_func *)
Lemma fields_aux_word sep w : forall s cur,
  forallb (fun c => negb (sep c)) w = true ->
  fields_aux sep (w ++ s) cur = fields_aux sep s (rev w ++ cur).
Proof.
  induction w as [|c w IH]; intros s cur H; simpl in *; [reflexivity|].
  apply andb_true_iff in H as [H1 H2]. apply negb_true_iff in H1. rewrite H1.
  rewrite IH by assumption. rewrite <- app_assoc. reflexivity.
Qed.

(** a word followed by a separator *)
Lemma fields_word_sep sep w c s :
  forallb (fun c => negb (sep c)) w = true -> w <> [] -> sep c = true ->
  fields_func sep (w ++ c :: s) = w :: fields_func sep s.
Proof.
  intros Hw Hne Hc. unfold fields_func. rewrite fields_aux_word by assumption.
  simpl. rewrite Hc. rewrite app_nil_r.
  destruct (rev w) eqn:E.
  - apply (f_equal (@rev N)) in E. rewrite rev_involutive in E. simpl in E. congruence.
  - rewrite <- E, rev_involutive. reflexivity.
Qed.

(** a final word *)
Lemma fields_word_end sep w :
  forallb (fun c => negb (sep c)) w = true -> w <> [] ->
  fields_func sep w = [w].
Proof.
  intros Hw Hne. unfold fields_func.
  rewrite <- (app_nil_r w) at 1. rewrite fields_aux_word by assumption. simpl. rewrite app_nil_r.
  destruct (rev w) eqn:E.
  - apply (f_equal (@rev N)) in E. rewrite rev_involutive in E. simpl in E. congruence.
  - rewrite <- E, rev_involutive. reflexivity.
Qed.

(** leading separators are skipped *)
Lemma fields_sep_skip sep c s : sep c = true -> fields_func sep (c :: s) = fields_func sep s.
Proof. intros H. unfold fields_func. simpl. rewrite H. reflexivity. Qed.

(** ** to_lower *)
Lemma lower_c_idem c : lower_c (lower_c c) = lower_c c.
Proof.
  unfold lower_c. destruct (is_upper c) eqn:E; [|rewrite E; reflexivity].
  unfold is_upper in *. apply andb_true_iff in E as [E1 E2]. apply N.leb_le in E1, E2.
  replace ((65 <=? c + 32) && (c + 32 <=? 90)) with false; [reflexivity|].
  symmetry. apply andb_false_iff. right. apply N.leb_gt. lia.
Qed.

Lemma to_lower_idem s : to_lower (to_lower s) = to_lower s.
Proof. unfold to_lower. rewrite map_map. apply map_ext. apply lower_c_idem. Qed.
