(** C15, MySQL: FormatType/ParseType fixpoint for the well-formed types of the
    dialect (all classes except ENUM/SET value lists), and its refutation in general. *)
From Coq Require Import String.
From Coq Require Import List NArith ZArith Bool Lia.
From Atlas Require Import Base.Bytes Hcl.Str Hcl.StrProofs Hcl.RegistryDefs Hcl.Registry Hcl.TypesMysql.
Import ListNotations.
Import Mysql.
Local Open Scope N_scope.

(** ** parseColumn on name(args) suffix *)
Definition no_slash (s : bytes) : bool := forallb (fun c => negb (c =? 47)) s.

Lemma index_no_slash_aux s : forall i, no_slash s = true -> index_of_aux s (bs "/*") i = None.
Proof.
  induction s as [|c s IH]; intros i H.
  - reflexivity.
  - cbn [no_slash forallb] in H. apply andb_true_iff in H as [H1 H2]. apply negb_true_iff in H1.
    rewrite N.eqb_sym in H1.
    change (index_of_aux (c :: s) (bs "/*") i)
      with (if (47 =? c) && has_prefix s [42] then Some i else index_of_aux s (bs "/*") (S i)).
    rewrite H1. simpl. apply IH. exact H2.
Qed.

Lemma index_no_slash s : no_slash s = true -> index_of s (bs "/*") = None.
Proof. apply index_no_slash_aux. Qed.

Lemma no_slash_app a b : no_slash (a ++ b) = no_slash a && no_slash b.
Proof. apply forallb_app. Qed.

Lemma digits_no_slash s : all_digits s = true -> no_slash s = true.
Proof.
  induction s as [|c s IH]; simpl; [reflexivity|]. intros H. apply andb_true_iff in H as [H1 H2].
  rewrite IH by assumption. unfold is_digit in H1. apply andb_true_iff in H1 as [A B].
  apply N.leb_le in A, B. replace (c =? 47) with false; [reflexivity|]. symmetry. apply N.eqb_neq. lia.
Qed.

Definition word_ok (w : bytes) : bool :=
  forallb (fun c => negb (type_sep c)) w && no_slash w && negb (bytes_eqb w []).

Lemma word_ok_inv w : word_ok w = true ->
  forallb (fun c => negb (type_sep c)) w = true /\ no_slash w = true /\ w <> [].
Proof.
  unfold word_ok. intros H. apply andb_true_iff in H as [H H3]. apply andb_true_iff in H as [H1 H2].
  repeat split; auto. apply negb_true_iff, bytes_eqb_neq in H3. exact H3.
Qed.

Lemma itoa_word z : (0 <= z)%Z ->
  forallb (fun c => negb (type_sep c)) (itoa z) = true /\ no_slash (itoa z) = true /\ itoa z <> []
  /\ is_uint (itoa z) = true /\ atoi (itoa z) = Some z.
Proof.
  intros H. destruct (is_uint_itoa_nonneg z H) as [H1 H2]. repeat split; auto.
  - apply all_digits_no_sep. exact H1.
  - apply digits_no_slash. exact H1.
  - apply atoi_itoa_nonneg. exact H.
Qed.

Lemma digits_neq_word s w : all_digits s = true -> all_digits w = false -> bytes_eqb s w = false.
Proof. intros H1 H2. apply bytes_eqb_neq. intros E. subst. congruence. Qed.

Definition flag (w : bytes) (parts : list bytes) : bool :=
  mem_b w num_names && (bytes_eqb (last parts []) (bs "unsigned") || bytes_eqb (last parts []) (bs "zerofill")).

Local Opaque itoa.

Lemma parseColumn_1 w a sfx sparts :
  word_ok w = true -> (0 <= a)%Z -> no_slash sfx = true -> fields_func type_sep sfx = sparts ->
  parseColumn (w ++ [40] ++ itoa a ++ [41] ++ sfx) =
  Ok (w :: itoa a :: sparts, a, flag w (w :: itoa a :: sparts)).
Proof.
  intros Hw Ha Hs Hf. apply word_ok_inv in Hw as (W1 & W2 & W3).
  destruct (itoa_word a Ha) as (A1 & A2 & A3 & A4 & A5).
  unfold parseColumn. rewrite index_no_slash.
  2:{ rewrite !no_slash_app, W2, A2, Hs. reflexivity. }
  cbn [app].
  rewrite (fields_word_sep type_sep w 40) by (auto; reflexivity).
  rewrite (fields_word_sep type_sep (itoa a) 41) by (auto; reflexivity).
  rewrite Hf. cbn [nth_error]. rewrite A4, A5. reflexivity.
Qed.

Lemma parseColumn_2 w a b sfx sparts :
  word_ok w = true -> (0 <= a)%Z -> (0 <= b)%Z -> no_slash sfx = true -> fields_func type_sep sfx = sparts ->
  parseColumn (w ++ [40] ++ itoa a ++ [44] ++ itoa b ++ [41] ++ sfx) =
  Ok (w :: itoa a :: itoa b :: sparts, a, flag w (w :: itoa a :: itoa b :: sparts)).
Proof.
  intros Hw Ha Hb Hs Hf. apply word_ok_inv in Hw as (W1 & W2 & W3).
  destruct (itoa_word a Ha) as (A1 & A2 & A3 & A4 & A5).
  destruct (itoa_word b Hb) as (B1 & B2 & B3 & B4 & B5).
  unfold parseColumn. rewrite index_no_slash.
  2:{ rewrite !no_slash_app, W2, A2, B2, Hs. reflexivity. }
  cbn [app].
  rewrite (fields_word_sep type_sep w 40) by (auto; reflexivity).
  rewrite (fields_word_sep type_sep (itoa a) 44) by (auto; reflexivity).
  rewrite (fields_word_sep type_sep (itoa b) 41) by (auto; reflexivity).
  rewrite Hf. cbn [nth_error]. rewrite A4, A5. reflexivity.
Qed.

Lemma parseColumn_1n w a :
  word_ok w = true -> (0 <= a)%Z ->
  parseColumn (w ++ [40] ++ itoa a ++ [41]) = Ok ([w; itoa a], a, flag w [w; itoa a]).
Proof.
  intros. change [41] with ([41] ++ @nil N). apply parseColumn_1; auto.
Qed.

Lemma parseColumn_2n w a b :
  word_ok w = true -> (0 <= a)%Z -> (0 <= b)%Z ->
  parseColumn (w ++ [40] ++ itoa a ++ [44] ++ itoa b ++ [41]) = Ok ([w; itoa a; itoa b], a, flag w [w; itoa a; itoa b]).
Proof.
  intros. change [41] with ([41] ++ @nil N). apply parseColumn_2; auto.
Qed.

Lemma itoa_not_unsigned z : (0 <= z)%Z -> bytes_eqb (itoa z) (bs "unsigned") = false.
Proof.
  intros H. destruct (is_uint_itoa_nonneg z H) as [H1 _]. apply digits_neq_word; [exact H1|reflexivity].
Qed.
Lemma itoa_not_zerofill z : (0 <= z)%Z -> bytes_eqb (itoa z) (bs "zerofill") = false.
Proof.
  intros H. destruct (is_uint_itoa_nonneg z H) as [H1 _]. apply digits_neq_word; [exact H1|reflexivity].
Qed.

(** ** well-formed types of the dialect *)
Definition lname (T : bytes) (names : list bytes) : bool := mem_b (to_lower T) names.

Definition wf (t : ty) : bool :=
  match t with
  | BitType T sz => lname T [bs "bit"] && (0 <=? sz)%Z
  | BoolType T => lname T (map bs ["bool"; "boolean"; "tinyint"; "tinyint(1)"]%string)
  | BinaryType T sz => lname T (map bs ["binary"; "varbinary"]%string ++ blob_names)
                       && match sz with Some n => (0 <=? n)%Z | None => true end
  | DecimalType T p s _ => lname T (map bs ["decimal"; "numeric"]%string)   (* p, s: FormatType checks *)
  | FloatType T _ _ => lname T (map bs ["float"; "double"; "real"]%string)
  | IntegerType T _ _ => lname T int_names
  | JSONType T => lname T [bs "json"]
  | StringType T sz => lname T (map bs ["char"; "varchar"]%string ++ text_names) && (0 <=? sz)%Z
  | SpatialType T => lname T spatial_names
  | TimeType T p _ => lname T time_names
  | UUIDType T => lname T [bs "uuid"]
  | NetworkType T => lname T (map bs ["inet4"; "inet6"]%string)
  | UnsupportedType _ => true   (* FormatType fails: vacuous *)
  | EnumType _ _ | SetType _ => false   (* value lists: not covered by this theorem *)
  end.

Definition fix_holds (s : bytes) : Prop :=
  exists t', ParseType s = Ok t' /\ FormatType t' = Ok s.

Ltac names H :=
  unfold lname in H; apply mem_b_In in H; simpl in H;
  repeat (destruct H as [H|H]; [symmetry in H|]); try contradiction.

Ltac sym1 w n :=
  match goal with |- context [ParseType ?x] => change x with (w ++ [40] ++ itoa n ++ [41] ++ []) end;
  unfold ParseType; rewrite (parseColumn_1 w n [] []) by auto.

Ltac refold y :=
  match goal with |- context [ParseType ?x] =>
    replace x with y by (repeat (first [rewrite <- app_assoc | progress simpl]); reflexivity) end.

Ltac closed := eexists; split; vm_compute; reflexivity.

Lemma mysql_fix t s : wf t = true -> FormatType t = Ok s -> fix_holds s.
Proof.
  intros Hwf HF. unfold fix_holds. destruct t; cbv beta iota zeta delta [wf FormatType] in Hwf, HF; try discriminate.
  - (* BoolType *)
    names Hwf; rewrite Hwf in HF; inversion HF; subst; closed.
  - (* BinaryType *)
    apply andb_true_iff in Hwf as [Hn Hs].
    destruct Size as [n|].
    + apply Z.leb_le in Hs. names Hn; rewrite Hn in HF; simpl in HF.
      * (* binary *)
        destruct (Z.eqb n 1) eqn:E1; simpl in HF; inversion HF; subst; clear HF; [closed|].
        eexists; split.
        -- sym1 (bs "binary") n. simpl. reflexivity.
        -- simpl. rewrite E1. reflexivity.
      * (* varbinary *)
        inversion HF; subst; clear HF. eexists; split.
        -- sym1 (bs "varbinary") n. simpl. reflexivity.
        -- simpl. reflexivity.
      * inversion HF; subst; closed.
      * inversion HF; subst; closed.
      * inversion HF; subst; closed.
      * inversion HF; subst; closed.
    + names Hn; rewrite Hn in HF; simpl in HF; inversion HF; subst; closed.
  - (* IntegerType *)
    names Hwf; rewrite Hwf in HF; inversion HF; subst; destruct Unsigned; closed.
  - (* StringType *)
    apply andb_true_iff in Hwf as [Hn Hs]. apply Z.leb_le in Hs.
    names Hn; rewrite Hn in HF; simpl in HF; inversion HF; subst; clear HF; try closed.
    + (* char *)
      destruct (0 <? Size)%Z eqn:E; [|closed].
      eexists; split.
      * sym1 (bs "char") Size. simpl. reflexivity.
      * simpl. rewrite E. reflexivity.
    + (* varchar *)
      eexists; split.
      * sym1 (bs "varchar") Size. simpl. reflexivity.
      * simpl. reflexivity.
  - (* TimeType *)
    destruct Precision as [n|].
    + assert (K : forall w, to_lower T = w -> In w time_names ->
                  exists t', ParseType (if (0 <? n)%Z then w ++ paren n else w) = Ok t' /\
                             FormatType t' = Ok (if (0 <? n)%Z then w ++ paren n else w)).
      { intros w _ Hin. destruct (0 <? n)%Z eqn:E.
        - assert (Hn : (0 <= n)%Z) by (apply Z.ltb_lt in E; lia).
          destruct (itoa_word n Hn) as (_ & _ & _ & _ & A5).
          simpl in Hin.
          repeat (destruct Hin as [Hin|Hin];
                  [subst w; eexists; split;
                   [match goal with |- ParseType (?w ++ _) = _ => sym1 w n end; simpl; rewrite A5; reflexivity
                   | simpl; rewrite E; reflexivity]|]).
          contradiction.
        - simpl in Hin. repeat (destruct Hin as [Hin|Hin]; [subst w; closed|]). contradiction. }
      unfold lname in Hwf. apply mem_b_In in Hwf.
      destruct (K (to_lower T) eq_refl Hwf) as [t' [K1 K2]].
      inversion HF; subst. exists t'. split; assumption.
    + names Hwf; rewrite Hwf in HF; simpl in HF; inversion HF; subst; closed.
  - (* FloatType *)
    names Hwf; rewrite Hwf in HF; simpl in HF; inversion HF; subst; clear HF.
    + destruct (24 <? Precision)%Z; destruct Unsigned; closed.
    + destruct Unsigned; closed.
    + destruct Unsigned; closed.
  - (* DecimalType *)
    assert (Hd : to_lower T = bs "decimal" \/ to_lower T = bs "numeric") by (names Hwf; auto).
    assert (HF' : (if (Precision <? 0)%Z || (Scale <? 0)%Z then Err
                   else if (Precision <? Scale)%Z then Err
                   else if Z.eqb Precision 0 && Z.eqb Scale 0 then Ok (uns Unsigned (bs "decimal" ++ paren 10))
                   else if Z.eqb Scale 0 then Ok (uns Unsigned (bs "decimal" ++ paren Precision))
                   else Ok (uns Unsigned (bs "decimal" ++ [40] ++ itoa Precision ++ [44] ++ itoa Scale ++ [41]))) = Ok s).
    { destruct Hd as [Hd|Hd]; rewrite Hd in HF; exact HF. }
    clear HF Hwf Hd.
    destruct ((Precision <? 0)%Z || (Scale <? 0)%Z) eqn:E0; [discriminate|].
    apply orb_false_iff in E0 as [Ep Es]. apply Z.ltb_ge in Ep, Es.
    destruct (Precision <? Scale)%Z eqn:E1; [discriminate|].
    destruct (Z.eqb Precision 0 && Z.eqb Scale 0) eqn:E2.
    { inversion HF'; subst. destruct Unsigned; closed. }
    destruct (Z.eqb Scale 0) eqn:E3.
    + inversion HF'; subst; clear HF'. apply Z.eqb_eq in E3. subst Scale.
      assert (E4 : Z.eqb Precision 0 = false) by (destruct (Z.eqb Precision 0); [discriminate|reflexivity]).
      destruct (itoa_word Precision Ep) as (_ & _ & _ & _ & A5).
      pose proof (itoa_not_unsigned Precision Ep) as NU.
      destruct Unsigned; cbv [uns paren]; rewrite <- ?app_assoc.
      * exists (DecimalType (bs "decimal") Precision 0%Z true). split.
        -- refold (bs "decimal" ++ [40] ++ itoa Precision ++ [41] ++ bs " unsigned"). unfold ParseType.
           rewrite (parseColumn_1 (bs "decimal") Precision (bs " unsigned") [bs "unsigned"]); auto.
           pose proof (itoa_not_zerofill Precision Ep) as NZ.
           unfold bind, opt_num, flag. simpl. simpl in NU, NZ. rewrite ?NU, ?NZ, ?A5. simpl. reflexivity.
        -- simpl. rewrite E1, E4. replace (Precision <? 0)%Z with false by (symmetry; apply Z.ltb_ge; lia).
           simpl. reflexivity.
      * exists (DecimalType (bs "decimal") Precision 0%Z false). split.
        -- refold (bs "decimal" ++ [40] ++ itoa Precision ++ [41]). unfold ParseType.
           rewrite (parseColumn_1n (bs "decimal") Precision); auto.
           pose proof (itoa_not_zerofill Precision Ep) as NZ.
           unfold bind, opt_num, flag. simpl. simpl in NU, NZ. rewrite ?NU, ?NZ, ?A5. simpl. reflexivity.
        -- simpl. rewrite E1, E4. replace (Precision <? 0)%Z with false by (symmetry; apply Z.ltb_ge; lia).
           simpl. reflexivity.
    + inversion HF'; subst; clear HF'.
      destruct (itoa_word Precision Ep) as (_ & _ & _ & _ & A5).
      destruct (itoa_word Scale Es) as (_ & _ & _ & _ & B5).
      pose proof (itoa_not_unsigned Precision Ep) as NU.
      pose proof (itoa_not_unsigned Scale Es) as NU2.
      destruct Unsigned; cbv [uns paren]; rewrite <- ?app_assoc.
      * exists (DecimalType (bs "decimal") Precision Scale true). split.
        -- refold (bs "decimal" ++ [40] ++ itoa Precision ++ [44] ++ itoa Scale ++ [41] ++ bs " unsigned"). unfold ParseType.
           rewrite (parseColumn_2 (bs "decimal") Precision Scale (bs " unsigned") [bs "unsigned"]); auto.
           pose proof (itoa_not_zerofill Scale Es) as NZ.
           unfold bind, opt_num, flag. simpl. simpl in NU, NU2, NZ. rewrite ?NU, ?NU2, ?NZ, ?A5, ?B5. simpl. reflexivity.
        -- simpl. rewrite E1, E3, E2.
           replace (Precision <? 0)%Z with false by (symmetry; apply Z.ltb_ge; lia).
           replace (Scale <? 0)%Z with false by (symmetry; apply Z.ltb_ge; lia). simpl. reflexivity.
      * exists (DecimalType (bs "decimal") Precision Scale false). split.
        -- refold (bs "decimal" ++ [40] ++ itoa Precision ++ [44] ++ itoa Scale ++ [41]). unfold ParseType.
           rewrite (parseColumn_2n (bs "decimal") Precision Scale); auto.
           pose proof (itoa_not_zerofill Scale Es) as NZ.
           unfold bind, opt_num, flag. simpl. simpl in NU, NU2, NZ. rewrite ?NU, ?NU2, ?NZ, ?A5, ?B5. simpl. reflexivity.
        -- simpl. rewrite E1, E3, E2.
           replace (Precision <? 0)%Z with false by (symmetry; apply Z.ltb_ge; lia).
           replace (Scale <? 0)%Z with false by (symmetry; apply Z.ltb_ge; lia). simpl. reflexivity.
  - (* JSONType *) names Hwf; rewrite Hwf in HF; inversion HF; subst; closed.
  - (* SpatialType *) names Hwf; rewrite Hwf in HF; inversion HF; subst; closed.
  - (* UUIDType *) names Hwf; rewrite Hwf in HF; inversion HF; subst; closed.
  - (* BitType *)
    apply andb_true_iff in Hwf as [Hn Hs]. apply Z.leb_le in Hs.
    names Hn; rewrite Hn in HF; inversion HF; subst; clear HF.
    destruct (1 <? Size)%Z eqn:E; [|closed].
    eexists; split.
    + sym1 (bs "bit") Size. simpl. reflexivity.
    + simpl. rewrite E. reflexivity.
  - (* NetworkType *) names Hwf; rewrite Hwf in HF; inversion HF; subst; closed.
Qed.

(** the unrestricted statement is false: an ENUM value ending in a quote *)
Lemma mysql_fix_refuted : exists t s, FormatType t = Ok s /\ ~ fix_holds s.
Proof.
  exists (EnumType (bs "enum") [bs "x'"]), (bs "enum('x'')"). split; [reflexivity|].
  intros [t' [HP HF]]. vm_compute in HP. inversion HP; subst. vm_compute in HF. discriminate.
Qed.

(** ... and so is it for a well-formed-looking name of the wrong class *)
Lemma mysql_fix_refuted_name : exists t s, FormatType t = Ok s /\ ~ fix_holds s.
Proof.
  exists (IntegerType (bs "foo") false []), (bs "foo"). split; [reflexivity|].
  intros [t' [HP HF]]. vm_compute in HP. inversion HP; subst. vm_compute in HF. discriminate.
Qed.

(** ... and for a value that is exactly one comma: quote comma quote is the separator ParseType splits at *)
Lemma mysql_fix_refuted_comma : exists t s, FormatType t = Ok s /\ ~ fix_holds s.
Proof.
  exists (EnumType (bs "enum") [bs ","]), (bs "enum(',')"). split; [reflexivity|].
  intros [t' [HP HF]]. vm_compute in HP. inversion HP; subst. vm_compute in HF. discriminate.
Qed.
