(** M-TYPE, string layer: the Go [strings]/[strconv]/[sqlx] helpers that
    FormatType / ParseType / PrintType use, over byte lists. No proofs here
    (see StrProofs.v).

    Faithful for ASCII input. [strings.ToLower], [unicode.IsDigit] and
    [strings.TrimSpace] are Unicode-aware in Go; the model treats bytes
    >= 128 as opaque (no case, no digit, no space). Type names of the three
    dialects are ASCII. Integers are unbounded (no int64 overflow). *)
From Coq Require Import String Ascii.
From Coq Require Import List NArith ZArith Bool.
From Atlas Require Import Base.Bytes.
Import ListNotations.
Local Open Scope N_scope.

(** Coq string literal -> bytes (only used to write constants readably). *)
Fixpoint bs (s : string) : bytes :=
  match s with
  | EmptyString => []
  | String a s' => N_of_ascii a :: bs s'
  end.

(** outcome of a Go function that may return an error or panic *)
Inductive res (A : Type) : Type :=
| Ok (a : A)
| Err
| Panic.
Arguments Ok {A} a.
Arguments Err {A}.
Arguments Panic {A}.

Definition bind {A B} (r : res A) (f : A -> res B) : res B :=
  match r with Ok a => f a | Err => Err | Panic => Panic end.

(** ** characters *)
Definition is_upper (c : N) : bool := (65 <=? c) && (c <=? 90).
Definition is_digit (c : N) : bool := (48 <=? c) && (c <=? 57).
(* unicode.IsSpace restricted to one-byte runes: \t \n \v \f \r ' ' (0x85 and 0xA0 are
   two-byte in UTF-8 and therefore outside the ASCII model). *)
Definition is_space (c : N) : bool := ((9 <=? c) && (c <=? 13)) || (c =? 32).
Definition lower_c (c : N) : N := if is_upper c then c + 32 else c.

(** strings.ToLower (ASCII) *)
Definition to_lower (s : bytes) : bytes := map lower_c s.

(** ** lists of bytes *)
Fixpoint has_prefix (s p : bytes) : bool :=
  match p, s with
  | [], _ => true
  | x :: p', y :: s' => (x =? y) && has_prefix s' p'
  | _ :: _, [] => false
  end.

Definition has_suffix (s p : bytes) : bool := has_prefix (rev s) (rev p).

Fixpoint drop_while (f : N -> bool) (s : bytes) : bytes :=
  match s with
  | [] => []
  | c :: s' => if f c then drop_while f s' else s
  end.

Fixpoint take_while (f : N -> bool) (s : bytes) : bytes :=
  match s with
  | [] => []
  | c :: s' => if f c then c :: take_while f s' else []
  end.

(** strings.TrimSpace / strings.Trim(s, cutset) for a one-byte cutset *)
Definition trim_right (f : N -> bool) (s : bytes) : bytes := rev (drop_while f (rev s)).
Definition trim_f (f : N -> bool) (s : bytes) : bytes := trim_right f (drop_while f s).
Definition trim_space (s : bytes) : bytes := trim_f is_space s.
Definition trim_c (c : N) (s : bytes) : bytes := trim_f (N.eqb c) s.

(** strings.TrimPrefix / TrimSuffix *)
Definition trim_prefix (s p : bytes) : bytes :=
  if has_prefix s p then skipn (length p) s else s.
Definition trim_suffix (s p : bytes) : bytes :=
  if has_suffix s p then firstn (length s - length p) s else s.

(** strings.FieldsFunc: maximal runs of non-separator bytes *)
Fixpoint fields_aux (sep : N -> bool) (s : bytes) (cur : bytes) : list bytes :=
  match s with
  | [] => match cur with [] => [] | _ => [rev cur] end
  | c :: s' =>
      if sep c then
        match cur with
        | [] => fields_aux sep s' []
        | _ => rev cur :: fields_aux sep s' []
        end
      else fields_aux sep s' (c :: cur)
  end.
Definition fields_func (sep : N -> bool) (s : bytes) : list bytes := fields_aux sep s [].

(** the separator every dialect's column parser uses: ( ) space , *)
Definition type_sep (c : N) : bool := (c =? 40) || (c =? 41) || (c =? 32) || (c =? 44).

(** strings.Join *)
Fixpoint join (sep : bytes) (l : list bytes) : bytes :=
  match l with
  | [] => []
  | [x] => x
  | x :: l' => x ++ sep ++ join sep l'
  end.

(** strings.Split with a non-empty separator *)
Fixpoint split_aux (fuel : nat) (sep : bytes) (s : bytes) (cur : bytes) : list bytes :=
  match fuel with
  | O => [rev cur ++ s]
  | S fuel' =>
      match s with
      | [] => [rev cur]
      | c :: s' =>
          if has_prefix s sep then rev cur :: split_aux fuel' sep (skipn (length sep) s) []
          else split_aux fuel' sep s' (c :: cur)
      end
  end.
Definition split (s sep : bytes) : list bytes := split_aux (S (length s)) sep s [].

(** strings.Index >= 0 / > 0 *)
Fixpoint index_of_aux (s sub : bytes) (i : nat) : option nat :=
  if has_prefix s sub then Some i
  else match s with
       | [] => None
       | _ :: s' => index_of_aux s' sub (S i)
       end.
Definition index_of (s sub : bytes) : option nat := index_of_aux s sub 0.

(** ** numbers *)
Definition digit_of (n : N) : N := 48 + n mod 10.

Fixpoint itoa_go (fuel : nat) (n : N) (acc : bytes) : bytes :=
  match fuel with
  | O => acc
  | S f =>
      let acc' := digit_of n :: acc in
      if n <? 10 then acc' else itoa_go f (n / 10) acc'
  end.

(** strconv.Itoa / fmt "%d" on a non-negative number *)
Definition itoa_n (n : N) : bytes := itoa_go (S (N.to_nat (N.size n))) n [].

(** fmt.Sprintf("%d", z) *)
Definition itoa (z : Z) : bytes :=
  match z with
  | Zneg p => 45 :: itoa_n (Npos p)
  | _ => itoa_n (Z.to_N z)
  end.

Definition all_digits (s : bytes) : bool := forallb is_digit s.

Definition val_digits (s : bytes) : N := fold_left (fun a d => 10 * a + (d - 48)) s 0.

(** strconv.Atoi / ParseInt(s, 10, 64) without the range check: optional sign,
    then one or more decimal digits. *)
Definition atoi (s : bytes) : option Z :=
  match s with
  | 45 :: d => if all_digits d && negb (Nat.eqb (length d) 0) then Some (- Z.of_N (val_digits d))%Z else None
  | 43 :: d => if all_digits d && negb (Nat.eqb (length d) 0) then Some (Z.of_N (val_digits d)) else None
  | _ => if all_digits s && negb (Nat.eqb (length s) 0) then Some (Z.of_N (val_digits s)) else None
  end.

(** sqlx.IsUint: every rune is a digit (true for ""). *)
Definition is_uint (s : bytes) : bool := all_digits s.

(** sql/internal/sqlx.IsQuoted(s, q...) *)
Fixpoint is_quoted_loop (fuel : nat) (q : N) (s : bytes) : bool :=
  (* s = bytes at positions i .. last-1 followed by the byte at [last];
     loop `for i := 1; i < last-1; i++` : stops before the last two bytes *)
  match fuel with
  | O => true
  | S f =>
      match s with
      | c :: ((c1 :: (_ :: _ as r2)) as r1) =>
          (* here i < last-1, since at least c, c1 and the closing byte remain *)
          if c =? 92 then is_quoted_loop f q r2   (* '\\': i++ then loop i++ *)
          else if (c =? q) && (c1 =? q) then is_quoted_loop f q r2
          else if c =? q then false
          else is_quoted_loop f q r1
      | _ => true
      end
  end.

Definition is_quoted_one (s : bytes) (q : N) : option bool :=
  (* None = this quote does not delimit s (continue Top) *)
  match s, rev s with
  | c0 :: body, cl :: _ =>
      if (c0 =? q) && (cl =? q) then Some (is_quoted_loop (length s) q body) else None
  | _, _ => None
  end.

Fixpoint is_quoted_qs (s : bytes) (qs : list N) : bool :=
  match qs with
  | [] => false
  | q :: qs' =>
      match is_quoted_one s q with
      | Some true => true
      | _ => is_quoted_qs s qs'
      end
  end.

Definition is_quoted (s : bytes) (qs : list N) : bool :=
  if Nat.ltb (length s) 2 then false else is_quoted_qs s qs.

(** membership in a list of names *)
Definition mem_b (x : bytes) (l : list bytes) : bool := existsb (bytes_eqb x) l.

(** hexadecimal rendering used by the canonical observation text *)
Definition hex_digit (n : N) : N := if n <? 10 then 48 + n else 87 + n.
Definition hex (s : bytes) : bytes :=
  match s with
  | [] => [45]
  | _ => flat_map (fun c => [hex_digit (c / 16); hex_digit (c mod 16)]) s
  end.
