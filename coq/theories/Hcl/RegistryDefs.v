(** M-TYPE: the data of schemahcl.TypeSpec / TypeAttr / Type / Attr
    (schemahcl/spec.go, schemahcl/types.go). The registries themselves are
    generated: gen/Gen_Registry_{sqlite,mysql,postgres}.v. *)
From Coq Require Import String.
From Coq Require Import List NArith ZArith Bool.
From Atlas Require Import Base.Bytes Hcl.Str.
Import ListNotations.
Local Open Scope N_scope.

(** reflect.Kind of a TypeAttr (only these five are handled by Convert) *)
Inductive kind := KInt | KInt64 | KBool | KString | KSlice | KOther (k : N).

Definition kind_eqb (a b : kind) : bool :=
  match a, b with
  | KInt, KInt | KInt64, KInt64 | KBool, KBool | KString, KString | KSlice, KSlice => true
  | KOther x, KOther y => N.eqb x y
  | _, _ => false
  end.

Record TypeAttr := { ta_name : bytes; ta_kind : kind; ta_required : bool }.

Record TypeSpec := {
  ts_name : bytes;          (* Name: the HCL identifier / function name *)
  ts_T : bytes;             (* T: the database type *)
  ts_attrs : list TypeAttr; (* Attributes *)
  ts_rtype : bytes;         (* RType.String(), "" when nil *)
  ts_from_custom : bool;    (* FromSpec != nil *)
  ts_to_custom : bool;      (* ToSpec != nil *)
  ts_fmt_custom : bool      (* Format != nil *)
}.

Definition mkAttr (n : string) (k : kind) (req : bool) : TypeAttr :=
  {| ta_name := bs n; ta_kind := k; ta_required := req |}.

Definition mkSpec (n t : string) (attrs : list TypeAttr) (rt : string) (from to fmt : bool) : TypeSpec :=
  {| ts_name := bs n; ts_T := bs t; ts_attrs := attrs; ts_rtype := bs rt;
     ts_from_custom := from; ts_to_custom := to; ts_fmt_custom := fmt |}.

(** cty values that occur as type attributes *)
Inductive aval :=
| AInt (z : Z)
| ABool (b : bool)
| AStr (s : bytes)
| AList (l : list bytes).   (* list of strings: enum/set values *)

(** schemahcl.Attr restricted to type attributes / schemahcl.Type *)
Record Attr := { a_K : bytes; a_V : aval }.
Record HType := { h_T : bytes; h_attrs : list Attr }.

(** The value of a struct field as Convert sees it through reflection
    (rv.FieldByName(inflect.Camelize(attr.Name))). *)
Inductive fieldval :=
| FInvalid            (* no such field *)
| FNilPtr             (* nil pointer *)
| FInt (z : Z)        (* int, or non-nil *int after reflect.Indirect: Kind() == reflect.Int *)
| FInt64 (z : Z)
| FBool (b : bool)
| FStr (s : bytes)
| FStrs (l : list bytes)   (* []string *)
| FOther.                  (* any other kind *)

Definition field_kind_matches (f : fieldval) (k : kind) : bool :=
  match f, k with
  | FInt _, KInt | FInt64 _, KInt64 | FBool _, KBool | FStr _, KString | FStrs _, KSlice => true
  | _, _ => false
  end.
