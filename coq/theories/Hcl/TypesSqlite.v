(** M-TYPE, SQLite: the schema.Type classes SQLite uses, FormatType,
    ParseType (sql/sqlite/convert.go), columnParts (sql/sqlite/inspect.go) and
    the instantiation of the registry functions with sqlite.TypeRegistry
    (sql/sqlite/sqlspec.go; dumped to gen/Gen_Registry_sqlite.v).
    No proofs here. *)
From Coq Require Import String.
From Coq Require Import List NArith ZArith Bool.
From Atlas Require Import Base.Bytes Hcl.Str Hcl.RegistryDefs Hcl.Registry gen.Gen_Registry_sqlite.
Import ListNotations.
Local Open Scope N_scope.

(* an inner module, so that the monolithic extraction keeps the dialects apart *)
Module Sqlite.

(** Go struct fields in declaration order (sql/schema/schema.go); Attrs/Schema
    fields that no SQLite code path reads are omitted. *)
Inductive ty :=
| BoolType (T : bytes)
| BinaryType (T : bytes) (Size : option Z)
| EnumType (T : bytes) (Values : list bytes)
| IntegerType (T : bytes) (Unsigned : bool)
| StringType (T : bytes) (Size : Z)
| TimeType (T : bytes) (Precision Scale : option Z)
| FloatType (T : bytes) (Unsigned : bool) (Precision : Z)
| DecimalType (T : bytes) (Precision Scale : Z) (Unsigned : bool)
| JSONType (T : bytes)
| SpatialType (T : bytes)
| UUIDType (T : bytes)
| UnsupportedType (T : bytes)
| UserDefinedType (T : bytes).

(** sqlite.FormatType *)
Definition FormatType (t : ty) : res bytes :=
  match t with
  | BoolType T => Ok (to_lower T)
  | BinaryType T _ => Ok (to_lower T)
  | EnumType T _ => Ok T
  | IntegerType T _ => Ok (to_lower T)
  | StringType T _ => Ok (to_lower T)
  | TimeType T _ _ => Ok (to_lower T)
  | FloatType T _ _ => Ok (to_lower T)
  | DecimalType T _ _ _ => Ok (to_lower T)
  | JSONType T => Ok (to_lower T)
  | SpatialType T => Ok (to_lower T)
  | UUIDType T => Ok (to_lower T)
  | UserDefinedType T => Ok T
  | UnsupportedType _ => Err
  end.

(** columnParts: lower, trim, split at ( ) space , and re-join up to two
    leading non-numeric words ('varying character', 'unsigned big int'). *)
Definition join_step (parts : list bytes) : list bytes :=
  match parts with
  | p0 :: p1 :: rest =>
      if negb (is_uint p0) && negb (is_uint p1) then (p0 ++ [32] ++ p1) :: rest else parts
  | _ => parts
  end.

Definition columnParts (t : bytes) : list bytes :=
  let t := trim_space (to_lower t) in
  join_step (join_step (fields_func type_sep t)).

Definition int_names : list bytes :=
  map bs ["int2"; "int8"; "int"; "uint64"; "integer"; "tinyint"; "smallint"; "mediumint"; "bigint"; "unsigned big int"]%string.
Definition float_names : list bytes := map bs ["real"; "double"; "double precision"; "float"]%string.
Definition decimal_names : list bytes := map bs ["numeric"; "decimal"]%string.
Definition string_names : list bytes :=
  map bs ["char"; "character"; "varchar"; "varying character"; "nchar"; "native character"; "nvarchar"; "text"; "clob"]%string.
Definition json_names : list bytes := map bs ["json"; "jsonb"]%string.
Definition time_names : list bytes := map bs ["date"; "datetime"; "time"; "timestamp"]%string.
Definition bool_names : list bytes := map bs ["bool"; "boolean"]%string.

(** strconv.ParseInt(parts[i], 10, 64) of the optional i-th part *)
Definition opt_int (parts : list bytes) (i : nat) : res Z :=
  match nth_error parts i with
  | None => Ok 0%Z
  | Some p => match atoi p with Some z => Ok z | None => Err end
  end.

(** sqlite.ParseType *)
Definition ParseType (c : bytes) : res ty :=
  match c with
  | [] => Ok (BinaryType (bs "blob") None)
  | _ =>
      match columnParts c with
      | [] => Panic   (* parts[0]: index out of range *)
      | (t :: _) as parts =>
          if mem_b t bool_names then Ok (BoolType t)
          else if bytes_eqb t (bs "blob") then Ok (BinaryType t None)
          else if mem_b t int_names then Ok (IntegerType t false)
          else if mem_b t float_names then Ok (FloatType t false 0)
          else if mem_b t decimal_names then
            bind (opt_int parts 1) (fun p => bind (opt_int parts 2) (fun s => Ok (DecimalType t p s false)))
          else if mem_b t string_names then
            bind (opt_int parts 1) (fun p => Ok (StringType t p))
          else if mem_b t json_names then Ok (JSONType t)
          else if mem_b t time_names then Ok (TimeType t None None)
          else if bytes_eqb t (bs "uuid") then Ok (UUIDType t)
          else Ok (UserDefinedType c)
      end
  end.

(** ** the registry's view of a type (reflection) *)
Definition ty_T (t : ty) : option bytes :=
  match t with
  | BoolType T | BinaryType T _ | EnumType T _ | IntegerType T _ | StringType T _ | TimeType T _ _
  | FloatType T _ _ | DecimalType T _ _ _ | JSONType T | SpatialType T | UUIDType T | UnsupportedType T
  | UserDefinedType T => Some T
  end.

Definition ty_unsupported (t : ty) : option bytes :=
  match t with UnsupportedType T => Some T | _ => None end.

Definition ty_rtype (t : ty) : bytes :=
  bs match t with
     | BoolType _ => "schema.BoolType" | BinaryType _ _ => "schema.BinaryType" | EnumType _ _ => "schema.EnumType"
     | IntegerType _ _ => "schema.IntegerType" | StringType _ _ => "schema.StringType" | TimeType _ _ _ => "schema.TimeType"
     | FloatType _ _ _ => "schema.FloatType" | DecimalType _ _ _ _ => "schema.DecimalType" | JSONType _ => "schema.JSONType"
     | SpatialType _ => "schema.SpatialType" | UUIDType _ => "schema.UUIDType" | UnsupportedType _ => "schema.UnsupportedType"
     | UserDefinedType _ => "sqlite.UserDefinedType"
     end%string.

Definition opt_field (o : option Z) : fieldval := match o with None => FNilPtr | Some z => FInt z end.

(** FieldByName(Camelize(name)): size->Size, precision->Precision, scale->Scale,
    unsigned->Unsigned, values->Values, t->T, attrs->Attrs ([]schema.Attr: other kind). *)
Definition ty_field (t : ty) (name : bytes) : fieldval :=
  let is n := bytes_eqb name (bs n) in
  if is "t"%string then match ty_T t with Some T => FStr T | None => FInvalid end else
  match t with
  | BinaryType _ sz => if is "size"%string then opt_field sz else FInvalid
  | EnumType _ vs => if is "values"%string then FStrs vs else FInvalid
  | IntegerType _ u => if is "unsigned"%string then FBool u else if is "attrs"%string then FOther else FInvalid
  | StringType _ sz => if is "size"%string then FInt sz else if is "attrs"%string then FOther else FInvalid
  | TimeType _ p s => if is "precision"%string then opt_field p else if is "scale"%string then opt_field s
                      else if is "attrs"%string then FOther else FInvalid
  | FloatType _ u p => if is "unsigned"%string then FBool u else if is "precision"%string then FInt p else FInvalid
  | DecimalType _ p s u => if is "precision"%string then FInt p else if is "scale"%string then FInt s
                           else if is "unsigned"%string then FBool u else FInvalid
  | _ => FInvalid
  end.

(** WithFormatter(FormatType): r.spec *)
Definition spec_fn (t : ty) : res HType :=
  bind (FormatType t) (fun s => Ok {| h_T := s; h_attrs := [] |}).

(** sqlite.TypeRegistry has no custom closures *)
Definition no_to (_ : TypeSpec) (_ : ty) : res HType := Err.
Definition no_from (_ : TypeSpec) (_ : HType) : res ty := Err.
Definition no_fmt (_ : TypeSpec) (_ : HType) : res bytes := Err.

Definition reg := registry_sqlite.
Definition Convert := convert ty ty_unsupported ty_T ty_rtype ty_field reg spec_fn no_to.
Definition PrintType := print_type reg.
Definition TypeOf := type_of ty reg ParseType no_from.
Definition HclType := hcl_type reg no_fmt.
Definition HclEval := hcl_eval reg.

(** columnTypeSpec -> hclType -> text -> typeFuncSpecImpl -> convertColumnType
    (SQLite copies no type attribute to the column). *)
Definition roundtrip (t : ty) : res ty :=
  bind (Convert t) (fun h =>
  bind (HclType h) (fun p =>
  match p with
  | PExpr e => bind (HclEval e) (fun h' => TypeOf h' [])
  | PRaw _ => Err
  end)).

(** canonical text, identical to the harness's showType *)
Definition show_opt (o : option Z) : bytes := match o with None => bs "nil" | Some z => itoa z end.
Definition show_b (b : bool) : bytes := if b then [49] else [48].
Definition show_list (l : list bytes) : bytes := bs "[" ++ join [58] (map hex l) ++ bs "]".

Definition show_ty (t : ty) : bytes :=
  match t with
  | BoolType T => bs "schema.BoolType{T=" ++ hex T ++ bs "}"
  | BinaryType T sz => bs "schema.BinaryType{T=" ++ hex T ++ bs ",Size=" ++ show_opt sz ++ bs "}"
  | EnumType T vs => bs "schema.EnumType{T=" ++ hex T ++ bs ",Values=" ++ show_list vs ++ bs "}"
  | IntegerType T u => bs "schema.IntegerType{T=" ++ hex T ++ bs ",Unsigned=" ++ show_b u ++ bs ",Attrs=[]}"
  | StringType T sz => bs "schema.StringType{T=" ++ hex T ++ bs ",Size=" ++ itoa sz ++ bs ",Attrs=[]}"
  | TimeType T p s => bs "schema.TimeType{T=" ++ hex T ++ bs ",Precision=" ++ show_opt p ++ bs ",Scale=" ++ show_opt s ++ bs ",Attrs=[]}"
  | FloatType T u p => bs "schema.FloatType{T=" ++ hex T ++ bs ",Unsigned=" ++ show_b u ++ bs ",Precision=" ++ itoa p ++ bs "}"
  | DecimalType T p s u => bs "schema.DecimalType{T=" ++ hex T ++ bs ",Precision=" ++ itoa p ++ bs ",Scale=" ++ itoa s ++ bs ",Unsigned=" ++ show_b u ++ bs "}"
  | JSONType T => bs "schema.JSONType{T=" ++ hex T ++ bs "}"
  | SpatialType T => bs "schema.SpatialType{T=" ++ hex T ++ bs "}"
  | UUIDType T => bs "schema.UUIDType{T=" ++ hex T ++ bs "}"
  | UnsupportedType T => bs "schema.UnsupportedType{T=" ++ hex T ++ bs "}"
  | UserDefinedType T => bs "sqlite.UserDefinedType{T=" ++ hex T ++ bs "}"
  end.

Definition no_extra (_ : HType) : list Attr := [].
Definition obs_fmt_sqlite := obs_fmt ty FormatType ParseType show_ty.
Definition obs_hcl_sqlite := obs_hcl ty show_ty Convert HclType HclEval TypeOf no_extra.

End Sqlite.
