(** C15, SQLite: FormatType/ParseType fixpoint (exact characterisation). *)
From Coq Require Import String.
From Coq Require Import List NArith ZArith Bool Lia.
From Atlas Require Import Base.Bytes Hcl.Str Hcl.StrProofs Hcl.RegistryDefs Hcl.Registry Hcl.TypesSqlite
  gen.Gen_Registry_sqlite.
Import ListNotations.
Import Sqlite.
Local Open Scope N_scope.

(** the names ParseType's switch knows *)
Definition known_names : list bytes :=
  bool_names ++ [bs "blob"] ++ int_names ++ float_names ++ decimal_names ++ string_names ++ json_names
  ++ time_names ++ [bs "uuid"].

Definition known (p : bytes) : bool := mem_b p known_names.

(** [s] is a well-formed SQLite type text: non-empty, has a first part, and when that
    part is a name ParseType knows, it is the whole text (no parameters, no upper case). *)
Definition name_okb (s : bytes) : bool :=
  negb (bytes_eqb s []) &&
  match columnParts s with
  | [] => false
  | p :: _ => negb (known p) || bytes_eqb p s
  end.

Definition fix_holds (s : bytes) : Prop :=
  exists t', ParseType s = Ok t' /\ FormatType t' = Ok s.

Lemma known_split p :
  known p = mem_b p bool_names || bytes_eqb p (bs "blob") || mem_b p int_names || mem_b p float_names
            || mem_b p decimal_names || mem_b p string_names || mem_b p json_names || mem_b p time_names
            || bytes_eqb p (bs "uuid").
Proof.
  unfold known, known_names, mem_b. rewrite !existsb_app. simpl. rewrite !orb_false_r, !orb_assoc. reflexivity.
Qed.

(** every known name is lower-case and is its own single part *)
Lemma known_names_ok :
  forallb (fun n => bytes_eqb (to_lower n) n && match columnParts n with [p] => bytes_eqb p n | _ => false end)
          known_names = true.
Proof. vm_compute. reflexivity. Qed.

Lemma known_lower p : known p = true -> to_lower p = p.
Proof.
  intros H. apply mem_b_In in H. pose proof known_names_ok as K.
  rewrite forallb_forall in K. apply K in H. apply andb_true_iff in H as [H _].
  apply bytes_eqb_eq in H. exact H.
Qed.

Lemma known_parts p : known p = true -> columnParts p = [p].
Proof.
  intros H. apply mem_b_In in H. pose proof known_names_ok as K.
  rewrite forallb_forall in K. apply K in H. apply andb_true_iff in H as [_ H].
  destruct (columnParts p) as [|q [|? ?]]; try discriminate.
  apply bytes_eqb_eq in H. subst. reflexivity.
Qed.

(** ParseType on a non-empty text whose first part is unknown: user-defined, verbatim *)
Lemma known_false p : known p = false ->
  mem_b p bool_names = false /\ bytes_eqb p (bs "blob") = false /\ mem_b p int_names = false /\
  mem_b p float_names = false /\ mem_b p decimal_names = false /\ mem_b p string_names = false /\
  mem_b p json_names = false /\ mem_b p time_names = false /\ bytes_eqb p (bs "uuid") = false.
Proof.
  rewrite known_split.
  destruct (mem_b p bool_names); [discriminate|].
  destruct (bytes_eqb p (bs "blob")); [discriminate|].
  destruct (mem_b p int_names); [discriminate|].
  destruct (mem_b p float_names); [discriminate|].
  destruct (mem_b p decimal_names); [discriminate|].
  destruct (mem_b p string_names); [discriminate|].
  destruct (mem_b p json_names); [discriminate|].
  destruct (mem_b p time_names); [discriminate|].
  destruct (bytes_eqb p (bs "uuid")); [discriminate|].
  intros _. repeat split; reflexivity.
Qed.

Lemma parse_unknown c p rest :
  c <> [] -> columnParts c = p :: rest -> known p = false -> ParseType c = Ok (UserDefinedType c).
Proof.
  intros Hc Hp Hk. apply known_false in Hk as (H1 & H2 & H3 & H4 & H5 & H6 & H7 & H8 & H9).
  unfold ParseType. destruct c as [|c0 c']; [congruence|]. rewrite Hp.
  rewrite H1, H2, H3, H4, H5, H6, H7, H8, H9. reflexivity.
Qed.

(** ParseType on a text whose first part is known: the class's T is that part *)
Lemma parse_known c p rest t' :
  c <> [] -> columnParts c = p :: rest -> known p = true -> ParseType c = Ok t' ->
  FormatType t' = Ok (to_lower p).
Proof.
  intros Hc Hp Hk HP. unfold ParseType in HP. destruct c as [|c0 c']; [congruence|]. rewrite Hp in HP.
  destruct (mem_b p bool_names) eqn:E1; [inversion HP; reflexivity|].
  destruct (bytes_eqb p (bs "blob")) eqn:E2; [inversion HP; reflexivity|].
  destruct (mem_b p int_names) eqn:E3; [inversion HP; reflexivity|].
  destruct (mem_b p float_names) eqn:E4; [inversion HP; reflexivity|].
  destruct (mem_b p decimal_names) eqn:E5.
  { unfold bind in HP. destruct (opt_int _ 1); try discriminate. destruct (opt_int _ 2); try discriminate.
    inversion HP; reflexivity. }
  destruct (mem_b p string_names) eqn:E6.
  { unfold bind in HP. destruct (opt_int _ 1); try discriminate. inversion HP; reflexivity. }
  destruct (mem_b p json_names) eqn:E7; [inversion HP; reflexivity|].
  destruct (mem_b p time_names) eqn:E8; [inversion HP; reflexivity|].
  destruct (bytes_eqb p (bs "uuid")) eqn:E9; [inversion HP; reflexivity|].
  rewrite known_split, E1, E2, E3, E4, E5, E6, E7, E8, E9 in Hk. discriminate.
Qed.

(** the exact characterisation *)
Lemma sqlite_fix_iff s : fix_holds s <-> name_okb s = true.
Proof.
  unfold fix_holds, name_okb. split.
  - intros [t' [HP HF]].
    destruct s as [|c0 c'] eqn:Es.
    { simpl in HP. inversion HP; subst. simpl in HF. discriminate. }
    rewrite <- Es in *. assert (Hne : s <> []) by (subst; discriminate).
    replace (bytes_eqb s []) with false by (symmetry; apply bytes_eqb_neq; exact Hne). simpl.
    destruct (columnParts s) as [|p rest] eqn:Hp.
    { unfold ParseType in HP. rewrite Es in HP. rewrite <- Es in HP. rewrite Hp in HP. discriminate. }
    destruct (known p) eqn:Hk; simpl; [|reflexivity].
    pose proof (parse_known s p rest t' Hne Hp Hk HP) as HF'.
    rewrite HF in HF'. inversion HF'. rewrite (known_lower p Hk). apply bytes_eqb_refl.
  - intros H. apply andb_true_iff in H as [Hne H]. apply negb_true_iff in Hne. apply bytes_eqb_neq in Hne.
    destruct (columnParts s) as [|p rest] eqn:Hp; [discriminate|].
    destruct (known p) eqn:Hk; simpl in H.
    + apply bytes_eqb_eq in H. subst p.
      rewrite (known_parts s Hk) in Hp. inversion Hp; subst rest.
      (* finitely many names: compute *)
      apply mem_b_In in Hk. unfold known_names in Hk. simpl in Hk.
      repeat (destruct Hk as [Hk|Hk]; [subst s; eexists; split; vm_compute; reflexivity|]).
      contradiction.
    + exists (UserDefinedType s). split; [eapply parse_unknown; eauto|reflexivity].
Qed.

(** the unrestricted statement is false *)
Lemma sqlite_fix_refuted :
  exists t s, FormatType t = Ok s /\ ~ fix_holds s.
Proof.
  exists (StringType (bs "varchar(255)") 0%Z), (bs "varchar(255)"). split; [reflexivity|].
  intros H. apply sqlite_fix_iff in H. vm_compute in H. discriminate.
Qed.

(** every T of the generated registry is a well-formed type text *)
Lemma registry_names_ok : forallb (fun s => name_okb (ts_T s)) registry_sqlite = true.
Proof. vm_compute. reflexivity. Qed.
