(** Static well-formedness of a dumped registry (finite, decided by vm_compute on
    gen/Gen_Registry_*.v on every run) and what it implies. *)
From Coq Require Import String.
From Coq Require Import List NArith ZArith Bool Lia.
From Atlas Require Import Base.Bytes Hcl.Str Hcl.RegistryDefs Hcl.Registry.
Import ListNotations.
Local Open Scope N_scope.

Fixpoint nodup_b (l : list bytes) : bool :=
  match l with
  | [] => true
  | x :: l' => negb (mem_b x l') && nodup_b l'
  end.

Definition kind_supported (k : kind) : bool :=
  match k with KOther _ => false | _ => true end.

(** [custom_ok s]: the hand model knows the closures of spec [s] (per dialect). *)
Definition spec_wf (custom_ok : TypeSpec -> bool) (s : TypeSpec) : bool :=
  valid_spec s                                              (* Register's validSpec *)
  && forallb (fun a => kind_supported (ta_kind a)) (ts_attrs s)   (* Convert handles the kind *)
  && nodup_b (map ta_name (ts_attrs s))                     (* attribute lookup by name is unambiguous *)
  && (negb (ts_from_custom s || ts_to_custom s || ts_fmt_custom s) || custom_ok s)
  && (* an "unsigned" attribute is a bool and is optional (PrintType / typeNonFuncArgs special case) *)
     forallb (fun a => negb (bytes_eqb (ta_name a) unsigned_name) || (kind_eqb (ta_kind a) KBool && negb (ta_required a)))
             (ts_attrs s).

Definition registry_wf (custom_ok : TypeSpec -> bool) (reg : list TypeSpec) : bool :=
  forallb (spec_wf custom_ok) reg
  && nodup_b (map ts_T reg)        (* Register: T unique *)
  && nodup_b (map ts_name reg).    (* Register: Name unique *)

(** required attributes come first: what typeFuncSpec relies on for positional parameters *)
Lemma valid_spec_required_prefix attrs seen :
  valid_spec_aux attrs seen = true ->
  forall pre a post, attrs = pre ++ a :: post -> ta_required a = true ->
    seen = false /\ forallb ta_required pre = true.
Proof.
  revert seen. induction attrs as [|x rest IH]; intros seen H pre a post E Ha.
  - destruct pre; discriminate.
  - simpl in H.
    destruct (kind_eqb (ta_kind x) KSlice && negb match rest with [] => true | _ => false end); [discriminate|].
    destruct pre as [|p pre'].
    + simpl in E. inversion E; subst. rewrite Ha in H. destruct seen; simpl in H; [discriminate|]. auto.
    + simpl in E. inversion E; subst.
      destruct (seen && ta_required p) eqn:Es; [discriminate|].
      destruct (IH _ H pre' a post eq_refl Ha) as [H1 H2].
      apply negb_false_iff in H1. simpl. rewrite H1, H2. split; [|reflexivity].
      rewrite H1 in Es. destruct seen; [discriminate|reflexivity].
Qed.

(** a slice attribute can only be the last one *)
Lemma valid_spec_slice_last attrs seen :
  valid_spec_aux attrs seen = true ->
  forall pre a post, attrs = pre ++ a :: post -> kind_eqb (ta_kind a) KSlice = true -> post = [].
Proof.
  revert seen. induction attrs as [|x rest IH]; intros seen H pre a post E Ha.
  - destruct pre; discriminate.
  - simpl in H. destruct pre as [|p pre'].
    + simpl in E. inversion E; subst. rewrite Ha in H. destruct post; [reflexivity|discriminate].
    + simpl in E. inversion E; subst.
      destruct (kind_eqb (ta_kind p) KSlice && negb match pre' ++ a :: post with [] => true | _ => false end); [discriminate|].
      destruct (seen && ta_required p); [discriminate|].
      eapply IH; eauto.
Qed.
