(** C15, registry layer: the print / eval inversion of the HCL type expression for a type without
    attributes (a "bare" type name), generic over every registry with unique T / Name keys. *)
From Coq Require Import String.
From Coq Require Import List NArith ZArith Bool Lia.
From Atlas Require Import Base.Bytes Hcl.Str Hcl.StrProofs Hcl.RegistryDefs Hcl.Registry Hcl.RegistryWf.
Import ListNotations.
Local Open Scope N_scope.

Lemma nodup_find (A : Type) (key : A -> bytes) (l : list A) (s : A) :
  nodup_b (map key l) = true -> In s l ->
  find (fun x => bytes_eqb (key x) (key s)) l = Some s.
Proof.
  induction l as [|x r IH]; intros Hn Hin; [contradiction|].
  cbn [map nodup_b] in Hn. apply andb_true_iff in Hn as [Hx Hr]. apply negb_true_iff in Hx.
  cbn [find]. destruct (bytes_eqb (key x) (key s)) eqn:E.
  - destruct Hin as [->|Hin]; [reflexivity|]. exfalso.
    apply bytes_eqb_eq in E. rewrite E in Hx.
    assert (mem_b (key s) (map key r) = true) by (apply In_mem_b, in_map; exact Hin). congruence.
  - destruct Hin as [->|Hin]; [rewrite bytes_eqb_refl in E; discriminate|]. apply IH; assumption.
Qed.

Lemma hcl_args_nil spec T : hcl_args spec {| h_T := T; h_attrs := [] |} = [].
Proof.
  unfold hcl_args. induction (type_func_args spec) as [|p r IH]; [reflexivity|].
  cbn [flat_map]. rewrite IH. reflexivity.
Qed.

Lemma bare_roundtrip reg fmt spec :
  nodup_b (map ts_T reg) = true -> nodup_b (map ts_name reg) = true -> In spec reg ->
  ts_fmt_custom spec = false -> type_func_req_args spec = [] ->
  hcl_type reg fmt {| h_T := ts_T spec; h_attrs := [] |} = Ok (PExpr (HIdent (ts_name spec))) /\
  hcl_eval reg (HIdent (ts_name spec)) = Ok {| h_T := ts_T spec; h_attrs := [] |}.
Proof.
  intros HT HN Hin Hf Hreq. split.
  - unfold hcl_type. cbn [h_T]. unfold find_T. rewrite (nodup_find _ ts_T reg spec HT Hin). rewrite Hf.
    destruct (type_func_args spec) eqn:E; [reflexivity|]. rewrite hcl_args_nil, Hreq. reflexivity.
  - unfold hcl_eval, find_name. rewrite (nodup_find _ ts_name reg spec HN Hin). rewrite Hreq. reflexivity.
Qed.

(** ** positional arguments: a spec whose function arguments are all required and not variadic *)
Fixpoint zip_attrs (ps : list TypeAttr) (vs : list aval) : list Attr :=
  match ps, vs with
  | p :: ps', v :: vs' => {| a_K := ta_name p; a_V := v |} :: zip_attrs ps' vs'
  | _, _ => []
  end.

Definition not_list (v : aval) : bool := match v with AList _ => false | _ => true end.
Definition keys_free (pre : list Attr) (k : bytes) : bool := negb (existsb (fun a => bytes_eqb (a_K a) k) pre).

Lemma find_attr_skip pre rest k : keys_free pre k = true -> find_attr (pre ++ rest) k = find_attr rest k.
Proof.
  unfold keys_free, find_attr. induction pre as [|a pre IH]; intros H; [reflexivity|].
  cbn [existsb] in H. apply negb_true_iff in H. apply orb_false_iff in H as [H1 H2].
  cbn [app find]. rewrite H1. apply IH. rewrite H2. reflexivity.
Qed.

Lemma hcl_args_zip_aux : forall ps vs pre,
  nodup_b (map ta_name ps) = true -> length vs = length ps -> forallb not_list vs = true ->
  forallb (fun p => keys_free pre (ta_name p)) ps = true ->
  flat_map (fun p => match find_attr (pre ++ zip_attrs ps vs) (ta_name p) with
                     | Some a => match a_V a with AList l => map AStr l | v => [v] end
                     | None => []
                     end) ps = vs.
Proof.
  induction ps as [|p ps IH]; intros vs pre Hn Hl Hv Hk.
  - destruct vs; [reflexivity|discriminate].
  - destruct vs as [|v vs]; [discriminate|].
    cbn [map nodup_b] in Hn. apply andb_true_iff in Hn as [Hp Hn]. apply negb_true_iff in Hp.
    cbn [forallb] in Hv, Hk. apply andb_true_iff in Hv as [Hv0 Hv]. apply andb_true_iff in Hk as [Hk0 Hk].
    cbn [flat_map zip_attrs]. rewrite find_attr_skip by exact Hk0.
    unfold find_attr at 1. cbn [find a_K]. rewrite bytes_eqb_refl. cbn [a_V].
    assert (Ev : match v with AInt z => [AInt z] | ABool b => [ABool b] | AStr s => [AStr s] | AList l => map AStr l end = [v])
      by (destruct v; try reflexivity; cbn in Hv0; discriminate).
    rewrite Ev.
    cbn [app]. f_equal.
    replace (pre ++ {| a_K := ta_name p; a_V := v |} :: zip_attrs ps vs)
      with ((pre ++ [{| a_K := ta_name p; a_V := v |}]) ++ zip_attrs ps vs) by (rewrite <- app_assoc; reflexivity).
    apply IH; auto.
    rewrite forallb_forall in *. intros x Hx. unfold keys_free. rewrite existsb_app. cbn [existsb a_K].
    rewrite orb_false_r. apply negb_true_iff. apply orb_false_iff. split.
    + specialize (Hk x Hx). unfold keys_free in Hk. apply negb_true_iff in Hk. exact Hk.
    + destruct (bytes_eqb (ta_name p) (ta_name x)) eqn:E; [|reflexivity].
      apply bytes_eqb_eq in E. exfalso. rewrite E in Hp.
      assert (mem_b (ta_name x) (map ta_name ps) = true) by (apply In_mem_b, in_map; exact Hx). congruence.
Qed.

Lemma func_params_positional ps :
  forallb ta_required ps = true -> forallb (fun p => negb (kind_eqb (ta_kind p) KSlice)) ps = true ->
  func_params ps = (ps, false).
Proof.
  induction ps as [|p ps IH]; intros Hr Hs; [reflexivity|].
  cbn [forallb] in Hr, Hs. apply andb_true_iff in Hr as [Hr0 Hr]. apply andb_true_iff in Hs as [Hs0 Hs].
  cbn [func_params]. rewrite IH by assumption. apply negb_true_iff in Hs0. rewrite Hs0, Hr0. reflexivity.
Qed.

Lemma func_impl_zip : forall ps vs,
  forallb (fun p => negb (kind_eqb (ta_kind p) KSlice)) ps = true -> length vs = length ps ->
  func_impl ps vs = zip_attrs ps vs.
Proof.
  induction ps as [|p ps IH]; intros vs Hs Hl; [destruct vs; reflexivity|].
  destruct vs as [|v vs]; [discriminate|].
  cbn [forallb] in Hs. apply andb_true_iff in Hs as [Hs0 Hs]. apply negb_true_iff in Hs0.
  cbn [func_impl zip_attrs]. rewrite Hs0, IH by (auto; simpl in Hl; lia). reflexivity.
Qed.

Lemma filter_length_le (A : Type) (f : A -> bool) l : (length (filter f l) <= length l)%nat.
Proof. induction l as [|x l IH]; simpl; [lia|]. destruct (f x); simpl; lia. Qed.

(** print then evaluate gives the type back, for every valuation of the positional parameters *)
Lemma positional_roundtrip reg fmt spec fargs vs :
  nodup_b (map ts_T reg) = true -> nodup_b (map ts_name reg) = true -> In spec reg ->
  ts_fmt_custom spec = false ->
  type_func_args spec = fargs ->
  fargs <> [] ->
  forallb ta_required fargs = true ->
  forallb (fun p => negb (kind_eqb (ta_kind p) KSlice)) fargs = true ->
  nodup_b (map ta_name fargs) = true ->
  length vs = length fargs ->
  forallb (fun '(p, v) => aval_kind_ok (ta_kind p) v) (combine fargs vs) = true ->
  forallb not_list vs = true ->
  let typ := {| h_T := ts_T spec; h_attrs := zip_attrs fargs vs |} in
  hcl_type reg fmt typ = Ok (PExpr (HCall (ts_name spec) vs)) /\
  hcl_eval reg (HCall (ts_name spec) vs) = Ok typ.
Proof.
  intros HT HN Hin Hf Efa Hne Hreq Hsl Hnd Hlen Hk Hnl typ.
  assert (Hargs : hcl_args spec typ = vs).
  { unfold hcl_args, typ. cbn [h_attrs]. rewrite Efa.
    apply (hcl_args_zip_aux fargs vs []); auto.
    rewrite forallb_forall. intros; reflexivity. }
  assert (Hvne : vs <> []).
  { intros ->. destruct fargs; [congruence|discriminate]. }
  assert (Hreq' : type_func_req_args spec = fargs).
  { unfold type_func_req_args. rewrite Efa. clear -Hreq. induction fargs as [|p r IH]; [reflexivity|].
    cbn [forallb] in Hreq. apply andb_true_iff in Hreq as [H0 H1]. cbn [filter]. rewrite H0, IH by exact H1. reflexivity. }
  assert (Hle : Nat.ltb (length (ts_attrs spec)) (length fargs) = false).
  { apply Nat.ltb_ge. rewrite <- Efa. apply filter_length_le. }
  split.
  - unfold hcl_type. unfold typ at 1. cbn [h_T]. unfold find_T. rewrite (nodup_find _ ts_T reg spec HT Hin). rewrite Hf.
    rewrite Hargs, Hreq', Efa. destruct fargs as [|p0 r0]; [congruence|].
    destruct vs; [congruence|]. reflexivity.
  - unfold hcl_eval, find_name. rewrite (nodup_find _ ts_name reg spec HN Hin). rewrite Efa.
    assert (Hz : Nat.eqb (length vs) 0 = false) by (destruct vs; [congruence|reflexivity]).
    destruct fargs as [|p0 r0]; [congruence|]. cbv iota. set (F := p0 :: r0) in *.
    rewrite (func_params_positional F Hreq Hsl). rewrite Hlen, Nat.ltb_irrefl. cbn [negb andb].
    rewrite Hk. cbn [negb]. rewrite Hle. cbn [andb].
    rewrite <- Hlen, Hz, andb_false_r.
    rewrite func_impl_zip by assumption. reflexivity.
Qed.

(** ** optional trailing arguments: any prefix of the function arguments that covers the required ones *)
Lemma hcl_args_zip_le : forall ps vs pre,
  nodup_b (map ta_name ps) = true -> (length vs <= length ps)%nat -> forallb not_list vs = true ->
  forallb (fun p => keys_free pre (ta_name p)) ps = true ->
  flat_map (fun p => match find_attr (pre ++ zip_attrs ps vs) (ta_name p) with
                     | Some a => match a_V a with AList l => map AStr l | v => [v] end
                     | None => []
                     end) ps = vs.
Proof.
  induction ps as [|p ps IH]; intros vs pre Hn Hl Hv Hk.
  - destruct vs; [reflexivity|simpl in Hl; lia].
  - cbn [map nodup_b] in Hn. apply andb_true_iff in Hn as [Hp Hn]. apply negb_true_iff in Hp.
    cbn [forallb] in Hk. apply andb_true_iff in Hk as [Hk0 Hk].
    destruct vs as [|v vs].
    + (* nothing left: every remaining argument is absent *)
      cbn [zip_attrs flat_map]. rewrite app_nil_r.
      assert (E : find_attr pre (ta_name p) = None).
      { rewrite <- (app_nil_r pre). rewrite find_attr_skip by exact Hk0. reflexivity. }
      rewrite E. cbn [app].
      specialize (IH [] pre Hn (Nat.le_0_l _) eq_refl Hk).
      destruct ps; [reflexivity|]. cbn [zip_attrs] in IH. rewrite app_nil_r in IH. exact IH.
    + cbn [forallb] in Hv. apply andb_true_iff in Hv as [Hv0 Hv].
      cbn [flat_map zip_attrs]. rewrite find_attr_skip by exact Hk0.
      unfold find_attr at 1. cbn [find a_K]. rewrite bytes_eqb_refl. cbn [a_V].
      assert (Ev : match v with AInt z => [AInt z] | ABool b => [ABool b] | AStr s => [AStr s] | AList l => map AStr l end = [v])
        by (destruct v; try reflexivity; cbn in Hv0; discriminate).
      rewrite Ev. cbn [app]. f_equal.
      replace (pre ++ {| a_K := ta_name p; a_V := v |} :: zip_attrs ps vs)
        with ((pre ++ [{| a_K := ta_name p; a_V := v |}]) ++ zip_attrs ps vs) by (rewrite <- app_assoc; reflexivity).
      apply IH; auto; [simpl in Hl; lia|].
      rewrite forallb_forall in *. intros x Hx. unfold keys_free. rewrite existsb_app. cbn [existsb a_K].
      rewrite orb_false_r. apply negb_true_iff. apply orb_false_iff. split.
      * specialize (Hk x Hx). unfold keys_free in Hk. apply negb_true_iff in Hk. exact Hk.
      * destruct (bytes_eqb (ta_name p) (ta_name x)) eqn:E; [|reflexivity].
        apply bytes_eqb_eq in E. exfalso. rewrite E in Hp.
        assert (mem_b (ta_name x) (map ta_name ps) = true) by (apply In_mem_b, in_map; exact Hx). congruence.
Qed.

Lemma func_params_noslice ps :
  forallb (fun p => negb (kind_eqb (ta_kind p) KSlice)) ps = true ->
  func_params ps = (filter ta_required ps, existsb (fun a => negb (ta_required a)) ps).
Proof.
  induction ps as [|p ps IH]; intros Hs; [reflexivity|].
  cbn [forallb] in Hs. apply andb_true_iff in Hs as [Hs0 Hs]. apply negb_true_iff in Hs0.
  cbn [func_params filter existsb]. rewrite IH by assumption. rewrite Hs0. destruct (ta_required p); reflexivity.
Qed.

Lemma func_impl_zip_le : forall ps vs,
  forallb (fun p => negb (kind_eqb (ta_kind p) KSlice)) ps = true ->
  func_impl ps vs = zip_attrs ps vs.
Proof.
  induction ps as [|p ps IH]; intros vs Hs; [destruct vs; reflexivity|].
  cbn [forallb] in Hs. apply andb_true_iff in Hs as [Hs0 Hs]. apply negb_true_iff in Hs0.
  cbn [func_impl zip_attrs]. rewrite Hs0. destruct vs as [|v vs]; [reflexivity|]. rewrite IH by assumption. reflexivity.
Qed.

Lemma filter_all (A : Type) (f : A -> bool) l : existsb (fun a => negb (f a)) l = false -> filter f l = l.
Proof.
  induction l as [|x l IH]; intros H; [reflexivity|]. cbn [existsb] in H. apply orb_false_iff in H as [H0 H1].
  apply negb_false_iff in H0. cbn [filter]. rewrite H0, IH by exact H1. reflexivity.
Qed.

Lemma prefix_roundtrip reg fmt spec fargs vs :
  nodup_b (map ts_T reg) = true -> nodup_b (map ts_name reg) = true -> In spec reg ->
  ts_fmt_custom spec = false ->
  type_func_args spec = fargs ->
  forallb (fun p => negb (kind_eqb (ta_kind p) KSlice)) fargs = true ->
  nodup_b (map ta_name fargs) = true ->
  vs <> [] ->
  (length (filter ta_required fargs) <= length vs)%nat -> (length vs <= length fargs)%nat ->
  forallb (fun '(p, v) => aval_kind_ok (ta_kind p) v) (combine (filter ta_required fargs) vs) = true ->
  forallb not_list vs = true ->
  let typ := {| h_T := ts_T spec; h_attrs := zip_attrs fargs vs |} in
  hcl_type reg fmt typ = Ok (PExpr (HCall (ts_name spec) vs)) /\
  hcl_eval reg (HCall (ts_name spec) vs) = Ok typ.
Proof.
  intros HT HN Hin Hf Efa Hsl Hnd Hvne Hlo Hhi Hk Hnl typ.
  assert (Hargs : hcl_args spec typ = vs).
  { unfold hcl_args, typ. cbn [h_attrs]. rewrite Efa.
    apply (hcl_args_zip_le fargs vs []); auto.
    rewrite forallb_forall. intros; reflexivity. }
  assert (Hfne : fargs <> []).
  { intros ->. destruct vs; [congruence|simpl in Hhi; lia]. }
  assert (Hle : Nat.ltb (length (ts_attrs spec)) (length vs) = false).
  { apply Nat.ltb_ge. pose proof (filter_length_le _ (fun a => negb (bytes_eqb (ta_name a) unsigned_name)) (ts_attrs spec)) as L.
    unfold type_func_args in Efa. rewrite Efa in L. lia. }
  assert (Hz : Nat.eqb (length vs) 0 = false) by (destruct vs; [congruence|reflexivity]).
  split.
  - unfold hcl_type. unfold typ at 1. cbn [h_T]. unfold find_T. rewrite (nodup_find _ ts_T reg spec HT Hin). rewrite Hf.
    rewrite Hargs, Efa. destruct fargs as [|p0 r0]; [congruence|].
    destruct vs; [congruence|]. reflexivity.
  - unfold hcl_eval, find_name. rewrite (nodup_find _ ts_name reg spec HN Hin). rewrite Efa.
    destruct fargs as [|p0 r0]; [congruence|]. cbv iota. set (F := p0 :: r0) in *.
    rewrite (func_params_noslice F Hsl).
    replace (Nat.ltb (length vs) (length (filter ta_required F))) with false by (symmetry; apply Nat.ltb_ge; exact Hlo).
    assert (Hvar : negb (existsb (fun a => negb (ta_required a)) F) && Nat.ltb (length (filter ta_required F)) (length vs) = false).
    { destruct (existsb (fun a => negb (ta_required a)) F) eqn:E; [reflexivity|].
      rewrite (filter_all _ ta_required F E). cbn [negb andb]. apply Nat.ltb_ge. exact Hhi. }
    rewrite Hvar, Hk. cbn [negb]. rewrite Hle. cbn [andb]. rewrite Hz, andb_false_r.
    rewrite func_impl_zip_le by assumption. reflexivity.
Qed.

(** ** the variadic argument alone (enum("a","b"), set(...)): a spec whose only attribute is a slice *)
Lemma flat_strs l : flat_map (fun v => match v with AStr s => [s] | _ => [] end) (map AStr l) = l.
Proof. induction l as [|x l IH]; [reflexivity|]. cbn [map flat_map app]. rewrite IH. reflexivity. Qed.

Lemma variadic_roundtrip reg fmt spec a l :
  nodup_b (map ts_T reg) = true -> nodup_b (map ts_name reg) = true -> In spec reg ->
  ts_fmt_custom spec = false ->
  ts_attrs spec = [a] -> kind_eqb (ta_kind a) KSlice = true -> bytes_eqb (ta_name a) unsigned_name = false ->
  l <> [] ->
  let typ := {| h_T := ts_T spec; h_attrs := [{| a_K := ta_name a; a_V := AList l |}] |} in
  hcl_type reg fmt typ = Ok (PExpr (HCall (ts_name spec) (map AStr l))) /\
  hcl_eval reg (HCall (ts_name spec) (map AStr l)) = Ok typ.
Proof.
  intros HT HN Hin Hf Ea Hk Hu Hl typ.
  assert (Efa : type_func_args spec = [a]).
  { unfold type_func_args. rewrite Ea. cbn [filter]. rewrite Hu. reflexivity. }
  destruct l as [|x l]; [congruence|].
  split.
  - unfold hcl_type. unfold typ at 1. cbn [h_T]. unfold find_T. rewrite (nodup_find _ ts_T reg spec HT Hin). rewrite Hf.
    rewrite Efa. unfold hcl_args. rewrite Efa. unfold typ. cbn [h_attrs flat_map]. unfold find_attr. cbn [find a_K].
    rewrite bytes_eqb_refl. cbn [a_V app map]. rewrite app_nil_r. reflexivity.
  - unfold hcl_eval, find_name. rewrite (nodup_find _ ts_name reg spec HN Hin). rewrite Efa.
    cbn [func_params]. rewrite Hk. cbn [orb length Nat.ltb Nat.leb negb andb combine forallb map].
    unfold last_is_slice. rewrite Ea. cbn [rev app]. rewrite Hk. cbn [negb andb Nat.eqb length].
    rewrite andb_false_r. cbn [func_impl]. rewrite Hk.
    change (AStr x :: map AStr l) with (map AStr (x :: l)). rewrite flat_strs. reflexivity.
Qed.
