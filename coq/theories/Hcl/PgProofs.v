(** C15, PostgreSQL: FormatType/ParseType fixpoint for the well-formed types of the
    dialect (unbounded sizes / precisions / scales), and its refutation in general. *)
From Coq Require Import String.
From Coq Require Import List NArith ZArith Bool Lia.
From Atlas Require Import Base.Bytes Hcl.Str Hcl.StrProofs Hcl.RegistryDefs Hcl.Registry Hcl.TypesPg.
Import ListNotations.
Import Pg.
Local Open Scope N_scope.

(** ** reArray: a text in the suffix language ends with ']' ' ' 'y' or 'Y' *)
Definition endset (c : N) : bool := (c =? 93) || (c =? 32) || (c =? 89) || (c =? 121).

Lemma upper_c_Y c : upper_c c =? 89 = true -> endset c = true.
Proof.
  unfold upper_c, is_lower, endset. destruct ((97 <=? c) && (c <=? 122)) eqn:E; intros H; apply N.eqb_eq in H.
  - apply andb_true_iff in E as [E1 E2]. apply N.leb_le in E1, E2.
    assert (c = 121) by lia. subst. reflexivity.
  - subst. reflexivity.
Qed.

Lemma astep_acc q c q' : astep q c = Some q' -> aacc q' = true -> endset c = true.
Proof.
  unfold astep. intros H A.
  destruct q;
    repeat match type of H with
           | (if ?b then _ else _) = _ => destruct b eqn:?
           end; inversion H; subst; simpl in A; try discriminate;
    try (apply upper_c_Y; assumption);
    unfold endset;
    repeat match goal with E : (_ =? _) = true |- _ => apply N.eqb_eq in E; subst end; try reflexivity.
Qed.

Lemma arun_last : forall s q, arun q s = true -> s <> [] -> endset (last s 0) = true.
Proof.
  induction s as [|c s IH]; intros q H Hne; [congruence|].
  simpl in H. destruct (astep q c) as [q'|] eqn:E; [|discriminate].
  destruct s as [|c2 s2].
  - simpl in H. simpl. eapply astep_acc; eauto.
  - change (last (c :: c2 :: s2) 0) with (last (c2 :: s2) 0). apply (IH q' H). discriminate.
Qed.

Lemma array_suffix_last s : array_suffix s = true -> s <> [] /\ endset (last s 0) = true.
Proof.
  unfold array_suffix. intros H.
  assert (Hne : s <> []) by (intros ->; discriminate H).
  split; [exact Hne|].
  apply orb_true_iff in H as [H|H]; eapply arun_last; eauto.
Qed.

Lemma arr_scan_none : forall s g, endset (last s 0) = false -> arr_scan g s = None.
Proof.
  induction s as [|c s IH]; intros g H; [reflexivity|].
  simpl. destruct s as [|c2 s2].
  - destruct (c =? 10); reflexivity.
  - change (last (c :: c2 :: s2) 0) with (last (c2 :: s2) 0) in H.
    destruct (c =? 10); [apply IH; exact H|].
    destruct (array_suffix (c2 :: s2)) eqn:E.
    + apply array_suffix_last in E as [_ E]. congruence.
    + apply IH; exact H.
Qed.

Lemma arrayType_none s : endset (last s 0) = false -> arrayType s = None.
Proof. intros H. unfold arrayType. rewrite arr_scan_none by exact H. reflexivity. Qed.

(** a text without ' ' and '[' has no array suffix at all *)
Definition no_sp_lb (s : bytes) : bool := forallb (fun c => negb ((c =? 32) || (c =? 91))) s.

Lemma array_suffix_head c s : array_suffix (c :: s) = true -> (c =? 32) || (c =? 91) = true.
Proof.
  unfold array_suffix. simpl. destruct (c =? 32); [reflexivity|]. destruct (c =? 91); [reflexivity|].
  simpl. discriminate.
Qed.

Lemma arr_scan_none_nosp : forall s g, no_sp_lb s = true -> arr_scan g s = None.
Proof.
  induction s as [|c s IH]; intros g H; [reflexivity|].
  simpl in H. apply andb_true_iff in H as [_ H]. simpl.
  destruct (c =? 10); [apply IH; exact H|].
  destruct s as [|c2 s2]; [reflexivity|].
  destruct (array_suffix (c2 :: s2)) eqn:E.
  - apply array_suffix_head in E. simpl in H. apply andb_true_iff in H as [H _]. rewrite E in H. discriminate.
  - apply IH; exact H.
Qed.

(** ** strings.FieldsFunc splits at a separator *)
Lemma fields_aux_split sep c rest : sep c = true -> forall w cur,
  fields_aux sep (w ++ c :: rest) cur = fields_aux sep w cur ++ fields_func sep rest.
Proof.
  intros Hc. induction w as [|x w IH]; intros cur.
  - simpl. rewrite Hc. destruct cur; reflexivity.
  - simpl. destruct (sep x).
    + destruct cur; rewrite IH; reflexivity.
    + apply IH.
Qed.

Lemma fields_split sep c w rest : sep c = true ->
  fields_func sep (w ++ c :: rest) = fields_func sep w ++ fields_func sep rest.
Proof. intros H. apply fields_aux_split. exact H. Qed.

Local Opaque itoa.

Lemma fields_paren1 w a : (0 <= a)%Z ->
  fields_func type_sep (w ++ paren a) = fields_func type_sep w ++ [itoa a].
Proof.
  intros Ha. destruct (is_uint_itoa_nonneg a Ha) as [H1 H2].
  unfold paren. cbn [app]. rewrite (fields_split type_sep 40) by reflexivity.
  replace (itoa a ++ [41]) with (itoa a ++ 41 :: []) by reflexivity.
  rewrite (fields_split type_sep 41) by reflexivity.
  rewrite (fields_word_end type_sep (itoa a)); [reflexivity|apply all_digits_no_sep; exact H1|exact H2].
Qed.

Lemma fields_paren2 w a b : (0 <= a)%Z -> (0 <= b)%Z ->
  fields_func type_sep (w ++ [40] ++ itoa a ++ [44] ++ itoa b ++ [41]) = fields_func type_sep w ++ [itoa a; itoa b].
Proof.
  intros Ha Hb. destruct (is_uint_itoa_nonneg a Ha) as [H1 H2]. destruct (is_uint_itoa_nonneg b Hb) as [H3 H4].
  cbn [app]. rewrite (fields_split type_sep 40) by reflexivity.
  rewrite (fields_split type_sep 44) by reflexivity.
  replace (itoa b ++ [41]) with (itoa b ++ 41 :: []) by reflexivity.
  rewrite (fields_split type_sep 41) by reflexivity.
  rewrite (fields_word_end type_sep (itoa a)); [|apply all_digits_no_sep; exact H1|exact H2].
  rewrite (fields_word_end type_sep (itoa b)); [|apply all_digits_no_sep; exact H3|exact H4].
  reflexivity.
Qed.

Lemma digits_exists s : all_digits s = true -> s <> [] -> existsb is_digit s = true.
Proof. destruct s as [|c s]; [congruence|]. simpl. intros H _. apply andb_true_iff in H as [H _]. rewrite H. reflexivity. Qed.

Lemma last_paren w a : last (w ++ paren a) 0 = 41.
Proof. unfold paren. rewrite !app_assoc. apply last_last. Qed.

Lemma last_paren2 w a b : last (w ++ [40] ++ itoa a ++ [44] ++ itoa b ++ [41]) 0 = 41.
Proof. rewrite !app_assoc. apply last_last. Qed.

(** ** ParseType on a text that is not an array *)
Definition post (t : ty) : res ty :=
  Ok (match t with UnsupportedType T => UserDefinedType T | _ => t end).

Lemma ParseType_noarr s : arrayType s = None ->
  ParseType s = bind (parseColumn s) (fun c => bind (columnType (ParseType_f (length s)) c) post).
Proof. intros H. unfold ParseType. cbn [ParseType_f]. rewrite H. reflexivity. Qed.

Lemma parseColumn_ne s : s <> [] -> parseColumn s = parseParts s (fields_func type_sep s).
Proof. destruct s; [congruence|reflexivity]. Qed.

Lemma digits_neq_word s w : all_digits s = true -> all_digits w = false -> bytes_eqb s w = false.
Proof. intros H1 H2. apply bytes_eqb_neq. intros E. subst. congruence. Qed.

Lemma itoa_not_varying z : (0 <= z)%Z -> bytes_eqb (itoa z) (bs "varying") = false.
Proof. intros H. destruct (is_uint_itoa_nonneg z H) as [H1 _]. apply digits_neq_word; [exact H1|reflexivity]. Qed.

Lemma itoa_digit_exists z : (0 <= z)%Z -> existsb is_digit (itoa z) = true.
Proof. intros H. destruct (is_uint_itoa_nonneg z H) as [H1 H2]. apply digits_exists; assumption. Qed.

Lemma parse_int_itoa z : (0 <= z)%Z -> parse_int (itoa z) = Ok z.
Proof. intros H. unfold parse_int. rewrite atoi_itoa_nonneg by exact H. reflexivity. Qed.

(** ** well-formed types of the dialect *)
Definition lname (T : bytes) (names : list bytes) : bool := mem_b (to_lower T) names.

(** the tests of columnType, in order: a lower-cased name that is known to ParseType *)
Definition known_lower (l : bytes) : bool :=
  let isl n := bytes_eqb l (bs n) in
  mem_b l int_names || (isl "bit"%string || isl "bit varying"%string) || (isl "bool"%string || isl "boolean"%string) || isl "bytea"%string
  || mem_b l string_names || mem_b l network_names || mem_b l spatial_names || isl "date"%string || mem_b l time_names
  || isl "interval"%string || mem_b l float_names || (isl "json"%string || isl "jsonb"%string) || isl "money"%string || (isl "decimal"%string || isl "numeric"%string)
  || mem_b l serial_names || isl "uuid"%string || isl "xml"%string || isl "array"%string || (isl "tsvector"%string || isl "tsquery"%string)
  || mem_b l range_names || mem_b l oid_names || mem_b l pseudo_names.

(** a user-defined type name: one non-empty word without ( ) , space [ and not a known type name *)
Definition ident_ok (T : bytes) : bool :=
  negb (bytes_eqb T []) && forallb (fun c => negb (type_sep c)) T && no_sp_lb T.
Definition udt_ok (T : bytes) : bool := ident_ok T && negb (known_lower (to_lower T)).

Definition lower_fields : list bytes := map to_lower interval_fields.
Definition prec_ok (p : option Z) : bool :=
  match p with Some n => (0 <=? n)%Z && (n <=? 6)%Z | None => true end.

Definition wf (t : ty) : bool :=
  match t with
  | ArrayType T => false
  | BitType T n => lname T (map bs ["bit"; "bit varying"]%string) && (0 <=? n)%Z
  | BoolType T => lname T (map bs ["bool"; "boolean"]%string)
  | BinaryType T => lname T [bs "bytea"]
  | CurrencyType T => lname T [bs "money"]
  | CompositeType T | DomainType T | EnumType T | UserDefinedType T => udt_ok T
  | IntegerType T => lname T int_names
  | IntervalType T F p =>
      lname T [bs "interval"] && (match F with [] => true | _ => mem_b (to_lower F) lower_fields end) && prec_ok p
  | StringType T n => lname T string_names && (0 <=? n)%Z
  | TimeType T p => lname T (bs "date" :: time_names) && match p with Some n => (0 <=? n)%Z | None => true end
  | FloatType T p => lname T float_names
  | DecimalType T p s => lname T (map bs ["numeric"; "decimal"]%string) && (0 <=? p)%Z
  | SerialType T => lname T serial_names
  | JSONType T => lname T (map bs ["json"; "jsonb"]%string)
  | UUIDType T => lname T [bs "uuid"]
  | SpatialType T => lname T spatial_names
  | NetworkType T => lname T network_names
  | RangeType T => lname T range_names
  | OIDType T => lname T oid_names
  | TextSearchType T => lname T (map bs ["tsvector"; "tsquery"]%string)
  | XMLType T => lname T [bs "xml"]
  | PseudoType T => lname T pseudo_names
  | UnsupportedType _ => true
  end.

Definition fix_holds (s : bytes) : Prop :=
  exists t', ParseType s = Ok t' /\ FormatType t' = Ok s.

Ltac names H :=
  unfold lname in H; apply mem_b_In in H; simpl in H;
  repeat (destruct H as [H|H]; [symmetry in H|]); try contradiction.

Ltac closed := eexists; split; vm_compute; reflexivity.

(** ParseType (w ++ paren a), w a closed name: up to parseParts on the computed parts *)
Ltac start1 :=
  match goal with |- context [ParseType (?w ++ paren ?a)] =>
    rewrite ParseType_noarr by (apply arrayType_none; rewrite last_paren; reflexivity);
    rewrite parseColumn_ne by discriminate;
    rewrite (fields_paren1 w a) by lia;
    let x := eval vm_compute in (fields_func type_sep w) in
    change (fields_func type_sep w) with x
  end.

(** *** user-defined names *)
Definition first_words : list bytes := map bs
  ["varchar"; "character varying"; "char"; "character"; "decimal"; "numeric"; "float"; "bit"; "double precision";
   "float8"; "real"; "float4"; "time"; "timetz"; "timestamp"; "timestamptz"; "interval"]%string.

Lemma first_words_known : forallb (fun n => known_lower (to_lower n)) first_words = true.
Proof. vm_compute. reflexivity. Qed.

Lemma parseParts_default T :
  (forall n, In n first_words -> bytes_eqb T n = false) -> parseParts T [T] = Ok (desc0 T).
Proof.
  intros H. unfold parseParts. cbv zeta beta.
  repeat match goal with
         | |- context [bytes_eqb T (bs ?n)] =>
             rewrite (H (bs n)) by (unfold first_words; cbn [map In]; repeat (first [left; reflexivity | right]))
         end.
  reflexivity.
Qed.

Lemma udt_parse T : udt_ok T = true -> ParseType T = Ok (UserDefinedType T).
Proof.
  unfold udt_ok, ident_ok. intros H.
  apply andb_true_iff in H as [H Hk]. apply andb_true_iff in H as [H Hs]. apply andb_true_iff in H as [Hne Hw].
  apply negb_true_iff in Hne. apply bytes_eqb_neq in Hne. apply negb_true_iff in Hk.
  rewrite ParseType_noarr by (unfold arrayType; rewrite arr_scan_none_nosp by exact Hs; reflexivity).
  rewrite parseColumn_ne by exact Hne.
  rewrite fields_word_end by assumption.
  rewrite parseParts_default.
  2:{ intros n Hin. destruct (bytes_eqb T n) eqn:E; [|reflexivity]. apply bytes_eqb_eq in E. subst n.
      pose proof first_words_known as K. rewrite forallb_forall in K. rewrite (K T Hin) in Hk. discriminate. }
  unfold known_lower in Hk. cbv zeta beta in Hk.
  repeat match type of Hk with (_ || _) = false => apply orb_false_iff in Hk as [Hk ?] end.
  repeat match goal with H : (_ || _) = false |- _ => apply orb_false_iff in H as [? ?] end.
  cbn [bind]. unfold columnType. cbv zeta beta.
  cbn [c_typ c_fmtype c_size c_typtype c_interval c_timePrecision c_precision c_scale desc0].
  repeat match goal with H : ?x = false |- context [?x] => rewrite H end.
  cbn. reflexivity.
Qed.

Lemma udt_fix T : udt_ok T = true -> fix_holds T.
Proof. intros H. exists (UserDefinedType T). split; [apply udt_parse; exact H|reflexivity]. Qed.

Lemma udt_ne T : udt_ok T = true -> T <> [].
Proof. intros H E. subst. discriminate H. Qed.

Lemma prec_cases n : (0 <=? n)%Z && (n <=? 6)%Z = true ->
  (n = 0 \/ n = 1 \/ n = 2 \/ n = 3 \/ n = 4 \/ n = 5 \/ n = 6)%Z.
Proof. intros H. apply andb_true_iff in H as [A B]. apply Z.leb_le in A, B. lia. Qed.

Lemma time_fix f n : In f (map bs ["time"; "timetz"; "timestamp"; "timestamptz"]%string) -> (0 <= n)%Z ->
  Z.eqb n 6 = false -> fix_holds (f ++ paren n).
Proof.
  intros Hin Hn E6. pose proof (itoa_digit_exists n Hn) as D. pose proof (parse_int_itoa n Hn) as P.
  simpl in Hin. destruct Hin as [Hin|[Hin|[Hin|[Hin|[]]]]]; subst f.
  - exists (TimeType (bs "time") (Some n)). split; [|cbv beta iota zeta delta [FormatType defaultTimePrecision]; rewrite E6; reflexivity].
    start1. cbn. rewrite D, P. cbn. reflexivity.
  - exists (TimeType (bs "timetz") (Some n)). split; [|cbv beta iota zeta delta [FormatType defaultTimePrecision]; rewrite E6; reflexivity].
    start1. cbn. rewrite D, P. cbn. reflexivity.
  - exists (TimeType (bs "timestamp") (Some n)). split; [|cbv beta iota zeta delta [FormatType defaultTimePrecision]; rewrite E6; reflexivity].
    start1. cbn. rewrite D, P. cbn. reflexivity.
  - exists (TimeType (bs "timestamptz") (Some n)). split; [|cbv beta iota zeta delta [FormatType defaultTimePrecision]; rewrite E6; reflexivity].
    start1. cbn. rewrite D, P. cbn. reflexivity.
Qed.

Local Opaque parse_int ParseType_f.

Lemma itoa_no_prefix_varying z : (0 <= z)%Z -> has_prefix (itoa z) (bs "varying") = false.
Proof.
  intros H. destruct (is_uint_itoa_nonneg z H) as [H1 _]. unfold is_uint in H1.
  destruct (itoa z) as [|c s]; [reflexivity|]. simpl in H1. apply andb_true_iff in H1 as [H1 _].
  unfold is_digit in H1. apply andb_true_iff in H1 as [A B]. apply N.leb_le in A, B.
  change (bs "varying") with [118; 97; 114; 121; 105; 110; 103]. cbn [has_prefix].
  replace (118 =? c) with false; [reflexivity|]. symmetry. apply N.eqb_neq. lia.
Qed.

Lemma paren1_fix_bit n : (1 <? n)%Z = true -> fix_holds (bs "bit" ++ paren n).
Proof.
  intros E. assert (Hn : (0 <= n)%Z) by (apply Z.ltb_lt in E; lia).
  exists (BitType (bs "bit") n). split.
  - start1. cbn. pose proof (itoa_not_varying n Hn) as NV. cbn in NV. rewrite NV. cbn. rewrite (parse_int_itoa n Hn). cbn. reflexivity.
  - cbv beta iota zeta delta [FormatType]. change (to_lower (bs "bit")) with (bs "bit"). 
    change (bytes_eqb (bs "bit") (bs "bit")) with true. rewrite E. reflexivity.
Qed.

Lemma paren1_fix_bitvar n : (0 <? n)%Z = true -> fix_holds (bs "bit varying" ++ paren n).
Proof.
  intros E. assert (Hn : (0 <= n)%Z) by (apply Z.ltb_lt in E; lia).
  exists (BitType (bs "bit varying") n). split.
  - start1. cbn. rewrite (parse_int_itoa n Hn). cbn. reflexivity.
  - cbv beta iota zeta delta [FormatType]. change (to_lower (bs "bit varying")) with (bs "bit varying").
    change (bytes_eqb (bs "bit varying") (bs "bit")) with false.
    change (bytes_eqb (bs "bit varying") (bs "bit varying")) with true. rewrite E. reflexivity.
Qed.

Lemma paren1_fix_char n : (0 < n)%Z -> fix_holds (bs "character" ++ paren n).
Proof.
  intros E. assert (Hn : (0 <= n)%Z) by lia.
  exists (StringType (bs "character") n). split.
  - start1. unfold parseParts, parseCharParts. cbn. pose proof (itoa_no_prefix_varying n Hn) as NV. cbn in NV. rewrite NV. cbn.
    rewrite (parse_int_itoa n Hn). cbn. rewrite ?andb_false_r. reflexivity.
  - cbv beta iota zeta delta [FormatType]. change (to_lower (bs "character")) with (bs "character").
    replace (Z.eqb n 0) with false by (symmetry; apply Z.eqb_neq; lia). reflexivity.
Qed.

Lemma paren1_fix_varchar n : (0 < n)%Z -> fix_holds (bs "character varying" ++ paren n).
Proof.
  intros E. assert (Hn : (0 <= n)%Z) by lia.
  exists (StringType (bs "character varying") n). split.
  - start1. unfold parseParts, parseCharParts. cbn. rewrite (parse_int_itoa n Hn). cbn. rewrite ?andb_false_r. reflexivity.
  - cbv beta iota zeta delta [FormatType]. change (to_lower (bs "character varying")) with (bs "character varying").
    replace (Z.eqb n 0) with false by (symmetry; apply Z.eqb_neq; lia). reflexivity.
Qed.

Lemma numeric1_fix p : (0 <= p)%Z -> Z.eqb p 0 = false -> fix_holds (bs "numeric" ++ paren p).
Proof.
  intros Hp E. exists (DecimalType (bs "numeric") p 0%Z). split.
  - start1. cbn. rewrite (parse_int_itoa p Hp). cbn. reflexivity.
  - cbv beta iota zeta delta [FormatType]. change (to_lower (bs "numeric")) with (bs "numeric").
    rewrite E. reflexivity.
Qed.

Lemma numeric2_fix p s : (0 <= p)%Z -> (0 < s)%Z -> Z.eqb p 0 = false ->
  fix_holds (bs "numeric" ++ [40] ++ itoa p ++ [44] ++ itoa s ++ [41]).
Proof.
  intros Hp Hs E. assert (Hs' : (0 <= s)%Z) by lia.
  exists (DecimalType (bs "numeric") p s). split.
  - rewrite ParseType_noarr by (apply arrayType_none; rewrite last_paren2; reflexivity).
    rewrite parseColumn_ne by discriminate.
    rewrite (fields_paren2 (bs "numeric") p s) by lia.
    change (fields_func type_sep (bs "numeric")) with [bs "numeric"].
    cbn. rewrite (parse_int_itoa p Hp). cbn. rewrite (parse_int_itoa s Hs'). cbn. reflexivity.
  - cbv beta iota zeta delta [FormatType]. change (to_lower (bs "numeric")) with (bs "numeric").
    rewrite E.
    replace (Z.eqb s 0) with false by (symmetry; apply Z.eqb_neq; lia).
    replace (s <? 0)%Z with false by (symmetry; apply Z.ltb_ge; lia).
    replace (0 <? s)%Z with true by (symmetry; apply Z.ltb_lt; lia).
    reflexivity.
Qed.

(** ** arrays: the element type is parsed recursively (fuel monotonicity) *)
Local Transparent ParseType_f.

Definition arr_branch (r : bytes -> res ty) (c : columnDesc) : res ty :=
  match arrayType (c_fmtype c) with
  | Some e => bind (r e) (fun _ => Ok (ArrayType (c_fmtype c)))
  | None => Ok (ArrayType (c_fmtype c))
  end.

Lemma columnType_array r c : to_lower (c_typ c) = bs "array" -> c_typtype c = [] ->
  columnType r c = arr_branch r c.
Proof.
  intros H Ht. unfold columnType, arr_branch. cbv zeta. rewrite H, Ht.
  destruct (arrayType (c_fmtype c)) as [e|]; [|reflexivity].
  destruct (r e); reflexivity.
Qed.

Lemma columnType_nonarray r1 r2 c : bytes_eqb (to_lower (c_typ c)) (bs "array") = false ->
  columnType r1 c = columnType r2 c.
Proof. intros H. unfold columnType. cbv zeta. rewrite H. reflexivity. Qed.

Lemma columnType_mono r1 r2 c t : (forall e x, r1 e = Ok x -> exists y, r2 e = Ok y) ->
  c_typtype c = [] -> columnType r1 c = Ok t -> columnType r2 c = Ok t.
Proof.
  intros Hr Ht H. destruct (bytes_eqb (to_lower (c_typ c)) (bs "array")) eqn:E.
  - apply bytes_eqb_eq in E. rewrite columnType_array in * by assumption.
    unfold arr_branch in *. destruct (arrayType (c_fmtype c)) as [e|]; [|exact H].
    destruct (r1 e) as [x| |] eqn:E1; try discriminate. destruct (Hr e x E1) as [y Hy]. rewrite Hy. exact H.
  - rewrite (columnType_nonarray r2 r1) by exact E. exact H.
Qed.

Lemma parseParts_typtype s parts c : parseParts s parts = Ok c -> c_typtype c = [].
Proof.
  unfold parseParts. destruct parts as [|p0 rest]; [discriminate|]. cbv zeta.
  repeat match goal with |- context [if ?b then _ else _] => destruct b end; intros H.
  all: try (inversion H; reflexivity).
  - unfold parseCharParts in H.
    destruct (if has_prefix (join [32] (p0 :: rest)) (bs "varchar") then _ else _) as [ty0 ps].
    destruct ps; [inversion H; reflexivity|]. destruct (parse_int b); inversion H; reflexivity.
  - destruct rest as [|p1 r1]; cbn [bind] in H.
    + inversion H; reflexivity.
    + destruct (parse_int p1); try discriminate. cbn [bind] in H.
      destruct r1; [inversion H; reflexivity|]. destruct (parse_int b); inversion H; reflexivity.
  - unfold parseBitParts in H. destruct rest as [|p1 r1]; [inversion H; reflexivity|].
    destruct (bytes_eqb p1 (bs "varying")).
    + destruct r1; [inversion H; reflexivity|]. destruct (parse_int b); [inversion H; reflexivity| |]; destruct r1; discriminate.
    + destruct (parse_int p1); [inversion H; reflexivity| |]; destruct r1; discriminate.
  - destruct rest as [|p1 r1]; [inversion H; reflexivity|].
    destruct (existsb is_digit p1); [|inversion H; reflexivity].
    destruct (parse_int p1); inversion H; reflexivity.
  - destruct (reInterval s). inversion H; reflexivity.
Qed.

Lemma ParseType_f_mono : forall f s t, ParseType_f f s = Ok t -> exists t', ParseType_f (S f) s = Ok t'.
Proof.
  induction f as [|f IH]; intros s t H; [discriminate|].
  cbn [ParseType_f] in H. change (ParseType_f (S (S f)) s) with
    (bind (match arrayType s with
           | Some t0 => Ok (mkDesc (bs "array") (t0 ++ bs "[]") 0%Z [] 0%Z None 0%Z [])
           | None => parseColumn s end)
       (fun c => bind (columnType (ParseType_f (S f)) c) post)).
  destruct (match arrayType s with Some t0 => _ | None => parseColumn s end) as [c| |] eqn:Ed; try discriminate.
  cbn [bind] in *. destruct (columnType (ParseType_f f) c) as [t0| |] eqn:Ec; try discriminate.
  assert (Ht : c_typtype c = []).
  { destruct (arrayType s); [inversion Ed; reflexivity|].
    unfold parseColumn in Ed. destruct s; [discriminate|]. eapply parseParts_typtype; eauto. }
  rewrite (columnType_mono (ParseType_f f) (ParseType_f (S f)) c t0 IH Ht Ec). cbn [bind].
  eexists. reflexivity.
Qed.

(** boolean form of the fixpoint, for the finite families *)
Definition fix_check (s : bytes) : bool :=
  match ParseType s with
  | Ok t' => match FormatType t' with Ok s' => bytes_eqb s' s | _ => false end
  | _ => false
  end.

Lemma fix_check_holds s : fix_check s = true -> fix_holds s.
Proof.
  unfold fix_check, fix_holds. destruct (ParseType s) as [t'| |]; try discriminate.
  destruct (FormatType t') as [s'| |] eqn:E; try discriminate.
  intros H. apply bytes_eqb_eq in H. subst. exists t'. split; [reflexivity|exact E].
Qed.

Definition fmt_interval (lf : bytes) (p : option Z) : bytes :=
  let f := bs "interval" in
  let f := match lf with [] => f | _ => f ++ [32] ++ lf end in
  match p with
  | Some n => if Z.eqb n defaultTimePrecision then f else f ++ paren n
  | None => f
  end.

Definition precs : list (option Z) := [None; Some 0; Some 1; Some 2; Some 3; Some 4; Some 5; Some 6]%Z.

Lemma interval_all :
  forallb (fun lf => forallb (fun p => fix_check (fmt_interval lf p)) precs) ([] :: lower_fields) = true.
Proof. vm_compute. reflexivity. Qed.

Lemma prec_in p : prec_ok p = true -> In p precs.
Proof.
  destruct p as [n|]; [|intros _; left; reflexivity].
  intros H. apply prec_cases in H. unfold precs. simpl.
  repeat (destruct H as [H|H]; [subst; tauto|]). subst; tauto.
Qed.

(** evaluate the closed name tests of HF *)
Ltac evalb HF :=
  repeat match type of HF with
         | context [bytes_eqb ?a ?b] =>
             let v := eval vm_compute in (bytes_eqb a b) in change (bytes_eqb a b) with v in HF
         | context [mem_b ?a ?b] =>
             let v := eval vm_compute in (mem_b a b) in change (mem_b a b) with v in HF
         | context [has_prefix ?a ?b] =>
             let v := eval vm_compute in (has_prefix a b) in change (has_prefix a b) with v in HF
         end;
  cbn [andb orb negb] in HF.

Ltac fin Hwf HF := names Hwf; rewrite Hwf in HF; evalb HF; inversion HF; subst; closed.

Lemma timeAlias_lower T : timeAlias T = timeAlias (to_lower T).
Proof. unfold timeAlias. rewrite to_lower_idem. reflexivity. Qed.

Lemma time_case l n : In l (bs "date" :: time_names) -> (0 <= n)%Z -> Z.eqb n 6 = false ->
  fix_holds (if has_prefix (timeAlias l) (bs "time") then timeAlias l ++ paren n else timeAlias l).
Proof.
  intros Hin Hn E. simpl in Hin.
  destruct Hin as [<-|[<-|[<-|[<-|[<-|[<-|[<-|[<-|[<-|[]]]]]]]]]].
  - change (fix_holds (bs "date")). closed.
  - change (fix_holds (bs "time" ++ paren n)). apply time_fix; [simpl; auto 10|assumption|assumption].
  - change (fix_holds (bs "time" ++ paren n)). apply time_fix; [simpl; auto 10|assumption|assumption].
  - change (fix_holds (bs "timetz" ++ paren n)). apply time_fix; [simpl; auto 10|assumption|assumption].
  - change (fix_holds (bs "timetz" ++ paren n)). apply time_fix; [simpl; auto 10|assumption|assumption].
  - change (fix_holds (bs "timestamp" ++ paren n)). apply time_fix; [simpl; auto 10|assumption|assumption].
  - change (fix_holds (bs "timestamptz" ++ paren n)). apply time_fix; [simpl; auto 10|assumption|assumption].
  - change (fix_holds (bs "timestamptz" ++ paren n)). apply time_fix; [simpl; auto 10|assumption|assumption].
  - change (fix_holds (bs "timestamp" ++ paren n)). apply time_fix; [simpl; auto 10|assumption|assumption].
Qed.

Lemma time_plain l : In l (bs "date" :: time_names) -> fix_holds (timeAlias l).
Proof.
  intros Hin. apply fix_check_holds.
  assert (K : forallb (fun l => fix_check (timeAlias l)) (bs "date" :: time_names) = true) by (vm_compute; reflexivity).
  rewrite forallb_forall in K. apply K. exact Hin.
Qed.

Lemma pg_fix t s : wf t = true -> FormatType t = Ok s -> fix_holds s.
Proof.
  intros Hwf HF.
  destruct t; cbv beta iota zeta delta [wf FormatType] in Hwf, HF; try discriminate.
  - (* BitType *)
    apply andb_true_iff in Hwf as [Hn Hs]. apply Z.leb_le in Hs.
    names Hn; rewrite Hn in HF; evalb HF.
    + destruct (1 <? Len)%Z eqn:E; cbn [andb orb] in HF; inversion HF; subst; [apply paren1_fix_bit; exact E|closed].
    + destruct (0 <? Len)%Z eqn:E; cbn [andb orb] in HF; inversion HF; subst; [apply paren1_fix_bitvar; exact E|closed].
  - (* BoolType *) fin Hwf HF.
  - (* BinaryType *) fin Hwf HF.
  - (* CurrencyType *) fin Hwf HF.
  - (* CompositeType *) pose proof (udt_ne _ Hwf). destruct T; [congruence|]. inversion HF; subst. apply udt_fix; exact Hwf.
  - (* DomainType *) pose proof (udt_ne _ Hwf). destruct T; [congruence|]. inversion HF; subst. apply udt_fix; exact Hwf.
  - (* EnumType *) pose proof (udt_ne _ Hwf). destruct T; [congruence|]. inversion HF; subst. apply udt_fix; exact Hwf.
  - (* IntegerType *) fin Hwf HF.
  - (* IntervalType *)
    apply andb_true_iff in Hwf as [Hwf Hp]. apply andb_true_iff in Hwf as [Hn Hf].
    names Hn. rewrite Hn in HF.
    assert (Hin : In (to_lower F) ([] :: lower_fields)).
    { destruct F; [left; reflexivity|right; apply mem_b_In; exact Hf]. }
    assert (Es : s = fmt_interval (to_lower F) Precision).
    { destruct F; inversion HF; reflexivity. }
    subst s. apply fix_check_holds.
    pose proof interval_all as K. rewrite forallb_forall in K. specialize (K _ Hin).
    rewrite forallb_forall in K. apply K. apply prec_in. exact Hp.
  - (* StringType *)
    apply andb_true_iff in Hwf as [Hn Hs]. apply Z.leb_le in Hs.
    names Hn; rewrite Hn in HF; evalb HF; inversion HF; subst; clear HF.
    + destruct (Z.eqb Size 0) eqn:E; [closed|]. apply paren1_fix_char. apply Z.eqb_neq in E. lia.
    + destruct (Z.eqb Size 0) eqn:E; [closed|]. apply paren1_fix_char. apply Z.eqb_neq in E. lia.
    + destruct (Z.eqb Size 0) eqn:E; [closed|]. apply paren1_fix_varchar. apply Z.eqb_neq in E. lia.
    + destruct (Z.eqb Size 0) eqn:E; [closed|]. apply paren1_fix_varchar. apply Z.eqb_neq in E. lia.
    + closed.
    + closed.
    + closed.
  - (* TimeType *)
    apply andb_true_iff in Hwf as [Hn Hs]. unfold lname in Hn. apply mem_b_In in Hn.
    rewrite timeAlias_lower in HF.
    destruct Precision as [n|].
    + apply Z.leb_le in Hs. unfold defaultTimePrecision in HF.
      destruct (Z.eqb n 6) eqn:E6; cbn [negb andb] in HF; inversion HF; subst; clear HF.
      * apply time_plain; exact Hn.
      * apply time_case; assumption.
    + inversion HF; subst. apply time_plain; exact Hn.
  - (* FloatType *)
    names Hwf; rewrite Hwf in HF; evalb HF; [inversion HF; subst; closed|inversion HF; subst; closed| |inversion HF; subst; closed|inversion HF; subst; closed].
    destruct ((0 <? Precision)%Z && (Precision <=? 24)%Z); [inversion HF; subst; closed|].
    destruct (Z.eqb Precision 0 || (24 <? Precision)%Z && (Precision <=? 53)%Z); [inversion HF; subst; closed|discriminate].
  - (* DecimalType *)
    apply andb_true_iff in Hwf as [Hn Hp]. apply Z.leb_le in Hp.
    assert (HF' : (if Z.eqb Precision 0 && Z.eqb Scale 0 then Ok (bs "numeric")
                   else if (Scale <? 0)%Z then Err
                   else if Z.eqb Precision 0 && (0 <? Scale)%Z then Err
                   else if Z.eqb Scale 0 then Ok (bs "numeric" ++ paren Precision)
                   else Ok (bs "numeric" ++ [40] ++ itoa Precision ++ [44] ++ itoa Scale ++ [41])) = Ok s).
    { names Hn; rewrite Hn in HF; exact HF. }
    clear HF Hn.
    destruct (Z.eqb Precision 0 && Z.eqb Scale 0) eqn:E1; [inversion HF'; subst; closed|].
    destruct (Scale <? 0)%Z eqn:E2; [discriminate|]. apply Z.ltb_ge in E2.
    destruct (Z.eqb Precision 0 && (0 <? Scale)%Z) eqn:E3; [discriminate|].
    destruct (Z.eqb Scale 0) eqn:E4; inversion HF'; subst; clear HF'.
    + rewrite andb_true_r in E1. apply numeric1_fix; assumption.
    + assert (0 < Scale)%Z by (apply Z.eqb_neq in E4; lia).
      replace (0 <? Scale)%Z with true in E3 by (symmetry; apply Z.ltb_lt; assumption).
      rewrite andb_true_r in E3. apply numeric2_fix; assumption.
  - (* SerialType *) fin Hwf HF.
  - (* JSONType *) fin Hwf HF.
  - (* UUIDType *) fin Hwf HF.
  - (* SpatialType *) fin Hwf HF.
  - (* NetworkType *) fin Hwf HF.
  - (* RangeType *) fin Hwf HF.
  - (* OIDType *) fin Hwf HF.
  - (* TextSearchType *) fin Hwf HF.
  - (* UserDefinedType *) inversion HF; subst. apply udt_fix; exact Hwf.
  - (* XMLType *) fin Hwf HF.
  - (* PseudoType *) fin Hwf HF.
Qed.

(** the unrestricted statement is false: a user-defined (enum) type whose name is a built-in name *)
Lemma pg_fix_refuted : exists t s, FormatType t = Ok s /\ ~ fix_holds s.
Proof.
  exists (EnumType (bs "int")), (bs "int"). split; [reflexivity|].
  intros [t' [HP HF]]. vm_compute in HP. inversion HP; subst. vm_compute in HF. discriminate.
Qed.

(** ** arrays *)
Definition parse_ok (n : bytes) : bool := match ParseType n with Ok _ => true | _ => false end.

Lemma array_fix l n : arrayType l = Some n -> n ++ bs "[]" = l -> to_lower l = l ->
  parse_ok n = true -> fix_holds l.
Proof.
  intros H1 H2 H3 H4. unfold parse_ok in H4. destruct (ParseType n) as [t'| |] eqn:H5; try discriminate. clear H4.
  rename H5 into H4. unfold ParseType in H4. apply ParseType_f_mono in H4 as [t2 H4].
  assert (EL : length l = S (S (length n))).
  { rewrite <- H2, app_length. simpl. rewrite Nat.add_comm. reflexivity. }
  exists (ArrayType l). split.
  - unfold ParseType. cbn [ParseType_f]. rewrite H1. cbn [bind].
    rewrite columnType_array by reflexivity. unfold arr_branch. cbn [c_fmtype]. rewrite H2, H1.
    rewrite EL, H4. reflexivity.
  - cbn [FormatType]. rewrite H3. reflexivity.
Qed.

(** ArrayType T: the (lower-cased) text is [n ++ "[]"] where n is what arrayType extracts and the
    element text n is accepted by ParseType *)
Definition arr_wf (T : bytes) : bool :=
  let l := to_lower T in
  match arrayType l with
  | Some n => bytes_eqb (n ++ bs "[]") l && parse_ok n
  | None => false
  end.

Definition wf_all (t : ty) : bool :=
  match t with ArrayType T => arr_wf T | _ => wf t end.

Lemma pg_fix_all t s : wf_all t = true -> FormatType t = Ok s -> fix_holds s.
Proof.
  destruct t; try (apply pg_fix).
  unfold wf_all, arr_wf. cbn [FormatType]. intros H HF. inversion HF; subst; clear HF.
  destruct (arrayType (to_lower T)) as [n|] eqn:E; [|discriminate].
  apply andb_true_iff in H as [H1 H2]. apply bytes_eqb_eq in H1.
  apply (array_fix (to_lower T) n); auto. apply to_lower_idem.
Qed.

(** every spec name of the dumped PostgreSQL registry is a well-formed element type, and so is its array *)
Definition elem_names_ok (names : list bytes) : bool :=
  forallb (fun n => fix_check n && arr_wf (n ++ bs "[]")) names.
