(** C15, MySQL: ENUM / SET value lists. strings.Split at quote-comma-quote followed by
    strings.Trim inverts formatValues (join of the single-quoted values) exactly when the opening
    quote cannot be taken for a separator, and with it the FormatType/ParseType fixpoint for
    every class of the dialect. *)
From Coq Require Import String.
From Coq Require Import List NArith ZArith Bool Lia.
From Atlas Require Import Base.Bytes Hcl.Str Hcl.StrProofs Hcl.RegistryDefs Hcl.Registry Hcl.TypesMysql Hcl.MysqlProofs.
Import ListNotations.
Import Mysql.
Local Open Scope N_scope.

(** ** ENUM / SET value lists: strings.Split at quote-comma-quote inverts formatValues *)
Definition no39 (v : bytes) : bool := forallb (fun c => negb (c =? 39)) v.
Definition sep3 : bytes := [39; 44; 39].
Definition q (v : bytes) : bytes := 39 :: v ++ [39].

(** what follows a value in the formatted list: the closing quote, or separator + next value ... *)
Fixpoint tail_str (vs : list bytes) : bytes :=
  match vs with
  | [] => [39]
  | v :: r => sep3 ++ v ++ tail_str r
  end.

Lemma join_q v vs : join [44] (map q (v :: vs)) = 39 :: v ++ tail_str vs.
Proof.
  revert v. induction vs as [|w r IH]; intros v.
  - reflexivity.
  - change (join [44] (map q (v :: w :: r))) with (q v ++ [44] ++ join [44] (map q (w :: r))).
    rewrite IH. unfold q, sep3. cbn [app tail_str]. rewrite <- app_assoc. reflexivity.
Qed.

Lemma hp3 x : has_prefix (39 :: 44 :: 39 :: x) [39; 44; 39] = true.
Proof. cbn. destruct x; reflexivity. Qed.

(** scanning a value without a quote never matches the separator *)
Lemma split_aux_value : forall w fuel rest cur, no39 w = true -> (length (w ++ rest) < fuel)%nat ->
  split_aux fuel sep3 (w ++ rest) cur = split_aux (fuel - length w) sep3 rest (rev w ++ cur).
Proof.
  induction w as [|c w IH]; intros fuel rest cur Hw Hf.
  - simpl. rewrite Nat.sub_0_r. reflexivity.
  - simpl in Hw. apply andb_true_iff in Hw as [Hc Hw]. apply negb_true_iff in Hc.
    destruct fuel as [|f]; [simpl in Hf; lia|].
    cbn [app split_aux]. unfold sep3 at 1. cbn [has_prefix]. rewrite N.eqb_sym, Hc. cbn [andb].
    rewrite IH by (auto; simpl in Hf; lia). simpl. rewrite <- app_assoc. reflexivity.
Qed.

(** the pieces from a position right after a value; [cur] = that value (and what precedes it), reversed *)
Fixpoint pieces (cur : bytes) (vs : list bytes) : list bytes :=
  match vs with
  | [] => [rev cur ++ [39]]
  | v :: r => rev cur :: pieces (rev v) r
  end.

Lemma split_aux_tail : forall vs fuel cur, forallb no39 vs = true -> (length (tail_str vs) < fuel)%nat ->
  split_aux fuel sep3 (tail_str vs) cur = pieces cur vs.
Proof.
  induction vs as [|v r IH]; intros fuel cur Hvs Hf.
  - simpl in *. destruct fuel as [|f]; [lia|]. cbn [split_aux has_prefix sep3]. cbn.
    destruct f; [lia|reflexivity].
  - simpl in Hvs. apply andb_true_iff in Hvs as [Hv Hr].
    destruct fuel as [|f]; [simpl in Hf; lia|].
    cbn [tail_str]. unfold sep3. cbn [app split_aux].
    rewrite hp3. 
    cbn [length skipn].
    cbn [pieces]. f_equal.
    cbn [tail_str] in Hf. unfold sep3 in Hf. cbn [app length] in Hf. rewrite app_length in Hf.
    fold sep3. rewrite split_aux_value by (auto; rewrite app_length; lia).
    rewrite app_nil_r. apply IH; [exact Hr|]. lia.
Qed.

(** the first value: the opening quote matches the separator only when the value is exactly "," *)
Lemma first_no_match v rest : no39 v = true -> v <> [44] -> (exists x, rest = 39 :: x) ->
  has_prefix (39 :: v ++ rest) sep3 = false.
Proof.
  intros Hv Hne [x ->]. unfold sep3. cbn [has_prefix]. rewrite N.eqb_refl. cbn [andb].
  destruct v as [|c v]; [reflexivity|].
  cbn [app has_prefix]. destruct (44 =? c) eqn:E; [|reflexivity]. apply N.eqb_eq in E. subst c. cbn [andb].
  destruct v as [|d v]; [congruence|].
  simpl in Hv. apply andb_true_iff in Hv as [Hd _]. apply negb_true_iff in Hd.
  cbn [app has_prefix]. rewrite N.eqb_sym, Hd. reflexivity.
Qed.

Lemma tail_str_head vs : exists x, tail_str vs = 39 :: x.
Proof. destruct vs; [exists []; reflexivity|]. eexists. reflexivity. Qed.

Lemma split_formatted v vs : no39 v = true -> forallb no39 vs = true -> v <> [44] ->
  split (39 :: v ++ tail_str vs) sep3 = pieces (rev v ++ [39]) vs.
Proof.
  intros Hv Hvs Hne. unfold split. cbn [split_aux].
  rewrite first_no_match by (auto using tail_str_head).
  rewrite split_aux_value by (auto; cbn [length]; lia).
  apply split_aux_tail; [exact Hvs|]. cbn [length]. rewrite app_length. lia.
Qed.

(** strings.Trim(v, "'") *)
Lemma dw_no39 v : no39 v = true -> drop_while (N.eqb 39) v = v.
Proof. destruct v as [|c v]; [reflexivity|]. unfold no39. cbn [forallb drop_while]. intros H. apply andb_true_iff in H as [H _].
  apply negb_true_iff in H. rewrite N.eqb_sym, H. reflexivity. Qed.

Lemma no39_rev v : no39 (rev v) = no39 v.
Proof.
  unfold no39. induction v as [|c v IH]; [reflexivity|]. simpl. rewrite forallb_app, IH. simpl.
  rewrite andb_true_r. apply andb_comm.
Qed.

Lemma tr_no39 v : no39 v = true -> trim_right (N.eqb 39) v = v.
Proof. intros H. unfold trim_right. rewrite dw_no39 by (rewrite no39_rev; exact H). apply rev_involutive. Qed.

Lemma trim_plain v : no39 v = true -> trim_c 39 v = v.
Proof. intros H. unfold trim_c, trim_f. rewrite dw_no39 by exact H. apply tr_no39. exact H. Qed.

Lemma trim_left_q v : no39 v = true -> trim_c 39 (39 :: v) = v.
Proof. intros H. unfold trim_c, trim_f. cbn [drop_while]. rewrite N.eqb_refl. rewrite dw_no39 by exact H. apply tr_no39. exact H. Qed.

Lemma tr_right_q v : trim_right (N.eqb 39) (v ++ [39]) = trim_right (N.eqb 39) v.
Proof. unfold trim_right. rewrite rev_app_distr. cbn [rev app drop_while]. rewrite N.eqb_refl. reflexivity. Qed.

Lemma trim_right_q v : no39 v = true -> trim_c 39 (v ++ [39]) = v.
Proof.
  intros H. unfold trim_c, trim_f. destruct v as [|c v].
  - reflexivity.
  - assert (E : drop_while (N.eqb 39) ((c :: v) ++ [39]) = (c :: v) ++ [39]).
    { unfold no39 in H. cbn [forallb] in H. cbn [app drop_while]. apply andb_true_iff in H as [H _]. apply negb_true_iff in H. rewrite N.eqb_sym, H. reflexivity. }
    rewrite E, tr_right_q. apply tr_no39. exact H.
Qed.

Lemma trim_both_q v : no39 v = true -> trim_c 39 (39 :: v ++ [39]) = v.
Proof.
  intros H. unfold trim_c, trim_f. cbn [drop_while]. rewrite N.eqb_refl. fold (trim_f (N.eqb 39) (v ++ [39])).
  apply trim_right_q. exact H.
Qed.

Lemma trim_pieces : forall vs w, no39 w = true -> forallb no39 vs = true ->
  map (trim_c 39) (pieces (rev w) vs) = w :: vs.
Proof.
  induction vs as [|v r IH]; intros w Hw Hvs.
  - cbn [pieces map]. rewrite rev_involutive, trim_right_q by exact Hw. reflexivity.
  - simpl in Hvs. apply andb_true_iff in Hvs as [Hv Hr].
    cbn [pieces map]. rewrite rev_involutive, trim_plain by exact Hw. rewrite IH by assumption. reflexivity.
Qed.

Lemma trim_pieces_first : forall vs v, no39 v = true -> forallb no39 vs = true ->
  map (trim_c 39) (pieces (rev v ++ [39]) vs) = v :: vs.
Proof.
  intros vs v Hv Hvs. destruct vs as [|w r].
  - cbn [pieces map]. rewrite rev_app_distr, rev_involutive. cbn [rev app]. rewrite trim_both_q by exact Hv. reflexivity.
  - simpl in Hvs. apply andb_true_iff in Hvs as [Hw Hr].
    cbn [pieces map]. rewrite rev_app_distr, rev_involutive. cbn [rev app]. rewrite trim_left_q by exact Hv.
    rewrite trim_pieces by assumption. reflexivity.
Qed.

(** strings.Split(formatValues vs, "','") then Trim inverts the join *)
Lemma split_join_inv v vs : no39 v = true -> forallb no39 vs = true -> v <> [44] ->
  map (trim_c 39) (split (join [44] (map q (v :: vs))) sep3) = v :: vs.
Proof.
  intros Hv Hvs Hne. rewrite join_q, split_formatted by assumption. apply trim_pieces_first; assumption.
Qed.

(** ** FormatType / ParseType on ENUM and SET *)
Definition no34 (v : bytes) : bool := forallb (fun c => negb (c =? 34)) v.
Definition val_ok (v : bytes) : bool := no39 v && no34 v && no_slash v.
(** a value list ParseType reads back: no value contains a quote, a double quote or a slash, and
    the first value is not exactly "," *)
Definition vals_ok (vs : list bytes) : bool :=
  match vs with
  | v :: _ => forallb val_ok vs && negb (bytes_eqb v [44])
  | [] => false
  end.

Lemma is_quoted_false v : no39 v = true -> no34 v = true -> is_quoted v [34; 39] = false.
Proof.
  intros H39 H34. unfold is_quoted. destruct (Nat.ltb (length v) 2); [reflexivity|].
  destruct v as [|c0 body]; [reflexivity|].
  unfold no39 in H39. unfold no34 in H34. cbn [forallb] in H39, H34.
  apply andb_true_iff in H39 as [A _]. apply andb_true_iff in H34 as [B _]. apply negb_true_iff in A, B.
  cbn [is_quoted_qs]. unfold is_quoted_one. destruct (rev (c0 :: body)) as [|cl t]; [reflexivity|].
  rewrite A, B. reflexivity.
Qed.

Lemma format_values_q vs : forallb val_ok vs = true -> map format_value vs = map q vs.
Proof.
  induction vs as [|v r IH]; [reflexivity|]. cbn [forallb map]. intros H. apply andb_true_iff in H as [Hv Hr].
  unfold val_ok in Hv. apply andb_true_iff in Hv as [Hv _]. apply andb_true_iff in Hv as [H39 H34].
  rewrite IH by exact Hr. unfold format_value at 1. rewrite is_quoted_false by assumption. reflexivity.
Qed.

Lemma hp_nil s : has_prefix s [] = true.
Proof. destruct s; reflexivity. Qed.

Lemma has_prefix_app p x : has_prefix (p ++ x) p = true.
Proof. induction p as [|c p IH]; [apply hp_nil|]. cbn [app has_prefix]. rewrite N.eqb_refl, IH. reflexivity. Qed.

Lemma skipn_len_app (a b : bytes) : skipn (length a) (a ++ b) = b.
Proof. induction a; simpl; auto. Qed.

Lemma firstn_len_app (a b : bytes) : firstn (length a) (a ++ b) = a.
Proof. induction a; simpl; congruence. Qed.

Lemma trim_prefix_app p x : trim_prefix (p ++ x) p = x.
Proof. unfold trim_prefix. rewrite has_prefix_app. apply skipn_len_app. Qed.

Lemma trim_suffix_1 x c : trim_suffix (x ++ [c]) [c] = x.
Proof.
  unfold trim_suffix, has_suffix. rewrite rev_app_distr. cbn [rev app has_prefix]. rewrite N.eqb_refl, hp_nil. cbn [andb].
  rewrite app_length. cbn [length]. rewrite Nat.add_sub. apply firstn_len_app.
Qed.

Lemma no_slash_tail vs : forallb val_ok vs = true -> no_slash (tail_str vs) = true.
Proof.
  induction vs as [|v r IH]; [reflexivity|]. cbn [forallb tail_str]. intros H. apply andb_true_iff in H as [Hv Hr].
  unfold val_ok in Hv. apply andb_true_iff in Hv as [_ Hs].
  rewrite !no_slash_app, Hs, IH by exact Hr. reflexivity.
Qed.

Lemma values_fix (name : bytes) (mk : list bytes -> ty) vs :
  word_ok name = true ->
  (forall raw ps size u, parseColumn raw = Ok (name :: ps, size, u) ->
     ParseType raw = bind (parse_values raw name) (fun vs => Ok (mk vs))) ->
  (forall vs, FormatType (mk vs) = Ok (name ++ [40] ++ formatValues vs ++ [41])) ->
  vals_ok vs = true -> fix_holds (name ++ [40] ++ formatValues vs ++ [41]).
Proof.
  intros Hname HP HF Hok. destruct vs as [|v r]; [discriminate|].
  unfold vals_ok in Hok. apply andb_true_iff in Hok as [Hall Hne].
  apply negb_true_iff in Hne. apply bytes_eqb_neq in Hne.
  assert (Hv : no39 v = true /\ forallb no39 r = true).
  { cbn [forallb] in Hall. apply andb_true_iff in Hall as [Hv Hr]. split.
    - unfold val_ok in Hv. apply andb_true_iff in Hv as [Hv _]. apply andb_true_iff in Hv as [Hv _]. exact Hv.
    - clear -Hr. induction r as [|w r IH]; [reflexivity|]. cbn [forallb] in *. apply andb_true_iff in Hr as [Hw Hr].
      rewrite IH by exact Hr. unfold val_ok in Hw. apply andb_true_iff in Hw as [Hw _]. apply andb_true_iff in Hw as [Hw _].
      rewrite Hw. reflexivity. }
  destruct Hv as [Hv Hr].
  assert (Efv : formatValues (v :: r) = 39 :: v ++ tail_str r).
  { unfold formatValues. rewrite format_values_q by exact Hall. apply join_q. }
  exists (mk (v :: r)). split; [|apply HF].
  apply word_ok_inv in Hname as (W1 & W2 & W3).
  set (raw := name ++ [40] ++ formatValues (v :: r) ++ [41]).
  assert (Hpc : exists ps size u, parseColumn raw = Ok (name :: ps, size, u)).
  { unfold parseColumn. rewrite index_no_slash.
    2:{ unfold raw. rewrite Efv. cbn [app]. rewrite !no_slash_app. cbn [no_slash forallb]. rewrite W2.
        cbn [forallb] in Hall. apply andb_true_iff in Hall as [Hv0 Hr0].
        unfold val_ok in Hv0. apply andb_true_iff in Hv0 as [_ Hs]. rewrite !no_slash_app, Hs, (no_slash_tail r Hr0). reflexivity. }
    unfold raw. cbn [app]. rewrite (fields_word_sep type_sep name 40) by (auto; reflexivity).
    eexists _, _, _. reflexivity. }
  destruct Hpc as (ps & size & u & Hpc).
  rewrite (HP raw ps size u Hpc).
  unfold parse_values, raw.
  replace (name ++ [40] ++ formatValues (v :: r) ++ [41]) with ((name ++ [40]) ++ formatValues (v :: r) ++ [41])
    by (rewrite <- app_assoc; reflexivity).
  rewrite trim_prefix_app, trim_suffix_1. rewrite Efv. cbv iota.
  change (bs "','") with sep3.
  rewrite split_formatted by assumption. rewrite trim_pieces_first by assumption. reflexivity.
Qed.

Lemma ParseType_enum raw ps size u : parseColumn raw = Ok (bs "enum" :: ps, size, u) ->
  ParseType raw = bind (parse_values raw (bs "enum")) (fun vs => Ok (EnumType (bs "enum") vs)).
Proof. intros H. unfold ParseType. rewrite H. reflexivity. Qed.

Lemma ParseType_set raw ps size u : parseColumn raw = Ok (bs "set" :: ps, size, u) ->
  ParseType raw = bind (parse_values raw (bs "set")) (fun vs => Ok (SetType vs)).
Proof. intros H. unfold ParseType. rewrite H. reflexivity. Qed.

(** well-formed types including ENUM / SET value lists *)
Definition wf_all (t : ty) : bool :=
  match t with
  | EnumType _ vs | SetType vs => vals_ok vs
  | _ => wf t
  end.

Lemma mysql_fix_all t s : wf_all t = true -> FormatType t = Ok s -> fix_holds s.
Proof.
  destruct t; try (apply mysql_fix); cbn [wf_all FormatType]; intros Hok HF; inversion HF; subst; clear HF.
  - apply (values_fix (bs "enum") (fun vs => EnumType (bs "enum") vs)); auto.
    + intros. eapply ParseType_enum; eauto.
  - apply (values_fix (bs "set") SetType); auto.
    + intros. eapply ParseType_set; eauto.
Qed.
