(** M-TYPE, MySQL: type classes, FormatType / ParseType / formatValues
    (sql/mysql/convert.go), parseColumn (sql/mysql/inspect_oss.go) and the
    instantiation of the registry with mysql.TypeRegistry
    (sql/mysql/sqlspec_oss.go: TypeRegistry, columnTypeSpec, convertColumnType;
    dumped to gen/Gen_Registry_mysql.v). No proofs here. *)
From Coq Require Import String.
From Coq Require Import List NArith ZArith Bool.
From Atlas Require Import Base.Bytes Hcl.Str Hcl.RegistryDefs Hcl.Registry gen.Gen_Registry_mysql.
Import ListNotations.
Local Open Scope N_scope.

Module Mysql.

(** IntegerType.Attrs as ParseType fills it: [DisplayWidth{N}; ZeroFill{A}] *)
Inductive iattr := DisplayWidth (n : Z) | ZeroFill (a : bytes).

Inductive ty :=
| BoolType (T : bytes)
| BinaryType (T : bytes) (Size : option Z)
| EnumType (T : bytes) (Values : list bytes)
| IntegerType (T : bytes) (Unsigned : bool) (Attrs : list iattr)
| StringType (T : bytes) (Size : Z)
| TimeType (T : bytes) (Precision Scale : option Z)
| FloatType (T : bytes) (Unsigned : bool) (Precision : Z)
| DecimalType (T : bytes) (Precision Scale : Z) (Unsigned : bool)
| JSONType (T : bytes)
| SpatialType (T : bytes)
| UUIDType (T : bytes)
| UnsupportedType (T : bytes)
| BitType (T : bytes) (Size : Z)
| SetType (Values : list bytes)
| NetworkType (T : bytes).

Definition paren (z : Z) : bytes := [40] ++ itoa z ++ [41].
Definition uns (u : bool) (f : bytes) : bytes := if u then f ++ bs " unsigned" else f.

(** formatValues: single-quote unless already quoted with a double or single quote *)
Definition format_value (v : bytes) : bytes :=
  if is_quoted v [34; 39] then v else [39] ++ v ++ [39].
Definition formatValues (vs : list bytes) : bytes := join [44] (map format_value vs).

(** mysql.FormatType *)
Definition FormatType (t : ty) : res bytes :=
  match t with
  | BitType T sz =>
      let f := to_lower T in
      Ok (if (1 <? sz)%Z then f ++ paren sz else f)
  | BoolType T =>
      let f := to_lower T in
      Ok (if mem_b f (map bs ["bool"; "boolean"; "tinyint"; "tinyint(1)"]%string) then bs "bool" else f)
  | BinaryType T sz =>
      let f := to_lower T in
      match sz with
      | Some n =>
          if bytes_eqb f (bs "varbinary") || (bytes_eqb f (bs "binary") && negb (Z.eqb n 1))
          then Ok (f ++ paren n) else Ok f
      | None => Ok f
      end
  | DecimalType T p s u =>
      let f := to_lower T in
      if negb (bytes_eqb f (bs "decimal")) && negb (bytes_eqb f (bs "numeric")) then Err
      else if (p <? 0)%Z || (s <? 0)%Z then Err
      else if (p <? s)%Z then Err
      else if Z.eqb p 0 && Z.eqb s 0 then Ok (uns u (bs "decimal" ++ paren 10))
      else if Z.eqb s 0 then Ok (uns u (bs "decimal" ++ paren p))
      else Ok (uns u (bs "decimal" ++ [40] ++ itoa p ++ [44] ++ itoa s ++ [41]))
  | EnumType _ vs => Ok (bs "enum(" ++ formatValues vs ++ [41])
  | FloatType T u p =>
      let f := to_lower T in
      let f := if (bytes_eqb f (bs "float") && (24 <? p)%Z) || bytes_eqb f (bs "real") then bs "double" else f in
      Ok (uns u f)
  | IntegerType T u _ => Ok (uns u (to_lower T))
  | JSONType T => Ok (to_lower T)
  | SetType vs => Ok (bs "set(" ++ formatValues vs ++ [41])
  | StringType T sz =>
      let f := to_lower T in
      if bytes_eqb f (bs "char") then Ok (if (0 <? sz)%Z then f ++ paren sz else f)
      else if bytes_eqb f (bs "varchar") then Ok (bs "varchar" ++ paren sz)
      else Ok f
  | SpatialType T => Ok (to_lower T)
  | TimeType T p _ =>
      let f := to_lower T in
      match p with
      | Some n => Ok (if (0 <? n)%Z then f ++ paren n else f)
      | None => Ok f
      end
  | UUIDType T => Ok (to_lower T)
  | NetworkType T => Ok (to_lower T)
  | UnsupportedType _ => Err
  end.

Definition N_ (s : string) := bs s.
Definition size_names := map bs ["bit"; "binary"; "varbinary"; "char"; "varchar"]%string.
Definition int_names := map bs ["tinyint"; "smallint"; "mediumint"; "int"; "bigint"]%string.
Definition num_names := int_names ++ map bs ["decimal"; "numeric"; "float"; "double"; "real"]%string.
Definition blob_names := map bs ["tinyblob"; "mediumblob"; "blob"; "longblob"]%string.
Definition text_names := map bs ["tinytext"; "mediumtext"; "text"; "longtext"]%string.
Definition time_names := map bs ["date"; "datetime"; "time"; "timestamp"; "year"]%string.
Definition spatial_names :=
  map bs ["point"; "multipoint"; "linestring"; "multilinestring"; "polygon"; "multipolygon"; "geometry";
          "geomcollection"; "geometrycollection"]%string.

(** parseColumn: (parts, size, unsigned) *)
Definition parseColumn (typ : bytes) : res (list bytes * Z * bool) :=
  let typ :=
    match index_of typ (bs "/*") with
    | Some (S i) => if has_suffix (trim_space typ) (bs "*/") then trim_space (firstn (S i) typ) else typ
    | _ => typ
    end in
  match fields_func type_sep typ with
  | [] => Err
  | (p0 :: _) as parts =>
      let lastp := last parts [] in
      let unsigned :=
        mem_b p0 num_names && (bytes_eqb lastp (bs "unsigned") || bytes_eqb lastp (bs "zerofill")) in
      let size :=
        match nth_error parts 1 with
        | Some p1 => if is_uint p1 then match atoi p1 with Some z => z | None => 0%Z end else 0%Z
        | None => 0%Z
        end in
      Ok (parts, size, unsigned)
  end.

(** strconv.Atoi(parts[i]) when present and not "unsigned" *)
Definition opt_num (parts : list bytes) (i : nat) : res Z :=
  match nth_error parts i with
  | None => Ok 0%Z
  | Some p => if bytes_eqb p (bs "unsigned") then Ok 0%Z
              else match atoi p with Some z => Ok z | None => Err end
  end.

(** the enum/set value list: TrimSuffix(TrimPrefix(raw, t+lparen), rparen), Split at quote-comma-quote, Trim quotes *)
Definition parse_values (raw t : bytes) : res (list bytes) :=
  let rv := trim_suffix (trim_prefix raw (t ++ [40])) [41] in
  match rv with
  | [] => Err
  | _ => Ok (map (trim_c 39) (split rv (bs "','")))
  end.

(** mysql.ParseType *)
Definition ParseType (raw : bytes) : res ty :=
  bind (parseColumn raw) (fun '(parts, size, unsigned) =>
  match parts with
  | [] => Err
  | t :: _ =>
      let is n := bytes_eqb t (bs n) in
      if is "bit"%string then Ok (BitType t size)
      else if is "bool"%string || is "boolean"%string then Ok (BoolType (bs "bool"))
      else if mem_b t int_names then
        if Z.eqb size 1 then Ok (BoolType (bs "bool"))
        else
          let attr := last parts [] in
          Ok (IntegerType t unsigned
                (if bytes_eqb attr (bs "zerofill") && negb (Z.eqb size 0)
                 then [DisplayWidth size; ZeroFill attr] else []))
      else if is "numeric"%string || is "decimal"%string then
        bind (opt_num parts 1) (fun p => bind (opt_num parts 2) (fun s => Ok (DecimalType t p s unsigned)))
      else if is "float"%string || is "double"%string || is "real"%string then
        bind (opt_num parts 1) (fun p => Ok (FloatType t unsigned p))
      else if is "binary"%string || is "varbinary"%string then
        Ok (BinaryType t (match parts with _ :: _ :: _ => Some size | _ => None end))
      else if mem_b t blob_names then Ok (BinaryType t None)
      else if is "char"%string || is "varchar"%string then Ok (StringType t size)
      else if mem_b t text_names then Ok (StringType t 0%Z)
      else if is "enum"%string then bind (parse_values raw t) (fun vs => Ok (EnumType (bs "enum") vs))
      else if is "set"%string then bind (parse_values raw t) (fun vs => Ok (SetType vs))
      else if mem_b t time_names then
        match nth_error parts 1 with
        | Some p1 => match atoi p1 with Some z => Ok (TimeType t (Some z) None) | None => Err end
        | None => Ok (TimeType t None None)
        end
      else if is "json"%string then Ok (JSONType t)
      else if mem_b t spatial_names then Ok (SpatialType t)
      else if is "uuid"%string then Ok (UUIDType t)
      else if is "inet4"%string || is "inet6"%string then Ok (NetworkType t)
      else Ok (UnsupportedType t)
  end).

(** ** the registry's view of a type *)
Definition ty_T (t : ty) : option bytes :=
  match t with
  | BoolType T | BinaryType T _ | EnumType T _ | IntegerType T _ _ | StringType T _ | TimeType T _ _
  | FloatType T _ _ | DecimalType T _ _ _ | JSONType T | SpatialType T | UUIDType T | UnsupportedType T
  | BitType T _ | NetworkType T => Some T
  | SetType _ => None
  end.

Definition ty_unsupported (t : ty) : option bytes :=
  match t with UnsupportedType T => Some T | _ => None end.

Definition ty_rtype (t : ty) : bytes :=
  bs match t with
     | BoolType _ => "schema.BoolType" | BinaryType _ _ => "schema.BinaryType" | EnumType _ _ => "schema.EnumType"
     | IntegerType _ _ _ => "schema.IntegerType" | StringType _ _ => "schema.StringType" | TimeType _ _ _ => "schema.TimeType"
     | FloatType _ _ _ => "schema.FloatType" | DecimalType _ _ _ _ => "schema.DecimalType" | JSONType _ => "schema.JSONType"
     | SpatialType _ => "schema.SpatialType" | UUIDType _ => "schema.UUIDType" | UnsupportedType _ => "schema.UnsupportedType"
     | BitType _ _ => "mysql.BitType" | SetType _ => "mysql.SetType" | NetworkType _ => "mysql.NetworkType"
     end%string.

Definition opt_field (o : option Z) : fieldval := match o with None => FNilPtr | Some z => FInt z end.

Definition ty_field (t : ty) (name : bytes) : fieldval :=
  let is n := bytes_eqb name (bs n) in
  if is "t"%string then match ty_T t with Some T => FStr T | None => FInvalid end else
  match t with
  | BinaryType _ sz => if is "size"%string then opt_field sz else FInvalid
  | EnumType _ vs => if is "values"%string then FStrs vs else FInvalid
  | SetType vs => if is "values"%string then FStrs vs else FInvalid
  | IntegerType _ u _ => if is "unsigned"%string then FBool u else if is "attrs"%string then FOther else FInvalid
  | StringType _ sz => if is "size"%string then FInt sz else if is "attrs"%string then FOther else FInvalid
  | BitType _ sz => if is "size"%string then FInt sz else FInvalid
  | TimeType _ p s => if is "precision"%string then opt_field p else if is "scale"%string then opt_field s
                      else if is "attrs"%string then FOther else FInvalid
  | FloatType _ u p => if is "unsigned"%string then FBool u else if is "precision"%string then FInt p else FInvalid
  | DecimalType _ p s u => if is "precision"%string then FInt p else if is "scale"%string then FInt s
                           else if is "unsigned"%string then FBool u else FInvalid
  | _ => FInvalid
  end.

Definition spec_fn (t : ty) : res HType :=
  bind (FormatType t) (fun s => Ok {| h_T := s; h_attrs := [] |}).

(** FromSpec closures of the enum and set specs (sqlspec_oss.go: TypeRegistry) *)
Definition from_custom (spec : TypeSpec) (h : HType) : res ty :=
  match h_attrs h with
  | [a] =>
      if negb (bytes_eqb (a_K a) (bs "values")) then Err
      else match a_V a with
           | AList vs =>
               if bytes_eqb (ts_name spec) (bs "enum") then Ok (EnumType (bs "enum") vs)
               else if bytes_eqb (ts_name spec) (bs "set") then Ok (SetType vs)
               else Err
           | _ => Err
           end
  | _ => Err
  end.
Definition no_to (_ : TypeSpec) (_ : ty) : res HType := Err.
Definition no_fmt (_ : TypeSpec) (_ : HType) : res bytes := Err.

Definition reg := registry_mysql.
Definition Convert := convert ty ty_unsupported ty_T ty_rtype ty_field reg spec_fn no_to.
Definition PrintType := print_type reg.
Definition TypeOf := type_of ty reg ParseType from_custom.
Definition HclType := hcl_type reg no_fmt.
Definition HclEval := hcl_eval reg.

(** columnTypeSpec: the "unsigned" type attribute is copied to the column *)
Definition extra_of (h : HType) : list Attr :=
  filter (fun a => bytes_eqb (a_K a) unsigned_name) (h_attrs h).

Definition roundtrip (t : ty) : res ty :=
  bind (Convert t) (fun h =>
  bind (HclType h) (fun p =>
  match p with
  | PExpr e => bind (HclEval e) (fun h' => TypeOf h' (extra_of h))
  | PRaw _ => Err
  end)).

Definition show_opt (o : option Z) : bytes := match o with None => bs "nil" | Some z => itoa z end.
Definition show_b (b : bool) : bytes := if b then [49] else [48].
Definition show_list (l : list bytes) : bytes := bs "[" ++ join [58] (map hex l) ++ bs "]".
Definition show_iattr (a : iattr) : bytes :=
  match a with
  | DisplayWidth n => bs "mysql.DisplayWidth/" ++ itoa n
  | ZeroFill s => bs "mysql.ZeroFill/" ++ hex s
  end.

Definition show_ty (t : ty) : bytes :=
  match t with
  | BoolType T => bs "schema.BoolType{T=" ++ hex T ++ bs "}"
  | BinaryType T sz => bs "schema.BinaryType{T=" ++ hex T ++ bs ",Size=" ++ show_opt sz ++ bs "}"
  | EnumType T vs => bs "schema.EnumType{T=" ++ hex T ++ bs ",Values=" ++ show_list vs ++ bs "}"
  | IntegerType T u a => bs "schema.IntegerType{T=" ++ hex T ++ bs ",Unsigned=" ++ show_b u ++ bs ",Attrs=[" ++ join [58] (map show_iattr a) ++ bs "]}"
  | StringType T sz => bs "schema.StringType{T=" ++ hex T ++ bs ",Size=" ++ itoa sz ++ bs ",Attrs=[]}"
  | TimeType T p s => bs "schema.TimeType{T=" ++ hex T ++ bs ",Precision=" ++ show_opt p ++ bs ",Scale=" ++ show_opt s ++ bs ",Attrs=[]}"
  | FloatType T u p => bs "schema.FloatType{T=" ++ hex T ++ bs ",Unsigned=" ++ show_b u ++ bs ",Precision=" ++ itoa p ++ bs "}"
  | DecimalType T p s u => bs "schema.DecimalType{T=" ++ hex T ++ bs ",Precision=" ++ itoa p ++ bs ",Scale=" ++ itoa s ++ bs ",Unsigned=" ++ show_b u ++ bs "}"
  | JSONType T => bs "schema.JSONType{T=" ++ hex T ++ bs "}"
  | SpatialType T => bs "schema.SpatialType{T=" ++ hex T ++ bs "}"
  | UUIDType T => bs "schema.UUIDType{T=" ++ hex T ++ bs "}"
  | UnsupportedType T => bs "schema.UnsupportedType{T=" ++ hex T ++ bs "}"
  | BitType T sz => bs "mysql.BitType{T=" ++ hex T ++ bs ",Size=" ++ itoa sz ++ bs "}"
  | SetType vs => bs "mysql.SetType{Values=" ++ show_list vs ++ bs "}"
  | NetworkType T => bs "mysql.NetworkType{T=" ++ hex T ++ bs "}"
  end.

Definition obs_fmt_mysql := obs_fmt ty FormatType ParseType show_ty.
Definition obs_hcl_mysql := obs_hcl ty show_ty Convert HclType HclEval TypeOf extra_of.

End Mysql.
