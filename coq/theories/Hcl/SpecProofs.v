(** Proofs about Hcl/SpecModel.v (C03_hcl): the HCL round trip of a well-formed schema
    succeeds and returns an explicit normal form of the schema. *)
From Coq Require Import List NArith Bool Arith Lia.
From Atlas Require Import Base.Bytes Diff.Schema Diff.DiffModel Diff.DiffSqlite Sqlite.PlanModel Hcl.SpecModel.
Import ListNotations.
Local Open Scope N_scope.

(** ** the normal form *)
Definition norm_default (cls : N) (d : dflt) : dflt :=
  match column_default cls d with ROk v => default_of v | _ => d end.
Definition norm_col (c : column) : column :=
  mkColumn (c_name c) (c_class c) (c_T c) (c_null c)
           (match c_default c with Some d => Some (norm_default (c_class c) d) | None => None end)
           (match c_gen c with Some (x, ty) => Some (x, stored_or_virtual (stored_or_virtual ty)) | None => None end)
           None.
Definition part_key (p : part) : bool * option str * option str :=
  match p_col p with
  | Some n => (p_desc p, Some n, None)
  | None => (p_desc p, None, p_expr p)
  end.
Definition norm_pk (pk : index) : index :=
  mkIndex [] false (seq_parts 0 (map (fun p => (false, p_col p, None)) (i_parts pk))) None None None.
Definition norm_idx (i : index) : index :=
  mkIndex (i_name i) (i_unique i) (seq_parts 0 (map part_key (i_parts i)))
          (match i_pred i with Some [] => None | o => o end) None None.
Definition norm_fk (f : fkey) : fkey :=
  mkFk (f_symbol f) (f_cols f) (f_reftable f) (f_refcols f)
       (us_to_space (space_to_us (f_onupdate f))) (us_to_space (space_to_us (f_ondelete f))).
Definition norm_x (x : xtable) : xtable :=
  let t := x_t x in
  mkX (mkTable (t_name t) (t_without_rowid t) (t_strict t) (map norm_col (t_cols t))
               (match t_pk t with Some pk => Some (norm_pk pk) | None => None end)
               (map norm_idx (t_idx t)) (map norm_fk (t_fks t)) (t_checks t))
      (flat_map (fun c => if has_autoinc x (c_name c) then [c_name c] else []) (t_cols t)).

(** ** well-formedness: what the conversion needs to succeed *)
Definition col_wf (c : column) : Prop :=
  match c_default c with Some d => exists v, column_default (c_class c) d = ROk v | None => True end.
Definition names_in (cols : list column) (l : list str) : Prop := forallb (has_column cols) l = true.
Definition part_wf (cols : list column) (p : part) : Prop :=
  match p_col p, p_expr p with
  | Some n, None => has_column cols n = true
  | None, Some (_ :: _) => True
  | _, _ => False
  end.
Definition idx_wf (cols : list column) (i : index) : Prop :=
  i_parts i <> [] /\ Forall (part_wf cols) (i_parts i).
Definition pk_wf (cols : list column) (pk : index) : Prop :=
  Forall (fun p => exists n, p_col p = Some n /\ has_column cols n = true) (i_parts pk).
Definition fk_wf (all : list table) (t : table) (f : fkey) : Prop :=
  f_refcols f <> [] /\ length (f_cols f) = length (f_refcols f) /\
  names_in (t_cols t) (f_cols f) /\
  (if str_eqb (f_reftable f) (t_name t) then names_in (t_cols t) (f_refcols f)
   else exists rt, find_table (f_reftable f) all = Some rt /\ names_in (t_cols rt) (f_refcols f)).
Definition table_wf (all : list table) (x : xtable) : Prop :=
  let t := x_t x in
  Forall col_wf (t_cols t) /\
  (match t_pk t with Some pk => pk_wf (t_cols t) pk | None => True end) /\
  Forall (idx_wf (t_cols t)) (t_idx t) /\
  Forall (fk_wf all t) (t_fks t).
Definition schema_wf (xs : xschema) : Prop :=
  Forall (table_wf (map x_t xs)) xs /\ NoDup (map x_name xs).

(** ** generic lemmas *)
Lemma rmap_ok {A B} (f : A -> res B) (g : A -> B) l :
  (forall a, In a l -> f a = ROk (g a)) -> rmap f l = ROk (map g l).
Proof.
  induction l as [|a l IH]; intro H; simpl; [reflexivity|].
  rewrite (H a (or_introl eq_refl)). simpl. rewrite IH by (intros; apply H; right; assumption). reflexivity.
Qed.

Lemma has_column_norm cols n : has_column (map norm_col cols) n = has_column cols n.
Proof.
  unfold has_column, find_col. induction cols as [|c cols IH]; simpl; [reflexivity|].
  destruct (str_eqb (c_name c) n); [reflexivity|exact IH].
Qed.
Lemma names_in_norm cols l : forallb (has_column (map norm_col cols)) l = forallb (has_column cols) l.
Proof. induction l as [|n l IH]; simpl; [reflexivity|]. rewrite has_column_norm, IH. reflexivity. Qed.

(** ** columns *)
Lemma column_roundtrip a c : col_wf c ->
  exists sc, from_column a c = ROk sc /\ to_column sc = (norm_col c, a).
Proof.
  unfold col_wf, from_column, to_column, norm_col, norm_default.
  destruct (c_default c) as [d|].
  - intros (v & Hv). rewrite Hv. simpl. eexists. split; [reflexivity|]. simpl.
    destruct (c_gen c) as [[x ty]|]; reflexivity.
  - intros _. simpl. eexists. split; [reflexivity|]. simpl. destruct (c_gen c) as [[x ty]|]; reflexivity.
Qed.

(** ** primary key *)
Lemma pk_names pk cols : pk_wf cols pk ->
  exists l, from_primary_key pk = ROk l /\ l = flat_map (fun p => match p_col p with Some n => [n] | None => [] end) (i_parts pk)
            /\ forallb (has_column cols) l = true
            /\ map (fun n => (false, Some n, (None : option str))) l = map (fun p => (false, p_col p, None)) (i_parts pk).
Proof.
  unfold pk_wf, from_primary_key. induction (i_parts pk) as [|p ps IH]; intro H.
  - exists []. simpl. auto.
  - inversion H as [|? ? (n & Hn & Hc) Hrest]; subst. destruct (IH Hrest) as (l & Hl & -> & Hall & Hmap).
    exists (n :: flat_map (fun p => match p_col p with Some n => [n] | None => [] end) ps).
    simpl. rewrite Hn. simpl. rewrite Hl. simpl. rewrite Hc, Hall. simpl. rewrite Hmap. auto.
Qed.

(** ** indexes *)
Lemma from_part_wf cols p : part_wf cols p ->
  exists sp, from_part p = ROk sp /\ sp_desc sp = p_desc p /\
    ((exists n, p_col p = Some n /\ sp_column sp = Some n /\ sp_expr sp = None /\ has_column cols n = true) \/
     (exists x, p_col p = None /\ p_expr p = Some x /\ x <> [] /\ sp_column sp = None /\ sp_expr sp = Some x)).
Proof.
  unfold part_wf, from_part. destruct (p_col p) as [n|], (p_expr p) as [x|]; try contradiction.
  - intro H. eexists. split; [reflexivity|]. split; [reflexivity|]. left. exists n. auto.
  - destruct x as [|c x]; [contradiction|]. intros _. eexists. split; [reflexivity|]. split; [reflexivity|].
    right. exists (c :: x). repeat split; auto. discriminate.
Qed.

Lemma from_parts_wf cols ps : Forall (part_wf cols) ps ->
  exists sps, rmap from_part ps = ROk sps /\ length sps = length ps /\
    Forall2 (fun p sp => sp_desc sp = p_desc p /\
      ((exists n, p_col p = Some n /\ sp_column sp = Some n /\ sp_expr sp = None /\ has_column cols n = true) \/
       (exists x, p_col p = None /\ p_expr p = Some x /\ x <> [] /\ sp_column sp = None /\ sp_expr sp = Some x))) ps sps.
Proof.
  induction 1 as [|p ps Hp Hall (sps & Hr & Hl & HF)].
  - exists []. simpl. auto.
  - destruct (from_part_wf cols p Hp) as (sp & Hsp & Hd & Hc).
    exists (sp :: sps). simpl. rewrite Hsp. simpl. rewrite Hr. simpl. split; [reflexivity|]. split; [lia|].
    constructor; auto.
Qed.

Definition sp_key (sp : spart) : bool * option str * option str :=
  match sp_column sp with
  | Some n => (sp_desc sp, Some n, None)
  | None => (sp_desc sp, None, sp_expr sp)
  end.

Lemma parts_keys cols ps sps :
  Forall2 (fun p sp => sp_desc sp = p_desc p /\
      ((exists n, p_col p = Some n /\ sp_column sp = Some n /\ sp_expr sp = None /\ has_column cols n = true) \/
       (exists x, p_col p = None /\ p_expr p = Some x /\ x <> [] /\ sp_column sp = None /\ sp_expr sp = Some x))) ps sps ->
  map sp_key sps = map part_key ps.
Proof.
  induction 1 as [|p sp ps sps (Hd & Hc) HF IH]; [reflexivity|]. simpl. rewrite IH. f_equal.
  unfold sp_key, part_key. destruct Hc as [(n & -> & -> & _ & _)|(x & -> & -> & _ & -> & ->)]; rewrite Hd; reflexivity.
Qed.

Lemma to_index_parts cols' sps name uniq w :
  sps <> [] ->
  Forall (fun sp => (exists n, sp_column sp = Some n /\ sp_expr sp = None /\ has_column cols' n = true) \/
                    (exists x, sp_column sp = None /\ sp_expr sp = Some x /\ x <> [])) sps ->
  to_index cols' (mkSI name uniq None sps w) = ROk (mkIndex name uniq (seq_parts 0 (map sp_key sps)) w None None).
Proof.
  intros Hne H. unfold to_index. cbn [si_columns si_parts si_name si_unique si_where].
  destruct sps as [|sp0 sps0] eqn:E; [contradiction|]. rewrite <- E in *. clear E Hne.
  assert (rmap (fun p => match sp_column p, sp_expr p with
                         | None, None => RErr
                         | None, Some [] => RErr
                         | Some _, Some (_ :: _) => RErr
                         | Some n, _ => if has_column cols' n then ROk (sp_desc p, Some n, None) else RErr
                         | None, Some x => ROk (sp_desc p, None, Some x)
                         end) sps = ROk (map sp_key sps)) as ->.
  { apply rmap_ok. intros sp Hin. rewrite Forall_forall in H. unfold sp_key.
    destruct (H sp Hin) as [(n & -> & -> & Hc)|(x & -> & -> & Hx)].
    - rewrite Hc. reflexivity.
    - destruct x; [contradiction|reflexivity]. }
  reflexivity.
Qed.

Lemma columns_only_spec ps cols : columns_only ps = Some cols ->
  Forall (fun sp => sp_desc sp = false /\ exists n, sp_column sp = Some n) ps /\
  cols = flat_map (fun p => match sp_column p with Some n => [n] | None => [] end) ps.
Proof.
  unfold columns_only. destruct (forallb _ ps) eqn:E; [|discriminate]. intros [= <-]. split; [|reflexivity].
  apply Forall_forall. intros sp Hin. rewrite forallb_forall in E. specialize (E sp Hin).
  apply andb_true_iff in E. destruct E as [Hd Hc]. apply negb_true_iff in Hd. split; [exact Hd|].
  destruct (sp_column sp); [eauto|discriminate].
Qed.

Lemma index_roundtrip cols i : idx_wf cols i ->
  exists si, from_index i = ROk si /\ to_index (map norm_col cols) si = ROk (norm_idx i).
Proof.
  intros [Hne Hall]. destruct (from_parts_wf cols _ Hall) as (sps & Hr & Hl & HF).
  unfold from_index. rewrite Hr. cbn [rbind].
  pose proof (parts_keys cols _ _ HF) as Hkeys.
  assert (sps <> []) as Hsne by (destruct sps; [destruct (i_parts i); [contradiction|discriminate]|discriminate]).
  assert (Forall (fun sp => (exists n, sp_column sp = Some n /\ sp_expr sp = None /\ has_column (map norm_col cols) n = true) \/
                            (exists x, sp_column sp = None /\ sp_expr sp = Some x /\ x <> [])) sps) as Hsp.
  { clear -HF. induction HF as [|p sp ps sps (Hd & Hc) HF IH]; constructor; [|exact IH].
    destruct Hc as [(n & _ & Hc & He & Hh)|(x & _ & _ & Hx & Hc & He)].
    - left. exists n. rewrite has_column_norm. auto.
    - right. exists x. auto. }
  destruct (columns_only sps) as [l|] eqn:Eco.
  - (* columns = [...] *)
    destruct (columns_only_spec _ _ Eco) as (Hco & ->).
    eexists. split; [reflexivity|]. unfold to_index. cbn [si_columns si_parts si_name si_unique si_where].
    set (l := flat_map (fun p => match sp_column p with Some n => [n] | None => [] end) sps).
    assert (map (fun n => (false, Some n, (None : option str))) l = map sp_key sps) as Hm.
    { unfold l. clear -Hco. induction Hco as [|sp sps (Hd & n & Hn) H IH]; [reflexivity|].
      simpl. rewrite Hn. simpl. rewrite IH. unfold sp_key. rewrite Hn, Hd. reflexivity. }
    assert (forallb (has_column (map norm_col cols)) l = true) as Hh.
    { unfold l. clear -Hco Hsp. induction sps as [|sp sps IH]; [reflexivity|].
      inversion Hco as [|? ? (Hd & n & Hn) Hco']; subst. inversion Hsp as [|? ? Hs Hsp']; subst.
      simpl. rewrite Hn. simpl. destruct Hs as [(n' & Hn' & _ & Hc)|(x & Hn' & _)]; rewrite Hn in Hn'; [|discriminate].
      inversion Hn'; subst. rewrite Hc. simpl. exact (IH Hsp' Hco'). }
    assert (l <> []) as Hlne.
    { unfold l. destruct sps as [|sp sps]; [contradiction|]. inversion Hco as [|? ? (Hd & n & Hn) ?]; subst.
      simpl. rewrite Hn. discriminate. }
    destruct l as [|n0 l0] eqn:El; [contradiction|]. rewrite <- El in *.
    rewrite Hh, Hm, Hkeys. unfold norm_idx. reflexivity.
  - eexists. split; [reflexivity|]. rewrite (to_index_parts _ sps _ _ _ Hsne Hsp). rewrite Hkeys. reflexivity.
Qed.

(** ** foreign keys *)
Lemma find_table_map (g : table -> table) n l : (forall t, t_name (g t) = t_name t) ->
  find_table n (map g l) = option_map g (find_table n l).
Proof.
  intro Hg. unfold find_table. induction l as [|t l IH]; simpl; [reflexivity|].
  rewrite Hg. destruct (str_eqb (t_name t) n); [reflexivity|exact IH].
Qed.

Lemma str_eqb_true a b : str_eqb a b = true -> a = b.
Proof. unfold str_eqb. apply bytes_eqb_eq. Qed.
Lemma str_eqb_refl a : str_eqb a a = true.
Proof. unfold str_eqb. apply bytes_eqb_refl. Qed.

Lemma action_roundtrip a :
  match (match a with [] => None | _ :: _ => Some (space_to_us a) end) with Some v => us_to_space v | None => [] end
  = us_to_space (space_to_us a).
Proof. destruct a; reflexivity. Qed.

(** the tables the foreign keys are linked against: same names, normalised columns *)
Definition stripped (x : xtable) : table :=
  let t := x_t x in
  mkTable (t_name t) (t_without_rowid t) (t_strict t) (map norm_col (t_cols t))
          (match t_pk t with Some pk => Some (norm_pk pk) | None => None end)
          (map norm_idx (t_idx t)) [] (t_checks t).

Lemma find_stripped n (xs : xschema) rt : find_table n (map x_t xs) = Some rt ->
  exists x', find_table n (map stripped xs) = Some (stripped x') /\ t_cols (x_t x') = t_cols rt.
Proof.
  unfold find_table. induction xs as [|x0 xs IH]; [discriminate|]. simpl. unfold stripped at 1. cbn [t_name].
  destruct (str_eqb (t_name (x_t x0)) n).
  - intros [= <-]. exists x0. auto.
  - exact IH.
Qed.

Lemma refs_ok (P : option str * str -> res (str * str)) R o l :
  (forall c, In c l -> P (o, c) = ROk (R, c)) ->
  rmap P (map (fun c => (o, c)) l) = ROk (map (fun c => (R, c)) l).
Proof.
  intro H. induction l as [|c l IH]; [reflexivity|]. simpl. rewrite (H c (or_introl eq_refl)). simpl.
  rewrite IH by (intros; apply H; right; assumption). reflexivity.
Qed.

Lemma fk_roundtrip (xs : xschema) (x : xtable) f :
  fk_wf (map x_t xs) (x_t x) f ->
  link_fk (map stripped xs) (stripped x) (from_fk (t_name (x_t x)) f) = ROk (norm_fk f).
Proof.
  intros (Hne & Hlen & Hcols & Href). unfold link_fk, from_fk.
  cbn [sf_columns sf_refs sf_symbol sf_on_update sf_on_delete].
  rewrite map_length. rewrite Hlen, Nat.eqb_refl. cbn [negb].
  unfold stripped at 1. cbn [t_cols]. unfold names_in in Hcols. rewrite names_in_norm, Hcols. cbn [negb].
  assert (rmap (fun r : option str * str =>
                  match r with
                  | (None, c) => if has_column (t_cols (stripped x)) c then ROk (t_name (stripped x), c) else RErr
                  | (Some tn, c) => match find_table tn (map stripped xs) with
                                    | Some rt => if has_column (t_cols rt) c then ROk (tn, c) else RErr
                                    | None => RErr
                                    end
                  end)
               (map (fun c => (if str_eqb (f_reftable f) (t_name (x_t x)) then None else Some (f_reftable f), c)) (f_refcols f))
          = ROk (map (fun c => (f_reftable f, c)) (f_refcols f))) as ->.
  { destruct (str_eqb (f_reftable f) (t_name (x_t x))) eqn:El.
    - apply str_eqb_true in El. unfold names_in in Href. apply refs_ok. intros c Hin.
      unfold stripped. cbn [t_cols t_name]. rewrite has_column_norm.
      rewrite forallb_forall in Href. rewrite (Href c Hin), El. reflexivity.
    - destruct Href as (rt & Hf & Hn). destruct (find_stripped _ _ _ Hf) as (x' & Hft & Hx').
      unfold names_in in Hn. apply refs_ok. intros c Hin. rewrite Hft.
      unfold stripped. cbn [t_cols]. rewrite has_column_norm, Hx'.
      rewrite forallb_forall in Hn. rewrite (Hn c Hin). reflexivity. }
  cbn [rbind].
  destruct (f_refcols f) as [|c0 l] eqn:Erc; [contradiction|].
  cbn [map]. cbn [fst].
  assert (forallb (fun r : str * str => str_eqb (fst r) (f_reftable f)) ((f_reftable f, c0) :: map (fun c => (f_reftable f, c)) l) = true) as ->.
  { simpl. rewrite str_eqb_refl. simpl. clear. induction l as [|c1 l IHl]; simpl; [reflexivity|]. rewrite str_eqb_refl. exact IHl. }
  unfold norm_fk. rewrite Erc.
  assert (map snd (map (fun c : str => (f_reftable f, c)) l) = l) as ->.
  { rewrite map_map. simpl. apply map_id. }
  cbn [snd]. destruct (f_onupdate f); destruct (f_ondelete f); reflexivity.
Qed.

(** ** tables *)
Lemma rmap_ex {A B} (f : A -> res B) (P : A -> B -> Prop) l :
  (forall a, In a l -> exists b, f a = ROk b /\ P a b) -> exists bs, rmap f l = ROk bs /\ Forall2 P l bs.
Proof.
  induction l as [|a l IH]; intro H.
  - exists []. split; [reflexivity|constructor].
  - destruct (H a (or_introl eq_refl)) as (b & Hb & Pb).
    destruct IH as (bs & Hbs & HF); [intros; apply H; right; assumption|].
    exists (b :: bs). simpl. rewrite Hb. simpl. rewrite Hbs. split; [reflexivity|constructor; assumption].
Qed.

Lemma Forall2_map_eq {A B C} (P : A -> B -> Prop) (f : B -> C) (g : A -> C) l bs :
  Forall2 P l bs -> (forall a b, P a b -> f b = g a) -> map f bs = map g l.
Proof. induction 1 as [|a b l bs Hab HF IH]; intro H; simpl; [reflexivity|]. rewrite (H a b Hab), IH by assumption. reflexivity. Qed.

Definition autoinc_of (x : xtable) : list str :=
  flat_map (fun c => if has_autoinc x (c_name c) then [c_name c] else []) (t_cols (x_t x)).

Lemma table_roundtrip all x : table_wf all x ->
  exists st, from_table x = ROk st /\
             to_table st = ROk (mkX (stripped x) (autoinc_of x), map (from_fk (t_name (x_t x))) (t_fks (x_t x))).
Proof.
  intros (Hcols & Hpk & Hidx & _). unfold from_table.
  destruct (rmap_ex (fun c => from_column (has_autoinc x (c_name c)) c)
                    (fun c sc => to_column sc = (norm_col c, has_autoinc x (c_name c))) (t_cols (x_t x))) as (scs & Hscs & HFc).
  { intros c Hin. rewrite Forall_forall in Hcols. exact (column_roundtrip _ c (Hcols c Hin)). }
  rewrite Hscs. cbn [rbind].
  assert (map to_column scs = map (fun c => (norm_col c, has_autoinc x (c_name c))) (t_cols (x_t x))) as Hcs.
  { apply (Forall2_map_eq _ _ _ _ _ HFc). auto. }
  assert (exists spk, match t_pk (x_t x) with
                      | None => ROk None
                      | Some pk => rbind (from_primary_key pk) (fun l => ROk (Some l))
                      end = ROk spk /\
                      match spk with
                      | None => ROk None
                      | Some l => rbind (to_primary_key (map norm_col (t_cols (x_t x))) l) (fun i => ROk (Some i))
                      end = ROk (match t_pk (x_t x) with Some pk => Some (norm_pk pk) | None => None end)) as (spk & Hspk & Hpk2).
  { destruct (t_pk (x_t x)) as [pk|]; [|exists None; auto].
    destruct (pk_names pk _ Hpk) as (l & Hl & _ & Hall & Hmap).
    exists (Some l). rewrite Hl. split; [reflexivity|]. unfold to_primary_key. rewrite names_in_norm, Hall. simpl.
    unfold norm_pk. rewrite Hmap. reflexivity. }
  rewrite Hspk. cbn [rbind].
  destruct (rmap_ex from_index (fun i si => to_index (map norm_col (t_cols (x_t x))) si = ROk (norm_idx i)) (t_idx (x_t x))) as (sis & Hsis & HFi).
  { intros i Hin. rewrite Forall_forall in Hidx. exact (index_roundtrip _ i (Hidx i Hin)). }
  rewrite Hsis. cbn [rbind].
  eexists. split; [reflexivity|]. unfold to_table.
  cbn [st_columns st_pk st_indexes st_fks st_checks st_name st_without_rowid st_strict].
  assert (map fst (map to_column scs) = map norm_col (t_cols (x_t x))) as Hfst.
  { rewrite Hcs, map_map. cbn [fst]. reflexivity. }
  assert (flat_map (fun c : column * bool => if snd c then [c_name (fst c)] else []) (map to_column scs) = autoinc_of x) as Hai.
  { rewrite Hcs. unfold autoinc_of. rewrite !flat_map_concat_map, map_map. cbn [fst snd]. reflexivity. }
  rewrite Hfst, Hai, Hpk2. cbn [rbind].
  assert (rmap (to_index (map norm_col (t_cols (x_t x)))) sis = ROk (map norm_idx (t_idx (x_t x)))) as ->.
  { clear -HFi. induction HFi as [|i si l sis Hi HF IH]; [reflexivity|]. simpl. rewrite Hi. simpl. rewrite IH. reflexivity. }
  reflexivity.
Qed.

Lemma rmap_map {A B C} (f : B -> res C) (g : A -> B) l : rmap f (map g l) = rmap (fun a => f (g a)) l.
Proof. induction l as [|a l IH]; simpl; [reflexivity|]. rewrite IH. reflexivity. Qed.

(** ** C03_hcl, structural part: the round trip succeeds and returns the normal form *)
Theorem hcl_roundtrip_norm xs : schema_wf xs -> hcl_roundtrip xs = ROk (map norm_x xs).
Proof.
  intros [Hwf _]. unfold hcl_roundtrip, to_spec.
  destruct (rmap_ex from_table
              (fun x st => to_table st = ROk (mkX (stripped x) (autoinc_of x), map (from_fk (t_name (x_t x))) (t_fks (x_t x)))) xs)
    as (sts & Hsts & HF).
  { intros x Hin. rewrite Forall_forall in Hwf. exact (table_roundtrip _ x (Hwf x Hin)). }
  rewrite Hsts. cbn [rbind]. unfold from_spec.
  assert (rmap to_table sts = ROk (map (fun x => (mkX (stripped x) (autoinc_of x), map (from_fk (t_name (x_t x))) (t_fks (x_t x)))) xs)) as ->.
  { clear -HF. induction HF as [|x st l sts Hx HF IH]; [reflexivity|]. simpl. rewrite Hx. simpl. rewrite IH. reflexivity. }
  cbn [rbind]. rewrite map_map. cbn [fst x_t]. rewrite rmap_map. cbn [fst snd x_t].
  apply rmap_ok. intros x Hin. rewrite rmap_map.
  rewrite (rmap_ok _ norm_fk).
  - reflexivity.
  - intros f Hf. apply fk_roundtrip. rewrite Forall_forall in Hwf. destruct (Hwf x Hin) as (_ & _ & _ & Hfk).
    rewrite Forall_forall in Hfk. exact (Hfk f Hf).
Qed.
