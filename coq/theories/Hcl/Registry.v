(** M-TYPE: schemahcl.TypeRegistry (schemahcl/types.go: Convert, PrintType,
    Type, findT/findType/findRType, typeNonFuncArgs, pickTypeAttrs,
    appendIfNotExist) and the type-expression printer / evaluator of the HCL
    layer (schemahcl/schemahcl.go: hclType, valueArgs, WithTypes,
    typeFuncSpec, typeFuncSpecImpl, typeFuncArgs, typeFuncReqArgs), generic
    over a dialect's type ADT. No proofs here.

    The HCL *text* layer is abstracted: a printed type expression is kept as a
    tree [hexpr] (identifier / call with literal arguments / sql("...")), i.e.
    printing a literal and parsing it back is assumed to be the identity
    (DESIGN.md §5). The Go harness checks that assumption on every case. *)
From Coq Require Import String.
From Coq Require Import List NArith ZArith Bool.
From Atlas Require Import Base.Bytes Hcl.Str Hcl.RegistryDefs.
Import ListNotations.
Local Open Scope N_scope.

Definition unsigned_name : bytes := bs "unsigned".

Definition spec_attr (s : TypeSpec) (k : bytes) : option TypeAttr :=
  find (fun a => bytes_eqb (ta_name a) k) (ts_attrs s).

(** findT / findName *)
Definition find_T (reg : list TypeSpec) (t : bytes) : option TypeSpec :=
  find (fun s => bytes_eqb (ts_T s) t) reg.
Definition find_name (reg : list TypeSpec) (n : bytes) : option TypeSpec :=
  find (fun s => bytes_eqb (ts_name s) n) reg.
(** findRType: ts.RType != nil && ts.RType == rt *)
Definition find_rtype (reg : list TypeSpec) (rt : bytes) : option TypeSpec :=
  find (fun s => negb (bytes_eqb (ts_rtype s) []) && bytes_eqb (ts_rtype s) rt) reg.

(** validSpec (Register) *)
Fixpoint valid_spec_aux (attrs : list TypeAttr) (seen_optional : bool) : bool :=
  match attrs with
  | [] => true
  | a :: rest =>
      let slice_not_last := kind_eqb (ta_kind a) KSlice && negb (match rest with [] => true | _ => false end) in
      if slice_not_last then false
      else if seen_optional && ta_required a then false
      else valid_spec_aux rest (negb (ta_required a))
  end.
Definition valid_spec (s : TypeSpec) : bool := valid_spec_aux (ts_attrs s) false.

(** typeFuncArgs / typeFuncReqArgs / typeNonFuncArgs *)
Definition type_func_args (s : TypeSpec) : list TypeAttr :=
  filter (fun a => negb (bytes_eqb (ta_name a) unsigned_name)) (ts_attrs s).
Definition type_func_req_args (s : TypeSpec) : list TypeAttr :=
  filter ta_required (type_func_args s).
Definition type_non_func_args (s : TypeSpec) : list TypeAttr :=
  filter (fun a => bytes_eqb (ta_name a) unsigned_name) (ts_attrs s).

(** strconv.Quote for ASCII (bytes >= 128 are kept: valid printable UTF-8). *)
Definition quote_c (c : N) : bytes :=
  if N.eqb c 34 then [92; 34]
  else if N.eqb c 92 then [92; 92]
  else if N.eqb c 7 then [92; 97]
  else if N.eqb c 8 then [92; 98]
  else if N.eqb c 12 then [92; 102]
  else if N.eqb c 10 then [92; 110]
  else if N.eqb c 13 then [92; 114]
  else if N.eqb c 9 then [92; 116]
  else if N.eqb c 11 then [92; 118]
  else if N.ltb c 32 || N.eqb c 127 then [92; 120; hex_digit (c / 16); hex_digit (c mod 16)]
  else [c].
Definition go_quote (s : bytes) : bytes := 34 :: flat_map quote_c s ++ [34].

(** valueArgs *)
Definition value_args (v : aval) : list bytes :=
  match v with
  | AList l => map go_quote l
  | AStr s => [go_quote s]
  | AInt z => [itoa z]
  | ABool b => [if b then bs "true" else bs "false"]
  end.

(** TypeRegistry.PrintType *)
Fixpoint print_type_attrs (spec : TypeSpec) (attrs : list Attr) (args : list bytes) (suffix : bytes)
  : res (list bytes * bytes) :=
  match attrs with
  | [] => Ok (args, suffix)
  | a :: rest =>
      if bytes_eqb (a_K a) unsigned_name then
        match a_V a with
        | ABool b => print_type_attrs spec rest args (if b then suffix ++ bs " unsigned" else suffix)
        | _ => Err
        end
      else
        match spec_attr spec (a_K a) with
        | None => Err
        | Some _ => print_type_attrs spec rest (args ++ value_args (a_V a)) suffix
        end
  end.

Definition print_type (reg : list TypeSpec) (typ : HType) : res bytes :=
  match find_T reg (h_T typ) with
  | None => Err
  | Some spec =>
      match ts_attrs spec with
      | [] => Ok (h_T typ)
      | _ =>
          bind (print_type_attrs spec (h_attrs typ) [] [])
               (fun '(args, suffix) =>
                  let mid := match args with [] => [] | _ => [40] ++ join [44] args ++ [41] end in
                  Ok (h_T typ ++ mid ++ suffix))
      end
  end.

(** pickTypeAttrs / appendIfNotExist *)
Definition pick_type_attrs (src : list Attr) (wanted : list TypeAttr) : list Attr :=
  filter (fun a => existsb (fun w => bytes_eqb (ta_name w) (a_K a)) wanted) src.

Definition append_if_not_exist (base additional : list Attr) : list Attr :=
  (* [exists] is computed from the original base only *)
  base ++ filter (fun a => negb (existsb (fun b => bytes_eqb (a_K b) (a_K a)) base)) additional.

(** abstract HCL type expression *)
Inductive hexpr :=
| HIdent (name : bytes)                  (* varchar *)
| HCall (name : bytes) (args : list aval)   (* varchar(255), enum("a","b") *)
| HSql (t : bytes).                      (* sql("...") *)

Section Dialect.
  (** the dialect's type ADT as the registry sees it *)
  Variable ty : Type.
  Variable ty_unsupported : ty -> option bytes.     (* *schema.UnsupportedType: its T *)
  Variable ty_T : ty -> option bytes.               (* field T when it is a string *)
  Variable ty_rtype : ty -> bytes.                  (* reflect type name *)
  Variable ty_field : ty -> bytes -> fieldval.      (* FieldByName(Camelize(attr name)) *)
  Variable reg : list TypeSpec.
  Variable spec_fn : ty -> res HType.               (* r.spec: WithFormatter / WithSpecFunc *)
  Variable parser : bytes -> res ty.                (* r.parser *)
  Variable to_custom : TypeSpec -> ty -> res HType.     (* ToSpec closures, by hand *)
  Variable from_custom : TypeSpec -> HType -> res ty.   (* FromSpec closures, by hand *)
  Variable fmt_custom : TypeSpec -> HType -> res bytes. (* Format closures, by hand *)

  (** findType *)
  Definition find_type (t : ty) : option TypeSpec :=
    match ty_T t with
    | Some n =>
        match find_T reg n with
        | Some s => Some s
        | None => find_rtype reg (ty_rtype t)
        end
    | None => find_rtype reg (ty_rtype t)
    end.

  (** the attribute loop of Convert; [rattrs] = Attributes in reverse order *)
  Fixpoint convert_attrs (rattrs : list TypeAttr) (t : ty) (acc : list Attr) : res (list Attr) :=
    match rattrs with
    | [] => Ok acc
    | a :: rest =>
        let f := ty_field t (ta_name a) in
        match f with
        | FInvalid | FNilPtr => convert_attrs rest t acc
        | _ =>
            if negb (field_kind_matches f (ta_kind a)) then Err
            else
              let empty := match acc with [] => true | _ => false end in
              match f with
              | FInt v | FInt64 v =>
                  if Z.eqb v 0%Z && empty then convert_attrs rest t acc
                  else convert_attrs rest t ({| a_K := ta_name a; a_V := AInt v |} :: acc)
              | FBool v =>
                  if negb v && empty then convert_attrs rest t acc
                  else convert_attrs rest t ({| a_K := ta_name a; a_V := ABool v |} :: acc)
              | FStr v =>
                  if bytes_eqb v [] && empty then convert_attrs rest t acc
                  else convert_attrs rest t ({| a_K := ta_name a; a_V := AStr v |} :: acc)
              | FStrs [] => Panic   (* StringsAttr -> cty.ListVal(empty slice) panics *)
              | FStrs vs => convert_attrs rest t ({| a_K := ta_name a; a_V := AList vs |} :: acc)
              | _ => Err
              end
        end
    end.

  (** TypeRegistry.Convert *)
  Definition convert (t : ty) : res HType :=
    match ty_unsupported t with
    | Some n => Ok {| h_T := n; h_attrs := [] |}
    | None =>
        match find_type t with
        | None => spec_fn t
        | Some spec =>
            if ts_to_custom spec then to_custom spec t
            else bind (convert_attrs (rev (ts_attrs spec)) t [])
                      (fun attrs => Ok {| h_T := ts_T spec; h_attrs := attrs |})
        end
    end.

  (** TypeRegistry.Type *)
  Definition type_of (typ : HType) (extra : list Attr) : res ty :=
    match find_T reg (h_T typ) with
    | None => parser (h_T typ)
    | Some spec =>
        let picked := pick_type_attrs extra (type_non_func_args spec) in
        let cp := {| h_T := h_T typ; h_attrs := append_if_not_exist (h_attrs typ) picked |} in
        if ts_from_custom spec then from_custom spec cp
        else bind (print_type reg cp) parser
    end.

  (** State.findTypeSpec + hclType (writeAttr, attr.IsType() arm; IsRef types are
      produced only by the PostgreSQL enum/domain/composite paths, not here) *)
  Definition find_attr (attrs : list Attr) (k : bytes) : option Attr :=
    find (fun a => bytes_eqb (a_K a) k) attrs.

  Definition hcl_args (spec : TypeSpec) (typ : HType) : list aval :=
    flat_map (fun p => match find_attr (h_attrs typ) (ta_name p) with
                       | Some a => match a_V a with
                                   | AList l => map AStr l   (* valueArgs flattens lists *)
                                   | v => [v]
                                   end
                       | None => []
                       end) (type_func_args spec).

  Inductive printed :=
  | PExpr (e : hexpr)
  | PRaw (s : bytes).   (* text produced by a custom Format closure *)

  Definition hcl_type (typ : HType) : res printed :=
    match find_T reg (h_T typ) with
    | None => Ok (PExpr (HSql (h_T typ)))
    | Some spec =>
        if ts_fmt_custom spec then bind (fmt_custom spec typ) (fun s => Ok (PRaw s))
        else
          match type_func_args spec with
          | [] => Ok (PExpr (HIdent (ts_name spec)))
          | _ =>
              let args := hcl_args spec typ in
              match args, type_func_req_args spec with
              | [], [] => Ok (PExpr (HIdent (ts_name spec)))
              | _, _ => Ok (PExpr (HCall (ts_name spec) args))
              end
          end
    end.

  (** typeFuncSpec: number of positional parameters and presence of the variadic one *)
  Fixpoint func_params (args : list TypeAttr) : list TypeAttr * bool :=
    match args with
    | [] => ([], false)
    | a :: rest =>
        let '(ps, var) := func_params rest in
        if kind_eqb (ta_kind a) KSlice || negb (ta_required a) then (ps, true) else (a :: ps, var)
    end.

  Definition aval_kind_ok (k : kind) (v : aval) : bool :=
    match k, v with
    | KString, AStr _ => true
    | (KInt | KInt64 | KOther _), AInt _ => true
    | KBool, ABool _ => true
    | _, _ => false
    end.

  (** typeFuncSpecImpl *)
  Fixpoint func_impl (fargs : list TypeAttr) (args : list aval) : list Attr :=
    match fargs with
    | [] => []
    | a :: rest =>
        if kind_eqb (ta_kind a) KSlice then
          [{| a_K := ta_name a;
              a_V := AList (flat_map (fun v => match v with AStr s => [s] | _ => [] end) args) |}]
        else
          match args with
          | [] => []
          | v :: args' => {| a_K := ta_name a; a_V := v |} :: func_impl rest args'
          end
    end.

  Definition last_is_slice (s : TypeSpec) : bool :=
    match rev (ts_attrs s) with
    | a :: _ => kind_eqb (ta_kind a) KSlice
    | [] => false
    end.

  (** evaluation of a type expression in the column scope (WithTypes vars / funcs) *)
  Definition hcl_eval (e : hexpr) : res HType :=
    match e with
    | HSql [] => Err   (* sql(""): a column with an empty type does not evaluate *)
    | HSql t => Ok {| h_T := t; h_attrs := [] |}
    | HIdent n =>
        match find_name reg n with
        | Some spec =>
            match type_func_req_args spec with
            | [] => Ok {| h_T := ts_T spec; h_attrs := [] |}
            | _ => Err   (* only registered as a function *)
            end
        | None => Err
        end
    | HCall n args =>
        match find_name reg n with
        | Some spec =>
            match type_func_args spec with
            | [] => Err   (* not registered as a function *)
            | fargs =>
                let '(ps, var) := func_params fargs in
                if Nat.ltb (length args) (length ps) then Err
                else if negb var && Nat.ltb (length ps) (length args) then Err
                else if negb (forallb (fun '(p, v) => aval_kind_ok (ta_kind p) v) (combine ps args)) then Err
                else if Nat.ltb (length (ts_attrs spec)) (length args) && negb (last_is_slice spec) then Err
                else if last_is_slice spec && Nat.eqb (length args) 0 then Err (* cty.ListVal(empty) panics inside the call *)
                else Ok {| h_T := ts_T spec; h_attrs := func_impl fargs args |}
            end
        | None => Err
        end
    end.

End Dialect.

(** canonical text of an HType, as the harness prints it *)
Definition show_aval (v : aval) : bytes :=
  match v with
  | AInt z => 105 :: itoa z
  | ABool b => 98 :: (if b then [49] else [48])
  | AStr s => 115 :: hex s
  | AList l => bs "l[" ++ join [58] (map (fun s => 115 :: hex s) l) ++ bs "]"
  end.

Definition show_htype (h : HType) : bytes :=
  hex (h_T h) ++ bs "[" ++ join [59] (map (fun a => a_K a ++ [61] ++ show_aval (a_V a)) (h_attrs h)) ++ bs "]".

Definition show_hexpr (e : hexpr) : bytes :=
  match e with
  | HIdent n => n
  | HCall n args => n ++ [40] ++ join [44] (flat_map value_args args) ++ [41]
  | HSql t => bs "sql(" ++ go_quote t ++ bs ")"
  end.

(** ** canonical observation of one type (same text as harness/cmd/types/ops.go: typeObs.lines) *)
Section Obs.
  Variable ty : Type.
  Variable FormatType : ty -> res bytes.
  Variable ParseType : bytes -> res ty.
  Variable show_ty : ty -> bytes.
  Variable Convert : ty -> res HType.
  Variable HclType : HType -> res printed.
  Variable HclEval : hexpr -> res HType.
  Variable TypeOf : HType -> list Attr -> res ty.
  Variable extra_of : HType -> list Attr.   (* type attributes the dialect copies to the column *)

  Definition show_res {A} (tag : bytes) (f : A -> bytes) (r : res A) : bytes :=
    tag ++ match r with
           | Ok a => bs "=ok:" ++ f a
           | Err => bs "=err"
           | Panic => bs "=panic"
           end.

  Definition obs_fmt (t : ty) : bytes :=
    let f := FormatType t in
    let p := match f with Ok s => Some (ParseType s) | _ => None end in
    let f2 := match p with Some (Ok t') => Some (FormatType t') | _ => None end in
    show_res (bs "fmt") hex f ++ [32] ++
    match p with Some r => show_res (bs "parse") show_ty r | None => bs "parse=-" end ++ [32] ++
    match f2 with Some r => show_res (bs "fmt2") hex r | None => bs "fmt2=-" end.

  Definition show_printed (p : printed) : bytes :=
    match p with PExpr e => show_hexpr e | PRaw s => s end.

  Definition show_unsigned (extra : list Attr) : bytes :=
    match find (fun a => bytes_eqb (a_K a) unsigned_name) extra with
    | Some {| a_V := ABool true |} => bs "true"
    | Some {| a_V := ABool false |} => bs "false"
    | _ => bs "-"
    end.

  (** what evaluating the printed column gives back *)
  Definition back_of (h : HType) (p : printed) : res ty :=
    match p with
    | PExpr e => bind (HclEval e) (fun h' => TypeOf h' (extra_of h))
    | PRaw _ => Err
    end.

  Definition obs_hcl (t : ty) : bytes :=
    let c := Convert t in
    let p := bind c HclType in
    show_res (bs "conv") show_htype c ++ [32] ++
    match c, p with
    | Ok h, Ok pr => bs "hcl=ok:" ++ hex (show_printed pr) ++ [58] ++ show_unsigned (extra_of h) ++ [32] ++
                     show_res (bs "back") show_ty (back_of h pr)
    | _, Panic => bs "hcl=panic back=-"
    | _, _ => bs "hcl=err back=-"
    end.
End Obs.
