(** C03_hcl, differ part, with generated index names: the first loop of indexDiffT for two tables
    whose indexes are pairwise alike (same name, same generated-name status, same column names, no
    index change), when Normalize has renamed the generated names of the desired side.  This is C02's
    copy argument (Diff/DiffSqliteCopy.v) redone for two different index lists. *)
From Coq Require Import List NArith Bool Arith Lia Permutation.
From Atlas Require Import Base.Bytes Diff.Schema Diff.DiffModel Diff.DiffSqlite Diff.DiffProofs Diff.DiffSqliteProofs Diff.DiffSqliteCopy.
Import ListNotations.
Local Open Scope N_scope.

Definition alike (i j : index) : Prop :=
  i_name i = i_name j /\ is_auto i = is_auto j /\ part_col_names (i_parts i) = part_col_names (i_parts j) /\
  i_unique i = i_unique j /\ index_change sqlite_driver i j = 0 /\ parts_change sqlite_driver i j = 0.

Lemma parts_loop_irrel' (i1 i2 j1 j2 : index) n l1 l2 :
  parts_loop sqlite_driver i1 i2 n l1 l2 = parts_loop sqlite_driver j1 j2 n l1 l2.
Proof.
  revert n l2. induction l1 as [|p1 l1 IH]; intros n l2; [reflexivity|]. destruct l2 as [|p2 l2]; [reflexivity|].
  cbn [parts_loop]. unfold part_changed. cbn [dd_index_part_attr_changed sqlite_driver]. rewrite IH. reflexivity.
Qed.
Lemma parts_change_rename i j n : parts_change sqlite_driver i (set_i_name j n) = parts_change sqlite_driver i j.
Proof.
  unfold parts_change. destruct j as [jn ju jp jpr jc jo]. unfold set_i_name. cbn [i_parts].
  rewrite (parts_loop_irrel' i _ i (mkIndex jn ju jp jpr jc jo)). reflexivity.
Qed.
Lemma index_change_rename i j n : index_change sqlite_driver i (set_i_name j n) = index_change sqlite_driver i j.
Proof.
  unfold index_change. rewrite parts_change_rename. destruct j as [jn ju jp jpr jc jo]. reflexivity.
Qed.

Lemma F2_length {A B} (R : A -> B -> Prop) l1 l2 : Forall2 R l1 l2 -> length l1 = length l2.
Proof. induction 1; simpl; congruence. Qed.

Section Auto.
Variable skip : tag -> bool.
Variables from to : table.
Variable l' : list index.
Hypothesis NM : t_name from = t_name to.
Hypothesis NL : normalize_idxs to (t_idx to) = Some l'.
Hypothesis ND : NoDup (map i_name l').
Hypothesis AL : Forall2 alike (t_idx from) (t_idx to).
Hypothesis AU : forall i, In i (t_idx from) -> is_auto i = true ->
       sqlite_is_generated_index_name from i = true /\ (forall j, In j l' -> i_name j <> i_name i).

Let to' := set_t_idx to l'.

Lemma index_from_alike suf sufT suf' :
  Forall2 alike suf sufT -> Forall2 (fun j j' => normalize_idx_name j to = Some j') sufT suf' ->
  forall pre pre', t_idx from = pre ++ suf -> l' = pre' ++ suf' -> length pre = length pre' ->
  forall ex,
  fst (index_diff_from sqlite_driver from to' suf ex) = [] /\
  (forall k, In k ex -> In k (snd (index_diff_from sqlite_driver from to' suf ex))) /\
  (forall k, (length pre <= k < length pre + length suf)%nat -> In k (snd (index_diff_from sqlite_driver from to' suf ex))).
Proof.
  intros HA. revert suf'. induction HA as [|i j suf sufT Hij HA IH]; intros suf' HN pre pre' E1 E2 EL ex.
  - simpl. repeat split; auto. intros k Hk. lia.
  - destruct suf' as [|j' suf'']; [inversion HN|]. assert (Hj : normalize_idx_name j to = Some j') by (inversion HN; assumption).
    assert (HN' : Forall2 (fun j j' => normalize_idx_name j to = Some j') sufT suf'') by (inversion HN; assumption). clear HN.
    assert (Hin : In i (t_idx from)) by (rewrite E1; apply in_or_app; right; left; reflexivity).
    assert (Hnth : nth_error l' (length pre) = Some j').
    { rewrite E2, EL. rewrite nth_error_app2 by lia. rewrite Nat.sub_diag. reflexivity. }
    destruct Hij as (Hname & Hauto & Hpcn & Huniq & Hic & Hpc).
    specialize (IH suf'' HN' (pre ++ [i]) (pre' ++ [j'])).
    assert (IH' : forall ex0,
      fst (index_diff_from sqlite_driver from to' suf ex0) = [] /\
      (forall k, In k ex0 -> In k (snd (index_diff_from sqlite_driver from to' suf ex0))) /\
      (forall k, (S (length pre) <= k < S (length pre) + length suf)%nat ->
                 In k (snd (index_diff_from sqlite_driver from to' suf ex0)))).
    { intros ex0. destruct (IH) with (ex := ex0) as [A [B C]].
      - rewrite <- app_assoc. exact E1.
      - rewrite <- app_assoc. exact E2.
      - rewrite !app_length. simpl. lia.
      - repeat split; auto. intros k Hk. apply C. rewrite app_length. simpl. lia. }
    clear IH.
    assert (Found : find_idx (i_name j') l' = Some (length pre, j')).
    { unfold find_idx. rewrite (find_idx_from_at 0 l' (length pre) j' ND Hnth). reflexivity. }
    rewrite normalize_idx_name_cases in Hj.
    simpl index_diff_from. change (t_idx to') with l'.
    destruct (is_auto i) eqn:A.
    + (* renamed on the desired side: found through FindGeneratedIndex *)
      rewrite <- Hauto in Hj.
      destruct (part_col_names (i_parts j)) as [names|] eqn:PN; [|discriminate].
      inversion Hj as [Hj']. clear Hj.
      destruct (AU i Hin A) as [G NN].
      assert (Abs : find_idx (i_name i) l' = None) by (apply find_idx_absent; exact NN).
      rewrite Abs. simpl dd_is_generated_index_name. rewrite G.
      assert (Sim : similar_unnamed_index sqlite_driver to' i = Some (length pre)).
      { unfold similar_unnamed_index. simpl dd_find_generated_index.
        unfold sqlite_find_generated_index.
        rewrite normalize_idx_name_cases.
        assert (A2 : is_auto (mkIndex (i_name i) false (i_parts i) (i_pred i) (i_comment i) (i_origin i)) = true) by exact A.
        rewrite A2. simpl i_parts. rewrite Hpcn.
        change (t_name to') with (t_name to).
        assert (Nm : i_name j' = join_us (t_name to :: names)) by (rewrite <- Hj'; reflexivity).
        unfold set_i_name at 1. cbn [i_name]. change (t_idx to') with l'. rewrite <- Nm, Found.
        unfold idx_match. rewrite <- Hj'. simpl i_unique. rewrite Huniq, eqb_reflx. simpl.
        rewrite parts_change_rename, Hpc. reflexivity. }
      rewrite Sim.
      destruct (IH' (length pre :: ex)) as [R1 [R2 R3]].
      repeat split; auto.
      * intros k Hk. apply R2. right. exact Hk.
      * intros k Hk. simpl in Hk. destruct (Nat.eq_dec k (length pre)) as [->|Ne].
        -- apply R2. left. reflexivity.
        -- apply R3. lia.
    + (* unchanged: found by name *)
      rewrite <- Hauto in Hj. inversion Hj; subst j'. rewrite Hname, Found.
      rewrite Hic. simpl.
      destruct (IH' (length pre :: ex)) as [R1 [R2 R3]].
      destruct (index_diff_from sqlite_driver from to' suf (length pre :: ex)) as [r ex2]. simpl in *.
      repeat split; auto.
      intros k Hk. destruct (Nat.eq_dec k (length pre)) as [->|Ne].
      * apply R2. left. reflexivity.
      * apply R3. lia.
Qed.

Lemma index_diff_alike : index_diff_t sqlite_driver skip from to' = [].
Proof.
  unfold index_diff_t.
  pose proof (normalize_idxs_forall2 to _ _ NL) as F.
  assert (LEN : length (t_idx from) = length l').
  { pose proof (F2_length _ _ _ AL). pose proof (F2_length _ _ _ F). lia. }
  destruct (index_from_alike (t_idx from) (t_idx to) l' AL F [] [] eq_refl eq_refl eq_refl []) as [R1 [_ R3]].
  destruct (index_diff_from sqlite_driver from to' (t_idx from) []) as [r ex]. simpl in R1, R3. subst r.
  change (t_idx to') with l'. rewrite index_add_none; [reflexivity|].
  intros k Hk. apply R3. lia.
Qed.
End Auto.

(** ** tableDiff of two alike tables, generated index names allowed *)
From Atlas Require Import Sqlite.PlanModel Hcl.SpecModel Hcl.SpecProofs Hcl.SpecDiffProofs.

Record tsim_auto (a b : table) : Prop := {
  ta_name : t_name a = t_name b;
  ta_wr : t_without_rowid a = t_without_rowid b;
  ta_strict : t_strict a = t_strict b;
  ta_checks : t_checks a = t_checks b;
  ta_fks : t_fks a = t_fks b;
  ta_cols : Forall2 (fun c c' => c_name c' = c_name c /\ sqlite_column_change a c c' = Some 0) (t_cols a) (t_cols b);
  ta_pk : match t_pk a, t_pk b with
          | None, None => True
          | Some p, Some q => N.land (index_change sqlite_driver p q) pk_mask = 0
          | _, _ => False
          end;
  ta_idx : Forall2 alike (t_idx a) (t_idx b)
}.

Lemma table_diff_sim_auto a b l' :
  wf_table a -> named_unique (t_checks b) ->
  fk_stable (t_name a) (t_name b) (t_fks a) (t_fks b) ->
  normalize_idxs b (t_idx b) = Some l' -> NoDup (map i_name l') ->
  (forall i, In i (t_idx a) -> is_auto i = true ->
     sqlite_is_generated_index_name a i = true /\ (forall j, In j l' -> i_name j <> i_name i)) ->
  tsim_auto a b -> table_diff sqlite_driver no_skip a b = Some [].
Proof.
  intros WF NU FS NL ND AU S. destruct S as [Hn Hwr Hst Hck Hfk Hcols Hpk Hidx].
  unfold table_diff. rewrite <- Hn, set_t_name_id.
  cbn [dd_normalize sqlite_driver]. unfold sqlite_normalize.
  rewrite (normalize_fks_stable _ _ _ _ _ FS), NL, set_t_fks_id.
  set (to' := set_t_idx b l').
  cbn [dd_table_attr_diff sqlite_driver]. unfold sqlite_table_attr_diff.
  change (t_without_rowid to') with (t_without_rowid b). change (t_strict to') with (t_strict b).
  change (t_checks to') with (t_checks b).
  rewrite Hwr, Hst, Hck.
  assert (checks_diff (check_compare None) (t_checks b) (t_checks b) = []) as ->.
  { apply checks_diff_sim; [intro c; apply check_compare_none_refl|exact NU|apply incl_refl|apply incl_refl]. }
  assert (forall x (f : bool), (if f && negb f then [DropAttr x] else if negb f && f then [AddAttr x] else []) = []) as Hat
    by (intros x f; destruct f; reflexivity).
  rewrite !Hat. cbn [app].
  (* columns *)
  destruct (combine_some_fst _ _ _ Hcols) as (C1 & C2 & C3).
  destruct (column_diff_exact sqlite_driver no_skip a to' (combine (t_cols a) (map Some (t_cols b))) []) as (a1 & P1 & E1).
  { symmetry. exact C1. }
  { split.
    - rewrite C1, app_nil_r. exact (wf_cols a WF).
    - intros c c' Hin. destruct (C3 c (Some c') Hin) as (c'' & E & (Hk & _) & _). inversion E; subst. exact Hk. }
  { change (t_cols to') with (t_cols b). rewrite C2, app_nil_r. apply Permutation_refl. }
  { intros c c' Hin. destruct (C3 c (Some c') Hin) as (c'' & E & (_ & Hc) & _). inversion E; subst.
    cbn [dd_column_change sqlite_driver]. rewrite Hc. discriminate. }
  apply Permutation_nil in P1. subst a1. rewrite E1.
  assert (col_expected sqlite_driver a (combine (t_cols a) (map Some (t_cols b))) = []) as ->.
  { unfold col_expected. apply flat_map_nil. intros [c o] Hin. destruct (C3 c o Hin) as (c' & -> & (_ & Hc) & _).
    cbn [snd fst dd_column_change sqlite_driver]. rewrite Hc. reflexivity. }
  cbn [app map]. assert (add_or_skip no_skip [] = []) as -> by reflexivity. cbn [app].
  (* primary key *)
  assert (pk_diff sqlite_driver no_skip a to' = []) as ->.
  { unfold pk_diff. change (t_pk to') with (t_pk b). destruct (t_pk a) as [p|], (t_pk b) as [q|]; try contradiction; [|reflexivity].
    unfold pk_mask in Hpk. rewrite Hpk. reflexivity. }
  cbn [app].
  (* indexes *)
  pose proof (index_diff_alike no_skip a b l' NL ND Hidx AU) as XI. fold to' in XI. rewrite XI.
  cbn [app].
  (* foreign keys *)
  destruct (fk_diff_exact sqlite_driver no_skip a to' (idscript (t_fks a)) []) as (a3 & P3 & E3).
  { symmetry; apply idscript_fst. }
  { apply idscript_ok. exact (wf_fks a WF). }
  { change (t_fks to') with (t_fks b). rewrite idscript_kept, app_nil_r, Hfk. apply Permutation_refl. }
  apply Permutation_nil in P3. subst a3. rewrite E3.
  assert (fk_expected sqlite_driver (idscript (t_fks a)) = []) as ->.
  { unfold fk_expected. apply flat_map_nil. intros [c o] H. apply idscript_in in H. destruct H as [-> Hc].
    cbn [snd fst]. rewrite (fk_change_refl sqlite_driver sqlite_refl_laws c). reflexivity. }
  reflexivity.
Qed.

(** ** the HCL normal form against the original, generated index names allowed *)
Definition origin_not_p (i : index) : Prop :=
  has_prefix SQLITE_AUTOINDEX (i_name i) <> None -> i_origin i <> Some ORIGIN_P.

Lemma is_auto_norm i : origin_not_p i -> is_auto (norm_idx i) = is_auto i.
Proof.
  intro H. unfold is_auto, norm_idx. cbn [i_name i_origin].
  destruct (has_prefix SQLITE_AUTOINDEX (i_name i)) eqn:E; [|reflexivity].
  assert (i_origin i <> Some ORIGIN_P) as Ho by (apply H; rewrite E; discriminate).
  cbn [ostr_eqb]. destruct (i_origin i) as [o|]; [|reflexivity].
  cbn [ostr_eqb]. destruct (str_eqb o ORIGIN_P) eqn:Eo; [|reflexivity].
  exfalso. apply Ho. f_equal. apply str_eqb_eq. exact Eo.
Qed.

Lemma part_col_names_seq k l : part_col_names (seq_parts k l) = part_col_names (seq_parts 0 l).
Proof.
  revert k. induction l as [|[[d c] x] l IH]; intro k; [reflexivity|]. cbn [seq_parts part_col_names p_col].
  rewrite (IH (k + 1)), (IH (0 + 1)). reflexivity.
Qed.
Lemma part_col_names_norm ps : part_col_names (seq_parts 0 (map part_key ps)) = part_col_names ps.
Proof.
  induction ps as [|p ps IH]; [reflexivity|]. cbn [map seq_parts]. unfold part_key at 1.
  destruct (p_col p) as [n|] eqn:E; cbn [part_col_names p_col]; rewrite E; [|reflexivity].
  rewrite part_col_names_seq, IH. reflexivity.
Qed.

Lemma lor_zero a b : N.lor a b = 0 -> a = 0 /\ b = 0.
Proof. apply N.lor_eq_0_iff. Qed.

Lemma alike_norm i : idx_ok i -> origin_not_p i -> alike (norm_idx i) i /\ alike i (norm_idx i).
Proof.
  intros Hok Ho. destruct (index_change_norm i Hok) as [H1 H2].
  pose proof (is_auto_norm i Ho) as Ha.
  assert (part_col_names (i_parts (norm_idx i)) = part_col_names (i_parts i)) as Hp
    by (unfold norm_idx; cbn [i_parts]; apply part_col_names_norm).
  assert (parts_change sqlite_driver (norm_idx i) i = 0 /\ parts_change sqlite_driver i (norm_idx i) = 0) as [P1 P2].
  { unfold index_change in H1, H2. apply lor_zero in H1. destruct H1 as [H1 _]. apply lor_zero in H1. destruct H1 as [_ H1].
    apply lor_zero in H2. destruct H2 as [H2 _]. apply lor_zero in H2. destruct H2 as [_ H2]. auto. }
  split; repeat split; auto.
Qed.

(** normalizeIdxName renames the two sides alike *)
Lemma normalize_norm_idx i t t' i' : t_name t' = t_name t -> origin_not_p i ->
  normalize_idx_name i t = Some i' ->
  normalize_idx_name (norm_idx i) t' = Some (set_i_name (norm_idx i) (i_name i')).
Proof.
  intros Hn Ho. rewrite !normalize_idx_name_cases, (is_auto_norm i Ho).
  assert (part_col_names (i_parts (norm_idx i)) = part_col_names (i_parts i)) as ->
    by (unfold norm_idx; cbn [i_parts]; apply part_col_names_norm).
  rewrite Hn. destruct (is_auto i).
  - destruct (part_col_names (i_parts i)); [|discriminate]. intros [= <-]. reflexivity.
  - intros [= <-]. destruct i; reflexivity.
Qed.

Lemma normalize_norm_idxs l t t' lx : t_name t' = t_name t -> Forall origin_not_p l ->
  normalize_idxs t l = Some lx ->
  exists lx', normalize_idxs t' (map norm_idx l) = Some lx' /\ map i_name lx' = map i_name lx.
Proof.
  intros Hn Ho. revert lx. induction Ho as [|i l Hi Ho IH]; intros lx H.
  - simpl in H. injection H as <-. exists []. auto.
  - simpl in H. destruct (normalize_idx_name i t) as [i'|] eqn:E; [|discriminate].
    destruct (normalize_idxs t l) as [r|] eqn:Er; [|discriminate]. injection H as <-.
    destruct (IH r eq_refl) as (r' & Hr' & Hm).
    exists (set_i_name (norm_idx i) (i_name i') :: r'). cbn [map normalize_idxs].
    rewrite (normalize_norm_idx i t t' i' Hn Hi E), Hr'. split; [reflexivity|]. cbn [map]. rewrite Hm.
    destruct (norm_idx i); reflexivity.
Qed.

Record diffable_auto (x : xtable) : Prop := {
  da_wf : wf_table (x_t x);
  da_cols : Forall col_ok (t_cols (x_t x));
  da_idx : Forall idx_ok (t_idx (x_t x));
  da_origin : Forall origin_not_p (t_idx (x_t x));
  da_norm : exists lx, normalize_idxs (x_t x) (t_idx (x_t x)) = Some lx /\ NoDup (map i_name lx) /\
            (forall i, In i (t_idx (x_t x)) -> is_auto i = true ->
               sqlite_is_generated_index_name (x_t x) i = true /\ (forall n, In n (map i_name lx) -> n <> i_name i));
  da_pk : match t_pk (x_t x) with Some pk => pk_ok pk | None => True end;
  da_fks : Forall (fun f => norm_fk f = f) (t_fks (x_t x));
  da_fk_stable : fk_stable (t_name (x_t x)) (t_name (x_t x)) (t_fks (x_t x)) (t_fks (x_t x));
  da_checks : named_unique (t_checks (x_t x))
}.

Lemma diffable_auto_diffable_parts x : diffable_auto x ->
  tsim_auto (x_t (norm_x x)) (x_t x) /\ tsim_auto (x_t x) (x_t (norm_x x)).
Proof.
  intros [WF Hc Hi Ho _ Hpk Hf Hfs Hck]. unfold norm_x. cbn [x_t].
  pose proof (map_norm_fk_id _ Hf) as Efk.
  split; constructor; cbn [t_name t_without_rowid t_strict t_checks t_fks t_cols t_pk t_idx]; auto.
  - clear -Hc. induction Hc as [|c l Hc H IH]; simpl; constructor; [|exact IH].
    split; [reflexivity|]. exact (proj1 (column_change_norm _ c Hc)).
  - destruct (t_pk (x_t x)) as [pk|]; [|exact I]. exact (proj1 (pk_change_norm pk Hpk)).
  - clear -Hi Ho. induction Hi as [|i l Hi H IH]; simpl; constructor.
    + inversion Ho; subst. exact (proj1 (alike_norm i Hi H2)).
    + inversion Ho; subst. apply IH. assumption.
  - clear -Hc. induction Hc as [|c l Hc H IH]; simpl; constructor; [|exact IH].
    split; [reflexivity|]. exact (proj2 (column_change_norm _ c Hc)).
  - destruct (t_pk (x_t x)) as [pk|]; [|exact I]. exact (proj2 (pk_change_norm pk Hpk)).
  - clear -Hi Ho. induction Hi as [|i l Hi H IH]; simpl; constructor.
    + inversion Ho; subst. exact (proj2 (alike_norm i Hi H2)).
    + inversion Ho; subst. apply IH. assumption.
Qed.

Lemma wf_norm_auto x : diffable_auto x -> wf_table (x_t (norm_x x)).
Proof.
  intros [WF Hc Hi Ho _ Hpk Hf Hfs Hck]. destruct (norm_names x) as [N1 N2].
  pose proof (map_norm_fk_id _ Hf) as Efk.
  constructor; unfold norm_x; cbn [x_t t_cols t_idx t_pk t_fks].
  - rewrite N1. exact (wf_cols _ WF).
  - rewrite N2. exact (wf_idx _ WF).
  - intros i' Hin. apply in_map_iff in Hin. destruct Hin as (i & <- & Hin).
    rewrite Forall_forall in Hi. destruct (Hi i Hin) as (Hsh & _).
    unfold index_ok, norm_idx. cbn [i_parts]. apply seq_parts_ok.
    clear -Hsh. induction Hsh as [|p ps Hp H IH]; simpl; constructor; [|exact IH].
    unfold part_key, part_shape_ok in *. destruct (p_col p), (p_expr p); try contradiction; cbn [fst snd]; [left|right]; discriminate.
  - intros pk' E. destruct (t_pk (x_t x)) as [pk|]; [|discriminate]. injection E as <-.
    destruct Hpk as (Hparts & _). unfold index_ok, norm_pk. cbn [i_parts]. apply seq_parts_ok.
    clear -Hparts. induction Hparts as [|p ps (Hd & Hx & Hcn) H IH]; simpl; constructor; [|exact IH].
    cbn [fst snd]. left. exact Hcn.
  - rewrite Efk. exact (wf_fks _ WF).
Qed.

Lemma gen_name_names t t' i i' : t_name t' = t_name t -> i_name i' = i_name i ->
  sqlite_is_generated_index_name t' i' = sqlite_is_generated_index_name t i.
Proof. intros H1 H2. unfold sqlite_is_generated_index_name. rewrite H1, H2. reflexivity. Qed.

(** the differ sees no change between a table and its HCL round trip, either way -- also when the
    table has UNIQUE-constraint indexes with generated names *)
Theorem table_diff_norm_auto x : diffable_auto x ->
  table_diff sqlite_driver no_skip (x_t (norm_x x)) (x_t x) = Some [] /\
  table_diff sqlite_driver no_skip (x_t x) (x_t (norm_x x)) = Some [].
Proof.
  intro D. destruct (diffable_auto_diffable_parts x D) as [S1 S2].
  pose proof (wf_norm_auto x D) as WFn.
  destruct D as [WF Hc Hi Ho (lx & NL & ND & AU) Hpk Hf Hfs Hck].
  pose proof (map_norm_fk_id _ Hf) as Efk.
  split.
  - apply (table_diff_sim_auto _ _ lx); [exact WFn|exact Hck| |exact NL|exact ND| |exact S1].
    + unfold norm_x. cbn [x_t t_name t_fks]. rewrite Efk. exact Hfs.
    + unfold norm_x. cbn [x_t t_idx]. intros i' Hin Ha. apply in_map_iff in Hin. destruct Hin as (i & <- & Hin).
      rewrite Forall_forall in Ho. rewrite (is_auto_norm i (Ho i Hin)) in Ha.
      destruct (AU i Hin Ha) as [G NN]. split.
      * rewrite <- G. apply gen_name_names; reflexivity.
      * intros j Hj. apply (NN (i_name j)). apply in_map. exact Hj.
  - destruct (normalize_norm_idxs (t_idx (x_t x)) (x_t x) (x_t (norm_x x)) lx eq_refl Ho NL) as (lx' & NL' & Hm).
    apply (table_diff_sim_auto _ _ lx'); [exact WF| | |exact NL'| | |exact S2].
    + unfold norm_x. cbn [x_t t_checks]. exact Hck.
    + unfold norm_x. cbn [x_t t_name t_fks]. rewrite Efk. exact Hfs.
    + rewrite Hm. exact ND.
    + intros i Hin Ha. destruct (AU i Hin Ha) as [G NN]. split; [exact G|].
      intros j Hj. apply (NN (i_name j)). rewrite <- Hm. apply in_map. exact Hj.
Qed.

(** C03_hcl with generated index names *)
Theorem hcl_roundtrip_diff_empty_auto name xs :
  schema_wf xs -> Forall diffable_auto xs ->
  exists ys, hcl_roundtrip xs = ROk ys /\
    SchemaDiff sqlite_driver no_skip (schema_of name ys) (schema_of name xs) = Some [] /\
    SchemaDiff sqlite_driver no_skip (schema_of name xs) (schema_of name ys) = Some [].
Proof.
  intros WF DF. exists (map norm_x xs). split; [exact (hcl_roundtrip_norm xs WF)|].
  destruct WF as [_ ND]. unfold schema_of. rewrite map_map.
  assert (map t_name (map x_t xs) = map x_name xs) as Hn1 by (rewrite map_map; reflexivity).
  assert (map t_name (map (fun x => x_t (norm_x x)) xs) = map x_name xs) as Hn2 by (rewrite map_map; reflexivity).
  split; apply schema_diff_pairs.
  - rewrite Hn2. exact ND.
  - clear -DF. induction DF as [|x l Hx H IH]; simpl; constructor; [|exact IH].
    split; [reflexivity|exact (proj1 (table_diff_norm_auto x Hx))].
  - rewrite Hn1. exact ND.
  - clear -DF. induction DF as [|x l Hx H IH]; simpl; constructor; [|exact IH].
    split; [reflexivity|exact (proj2 (table_diff_norm_auto x Hx))].
Qed.

(** ** witness: u(a int UNIQUE, b text) as inspected -- the UNIQUE constraint's index has a generated name *)
Require Import Coq.Strings.String.
Import List ListNotations.
Definition w_u : xtable :=
  mkX (mkTable (Bs "u") false false
         [mkColumn (Bs "a") 2 (Bs "int") true None None None; mkColumn (Bs "b") 3 (Bs "text") true (Some (DLit (Bs "'x'"))) None None]
         None
         [mkIndex (Bs "sqlite_autoindex_u_1") true [mkPart 1 false (Some (Bs "a")) None] None None (Some (Bs "u"))]
         [] []) [].
Lemma w_u_wf : schema_wf [w_u].
Proof.
  split.
  - constructor; [|constructor]. split; [|split; [|split]].
    + constructor; [exact I|]. constructor; [eexists; vm_compute; reflexivity|constructor].
    + exact I.
    + constructor; [|constructor]. split; [discriminate|]. constructor; [vm_compute; reflexivity|constructor].
    + constructor.
  - vm_compute. constructor; [intros []|constructor].
Qed.
Lemma w_u_diffable : diffable_auto w_u.
Proof.
  constructor.
  - constructor.
    + nodup_tac.
    + nodup_tac.
    + intros i [<-|[]]. constructor; [left; discriminate|constructor].
    + intros pk E. discriminate.
    + nodup_tac.
  - constructor; [split; [discriminate|exact I]|]. constructor; [split; [discriminate|vm_compute; reflexivity]|constructor].
  - constructor; [|constructor]. split; [|split; [|split]].
    + constructor; [exact I|constructor].
    + exact I.
    + discriminate.
    + reflexivity.
  - constructor; [|constructor]. intros _. discriminate.
  - eexists. split; [vm_compute; reflexivity|]. split.
    + nodup_tac.
    + intros i [<-|[]] _. split; [vm_compute; reflexivity|]. intros n [<-|[]]. discriminate.
  - exact I.
  - constructor.
  - intros f1 f2 [].
  - intros c c' [].
Qed.
