(** C03_hcl, differ part, with generated index names: the first loop of indexDiffT for two tables
    whose indexes are pairwise alike (same name, same generated-name status, same column names, no
    index change), when Normalize has renamed the generated names of the desired side.  This is C02's
    copy argument (Diff/DiffSqliteCopy.v) redone for two different index lists. *)
From Coq Require Import List NArith Bool Arith Lia Permutation.
From Atlas Require Import Base.Bytes Diff.Schema Diff.DiffModel Diff.DiffSqlite Diff.DiffProofs Diff.DiffSqliteProofs Diff.DiffSqliteCopy.
Import ListNotations.
Local Open Scope N_scope.

Definition alike (i j : index) : Prop :=
  i_name i = i_name j /\ is_auto i = is_auto j /\ part_col_names (i_parts i) = part_col_names (i_parts j) /\
  i_unique i = i_unique j /\ index_change sqlite_driver i j = 0 /\ parts_change sqlite_driver i j = 0.

Lemma parts_loop_irrel' (i1 i2 j1 j2 : index) n l1 l2 :
  parts_loop sqlite_driver i1 i2 n l1 l2 = parts_loop sqlite_driver j1 j2 n l1 l2.
Proof.
  revert n l2. induction l1 as [|p1 l1 IH]; intros n l2; [reflexivity|]. destruct l2 as [|p2 l2]; [reflexivity|].
  cbn [parts_loop]. unfold part_changed. cbn [dd_index_part_attr_changed sqlite_driver]. rewrite IH. reflexivity.
Qed.
Lemma parts_change_rename i j n : parts_change sqlite_driver i (set_i_name j n) = parts_change sqlite_driver i j.
Proof.
  unfold parts_change. destruct j as [jn ju jp jpr jc jo]. unfold set_i_name. cbn [i_parts].
  rewrite (parts_loop_irrel' i _ i (mkIndex jn ju jp jpr jc jo)). reflexivity.
Qed.
Lemma index_change_rename i j n : index_change sqlite_driver i (set_i_name j n) = index_change sqlite_driver i j.
Proof.
  unfold index_change. rewrite parts_change_rename. destruct j as [jn ju jp jpr jc jo]. reflexivity.
Qed.

Lemma F2_length {A B} (R : A -> B -> Prop) l1 l2 : Forall2 R l1 l2 -> length l1 = length l2.
Proof. induction 1; simpl; congruence. Qed.

Section Auto.
Variable skip : tag -> bool.
Variables from to : table.
Variable l' : list index.
Hypothesis NM : t_name from = t_name to.
Hypothesis NL : normalize_idxs to (t_idx to) = Some l'.
Hypothesis ND : NoDup (map i_name l').
Hypothesis AL : Forall2 alike (t_idx from) (t_idx to).
Hypothesis AU : forall i, In i (t_idx from) -> is_auto i = true ->
       sqlite_is_generated_index_name from i = true /\ (forall j, In j l' -> i_name j <> i_name i).

Let to' := set_t_idx to l'.

Lemma index_from_alike suf sufT suf' :
  Forall2 alike suf sufT -> Forall2 (fun j j' => normalize_idx_name j to = Some j') sufT suf' ->
  forall pre pre', t_idx from = pre ++ suf -> l' = pre' ++ suf' -> length pre = length pre' ->
  forall ex,
  fst (index_diff_from sqlite_driver from to' suf ex) = [] /\
  (forall k, In k ex -> In k (snd (index_diff_from sqlite_driver from to' suf ex))) /\
  (forall k, (length pre <= k < length pre + length suf)%nat -> In k (snd (index_diff_from sqlite_driver from to' suf ex))).
Proof.
  intros HA. revert suf'. induction HA as [|i j suf sufT Hij HA IH]; intros suf' HN pre pre' E1 E2 EL ex.
  - simpl. repeat split; auto. intros k Hk. lia.
  - destruct suf' as [|j' suf'']; [inversion HN|]. assert (Hj : normalize_idx_name j to = Some j') by (inversion HN; assumption).
    assert (HN' : Forall2 (fun j j' => normalize_idx_name j to = Some j') sufT suf'') by (inversion HN; assumption). clear HN.
    assert (Hin : In i (t_idx from)) by (rewrite E1; apply in_or_app; right; left; reflexivity).
    assert (Hnth : nth_error l' (length pre) = Some j').
    { rewrite E2, EL. rewrite nth_error_app2 by lia. rewrite Nat.sub_diag. reflexivity. }
    destruct Hij as (Hname & Hauto & Hpcn & Huniq & Hic & Hpc).
    specialize (IH suf'' HN' (pre ++ [i]) (pre' ++ [j'])).
    assert (IH' : forall ex0,
      fst (index_diff_from sqlite_driver from to' suf ex0) = [] /\
      (forall k, In k ex0 -> In k (snd (index_diff_from sqlite_driver from to' suf ex0))) /\
      (forall k, (S (length pre) <= k < S (length pre) + length suf)%nat ->
                 In k (snd (index_diff_from sqlite_driver from to' suf ex0)))).
    { intros ex0. destruct (IH) with (ex := ex0) as [A [B C]].
      - rewrite <- app_assoc. exact E1.
      - rewrite <- app_assoc. exact E2.
      - rewrite !app_length. simpl. lia.
      - repeat split; auto. intros k Hk. apply C. rewrite app_length. simpl. lia. }
    clear IH.
    assert (Found : find_idx (i_name j') l' = Some (length pre, j')).
    { unfold find_idx. rewrite (find_idx_from_at 0 l' (length pre) j' ND Hnth). reflexivity. }
    rewrite normalize_idx_name_cases in Hj.
    simpl index_diff_from. change (t_idx to') with l'.
    destruct (is_auto i) eqn:A.
    + (* renamed on the desired side: found through FindGeneratedIndex *)
      rewrite <- Hauto in Hj.
      destruct (part_col_names (i_parts j)) as [names|] eqn:PN; [|discriminate].
      inversion Hj as [Hj']. clear Hj.
      destruct (AU i Hin A) as [G NN].
      assert (Abs : find_idx (i_name i) l' = None) by (apply find_idx_absent; exact NN).
      rewrite Abs. simpl dd_is_generated_index_name. rewrite G.
      assert (Sim : similar_unnamed_index sqlite_driver to' i = Some (length pre)).
      { unfold similar_unnamed_index. simpl dd_find_generated_index.
        unfold sqlite_find_generated_index.
        rewrite normalize_idx_name_cases.
        assert (A2 : is_auto (mkIndex (i_name i) false (i_parts i) (i_pred i) (i_comment i) (i_origin i)) = true) by exact A.
        rewrite A2. simpl i_parts. rewrite Hpcn.
        change (t_name to') with (t_name to).
        assert (Nm : i_name j' = join_us (t_name to :: names)) by (rewrite <- Hj'; reflexivity).
        unfold set_i_name at 1. cbn [i_name]. change (t_idx to') with l'. rewrite <- Nm, Found.
        unfold idx_match. rewrite <- Hj'. simpl i_unique. rewrite Huniq, eqb_reflx. simpl.
        rewrite parts_change_rename, Hpc. reflexivity. }
      rewrite Sim.
      destruct (IH' (length pre :: ex)) as [R1 [R2 R3]].
      repeat split; auto.
      * intros k Hk. apply R2. right. exact Hk.
      * intros k Hk. simpl in Hk. destruct (Nat.eq_dec k (length pre)) as [->|Ne].
        -- apply R2. left. reflexivity.
        -- apply R3. lia.
    + (* unchanged: found by name *)
      rewrite <- Hauto in Hj. inversion Hj; subst j'. rewrite Hname, Found.
      rewrite Hic. simpl.
      destruct (IH' (length pre :: ex)) as [R1 [R2 R3]].
      destruct (index_diff_from sqlite_driver from to' suf (length pre :: ex)) as [r ex2]. simpl in *.
      repeat split; auto.
      intros k Hk. destruct (Nat.eq_dec k (length pre)) as [->|Ne].
      * apply R2. left. reflexivity.
      * apply R3. lia.
Qed.

Lemma index_diff_alike : index_diff_t sqlite_driver skip from to' = [].
Proof.
  unfold index_diff_t.
  pose proof (normalize_idxs_forall2 to _ _ NL) as F.
  assert (LEN : length (t_idx from) = length l').
  { pose proof (F2_length _ _ _ AL). pose proof (F2_length _ _ _ F). lia. }
  destruct (index_from_alike (t_idx from) (t_idx to) l' AL F [] [] eq_refl eq_refl eq_refl []) as [R1 [_ R3]].
  destruct (index_diff_from sqlite_driver from to' (t_idx from) []) as [r ex]. simpl in R1, R3. subst r.
  change (t_idx to') with l'. rewrite index_add_none; [reflexivity|].
  intros k Hk. apply R3. lia.
Qed.
End Auto.

(** ** tableDiff of two alike tables, generated index names allowed *)
From Atlas Require Import Sqlite.PlanModel Hcl.SpecModel Hcl.SpecProofs Hcl.SpecDiffProofs.

Record tsim_auto (a b : table) : Prop := {
  ta_name : t_name a = t_name b;
  ta_wr : t_without_rowid a = t_without_rowid b;
  ta_strict : t_strict a = t_strict b;
  ta_checks : t_checks a = t_checks b;
  ta_fks : t_fks a = t_fks b;
  ta_cols : Forall2 (fun c c' => c_name c' = c_name c /\ sqlite_column_change a c c' = Some 0) (t_cols a) (t_cols b);
  ta_pk : match t_pk a, t_pk b with
          | None, None => True
          | Some p, Some q => N.land (index_change sqlite_driver p q) pk_mask = 0
          | _, _ => False
          end;
  ta_idx : Forall2 alike (t_idx a) (t_idx b)
}.

Lemma table_diff_sim_auto a b l' :
  wf_table a -> named_unique (t_checks b) ->
  fk_stable (t_name a) (t_name b) (t_fks a) (t_fks b) ->
  normalize_idxs b (t_idx b) = Some l' -> NoDup (map i_name l') ->
  (forall i, In i (t_idx a) -> is_auto i = true ->
     sqlite_is_generated_index_name a i = true /\ (forall j, In j l' -> i_name j <> i_name i)) ->
  tsim_auto a b -> table_diff sqlite_driver no_skip a b = Some [].
Proof.
  intros WF NU FS NL ND AU S. destruct S as [Hn Hwr Hst Hck Hfk Hcols Hpk Hidx].
  unfold table_diff. rewrite <- Hn, set_t_name_id.
  cbn [dd_normalize sqlite_driver]. unfold sqlite_normalize.
  rewrite (normalize_fks_stable _ _ _ _ _ FS), NL, set_t_fks_id.
  set (to' := set_t_idx b l').
  cbn [dd_table_attr_diff sqlite_driver]. unfold sqlite_table_attr_diff.
  change (t_without_rowid to') with (t_without_rowid b). change (t_strict to') with (t_strict b).
  change (t_checks to') with (t_checks b).
  rewrite Hwr, Hst, Hck.
  assert (checks_diff (check_compare None) (t_checks b) (t_checks b) = []) as ->.
  { apply checks_diff_sim; [intro c; apply check_compare_none_refl|exact NU|apply incl_refl|apply incl_refl]. }
  assert (forall x (f : bool), (if f && negb f then [DropAttr x] else if negb f && f then [AddAttr x] else []) = []) as Hat
    by (intros x f; destruct f; reflexivity).
  rewrite !Hat. cbn [app].
  (* columns *)
  destruct (combine_some_fst _ _ _ Hcols) as (C1 & C2 & C3).
  destruct (column_diff_exact sqlite_driver no_skip a to' (combine (t_cols a) (map Some (t_cols b))) []) as (a1 & P1 & E1).
  { symmetry. exact C1. }
  { split.
    - rewrite C1, app_nil_r. exact (wf_cols a WF).
    - intros c c' Hin. destruct (C3 c (Some c') Hin) as (c'' & E & (Hk & _) & _). inversion E; subst. exact Hk. }
  { change (t_cols to') with (t_cols b). rewrite C2, app_nil_r. apply Permutation_refl. }
  { intros c c' Hin. destruct (C3 c (Some c') Hin) as (c'' & E & (_ & Hc) & _). inversion E; subst.
    cbn [dd_column_change sqlite_driver]. rewrite Hc. discriminate. }
  apply Permutation_nil in P1. subst a1. rewrite E1.
  assert (col_expected sqlite_driver a (combine (t_cols a) (map Some (t_cols b))) = []) as ->.
  { unfold col_expected. apply flat_map_nil. intros [c o] Hin. destruct (C3 c o Hin) as (c' & -> & (_ & Hc) & _).
    cbn [snd fst dd_column_change sqlite_driver]. rewrite Hc. reflexivity. }
  cbn [app map]. assert (add_or_skip no_skip [] = []) as -> by reflexivity. cbn [app].
  (* primary key *)
  assert (pk_diff sqlite_driver no_skip a to' = []) as ->.
  { unfold pk_diff. change (t_pk to') with (t_pk b). destruct (t_pk a) as [p|], (t_pk b) as [q|]; try contradiction; [|reflexivity].
    unfold pk_mask in Hpk. rewrite Hpk. reflexivity. }
  cbn [app].
  (* indexes *)
  pose proof (index_diff_alike no_skip a b l' NL ND Hidx AU) as XI. fold to' in XI. rewrite XI.
  cbn [app].
  (* foreign keys *)
  destruct (fk_diff_exact sqlite_driver no_skip a to' (idscript (t_fks a)) []) as (a3 & P3 & E3).
  { symmetry; apply idscript_fst. }
  { apply idscript_ok. exact (wf_fks a WF). }
  { change (t_fks to') with (t_fks b). rewrite idscript_kept, app_nil_r, Hfk. apply Permutation_refl. }
  apply Permutation_nil in P3. subst a3. rewrite E3.
  assert (fk_expected sqlite_driver (idscript (t_fks a)) = []) as ->.
  { unfold fk_expected. apply flat_map_nil. intros [c o] H. apply idscript_in in H. destruct H as [-> Hc].
    cbn [snd fst]. rewrite (fk_change_refl sqlite_driver sqlite_refl_laws c). reflexivity. }
  reflexivity.
Qed.
