(** C03_hcl, differ part: the SQLite differ reports no change between a schema and its
    HCL round trip (the normal form of Hcl/SpecProofs.v), in both directions. *)
From Coq Require Import List NArith Bool Arith Lia Permutation.
From Atlas Require Import Base.Bytes Diff.Schema Diff.DiffModel Diff.DiffSqlite Diff.DiffProofs Diff.DiffSqliteProofs
  Sqlite.PlanModel Hcl.SpecModel Hcl.SpecProofs.
Import ListNotations.
Local Open Scope N_scope.

(** ** tables the SQLite differ cannot tell apart *)
Definition pk_mask : N := N.lxor 32767 ChangeUnique.
Record tsim (a b : table) : Prop := {
  ts_name : t_name a = t_name b;
  ts_wr : t_without_rowid a = t_without_rowid b;
  ts_strict : t_strict a = t_strict b;
  ts_checks : t_checks a = t_checks b;
  ts_fks : t_fks a = t_fks b;
  ts_cols : Forall2 (fun c c' => c_name c' = c_name c /\ sqlite_column_change a c c' = Some 0) (t_cols a) (t_cols b);
  ts_pk : match t_pk a, t_pk b with
          | None, None => True
          | Some p, Some q => N.land (index_change sqlite_driver p q) pk_mask = 0
          | _, _ => False
          end;
  ts_idx : Forall2 (fun i i' => i_name i' = i_name i /\ index_change sqlite_driver i i' = 0) (t_idx a) (t_idx b)
}.

Lemma Forall2_keys {A} (R : A -> A -> Prop) (key : A -> str) l1 l2 :
  Forall2 (fun a b => key b = key a /\ R a b) l1 l2 -> map key l2 = map key l1.
Proof. induction 1 as [|a b l1 l2 [Hk _] H IH]; simpl; [reflexivity|]. rewrite Hk, IH. reflexivity. Qed.

Lemma table_diff_sim a b :
  wf_table a -> named_unique (t_checks b) ->
  fk_stable (t_name a) (t_name b) (t_fks a) (t_fks b) -> idx_norm_stable (t_idx b) ->
  tsim a b -> table_diff sqlite_driver no_skip a b = Some [].
Proof.
  intros WF NU FS IS S. destruct S as [Hn Hwr Hst Hck Hfk Hcols Hpk Hidx].
  unfold table_diff. rewrite <- Hn, set_t_name_id.
  cbn [dd_normalize sqlite_driver]. rewrite (sqlite_normalize_stable a b FS IS).
  cbn [dd_table_attr_diff sqlite_driver]. unfold sqlite_table_attr_diff.
  rewrite Hwr, Hst, Hck.
  assert (checks_diff (check_compare None) (t_checks b) (t_checks b) = []) as ->.
  { apply checks_diff_sim; [intro c; apply check_compare_none_refl|exact NU|apply incl_refl|apply incl_refl]. }
  assert (forall x (f : bool), (if f && negb f then [DropAttr x] else if negb f && f then [AddAttr x] else []) = []) as Hat
    by (intros x f; destruct f; reflexivity).
  rewrite !Hat. cbn [app].
  (* columns *)
  destruct (combine_some_fst _ _ _ Hcols) as (C1 & C2 & C3).
  destruct (column_diff_exact sqlite_driver no_skip a b (combine (t_cols a) (map Some (t_cols b))) []) as (a1 & P1 & E1).
  { symmetry. exact C1. }
  { split.
    - rewrite C1, app_nil_r. exact (wf_cols a WF).
    - intros c c' Hin. destruct (C3 c (Some c') Hin) as (c'' & E & (Hk & _) & _). inversion E; subst. exact Hk. }
  { rewrite C2, app_nil_r. apply Permutation_refl. }
  { intros c c' Hin. destruct (C3 c (Some c') Hin) as (c'' & E & (_ & Hc) & _). inversion E; subst.
    cbn [dd_column_change sqlite_driver]. rewrite Hc. discriminate. }
  apply Permutation_nil in P1. subst a1. rewrite E1.
  assert (col_expected sqlite_driver a (combine (t_cols a) (map Some (t_cols b))) = []) as ->.
  { unfold col_expected. apply flat_map_nil. intros [c o] Hin. destruct (C3 c o Hin) as (c' & -> & (_ & Hc) & _).
    cbn [snd fst dd_column_change sqlite_driver]. rewrite Hc. reflexivity. }
  cbn [app map]. assert (add_or_skip no_skip [] = []) as -> by reflexivity. cbn [app].
  (* primary key *)
  assert (pk_diff sqlite_driver no_skip a b = []) as ->.
  { unfold pk_diff. destruct (t_pk a) as [p|], (t_pk b) as [q|]; try contradiction; [|reflexivity].
    unfold pk_mask in Hpk. rewrite Hpk. reflexivity. }
  cbn [app].
  (* indexes *)
  destruct (combine_some_fst _ _ _ Hidx) as (I1 & I2 & I3).
  destruct (index_diff_exact sqlite_driver no_skip a b (combine (t_idx a) (map Some (t_idx b))) []) as (a2 & P2 & E2).
  { symmetry. exact I1. }
  { split.
    - rewrite I1, app_nil_r. exact (wf_idx a WF).
    - intros c c' Hin. destruct (I3 c (Some c') Hin) as (c'' & E & (Hk & _) & _). inversion E; subst. exact Hk. }
  { rewrite I2, app_nil_r. apply Permutation_refl. }
  { intros c Hin. destruct (I3 c None Hin) as (c' & E & _). discriminate. }
  apply Permutation_nil in P2. subst a2. rewrite E2.
  assert (idx_expected sqlite_driver (combine (t_idx a) (map Some (t_idx b))) = []) as ->.
  { unfold idx_expected. apply flat_map_nil. intros [c o] Hin. destruct (I3 c o Hin) as (c' & -> & (_ & Hc) & _).
    cbn [snd fst]. rewrite Hc. reflexivity. }
  cbn [app map]. assert (add_or_skip no_skip [] = []) as -> by reflexivity. cbn [app].
  (* foreign keys *)
  destruct (fk_diff_exact sqlite_driver no_skip a b (idscript (t_fks a)) []) as (a3 & P3 & E3).
  { symmetry; apply idscript_fst. }
  { apply idscript_ok. exact (wf_fks a WF). }
  { rewrite idscript_kept, app_nil_r, Hfk. apply Permutation_refl. }
  apply Permutation_nil in P3. subst a3. rewrite E3.
  assert (fk_expected sqlite_driver (idscript (t_fks a)) = []) as ->.
  { unfold fk_expected. apply flat_map_nil. intros [c o] H. apply idscript_in in H. destruct H as [-> Hc].
    cbn [snd fst]. rewrite (fk_change_refl sqlite_driver sqlite_refl_laws c). reflexivity. }
  reflexivity.
Qed.

(** ** columns *)
Lemma to_upper_idem s : to_upper (to_upper s) = to_upper s.
Proof.
  unfold to_upper. rewrite map_map. apply map_ext. intro c.
  destruct (N.leb 97 c && N.leb c 122) eqn:E; [|rewrite E; reflexivity].
  apply andb_true_iff in E. destruct E as [E1 E2]. apply N.leb_le in E1, E2.
  assert (N.leb 97 (c - 32) && N.leb (c - 32) 122 = false) as ->; [|reflexivity].
  apply andb_false_iff. left. apply N.leb_gt. lia.
Qed.
Lemma sov_idem t : stored_or_virtual (stored_or_virtual t) = stored_or_virtual t.
Proof.
  unfold stored_or_virtual. destruct (to_upper t) eqn:E; [reflexivity|].
  rewrite <- E, to_upper_idem, E. reflexivity.
Qed.

(** defaults the round trip hands back in a form the differ reads as unchanged *)
Definition default_ok (cls : N) (d : dflt) : bool :=
  match d with
  | DRaw _ => true
  | DLit v =>
      if raw_prefix v then true
      else if is_quoted v ch_squote || is_quoted v ch_dquote then
        match unquote v with
        | Some s => negb (is_quoted s ch_squote || is_quoted s ch_dquote)
        | None => false
        end
      else if bytes_eqb (to_lower v) S_true then bytes_eqb v S_true
      else if bytes_eqb (to_lower v) S_false then bytes_eqb v S_false
      else if N.eqb cls CLASS_STRING || N.eqb cls CLASS_ENUM then
        match num_kind v with NumUnmodelled => false | _ => true end
      else match num_kind v with
           | NumInt t | NumDec t => bytes_eqb t v
           | NumNot => true
           | _ => false
           end
  end.

Lemma unquote_plain s : is_quoted s ch_squote || is_quoted s ch_dquote = false -> unquote s = Some s.
Proof.
  intro H. apply orb_false_iff in H. destruct H as [H1 H2]. unfold unquote. rewrite H2, H1. reflexivity.
Qed.

Definition dval (d : dflt) : str := match d with DLit v => v | DRaw x => x end.

(** the differ compares the two default texts, then their unquoted forms *)
Definition texts_same (d1 d2 : str) : bool :=
  if str_eqb d1 d2 then true
  else match unquote d1, unquote d2 with
       | Some x1, Some x2 => str_eqb x1 x2
       | _, _ => false
       end.

Lemma default_ok_texts cls d : default_ok cls d = true ->
  texts_same (dval (norm_default cls d)) (dval d) = true /\ texts_same (dval d) (dval (norm_default cls d)) = true.
Proof.
  unfold default_ok, norm_default, column_default, texts_same. destruct d as [v|x].
  - destruct (raw_prefix v); [simpl; rewrite str_eqb_refl; auto|].
    destruct (is_quoted v ch_squote || is_quoted v ch_dquote) eqn:Eq.
    + destruct (unquote v) as [s|] eqn:Eu; [|discriminate]. intro Hs. apply negb_true_iff in Hs.
      simpl. rewrite Eu, (unquote_plain s Hs).
      destruct (str_eqb s v), (str_eqb v s); rewrite ?str_eqb_refl; auto.
    + destruct (bytes_eqb (to_lower v) S_true) eqn:Et.
      { intro H. apply bytes_eqb_eq in H. subst v. simpl. auto. }
      destruct (bytes_eqb (to_lower v) S_false) eqn:Ef.
      { intro H. apply bytes_eqb_eq in H. subst v. simpl. auto. }
      destruct (N.eqb cls CLASS_STRING || N.eqb cls CLASS_ENUM).
      * destruct (num_kind v); intro H; try discriminate; simpl; rewrite str_eqb_refl; auto.
      * destruct (num_kind v) as [t|t| | |]; intro H; try discriminate; simpl;
          try (apply bytes_eqb_eq in H; subst t); rewrite str_eqb_refl; auto.
  - intros _. simpl. rewrite str_eqb_refl. auto.
Qed.

Lemma default_changed_texts c1 c2 d1 d2 :
  c_default c1 = Some d1 -> c_default c2 = Some d2 -> texts_same (dval d1) (dval d2) = true ->
  sqlite_default_changed c1 c2 = false.
Proof.
  intros H1 H2 H. unfold sqlite_default_changed, default_value. rewrite H1, H2.
  unfold texts_same in H.
  assert (forall u1 u2 (x1 x2 : str), u1 = x1 -> u2 = x2 ->
           (if str_eqb x1 x2 then true else match unquote x1, unquote x2 with Some a, Some b => str_eqb a b | _, _ => false end) = true ->
           (if str_eqb u1 u2 then false else match unquote u1, unquote u2 with Some a, Some b => if str_eqb a b then false else negb (str_eqb a u1) || negb (str_eqb b u2) || negb (str_eqb (may_wrap u1) (may_wrap u2)) | _, _ => true end) = false) as Hgen.
  { intros u1 u2 x1 x2 -> ->. destruct (str_eqb x1 x2); [reflexivity|].
    destruct (unquote x1), (unquote x2); try discriminate. intros ->. reflexivity. }
  destruct d1, d2; exact (Hgen _ _ _ _ eq_refl eq_refl H).
Qed.

Definition col_ok (c : column) : Prop :=
  c_class c <> 0 /\ match c_default c with Some d => default_ok (c_class c) d = true | None => True end.

Lemma column_change_norm t c : col_ok c ->
  sqlite_column_change t (norm_col c) c = Some 0 /\ sqlite_column_change t c (norm_col c) = Some 0.
Proof.
  intros [Hcls Hd]. unfold sqlite_column_change, sqlite_type_changed.
  cbn [norm_col c_class c_T c_null].
  apply N.eqb_neq in Hcls. rewrite Hcls. cbn [orb].
  assert (forall b : bool, (if N.eqb (c_class c) UDT_CLASS
             then Some (negb (N.eqb (c_class c) UDT_CLASS) || negb (str_eqb (c_T c) (c_T c)))
             else Some (negb (N.eqb (c_class c) (c_class c)))) = Some false) as Hty.
  { intros _. destruct (N.eqb (c_class c) UDT_CLASS) eqn:E; [rewrite str_eqb_refl|rewrite N.eqb_refl]; reflexivity. }
  rewrite (Hty true). rewrite eqb_reflx. cbn [negb bit].
  assert (sqlite_default_changed (norm_col c) c = false /\ sqlite_default_changed c (norm_col c) = false) as [Hd1 Hd2].
  { destruct (c_default c) as [d|] eqn:Ed.
    - destruct (default_ok_texts _ d Hd) as [T1 T2]. split.
      + apply (default_changed_texts _ _ (norm_default (c_class c) d) d); [cbn [norm_col c_default]; rewrite Ed; reflexivity|exact Ed|exact T1].
      + apply (default_changed_texts _ _ d (norm_default (c_class c) d)); [exact Ed|cbn [norm_col c_default]; rewrite Ed; reflexivity|exact T2].
    - unfold sqlite_default_changed, default_value. cbn [norm_col c_default]. rewrite Ed. auto. }
  assert (sqlite_generated_changed (norm_col c) c = false /\ sqlite_generated_changed c (norm_col c) = false) as [Hg1 Hg2].
  { unfold sqlite_generated_changed. cbn [norm_col c_gen]. destruct (c_gen c) as [[x ty]|]; [|auto].
    rewrite str_eqb_refl, !sov_idem, str_eqb_refl. auto. }
  rewrite Hd1, Hd2, Hg1, Hg2. auto.
Qed.

(** ** indexes *)
Fixpoint seq_sorted (l : list part) : Prop :=
  match l with
  | p :: ((q :: _) as l') => p_seq p < p_seq q /\ seq_sorted l'
  | _ => True
  end.

Lemma sort_parts_sorted l : seq_sorted l -> sort_parts l = l.
Proof.
  induction l as [|p l IH]; [reflexivity|]. intro H. cbn [sort_parts].
  destruct l as [|q l]; [reflexivity|]. destruct H as [Hlt H]. rewrite (IH H). cbn [insert_part].
  apply N.ltb_lt in Hlt. rewrite Hlt. reflexivity.
Qed.

Lemma seq_parts_sorted k l : seq_sorted (seq_parts k l).
Proof.
  revert k. induction l as [|[[d c] x] l IH]; intro k; [exact I|].
  cbn [seq_parts]. destruct l as [|[[d2 c2] x2] l]; [exact I|]. cbn [seq_parts seq_sorted p_seq]. split; [lia|].
  exact (IH (k + 1)).
Qed.

Lemma seq_parts_length k l : length (seq_parts k l) = length l.
Proof. revert k. induction l as [|[[d c] x] l IH]; intro k; simpl; [reflexivity|]. rewrite IH. reflexivity. Qed.

(** a part and its renumbered image are not told apart *)
Definition part_shape_ok (p : part) : Prop :=
  match p_col p, p_expr p with Some _, None => True | None, Some _ => True | _, _ => False end.

Lemma parts_loop_norm i1 i2 ps : Forall part_shape_ok ps -> forall k n,
  parts_loop sqlite_driver i1 i2 n (seq_parts k (map part_key ps)) ps = false /\
  parts_loop sqlite_driver i2 i1 n ps (seq_parts k (map part_key ps)) = false.
Proof.
  induction 1 as [|p ps Hp Hall IH]; intros k n; [split; reflexivity|].
  cbn [map seq_parts]. unfold part_key at 1 3. unfold part_shape_ok in Hp.
  destruct (p_col p) as [c|] eqn:Ec, (p_expr p) as [x|] eqn:Ex; try contradiction.
  - cbn [seq_parts parts_loop]. unfold part_changed. cbn [p_desc p_col p_expr dd_index_part_attr_changed sqlite_driver].
    rewrite Ec, eqb_reflx, str_eqb_refl. cbn [negb orb andb]. exact (IH (k + 1) (S n)).
  - cbn [seq_parts parts_loop]. unfold part_changed. cbn [p_desc p_col p_expr dd_index_part_attr_changed sqlite_driver].
    rewrite Ec, Ex, eqb_reflx, str_eqb_refl. cbn [negb orb andb]. exact (IH (k + 1) (S n)).
Qed.

Definition idx_ok (i : index) : Prop :=
  Forall part_shape_ok (i_parts i) /\ seq_sorted (i_parts i) /\ i_pred i <> Some [] /\ i_comment i = None.

Lemma attr_same a b : i_pred a = i_pred b -> sqlite_index_attr_changed a b = false.
Proof. intro H. unfold sqlite_index_attr_changed. rewrite H, eqb_reflx, str_eqb_refl. reflexivity. Qed.

Lemma index_change_norm i : idx_ok i ->
  index_change sqlite_driver (norm_idx i) i = 0 /\ index_change sqlite_driver i (norm_idx i) = 0.
Proof.
  intros (Hsh & Hso & Hpr & Hcm). unfold index_change.
  cbn [norm_idx i_unique i_comment dd_index_attr_changed sqlite_driver]. rewrite eqb_reflx. cbn [negb bit].
  assert (i_pred (norm_idx i) = i_pred i) as Hp.
  { unfold norm_idx. cbn [i_pred]. destruct (i_pred i) as [[|c p]|]; [contradiction|reflexivity|reflexivity]. }
  rewrite (attr_same _ _ Hp), (attr_same _ _ (eq_sym Hp)). cbn [bit].
  rewrite Hcm. assert (comment_change None None = 0) as -> by reflexivity.
  unfold parts_change. cbn [norm_idx i_parts]. rewrite seq_parts_length, map_length, Nat.eqb_refl. cbn [negb].
  rewrite (sort_parts_sorted _ (seq_parts_sorted 0 _)), (sort_parts_sorted _ Hso).
  destruct (parts_loop_norm (norm_idx i) i (i_parts i) Hsh 0 0%nat) as [H1 H2]. cbn [norm_idx] in H1, H2.
  split.
  - rewrite H1. reflexivity.
  - rewrite H2. reflexivity.
Qed.

(** ** primary key: columns only, ascending (what the inspector returns) *)
Definition pk_ok (pk : index) : Prop :=
  Forall (fun p => p_desc p = false /\ p_expr p = None /\ p_col p <> None) (i_parts pk) /\
  seq_sorted (i_parts pk) /\ i_pred pk = None /\ i_comment pk = None.

Lemma pk_keys ps : Forall (fun p => p_desc p = false /\ p_expr p = None /\ p_col p <> None) ps ->
  map (fun p => (false, p_col p, (None : option str))) ps = map part_key ps /\ Forall part_shape_ok ps.
Proof.
  induction 1 as [|p ps (Hd & Hx & Hc) H [IH1 IH2]]; [split; [reflexivity|constructor]|].
  simpl. rewrite IH1. split.
  - f_equal. unfold part_key. destruct (p_col p); [rewrite Hd; reflexivity|contradiction].
  - constructor; [|exact IH2]. unfold part_shape_ok. rewrite Hx. destruct (p_col p); [exact I|contradiction].
Qed.

Lemma parts_loop_irrel (i1 i2 j1 j2 : index) n l1 l2 :
  parts_loop sqlite_driver i1 i2 n l1 l2 = parts_loop sqlite_driver j1 j2 n l1 l2.
Proof.
  revert n l2. induction l1 as [|p1 l1 IH]; intros n l2; [reflexivity|]. destruct l2 as [|p2 l2]; [reflexivity|].
  cbn [parts_loop]. unfold part_changed. cbn [dd_index_part_attr_changed sqlite_driver]. rewrite IH. reflexivity.
Qed.

Lemma parts_change_pk pk : pk_ok pk ->
  parts_change sqlite_driver (norm_pk pk) pk = 0 /\ parts_change sqlite_driver pk (norm_pk pk) = 0.
Proof.
  intros (Hparts & Hso & Hpr & Hcm). destruct (pk_keys _ Hparts) as [Hk Hsh].
  unfold parts_change, norm_pk. cbn [i_parts]. rewrite Hk, seq_parts_length, map_length, Nat.eqb_refl. cbn [negb].
  rewrite (sort_parts_sorted _ (seq_parts_sorted 0 _)), (sort_parts_sorted _ Hso).
  destruct (parts_loop_norm pk pk (i_parts pk) Hsh 0 0%nat) as [H1 H2].
  rewrite (parts_loop_irrel _ _ pk pk), H1. rewrite (parts_loop_irrel _ _ pk pk), H2. auto.
Qed.

Lemma pk_change_norm pk : pk_ok pk ->
  N.land (index_change sqlite_driver (norm_pk pk) pk) pk_mask = 0 /\
  N.land (index_change sqlite_driver pk (norm_pk pk)) pk_mask = 0.
Proof.
  intro H. destruct (parts_change_pk pk H) as [P1 P2]. destruct H as (Hparts & Hso & Hpr & Hcm).
  unfold index_change. rewrite P1, P2. cbn [dd_index_attr_changed sqlite_driver].
  assert (sqlite_index_attr_changed (norm_pk pk) pk = false) as -> by (apply attr_same; unfold norm_pk; cbn [i_pred]; auto).
  assert (sqlite_index_attr_changed pk (norm_pk pk) = false) as -> by (apply attr_same; unfold norm_pk; cbn [i_pred]; auto).
  change (i_comment (norm_pk pk)) with (@None str). change (i_unique (norm_pk pk)) with false. rewrite Hcm.
  change (comment_change None None) with 0. cbn [bit].
  split; destruct (i_unique pk); reflexivity.
Qed.

(** ** tables and schemas *)
Definition no_autoindex_names (l : list index) : Prop :=
  forall i, In i l -> has_prefix SQLITE_AUTOINDEX (i_name i) = None.

Record diffable (x : xtable) : Prop := {
  df_wf : wf_table (x_t x);
  df_cols : Forall col_ok (t_cols (x_t x));
  df_idx : Forall idx_ok (t_idx (x_t x));
  df_names : no_autoindex_names (t_idx (x_t x));
  df_pk : match t_pk (x_t x) with Some pk => pk_ok pk | None => True end;
  df_fks : Forall (fun f => norm_fk f = f) (t_fks (x_t x));
  df_fk_stable : fk_stable (t_name (x_t x)) (t_name (x_t x)) (t_fks (x_t x)) (t_fks (x_t x));
  df_checks : named_unique (t_checks (x_t x))
}.

Lemma map_norm_fk_id l : Forall (fun f => norm_fk f = f) l -> map norm_fk l = l.
Proof. induction 1 as [|f l Hf H IH]; simpl; [reflexivity|]. rewrite Hf, IH. reflexivity. Qed.

Lemma norm_names x : map c_name (map norm_col (t_cols (x_t x))) = map c_name (t_cols (x_t x)) /\
                     map i_name (map norm_idx (t_idx (x_t x))) = map i_name (t_idx (x_t x)).
Proof. rewrite !map_map. split; apply map_ext; intro a; reflexivity. Qed.

Lemma tsim_norm x : diffable x -> tsim (x_t (norm_x x)) (x_t x) /\ tsim (x_t x) (x_t (norm_x x)).
Proof.
  intros [WF Hc Hi Hn Hpk Hf Hfs Hck]. unfold norm_x. cbn [x_t].
  pose proof (map_norm_fk_id _ Hf) as Efk.
  split; constructor; cbn [t_name t_without_rowid t_strict t_checks t_fks t_cols t_pk t_idx]; auto.
  - clear -Hc. induction Hc as [|c l Hc H IH]; simpl; constructor; [|exact IH].
    split; [reflexivity|]. exact (proj1 (column_change_norm _ c Hc)).
  - destruct (t_pk (x_t x)) as [pk|]; [|exact I]. exact (proj1 (pk_change_norm pk Hpk)).
  - clear -Hi. induction Hi as [|i l Hi H IH]; simpl; constructor; [|exact IH].
    split; [reflexivity|]. exact (proj1 (index_change_norm i Hi)).
  - clear -Hc. induction Hc as [|c l Hc H IH]; simpl; constructor; [|exact IH].
    split; [reflexivity|]. exact (proj2 (column_change_norm _ c Hc)).
  - destruct (t_pk (x_t x)) as [pk|]; [|exact I]. exact (proj2 (pk_change_norm pk Hpk)).
  - clear -Hi. induction Hi as [|i l Hi H IH]; simpl; constructor; [|exact IH].
    split; [reflexivity|]. exact (proj2 (index_change_norm i Hi)).
Qed.

Lemma seq_parts_ok k l : Forall (fun t : bool * option str * option str => snd (fst t) <> None \/ snd t <> None) l ->
  Forall part_ok (seq_parts k l).
Proof.
  revert k. induction l as [|[[d c] e] l IH]; intros k H; [constructor|].
  inversion H; subst. cbn [seq_parts]. constructor; [|apply IH; assumption]. unfold part_ok. cbn [p_col p_expr]. assumption.
Qed.

Lemma wf_norm x : diffable x -> wf_table (x_t (norm_x x)).
Proof.
  intros [WF Hc Hi Hn Hpk Hf Hfs Hck]. destruct (norm_names x) as [N1 N2].
  pose proof (map_norm_fk_id _ Hf) as Efk.
  constructor; unfold norm_x; cbn [x_t t_cols t_idx t_pk t_fks].
  - rewrite N1. exact (wf_cols _ WF).
  - rewrite N2. exact (wf_idx _ WF).
  - intros i' Hin. apply in_map_iff in Hin. destruct Hin as (i & <- & Hin).
    rewrite Forall_forall in Hi. destruct (Hi i Hin) as (Hsh & _).
    unfold index_ok, norm_idx. cbn [i_parts]. apply seq_parts_ok.
    clear -Hsh. induction Hsh as [|p ps Hp H IH]; simpl; constructor; [|exact IH].
    unfold part_key, part_shape_ok in *. destruct (p_col p), (p_expr p); try contradiction; cbn [fst snd]; [left|right]; discriminate.
  - intros pk' E. destruct (t_pk (x_t x)) as [pk|]; [|discriminate]. injection E as <-.
    destruct Hpk as (Hparts & _). unfold index_ok, norm_pk. cbn [i_parts]. apply seq_parts_ok.
    clear -Hparts. induction Hparts as [|p ps (Hd & Hx & Hcn) H IH]; simpl; constructor; [|exact IH].
    cbn [fst snd]. left. exact Hcn.
  - rewrite Efk. exact (wf_fks _ WF).
Qed.

Lemma norm_idx_stable x : diffable x -> idx_norm_stable (t_idx (x_t x)) /\ idx_norm_stable (t_idx (x_t (norm_x x))).
Proof.
  intros D. pose proof (df_names x D) as Hn. split.
  - intros i Hin. left. exact (Hn i Hin).
  - unfold norm_x. cbn [x_t t_idx]. intros i' Hin. apply in_map_iff in Hin. destruct Hin as (i & <- & Hin).
    left. unfold norm_idx. cbn [i_name]. exact (Hn i Hin).
Qed.

(** the differ sees no change between a table and its HCL round trip, either way *)
Theorem table_diff_norm x : diffable x ->
  table_diff sqlite_driver no_skip (x_t (norm_x x)) (x_t x) = Some [] /\
  table_diff sqlite_driver no_skip (x_t x) (x_t (norm_x x)) = Some [].
Proof.
  intro D. destruct (tsim_norm x D) as [S1 S2]. destruct (norm_idx_stable x D) as [I1 I2].
  pose proof (map_norm_fk_id _ (df_fks x D)) as Efk.
  split.
  - apply table_diff_sim; [exact (wf_norm x D)|exact (df_checks x D)| |exact I1|exact S1].
    unfold norm_x. cbn [x_t t_name t_fks]. rewrite Efk. exact (df_fk_stable x D).
  - apply table_diff_sim; [exact (df_wf x D)| | |exact I2|exact S2].
    + unfold norm_x. cbn [x_t t_checks]. exact (df_checks x D).
    + unfold norm_x. cbn [x_t t_name t_fks]. rewrite Efk. exact (df_fk_stable x D).
Qed.

(** ** schemas *)
Lemma schema_diff_pairs name (l1 l2 : list table) :
  NoDup (map t_name l1) ->
  Forall2 (fun a b => t_name b = t_name a /\ table_diff sqlite_driver no_skip a b = Some []) l1 l2 ->
  SchemaDiff sqlite_driver no_skip (mkSchema name l1) (mkSchema name l2) = Some [].
Proof.
  intros ND F. destruct (combine_some_fst _ _ _ F) as (C1 & C2 & C3).
  destruct (schema_diff_exact sqlite_driver no_skip (mkSchema name l1) (mkSchema name l2)
              (combine l1 (map Some l2)) []) as (adds' & P & E).
  - reflexivity.
  - symmetry. exact C1.
  - split.
    + rewrite C1, app_nil_r. exact ND.
    + intros c c' Hin. destruct (C3 c (Some c') Hin) as (c'' & Ec & (Hk & _) & _). inversion Ec; subst. exact Hk.
  - cbn [s_tables]. rewrite C2, app_nil_r. apply Permutation_refl.
  - intros t t' Hin. destruct (C3 t (Some t') Hin) as (c'' & Ec & (_ & Hd) & _). inversion Ec; subst. rewrite Hd. discriminate.
  - apply Permutation_nil in P. subst adds'. rewrite E.
    assert (tbl_expected sqlite_driver no_skip (combine l1 (map Some l2)) = []) as ->.
    { unfold tbl_expected. apply flat_map_nil. intros [c o] Hin. destruct (C3 c o Hin) as (c' & -> & (_ & Hd) & _).
      cbn [snd fst]. rewrite Hd. reflexivity. }
    reflexivity.
Qed.

(** C03_hcl: for every well-formed, diffable schema the HCL round trip succeeds, and the SQLite
    differ finds no change between the result and the original, in both directions. *)
Theorem hcl_roundtrip_diff_empty name xs :
  schema_wf xs -> Forall diffable xs ->
  exists ys, hcl_roundtrip xs = ROk ys /\
    SchemaDiff sqlite_driver no_skip (schema_of name ys) (schema_of name xs) = Some [] /\
    SchemaDiff sqlite_driver no_skip (schema_of name xs) (schema_of name ys) = Some [].
Proof.
  intros WF DF. exists (map norm_x xs). split; [exact (hcl_roundtrip_norm xs WF)|].
  destruct WF as [_ ND]. unfold schema_of. rewrite map_map.
  assert (map t_name (map x_t xs) = map x_name xs) as Hn1 by (rewrite map_map; reflexivity).
  assert (map t_name (map (fun x => x_t (norm_x x)) xs) = map x_name xs) as Hn2 by (rewrite map_map; reflexivity).
  split; apply schema_diff_pairs.
  - rewrite Hn2. exact ND.
  - clear -DF. induction DF as [|x l Hx H IH]; simpl; constructor; [|exact IH].
    split; [reflexivity|exact (proj1 (table_diff_norm x Hx))].
  - rewrite Hn1. exact ND.
  - clear -DF. induction DF as [|x l Hx H IH]; simpl; constructor; [|exact IH].
    split; [reflexivity|exact (proj2 (table_diff_norm x Hx))].
Qed.

(** ** what the premises exclude, and why: defaults the round trip changes for the differ *)
Definition col_of (cls : N) (T v : str) : column := mkColumn [97] cls T true (Some (DLit v)) None None.
(** boolean TRUE (upper case), the string 'a' with its quotes, +5, 007: all accepted by the
    conversion ([col_wf]), all reported as changed by the differ afterwards *)
Lemma default_refuted :
  Forall (fun c => col_wf c /\ sqlite_column_change (mkTable [] false false [] None [] [] []) (norm_col c) c <> Some 0)
    [col_of 7 [98;111;111;108] [84;82;85;69];
     col_of 3 [116;101;120;116] [39;39;39;97;39;39;39];
     col_of 2 [105;110;116] [43;53];
     col_of 2 [105;110;116] [48;48;55]].
Proof.
  repeat constructor; try (eexists; vm_compute; reflexivity); vm_compute; discriminate.
Qed.

(** ** a witness of the premises (non-vacuity) *)
Require Import Coq.Strings.String Coq.Strings.Ascii.
Import List ListNotations.
Definition Bs (s : string) : str := List.map N_of_ascii (list_ascii_of_string s).

Definition w_p : xtable :=
  mkX (mkTable (Bs "p") false false
         [mkColumn (Bs "id") 2 (Bs "integer") false None None None]
         (Some (mkIndex (Bs "PRIMARY") true [mkPart 1 false (Some (Bs "id")) None] None None None))
         [] [] []) [Bs "id"].
Definition w_c : xtable :=
  mkX (mkTable (Bs "c") false true
         [mkColumn (Bs "a") 2 (Bs "int") false (Some (DLit (Bs "5"))) None None;
          mkColumn (Bs "b") 3 (Bs "text") true (Some (DLit (Bs "'it''s'"))) None None;
          mkColumn (Bs "d") 8 (Bs "datetime") true (Some (DRaw (Bs "CURRENT_TIMESTAMP"))) None None;
          mkColumn (Bs "g") 2 (Bs "int") true None (Some (Bs "(a + 1)", Bs "STORED")) None]
         None
         [mkIndex (Bs "i1") true [mkPart 1 true (Some (Bs "a")) None; mkPart 2 false None (Some (Bs "(a + 1)"))]
                  (Some (Bs "a > 0")) None (Some (Bs "c"))]
         [mkFk (Bs "fk1") [Bs "a"] (Bs "p") [Bs "id"] (Bs "NO ACTION") (Bs "CASCADE")]
         [mkCheck (Bs "ck") (Bs "(a > 0)")]) [].
Definition w_xs : xschema := [w_p; w_c].

Lemma w_xs_wf : schema_wf w_xs.
Proof.
  split.
  - constructor; [|constructor; [|constructor]].
    + (* p *)
      split; [|split; [|split]].
      * constructor; [exact I|constructor].
      * constructor; [|constructor]. exists (Bs "id"). split; reflexivity.
      * constructor.
      * constructor.
    + (* c *)
      split; [|split; [|split]].
      * constructor; [eexists; vm_compute; reflexivity|].
        constructor; [eexists; vm_compute; reflexivity|].
        constructor; [eexists; vm_compute; reflexivity|].
        constructor; [exact I|constructor].
      * exact I.
      * constructor; [|constructor]. split; [discriminate|].
        constructor; [vm_compute; reflexivity|]. constructor; [exact I|constructor].
      * constructor; [|constructor]. split; [discriminate|]. split; [reflexivity|]. split; [vm_compute; reflexivity|].
        vm_compute. eexists. split; reflexivity.
  - vm_compute. constructor; [intros [H|[]]; discriminate|]. constructor; [intros []|constructor].
Qed.

Ltac nodup_tac := vm_compute; repeat (constructor; [simpl; intuition discriminate|]); constructor.
Lemma w_p_diffable : diffable w_p.
Proof.
  constructor.
  - constructor.
    + nodup_tac.
    + nodup_tac.
    + intros i [].
    + intros pk E. vm_compute in E. injection E as <-. constructor; [|constructor]. left. discriminate.
    + nodup_tac.
  - constructor; [|constructor]. split; [discriminate|exact I].
  - constructor.
  - intros i [].
  - vm_compute. split; [|split; [exact I|split; reflexivity]].
    constructor; [|constructor]. split; [reflexivity|]. split; [reflexivity|discriminate].
  - constructor.
  - intros f1 f2 [].
  - intros c c' [].
Qed.
Lemma w_c_diffable : diffable w_c.
Proof.
  constructor.
  - constructor.
    + nodup_tac.
    + nodup_tac.
    + intros i [<-|[]]. constructor; [left; discriminate|]. constructor; [right; discriminate|constructor].
    + intros pk E. discriminate.
    + nodup_tac.
  - constructor; [split; [discriminate|vm_compute; reflexivity]|].
    constructor; [split; [discriminate|vm_compute; reflexivity]|].
    constructor; [split; [discriminate|vm_compute; reflexivity]|].
    constructor; [split; [discriminate|exact I]|constructor].
  - constructor; [|constructor]. split; [|split; [|split]].
    + constructor; [exact I|]. constructor; [exact I|constructor].
    + split; [reflexivity|exact I].
    + discriminate.
    + reflexivity.
  - intros i [<-|[]]. vm_compute. reflexivity.
  - exact I.
  - constructor; [reflexivity|constructor].
  - intros f1 f2 [<-|[]] [<-|[]] _. reflexivity.
  - intros c c' [<-|[]] [<-|[]] _ _. reflexivity.
Qed.

Lemma w_xs_diffable : Forall diffable w_xs.
Proof. constructor; [exact w_p_diffable|constructor; [exact w_c_diffable|constructor]]. Qed.
