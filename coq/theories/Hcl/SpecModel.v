(** Spec layer (C03, C15 schema level): the conversion between the schema graph and
    the sqlspec/schemahcl resource tree for SQLite --
      schema -> spec : sql/sqlite/sqlspec.go tableSpec/columnSpec/indexSpec over
                       sql/internal/specutil/convert.go FromSchema/FromTable/FromColumn/
                       ColumnDefault/FromGenExpr/FromPrimaryKey/FromIndex/columnsOnly/
                       FromForeignKey/FromCheck
      spec -> schema : sqlspec.go convertTable/convertColumn/convertIndex over specutil
                       Table/Column/columnDefault/Default/ConvertGenExpr/PrimaryKey/Index/
                       Check/linkForeignKeys.
    No proofs in this file.

    Abstractions, stated: (a) the HCL text layer (printing the tree, parsing it back,
    evaluating references and type expressions) is not here: a spec value below is the
    tree itself, a reference is the name it resolves to; (b) a column type is the pair
    (type class, sqlite.FormatType text) of Diff/Schema.v -- the type registry's own
    round trip is C15's subject; (c) numeric default literals are modelled for the plain
    forms only (an integer text; a decimal text d.d without trailing zero and with at
    most 10 significant digits -- what strconv.ParseFloat + big.Float.String print back
    unchanged); every other text strconv.ParseFloat accepts is [DUnmodelled]. *)
From Coq Require Import List NArith ZArith Bool Arith.
From Atlas Require Import Base.Bytes Diff.Schema Diff.DiffSqlite Sqlite.PlanModel.
Import ListNotations.
Local Open Scope N_scope.

(** ** the resource tree *)
Inductive cty := CStr (s : str) | CNum (text : str) | CBool (b : bool) | CRaw (x : str).

Record scolumn := mkSC {
  sc_name : str; sc_null : bool; sc_class : N; sc_T : str;
  sc_default : option cty;
  sc_auto_increment : bool;
  sc_as : option (str * str)            (* as { expr, type } *)
}.
Record spart := mkSP { sp_desc : bool; sp_column : option str; sp_expr : option str }.
Record sindex := mkSI {
  si_name : str; si_unique : bool;
  si_columns : option (list str);        (* columns = [...] *)
  si_parts : list spart;                 (* on { ... } blocks *)
  si_where : option str
}.
Record sfk := mkSF {
  sf_symbol : str;
  sf_columns : list str;
  sf_refs : list (option str * str);     (* (None, c) = column.c ; (Some t, c) = table.t.column.c *)
  sf_on_update : option str; sf_on_delete : option str
}.
Record stable := mkST {
  st_name : str;
  st_columns : list scolumn;
  st_pk : option (list str);
  st_indexes : list sindex;
  st_fks : list sfk;
  st_checks : list check;
  st_without_rowid : bool; st_strict : bool
}.

Inductive res (A : Type) := ROk (a : A) | RErr | RPanic | RUnmodelled.
Arguments ROk {A} _. Arguments RErr {A}. Arguments RPanic {A}. Arguments RUnmodelled {A}.
Definition rbind {A B} (r : res A) (f : A -> res B) : res B :=
  match r with ROk a => f a | RErr => RErr | RPanic => RPanic | RUnmodelled => RUnmodelled end.
Fixpoint rmap {A B} (f : A -> res B) (l : list A) : res (list B) :=
  match l with
  | [] => ROk []
  | a :: l' => rbind (f a) (fun b => rbind (rmap f l') (fun r => ROk (b :: r)))
  end.

(** ** numbers *)
Definition is_dig (c : N) : bool := N.leb 48 c && N.leb c 57.
Definition ch_dot : N := 46.
Definition ch_minus : N := 45.
Definition ch_plus : N := 43.
Inductive numk := NumInt (canon : str) | NumDec (canon : str) | NumErr | NumNot | NumUnmodelled.

Fixpoint strip_zeros (s : str) : str :=
  match s with
  | c :: ((_ :: _) as s') => if N.eqb c 48 then strip_zeros s' else s
  | _ => s
  end.
Fixpoint val_of (acc : N) (s : str) : N :=
  match s with [] => acc | c :: s' => val_of (acc * 10 + (c - 48)) s' end.
Fixpoint take_dig (s : str) : str :=
  match s with c :: s' => if is_dig c then c :: take_dig s' else [] | [] => [] end.
Definition INT64_MAX : N := 9223372036854775807.
Definition UINT64_MAX : N := 18446744073709551615.

(** what ColumnDefault + Default make of an unquoted literal:
    [NumNot] = sqlx.IsLiteralNumber is false (the text travels as a string);
    [NumInt]/[NumDec] = the text that comes back; [NumErr] = ColumnDefault fails. *)
Definition num_kind (v : str) : numk :=
  let '(neg, signed, body) :=
    match v with
    | c :: r => if N.eqb c ch_minus then (true, true, r)
                else if N.eqb c ch_plus then (false, true, r) else (false, false, v)
    | [] => (false, false, v)
    end in
  match body with
  | [] => NumNot
  | c0 :: _ =>
    if forallb is_dig body then
      (* strconv.ParseInt, ParseUint on ErrRange; printed back by big.Float.Text('f', -1) *)
      let z := val_of 0 body in
      let canon := strip_zeros body in
      if neg then (if N.leb z (INT64_MAX + 1)
                   then NumInt (if N.eqb z 0 then canon else ch_minus :: canon) else NumErr)
      else if N.leb z INT64_MAX then NumInt canon
      else if signed then NumErr
      else if N.leb z UINT64_MAX then NumInt canon else NumErr
    else if negb (is_dig c0 || N.eqb c0 ch_dot || N.eqb c0 105 || N.eqb c0 73 || N.eqb c0 110 || N.eqb c0 78)
    then NumNot                          (* cannot be a float, inf or nan *)
    else
      let ip := take_dig body in
      match skipn (length ip) body with
      | d :: fp =>
          let canon_ip := bytes_eqb (strip_zeros ip) ip in
          let last_nz := match rev fp with c :: _ => negb (N.eqb c 48) | [] => false end in
          let sig := if bytes_eqb ip [48] then length (strip_zeros fp) else (length ip + length fp)%nat in
          if N.eqb d ch_dot && forallb is_dig fp && negb (Nat.eqb (length ip) 0)
             && canon_ip && last_nz && Nat.leb sig 10 && (negb signed || neg)
          then NumDec v else NumUnmodelled
      | [] => NumUnmodelled
      end
  end.

(** ** defaults *)
Definition lower_b (c : N) : N := if N.leb 65 c && N.leb c 90 then c + 32 else c.
Definition to_lower (s : str) : str := map lower_b s.
Definition S_true : str := [116;114;117;101].
Definition S_false : str := [102;97;108;115;101].
Definition starts (p s : str) : bool := match has_prefix p s with Some _ => true | None => false end.
(** oneOfPrefix(x.V, "0x", "0X", "0b", "0B", "b'", "B'", "x'", "X'") *)
Definition raw_prefix (v : str) : bool :=
  starts [48;120] v || starts [48;88] v || starts [48;98] v || starts [48;66] v ||
  starts [98;39] v || starts [66;39] v || starts [120;39] v || starts [88;39] v.
Definition CLASS_STRING : N := 3.
Definition CLASS_ENUM : N := 12.

(** specutil.ColumnDefault *)
Definition column_default (cls : N) (d : dflt) : res cty :=
  match d with
  | DRaw x => ROk (CRaw x)
  | DLit v =>
      if raw_prefix v then ROk (CRaw v)
      else if is_quoted v ch_squote || is_quoted v ch_dquote then
        match unquote v with Some s => ROk (CStr s) | None => RErr end
      else if bytes_eqb (to_lower v) S_true then ROk (CBool true)
      else if bytes_eqb (to_lower v) S_false then ROk (CBool false)
      else if N.eqb cls CLASS_STRING || N.eqb cls CLASS_ENUM then
        (match num_kind v with NumUnmodelled => RUnmodelled | _ => ROk (CStr v) end)
      else match num_kind v with
           | NumInt t | NumDec t => ROk (CNum t)
           | NumErr => RErr
           | NumNot => ROk (CStr v)
           | NumUnmodelled => RUnmodelled
           end
  end.
(** specutil.Default *)
Definition default_of (v : cty) : dflt :=
  match v with
  | CStr s => DLit s
  | CNum t => DLit t
  | CBool b => DLit (if b then S_true else S_false)
  | CRaw x => DRaw x
  end.

(** ** schema -> spec *)
Definition space_to_us (s : str) : str := map (fun c => if N.eqb c 32 then 95 else c) s.   (* specutil.Var *)
Definition us_to_space (s : str) : str := map (fun c => if N.eqb c 95 then 32 else c) s.   (* specutil.FromVar *)

(** FromColumn + columnSpec *)
Definition from_column (autoinc : bool) (c : column) : res scolumn :=
  rbind (match c_default c with
         | None => ROk None
         | Some d => rbind (column_default (c_class c) d) (fun v => ROk (Some v))
         end)
        (fun d => ROk (mkSC (c_name c) (c_null c) (c_class c) (c_T c) d autoinc
                            (match c_gen c with
                             | Some (x, ty) => Some (x, stored_or_virtual ty)    (* FromGenExpr(x, storedOrVirtual) *)
                             | None => None
                             end))).
(** FromPrimaryKey: v.C.Name of a part without column is a nil dereference *)
Definition from_primary_key (pk : index) : res (list str) :=
  rmap (fun p => match p_col p with Some n => ROk n | None => RPanic end) (i_parts pk).
(** FromIndex + columnsOnly + indexSpec *)
Definition from_part (p : part) : res spart :=
  match p_col p, p_expr p with
  | None, None => RErr
  | Some _, Some _ => RErr
  | Some n, None => ROk (mkSP (p_desc p) (Some n) None)
  | None, Some x => ROk (mkSP (p_desc p) None (Some x))
  end.
Definition columns_only (ps : list spart) : option (list str) :=
  if forallb (fun p => negb (sp_desc p) && match sp_column p with Some _ => true | None => false end) ps
  then Some (flat_map (fun p => match sp_column p with Some n => [n] | None => [] end) ps)
  else None.
Definition from_index (i : index) : res sindex :=
  rbind (rmap from_part (i_parts i)) (fun ps =>
    let w := match i_pred i with Some [] => None | o => o end in      (* i.P != "" *)
    match columns_only ps with
    | Some cols => ROk (mkSI (i_name i) (i_unique i) (Some cols) [] w)
    | None => ROk (mkSI (i_name i) (i_unique i) None ps w)
    end).
(** FromForeignKey; [s.Table != s.RefTable] is a pointer comparison: in an inspected
    schema the referenced table is the table itself exactly when the names are equal *)
Definition from_fk (tname : str) (f : fkey) : sfk :=
  let local := str_eqb (f_reftable f) tname in
  mkSF (f_symbol f) (f_cols f)
       (map (fun c => (if local then None else Some (f_reftable f), c)) (f_refcols f))
       (match f_onupdate f with [] => None | a => Some (space_to_us a) end)
       (match f_ondelete f with [] => None | a => Some (space_to_us a) end).
(** tableSpec / FromTable *)
Definition from_table (x : xtable) : res stable :=
  let t := x_t x in
  rbind (rmap (fun c => from_column (has_autoinc x (c_name c)) c) (t_cols t)) (fun cols =>
  rbind (match t_pk t with
         | None => ROk None
         | Some pk => rbind (from_primary_key pk) (fun l => ROk (Some l))
         end) (fun pk =>
  rbind (rmap from_index (t_idx t)) (fun idxs =>
  ROk (mkST (t_name t) cols pk idxs (map (from_fk (t_name t)) (t_fks t)) (t_checks t)
            (t_without_rowid t) (t_strict t))))).
Definition to_spec (xs : xschema) : res (list stable) := rmap from_table xs.

(** ** spec -> schema *)
(** Column + convertColumn (auto_increment, ConvertGenExpr) *)
Definition to_column (c : scolumn) : column * bool :=
  (mkColumn (sc_name c) (sc_class c) (sc_T c) (sc_null c)
            (match sc_default c with Some v => Some (default_of v) | None => None end)
            (match sc_as c with Some (x, ty) => Some (x, stored_or_virtual ty) | None => None end)
            None,
   sc_auto_increment c).
Definition has_column (cols : list column) (n : str) : bool :=
  match find_col n cols with Some _ => true | None => false end.
Fixpoint seq_parts (k : N) (l : list (bool * option str * option str)) : list part :=
  match l with
  | [] => []
  | (d, c, x) :: l' => mkPart k d c x :: seq_parts (k + 1) l'
  end.
(** specutil.PrimaryKey: a column that does not resolve makes it return (nil, nil); the
    caller then dereferences the nil index *)
Definition to_primary_key (cols : list column) (l : list str) : res index :=
  if forallb (has_column cols) l
  then ROk (mkIndex [] false (seq_parts 0 (map (fun n => (false, Some n, None)) l)) None None None)
  else RPanic.
(** specutil.Index + convertIndex *)
Definition to_index (cols : list column) (i : sindex) : res index :=
  match si_columns i, si_parts i with
  | None, [] => RErr
  | Some (_ :: _), _ :: _ => RErr
  | Some l, [] =>
      match l with
      | [] => RErr
      | _ => if forallb (has_column cols) l
             then ROk (mkIndex (si_name i) (si_unique i) (seq_parts 0 (map (fun n => (false, Some n, None)) l)) (si_where i) None None)
             else RErr
      end
  | _, ps =>
      rbind (rmap (fun p => match sp_column p, sp_expr p with
                            | None, None => RErr
                            | None, Some [] => RErr                          (* p.Expr == "" *)
                            | Some _, Some (_ :: _) => RErr
                            | Some n, _ => if has_column cols n then ROk (sp_desc p, Some n, None) else RErr
                            | None, Some x => ROk (sp_desc p, None, Some x)
                            end) ps)
            (fun l => ROk (mkIndex (si_name i) (si_unique i) (seq_parts 0 l) (si_where i) None None))
  end.
(** convertTable / Table (foreign keys are linked afterwards) *)
Definition to_table (s : stable) : res (xtable * list sfk) :=
  let cs := map to_column (st_columns s) in
  let cols := map fst cs in
  rbind (match st_pk s with
         | None => ROk None
         | Some l => rbind (to_primary_key cols l) (fun i => ROk (Some i))
         end) (fun pk =>
  rbind (rmap (to_index cols) (st_indexes s)) (fun idxs =>
  ROk (mkX (mkTable (st_name s) (st_without_rowid s) (st_strict s) cols pk idxs [] (st_checks s))
           (flat_map (fun c : column * bool => if snd c then [c_name (fst c)] else []) cs),
       st_fks s))).
(** linkForeignKeys *)
Definition link_fk (all : list table) (t : table) (f : sfk) : res fkey :=
  if negb (Nat.eqb (length (sf_columns f)) (length (sf_refs f))) then RErr
  else if negb (forallb (has_column (t_cols t)) (sf_columns f)) then RErr
  else
    rbind (rmap (fun r => match r with
                          | (None, c) => if has_column (t_cols t) c then ROk (t_name t, c) else RErr
                          | (Some tn, c) => match find_table tn all with
                                            | Some rt => if has_column (t_cols rt) c then ROk (tn, c) else RErr
                                            | None => RErr
                                            end
                          end) (sf_refs f)) (fun refs =>
    match refs with
    | [] => ROk (mkFk (sf_symbol f) (sf_columns f) [] []
                      (match sf_on_update f with Some a => us_to_space a | None => [] end)
                      (match sf_on_delete f with Some a => us_to_space a | None => [] end))
    | (rt, _) :: _ =>
        if forallb (fun r => str_eqb (fst r) rt) refs
        then ROk (mkFk (sf_symbol f) (sf_columns f) rt (map snd refs)
                       (match sf_on_update f with Some a => us_to_space a | None => [] end)
                       (match sf_on_delete f with Some a => us_to_space a | None => [] end))
        else RErr
    end).
Definition from_spec (l : list stable) : res xschema :=
  rbind (rmap to_table l) (fun ts =>
    let all := map (fun p => x_t (fst p)) ts in
    rmap (fun p => rbind (rmap (link_fk all (x_t (fst p))) (snd p))
                         (fun fks => ROk (set_x_t (fst p) (set_t_fks (x_t (fst p)) fks)))) ts).

(** the HCL round trip of a schema (text layer abstracted) *)
Definition hcl_roundtrip (xs : xschema) : res xschema := rbind (to_spec xs) from_spec.
