(** M-TYPE, PostgreSQL: type classes, FormatType / timeAlias and ParseType
    (sql/postgres/convert.go: ParseType, columnType, parseColumn, parseCharParts,
    parseBitParts, arrayType with a hand matcher for reArray, intervalField with a
    hand matcher for reInterval). The registry instantiation (typeSpec, formatTime,
    interval ToSpec/FromSpec, enum/domain/array column conversion) is NOT modelled
    (property oracle only). ASCII model: (?i) folds only A-Z/a-z (Go also folds
    U+017F to S), strings.TrimSpace / \s see one-byte spaces only. No proofs here. *)
From Coq Require Import String.
From Coq Require Import List NArith ZArith Bool.
From Atlas Require Import Base.Bytes Hcl.Str Hcl.RegistryDefs Hcl.Registry.
Import ListNotations.
Local Open Scope N_scope.

Module Pg.

(** only the fields FormatType reads *)
Inductive ty :=
| ArrayType (T : bytes)
| BitType (T : bytes) (Len : Z)
| BoolType (T : bytes)
| BinaryType (T : bytes)
| CurrencyType (T : bytes)
| CompositeType (T : bytes)
| DomainType (T : bytes)
| EnumType (T : bytes)
| IntegerType (T : bytes)
| IntervalType (T F : bytes) (Precision : option Z)
| StringType (T : bytes) (Size : Z)
| TimeType (T : bytes) (Precision : option Z)
| FloatType (T : bytes) (Precision : Z)
| DecimalType (T : bytes) (Precision Scale : Z)
| SerialType (T : bytes)
| JSONType (T : bytes)
| UUIDType (T : bytes)
| SpatialType (T : bytes)
| NetworkType (T : bytes)
| RangeType (T : bytes)
| OIDType (T : bytes)
| TextSearchType (T : bytes)
| UserDefinedType (T : bytes)
| XMLType (T : bytes)
| PseudoType (T : bytes)
| UnsupportedType (T : bytes).

Definition paren (z : Z) : bytes := [40] ++ itoa z ++ [41].
Definition defaultTimePrecision : Z := 6%Z.

(** timeAlias *)
Definition timeAlias (t : bytes) : bytes :=
  let t := to_lower t in
  if bytes_eqb t (bs "timestamp with time zone") then bs "timestamptz"
  else if bytes_eqb t (bs "timestamp without time zone") then bs "timestamp"
  else if bytes_eqb t (bs "time without time zone") then bs "time"
  else if bytes_eqb t (bs "time with time zone") then bs "timetz"
  else t.

Definition range_names := map bs
  ["int4range"; "int4multirange"; "int8range"; "int8multirange"; "numrange"; "nummultirange";
   "tsrange"; "tsmultirange"; "tstzrange"; "tstzmultirange"; "daterange"; "datemultirange"]%string.
Definition oid_names := map bs
  ["oid"; "regclass"; "regcollation"; "regconfig"; "regdictionary"; "regnamespace"; "regoper"; "regoperator";
   "regproc"; "regprocedure"; "regrole"; "regtype"]%string.

(** postgres.FormatType *)
Definition FormatType (t : ty) : res bytes :=
  match t with
  | ArrayType T => Ok (to_lower T)
  | BitType T len =>
      let f := to_lower T in
      if (bytes_eqb f (bs "bit") && (1 <? len)%Z) || (bytes_eqb f (bs "bit varying") && (0 <? len)%Z)
      then Ok (f ++ paren len) else Ok f
  | BoolType T => let f := to_lower T in Ok (if bytes_eqb f (bs "bool") then bs "boolean" else f)
  | BinaryType T => Ok (to_lower T)
  | CurrencyType T => Ok (to_lower T)
  | CompositeType T | DomainType T | EnumType T => match T with [] => Err | _ => Ok T end
  | IntegerType T =>
      let f := to_lower T in
      Ok (if bytes_eqb f (bs "int2") then bs "smallint"
          else if bytes_eqb f (bs "int") || bytes_eqb f (bs "int4") then bs "integer"
          else if bytes_eqb f (bs "int8") then bs "bigint"
          else f)
  | IntervalType T F p =>
      let f := to_lower T in
      let f := match F with [] => f | _ => f ++ [32] ++ to_lower F end in
      Ok (match p with
          | Some n => if Z.eqb n defaultTimePrecision then f else f ++ paren n
          | None => f
          end)
  | StringType T sz =>
      let f := to_lower T in
      if mem_b f (map bs ["text"; "bpchar"; "name"]%string) then Ok f
      else if mem_b f (map bs ["char"; "character"]%string) then
        Ok (bs "character" ++ paren (if Z.eqb sz 0 then 1%Z else sz))
      else if mem_b f (map bs ["varchar"; "character varying"]%string) then
        Ok (if Z.eqb sz 0 then bs "character varying" else bs "character varying" ++ paren sz)
      else Err
  | TimeType T p =>
      let f := timeAlias T in
      Ok (match p with
          | Some n => if negb (Z.eqb n defaultTimePrecision) && has_prefix f (bs "time") then f ++ paren n else f
          | None => f
          end)
  | FloatType T p =>
      let f := to_lower T in
      if bytes_eqb f (bs "float4") then Ok (bs "real")
      else if bytes_eqb f (bs "float8") then Ok (bs "double precision")
      else if bytes_eqb f (bs "float") then
        if (0 <? p)%Z && (p <=? 24)%Z then Ok (bs "real")
        else if Z.eqb p 0 || ((24 <? p)%Z && (p <=? 53)%Z) then Ok (bs "double precision")
        else Err
      else Ok f
  | DecimalType T p s =>
      let f := to_lower T in
      if negb (bytes_eqb f (bs "numeric")) && negb (bytes_eqb f (bs "decimal")) then Err
      else
        let f := bs "numeric" in
        if Z.eqb p 0 && Z.eqb s 0 then Ok f
        else if (s <? 0)%Z then Err
        else if Z.eqb p 0 && (0 <? s)%Z then Err
        else if Z.eqb s 0 then Ok (f ++ paren p)
        else Ok (f ++ [40] ++ itoa p ++ [44] ++ itoa s ++ [41])
  | SerialType T =>
      let f := to_lower T in
      if mem_b f (map bs ["smallserial"; "serial"; "bigserial"]%string) then Ok f
      else if bytes_eqb f (bs "serial2") then Ok (bs "smallserial")
      else if bytes_eqb f (bs "serial4") then Ok (bs "serial")
      else if bytes_eqb f (bs "serial8") then Ok (bs "bigserial")
      else Err
  | JSONType T | UUIDType T | SpatialType T | NetworkType T | XMLType T | PseudoType T => Ok (to_lower T)
  | RangeType T => let f := to_lower T in if mem_b f range_names then Ok f else Err
  | OIDType T => let f := to_lower T in if mem_b f oid_names then Ok f else Err
  | TextSearchType T =>
      let f := to_lower T in if bytes_eqb f (bs "tsvector") || bytes_eqb f (bs "tsquery") then Ok f else Err
  | UserDefinedType T => Ok T
  | UnsupportedType _ => Err
  end.

(** ** ParseType (sql/postgres/convert.go) *)

(** regexp \s of Go/RE2: [\t\n\f\r ] (no \v) *)
Definition re_space (c : N) : bool := (c =? 9) || (c =? 10) || (c =? 12) || (c =? 13) || (c =? 32).
Definition is_lower (c : N) : bool := (97 <=? c) && (c <=? 122).
Definition upper_c (c : N) : N := if is_lower c then c - 32 else c.

(** *** reArray (written here with "STAR" for the star operator, because star-paren ends a Coq comment):
      (?i)(.+?)(( +ARRAY( STAR\[[ \d]STAR] STAR)STAR)+|( STAR\[[ \d]STAR] STAR)+)$
    Hand matcher. The part after group 1 is a regular language over
    { ' ', '[', ']', digits, A R Y (either case) }:  X+ | Y+  with
      Y = " *" "[" "[ 0-9]*" "]" " *"      X = " +" "ARRAY" Y*
    recognised by the automaton below (X-states for the first alternative,
    Y-states for the second). *)
Inductive ast := X0 | X1 | XA | XAR | XARR | XARRA | X2 | X3 | X4 | X5 | X5s | Y0 | Y1 | Y2.

Definition astep (q : ast) (c : N) : option ast :=
  let sp := c =? 32 in let lb := c =? 91 in let rb := c =? 93 in
  let a := upper_c c =? 65 in let r := upper_c c =? 82 in let y := upper_c c =? 89 in
  match q with
  | X0 => if sp then Some X1 else None
  | X1 => if sp then Some X1 else if a then Some XA else None
  | XA => if r then Some XAR else None
  | XAR => if r then Some XARR else None
  | XARR => if a then Some XARRA else None
  | XARRA => if y then Some X2 else None
  | X2 => if sp then Some X3 else if lb then Some X4 else None
  | X3 => if sp then Some X3 else if lb then Some X4 else if a then Some XA else None
  | X4 => if sp || is_digit c then Some X4 else if rb then Some X5 else None
  | X5 => if sp then Some X5s else if lb then Some X4 else None
  | X5s => if sp then Some X5s else if lb then Some X4 else if a then Some XA else None
  | Y0 => if sp then Some Y0 else if lb then Some Y1 else None
  | Y1 => if sp || is_digit c then Some Y1 else if rb then Some Y2 else None
  | Y2 => if sp then Some Y2 else if lb then Some Y1 else None
  end.

Definition aacc (q : ast) : bool :=
  match q with X2 | X5 | X5s | Y2 => true | _ => false end.

Fixpoint arun (q : ast) (s : bytes) : bool :=
  match s with
  | [] => aacc q
  | c :: s' => match astep q c with Some q' => arun q' s' | None => false end
  end.

(** s is in the language of the second top-level group of reArray *)
Definition array_suffix (s : bytes) : bool := arun X0 s || arun Y0 s.

(** leftmost match, lazy group 1 ('.' does not match \n): [g] = group 1 so far, reversed.
    A start position before a newline can never reach the end of the text. *)
Fixpoint arr_scan (g : bytes) (s : bytes) : option bytes :=
  match s with
  | [] => None
  | c :: s' =>
      if c =? 10 then arr_scan [] s'
      else if array_suffix s' then Some (rev (c :: g))
      else arr_scan (c :: g) s'
  end.

(** arrayType: (strings.TrimSpace(matches[1]), true) *)
Definition arrayType (t : bytes) : option bytes :=
  match arr_scan [] t with Some g => Some (trim_space g) | None => None end.

(** *** reInterval (STAR as above):
      (?i)(?:INTERVAL\sSTAR)?(YEAR|MONTH|DAY|HOUR|MINUTE|SECOND|YEAR TO MONTH|...|MINUTE TO SECOND)?\sSTAR(?:\(([0-6])\))?$
    unanchored on the left: leftmost start; everything is optional, so the empty match at the end always exists. *)
Definition interval_fields : list bytes := map bs
  ["YEAR"; "MONTH"; "DAY"; "HOUR"; "MINUTE"; "SECOND"; "YEAR TO MONTH"; "DAY TO HOUR"; "DAY TO MINUTE";
   "DAY TO SECOND"; "HOUR TO MINUTE"; "HOUR TO SECOND"; "MINUTE TO SECOND"]%string.

(** (?i) prefix test against an upper-case ASCII pattern *)
Fixpoint has_prefix_ci (s p : bytes) : bool :=
  match p, s with
  | [], _ => true
  | x :: p', y :: s' => (upper_c y =? x) && has_prefix_ci s' p'
  | _ :: _, [] => false
  end.

(** the tail: white space, an optional parenthesised digit 0-6 (group 2), end of text: None = no match, Some g2 = match with group 2 *)
Definition iv_tail (s : bytes) : option (option N) :=
  match drop_while re_space s with
  | [] => Some None
  | [l; d; r] => if (l =? 40) && (r =? 41) && (48 <=? d) && (d <=? 54) then Some (Some d) else None
  | _ => None
  end.

(** the alternation, in order (first alternative for which the rest matches) *)
Fixpoint iv_alts (alts : list bytes) (s : bytes) : option (bytes * option N) :=
  match alts with
  | [] => None
  | a :: alts' =>
      if has_prefix_ci s a then
        match iv_tail (skipn (length a) s) with
        | Some d => Some (firstn (length a) s, d)
        | None => iv_alts alts' s
        end
      else iv_alts alts' s
  end.

Definition iv_field_tail (s : bytes) : option (bytes * option N) :=
  match iv_alts interval_fields s with
  | Some r => Some r
  | None => match iv_tail s with Some d => Some ([], d) | None => None end
  end.

(** a match starting exactly here *)
Definition iv_at (s : bytes) : option (bytes * option N) :=
  if has_prefix_ci s (bs "INTERVAL") then
    match iv_field_tail (drop_while re_space (skipn 8 s)) with
    | Some r => Some r
    | None => iv_field_tail s
    end
  else iv_field_tail s.

(** FindStringSubmatch: leftmost start; (matches[1], matches[2]). Always matches (empty match at the end). *)
Fixpoint reInterval (s : bytes) : bytes * option N :=
  match iv_at s with
  | Some r => r
  | None => match s with [] => ([], None) | _ :: s' => reInterval s' end
  end.

(** intervalField *)
Definition intervalField (t : bytes) : option bytes :=
  match fst (reInterval t) with [] => None | f => Some f end.

(** columnDesc (the fields ParseType can reach) *)
Record columnDesc := mkDesc {
  c_typ : bytes; c_fmtype : bytes; c_size : Z; c_typtype : bytes;
  c_precision : Z; c_timePrecision : option Z; c_scale : Z; c_interval : bytes }.

Definition desc0 (typ : bytes) : columnDesc := mkDesc typ [] 0%Z [] 0%Z None 0%Z [].

Definition parse_int (s : bytes) : res Z := match atoi s with Some z => Ok z | None => Err end.

(** parseCharParts *)
Definition parseCharParts (parts : list bytes) (c : columnDesc) : res columnDesc :=
  let j := join [32] parts in
  let '(typ, parts) :=
    if has_prefix j (bs "varchar") then (bs "varchar", skipn 1 parts)
    else if has_prefix j (bs "character varying") then (bs "character varying", skipn 2 parts)
    else (c_typ c, skipn 1 parts) in
  match parts with
  | [] => Ok (mkDesc typ (c_fmtype c) (c_size c) (c_typtype c) (c_precision c) (c_timePrecision c) (c_scale c) (c_interval c))
  | p :: _ => bind (parse_int p) (fun size =>
      Ok (mkDesc typ (c_fmtype c) size (c_typtype c) (c_precision c) (c_timePrecision c) (c_scale c) (c_interval c)))
  end.

(** parseBitParts *)
Definition parseBitParts (parts : list bytes) (c : columnDesc) : res columnDesc :=
  let set typ size := mkDesc typ (c_fmtype c) size (c_typtype c) (c_precision c) (c_timePrecision c) (c_scale c) (c_interval c) in
  match parts with
  | [_] => Ok (set (c_typ c) 1%Z)
  | _ :: parts1 =>
      let '(typ, parts2) :=
        match parts1 with
        | p :: r => if bytes_eqb p (bs "varying") then (bs "bit varying", r) else (c_typ c, parts1)
        | [] => (c_typ c, parts1)
        end in
      match parts2 with
      | [] => Ok (set typ (c_size c))
      | p :: r =>
          match parse_int p with
          | Ok size => Ok (set typ size)
          | _ => match r with
                 | [] => Panic   (* the error text reads parts[1] of the already shortened slice: index out of range *)
                 | _ => Err
                 end
          end
      end
  | [] => Panic
  end.

(** parseColumn, after strings.FieldsFunc *)
Definition parseParts (s : bytes) (parts : list bytes) : res columnDesc :=
    match parts with
    | [] => Panic                         (* parts[0]: index out of range *)
    | p0 :: rest =>
        let c := desc0 p0 in
        let is n := bytes_eqb p0 (bs n) in
        if is "varchar"%string || is "character varying"%string || is "char"%string || is "character"%string then
          parseCharParts parts c
        else if is "decimal"%string || is "numeric"%string || is "float"%string then
          bind (match rest with p1 :: _ => parse_int p1 | [] => Ok 0%Z end) (fun prec =>
          bind (match rest with _ :: p2 :: _ => parse_int p2 | _ => Ok 0%Z end) (fun scale =>
          Ok (mkDesc p0 [] 0%Z [] prec None scale [])))
        else if is "bit"%string then parseBitParts parts c
        else if is "double precision"%string || is "float8"%string then Ok (mkDesc p0 [] 0%Z [] 53%Z None 0%Z [])
        else if is "real"%string || is "float4"%string then Ok (mkDesc p0 [] 0%Z [] 24%Z None 0%Z [])
        else if is "time"%string || is "timetz"%string || is "timestamp"%string || is "timestamptz"%string then
          match rest with
          | p1 :: rest2 =>
              if existsb is_digit p1 then
                bind (parse_int p1) (fun i =>
                Ok (mkDesc (timeAlias (join [32] (p0 :: rest2))) [] 0%Z [] 0%Z (Some i) 0%Z []))
              else Ok (mkDesc (timeAlias s) [] 0%Z [] 0%Z (Some defaultTimePrecision) 0%Z [])
          | [] => Ok (mkDesc (timeAlias s) [] 0%Z [] 0%Z (Some defaultTimePrecision) 0%Z [])
          end
        else if is "interval"%string then
          let '(m1, m2) := reInterval s in
          Ok (mkDesc p0 [] 0%Z [] 0%Z (match m2 with Some d => Some (Z.of_N (d - 48)) | None => None end) 0%Z m1)
        else Ok (desc0 s)
    end.

(** parseColumn *)
Definition parseColumn (s : bytes) : res columnDesc :=
  match s with
  | [] => Err
  | _ :: _ => parseParts s (fields_func type_sep s)
  end.

Definition int_names := map bs ["bigint"; "int8"; "int"; "integer"; "int4"; "smallint"; "int2"; "int64"; "xid"; "xid8"]%string.
Definition string_names := map bs ["character"; "char"; "character varying"; "varchar"; "text"; "bpchar"; "name"]%string.
Definition network_names := map bs ["cidr"; "inet"; "macaddr"; "macaddr8"]%string.
Definition spatial_names := map bs ["circle"; "line"; "lseg"; "box"; "path"; "polygon"; "point"; "geometry"]%string.
Definition time_names := map bs ["time"; "time without time zone"; "timetz"; "time with time zone"; "timestamp";
  "timestamptz"; "timestamp with time zone"; "timestamp without time zone"]%string.
Definition float_names := map bs ["real"; "double precision"; "float"; "float4"; "float8"]%string.
Definition serial_names := map bs ["smallserial"; "serial"; "bigserial"; "serial2"; "serial4"; "serial8"]%string.
Definition pseudo_names := map bs ["any"; "anyelement"; "anyarray"; "anynonarray"; "anyenum"; "internal"; "record";
  "trigger"; "event_trigger"; "void"; "unknown"]%string.

(** columnType; [rec] = ParseType for the element type of an array *)
Definition columnType (rec : bytes -> res ty) (c : columnDesc) : res ty :=
  let t := c_typ c in
  let l := to_lower t in
  let isl n := bytes_eqb l (bs n) in
  let prec := match c_timePrecision c with Some p => p | None => defaultTimePrecision end in
  let typ : res ty :=
    if mem_b l int_names then Ok (IntegerType t)
    else if isl "bit"%string || isl "bit varying"%string then Ok (BitType t (c_size c))
    else if isl "bool"%string || isl "boolean"%string then Ok (BoolType t)
    else if isl "bytea"%string then Ok (BinaryType t)
    else if mem_b l string_names then
      let t := if bytes_eqb t (bs "character") && Z.eqb (c_size c) 0 && bytes_eqb (c_fmtype c) (bs "bpchar")
               then bs "bpchar" else t in
      Ok (StringType t (c_size c))
    else if mem_b l network_names then Ok (NetworkType t)
    else if mem_b l spatial_names then Ok (SpatialType t)
    else if isl "date"%string then Ok (TimeType t None)
    else if mem_b l time_names then Ok (TimeType t (Some prec))
    else if isl "interval"%string then
      match c_interval c with
      | [] => Ok (IntervalType t [] (Some prec))
      | iv => match intervalField iv with
              | Some f => Ok (IntervalType t f (Some prec))
              | None => Ok (UnsupportedType iv)
              end
      end
    else if mem_b l float_names then Ok (FloatType t (c_precision c))
    else if isl "json"%string || isl "jsonb"%string then Ok (JSONType t)
    else if isl "money"%string then Ok (CurrencyType t)
    else if isl "decimal"%string || isl "numeric"%string then Ok (DecimalType t (c_precision c) (c_scale c))
    else if mem_b l serial_names then Ok (SerialType t)
    else if isl "uuid"%string then Ok (UUIDType t)
    else if isl "xml"%string then Ok (XMLType t)
    else if isl "array"%string then
      match arrayType (c_fmtype c) with
      | Some e => bind (rec e) (fun _ => Ok (ArrayType (c_fmtype c)))
      | None => Ok (ArrayType (c_fmtype c))
      end
    else if isl "tsvector"%string || isl "tsquery"%string then Ok (TextSearchType t)
    else if mem_b l range_names then Ok (RangeType t)
    else if mem_b l oid_names then Ok (OIDType t)
    else if mem_b l pseudo_names then Ok (PseudoType t)
    else Ok (UserDefinedType (match c_fmtype c with [] => t | ft => ft end)) in
  (* the early return of the interval case skips the typtype switch *)
  match typ with
  | Ok (UnsupportedType _) => typ
  | Ok _ => if bytes_eqb (c_typtype c) (bs "d") || bytes_eqb (c_typtype c) (bs "e")
            then Ok (UserDefinedType (c_fmtype c)) else typ
  | _ => typ
  end.

(** ParseType; the recursion (array element type) is on a strictly shorter string:
    fuel = S (length typ) is never exhausted (out of fuel = Err). *)
Fixpoint ParseType_f (fuel : nat) (typ : bytes) : res ty :=
  match fuel with
  | O => Err
  | S f =>
      let d := match arrayType typ with
               | Some t => Ok (mkDesc (bs "array") (t ++ bs "[]") 0%Z [] 0%Z None 0%Z [])
               | None => parseColumn typ
               end in
      bind d (fun c => bind (columnType (ParseType_f f) c) (fun t =>
      Ok (match t with UnsupportedType T => UserDefinedType T | _ => t end)))
  end.
Definition ParseType (typ : bytes) : res ty := ParseType_f (S (length typ)) typ.

(** canonical text = harness showType (exported, non-embedded fields in declaration order;
    fields the model does not carry are the constants ParseType leaves there) *)
Definition show_opt (o : option Z) : bytes := match o with None => bs "nil" | Some z => itoa z end.
Definition show1 (cls : string) (T : bytes) : bytes := bs cls ++ bs "{T=" ++ hex T ++ bs "}".
Definition show_ty (t : ty) : bytes :=
  match t with
  | ArrayType T => show1 "postgres.ArrayType" T
  | BitType T n => bs "postgres.BitType{T=" ++ hex T ++ bs ",Len=" ++ itoa n ++ bs "}"
  | BoolType T => show1 "schema.BoolType" T
  | BinaryType T => bs "schema.BinaryType{T=" ++ hex T ++ bs ",Size=nil}"
  | CurrencyType T => show1 "postgres.CurrencyType" T
  | CompositeType T => bs "postgres.CompositeType{T=" ++ hex T ++ bs ",Attrs=[]}"
  | DomainType T => bs "postgres.DomainType{T=" ++ hex T ++ bs "}"
  | EnumType T => bs "schema.EnumType{T=" ++ hex T ++ bs ",Values=[]}"
  | IntegerType T => bs "schema.IntegerType{T=" ++ hex T ++ bs ",Unsigned=0,Attrs=[]}"
  | IntervalType T F p => bs "postgres.IntervalType{T=" ++ hex T ++ bs ",F=" ++ hex F ++ bs ",Precision=" ++ show_opt p ++ bs "}"
  | StringType T n => bs "schema.StringType{T=" ++ hex T ++ bs ",Size=" ++ itoa n ++ bs ",Attrs=[]}"
  | TimeType T p => bs "schema.TimeType{T=" ++ hex T ++ bs ",Precision=" ++ show_opt p ++ bs ",Scale=nil,Attrs=[]}"
  | FloatType T p => bs "schema.FloatType{T=" ++ hex T ++ bs ",Unsigned=0,Precision=" ++ itoa p ++ bs "}"
  | DecimalType T p s => bs "schema.DecimalType{T=" ++ hex T ++ bs ",Precision=" ++ itoa p ++ bs ",Scale=" ++ itoa s ++ bs ",Unsigned=0}"
  | SerialType T => bs "postgres.SerialType{T=" ++ hex T ++ bs ",Precision=0,SequenceName=-}"
  | JSONType T => show1 "schema.JSONType" T
  | UUIDType T => show1 "schema.UUIDType" T
  | SpatialType T => show1 "schema.SpatialType" T
  | NetworkType T => bs "postgres.NetworkType{T=" ++ hex T ++ bs ",Len=0}"
  | RangeType T => show1 "postgres.RangeType" T
  | OIDType T => show1 "postgres.OIDType" T
  | TextSearchType T => show1 "postgres.TextSearchType" T
  | UserDefinedType T => bs "postgres.UserDefinedType{T=" ++ hex T ++ bs ",C=-}"
  | XMLType T => show1 "postgres.XMLType" T
  | PseudoType T => show1 "postgres.PseudoType" T
  | UnsupportedType T => show1 "schema.UnsupportedType" T
  end.

Definition obs_fmt_pg := obs_fmt ty FormatType ParseType show_ty.

(** ParseType of a raw column type text (tie of the matchers on arbitrary input) *)
Definition obs_raw_pg (raw : bytes) : bytes :=
  let p := ParseType raw in
  show_res (bs "parse") show_ty p ++ [32] ++
  match p with Ok t => show_res (bs "fmt") hex (FormatType t) | _ => bs "fmt=-" end.

End Pg.
