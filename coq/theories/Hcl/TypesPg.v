(** M-TYPE, PostgreSQL (partial): type classes and FormatType / timeAlias
    (sql/postgres/convert.go). ParseType (parseColumn, columnType, the reArray /
    reInterval regexes) and the registry instantiation (typeSpec, formatTime,
    interval ToSpec/FromSpec, enum/domain/array column conversion) are NOT
    modelled yet: for PostgreSQL only FormatType is tied to the Go code; the
    rest is covered by the property oracle. No proofs here. *)
From Coq Require Import String.
From Coq Require Import List NArith ZArith Bool.
From Atlas Require Import Base.Bytes Hcl.Str Hcl.RegistryDefs Hcl.Registry.
Import ListNotations.
Local Open Scope N_scope.

Module Pg.

(** only the fields FormatType reads *)
Inductive ty :=
| ArrayType (T : bytes)
| BitType (T : bytes) (Len : Z)
| BoolType (T : bytes)
| BinaryType (T : bytes)
| CurrencyType (T : bytes)
| CompositeType (T : bytes)
| DomainType (T : bytes)
| EnumType (T : bytes)
| IntegerType (T : bytes)
| IntervalType (T F : bytes) (Precision : option Z)
| StringType (T : bytes) (Size : Z)
| TimeType (T : bytes) (Precision : option Z)
| FloatType (T : bytes) (Precision : Z)
| DecimalType (T : bytes) (Precision Scale : Z)
| SerialType (T : bytes)
| JSONType (T : bytes)
| UUIDType (T : bytes)
| SpatialType (T : bytes)
| NetworkType (T : bytes)
| RangeType (T : bytes)
| OIDType (T : bytes)
| TextSearchType (T : bytes)
| UserDefinedType (T : bytes)
| XMLType (T : bytes)
| PseudoType (T : bytes)
| UnsupportedType (T : bytes).

Definition paren (z : Z) : bytes := [40] ++ itoa z ++ [41].
Definition defaultTimePrecision : Z := 6%Z.

(** timeAlias *)
Definition timeAlias (t : bytes) : bytes :=
  let t := to_lower t in
  if bytes_eqb t (bs "timestamp with time zone") then bs "timestamptz"
  else if bytes_eqb t (bs "timestamp without time zone") then bs "timestamp"
  else if bytes_eqb t (bs "time without time zone") then bs "time"
  else if bytes_eqb t (bs "time with time zone") then bs "timetz"
  else t.

Definition range_names := map bs
  ["int4range"; "int4multirange"; "int8range"; "int8multirange"; "numrange"; "nummultirange";
   "tsrange"; "tsmultirange"; "tstzrange"; "tstzmultirange"; "daterange"; "datemultirange"]%string.
Definition oid_names := map bs
  ["oid"; "regclass"; "regcollation"; "regconfig"; "regdictionary"; "regnamespace"; "regoper"; "regoperator";
   "regproc"; "regprocedure"; "regrole"; "regtype"]%string.

(** postgres.FormatType *)
Definition FormatType (t : ty) : res bytes :=
  match t with
  | ArrayType T => Ok (to_lower T)
  | BitType T len =>
      let f := to_lower T in
      if (bytes_eqb f (bs "bit") && (1 <? len)%Z) || (bytes_eqb f (bs "bit varying") && (0 <? len)%Z)
      then Ok (f ++ paren len) else Ok f
  | BoolType T => let f := to_lower T in Ok (if bytes_eqb f (bs "bool") then bs "boolean" else f)
  | BinaryType T => Ok (to_lower T)
  | CurrencyType T => Ok (to_lower T)
  | CompositeType T | DomainType T | EnumType T => match T with [] => Err | _ => Ok T end
  | IntegerType T =>
      let f := to_lower T in
      Ok (if bytes_eqb f (bs "int2") then bs "smallint"
          else if bytes_eqb f (bs "int") || bytes_eqb f (bs "int4") then bs "integer"
          else if bytes_eqb f (bs "int8") then bs "bigint"
          else f)
  | IntervalType T F p =>
      let f := to_lower T in
      let f := match F with [] => f | _ => f ++ [32] ++ to_lower F end in
      Ok (match p with
          | Some n => if Z.eqb n defaultTimePrecision then f else f ++ paren n
          | None => f
          end)
  | StringType T sz =>
      let f := to_lower T in
      if mem_b f (map bs ["text"; "bpchar"; "name"]%string) then Ok f
      else if mem_b f (map bs ["char"; "character"]%string) then
        Ok (bs "character" ++ paren (if Z.eqb sz 0 then 1%Z else sz))
      else if mem_b f (map bs ["varchar"; "character varying"]%string) then
        Ok (if Z.eqb sz 0 then bs "character varying" else bs "character varying" ++ paren sz)
      else Err
  | TimeType T p =>
      let f := timeAlias T in
      Ok (match p with
          | Some n => if negb (Z.eqb n defaultTimePrecision) && has_prefix f (bs "time") then f ++ paren n else f
          | None => f
          end)
  | FloatType T p =>
      let f := to_lower T in
      if bytes_eqb f (bs "float4") then Ok (bs "real")
      else if bytes_eqb f (bs "float8") then Ok (bs "double precision")
      else if bytes_eqb f (bs "float") then
        if (0 <? p)%Z && (p <=? 24)%Z then Ok (bs "real")
        else if Z.eqb p 0 || ((24 <? p)%Z && (p <=? 53)%Z) then Ok (bs "double precision")
        else Err
      else Ok f
  | DecimalType T p s =>
      let f := to_lower T in
      if negb (bytes_eqb f (bs "numeric")) && negb (bytes_eqb f (bs "decimal")) then Err
      else
        let f := bs "numeric" in
        if Z.eqb p 0 && Z.eqb s 0 then Ok f
        else if (s <? 0)%Z then Err
        else if Z.eqb p 0 && (0 <? s)%Z then Err
        else if Z.eqb s 0 then Ok (f ++ paren p)
        else Ok (f ++ [40] ++ itoa p ++ [44] ++ itoa s ++ [41])
  | SerialType T =>
      let f := to_lower T in
      if mem_b f (map bs ["smallserial"; "serial"; "bigserial"]%string) then Ok f
      else if bytes_eqb f (bs "serial2") then Ok (bs "smallserial")
      else if bytes_eqb f (bs "serial4") then Ok (bs "serial")
      else if bytes_eqb f (bs "serial8") then Ok (bs "bigserial")
      else Err
  | JSONType T | UUIDType T | SpatialType T | NetworkType T | XMLType T | PseudoType T => Ok (to_lower T)
  | RangeType T => let f := to_lower T in if mem_b f range_names then Ok f else Err
  | OIDType T => let f := to_lower T in if mem_b f oid_names then Ok f else Err
  | TextSearchType T =>
      let f := to_lower T in if bytes_eqb f (bs "tsvector") || bytes_eqb f (bs "tsquery") then Ok f else Err
  | UserDefinedType T => Ok T
  | UnsupportedType _ => Err
  end.

Definition obs_fmt_pg (t : ty) : bytes :=
  bs "fmt" ++ match FormatType t with
              | Ok s => bs "=ok:" ++ hex s
              | Err => bs "=err"
              | Panic => bs "=panic"
              end.

End Pg.
