(** Proofs about M-TX part 2 (C13: dry-run, schema apply). *)
From Coq Require Import List NArith Bool Arith Lia.
From Atlas Require Import Base.Bytes Base.ListX Exec.ExecModel Exec.PendingModel Exec.RunModel
  Exec.TxModel Exec.DryModel.
Import ListNotations.

Section DryProofs.
Variable hash : Type.
Variable hash_eqb : hash -> hash -> bool.
Variable HS : bytes -> hash.
Notation db := (db hash).
Notation cdb := (cdb hash).
Notation migrate_apply := (migrate_apply hash hash_eqb HS).
Notation apply_run := (apply_run hash hash_eqb HS).

(** Pending asks for a revision write only for the baseline. *)
Lemma pending_no_baseline (cf : cfg) all (revs : list (rev hash)) :
  c_baseline cf = None -> snd (pending cf all revs) = None.
Proof.
  intros Hb. unfold pending. rewrite Hb.
  destruct (last_opt revs) as [last|].
  2:{ destruct (c_dirty cf && negb (c_allow_dirty cf) && true); reflexivity. }
  cbv zeta.
  destruct (if negb (r_applied last =? r_total last) && negb (length all =? 0)
            then let '(idx, found) := bsearch (map f_version all) (r_version last) in
                 if found then match nth_error all idx with
                               | Some f => if f_ckpt f then Some (f :: skip_checkpoints (skipn idx all)) else None
                               | None => None end
                 else None
            else None) as [p|]; [reflexivity|].
  destruct (skip_checkpoints all) as [|m ms]; [reflexivity|].
  destruct (files_last_index _ (m :: ms)) as [idx0|].
  2:{ destruct (negb (r_applied last =? r_total last)); reflexivity. }
  destruct (index_func _ _) as [first|]; [|destruct (skipn _ _); reflexivity].
  destruct ((first <? _) && _); [|destruct (skipn _ _); reflexivity].
  destruct (filter _ _) as [|x xs]; [destruct (skipn _ _); reflexivity|].
  destruct (c_order cf); try reflexivity; simpl; try (destruct (skipn _ _); reflexivity).
Qed.

(** The exact effect of a dry run, for every directory (failing statements,
    directives, checkpoints), mode, count and configuration: the revisions table
    exists afterwards and holds, in addition, the baseline revision if Pending
    asked for one; nothing else changes. *)
Lemma dry_run_effect global n cf dir (d : cdb) :
  snd (migrate_apply true global n cf dir d) =
  mkCdb true (match snd (pending cf (map tf_file dir) (read_revisions hash (d_tbl (cd_db d)))) with
              | Some r => mkDb (d_journal (cd_db d)) (tbl_put (d_tbl (cd_db d)) r)
              | None => cd_db d
              end).
Proof.
  unfold DryModel.migrate_apply.
  destruct (pending cf (map tf_file dir) (read_revisions hash (d_tbl (cd_db d)))) as [p w].
  destruct p; reflexivity.
Qed.

Lemma dry_run_except_lemma global n cf dir (d : cdb) :
  cd_revtable d = true -> c_baseline cf = None ->
  snd (migrate_apply true global n cf dir d) = d.
Proof.
  intros Ht Hb. rewrite dry_run_effect. rewrite (pending_no_baseline cf _ _ Hb).
  destruct d as [b c]. simpl in *. subst b. reflexivity.
Qed.

(** Without --dry-run and without baseline the command is [apply_run]. *)
Lemma migrate_apply_is_apply_run global n dir b (c : db) :
  migrate_apply false global n (mkCfg Linear None true true) dir (mkCdb b c) =
  (let '(o, c', _) := apply_run global n dir c in (o, mkCdb true c')).
Proof.
  unfold DryModel.migrate_apply, TxModel.apply_run. cbn [cd_db].
  pose proof (pending_no_baseline (mkCfg Linear None true true) (map tf_file dir) (read_revisions hash (d_tbl c)) eq_refl) as Hw.
  destruct (pending (mkCfg Linear None true true) (map tf_file dir) (read_revisions hash (d_tbl c))) as [p w].
  simpl in Hw. subst w. cbn [fst].
  destruct p; try reflexivity.
  destruct (apply_loop hash hash_eqb HS global _ c None) as [[[o c2] wopt] tr].
  destruct o; try reflexivity. destruct wopt; reflexivity.
Qed.

End DryProofs.

(** ** schema apply *)
Lemma exec_plan_spec : forall stmts i bad eff r eff' es,
  exec_plan i stmts bad eff = (r, eff', es) ->
  (forall fk, fk_after es fk = fk) /\
  match r with
  | None => eff' = eff ++ stmts /\
            (forall b, bad = Some b -> b < i \/ i + length stmts <= b)
  | Some k => bad = Some k /\ i <= k /\ k < i + length stmts /\ eff' = eff ++ firstn (k - i) stmts
  end.
Proof.
  induction stmts as [|s rest IH]; intros i bad eff r eff' es H; simpl in H.
  - inversion H; subst. split; [reflexivity|]. split; [rewrite app_nil_r; reflexivity|].
    intros b _. simpl. lia.
  - destruct (match bad with Some b => b =? i | None => false end) eqn:E.
    + inversion H; subst. split; [reflexivity|].
      destruct bad as [b|]; [|discriminate]. apply Nat.eqb_eq in E. subst b.
      split; [reflexivity|]. split; [lia|]. split; [simpl; lia|]. rewrite Nat.sub_diag. simpl. rewrite app_nil_r. reflexivity.
    + destruct (exec_plan (S i) rest bad (eff ++ [s])) as [[r2 eff2] es2] eqn:R.
      inversion H; subst. destruct (IH _ _ _ _ _ _ R) as [Hfk Hr]. split; [intros fk; simpl; apply Hfk|].
      destruct r as [k|].
      * destruct Hr as (Hb & Hle & Hlt & He). split; [exact Hb|]. split; [lia|]. split; [simpl; lia|].
        rewrite He, <- app_assoc. f_equal. replace (k - i) with (S (k - S i)) by lia. reflexivity.
      * destruct Hr as [He Hb]. split; [rewrite He, <- app_assoc; reflexivity|].
        intros b Eb. destruct (Hb b Eb) as [H1|H1]; [|right; simpl; lia].
        subst bad. apply Nat.eqb_neq in E. lia.
Qed.

Lemma fk_after_app a b fk : fk_after (a ++ b) fk = fk_after b (fk_after a fk).
Proof. unfold fk_after. apply fold_left_app. Qed.

(** applyChanges in a transaction (the default of `schema apply`): all or nothing,
    and the connection's foreign_keys pragma is restored on every path. *)
Lemma schema_apply_atomic_lemma txmode stmts bad viol (d : sdb) o d' es :
  txmode <> TxNone ->
  apply_changes txmode stmts bad viol d = (o, d', es) ->
  (o <> SOk -> d' = d) /\
  (o = SOk -> d' = mkSdb (s_effects d ++ stmts) (s_fk d)) /\
  (o = SOk <-> (forall b, bad = Some b -> length stmts <= b) /\ (s_fk d && viol = false)) /\
  (forall k, o = SApplyErr k -> bad = Some k /\ k < length stmts).
Proof.
  intros Hm H. destruct d as [eff0 fk].
  assert (apply_changes_tx stmts bad viol (mkSdb eff0 fk) = (o, d', es)) as H'
    by (destruct txmode; [contradiction|exact H|exact H]).
  clear H. unfold apply_changes_tx in H'. cbn [s_effects s_fk] in *.
  destruct (exec_plan 0 stmts bad eff0) as [[r eff] es0] eqn:R.
  destruct (exec_plan_spec _ _ _ _ _ _ _ R) as [Hfk Hr].
  assert (forall tl, fk_after (((if fk then [SPragma false] else []) ++ [SBegin] ++ (if fk then [SFkCheck] else []))
                                 ++ es0 ++ tl) fk = fk_after tl (if fk then false else fk)) as Hpre.
  { intros tl. rewrite !fk_after_app. rewrite Hfk. destruct fk; reflexivity. }
  destruct r as [k|].
  - destruct Hr as (Hb & _ & Hlt & _). inversion H'; subst o d' es. clear H'.
    split.
    + intros _. f_equal. rewrite Hpre. destruct fk; reflexivity.
    + split; [discriminate|]. split.
      * split; [discriminate|]. intros [Hall _]. specialize (Hall k Hb). simpl in Hlt. lia.
      * intros k' E. inversion E; subst k'. split; [exact Hb|simpl in Hlt; lia].
  - destruct Hr as [He Hb]. destruct (fk && viol) eqn:Ev.
    + inversion H'; subst o d' es. clear H'. split.
      * intros _. f_equal. rewrite Hpre. apply andb_true_iff in Ev as [Ef _]. rewrite Ef. reflexivity.
      * split; [discriminate|]. split; [|discriminate].
        split; [discriminate|]. intros [_ E]. congruence.
    + inversion H'; subst o d' es. clear H'. split; [congruence|]. split.
      * intros _. rewrite He. f_equal. rewrite Hpre.
        destruct fk; reflexivity.
      * split; [|discriminate]. split; [|reflexivity]. intros _. split; [|reflexivity].
        intros b Eb. destruct (Hb b Eb) as [H1|H1]; simpl in *; lia.
Qed.

(** --tx-mode none: exactly the successful prefix stays. *)
Lemma schema_apply_none_lemma stmts bad viol (d : sdb) o d' es :
  apply_changes TxNone stmts bad viol d = (o, d', es) ->
  s_fk d' = s_fk d /\
  match o with
  | SOk => s_effects d' = s_effects d ++ stmts
  | SApplyErr k => bad = Some k /\ k < length stmts /\ s_effects d' = s_effects d ++ firstn k stmts
  | SFkMismatch => False
  end.
Proof.
  unfold apply_changes. destruct (exec_plan 0 stmts bad (s_effects d)) as [[r eff] es0] eqn:R.
  destruct (exec_plan_spec _ _ _ _ _ _ _ R) as [Hfk Hr]. intros H. inversion H; subst o d' es. clear H.
  cbn [s_fk s_effects]. split; [apply Hfk|].
  destruct r as [k|].
  - destruct Hr as (Hb & _ & Hlt & He). rewrite Nat.sub_0_r in He. simpl in Hlt. auto.
  - apply Hr.
Qed.
