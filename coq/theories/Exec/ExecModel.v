(** M-EXEC: executable model of [Executor.Execute], [Executor.exec] and
    [writeRevision] of sql/migrate/migrate.go (function names kept).

    - statements are byte strings; [HS] stands for base64(sha256(.)) and is a
      section variable: nothing is assumed of it (no injectivity);
    - every fallible call ([ExecContext], [WriteRevision]) pops one boolean
      from a fault stream ([true] = this call fails);
    - a panic of the Go code (index / slice out of range) is the explicit
      outcome [OPanic];
    - [ExecutedAt], [ExecutionTime], [OperatorVersion], [Description], the
      error *text* and the ["h1:"] prefix of partial hashes are not modelled.

    This file contains no proofs. *)
From Coq Require Import List NArith Bool Arith.
From Atlas Require Import Base.Bytes.
Import ListNotations.

Section Exec.
Variable hash : Type.
Variable hash_eqb : hash -> hash -> bool.
Variable HS : bytes -> hash.

Record rev := mkRev {
  r_version : bytes;
  r_applied : nat;
  r_total   : nat;
  r_hashes  : list hash;   (* PartialHashes *)
  r_err     : bool;        (* Error <> "" *)
  r_kind    : N            (* RevisionType bits: 1 baseline, 2 execute, 4 resolved *)
}.

Record file := mkFile {
  f_version : bytes;
  f_stmts   : list bytes;
  f_ckpt    : bool
}.

Inductive event :=
| EExec  (v : bytes) (i : nat) (s : bytes) (ok : bool)   (* i: index of s in the file (ghost, for proofs) *)
| EWrite (r : rev) (ok : bool).

Inductive outcome :=
| ODone | OStmtErr | OWriteErr | OHistory (i : nat) | OPanic.

(** ** revision table: what a [RevisionReadWriter] stores (copies, keyed by version) *)
Fixpoint tbl_get (t : list rev) (v : bytes) : option rev :=
  match t with
  | [] => None
  | x :: t' => if bytes_eqb (r_version x) v then Some x else tbl_get t' v
  end.

Fixpoint tbl_put (t : list rev) (r : rev) : list rev :=
  match t with
  | [] => [r]
  | x :: t' => if bytes_eqb (r_version x) (r_version r) then r :: t' else x :: tbl_put t' r
  end.

Definition pop (fs : list bool) : bool * list bool :=
  match fs with [] => (false, []) | b :: t => (b, t) end.

(** [writeRevision]: a failing write leaves the table unchanged. *)
Definition write (t : list rev) (fs : list bool) (r : rev)
  : bool * list rev * list bool * event :=
  let '(fail, fs') := pop fs in
  if fail then (false, t, fs', EWrite r false)
  else (true, tbl_put t r, fs', EWrite r true).

(** ** cumulative statement hashes: sums[i] = HS (stmt_0 ++ ... ++ stmt_i) *)
Fixpoint sums_from (acc : bytes) (ss : list bytes) : list hash :=
  match ss with
  | [] => []
  | s :: t => HS (acc ++ s) :: sums_from (acc ++ s) t
  end.
Definition sums (ss : list bytes) : list hash := sums_from [] ss.

(** The loop [for i := 0; i < r.Applied; i++] of Execute, as fixed:
    [if i >= len(sums) || sums[i] != r.PartialHashes[i]].
    [None] = Go panics (PartialHashes[i] out of range);
    [Some None] = prefix unchanged; [Some (Some i)] = HistoryChangedError{Stmt: i+1}. *)
Fixpoint check_loop (k i : nat) (sm hs : list hash) : option (option nat) :=
  match k with
  | O => Some None
  | S k' =>
      if length sm <=? i then Some (Some i)
      else match nth_error sm i, nth_error hs i with
           | Some a, Some b => if hash_eqb a b then check_loop k' (S i) sm hs else Some (Some i)
           | _, _ => None
           end
  end.

Definition set_err (r : rev) (b : bool) : rev :=
  mkRev (r_version r) (r_applied r) (r_total r) (r_hashes r) b (r_kind r).
Definition set_total (r : rev) (n : nat) : rev :=
  mkRev (r_version r) (r_applied r) n (r_hashes r) (r_err r) (r_kind r).
Definition set_hashes (r : rev) (hs : list hash) : rev :=
  mkRev (r_version r) (r_applied r) (r_total r) hs (r_err r) (r_kind r).
Definition step_applied (r : rev) (h : hash) : rev :=
  mkRev (r_version r) (S (r_applied r)) (r_total r) (r_hashes r ++ [h]) false (r_kind r).

(** The statement loop [for _, stmt := range stmts[r.Applied:]].
    [rest] / [srest] are the remaining statements / their sums. *)
Fixpoint run_stmts (v : bytes) (rest : list bytes) (srest : list hash) (r : rev)
         (t : list rev) (fs : list bool)
  : outcome * rev * list rev * list bool * list event :=
  match rest with
  | [] => (ODone, r, t, fs, [])
  | s :: rest' =>
      let '(fail, fs1) := pop fs in
      if fail then (OStmtErr, set_err r true, t, fs1, [EExec v (r_applied r) s false])
      else match srest with
           | [] => (OPanic, r, t, fs1, [EExec v (r_applied r) s true])
           | h :: srest' =>
               let r' := step_applied r h in
               let '(ok, t2, fs2, e) := write t fs1 r' in
               if ok then
                 let '(o, r'', t3, fs3, es) := run_stmts v rest' srest' r' t2 fs2 in
                 (o, r'', t3, fs3, EExec v (r_applied r) s true :: e :: es)
               else (OWriteErr, r', t2, fs2, [EExec v (r_applied r) s true; e])
           end
  end.

Definition new_rev (v : bytes) (n : nat) : rev := mkRev v 0 n [] false 2%N.

Definition execute (f : file) (t : list rev) (fs : list bool)
  : outcome * list rev * list bool * list event :=
  let stmts := f_stmts f in
  let sm := sums stmts in
  let v := f_version f in
  let r0 := match tbl_get t v with Some r => r | None => new_rev v (length stmts) end in
  (* Save once to mark as started in the database. *)
  let '(ok, t1, fs1, e1) := write t fs r0 in
  if negb ok then (OWriteErr, t1, fs1, [e1]) else
  match (if 0 <? r_applied r0 then check_loop (r_applied r0) 0 sm (r_hashes r0) else Some None) with
  | None => (OPanic, t1, fs1, [e1])
  | Some (Some i) =>
      (* HistoryChangedError; the deferred write still happens *)
      let '(_, t2, fs2, e2) := write t1 fs1 r0 in
      (OHistory (S i), t2, fs2, [e1; e2])
  | Some None =>
      let r1 := set_total r0 (length stmts) in
      if length stmts <? r_applied r1 then (OPanic, t1, fs1, [e1]) else
      let '(o, r2, t2, fs2, es) :=
        run_stmts v (skipn (r_applied r1) stmts) (skipn (r_applied r1) sm) r1 t1 fs1 in
      match o with
      | OWriteErr | OPanic | OHistory _ => (o, t2, fs2, e1 :: es)  (* deferred write skipped *)
      | OStmtErr =>
          let '(_, t3, fs3, e3) := write t2 fs2 r2 in
          (OStmtErr, t3, fs3, e1 :: es ++ [e3])
      | ODone =>
          let r3 := set_hashes r2 [] in
          let '(ok3, t3, fs3, e3) := write t2 fs2 r3 in
          ((if ok3 then ODone else OWriteErr), t3, fs3, e1 :: es ++ [e3])
      end
  end.

(** [Executor.exec]: run the files in order, stop at the first error. *)
Fixpoint exec_files (files : list file) (t : list rev) (fs : list bool)
  : outcome * list rev * list bool * list event :=
  match files with
  | [] => (ODone, t, fs, [])
  | f :: rest =>
      let '(o, t1, fs1, es) := execute f t fs in
      match o with
      | ODone =>
          let '(o', t2, fs2, es') := exec_files rest t1 fs1 in
          (o', t2, fs2, es ++ es')
      | _ => (o, t1, fs1, es)
      end
  end.

(** The journal: statements that really ran. *)
Fixpoint journal (es : list event) : list (bytes * bytes) :=
  match es with
  | [] => []
  | EExec v _ s true :: es' => (v, s) :: journal es'
  | _ :: es' => journal es'
  end.

(** Positions (version, statement index) of the statements that really ran. *)
Fixpoint positions (es : list event) : list (bytes * nat) :=
  match es with
  | [] => []
  | EExec v i _ true :: es' => (v, i) :: positions es'
  | _ :: es' => positions es'
  end.

Fixpoint exec_events (es : list event) : list event :=
  match es with
  | [] => []
  | EExec v i s ok :: es' => EExec v i s ok :: exec_events es'
  | _ :: es' => exec_events es'
  end.

End Exec.

Arguments mkRev {hash}.
Arguments r_version {hash}.
Arguments r_applied {hash}.
Arguments r_total {hash}.
Arguments r_hashes {hash}.
Arguments r_err {hash}.
Arguments r_kind {hash}.
Arguments EExec {hash}.
Arguments EWrite {hash}.
Arguments tbl_get {hash}.
Arguments tbl_put {hash}.
Arguments write {hash}.
Arguments journal {hash}.
Arguments exec_events {hash}.
Arguments positions {hash}.
Arguments set_err {hash}.
Arguments set_total {hash}.
Arguments set_hashes {hash}.
Arguments step_applied {hash}.
Arguments new_rev {hash}.
