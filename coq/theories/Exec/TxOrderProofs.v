(** Proofs about [apply_run_ord] (Exec/TxOrderModel.v). *)
From Coq Require Import List NArith Bool Arith Lia.
From Atlas Require Import Base.Bytes Exec.ExecModel Exec.PendingModel Exec.RunModel Exec.TxModel Exec.TxOrderModel.
Import ListNotations.

Section TxOrderP.
Variable hash : Type.
Variable hash_eqb : hash -> hash -> bool.
Variable HS : bytes -> hash.
Notation db := (db hash).

Lemma apply_run_ord_linear : forall g n dir (c : db),
  apply_run_ord hash hash_eqb HS Linear g n dir c = apply_run hash hash_eqb HS g n dir c.
Proof. reflexivity. Qed.

Lemma chosen_tfiles_incl : forall dir chosen, incl (chosen_tfiles dir chosen) dir.
Proof.
  intros dir chosen tf H. unfold chosen_tfiles in H. apply in_flat_map in H.
  destruct H as (f & _ & H). apply filter_In in H. tauto.
Qed.

(** Whatever the execution order: the command either stops in Pending without touching
    anything, or it is the loop of migrateApplyRun over files of the directory (those Pending
    chose, cut to the count) from the state it found, without an open transaction, followed
    by the final commit of an open `all` transaction -- so every theorem stated on
    [apply_loop] / [run_direct] (crashed state per mode) holds for every --exec-order. *)
Lemma apply_run_ord_is_loop : forall ord g n dir (c : db) o c' tr,
  apply_run_ord hash hash_eqb HS ord g n dir c = (o, c', tr) ->
  (exists p, o = APend p /\ c' = c /\ tr = [] /\
             fst (pending (mkCfg ord None true true) (map tf_file dir) (read_revisions hash (d_tbl c))) = p /\
             forall fs, p <> PFiles fs) \/
  (exists ps files o1 c1 w tr1,
     fst (pending (mkCfg ord None true true) (map tf_file dir) (read_revisions hash (d_tbl c))) = PFiles ps /\
     files = chosen_tfiles dir (if 0 <? n then firstn n ps else ps) /\ incl files dir /\
     apply_loop hash hash_eqb HS g files c None = (o1, c1, w, tr1) /\
     ((o1 = ADone /\ exists wd, w = Some wd /\ o = ADone /\ c' = wd /\
                                tr = tr1 ++ [(BeforeCommit, c1); (AfterCommit, wd)]) \/
      ((o1 <> ADone \/ w = None) /\ o = o1 /\ c' = c1 /\ tr = tr1))).
Proof.
  intros ord g n dir c o c' tr H. unfold apply_run_ord in H.
  destruct (fst (pending _ _ _)) as [ps| | | | | |] eqn:Hp;
    try (left; eexists; inversion H; subst; repeat split; try reflexivity; intros fs Hc; discriminate).
  right.
  destruct (apply_loop hash hash_eqb HS g _ c None) as [[[o1 c1] w] tr1] eqn:Hl.
  exists ps, (chosen_tfiles dir (if 0 <? n then firstn n ps else ps)), o1, c1, w, tr1.
  split; [reflexivity|]. split; [reflexivity|]. split; [apply chosen_tfiles_incl|]. split; [exact Hl|].
  destruct o1; try (right; inversion H; subst; split; [left; discriminate|repeat split; reflexivity]).
  destruct w as [wd|].
  - left. split; [reflexivity|]. exists wd. inversion H; subst. repeat split; reflexivity.
  - right. inversion H; subst. split; [right; reflexivity|repeat split; reflexivity].
Qed.

End TxOrderP.
