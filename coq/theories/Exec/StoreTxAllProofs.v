(** C09 over the store contract, every --tx-mode: [--tx-mode all] wraps all
    chosen files in ONE transaction, committed after the loop when every file
    succeeded and discarded otherwise.  Together with StoreTxDirProofs.v: after
    any history of runs with any global mode the committed database satisfies
    the resume statement. *)
From Coq Require Import List NArith Bool Arith Lia.
From Atlas Require Import Base.Bytes Base.ListX Base.Stutter Exec.ExecModel Exec.ExecProofs Exec.StepProofs
  Exec.PendingModel Exec.PendingProofs Exec.RunModel Exec.TxModel Exec.TxProofs Exec.RunProofs
  Exec.StoreModel Exec.StoreProofs Exec.StoreTxModel Exec.StoreTxProofs Exec.StoreTxDirProofs.
Import ListNotations.

Section StoreAll.
Variable hash : Type.
Variable hash_eqb : hash -> hash -> bool.
Variable HS : bytes -> hash.
Hypothesis hash_eqb_spec : forall a b, hash_eqb a b = true <-> a = b.
Notation rev := (rev hash).
Notation event := (event hash).
Notation sdb := (sdb hash).

Section Dir.
Variable all : list file.
Hypothesis Hsorted : sorted_files all.
Variable skipped : list file.
Hypothesis Hfull : sorted_files (skipped ++ all).
Hypothesis Hfresh : from_last_ckpt (skipped ++ all) = all.
Notation dir := (skipped ++ all).
Notation Inv := (Inv hash HS all).
Notation normal := (normal all).
Notation run_all := (run_all hash hash_eqb HS).
Notation run_ok := (run_ok all skipped).
Notation GInv := (GInv hash HS all).
Notation committed_sim := (committed_sim hash hash_eqb HS all skipped).

Definition cur (c : sdb) (w : option sdb) : sdb := match w with Some x => x | None => c end.

Lemma mode_for_all tf m : mode_for TxAll tf = Some m -> m = TxAll.
Proof.
  unfold mode_for. destruct (tf_directive tf) as [[d|]|]; try discriminate.
  - destruct d; simpl; intros H; try discriminate.
  - intros H. inversion H. reflexivity.
Qed.

Lemma committed_sim_trans t j es1 t1 j1 es2 t2 j2 :
  committed_sim t j es1 t1 j1 -> committed_sim t1 j1 es2 t2 j2 -> committed_sim t j (es1 ++ es2) t2 j2.
Proof.
  intros (rs1 & Hok1 & Hft1 & Hj1 & Hwf1) (rs2 & Hok2 & Hft2 & Hj2 & Hwf2).
  exists (rs1 ++ rs2). split; [apply Forall_app; split; assumption|].
  rewrite (run_all_app hash hash_eqb HS), Hft1.
  unfold all_events, final_tbl, wf_all in *.
  rewrite flat_map_app, fold_left_app, map_app, list_sum_app, Hft1, Hft2.
  split; [reflexivity|]. split; [rewrite Hj2, Hj1, journal_app, app_assoc; reflexivity|].
  pose proof (wf_app hash es1 es2). lia.
Qed.

(** the loop under --tx-mode all: the committed state never moves; when every file
    succeeded the open transaction holds what the ideal runs leave *)
Lemma apply_files_m_all_sim c : cfg_ok c ->
  forall tfs (cdb : sdb) w fs o cd w' fs' es k a has,
  Inv (s_tbl (cur cdb w)) k a has -> normal k a has ->
  map tf_file tfs = firstn (length tfs) (skipn k all) ->
  apply_files_m hash hash_eqb HS TxAll tfs cdb w fs = (o, cd, w', fs', es) ->
  cd = cdb /\
  (o = MDone -> committed_sim (s_tbl (cur cdb w)) (s_journal (cur cdb w)) es
                              (s_tbl (cur cdb w')) (s_journal (cur cdb w'))).
Proof.
  intros Hc. induction tfs as [|tf rest IH]; intros cdb w fs o cd w' fs' es k a has HI Hn Hfiles Hex.
  - simpl in Hex. inversion Hex; subst. split; [reflexivity|]. intros _. apply committed_sim_nil.
  - cbn [map length firstn] in Hfiles.
    destruct (skipn k all) as [|f tl] eqn:Esk; [discriminate|].
    inversion Hfiles as [[Ef Erest]].
    destruct (skipn_cons_inv all k f tl Esk) as [Hnth Esk'].
    cbn [apply_files_m] in Hex.
    destruct (mode_for TxAll tf) as [m|] eqn:Em.
    2:{ inversion Hex; subst. split; [reflexivity|]. intros H; discriminate. }
    apply mode_for_all in Em. subst m.
    fold (cur cdb w) in Hex. set (w0 := cur cdb w) in *.
    unfold exec_on in Hex. rewrite Ef, (execute_st_cases hash hash_eqb HS) in Hex.
    destruct (pop fs) as [b fs0]. destruct b.
    { inversion Hex; subst. split; [reflexivity|]. intros H; discriminate. }
    pose proof (ideal_one hash hash_eqb HS all Hsorted skipped Hfull Hfresh c f tl (s_tbl w0) k a has fs0 Hc HI Hn Esk) as Hid.
    destruct (execute hash hash_eqb HS f (s_tbl w0) fs0) as [[[o1 t1] fs1] es1] eqn:EX.
    assert (o1 = ODone \/ o1 <> ODone) as [Eo|Hne] by (destruct o1; auto; right; discriminate).
    2:{ assert ((MFail (SExec o1), cdb, @None sdb, fs1, es1) = (o, cd, w', fs', es)) as Eres.
        { rewrite <- Hex. destruct o1; try reflexivity. contradiction. }
        inversion Eres; subst. split; [reflexivity|]. intros H; discriminate. }
    subst o1.
    set (w1 := mkSdb (s_journal w0 ++ journal es1) t1) in *.
    destruct (apply_files_m hash hash_eqb HS TxAll rest cdb (Some w1) fs1) as [[[[o2 c2] w2] fs2] es2] eqn:EX2.
    inversion Hex; subst o cd w' fs' es. clear Hex.
    set (r1 := mkRun c 1 dir fs0).
    assert (Hr1 : run_ok r1) by (split; [reflexivity|exact Hc]).
    assert (Hone : run_all [r1] (s_tbl w0) = [(RExec ODone, t1, es1)]).
    { cbn [RunModel.run_all]. unfold r1. cbn [run_cfg run_n run_dir run_faults]. rewrite Hid. reflexivity. }
    assert (Hx : exec_files hash hash_eqb HS [f] (s_tbl w0) fs0 = (ODone, t1, fs1, es1))
      by (rewrite exec_files_single; exact EX).
    assert (Hf1 : [f] = firstn (length [f]) (skipn k all)) by (rewrite Esk; reflexivity).
    destruct (exec_files_inv hash hash_eqb HS hash_eqb_spec all Hsorted [f] (s_tbl w0) fs0 ODone t1 fs1 es1 k a has HI Hn Hf1 Hx)
      as (Hp & _ & Ht1).
    destruct (Hp es1 [] ltac:(rewrite app_nil_r; reflexivity)) as (k1 & a1 & has1 & e1 & HI1 & _ & _ & _ & H5).
    destruct (H5 eq_refl) as [_ Hd].
    assert (Hne1 : [f] <> []) by discriminate.
    destruct (Hd eq_refl (or_introl Hne1)) as (E1 & E2 & E3 & E4). subst k1 a1 has1 e1.
    rewrite <- Ht1 in HI1. replace (k + length [f]) with (S k) in HI1 by (simpl; lia).
    assert (Hn1 : normal (S k) 0 false) by (intros H; discriminate).
    assert (Erest' : map tf_file rest = firstn (length rest) (skipn (S k) all)) by (rewrite Esk'; exact Erest).
    destruct (IH cdb (Some w1) fs1 o2 c2 w2 fs2 es2 (S k) 0 false HI1 Hn1 Erest' EX2) as (-> & Hsim).
    split; [reflexivity|]. intros Ho. specialize (Hsim Ho). cbn [cur] in Hsim.
    apply (committed_sim_trans _ _ es1 t1 (s_journal w0 ++ journal es1)); [|exact Hsim].
    exists [r1]. split; [constructor; [assumption|constructor]|].
    rewrite Hone. unfold all_events, final_tbl, wf_all. cbn [flat_map fold_left map fst snd].
    rewrite app_nil_r. split; [reflexivity|]. split; [reflexivity|]. simpl. lia.
Qed.

Variable tdir : list tfile.
Hypothesis Htdir : map tf_file tdir = dir.

Lemma cli_apply_m_all_sim c n (d : sdb) fs co d' fs' es :
  cfg_ok c -> (exists k a has, Inv (s_tbl d) k a has) ->
  cli_apply_m hash hash_eqb HS TxAll c n tdir d fs = (co, d', fs', es) ->
  committed_sim (s_tbl d) (s_journal d) es (s_tbl d') (s_journal d').
Proof.
  intros Hc (k0 & a0 & has0 & HI0) Hex.
  destruct (normalize hash HS all (s_tbl d) k0 a0 has0 HI0) as (k & a & has & HI & Hn & _).
  unfold cli_apply_m in Hex. rewrite Htdir in Hex.
  unfold read_revisions_f in Hex.
  destruct (pop fs) as [b1 fs1]. destruct b1.
  { inversion Hex; subst. apply committed_sim_nil. }
  rewrite (pending_inv hash HS all Hsorted skipped Hfull Hfresh c (s_tbl d) k a has Hc HI Hn) in Hex.
  cbn [negb] in Hex.
  destruct (skipn k all) as [|f l] eqn:Esk.
  - cbn [finish] in Hex. destruct (pop fs1) as [b2 fs2]. destruct b2; inversion Hex; subst; simpl; apply committed_sim_nil.
  - change (finish (f :: l)) with (PFiles (f :: l)) in Hex. cbv iota in Hex.
    destruct (pop fs1) as [b2 fs3]. destruct b2.
    { inversion Hex; subst. simpl. apply committed_sim_nil. }
    set (chosen := if 0 <? n then firstn n (f :: l) else f :: l) in *.
    assert (Hch : chosen = firstn (length chosen) (skipn k all)).
    { rewrite Esk. unfold chosen. destruct (0 <? n); [apply firstn_length_self|].
      symmetry. apply firstn_all. }
    assert (Hincl : incl chosen (map tf_file tdir)).
    { rewrite Htdir. intros x Hx. rewrite Hch in Hx. apply in_or_app. right. eapply in_skipn. eapply in_firstn. exact Hx. }
    pose proof (with_directives_files tdir chosen (tdir_NoDup all skipped Hfull tdir Htdir) Hincl) as Hmap.
    set (tfs := with_directives tdir chosen) in *.
    assert (Hlen : length tfs = length chosen) by (rewrite <- (map_length tf_file tfs), Hmap; reflexivity).
    assert (Htfs : map tf_file tfs = firstn (length tfs) (skipn k all)) by (rewrite Hmap, Hlen; exact Hch).
    destruct d as [j0 t0]. cbn [s_tbl s_journal] in *.
    destruct (apply_files_m hash hash_eqb HS TxAll tfs (mkSdb j0 t0) None fs3)
      as [[[[o c1] w1] fs4] es1] eqn:EX.
    destruct (apply_files_m_all_sim c Hc tfs (mkSdb j0 t0) None fs3 o c1 w1 fs4 es1 k a has HI Hn Htfs EX) as (-> & Hsim).
    cbn [cur s_tbl s_journal] in Hsim.
    destruct o.
    + specialize (Hsim eq_refl). destruct w1 as [wd|]; inversion Hex; subst; simpl; exact Hsim.
    + inversion Hex; subst. simpl. apply committed_sim_nil.
    + inversion Hex; subst. simpl. apply committed_sim_nil.
Qed.

(** any global mode *)
Lemma cli_apply_m_any_sim g c n (d : sdb) fs co d' fs' es :
  cfg_ok c -> (exists k a has, Inv (s_tbl d) k a has) ->
  cli_apply_m hash hash_eqb HS g c n tdir d fs = (co, d', fs', es) ->
  committed_sim (s_tbl d) (s_journal d) es (s_tbl d') (s_journal d').
Proof.
  intros Hc HI Hex. destruct g.
  - apply (cli_apply_m_dir_sim hash hash_eqb HS hash_eqb_spec all Hsorted skipped Hfull Hfresh tdir Htdir
             TxNone c n d fs co d' fs' es ltac:(discriminate) Hc HI Hex).
  - apply (cli_apply_m_dir_sim hash hash_eqb HS hash_eqb_spec all Hsorted skipped Hfull Hfresh tdir Htdir
             TxFile c n d fs co d' fs' es ltac:(discriminate) Hc HI Hex).
  - apply (cli_apply_m_all_sim c n d fs co d' fs' es Hc HI Hex).
Qed.

Definition mrun_any_ok (r : m_run) : Prop := mr_dir r = tdir.

Lemma m_history_any_sim : forall (rs : list m_run) (d : sdb) J D,
  Forall mrun_any_ok rs -> GInv (s_tbl d) J D ->
  let outs := m_history hash hash_eqb HS rs d in
  exists irs, Forall run_ok irs /\
    final_tbl hash (run_all irs (s_tbl d)) (s_tbl d) = s_tbl (m_final hash outs d) /\
    s_journal (m_final hash outs d) = s_journal d ++ journal (all_events hash (run_all irs (s_tbl d))) /\
    wf_all hash (run_all irs (s_tbl d)) <= m_wf hash outs.
Proof.
  induction rs as [|r rs IH]; intros d J D Hok HG.
  - simpl. exists []. split; [constructor|]. simpl. split; [reflexivity|]. split; [rewrite app_nil_r; reflexivity|].
    unfold wf_all, m_wf. simpl. lia.
  - inversion Hok as [|? ? Hd Hok']; subst.
    cbn [m_history]. unfold mrun_any_ok in Hd. rewrite Hd.
    destruct (cli_apply_m hash hash_eqb HS (mr_mode r) m_cfg (mr_n r) tdir d (mr_faults r))
      as [[[co d1] fs1] es1] eqn:EX.
    assert (HIe : exists k a has, Inv (s_tbl d) k a has).
    { destruct HG as (k & a & has & e & dd & HI & _). eauto. }
    destruct (cli_apply_m_any_sim (mr_mode r) m_cfg (mr_n r) d (mr_faults r) co d1 fs1 es1 m_cfg_ok HIe EX)
      as (irs1 & Hok1 & Hft1 & Hj1 & Hwf1).
    destruct (runs_ginv hash hash_eqb HS hash_eqb_spec all Hsorted skipped Hfull Hfresh irs1 (s_tbl d) J D Hok1 HG)
      as (HG1 & _).
    rewrite Hft1 in HG1.
    destruct (IH d1 _ _ Hok' HG1) as (irs2 & Hok2 & Hft2 & Hj2 & Hwf2).
    unfold m_events, m_final, m_wf in *. cbn [flat_map fold_left map fst snd].
    exists (irs1 ++ irs2). split; [apply Forall_app; split; assumption|].
    rewrite (run_all_app hash hash_eqb HS), Hft1.
    unfold all_events, final_tbl, wf_all in *.
    rewrite flat_map_app, fold_left_app, map_app, list_sum_app, Hft1, Hft2.
    split; [reflexivity|]. split; [rewrite Hj2, Hj1, journal_app, app_assoc; reflexivity|].
    unfold list_sum in *. cbn [fold_right] in *. lia.
Qed.

Lemma resume_store_any_lemma (rs : list m_run) :
  Forall mrun_any_ok rs ->
  let outs := m_history hash hash_eqb HS rs (mkSdb [] []) in
  exists P E reps,
    P <= E /\ E <= P + 1 /\ E <= length (plan all) /\ length reps = E /\
    s_journal (m_final hash outs (mkSdb [] [])) = expand (firstn E (plan all)) reps /\
    list_sum reps <= m_wf hash outs /\
    claimed_plan hash all (s_tbl (m_final hash outs (mkSdb [] []))) = firstn P (plan all).
Proof.
  intros Hok outs.
  destruct (m_history_any_sim rs (mkSdb [] []) [] 0 Hok (GInv_nil hash HS all)) as (irs & Hoki & Hft & Hj & Hwf).
  fold outs in Hj, Hft, Hwf. cbn [s_tbl s_journal app] in *.
  destruct (resume_lemma hash hash_eqb HS hash_eqb_spec all Hsorted skipped Hfull Hfresh irs Hoki)
    as (P & E & reps & H1 & H2 & H3 & H4 & H5 & H6 & H7).
  exists P, E, reps. rewrite Hft in H7.
  repeat (split; [assumption|]). split; [rewrite Hj; exact H5|].
  split; [lia|exact H7].
Qed.

End Dir.

Section Full.
Variable tfull : list tfile.
Hypothesis Hfs : sorted_files (map tf_file tfull).
Notation all := (from_last_ckpt (map tf_file tfull)).

Definition mrun_any_on (r : m_run) : Prop := mr_dir r = tfull.

Lemma resume_store_any_full (rs : list m_run) :
  Forall mrun_any_on rs ->
  let outs := m_history hash hash_eqb HS rs (mkSdb [] []) in
  exists P E reps,
    P <= E /\ E <= P + 1 /\ E <= length (plan all) /\ length reps = E /\
    s_journal (m_final hash outs (mkSdb [] [])) = expand (firstn E (plan all)) reps /\
    list_sum reps <= m_wf hash outs /\
    claimed_plan hash all (s_tbl (m_final hash outs (mkSdb [] []))) = firstn P (plan all).
Proof.
  intros Hok. destruct (full_split (map tf_file tfull) Hfs) as (sk & Efull & Hs1 & Hs2 & Hfr).
  exact (resume_store_any_lemma all Hs1 sk Hs2 Hfr tfull Efull rs Hok).
Qed.

End Full.
End StoreAll.
