(** M-PEND: executable model of [Executor.Pending], [ExecuteN], and the
    directory helpers it uses ([SkipCheckpointFiles], [FilesLastIndex],
    [FilesFromLastCheckpoint], [slices.BinarySearchFunc]) -- transcribed from
    sql/migrate/migrate.go and sql/migrate/dir.go, control flow kept
    (including [fallthrough], [idx++] and the [first] window).

    Input [all] is what [Dir.Files()] returns (sorted by name), each file
    carrying the version the code extracts from the name. Directory
    validation ([ValidateDir]) is not part of this model (it is C06's).
    No proofs here. *)
From Coq Require Import List NArith Bool Arith.
From Atlas Require Import Base.Bytes Exec.ExecModel.
Import ListNotations.

Inductive order := Linear | LinearSkip | NonLinear.

Record cfg := mkCfg {
  c_order : order;
  c_baseline : option bytes;   (* WithBaselineVersion *)
  c_allow_dirty : bool;        (* WithAllowDirty *)
  c_dirty : bool               (* what Driver.CheckClean says about the database *)
}.

Inductive presult :=
| PFiles (fs : list file)
| PNoPending                    (* ErrNoPendingFiles *)
| PNotClean                     (* NotCleanError, no baseline / allow-dirty *)
| PBaselineNotFound
| PMissing (v : bytes)          (* MissingMigrationError *)
| PNonLinear (skipped pending : list file)   (* HistoryNonLinearError *)
| PWriteErr.                    (* baseline revision write failed *)

Section Pending.
Variable hash : Type.
Notation rev := (rev hash).

Definition skip_checkpoints (all : list file) : list file :=
  filter (fun f => negb (f_ckpt f)) all.

(** [FilesLastIndex]: index of the last element satisfying [p]. *)
Fixpoint last_index_from (p : file -> bool) (l : list file) (i : nat) (acc : option nat) : option nat :=
  match l with
  | [] => acc
  | f :: l' => last_index_from p l' (S i) (if p f then Some i else acc)
  end.
Definition files_last_index (p : file -> bool) (l : list file) : option nat :=
  last_index_from p l 0 None.

(** [slices.IndexFunc]: index of the first element satisfying [p]. *)
Fixpoint index_func (p : file -> bool) (l : list file) : option nat :=
  match l with
  | [] => None
  | f :: l' => if p f then Some 0 else option_map S (index_func p l')
  end.

(** [slices.BinarySearchFunc] over keys, as implemented in Go's slices package:
    [for i < j { h := (i+j)/2; if cmp(x[h], target) < 0 { i = h+1 } else { j = h } }]
    returns [(i, i < n && x[i] == target)]. It is *not* membership on unsorted input. *)
Fixpoint bsearch_loop (fuel : nat) (keys : list bytes) (target : bytes) (i j : nat) : nat :=
  match fuel with
  | O => i
  | S fuel' =>
      if i <? j then
        let h := (i + j) / 2 in
        match nth_error keys h with
        | Some k => if bytes_ltb k target then bsearch_loop fuel' keys target (S h) j
                    else bsearch_loop fuel' keys target i h
        | None => i
        end
      else i
  end.
Definition bsearch (keys : list bytes) (target : bytes) : nat * bool :=
  let n := length keys in
  let i := bsearch_loop (S n) keys target 0 n in
  (i, match nth_error keys i with Some k => bytes_eqb k target | None => false end).

Definition last_opt {A} (l : list A) : option A :=
  match l with [] => None | _ => nth_error l (length l - 1) end.

(** [FilesFromLastCheckpoint] for a CheckpointDir (LocalDir, MemDir). *)
Definition files_from_last_checkpoint (all : list file) : list file :=
  match files_last_index f_ckpt all with
  | None => all
  | Some i => skipn i all
  end.

Definition baseline_rev (v : bytes) : rev := mkRev v 0 0 [] false 1%N.

(** The test of the loop over [migrations[first:idx]] (as fixed: C11-nonlinear-partial-not-resumed):
    [if i, found := slices.BinarySearchFunc(revs, f, ...); !found || revs[i].Applied != revs[i].Total]
    -- the file was never applied, or only partially. *)
Definition out_of_order (revs : list rev) (f : file) : bool :=
  let '(i, found) := bsearch (map (@r_version hash) revs) (f_version f) in
  negb found || match nth_error revs i with
                | Some r => negb (r_applied r =? r_total r)
                | None => false
                end.

(** [Executor.Pending]. Returns the decision and, when a baseline revision
    must be written, that revision (the caller performs the write). *)
Definition pending (c : cfg) (all : list file) (revs : list rev)
  : presult * option rev :=
  let migrations := skip_checkpoints all in
  let finish (p : list file) := match p with [] => PNoPending | _ => PFiles p end in
  match last_opt revs with
  | None =>
      (* first run *)
      if c_dirty c && negb (c_allow_dirty c) && (match c_baseline c with None => true | Some _ => false end)
      then (PNotClean, None)
      else match c_baseline c with
           | Some bv =>
               match files_last_index (fun f => bytes_eqb (f_version f) bv) migrations with
               | None => (PBaselineNotFound, None)
               | Some b => (finish (skipn (S b) migrations), Some (baseline_rev bv))
               end
           | None => (finish (files_from_last_checkpoint all), None)
           end
  | Some last =>
      let partially := negb (r_applied last =? r_total last) in
      let ckpt_case :=
        if partially && negb (length all =? 0) then
          let '(idx, found) := bsearch (map f_version all) (r_version last) in
          if found then
            match nth_error all idx with
            | Some f => if f_ckpt f then Some (f :: skip_checkpoints (skipn idx all)) else None
            | None => None
            end
          else None
        else None in
      match ckpt_case with
      | Some p => (PFiles p, None)
      | None =>
          match migrations with
          | [] => (PNoPending, None)
          | _ =>
              let fn := if partially
                        then (fun f => bytes_eqb (f_version f) (r_version last))
                        else (fun f => bytes_leb (f_version f) (r_version last)) in
              match files_last_index fn migrations with
              | None => if partially then (PMissing (r_version last), None)
                        else (PFiles migrations, None)
              | Some idx0 =>
                  let idx := if partially then idx0 else S idx0 in
                  let pend := skipn idx migrations in
                  let first_v := match revs with r0 :: _ => r_version r0 | [] => [] end in
                  match index_func (fun f => bytes_leb first_v (f_version f)) (firstn idx migrations) with
                  | Some first =>
                      if (first <? idx) && negb (match c_order c with LinearSkip => true | _ => false end) then
                        let window := skipn first (firstn idx migrations) in
                        let skipped := filter (out_of_order revs) window in
                        match skipped, c_order c with
                        | [], _ => (finish pend, None)
                        | _, NonLinear => (finish (skipped ++ pend), None)
                        | _, Linear => (PNonLinear skipped pend, None)
                        | _, LinearSkip => (finish pend, None)
                        end
                      else (finish pend, None)
                  | None => (finish pend, None)
                  end
              end
          end
      end
  end.

End Pending.

Arguments pending {hash}.
Arguments out_of_order {hash}.
Arguments baseline_rev {hash}.
