(** Single-run proofs about [run_stmts] / [execute] / [exec_files] (C09, parts 1-3).

    1. [stops]: the first failing call ends the run (any table, any file).
    2. the closed form of the event list of one [execute] on a file whose
       stored revision is absent or [recorded] for the same statements
       ([exec_shape]); from it
    3. [justified] (no successful write claims more than was executed),
       positions, and the one-step characterisation [execute_spec]. *)
From Coq Require Import List NArith Bool Arith Lia.
From Atlas Require Import Base.Bytes Base.ListX Exec.ExecModel Exec.ExecProofs.
Import ListNotations.

(** Failed bookkeeping writes that immediately follow a successful statement. *)
Fixpoint wf_from {hash : Type} (prev : bool) (es : list (event hash)) : nat :=
  match es with
  | [] => 0
  | EExec _ _ _ ok :: es' => wf_from ok es'
  | EWrite _ ok :: es' => (if prev && negb ok then 1 else 0) + wf_from false es'
  end.
Definition wf {hash : Type} (es : list (event hash)) : nat := wf_from false es.

Definition ev_ok {hash : Type} (e : event hash) : bool :=
  match e with EExec _ _ _ ok => ok | EWrite _ ok => ok end.
Definition all_ok {hash : Type} (es : list (event hash)) : Prop :=
  Forall (fun e => ev_ok e = true) es.

(** What may follow a failed event: nothing, or -- after a failed statement --
    the single deferred bookkeeping write. *)
Definition after_fail {hash : Type} (e : event hash) (es : list (event hash)) : Prop :=
  es = [] \/ exists v i s r ok, e = EExec v i s false /\ es = [EWrite r ok].

Fixpoint stops {hash : Type} (es : list (event hash)) : Prop :=
  match es with
  | [] => True
  | e :: es' => (ev_ok e = false -> after_fail e es') /\ stops es'
  end.

Section Step.
Variable hash : Type.
Variable hash_eqb : hash -> hash -> bool.
Variable HS : bytes -> hash.
Hypothesis hash_eqb_spec : forall a b, hash_eqb a b = true <-> a = b.

Notation rev := (rev hash).
Notation event := (event hash).
Notation sums := (sums hash HS).
Notation check_loop := (check_loop hash hash_eqb).
Notation execute := (execute hash hash_eqb HS).
Notation exec_files := (exec_files hash hash_eqb HS).
Notation run_stmts := (run_stmts hash).
Notation recorded := (recorded hash HS).

(** ** generic list facts *)
Lemma positions_app (a b : list event) : positions (a ++ b) = positions a ++ positions b.
Proof.
  induction a as [|e a IH]; simpl; [reflexivity|].
  destruct e as [v i s [|]|r ok]; simpl; rewrite IH; reflexivity.
Qed.

Lemma wf_from_le (es : list event) : wf_from false es <= wf_from true es.
Proof. destruct es as [|[v i s ok|r ok] es]; simpl; [lia|lia|]. destruct ok; simpl; lia. Qed.

Lemma wf_from_app (p : bool) (a b : list event) : wf_from p a + wf b <= wf_from p (a ++ b).
Proof.
  revert p; induction a as [|e a IH]; intros p; simpl.
  - unfold wf. destruct p; [apply wf_from_le|lia].
  - destruct e as [v i s ok|r ok].
    + apply IH.
    + specialize (IH false). lia.
Qed.

Lemma wf_app (a b : list event) : wf a + wf b <= wf (a ++ b).
Proof. apply wf_from_app. Qed.

Lemma wf_from_no_wfail (p : bool) (es : list event) :
  (forall r, ~ In (EWrite r false) es) -> wf_from p es = 0.
Proof.
  revert p; induction es as [|e es IH]; intros p H; simpl; [reflexivity|].
  destruct e as [v i s ok|r ok].
  - apply IH. intros r Hr. apply (H r). right; exact Hr.
  - destruct ok.
    + rewrite andb_false_r. simpl. apply IH. intros r' Hr. apply (H r'). right; exact Hr.
    + exfalso. apply (H r). left; reflexivity.
Qed.

(** ** 1. stop on fault *)
Lemma stops_app_ok (a b : list event) : all_ok a -> stops b -> stops (a ++ b).
Proof.
  intros Ha Hb. induction Ha as [|e a He Ha IH]; simpl; [exact Hb|].
  split; [intros Hf; congruence|exact IH].
Qed.

Lemma stops_last (a : list event) e : all_ok a -> stops (a ++ [e]).
Proof.
  intros Ha. apply stops_app_ok; [exact Ha|]. simpl. split; [intros _; left; reflexivity|exact I].
Qed.

Lemma stops_split (es : list event) :
  stops es -> forall es1 e es2, es = es1 ++ e :: es2 -> ev_ok e = false -> after_fail e es2.
Proof.
  intros Hs es1. revert es Hs.
  induction es1 as [|x es1 IH]; intros es Hs e es2 E Hf; subst es; simpl in Hs.
  - destruct Hs as [H _]. apply H; exact Hf.
  - destruct Hs as [_ H]. eapply IH; [exact H|reflexivity|exact Hf].
Qed.

Lemma after_fail_no_exec (e : event) es : after_fail e es -> exec_events es = [].
Proof.
  intros [->|(v & i & s & r & ok & _ & ->)]; reflexivity.
Qed.

(** Shape of the event list of the statement loop, by outcome. *)
Definition tail_shape (o : outcome) (es : list event) : Prop :=
  match o with
  | ODone => all_ok es
  | OStmtErr => exists es0 v i s, es = es0 ++ [EExec v i s false] /\ all_ok es0
  | _ => exists es0 e, es = es0 ++ [e] /\ all_ok es0
  end.

Lemma tail_shape_cons2 o (e1 e2 : event) es :
  ev_ok e1 = true -> ev_ok e2 = true -> tail_shape o es -> tail_shape o (e1 :: e2 :: es).
Proof.
  intros H1 H2. destruct o; simpl.
  - intros H. constructor; [exact H1|]. constructor; [exact H2|exact H].
  - intros (es0 & v & i & s & -> & Hok). exists (e1 :: e2 :: es0), v, i, s.
    split; [reflexivity|]. constructor; [exact H1|]. constructor; [exact H2|exact Hok].
  - intros (es0 & e & -> & Hok). exists (e1 :: e2 :: es0), e.
    split; [reflexivity|]. constructor; [exact H1|]. constructor; [exact H2|exact Hok].
  - intros (es0 & e & -> & Hok). exists (e1 :: e2 :: es0), e.
    split; [reflexivity|]. constructor; [exact H1|]. constructor; [exact H2|exact Hok].
  - intros (es0 & e & -> & Hok). exists (e1 :: e2 :: es0), e.
    split; [reflexivity|]. constructor; [exact H1|]. constructor; [exact H2|exact Hok].
Qed.

Lemma run_stmts_tail v rest : forall srest r t fs o r' t' fs' es,
  run_stmts v rest srest r t fs = (o, r', t', fs', es) -> tail_shape o es.
Proof.
  induction rest as [|s rest IH]; intros srest r t fs o r' t' fs' es H; simpl in H.
  - inversion H; subst. constructor.
  - destruct (pop fs) as [fail fs1]. destruct fail.
    + inversion H; subst. eexists [], _, _, _. split; [reflexivity|constructor].
    + destruct srest as [|h srest].
      * inversion H; subst. eexists [], _. split; [reflexivity|constructor].
      * destruct (write t fs1 (step_applied r h)) as [[[ok t2] fs2] e] eqn:W.
        apply write_ok_inv in W as (He & _).
        destruct ok.
        -- destruct (run_stmts v rest srest (step_applied r h) t2 fs2) as [[[[o2 r2] t3] fs3] es2] eqn:R.
           inversion H; subst. apply IH in R.
           apply tail_shape_cons2; [reflexivity|reflexivity|exact R].
        -- inversion H; subst.
           eexists [_], _.
           split; [reflexivity|]. constructor; [reflexivity|constructor].
Qed.

Lemma execute_tail f t fs o t' fs' es :
  execute f t fs = (o, t', fs', es) -> stops es /\ (o = ODone -> all_ok es).
Proof.
  intros Hex. unfold ExecModel.execute in Hex.
  set (stmts := f_stmts f) in *.
  set (r0 := match tbl_get t (f_version f) with Some r => r | None => new_rev (f_version f) (length stmts) end) in *.
  destruct (write t fs r0) as [[[ok t1] fs1] e1] eqn:W1.
  apply write_ok_inv in W1 as (He1 & _).
  destruct ok; simpl in Hex.
  2:{ inversion Hex; subst. split; [|discriminate]. simpl. split; [intros _; left; reflexivity|exact I]. }
  assert (ev_ok e1 = true) as Hok1 by (subst e1; reflexivity).
  destruct (if 0 <? r_applied r0 then check_loop (r_applied r0) 0 (sums stmts) (r_hashes r0) else Some None)
    as [[c|]|] eqn:CL.
  - destruct (write t1 fs1 r0) as [[[ok2 t2] fs2] e2] eqn:W2.
    inversion Hex; subst o t' fs' es. split; [|discriminate].
    apply (stops_last [e1] e2). constructor; [exact Hok1|constructor].
  - destruct (length stmts <? r_applied r0) eqn:Hlt.
    { inversion Hex; subst o t' fs' es. split; [|discriminate].
      apply (stops_last [] e1). constructor. }
    destruct (run_stmts (f_version f) (skipn (r_applied r0) stmts) (skipn (r_applied r0) (sums stmts))
                (set_total r0 (length stmts)) t1 fs1) as [[[[o2 r2] t2] fs2] es2] eqn:R.
    apply run_stmts_tail in R.
    destruct o2; simpl in R.
    + destruct (write t2 fs2 (set_hashes r2 [])) as [[[ok3 t3] fs3] e3] eqn:W3.
      apply write_ok_inv in W3 as (He3 & _).
      inversion Hex; subst o t' fs' es. split.
      * apply (stops_last (e1 :: es2) e3). constructor; [exact Hok1|exact R].
      * intros Ho. destruct ok3; [|discriminate]. constructor; [exact Hok1|].
        apply Forall_app. split; [exact R|]. constructor; [subst e3; reflexivity|constructor].
    + destruct (write t2 fs2 r2) as [[[ok3 t3] fs3] e3] eqn:W3.
      apply write_ok_inv in W3 as (He3 & _).
      inversion Hex; subst o t' fs' es. split; [|discriminate].
      destruct R as (es0 & v & i & s & -> & Hok0).
      rewrite <- app_assoc. simpl.
      apply (stops_app_ok (e1 :: es0)); [constructor; [exact Hok1|exact Hok0]|].
      simpl. split.
      * intros _. right. exists v, i, s, r2, ok3. split; [reflexivity|]. subst e3; reflexivity.
      * split; [intros _; left; reflexivity|exact I].
    + inversion Hex; subst o t' fs' es. split; [|discriminate].
      destruct R as (es0 & e & -> & Hok0).
      apply (stops_last (e1 :: es0) e). constructor; [exact Hok1|exact Hok0].
    + inversion Hex; subst o t' fs' es. split; [|discriminate].
      destruct R as (es0 & e & -> & Hok0).
      apply (stops_last (e1 :: es0) e). constructor; [exact Hok1|exact Hok0].
    + inversion Hex; subst o t' fs' es. split; [|discriminate].
      destruct R as (es0 & e & -> & Hok0).
      apply (stops_last (e1 :: es0) e). constructor; [exact Hok1|exact Hok0].
  - inversion Hex; subst o t' fs' es. split; [|discriminate].
    apply (stops_last [] e1). constructor.
Qed.

Lemma exec_files_tail files : forall t fs o t' fs' es,
  exec_files files t fs = (o, t', fs', es) -> stops es /\ (o = ODone -> all_ok es).
Proof.
  induction files as [|f rest IH]; intros t fs o t' fs' es H; simpl in H.
  - inversion H; subst. split; [exact I|intros _; constructor].
  - destruct (execute f t fs) as [[[o1 t1] fs1] es1] eqn:E1.
    apply execute_tail in E1 as [Hs1 Hd1].
    destruct o1;
      try (inversion H; subst o t' fs' es; split; [exact Hs1|discriminate]).
    destruct (exec_files rest t1 fs1) as [[[o2 t2] fs2] es2] eqn:E2.
    apply IH in E2 as [Hs2 Hd2]. inversion H; subst o t' fs' es.
    split; [apply stops_app_ok; auto|]. intros Ho. apply Forall_app; split; [apply Hd1; reflexivity|apply Hd2; exact Ho].
Qed.

(** ** 2. closed form of the statement loop *)
Lemma skipn_cons_inv {A} (l : list A) k x rest :
  skipn k l = x :: rest -> nth_error l k = Some x /\ skipn (S k) l = rest.
Proof.
  revert k; induction l as [|y l IH]; intros [|k] H; simpl in *; try discriminate.
  - inversion H; subst. split; reflexivity.
  - apply IH in H. exact H.
Qed.

Section Shape.
Variable v : bytes.
Variable n : nat.
Variable kind : N.
Variable sm : list hash.
Variable stmts : list bytes.
Hypothesis Hsm : length sm = length stmts.

(** The revision written after statement number [j - 1]. *)
Definition rv (j : nat) : rev := mkRev v j n (firstn j sm) false kind.

(** [c] fully successful steps (statement, then bookkeeping write) from position [a]. *)
Fixpoint okrun (a c : nat) : list event :=
  match c with
  | 0 => []
  | S c' =>
      match nth_error stmts a with
      | Some s => EExec v a s true :: EWrite (rv (S a)) true :: okrun (S a) c'
      | None => []
      end
  end.

Lemma okrun_positions a c :
  a + c <= length stmts -> positions (okrun a c) = map (pair v) (seq a c).
Proof.
  clear Hsm. revert a; induction c as [|c IH]; intros a H; simpl; [reflexivity|].
  destruct (nth_error_some_lt stmts a) as [s Hs]; [lia|]. rewrite Hs. simpl.
  rewrite IH by lia. reflexivity.
Qed.

Lemma okrun_all_ok a c : all_ok (okrun a c).
Proof.
  revert a; induction c as [|c IH]; intros a; simpl; [constructor|].
  destruct (nth_error stmts a); [|constructor].
  constructor; [reflexivity|]. constructor; [reflexivity|apply IH].
Qed.

Lemma okrun_wf p a c tl :
  a + c <= length stmts ->
  wf_from p (okrun a c ++ tl) = wf_from (if c =? 0 then p else false) tl.
Proof.
  clear Hsm. revert p a; induction c as [|c IH]; intros p a H; simpl; [reflexivity|].
  destruct (nth_error_some_lt stmts a) as [s Hs]; [lia|]. rewrite Hs. simpl.
  rewrite IH by lia. destruct (c =? 0); reflexivity.
Qed.

Definition cur_of (r : rev) (c : nat) : rev := if c =? 0 then r else rv (r_applied r + c).

Lemma cur_of_rv j c : cur_of (rv j) c = rv (j + c).
Proof.
  unfold cur_of. destruct c as [|c]; simpl; [rewrite Nat.add_0_r|]; reflexivity.
Qed.

Lemma run_stmts_shape : forall rest srest r t fs o r' t' fs' es,
  r_version r = v -> r_total r = n -> r_kind r = kind ->
  r_applied r <= length stmts ->
  rest = skipn (r_applied r) stmts -> srest = skipn (r_applied r) sm ->
  r_hashes r = firstn (r_applied r) sm ->
  run_stmts v rest srest r t fs = (o, r', t', fs', es) ->
  exists c, r_applied r + c <= length stmts /\
    t' = (if c =? 0 then t else tbl_put t (rv (r_applied r + c))) /\
    ((o = ODone /\ r_applied r + c = length stmts /\ es = okrun (r_applied r) c /\ r' = cur_of r c) \/
     (exists s, o = OStmtErr /\ nth_error stmts (r_applied r + c) = Some s /\
                es = okrun (r_applied r) c ++ [EExec v (r_applied r + c) s false] /\
                r' = set_err (cur_of r c) true) \/
     (exists s, o = OWriteErr /\ nth_error stmts (r_applied r + c) = Some s /\
                es = okrun (r_applied r) c ++
                     [EExec v (r_applied r + c) s true; EWrite (rv (S (r_applied r + c))) false])) /\
    (fs = [] -> o = ODone /\ fs' = []).
Proof.
  induction rest as [|s rest IH]; intros srest r t fs o r' t' fs' es Hv Ht Hk Ha Hrest Hsrest Hh H;
    simpl in H.
  - inversion H; subst o r' t' fs' es.
    assert (r_applied r = length stmts) as Ea.
    { assert (length (skipn (r_applied r) stmts) = 0) as L by (rewrite <- Hrest; reflexivity).
      rewrite skipn_length in L. lia. }
    exists 0. rewrite Nat.add_0_r. split; [lia|]. split; [reflexivity|].
    split; [left; repeat split; auto|]. intros ->. split; reflexivity.
  - symmetry in Hrest. apply skipn_cons_inv in Hrest as [Hnth Hrest'].
    assert (r_applied r < length stmts) as Hlt by (apply nth_error_Some; congruence).
    destruct (pop fs) as [fail fs1] eqn:Pp. destruct fail.
    + inversion H; subst o r' t' fs' es.
      exists 0. rewrite Nat.add_0_r. split; [lia|]. split; [reflexivity|].
      split.
      * right; left. exists s. repeat split; auto.
      * intros ->. simpl in Pp. discriminate.
    + destruct (nth_error_some_lt sm (r_applied r)) as [h Hh']; [lia|].
      rewrite (skipn_nth_cons _ _ _ Hh') in Hsrest. subst srest.
      assert (step_applied r h = rv (S (r_applied r))) as Estep.
      { unfold step_applied, rv. rewrite Hv, Ht, Hk, Hh. rewrite (firstn_S_snoc _ _ _ Hh'). reflexivity. }
      rewrite Estep in H.
      destruct (write t fs1 (rv (S (r_applied r)))) as [[[ok t2] fs2] e] eqn:W.
      apply write_ok_inv in W as (He & Hok & Hfail & Hokv & Hfs2).
      destruct ok.
      * destruct (run_stmts v rest (skipn (S (r_applied r)) sm) (rv (S (r_applied r))) t2 fs2)
          as [[[[o2 r2] t3] fs3] es2] eqn:R.
        inversion H; subst o r' t' fs' es. clear H.
        pose proof (IH (skipn (S (r_applied r)) sm) (rv (S (r_applied r))) t2 fs2 o2 r2 t3 fs3 es2
                      eq_refl eq_refl eq_refl Hlt (eq_sym Hrest') eq_refl eq_refl R)
          as (c & Hc & Ht3 & Hcases & Hnf).
        change (r_applied (rv (S (r_applied r)))) with (S (r_applied r)) in *.
        rewrite cur_of_rv in Hcases.
        assert (forall c, S (r_applied r) + c = r_applied r + S c) as Eadd by (intros; lia).
        rewrite !Eadd in *.
        exists (S c). split; [lia|]. split.
        { cbn [Nat.eqb]. rewrite Ht3, (Hok eq_refl).
          destruct (c =? 0) eqn:Ec.
          - apply Nat.eqb_eq in Ec. subst c. rewrite <- Eadd, Nat.add_0_r. reflexivity.
          - apply tbl_put_put. reflexivity. }
        split.
        { assert (okrun (r_applied r) (S c) =
                  EExec v (r_applied r) s true :: e :: okrun (S (r_applied r)) c) as Eok.
          { simpl. rewrite Hnth, He. reflexivity. }
          destruct Hcases as [(Ho & Hy & Hes & Hr')|[(s' & Ho & Hn & Hes & Hr')|(s' & Ho & Hn & Hes)]].
          - left. repeat split; auto. rewrite Eok, Hes. reflexivity.
          - right; left. exists s'. repeat split; auto. rewrite Eok, Hes. reflexivity.
          - right; right. exists s'. repeat split; auto. rewrite Eok, Hes. reflexivity. }
        intros ->. simpl in Pp. inversion Pp; subst fs1. simpl in Hfs2. apply Hnf. exact Hfs2.
      * inversion H; subst o r' t' fs' es. clear H.
        exists 0. rewrite Nat.add_0_r. split; [lia|]. split; [apply Hfail; reflexivity|].
        split.
        -- right; right. exists s. repeat split; auto. simpl. rewrite He. reflexivity.
        -- intros ->. simpl in Pp. inversion Pp; subst fs1. simpl in Hokv. discriminate.
Qed.

End Shape.

(** ** 3. one [execute] on a file whose stored revision is absent or recorded *)
Section OneFile.
Variable f : file.
Variable t : list rev.
Variable r0 : rev.

(** [r0] is what [Execute] starts from: a fresh revision, or the stored one,
    which records a prefix of the file's current statements. *)
Definition pre : Prop :=
  (tbl_get t (f_version f) = None /\ r0 = new_rev (f_version f) (length (f_stmts f))) \/
  (tbl_get t (f_version f) = Some r0 /\ recorded r0 (f_stmts f)).
Hypothesis Hpre : pre.

Local Notation fv := (f_version f).
Local Notation fstmts := (f_stmts f).
Local Notation fn := (length (f_stmts f)).
Local Notation fsm := (sums (f_stmts f)).
Local Notation a0 := (r_applied r0).
Local Notation RV := (rv (f_version f) (length (f_stmts f)) (r_kind r0) (sums (f_stmts f))).
Local Notation OK := (okrun (f_version f) (length (f_stmts f)) (r_kind r0) (sums (f_stmts f)) (f_stmts f)).

Lemma pre_version : r_version r0 = fv.
Proof.
  destruct Hpre as [[_ ->]|[Hg _]]; [reflexivity|]. eapply tbl_get_version; exact Hg.
Qed.

Lemma pre_applied : a0 <= fn.
Proof. destruct Hpre as [[_ ->]|[_ [Hk _]]]; [simpl; lia|exact Hk]. Qed.

Lemma pre_hashes : r_hashes r0 = firstn a0 fsm.
Proof. destruct Hpre as [[_ ->]|[_ [_ Hh]]]; [reflexivity|exact Hh]. Qed.

Lemma pre_r0 : r0 = match tbl_get t fv with Some r => r | None => new_rev fv fn end.
Proof. destruct Hpre as [[-> ->]|[-> _]]; reflexivity. Qed.

Lemma pre_put r : r_version r = fv -> tbl_put (tbl_put t r0) r = tbl_put t r.
Proof. intros E. apply tbl_put_put. rewrite pre_version, E. reflexivity. Qed.

Lemma pre_check :
  (if 0 <? a0 then check_loop a0 0 fsm (r_hashes r0) else Some None) = Some None.
Proof.
  destruct (0 <? a0); [|reflexivity]. apply (check_loop_same hash hash_eqb hash_eqb_spec). intros j Hj.
  pose proof pre_applied as Ha. rewrite sums_length. split; [lia|].
  rewrite pre_hashes, nth_error_firstn by lia. reflexivity.
Qed.

(** in-memory revision / last successfully stored revision after [c] full steps *)
Definition cur (c : nat) : rev := if c =? 0 then set_total r0 fn else RV (a0 + c).
Definition sto (c : nat) : rev := if c =? 0 then r0 else RV (a0 + c).

Inductive exec_shape (o : outcome) (t' : list rev) (es : list event) : Prop :=
| SFirst : o = OWriteErr -> t' = t -> es = [EWrite r0 false] -> exec_shape o t' es
| SDone (c : nat) (ok3 : bool) : a0 + c = fn -> o = (if ok3 then ODone else OWriteErr) ->
    es = EWrite r0 true :: OK a0 c ++ [EWrite (set_hashes (cur c) []) ok3] ->
    t' = tbl_put t (if ok3 then set_hashes (cur c) [] else sto c) -> exec_shape o t' es
| SStmt (c : nat) (s : bytes) (ok3 : bool) : nth_error fstmts (a0 + c) = Some s -> o = OStmtErr ->
    es = EWrite r0 true :: OK a0 c ++ [EExec fv (a0 + c) s false; EWrite (set_err (cur c) true) ok3] ->
    t' = tbl_put t (if ok3 then set_err (cur c) true else sto c) -> exec_shape o t' es
| SWrite (c : nat) (s : bytes) : nth_error fstmts (a0 + c) = Some s -> o = OWriteErr ->
    es = EWrite r0 true :: OK a0 c ++ [EExec fv (a0 + c) s true; EWrite (RV (S (a0 + c))) false] ->
    t' = tbl_put t (sto c) -> exec_shape o t' es.

Lemma cur_version c : r_version (cur c) = fv.
Proof. unfold cur. destruct (c =? 0); [apply pre_version|reflexivity]. Qed.

Lemma sto_version c : r_version (sto c) = fv.
Proof. unfold sto. destruct (c =? 0); [apply pre_version|reflexivity]. Qed.

Lemma execute_shape fs o t' fs' es :
  execute f t fs = (o, t', fs', es) ->
  exec_shape o t' es /\ (fs = [] -> o = ODone /\ fs' = []).
Proof.
  intros Hex. unfold ExecModel.execute in Hex. cbv zeta in Hex. rewrite <- pre_r0 in Hex.
  destruct (write t fs r0) as [[[ok t1] fs1] e1] eqn:W1.
  apply write_ok_inv in W1 as (He1 & Hok1 & Hfail1 & Hokv1 & Hfs1).
  destruct ok; cbn [negb] in Hex.
  2:{ inversion Hex; subst o t' fs' es. split; [apply SFirst; [reflexivity|apply Hfail1; reflexivity|rewrite He1; reflexivity]|].
      intros ->. simpl in Hokv1. discriminate. }
  rewrite pre_check in Hex.
  change (r_applied (set_total r0 fn)) with a0 in Hex.
  assert (fn <? a0 = false) as Hlt by (apply Nat.ltb_ge; apply pre_applied).
  rewrite Hlt in Hex.
  destruct (run_stmts fv (skipn a0 fstmts) (skipn a0 fsm) (set_total r0 fn) t1 fs1)
    as [[[[o2 r2] t2] fs2] es2] eqn:R.
  pose proof (run_stmts_shape fv fn (r_kind r0) fsm fstmts (sums_length hash HS fstmts)
                (skipn a0 fstmts) (skipn a0 fsm) (set_total r0 fn) t1 fs1 o2 r2 t2 fs2 es2
                pre_version eq_refl eq_refl pre_applied eq_refl eq_refl pre_hashes R)
    as (c & Hc & Ht2 & Hcases & Hnf).
  change (r_applied (set_total r0 fn)) with a0 in *.
  fold (cur c) in Hcases.
  assert (t2 = tbl_put t (sto c)) as Et2.
  { rewrite Ht2, (Hok1 eq_refl). unfold sto. destruct (c =? 0); [reflexivity|].
    apply pre_put. reflexivity. }
  assert (fs = [] -> fs1 = []) as Hfs by (intros ->; rewrite Hfs1; reflexivity).
  destruct Hcases as [(Ho & Hy & Hes & Hr')|[(s' & Ho & Hn & Hes & Hr')|(s' & Ho & Hn & Hes)]];
    subst o2.
  - destruct (write t2 fs2 (set_hashes r2 [])) as [[[ok3 t3] fs3] e3] eqn:W3.
    apply write_ok_inv in W3 as (He3 & Hok3 & Hfail3 & Hokv3 & Hfs3).
    inversion Hex; subst o t' fs' es. split.
    + apply (SDone _ _ _ c ok3); auto.
      * rewrite He1, Hes, He3, Hr'. reflexivity.
      * destruct ok3.
        -- rewrite (Hok3 eq_refl), Et2, Hr'. apply tbl_put_put.
           rewrite sto_version. simpl. rewrite cur_version. reflexivity.
        -- rewrite (Hfail3 eq_refl). exact Et2.
    + intros Hf. destruct (Hnf (Hfs Hf)) as [_ ->]. simpl in Hokv3, Hfs3. subst ok3 fs3. split; reflexivity.
  - destruct (write t2 fs2 r2) as [[[ok3 t3] fs3] e3] eqn:W3.
    apply write_ok_inv in W3 as (He3 & Hok3 & Hfail3 & Hokv3 & Hfs3).
    inversion Hex; subst o t' fs' es. split.
    + apply (SStmt _ _ _ c s' ok3); auto.
      * rewrite He1, Hes, He3, Hr', <- app_assoc. reflexivity.
      * destruct ok3.
        -- rewrite (Hok3 eq_refl), Et2, Hr'. apply tbl_put_put.
           rewrite sto_version. simpl. rewrite cur_version. reflexivity.
        -- rewrite (Hfail3 eq_refl). exact Et2.
    + intros Hf. destruct (Hnf (Hfs Hf)) as [D _]. discriminate.
  - inversion Hex; subst o t' fs' es. split.
    + apply (SWrite _ _ _ c s'); auto. rewrite He1, Hes. reflexivity.
    + intros Hf. destruct (Hnf (Hfs Hf)) as [D _]. discriminate.
Qed.

End OneFile.

(** *** consequences of the closed form *)
Section Consequences.
Variable f : file.
Variable t : list rev.
Variable r0 : rev.
Hypothesis Hpre : pre f t r0.

Local Notation fv := (f_version f).
Local Notation fstmts := (f_stmts f).
Local Notation fn := (length (f_stmts f)).
Local Notation fsm := (sums (f_stmts f)).
Local Notation a0 := (r_applied r0).
Local Notation RV := (rv (f_version f) (length (f_stmts f)) (r_kind r0) (sums (f_stmts f))).
Local Notation OK := (okrun (f_version f) (length (f_stmts f)) (r_kind r0) (sums (f_stmts f)) (f_stmts f)).
Local Notation curc := (cur f r0).
Local Notation stoc := (sto f r0).

(** A revision that claims exactly [m] statements of [f], with the right hashes
    (none once the file is complete). *)
Definition claim_ok (r : rev) (m : nat) : Prop :=
  r_version r = fv /\ r_applied r = m /\ m <= fn /\
  (r_hashes r = firstn m fsm \/ (m = fn /\ r_hashes r = [])).

(** Every event is justified by what ran before it ([cnt] = statements of this
    [execute] that succeeded so far): a statement event is statement number
    [Applied + cnt] of the file, a write event claims exactly [Applied + cnt]. *)
Fixpoint justified (cnt : nat) (es : list event) : Prop :=
  match es with
  | [] => True
  | EExec v i s ok :: es' =>
      (v = fv /\ i = a0 + cnt /\ nth_error fstmts i = Some s) /\
      justified (if ok then S cnt else cnt) es'
  | EWrite r ok :: es' => claim_ok r (a0 + cnt) /\ justified cnt es'
  end.

Lemma justified_split : forall es1 es cnt e es2,
  justified cnt es -> es = es1 ++ e :: es2 ->
  match e with
  | EExec v i s ok => v = fv /\ i = a0 + cnt + length (positions es1) /\ nth_error fstmts i = Some s
  | EWrite r ok => claim_ok r (a0 + cnt + length (positions es1))
  end.
Proof.
  induction es1 as [|x es1 IH]; intros es cnt e es2 Hj E; subst es; simpl in Hj.
  - simpl. rewrite Nat.add_0_r. destruct e as [v i s ok|r ok]; destruct Hj as [H _]; exact H.
  - destruct x as [v i s ok|r ok]; destruct Hj as [_ Hj].
    + specialize (IH _ _ e es2 Hj eq_refl). destruct ok; simpl.
      * replace (a0 + cnt + S (length (positions es1))) with (a0 + S cnt + length (positions es1)) by lia.
        exact IH.
      * exact IH.
    + exact (IH _ _ e es2 Hj eq_refl).
Qed.

Lemma cur_claim c : a0 + c <= fn -> claim_ok (curc c) (a0 + c).
Proof.
  intros H. unfold cur. destruct (c =? 0) eqn:E.
  - apply Nat.eqb_eq in E. subst c. rewrite Nat.add_0_r in *.
    repeat split; [apply (pre_version f t r0 Hpre)|exact H|left; apply (pre_hashes f t r0 Hpre)].
  - repeat split; [exact H|left; reflexivity].
Qed.

Lemma sto_claim c : a0 + c <= fn -> claim_ok (stoc c) (a0 + c).
Proof.
  intros H. unfold sto. destruct (c =? 0) eqn:E.
  - apply Nat.eqb_eq in E. subst c. rewrite Nat.add_0_r in *.
    repeat split; [apply (pre_version f t r0 Hpre)|exact H|left; apply (pre_hashes f t r0 Hpre)].
  - repeat split; [exact H|left; reflexivity].
Qed.

Lemma justified_okrun : forall c cnt tl,
  a0 + cnt + c <= fn -> justified (cnt + c) tl -> justified cnt (OK (a0 + cnt) c ++ tl).
Proof.
  induction c as [|c IH]; intros cnt tl H Hj.
  - rewrite Nat.add_0_r in Hj. exact Hj.
  - simpl. destruct (nth_error_some_lt fstmts (a0 + cnt)) as [s Hs]; [lia|]. rewrite Hs.
    simpl. split; [repeat split; exact Hs|]. split.
    + repeat split; unfold rv; cbn [r_applied r_version r_hashes]; try lia. left. f_equal. lia.
    + replace (S (a0 + cnt)) with (a0 + S cnt) by lia. apply IH; [lia|].
      replace (S cnt + c) with (cnt + S c) by lia. exact Hj.
Qed.

Lemma shape_justified o t' es : exec_shape f t r0 o t' es -> justified 0 es.
Proof.
  pose proof (pre_applied f t r0 Hpre) as Ha.
  assert (claim_ok r0 (a0 + 0)) as C0.
  { rewrite Nat.add_0_r. repeat split;
      [apply (pre_version f t r0 Hpre)|exact Ha|left; apply (pre_hashes f t r0 Hpre)]. }
  intros [Ho Ht Hes|c ok3 Hc Ho Hes Ht|c s ok3 Hn Ho Hes Ht|c s Hn Ho Hes Ht]; subst es.
  - simpl. split; [exact C0|exact I].
  - simpl. split; [exact C0|].
    pose proof (justified_okrun c 0 [EWrite (set_hashes (curc c) []) ok3]) as J.
    rewrite Nat.add_0_r in J. apply J; [lia|]. simpl. split; [|exact I].
    destruct (cur_claim c) as (Hv & Hap & _ & _); [lia|].
    repeat split; simpl; auto; lia.
  - assert (a0 + c < fn) as Hlt by (apply nth_error_Some; congruence).
    simpl. split; [exact C0|].
    pose proof (justified_okrun c 0 [EExec fv (a0 + c) s false; EWrite (set_err (curc c) true) ok3]) as J.
    rewrite Nat.add_0_r in J. apply J; [lia|]. simpl. split; [repeat split; exact Hn|].
    split; [|exact I]. destruct (cur_claim c) as (Hv & Hap & Hle & Hh); [lia|].
    repeat split; simpl; auto.
  - assert (a0 + c < fn) as Hlt by (apply nth_error_Some; congruence).
    simpl. split; [exact C0|].
    pose proof (justified_okrun c 0 [EExec fv (a0 + c) s true; EWrite (RV (S (a0 + c))) false]) as J.
    rewrite Nat.add_0_r in J. apply J; [lia|]. simpl. split; [repeat split; exact Hn|].
    split; [|exact I]. repeat split; unfold rv; cbn [r_applied r_version r_hashes]; try lia. left. f_equal. lia.
Qed.

Lemma justified_positions : forall es cnt,
  justified cnt es -> positions es = map (pair fv) (seq (a0 + cnt) (length (positions es))).
Proof.
  induction es as [|e es IH]; intros cnt Hj; [reflexivity|].
  destruct e as [v i s ok|r ok]; simpl in Hj; destruct Hj as [Hx Hj].
  - destruct ok; simpl.
    + destruct Hx as (-> & -> & _). f_equal. rewrite (IH _ Hj) at 1.
      replace (a0 + S cnt) with (S (a0 + cnt)) by lia. reflexivity.
    + apply IH; exact Hj.
  - simpl. apply IH; exact Hj.
Qed.

Lemma shape_positions c tl :
  a0 + c <= fn ->
  positions (EWrite r0 true :: OK a0 c ++ tl) = map (pair fv) (seq a0 c) ++ positions tl.
Proof.
  intros H. simpl. rewrite positions_app, okrun_positions by exact H. reflexivity.
Qed.

Lemma shape_wf c tl :
  a0 + c <= fn -> wf (EWrite r0 true :: OK a0 c ++ tl) = wf_from false tl.
Proof.
  intros H. unfold wf. simpl. rewrite okrun_wf by exact H. destruct (c =? 0); reflexivity.
Qed.

Lemma shape_all_ok c tl : all_ok (EWrite r0 true :: OK a0 c ++ tl) <-> all_ok tl.
Proof.
  split.
  - intros H. inversion H as [|x l _ H']; subst. apply Forall_app in H'. apply H'.
  - intros H. constructor; [reflexivity|]. apply Forall_app. split; [apply okrun_all_ok|exact H].
Qed.

(** One-step characterisation. [c] statements ran successfully (positions
    [a0 .. a0+c-1]); afterwards the stored revision claims [a'] statements. *)
Hypothesis Htot : r_total r0 = fn.

Lemma shape_spec o t' es :
  exec_shape f t r0 o t' es ->
  exists c a',
    a0 <= a' /\ a' <= a0 + c /\ a0 + c <= a' + 1 /\ a0 + c <= fn /\
    positions es = map (pair fv) (seq a0 c) /\
    wf es = a0 + c - a' /\
    ((t' = t /\ tbl_get t fv = None /\ es = [EWrite r0 false] /\ c = 0 /\ a' = 0 /\ a0 = 0) \/
     (exists r', t' = tbl_put t r' /\ claim_ok r' a' /\ r_total r' = fn)) /\
    (o = ODone -> a' = fn /\ all_ok es) /\
    (all_ok es -> o = ODone).
Proof.
  pose proof (pre_applied f t r0 Hpre) as Ha.
  assert (forall c, r_total (curc c) = fn) as Tcur.
  { intros c. unfold cur. destruct (c =? 0); reflexivity. }
  assert (forall c, r_total (stoc c) = fn) as Tsto.
  { intros c. unfold sto. destruct (c =? 0); [exact Htot|reflexivity]. }
  intros [Ho Ht Hes|c ok3 Hc Ho Hes Ht|c s ok3 Hn Ho Hes Ht|c s Hn Ho Hes Ht]; subst es.
  - (* the first write failed *)
    exists 0, a0. rewrite Nat.add_0_r.
    split; [lia|]. split; [lia|]. split; [lia|]. split; [exact Ha|].
    split; [reflexivity|]. split; [unfold wf; simpl; lia|].
    split.
    + destruct Hpre as [[Hg Hr]|[Hg Hrec]].
      * left. subst r0. simpl. repeat split; auto.
      * right. exists r0. split; [rewrite (tbl_put_same _ _ _ _ Hg); exact Ht|].
        split; [|exact Htot]. pose proof (sto_claim 0) as C. rewrite Nat.add_0_r in C. apply C. exact Ha.
    + subst o. split; [discriminate|]. intros H. inversion H as [|x l Hx _]; subst. discriminate.
  - (* all statements ran; deferred write [ok3] *)
    exists c, fn.
    split; [lia|]. split; [lia|]. split; [lia|]. split; [lia|].
    split; [rewrite shape_positions by lia; simpl; apply app_nil_r|].
    split; [rewrite shape_wf by lia; simpl; lia|].
    split.
    + right. destruct ok3.
      * exists (set_hashes (curc c) []). split; [exact Ht|].
        destruct (cur_claim c) as (Hv & Hap & _ & _); [lia|].
        split; [|apply Tcur]. repeat split; simpl; auto; lia.
      * exists (stoc c). split; [exact Ht|]. split; [|apply Tsto].
        rewrite <- Hc. apply sto_claim. lia.
    + split.
      * intros ->. destruct ok3; [|discriminate]. split; [reflexivity|].
        apply shape_all_ok. constructor; [reflexivity|constructor].
      * intros H. apply shape_all_ok in H. inversion H as [|x l Hx _]; subst.
        simpl in Hx. subst ok3. reflexivity.
  - (* a statement failed *)
    assert (a0 + c < fn) as Hlt by (apply nth_error_Some; congruence).
    exists c, (a0 + c).
    split; [lia|]. split; [lia|]. split; [lia|]. split; [lia|].
    split; [rewrite shape_positions by lia; simpl; apply app_nil_r|].
    split; [rewrite shape_wf by lia; simpl; lia|].
    split.
    + right. destruct ok3.
      * exists (set_err (curc c) true). split; [exact Ht|].
        destruct (cur_claim c) as (Hv & Hap & Hle & Hh); [lia|].
        split; [|apply Tcur]. repeat split; simpl; auto.
      * exists (stoc c). split; [exact Ht|]. split; [|apply Tsto]. apply sto_claim. lia.
    + subst o. split; [discriminate|]. intros H. apply shape_all_ok in H.
      inversion H as [|x l Hx _]; subst. discriminate.
  - (* the write after a statement failed *)
    assert (a0 + c < fn) as Hlt by (apply nth_error_Some; congruence).
    exists (S c), (a0 + c).
    split; [lia|]. split; [lia|]. split; [lia|]. split; [lia|].
    split.
    { rewrite shape_positions by lia. simpl positions. rewrite seq_S, map_app. reflexivity. }
    split; [rewrite shape_wf by lia; simpl; lia|].
    split.
    + right. exists (stoc c). split; [exact Ht|]. split; [|apply Tsto]. apply sto_claim. lia.
    + subst o. split; [discriminate|]. intros H. apply shape_all_ok in H.
      inversion H as [|x l _ H']; subst. inversion H' as [|x' l' Hx _]; subst. discriminate.
Qed.

End Consequences.

(** ** the statements exported to Props_C09 *)

Lemma never_overclaims_lemma f t r0 fs o t' fs' es :
  pre f t r0 -> execute f t fs = (o, t', fs', es) ->
  (forall es1 r ok es2, es = es1 ++ EWrite r ok :: es2 ->
     claim_ok f r (r_applied r0 + length (positions es1))) /\
  (forall es1 v i s ok es2, es = es1 ++ EExec v i s ok :: es2 ->
     v = f_version f /\ i = r_applied r0 + length (positions es1) /\
     nth_error (f_stmts f) i = Some s) /\
  positions es = map (pair (f_version f)) (seq (r_applied r0) (length (positions es))).
Proof.
  intros Hpre Hex. apply (execute_shape f t r0 Hpre) in Hex as [Hsh _].
  apply (shape_justified f t r0 Hpre) in Hsh.
  split; [|split].
  - intros es1 r ok es2 E.
    pose proof (justified_split f r0 es1 es 0 (EWrite r ok) es2 Hsh E) as H.
    rewrite Nat.add_0_r in H. exact H.
  - intros es1 v i s ok es2 E.
    pose proof (justified_split f r0 es1 es 0 (EExec v i s ok) es2 Hsh E) as H.
    rewrite Nat.add_0_r in H. exact H.
  - pose proof (justified_positions f r0 es 0 Hsh) as H. rewrite Nat.add_0_r in H. exact H.
Qed.

Lemma stop_on_fault_execute f t fs o t' fs' es :
  execute f t fs = (o, t', fs', es) ->
  (forall es1 e es2, es = es1 ++ e :: es2 -> ev_ok e = false ->
     after_fail e es2 /\ exec_events es2 = []) /\
  (o = ODone -> all_ok es).
Proof.
  intros Hex. apply execute_tail in Hex as [Hs Hd]. split; [|exact Hd].
  intros es1 e es2 E Hf. pose proof (stops_split es Hs es1 e es2 E Hf) as H.
  split; [exact H|]. eapply after_fail_no_exec; exact H.
Qed.

Lemma stop_on_fault_files files t fs o t' fs' es :
  exec_files files t fs = (o, t', fs', es) ->
  (forall es1 e es2, es = es1 ++ e :: es2 -> ev_ok e = false ->
     after_fail e es2 /\ exec_events es2 = []) /\
  (o = ODone -> all_ok es).
Proof.
  intros Hex. apply exec_files_tail in Hex as [Hs Hd]. split; [|exact Hd].
  intros es1 e es2 E Hf. pose proof (stops_split es Hs es1 e es2 E Hf) as H.
  split; [exact H|]. eapply after_fail_no_exec; exact H.
Qed.

Lemma execute_spec f t r0 fs o t' fs' es :
  pre f t r0 -> r_total r0 = length (f_stmts f) ->
  execute f t fs = (o, t', fs', es) ->
  exists c a',
    r_applied r0 <= a' /\ a' <= r_applied r0 + c /\ r_applied r0 + c <= a' + 1 /\
    r_applied r0 + c <= length (f_stmts f) /\
    positions es = map (pair (f_version f)) (seq (r_applied r0) c) /\
    wf es = r_applied r0 + c - a' /\
    ((t' = t /\ tbl_get t (f_version f) = None /\ es = [EWrite r0 false] /\
      c = 0 /\ a' = 0 /\ r_applied r0 = 0) \/
     (exists r', t' = tbl_put t r' /\ claim_ok f r' a' /\ r_total r' = length (f_stmts f))) /\
    (forall v', v' <> f_version f -> tbl_get t' v' = tbl_get t v') /\
    (o = ODone -> a' = length (f_stmts f) /\ all_ok es) /\
    (all_ok es -> o = ODone) /\
    (fs = [] -> o = ODone /\ fs' = []).
Proof.
  intros Hpre Htot Hex. apply (execute_shape f t r0 Hpre) in Hex as [Hsh Hnf].
  destruct (shape_spec f t r0 Hpre Htot o t' es Hsh)
    as (c & a' & H1 & H2 & H3 & H4 & H5 & H6 & H7 & H8 & H9).
  exists c, a'. repeat (split; [assumption|]).
  split; [|split; [exact H8|split; [exact H9|exact Hnf]]].
  intros v' Hv'. destruct H7 as [(-> & _)|(r' & -> & (Hv & _) & _)]; [reflexivity|].
  apply tbl_get_put_other. congruence.
Qed.

End Step.
