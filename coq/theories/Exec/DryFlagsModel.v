(** M-TX part 2b: the flag validation of `atlas migrate apply` in front of [DryModel.migrate_apply].
    cmdapi/migrate_oss.go migrateApplyRun: mrrw.Migrate (the revisions table exists from here on),
    flags.migrateOptions, migrate.NewExecutor -- sql/migrate/migrate.go NewExecutor:
      if ex.baselineVer != "" && ex.allowDirty { return "baseline and allow-dirty are mutually exclusive" }
    -- and only then Executor.Pending and the loop. No proofs here. *)
From Coq Require Import List NArith Bool Arith.
From Atlas Require Import Base.Bytes Exec.ExecModel Exec.PendingModel Exec.RunModel Exec.TxModel Exec.DryModel.
Import ListNotations.

Inductive cmd_result :=
| CmdFlagsExclusive           (* NewExecutor refused --baseline together with --allow-dirty *)
| Cmd (o : aoutcome).

Section DryFlagsModel.
Variable hash : Type.
Variable hash_eqb : hash -> hash -> bool.
Variable HS : bytes -> hash.

Definition flags_exclusive (cf : cfg) : bool :=
  (match c_baseline cf with Some _ => true | None => false end) && c_allow_dirty cf.

Definition migrate_apply_cmd (dry : bool) (global : mode) (n : nat) (cf : cfg) (dir : list tfile) (d : cdb hash)
  : cmd_result * cdb hash :=
  if flags_exclusive cf then (CmdFlagsExclusive, mkCdb true (cd_db d))
  else let '(o, d') := migrate_apply hash hash_eqb HS dry global n cf dir d in (Cmd o, d').

End DryFlagsModel.
