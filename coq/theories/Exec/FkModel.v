(** M-TX, part 3: the foreign-key check at commit.

    sql/sqlite/driver.go: OpenTx, CommitFunc, violations, violationsDiff, contains.
    When the connection has foreign_keys on (`_fk=1`), [OpenTx] switches the
    pragma off, begins the transaction and records `PRAGMA foreign_key_check`
    ([before]); the commit function takes the check again ([after]) and, if
    [violationsDiff before after] is not empty, rolls the transaction back and
    returns "foreign key mismatch"; otherwise it commits. `atlas migrate apply`
    opens its per-file / per-run transactions through it (cmdapi/migrate.go:
    tx.driverFor -> Client.Tx), `atlas schema apply` too (schema.go: applyChanges).

    What `PRAGMA foreign_key_check` reports is the engine's business: it is a
    function [violations] of the effects present (Section variable; the theorems
    hold for every such function). The "new violation" predicate over the engine
    state is [commit_mismatch] and is decidable by construction.

    [apply_loop_fk] / [apply_run_fk] = [apply_loop] / [apply_run] of TxModel.v
    with this opener (the crash trace is dropped: C13 only). No proofs here. *)
From Coq Require Import List NArith ZArith Bool Arith.
From Atlas Require Import Base.Bytes Exec.ExecModel Exec.PendingModel Exec.RunModel Exec.TxModel Exec.DryModel.
Import ListNotations.

(** driver.go: type violation struct { tbl, ref string; row, index int } *)
Record violation := mkViol { v_tbl : bytes; v_row : Z; v_ref : bytes; v_index : Z }.

(** driver.go: contains *)
Definition contains (hs : list violation) (n : violation) : bool :=
  existsb (fun v => Z.eqb (v_row v) (v_row n) && bytes_eqb (v_ref v) (v_ref n)
                    && Z.eqb (v_index v) (v_index n) && bytes_eqb (v_tbl v) (v_tbl n)) hs.

(** driver.go: violationsDiff -- the violations of [v2] that are not in [v1] *)
Definition violationsDiff (v1 v2 : list violation) : list violation :=
  filter (fun v => negb (contains v1 v)) v2.

Definition is_nil {A} (l : list A) : bool := match l with [] => true | _ => false end.

Section Fk.
Variable hash : Type.
Variable hash_eqb : hash -> hash -> bool.
Variable HS : bytes -> hash.
(** PRAGMA foreign_key_check, as a function of the effects present *)
Variable violations : list bytes -> list violation.
(** PRAGMA foreign_keys of the connection *)
Variable fk : bool.
Notation db := (db hash).

(** An open transaction: its working copy and the violations recorded by OpenTx. *)
Record otx := mkOtx { o_w : db; o_before : list violation }.

(** OpenTx (CommitFunc's first half): [before] is taken only if foreign keys are on. *)
Definition open_tx (c : db) : otx :=
  mkOtx c (if fk then violations (d_journal c) else []).

(** The closure CommitFunc returns: [true] = "foreign key mismatch" (rolled back). *)
Definition commit_mismatch (t : otx) : bool :=
  fk && negb (is_nil (violationsDiff (o_before t) (violations (d_journal (o_w t))))).

Inductive foutcome :=
| FOut (o : aoutcome)      (* as in TxModel *)
| FFkMismatch.             (* tx.Commit() returned "sql/sqlite: foreign key mismatch" *)

(** migrateApplyRun's loop with the SQLite opener. *)
Fixpoint apply_loop_fk (global : mode) (files : list tfile) (c : db) (w : option otx)
  : foutcome * db * option otx :=
  match files with
  | [] => (FOut ADone, c, w)
  | f :: rest =>
      match mode_for global f with
      | None => (FOut ADirective, c, w)
      | Some TxNone =>
          let '(o, _, _, es) := execute hash hash_eqb HS (tf_file f) (d_tbl c)
                                        (bad_faults f (stored_applied hash (d_tbl c) (f_version (tf_file f)))) in
          let '(c', _) := run_direct hash es c in
          match o with
          | ODone => apply_loop_fk global rest c' w
          | _ => (FOut (AFail o), c', w)
          end
      | Some m =>
          let t0 := match w with Some x => x | None => open_tx c end in
          let w0 := o_w t0 in
          let '(o, _, _, es) := execute hash hash_eqb HS (tf_file f) (d_tbl w0)
                                        (bad_faults f (stored_applied hash (d_tbl w0) (f_version (tf_file f)))) in
          let '(w1, _) := run_in_tx hash es w0 c in
          let t1 := mkOtx w1 (o_before t0) in
          match o with
          | ODone =>
              match m with
              | TxFile =>
                  (* mayCommit -> tx.commit -> CommitFn *)
                  if commit_mismatch t1 then (FFkMismatch, c, None)
                  else apply_loop_fk global rest w1 None
              | _ => apply_loop_fk global rest c (Some t1)
              end
          | _ => (FOut (AFail o), c, None)   (* mayRollback -> RollbackFn *)
          end
      end
  end.

(** One `migrate apply [n]` on a SQLite target (cf. [apply_run]). *)
Definition apply_run_fk (global : mode) (n : nat) (dir : list tfile) (c : db) : foutcome * db :=
  let all := map tf_file dir in
  let cfg := mkCfg Linear None true true in
  match fst (pending cfg all (read_revisions hash (d_tbl c))) with
  | PFiles p =>
      let chosen := if 0 <? n then firstn n p else p in
      let tchosen := flat_map (fun f => filter (fun tf => bytes_eqb (f_version (tf_file tf)) (f_version f)) dir) chosen in
      let '(o, c1, w) := apply_loop_fk global tchosen c None in
      match o, w with
      | FOut ADone, Some t =>
          (* the final mux.commit() of mode all *)
          if commit_mismatch t then (FFkMismatch, c1) else (FOut ADone, o_w t)
      | _, _ => (o, c1)
      end
  | p => (FOut (APend p), c)
  end.

End Fk.

Arguments mkOtx {hash}.
Arguments o_w {hash}.
Arguments o_before {hash}.

(** `schema apply`: [apply_changes] of DryModel.v with the "new violation" input
    computed from the engine state before and after the plan. *)
Definition apply_changes_fk (violations : list bytes -> list violation)
           (txmode : mode) (stmts : list bytes) (bad : option nat) (d : sdb)
  : soutcome * sdb * list sevent :=
  apply_changes txmode stmts bad
    (negb (is_nil (violationsDiff (violations (s_effects d)) (violations (s_effects d ++ stmts))))) d.
