(** Proofs about the CLI layer of M-PEND ([StatusModel]): what
    [StatusReporter.Report], [migrate apply n] and [migrate set] do is a
    function of [Executor.Pending]'s decision. *)
From Coq Require Import List NArith Bool Arith Sorted Lia.
From Atlas Require Import Base.Bytes Exec.ExecModel Exec.PendingModel Exec.RunModel Exec.PendingProofs
  Exec.StatusModel.
Import ListNotations.

(** case-split on the innermost scrutinee first *)
Ltac flat x := lazymatch x with
  | context [if _ then _ else _] => fail
  | context [match _ with Some _ => _ | None => _ end] => fail
  | context [match _ with [] => _ | _ :: _ => _ end] => fail
  | context [match _ with (_, _) => _ end] => fail
  | _ => idtac end.

(** [Pending] never answers with an empty file list (it answers ErrNoPendingFiles). *)
Lemma pending_files_nonempty hash c all (revs : list (rev hash)) : fst (pending c all revs) <> PFiles [].
Proof.
  unfold pending. cbv zeta.
  assert (forall p : list file, match p with [] => PNoPending | _ :: _ => PFiles p end <> PFiles []) as F
    by (intros [|a p]; discriminate).
  assert (forall (a : file) p, PFiles (a :: p) <> PFiles []) as G by discriminate.
  repeat first
    [ apply F | apply G | discriminate | progress cbn [fst]
    | match goal with
      | |- context [match ?x with (_, _) => _ end] => flat x; destruct x
      | |- context [if ?x then _ else _] => flat x; destruct x
      | |- context [match ?x with Some _ => _ | None => _ end] => flat x; destruct x
      | |- context [match ?x with [] => _ | _ :: _ => _ end] => flat x; destruct x eqn:?
      | |- context [match ?x with Linear => _ | _ => _ end] => flat x; destruct x
      end ].
Qed.

Section StatusProofs.
Variable hash : Type.
Notation rev := (rev hash).

Definition lin (dirty : bool) : cfg := mkCfg Linear None false dirty.

(** The Count/Total rule of [Report] (last revision partially applied and not resolved). *)
Definition count_total (all : list file) (revs : list rev) (cnt tot : nat) : Prop :=
  match last_opt revs with
  | None => cnt = 0 /\ tot = 0
  | Some l =>
      if negb (is_resolved l) && (r_applied l <? r_total l)
      then cnt = r_applied l /\ exists f, In f all /\ f_version f = r_version l /\ tot = length (f_stmts f)
      else cnt = 0 /\ tot = 0
  end.

(** ** 1. no revisions table = empty table on a clean database *)
Lemma report_no_table dirty all (revs : list rev) :
  report false dirty all revs = report true false all [].
Proof.
  unfold report. cbn [negb]. cbv iota.
  unfold pending. cbn [last_opt c_dirty c_allow_dirty c_baseline andb negb fst].
  destruct (files_from_last_checkpoint all) as [|a l] eqn:E; reflexivity.
Qed.

(** ** 2. the fields are the stated functions of Pending's (linear) decision *)
Lemma pending_nil_not_nonlinear c all s p : fst (pending (hash := hash) c all []) <> PNonLinear s p.
Proof.
  unfold pending. cbn [last_opt].
  destruct (c_dirty c && negb (c_allow_dirty c) && _); [discriminate|].
  destruct (c_baseline c) as [bv|].
  - destruct (files_last_index _ _); [|discriminate]. cbn [fst].
    destruct (skipn _ _); discriminate.
  - cbn [fst]. destruct (files_from_last_checkpoint all); discriminate.
Qed.

Lemma fli_nth p l i : files_last_index p l = Some i -> exists f, nth_error l i = Some f /\ In f l /\ p f = true.
Proof.
  intros H. apply fli_Some in H as (l1 & f & l2 & -> & <- & Hp & _).
  exists f. split; [|split; [apply in_or_app; right; left; reflexivity|exact Hp]].
  rewrite nth_error_app2 by lia. rewrite Nat.sub_diag. reflexivity.
Qed.

Lemma report_fields dirty all (revs : list rev) s :
  report true dirty all revs = SOk s ->
  s_applied s = revs /\
  match fst (pending (lin dirty) all revs) with
  | PFiles p =>
      p <> [] /\ s_pending s = p /\ s_ooo s = [] /\ s_ok s = false /\
      s_next s = NextVer (f_version (hd (mkFile [] [] false) p)) /\
      s_available s = (match revs with [] => p | _ => all end) /\
      count_total all revs (s_count s) (s_total s)
  | PNoPending =>
      s_pending s = [] /\ s_ooo s = [] /\ s_ok s = true /\ s_next s = NextLatest /\
      s_available s = (match revs with [] => [] | _ => all end) /\
      count_total all revs (s_count s) (s_total s)
  | PNonLinear sk p =>
      s_pending s = p /\ s_ooo s = sk /\ s_ok s = false /\ s_next s = NextEmpty /\
      s_available s = [] /\ s_count s = 0 /\ s_total s = 0 /\
      exists l, last_opt revs = Some l /\ s_current s = CurVer (r_version l)
  | _ => False
  end.
Proof.
  unfold report. cbn [negb]. cbv iota. fold (lin dirty).
  assert (forall (available pend : list file),
    (revs = [] -> available = pend) -> (revs <> [] -> available = all) ->
    match (if length pend =? length available then Some CurNone
           else match last_opt revs with None => None | Some l => Some (CurVer (r_version l)) end) with
    | None => SPanic
    | Some current =>
        let ok := match pend with [] => true | _ => false end in
        let nxt := match pend with [] => NextLatest | f :: _ => NextVer (f_version f) end in
        match last_opt revs with
        | None => SOk (mkStatus available [] pend revs current nxt 0 0 ok false)
        | Some l =>
            if negb (is_resolved l) && (r_applied l <? r_total l) then
              match files_last_index (fun f => bytes_eqb (f_version f) (r_version l)) available with
              | None => SFileNotFound (r_version l)
              | Some idx =>
                  match nth_error available idx with
                  | None => SPanic
                  | Some f => SOk (mkStatus available [] pend revs current nxt
                                            (r_applied l) (length (f_stmts f)) ok (r_err l))
                  end
              end
            else SOk (mkStatus available [] pend revs current nxt 0 0 ok false)
        end
    end = SOk s ->
    s_applied s = revs /\ s_pending s = pend /\ s_ooo s = [] /\
    s_ok s = (match pend with [] => true | _ => false end) /\
    s_next s = (match pend with [] => NextLatest | f :: _ => NextVer (f_version f) end) /\
    s_available s = available /\ count_total all revs (s_count s) (s_total s)) as Tail.
  { intros available pend Hnil Hne. unfold count_total.
    destruct (if length pend =? length available then _ else _) as [current|]; [|discriminate].
    cbv zeta. destruct (last_opt revs) as [l|] eqn:El.
    - destruct (negb (is_resolved l) && (r_applied l <? r_total l)) eqn:Ep.
      + destruct (files_last_index _ available) as [idx|] eqn:Ei; [|discriminate].
        destruct (fli_nth _ _ _ Ei) as (f & Hn & Hin & Hp). rewrite Hn.
        intros H; injection H as <-. cbn. repeat split; try reflexivity.
        exists f. assert (revs <> []) as N by (intros ->; discriminate).
        rewrite (Hne N) in Hin. apply bytes_eqb_eq in Hp. auto.
      + intros H; injection H as <-. cbn. repeat split; reflexivity.
    - intros H; injection H as <-. cbn. repeat split; reflexivity. }
  destruct (fst (pending (lin dirty) all revs)) as [p| | | |v|sk p|] eqn:Ep; try discriminate.
  - (* PFiles *)
    intros H. assert (p <> []) as Pne.
    { intros ->. exact (pending_files_nonempty hash _ _ _ Ep). }
    apply Tail in H.
    + destruct H as (A & B & C & D & E & F & G). split; [exact A|].
      destruct p as [|f p]; [congruence|]. repeat split; assumption || discriminate.
    + intros ->. reflexivity.
    + intros N. destruct revs; [congruence|reflexivity].
  - (* PNoPending *)
    intros H. apply Tail in H.
    + destruct H as (A & B & C & D & E & F & G). split; [exact A|]. repeat split; assumption.
    + intros ->. reflexivity.
    + intros N. destruct revs; [congruence|reflexivity].
  - (* PNonLinear *)
    destruct (last_opt revs) as [l|] eqn:El; [|discriminate].
    intros H; injection H as <-. cbn. repeat split; try reflexivity. exists l. auto.
Qed.

(** ** 3. Report never panics; its errors are Pending's *)
Lemma report_no_panic has_table dirty all (revs : list rev) : report has_table dirty all revs <> SPanic.
Proof.
  destruct has_table; [|rewrite report_no_table].
  2:{ clear revs dirty. unfold report. cbn [negb]. cbv iota.
      destruct (fst (pending _ all [])) as [p| | | |v|sk p|] eqn:Ep; try discriminate.
      - rewrite Nat.eqb_refl. cbn. discriminate.
      - exfalso. exact (pending_nil_not_nonlinear _ _ _ _ Ep). }
  unfold report. cbn [negb]. cbv iota.
  destruct (fst (pending _ all revs)) as [p| | | |v|sk p|] eqn:Ep; try discriminate.
  - destruct revs as [|r0 tl] eqn:Er.
    + rewrite Nat.eqb_refl. cbn. discriminate.
    + rewrite <- Er. rewrite (last_opt_last hash revs r0) by (subst; discriminate).
      destruct (length p =? length all); cbv zeta;
      (destruct (negb _ && _); [|discriminate]);
      (destruct (files_last_index _ all) as [idx|] eqn:Ei; [|discriminate]);
      destruct (fli_nth _ _ _ Ei) as (f & -> & _); discriminate.
  - destruct revs as [|r0 tl] eqn:Er.
    + cbn. discriminate.
    + rewrite <- Er. rewrite (last_opt_last hash revs r0) by (subst; discriminate).
      destruct (length (@nil file) =? length all); cbv zeta;
      (destruct (negb _ && _); [|discriminate]);
      (destruct (files_last_index _ all) as [idx|] eqn:Ei; [|discriminate]);
      destruct (fli_nth _ _ _ Ei) as (f & -> & _); discriminate.
  - destruct revs as [|r0 tl] eqn:Er.
    + exfalso. exact (pending_nil_not_nonlinear _ _ _ _ Ep).
    + rewrite <- Er. rewrite (last_opt_last hash revs r0) by (subst; discriminate). discriminate.
Qed.

Lemma report_err dirty all (revs : list rev) e :
  report true dirty all revs = SErr e -> fst (pending (lin dirty) all revs) = e.
Proof.
  unfold report. cbn [negb]. cbv iota. fold (lin dirty).
  destruct (fst (pending (lin dirty) all revs)) as [p| | | |v|sk p|]; try (intros H; injection H as <-; reflexivity).
  - destruct (if length p =? _ then _ else _); [|discriminate]. cbv zeta.
    destruct (last_opt revs); [|discriminate]. destruct (negb _ && _); [|discriminate].
    destruct (files_last_index _ _); [|discriminate]. destruct (nth_error _ _); discriminate.
  - destruct (if length (@nil file) =? _ then _ else _); [|discriminate]. cbv zeta.
    destruct (last_opt revs); [|discriminate]. destruct (negb _ && _); [|discriminate].
    destruct (files_last_index _ _); [|discriminate]. destruct (nth_error _ _); discriminate.
  - destruct (last_opt revs); discriminate.
Qed.

(** ** 4. status agrees with the decision of apply under every execution order *)
Definition shows (r : presult) (s : mstatus hash) : Prop :=
  match r with
  | PFiles p => s_pending s = p /\ s_ooo s = []
  | PNoPending => s_pending s = [] /\ s_ooo s = []
  | PNonLinear sk p => s_pending s = p /\ s_ooo s = sk
  | _ => False
  end.

Lemma report_shows dirty all (revs : list rev) s :
  report true dirty all revs = SOk s -> shows (fst (pending (lin dirty) all revs)) s.
Proof.
  intros H. apply report_fields in H as [_ H]. unfold shows.
  destruct (fst (pending (lin dirty) all revs)); try exact H; tauto.
Qed.

Lemma shows_by_order o out X s :
  shows (by_order Linear out X) s -> by_order o out X = by_order o (s_ooo s) (s_pending s).
Proof.
  unfold by_order at 1. destruct out as [|a out].
  - destruct X as [|x X]; cbn; intros [-> ->]; reflexivity.
  - cbn. intros [-> ->]. reflexivity.
Qed.

Lemma shows_const o r s :
  (r = PNoPending \/ exists f l, r = PFiles (f :: l)) -> shows r s -> r = by_order o (s_ooo s) (s_pending s).
Proof.
  intros [->|(f & l & ->)]; cbn; intros [-> ->]; rewrite by_order_nil; reflexivity.
Qed.

Lemma status_agrees has_table dirty all (revs : list rev) s c :
  sorted_files all -> sorted_revs revs ->
  c_baseline c = None -> c_dirty c && negb (c_allow_dirty c) = false ->
  report has_table dirty all revs = SOk s ->
  fst (pending c all (if has_table then revs else [])) = by_order (c_order c) (s_ooo s) (s_pending s).
Proof.
  intros Hsa Hsr Hb Hd H.
  assert (forall dirty (revs : list rev), sorted_revs revs -> report true dirty all revs = SOk s ->
          fst (pending c all revs) = by_order (c_order c) (s_ooo s) (s_pending s)) as Main.
  { clear H Hsr revs dirty. intros dirty revs Hsr H. apply report_shows in H.
    destruct revs as [|r0 tl] eqn:Er.
    - rewrite (pending_refines hash c all [] Hsa Hsr).
      rewrite (pending_refines hash (lin dirty) all [] Hsa Hsr) in H.
      unfold pending_spec, first_spec in *. rewrite Hb, Hd. cbn [andb fst].
      cbn [lin c_dirty c_allow_dirty c_baseline negb andb] in H.
      destruct dirty; cbn [andb fst] in H; [destruct H|].
      apply shows_const; [|exact H].
      destruct (from_last_ckpt all) as [|f l]; [left; reflexivity|right; exists f, l; reflexivity].
    - rewrite <- Er in *. assert (revs <> []) as Hne by (subst; discriminate).
      rewrite (pending_hist_spec hash c all revs r0 Hsa Hsr Hne).
      rewrite (pending_hist_spec hash (lin dirty) all revs r0 Hsa Hsr Hne) in H.
      unfold hist_spec in *. cbv zeta in *. cbn [lin c_order] in H.
      destruct (r_applied (last revs r0) =? r_total (last revs r0)).
      + cbn [fst] in *. apply shows_by_order. exact H.
      + destruct (find _ all) as [g|].
        * destruct (f_ckpt g); cbn [fst] in *.
          -- apply shows_const; [right; eauto|exact H].
          -- apply shows_by_order. exact H.
        * destruct (existsb _ all); cbn [fst] in *; [destruct H|].
          apply shows_const; [left; reflexivity|exact H]. }
  destruct has_table.
  - exact (Main dirty revs Hsr H).
  - rewrite report_no_table in H. apply (Main false []); [constructor|exact H].
Qed.

(** ** 5. migrate apply [n] *)
Lemma firstn_apply_count {A} n (p : list A) :
  firstn (apply_count n (length p)) p = if 0 <? n then firstn n p else p.
Proof.
  unfold apply_count. destruct n as [|n]; cbn [Nat.eqb orb Nat.ltb Nat.leb].
  - apply firstn_all.
  - destruct (length p <=? S n) eqn:E.
    + rewrite firstn_all. symmetry. apply firstn_all2. apply Nat.leb_le. exact E.
    + reflexivity.
Qed.

Lemma apply_plan_first_n c n all (revs : list rev) p w :
  pending c all revs = (PFiles p, w) ->
  apply_plan c n all revs = (PFiles (if 0 <? n then firstn n p else p), w).
Proof. intros H. unfold apply_plan. rewrite H, firstn_apply_count. reflexivity. Qed.

Lemma apply_plan_error c n all (revs : list rev) r w :
  pending c all revs = (r, w) -> (forall p, r <> PFiles p) -> apply_plan c n all revs = (r, w).
Proof. intros H N. unfold apply_plan. rewrite H. destruct r; try reflexivity. destruct (N fs eq_refl). Qed.

End StatusProofs.
