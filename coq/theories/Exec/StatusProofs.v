(** Proofs about the CLI layer of M-PEND ([StatusModel]): what
    [StatusReporter.Report], [migrate apply n] and [migrate set] do is a
    function of [Executor.Pending]'s decision. *)
From Coq Require Import List NArith Bool Arith Sorted Lia.
From Atlas Require Import Base.Bytes Exec.ExecModel Exec.PendingModel Exec.RunModel Exec.PendingProofs
  Exec.StatusModel.
Import ListNotations.

(** case-split on the innermost scrutinee first *)
Ltac flat x := lazymatch x with
  | context [if _ then _ else _] => fail
  | context [match _ with Some _ => _ | None => _ end] => fail
  | context [match _ with [] => _ | _ :: _ => _ end] => fail
  | context [match _ with (_, _) => _ end] => fail
  | _ => idtac end.

(** [Pending] never answers with an empty file list (it answers ErrNoPendingFiles). *)
Lemma pending_files_nonempty hash c all (revs : list (rev hash)) : fst (pending c all revs) <> PFiles [].
Proof.
  unfold pending. cbv zeta.
  assert (forall p : list file, match p with [] => PNoPending | _ :: _ => PFiles p end <> PFiles []) as F
    by (intros [|a p]; discriminate).
  assert (forall (a : file) p, PFiles (a :: p) <> PFiles []) as G by discriminate.
  repeat first
    [ apply F | apply G | discriminate | progress cbn [fst]
    | match goal with
      | |- context [match ?x with (_, _) => _ end] => flat x; destruct x
      | |- context [if ?x then _ else _] => flat x; destruct x
      | |- context [match ?x with Some _ => _ | None => _ end] => flat x; destruct x
      | |- context [match ?x with [] => _ | _ :: _ => _ end] => flat x; destruct x eqn:?
      | |- context [match ?x with Linear => _ | _ => _ end] => flat x; destruct x
      end ].
Qed.

Section StatusProofs.
Variable hash : Type.
Notation rev := (rev hash).

Definition lin (dirty : bool) : cfg := mkCfg Linear None true dirty.

(** The Count/Total rule of [Report] (last revision partially applied and not resolved). *)
Definition count_total (all : list file) (revs : list rev) (cnt tot : nat) : Prop :=
  match last_opt revs with
  | None => cnt = 0 /\ tot = 0
  | Some l =>
      if negb (is_resolved l) && (r_applied l <? r_total l)
      then cnt = r_applied l /\ exists f, In f all /\ f_version f = r_version l /\ tot = length (f_stmts f)
      else cnt = 0 /\ tot = 0
  end.

(** ** 1. no revisions table = empty table, whatever else the database holds *)
Lemma report_no_table dirty dirty' all (revs : list rev) :
  report false dirty all revs = report true dirty' all [].
Proof.
  unfold report. cbn [negb]. cbv iota.
  unfold pending. cbn [last_opt c_dirty c_allow_dirty c_baseline andb negb fst].
  rewrite andb_false_r. cbn [andb fst].
  destruct (files_from_last_checkpoint all) as [|a l] eqn:E; reflexivity.
Qed.

(** ** 2. the fields are the stated functions of Pending's (linear) decision *)
Lemma pending_nil_not_nonlinear c all s p : fst (pending (hash := hash) c all []) <> PNonLinear s p.
Proof.
  unfold pending. cbn [last_opt].
  destruct (c_dirty c && negb (c_allow_dirty c) && _); [discriminate|].
  destruct (c_baseline c) as [bv|].
  - destruct (files_last_index _ _); [|discriminate]. cbn [fst].
    destruct (skipn _ _); discriminate.
  - cbn [fst]. destruct (files_from_last_checkpoint all); discriminate.
Qed.

Lemma fli_nth p l i : files_last_index p l = Some i -> exists f, nth_error l i = Some f /\ In f l /\ p f = true.
Proof.
  intros H. apply fli_Some in H as (l1 & f & l2 & -> & <- & Hp & _).
  exists f. split; [|split; [apply in_or_app; right; left; reflexivity|exact Hp]].
  rewrite nth_error_app2 by lia. rewrite Nat.sub_diag. reflexivity.
Qed.

Lemma report_fields dirty all (revs : list rev) s :
  report true dirty all revs = SOk s ->
  s_applied s = revs /\
  match fst (pending (lin dirty) all revs) with
  | PFiles p =>
      p <> [] /\ s_pending s = p /\ s_ooo s = [] /\ s_ok s = false /\
      s_next s = NextVer (f_version (hd (mkFile [] [] false) p)) /\
      s_available s = (match revs with [] => p | _ => all end) /\
      count_total all revs (s_count s) (s_total s)
  | PNoPending =>
      s_pending s = [] /\ s_ooo s = [] /\ s_ok s = true /\ s_next s = NextLatest /\
      s_available s = (match revs with [] => [] | _ => all end) /\
      count_total all revs (s_count s) (s_total s)
  | PNonLinear sk p =>
      s_pending s = p /\ s_ooo s = sk /\ s_ok s = false /\ s_next s = NextEmpty /\
      s_available s = [] /\ s_count s = 0 /\ s_total s = 0 /\
      exists l, last_opt revs = Some l /\ s_current s = CurVer (r_version l)
  | _ => False
  end.
Proof.
  unfold report. cbn [negb]. cbv iota. fold (lin dirty).
  assert (forall (available pend : list file),
    (revs = [] -> available = pend) -> (revs <> [] -> available = all) ->
    match (if length pend =? length available then Some CurNone
           else match last_opt revs with None => None | Some l => Some (CurVer (r_version l)) end) with
    | None => SPanic
    | Some current =>
        let ok := match pend with [] => true | _ => false end in
        let nxt := match pend with [] => NextLatest | f :: _ => NextVer (f_version f) end in
        match last_opt revs with
        | None => SOk (mkStatus available [] pend revs current nxt 0 0 ok false)
        | Some l =>
            if negb (is_resolved l) && (r_applied l <? r_total l) then
              match files_last_index (fun f => bytes_eqb (f_version f) (r_version l)) available with
              | None => SFileNotFound (r_version l)
              | Some idx =>
                  match nth_error available idx with
                  | None => SPanic
                  | Some f => SOk (mkStatus available [] pend revs current nxt
                                            (r_applied l) (length (f_stmts f)) ok (r_err l))
                  end
              end
            else SOk (mkStatus available [] pend revs current nxt 0 0 ok false)
        end
    end = SOk s ->
    s_applied s = revs /\ s_pending s = pend /\ s_ooo s = [] /\
    s_ok s = (match pend with [] => true | _ => false end) /\
    s_next s = (match pend with [] => NextLatest | f :: _ => NextVer (f_version f) end) /\
    s_available s = available /\ count_total all revs (s_count s) (s_total s)) as Tail.
  { intros available pend Hnil Hne. unfold count_total.
    destruct (if length pend =? length available then _ else _) as [current|]; [|discriminate].
    cbv zeta. destruct (last_opt revs) as [l|] eqn:El.
    - destruct (negb (is_resolved l) && (r_applied l <? r_total l)) eqn:Ep.
      + destruct (files_last_index _ available) as [idx|] eqn:Ei; [|discriminate].
        destruct (fli_nth _ _ _ Ei) as (f & Hn & Hin & Hp). rewrite Hn.
        intros H; injection H as <-. cbn. repeat split; try reflexivity.
        exists f. assert (revs <> []) as N by (intros ->; discriminate).
        rewrite (Hne N) in Hin. apply bytes_eqb_eq in Hp. auto.
      + intros H; injection H as <-. cbn. repeat split; reflexivity.
    - intros H; injection H as <-. cbn. repeat split; reflexivity. }
  destruct (fst (pending (lin dirty) all revs)) as [p| | | |v|sk p|] eqn:Ep; try discriminate.
  - (* PFiles *)
    intros H. assert (p <> []) as Pne.
    { intros ->. exact (pending_files_nonempty hash _ _ _ Ep). }
    apply Tail in H.
    + destruct H as (A & B & C & D & E & F & G). split; [exact A|].
      destruct p as [|f p]; [congruence|]. repeat split; assumption || discriminate.
    + intros ->. reflexivity.
    + intros N. destruct revs; [congruence|reflexivity].
  - (* PNoPending *)
    intros H. apply Tail in H.
    + destruct H as (A & B & C & D & E & F & G). split; [exact A|]. repeat split; assumption.
    + intros ->. reflexivity.
    + intros N. destruct revs; [congruence|reflexivity].
  - (* PNonLinear *)
    destruct (last_opt revs) as [l|] eqn:El; [|discriminate].
    intros H; injection H as <-. cbn. repeat split; try reflexivity. exists l. auto.
Qed.

(** ** 3. Report never panics; its errors are Pending's *)
Lemma report_no_panic has_table dirty all (revs : list rev) : report has_table dirty all revs <> SPanic.
Proof.
  destruct has_table; [|rewrite (report_no_table dirty false)].
  2:{ clear revs dirty. unfold report. cbn [negb]. cbv iota.
      destruct (fst (pending _ all [])) as [p| | | |v|sk p|] eqn:Ep; try discriminate.
      - rewrite Nat.eqb_refl. cbn. discriminate.
      - exfalso. exact (pending_nil_not_nonlinear _ _ _ _ Ep). }
  unfold report. cbn [negb]. cbv iota.
  destruct (fst (pending _ all revs)) as [p| | | |v|sk p|] eqn:Ep; try discriminate.
  - destruct revs as [|r0 tl] eqn:Er.
    + rewrite Nat.eqb_refl. cbn. discriminate.
    + rewrite <- Er. rewrite (last_opt_last hash revs r0) by (subst; discriminate).
      destruct (length p =? length all); cbv zeta;
      (destruct (negb _ && _); [|discriminate]);
      (destruct (files_last_index _ all) as [idx|] eqn:Ei; [|discriminate]);
      destruct (fli_nth _ _ _ Ei) as (f & -> & _); discriminate.
  - destruct revs as [|r0 tl] eqn:Er.
    + cbn. discriminate.
    + rewrite <- Er. rewrite (last_opt_last hash revs r0) by (subst; discriminate).
      destruct (length (@nil file) =? length all); cbv zeta;
      (destruct (negb _ && _); [|discriminate]);
      (destruct (files_last_index _ all) as [idx|] eqn:Ei; [|discriminate]);
      destruct (fli_nth _ _ _ Ei) as (f & -> & _); discriminate.
  - destruct revs as [|r0 tl] eqn:Er.
    + exfalso. exact (pending_nil_not_nonlinear _ _ _ _ Ep).
    + rewrite <- Er. rewrite (last_opt_last hash revs r0) by (subst; discriminate). discriminate.
Qed.

Lemma report_err dirty all (revs : list rev) e :
  report true dirty all revs = SErr e -> fst (pending (lin dirty) all revs) = e.
Proof.
  unfold report. cbn [negb]. cbv iota. fold (lin dirty).
  destruct (fst (pending (lin dirty) all revs)) as [p| | | |v|sk p|]; try (intros H; injection H as <-; reflexivity).
  - destruct (if length p =? _ then _ else _); [|discriminate]. cbv zeta.
    destruct (last_opt revs); [|discriminate]. destruct (negb _ && _); [|discriminate].
    destruct (files_last_index _ _); [|discriminate]. destruct (nth_error _ _); discriminate.
  - destruct (if length (@nil file) =? _ then _ else _); [|discriminate]. cbv zeta.
    destruct (last_opt revs); [|discriminate]. destruct (negb _ && _); [|discriminate].
    destruct (files_last_index _ _); [|discriminate]. destruct (nth_error _ _); discriminate.
  - destruct (last_opt revs); discriminate.
Qed.

(** ** 4. status agrees with the decision of apply under every execution order *)
Definition shows (r : presult) (s : mstatus hash) : Prop :=
  match r with
  | PFiles p => s_pending s = p /\ s_ooo s = []
  | PNoPending => s_pending s = [] /\ s_ooo s = []
  | PNonLinear sk p => s_pending s = p /\ s_ooo s = sk
  | _ => False
  end.

Lemma report_shows dirty all (revs : list rev) s :
  report true dirty all revs = SOk s -> shows (fst (pending (lin dirty) all revs)) s.
Proof.
  intros H. apply report_fields in H as [_ H]. unfold shows.
  destruct (fst (pending (lin dirty) all revs)); try exact H; tauto.
Qed.

Lemma shows_by_order o out X s :
  shows (by_order Linear out X) s -> by_order o out X = by_order o (s_ooo s) (s_pending s).
Proof.
  unfold by_order at 1. destruct out as [|a out].
  - destruct X as [|x X]; cbn; intros [-> ->]; reflexivity.
  - cbn. intros [-> ->]. reflexivity.
Qed.

Lemma shows_const o r s :
  (r = PNoPending \/ exists f l, r = PFiles (f :: l)) -> shows r s -> r = by_order o (s_ooo s) (s_pending s).
Proof.
  intros [->|(f & l & ->)]; cbn; intros [-> ->]; rewrite by_order_nil; reflexivity.
Qed.

Lemma status_agrees has_table dirty all (revs : list rev) s c :
  sorted_files all -> sorted_revs revs ->
  c_baseline c = None -> c_dirty c && negb (c_allow_dirty c) = false ->
  report has_table dirty all revs = SOk s ->
  fst (pending c all (if has_table then revs else [])) = by_order (c_order c) (s_ooo s) (s_pending s).
Proof.
  intros Hsa Hsr Hb Hd H.
  assert (forall dirty (revs : list rev), sorted_revs revs -> report true dirty all revs = SOk s ->
          fst (pending c all revs) = by_order (c_order c) (s_ooo s) (s_pending s)) as Main.
  { clear H Hsr revs dirty. intros dirty revs Hsr H. apply report_shows in H.
    destruct revs as [|r0 tl] eqn:Er.
    - rewrite (pending_refines hash c all [] Hsa Hsr).
      rewrite (pending_refines hash (lin dirty) all [] Hsa Hsr) in H.
      unfold pending_spec, first_spec in *. rewrite Hb, Hd. cbn [andb fst].
      cbn [lin c_dirty c_allow_dirty c_baseline negb andb] in H.
      rewrite andb_false_r in H. cbn [andb fst] in H.
      apply shows_const; [|exact H].
      destruct (from_last_ckpt all) as [|f l]; [left; reflexivity|right; exists f, l; reflexivity].
    - rewrite <- Er in *. assert (revs <> []) as Hne by (subst; discriminate).
      rewrite (pending_hist_spec hash c all revs r0 Hsa Hsr Hne).
      rewrite (pending_hist_spec hash (lin dirty) all revs r0 Hsa Hsr Hne) in H.
      unfold hist_spec in *. cbv zeta in *. cbn [lin c_order] in H.
      destruct (r_applied (last revs r0) =? r_total (last revs r0)).
      + cbn [fst] in *. apply shows_by_order. exact H.
      + destruct (find _ all) as [g|].
        * destruct (f_ckpt g); cbn [fst] in *.
          -- apply shows_const; [right; eauto|exact H].
          -- apply shows_by_order. exact H.
        * destruct (existsb _ all); cbn [fst] in *; [destruct H|].
          apply shows_const; [left; reflexivity|exact H]. }
  destruct has_table.
  - exact (Main dirty revs Hsr H).
  - rewrite (report_no_table dirty false) in H. apply (Main false []); [constructor|exact H].
Qed.

(** On a database without a revisions table the report starts at the LAST checkpoint. *)
Lemma report_fresh_checkpoint dirty (revs : list rev) pre ck rest :
  f_ckpt ck = true -> (forall f, In f rest -> f_ckpt f = false) ->
  report false dirty (pre ++ ck :: rest) revs =
  SOk (mkStatus (ck :: rest) [] (ck :: rest) [] CurNone (NextVer (f_version ck)) 0 0 false false).
Proof.
  intros Hck Hrest. rewrite (report_no_table dirty false). unfold report. cbn [negb]. cbv iota.
  destruct (first_run_checkpoint hash (lin false) eq_refl eq_refl) as [H _].
  fold (lin false). rewrite (H pre ck rest Hck Hrest). cbn [fst].
  rewrite Nat.eqb_refl. reflexivity.
Qed.

Lemma report_fresh_no_checkpoint dirty (revs : list rev) all :
  (forall f, In f all -> f_ckpt f = false) -> all <> [] ->
  report false dirty all revs =
  SOk (mkStatus all [] all [] CurNone (NextVer (f_version (hd (mkFile [] [] false) all))) 0 0 false false).
Proof.
  intros Hn Hne. rewrite (report_no_table dirty false). unfold report. cbn [negb]. cbv iota.
  destruct (first_run_checkpoint hash (lin false) eq_refl eq_refl) as [_ H].
  fold (lin false). rewrite (H all Hn). destruct all as [|a l]; [congruence|]. cbn [fst finish].
  rewrite Nat.eqb_refl. reflexivity.
Qed.

(** ** 5. migrate apply [n] *)
Lemma firstn_apply_count {A} n (p : list A) :
  firstn (apply_count n (length p)) p = if 0 <? n then firstn n p else p.
Proof.
  unfold apply_count. destruct n as [|n]; cbn [Nat.eqb orb Nat.ltb Nat.leb].
  - apply firstn_all.
  - destruct (length p <=? S n) eqn:E.
    + rewrite firstn_all. symmetry. apply firstn_all2. apply Nat.leb_le. exact E.
    + reflexivity.
Qed.

Lemma apply_plan_first_n c n all (revs : list rev) p w :
  pending c all revs = (PFiles p, w) ->
  apply_plan c n all revs = (PFiles (if 0 <? n then firstn n p else p), w).
Proof. intros H. unfold apply_plan. rewrite H, firstn_apply_count. reflexivity. Qed.

Lemma apply_plan_error c n all (revs : list rev) r w :
  pending c all revs = (r, w) -> (forall p, r <> PFiles p) -> apply_plan c n all revs = (r, w).
Proof. intros H N. unfold apply_plan. rewrite H. destruct r; try reflexivity. destruct (N fs eq_refl). Qed.

(** ** 6. migrate set *)

Lemma StronglySorted_app_intro {A} (R : A -> A -> Prop) l1 l2 :
  StronglySorted R l1 -> StronglySorted R l2 -> (forall a b, In a l1 -> In b l2 -> R a b) ->
  StronglySorted R (l1 ++ l2).
Proof.
  induction l1 as [|x l1 IH]; simpl; intros H1 H2 H; [exact H2|].
  inversion H1 as [|? ? Hs Hf]; subst. constructor.
  - apply IH; auto.
  - rewrite Forall_forall in *. intros y Hy. apply in_app_or in Hy as [Hy|Hy]; auto.
Qed.

(** after the loop every surviving row is completely applied *)
Lemma set_loop_In v (revs : list rev) r' :
  In r' (set_loop v revs) ->
  r_applied r' = r_total r' /\
  exists r, In r revs /\ bytes_leb (r_version r) v = true /\ r_version r' = r_version r.
Proof.
  unfold set_loop. rewrite in_flat_map. intros (r & Hr & H).
  destruct (bytes_ltb v (r_version r)) eqn:E; [destruct H|].
  apply bytes_ltb_false_leb in E.
  destruct (r_err r || negb (r_total r =? r_applied r)) eqn:C; destruct H as [<-|[]].
  - split; [reflexivity|]. exists r. auto.
  - apply orb_false_iff in C as [_ C]. apply negb_false_iff in C. apply Nat.eqb_eq in C.
    split; [symmetry; exact C|]. exists r. auto.
Qed.

Lemma set_loop_keeps v (revs : list rev) r :
  In r revs -> bytes_leb (r_version r) v = true ->
  exists r', In r' (set_loop v revs) /\ r_version r' = r_version r.
Proof.
  intros Hr E. apply bytes_ltb_false_leb in E.
  destruct (r_err r || negb (r_total r =? r_applied r)) eqn:C.
  - exists (resolve r). split; [|reflexivity]. unfold set_loop. apply in_flat_map. exists r.
    rewrite E, C. split; [exact Hr|left; reflexivity].
  - exists r. split; [|reflexivity]. unfold set_loop. apply in_flat_map. exists r.
    rewrite E, C. split; [exact Hr|left; reflexivity].
Qed.

Lemma set_loop_sorted v (revs : list rev) : sorted_revs revs -> sorted_revs (set_loop v revs).
Proof.
  unfold sorted_revs. induction 1 as [|a l Hs IH Hf]; [constructor|].
  change (set_loop v (a :: l)) with
    ((if bytes_ltb v (r_version a) then []
      else if r_err a || negb (r_total a =? r_applied a) then [resolve a] else [a])
     ++ set_loop v l).
  assert (forall x y, r_version x = r_version a -> In y (set_loop v l) -> rver_lt hash x y) as X.
  { intros x y Ex Hy. apply set_loop_In in Hy as (_ & r & Hr & _ & Ev).
    rewrite Forall_forall in Hf. unfold rver_lt. rewrite Ex, Ev. exact (Hf r Hr). }
  destruct (bytes_ltb v (r_version a)); [exact IH|].
  destruct (_ || _); simpl; constructor; try exact IH; apply Forall_forall; intros y Hy; apply X; auto.
Qed.

Lemma set_upto_In v all f :
  In f (set_upto v all) -> In f all /\ bytes_leb (f_version f) v = true.
Proof.
  induction all as [|a l IH]; simpl; [intros []|].
  destruct (bytes_ltb v (f_version a)) eqn:E; [intros []|].
  intros [<-|H]; [split; [left; reflexivity|apply bytes_ltb_false_leb; exact E]|].
  destruct (IH H). auto.
Qed.

Lemma set_upto_complete v all f :
  sorted_files all -> In f all -> bytes_leb (f_version f) v = true -> In f (set_upto v all).
Proof.
  unfold sorted_files. induction 1 as [|a l Hs IH Hf]; simpl; [intros []|].
  intros Hin Hle.
  assert (bytes_leb (f_version a) v = true) as Ha.
  { destruct Hin as [<-|Hin]; [exact Hle|]. rewrite Forall_forall in Hf.
    apply bytes_ltb_leb. eapply bytes_ltb_leb_trans; [exact (Hf f Hin)|exact Hle]. }
  apply bytes_ltb_false_leb in Ha. rewrite Ha.
  destruct Hin as [<-|Hin]; [left; reflexivity|right; auto].
Qed.

Lemma set_between_In lv v all f :
  In f (set_between lv v all) ->
  In f all /\ bytes_ltb lv (f_version f) = true /\ bytes_leb (f_version f) v = true.
Proof.
  induction all as [|a l IH]; simpl; [intros []|].
  destruct (bytes_leb (f_version a) lv) eqn:E1.
  - intros H. destruct (IH H) as (A & B & C). auto.
  - destruct (bytes_ltb v (f_version a)) eqn:E2; [intros []|].
    intros [<-|H].
    + split; [left; reflexivity|]. split; [apply bytes_leb_false_ltb; exact E1|apply bytes_ltb_false_leb; exact E2].
    + destruct (IH H) as (A & B & C). auto.
Qed.

Lemma set_between_complete lv v all f :
  sorted_files all -> In f all -> bytes_ltb lv (f_version f) = true -> bytes_leb (f_version f) v = true ->
  In f (set_between lv v all).
Proof.
  unfold sorted_files. induction 1 as [|a l Hs IH Hf]; simpl; [intros []|].
  intros Hin Hlt Hle.
  destruct (bytes_leb (f_version a) lv) eqn:E1.
  - destruct Hin as [<-|Hin]; [|auto].
    apply bytes_leb_false_ltb in Hlt. congruence.
  - assert (bytes_leb (f_version a) v = true) as Ha.
    { destruct Hin as [<-|Hin]; [exact Hle|]. rewrite Forall_forall in Hf.
      apply bytes_ltb_leb. eapply bytes_ltb_leb_trans; [exact (Hf f Hin)|exact Hle]. }
    apply bytes_ltb_false_leb in Ha. rewrite Ha.
    destruct Hin as [<-|Hin]; [left; reflexivity|right; auto].
Qed.

Lemma set_upto_sorted v all : sorted_files all -> sorted_files (set_upto v all).
Proof.
  unfold sorted_files. induction 1 as [|a l Hs IH Hf]; simpl; [constructor|].
  destruct (bytes_ltb v (f_version a)); constructor; [exact IH|].
  rewrite Forall_forall in *. intros y Hy. apply set_upto_In in Hy as [Hy _]. auto.
Qed.

Lemma set_between_sorted lv v all : sorted_files all -> sorted_files (set_between lv v all).
Proof.
  unfold sorted_files. induction 1 as [|a l Hs IH Hf]; simpl; [constructor|].
  destruct (bytes_leb (f_version a) lv); [exact IH|].
  destruct (bytes_ltb v (f_version a)); constructor; [exact IH|].
  rewrite Forall_forall in *. intros y Hy. apply set_between_In in Hy as (Hy & _). auto.
Qed.

Lemma result_files_In c all (revs : list rev) f :
  sorted_files all -> sorted_revs revs ->
  In f (result_files (fst (pending c all revs))) -> In f all.
Proof.
  intros Hsa Hsr. rewrite (pending_refines hash c all revs Hsa Hsr).
  assert (forall v g, In g (newer v all) -> In g all) as N by (intros v g H; apply newer_In in H; tauto).
  assert (forall a b g, In g (ooo_files a b revs all) -> In g all) as O
    by (intros a b g H; apply (ooo_files_In hash) in H; tauto).
  unfold pending_spec. destruct revs as [|r0 tl].
  - unfold first_spec. destruct (_ && _ && _); [intros []|].
    destruct (c_baseline c) as [bv|].
    + destruct (existsb _ all); [|intros []]. cbn [fst]. rewrite finish_files. apply N.
    + cbn [fst]. rewrite finish_files, <- from_last_ckpt_eq. unfold files_from_last_checkpoint.
      destruct (files_last_index f_ckpt all) as [i|]; [|auto]. intros H.
      rewrite <- (firstn_skipn i all). apply in_or_app. right. exact H.
  - unfold hist_spec. cbv zeta.
    destruct (_ =? _).
    + cbn [fst]. intros H. apply by_order_files in H as [H|H]; eauto.
    + destruct (find _ all) as [g|] eqn:Ef.
      * apply find_some in Ef as [Hg _].
        destruct (f_ckpt g); cbn [fst].
        -- intros [<-|H]; eauto.
        -- intros H. apply by_order_files in H as [H|[<-|H]]; eauto.
      * destruct (existsb _ all); intros [].
Qed.

(** [migrate set v] ([v] a version of the directory), as fixed: the table afterwards is sorted,
    every row is completely applied, the greatest row is [v]; hence Pending's decision is
    [by_order o (out-of-order files below v) (files newer than v)] -- nothing of version <= v
    is pending, and a file <= v that is still named is out of order; it was so before the set:
    it has no revision although a later version <= v has one. *)
Lemma set_decision c all (revs : list rev) v g t' r0 :
  sorted_files all -> sorted_revs revs ->
  In g all -> f_version g = v ->
  migrate_set (Some v) all revs = SetOk t' ->
  sorted_revs t' /\ t' <> [] /\ (forall r, In r t' -> r_applied r = r_total r) /\
  r_version (last t' r0) = v /\
  pending c all t' =
    (by_order (c_order c) (ooo_files (r_version (hd r0 t')) v t' all) (newer v all), None) /\
  (forall f, In f (ooo_files (r_version (hd r0 t')) v t' all) ->
     has_rev revs (f_version f) = false /\
     exists r, In r revs /\ bytes_ltb (f_version f) (r_version r) = true /\ bytes_leb (r_version r) v = true).
Proof.
  intros Hsa Hsr Hg Hgv Hset. unfold migrate_set in Hset.
  destruct (files_last_index _ all) as [i|] eqn:Ei.
  2:{ exfalso. rewrite fli_None in Ei. specialize (Ei g Hg). cbv beta in Ei.
      rewrite Hgv, bytes_eqb_refl in Ei. discriminate. }
  injection Hset as <-.
  set (revs1 := set_loop v revs) in *.
  assert (sorted_revs revs1) as Hs1 by (apply set_loop_sorted; exact Hsr).
  set (pend := match last_opt revs1 with
               | None => set_upto v all
               | Some l => if bytes_ltb (r_version l) v then set_between (r_version l) v all else []
               end) in *.
  assert (forall x, In x pend -> In x all /\ bytes_leb (f_version x) v = true /\
                    forall r1, In r1 revs1 -> bytes_ltb (r_version r1) (f_version x) = true) as Hpend.
  { intros x Hx. subst pend. destruct revs1 as [|q0 tl] eqn:E1.
    - cbn in Hx. apply set_upto_In in Hx as [A B]. split; [exact A|split; [exact B|intros r1 []]].
    - rewrite <- E1 in *. assert (revs1 <> []) as N1 by (rewrite E1; discriminate).
      rewrite (last_opt_last hash revs1 q0 N1) in Hx.
      destruct (bytes_ltb (r_version (last revs1 q0)) v); [|destruct Hx].
      apply set_between_In in Hx as (A & B & C). split; [exact A|split; [exact C|]].
      intros r1 Hr1. destruct (sorted_revs_last_max hash revs1 q0 r1 Hs1 Hr1) as [->|L]; [exact B|].
      eapply bytes_ltb_trans; eauto. }
  assert (sorted_files pend) as Hsp.
  { subst pend. destruct (last_opt revs1) as [l|]; [|apply set_upto_sorted; exact Hsa].
    destruct (bytes_ltb (r_version l) v); [apply set_between_sorted; exact Hsa|constructor]. }
  assert (sorted_revs (revs1 ++ map resolved_rev pend)) as Hst.
  { apply StronglySorted_app_intro; [exact Hs1| |].
    - apply (proj2 (StronglySorted_map (fun a b => bytes_ltb a b = true) (@r_version hash) _)).
      rewrite map_map. cbn [resolved_rev r_version].
      apply (proj1 (StronglySorted_map (fun a b => bytes_ltb a b = true) f_version pend)). exact Hsp.
    - intros a b Ha Hb. apply in_map_iff in Hb as (x & <- & Hx). unfold rver_lt. cbn [resolved_rev r_version].
      apply (Hpend x Hx). exact Ha. }
  set (t' := revs1 ++ map resolved_rev pend) in *.
  assert (forall r', In r' t' -> bytes_leb (r_version r') v = true) as HU.
  { intros r' Hr'. apply in_app_or in Hr' as [H|H].
    - apply set_loop_In in H as (_ & r & _ & Hle & Ev). rewrite Ev. exact Hle.
    - apply in_map_iff in H as (x & <- & Hx). cbn. apply (Hpend x Hx). }
  assert (forall r', In r' t' -> r_applied r' = r_total r') as HC.
  { intros r' Hr'. apply in_app_or in Hr' as [H|H].
    - apply set_loop_In in H as [H _]. exact H.
    - apply in_map_iff in H as (x & <- & _). reflexivity. }
  assert (exists rv, In rv t' /\ r_version rv = v) as (rv & Hrv & Erv).
  { destruct (has_rev revs v) eqn:Hv.
    - apply has_rev_In in Hv. apply in_map_iff in Hv as (r & Er & Hr).
      destruct (set_loop_keeps v revs r Hr) as (r' & Hr' & Ev); [rewrite Er; apply bytes_leb_refl|].
      exists r'. split; [apply in_or_app; left; exact Hr'|congruence].
    - exists (resolved_rev g). split; [|exact Hgv]. apply in_or_app. right. apply in_map. subst pend.
      destruct revs1 as [|q0 tl] eqn:E1.
      + cbn. apply set_upto_complete; [exact Hsa|exact Hg|rewrite Hgv; apply bytes_leb_refl].
      + rewrite <- E1 in *. assert (revs1 <> []) as N1 by (rewrite E1; discriminate).
        rewrite (last_opt_last hash revs1 q0 N1).
        assert (In (last revs1 q0) revs1) as Hl.
        { destruct (exists_last N1) as (l' & a & E). rewrite E, last_last. apply in_or_app. right. left. reflexivity. }
        apply set_loop_In in Hl as (_ & r & Hr & Hle & Ev).
        assert (bytes_ltb (r_version (last revs1 q0)) v = true) as Hlt.
        { rewrite Ev. apply bytes_leb_cases in Hle as [L|E]; [exact L|].
          exfalso. assert (has_rev revs v = true) as X by (rewrite <- E; apply has_rev_of_In; exact Hr).
          congruence. }
        rewrite Hlt. apply set_between_complete; [exact Hsa|exact Hg|rewrite Hgv; exact Hlt|rewrite Hgv; apply bytes_leb_refl]. }
  assert (t' <> []) as Hne by (destruct t'; [destruct Hrv|discriminate]).
  assert (In (last t' r0) t') as Hlin.
  { destruct (exists_last Hne) as (l' & a & E). rewrite E, last_last. apply in_or_app. right. left. reflexivity. }
  assert (r_version (last t' r0) = v) as Hlast.
  { destruct (sorted_revs_last_max hash t' r0 rv Hst Hrv) as [<-|L]; [exact Erv|].
    pose proof (HU _ Hlin) as Hle. rewrite Erv in L. apply bytes_leb_false_ltb in L. congruence. }
  split; [exact Hst|]. split; [exact Hne|]. split; [exact HC|]. split; [exact Hlast|].
  split.
  { rewrite (out_of_order hash c all t' r0 Hsa Hst Hne (HC _ Hlin)). rewrite Hlast. reflexivity. }
  intros f Hf. apply (ooo_files_In hash) in Hf as (Hfa & Hck & Hfirst & Hlt & Hnd).
  assert (bytes_leb (f_version f) v = true) as Hle by (apply bytes_ltb_leb; exact Hlt).
  assert (has_rev t' (f_version f) = false) as Hr.
  { destruct (has_rev t' (f_version f)) eqn:X; [|reflexivity]. exfalso.
    apply has_rev_In in X. apply in_map_iff in X as (r' & Er' & Hr').
    assert (done_rev t' (f_version f) = true) as Y by (apply (done_rev_In hash); exists r'; auto).
    congruence. }
  assert (has_rev revs (f_version f) = false) as Hno.
  { destruct (has_rev revs (f_version f)) eqn:X; [|reflexivity].
    apply has_rev_In in X. apply in_map_iff in X as (r & Er & Hin).
    destruct (set_loop_keeps v revs r Hin) as (r' & Hr' & Ev); [rewrite Er; exact Hle|].
    assert (has_rev t' (f_version f) = true) as Y.
    { rewrite <- Er, <- Ev. apply has_rev_of_In. apply in_or_app. left. exact Hr'. }
    congruence. }
  split; [exact Hno|].
  assert (~ In f pend) as Hnp.
  { intros Hp. assert (has_rev t' (f_version f) = true) as Y.
    { change (f_version f) with (r_version (resolved_rev (hash := hash) f)). apply has_rev_of_In.
      apply in_or_app. right. apply in_map. exact Hp. }
    congruence. }
  subst pend. destruct revs1 as [|q0 tl] eqn:E1.
  + exfalso. apply Hnp. cbn. apply set_upto_complete; assumption.
  + rewrite <- E1 in *. assert (revs1 <> []) as N1 by (rewrite E1; discriminate).
    rewrite (last_opt_last hash revs1 q0 N1) in Hnp.
    assert (In (last revs1 q0) revs1) as Hl.
    { destruct (exists_last N1) as (l' & a & E). rewrite E, last_last. apply in_or_app. right. left. reflexivity. }
    apply set_loop_In in Hl as (_ & r & Hin & Hrle & Ev).
    exists r. split; [exact Hin|]. split; [|exact Hrle]. rewrite <- Ev.
    destruct (bytes_ltb (f_version f) (r_version (last revs1 q0))) eqn:L; [reflexivity|exfalso].
    apply bytes_ltb_false_leb in L. apply bytes_leb_cases in L as [L|E].
    * assert (bytes_ltb (r_version (last revs1 q0)) v = true) as Lv by (eapply bytes_ltb_leb_trans; eauto).
      rewrite Lv in Hnp. apply Hnp. apply set_between_complete; assumption.
    * assert (has_rev revs (f_version f) = true) as Y.
      { rewrite <- E, Ev. apply has_rev_of_In. exact Hin. }
      congruence.
Qed.

(** ... in particular: whatever the order, a named file of version <= v is one of those
    out-of-order files, and linear-skip (= the Pending list of status) names none. *)
Lemma set_nothing_pending c all (revs : list rev) v g t' r0 f :
  sorted_files all -> sorted_revs revs ->
  In g all -> f_version g = v ->
  migrate_set (Some v) all revs = SetOk t' ->
  In f (result_files (fst (pending c all t'))) -> bytes_leb (f_version f) v = true ->
  c_order c <> LinearSkip /\ In f (ooo_files (r_version (hd r0 t')) v t' all).
Proof.
  intros Hsa Hsr Hg Hgv Hset Hf Hle.
  destruct (set_decision c all revs v g t' r0 Hsa Hsr Hg Hgv Hset) as (_ & _ & _ & _ & Hp & _).
  rewrite Hp in Hf. cbn [fst] in Hf.
  assert (~ In f (newer v all)) as Hnn.
  { intros H. apply newer_In in H as (_ & _ & L). apply bytes_leb_false_ltb in L. congruence. }
  destruct (c_order c); cbn [by_order] in Hf.
  - split; [discriminate|]. destruct (ooo_files _ v t' all) as [|a l] eqn:E.
    + rewrite finish_files in Hf. contradiction.
    + cbn [result_files] in Hf. apply in_app_or in Hf as [H|H]; [exact H|contradiction].
  - rewrite finish_files in Hf. contradiction.
  - split; [discriminate|]. rewrite finish_files in Hf. apply in_app_or in Hf as [H|H]; [exact H|contradiction].
Qed.

End StatusProofs.

(** The former witness of C11-set-on-partial-revision: directory [1] (two statements),
    revision 1 partially applied (1/2, error); after [migrate set 1] nothing is pending. *)
Definition ws_file : file := mkFile [49%N] [[65%N]; [66%N]] false.
Definition ws_rev : rev unit := mkRev [49%N] 1 2 [tt] true 2%N.
