(** Proofs about M-TX (C10, C13). *)
From Coq Require Import List NArith Bool Arith Lia.
From Atlas Require Import Base.Bytes Base.ListX Exec.ExecModel Exec.PendingModel Exec.RunModel Exec.TxModel.
Import ListNotations.

Section TxProofs.
Variable hash : Type.
Variable hash_eqb : hash -> hash -> bool.
Variable HS : bytes -> hash.

Notation db := (db hash).
Notation apply_loop := (apply_loop hash hash_eqb HS).
Notation apply_run := (apply_run hash hash_eqb HS).
Notation run_in_tx := (run_in_tx hash).
Notation run_direct := (run_direct hash).
Notation crash_state := (crash_state hash).

(** ** traces of an open transaction never move the committed state *)
Lemma run_in_tx_trace es (w c : db) :
  forall p d, In (p, d) (snd (run_in_tx es w c)) -> d = c.
Proof.
  revert w; induction es as [|e es IH]; intros w p d Hin; simpl in Hin; [contradiction|].
  destruct (run_in_tx es (apply_event hash w e) c) as [w'' tr] eqn:R. simpl in Hin.
  destruct Hin as [Hin|Hin]; [inversion Hin; reflexivity|].
  apply in_app_or in Hin as [Hin|Hin].
  - destruct (event_ok hash e); simpl in Hin; [destruct Hin as [Hin|[]]; inversion Hin; reflexivity|contradiction].
  - apply (IH (apply_event hash w e) p d). rewrite R. exact Hin.
Qed.

(** ** tx-mode all: one transaction around everything *)

(** No file carries a directive that changes its mode (the common case; a
    conflicting directive is an error under "all" anyway). *)
Definition no_directive (files : list (tfile)) : Prop :=
  forall f, In f files -> tf_directive f = None.

Lemma mode_for_all f : mode_for TxAll f = Some TxAll \/ mode_for TxAll f = None.
Proof.
  unfold mode_for. destruct (tf_directive f) as [[[| |]|]|]; simpl; auto.
Qed.

(** Whatever happens inside, the committed state is untouched by the loop in
    mode all, and every crash point inside it sees the initial state. *)
Lemma apply_loop_all files (c : db) (w : option db) :
  forall o c' w' tr, apply_loop TxAll files c w = (o, c', w', tr) ->
  c' = c /\ (forall p d, In (p, d) tr -> d = c).
Proof.
  revert c w; induction files as [|f files IH]; intros c w o c' w' tr H; simpl in H.
  - inversion H; subst. split; auto. intros p d [].
  - destruct (mode_for_all f) as [E|E]; rewrite E in H.
    + set (w0 := match w with Some x => x | None => c end) in *.
      destruct (execute hash hash_eqb HS (tf_file f) (d_tbl w0) _) as [[[oe te] fe] es].
      destruct (run_in_tx es w0 c) as [w1 tr1] eqn:R.
      pose proof (run_in_tx_trace es w0 c) as Htr. rewrite R in Htr. simpl in Htr.
      destruct oe;
        try (inversion H; subst; split; [reflexivity|]; intros p d Hin; eapply Htr; eauto).
      destruct (apply_loop TxAll files c (Some w1)) as [[[o2 c2] w2] tr2] eqn:L.
      inversion H; subst. destruct (IH c (Some w1) _ _ _ _ L) as (Hc & Ht).
      split; [exact Hc|].
      intros p d Hin. apply in_app_or in Hin as [Hin|Hin]; [eapply Htr; eauto|eapply Ht; eauto].
    + inversion H; subst. split; auto. intros p d [].
Qed.

(** C10 / C13, mode all: a run that does not end with ADone leaves the
    committed state as it was; every crash point except the final
    after-commit sees the initial state, and that one sees the final state. *)
Lemma apply_run_all_atomic n dir (c : db) o c' tr :
  apply_run TxAll n dir c = (o, c', tr) ->
  (o <> ADone -> c' = c) /\
  (forall p d, In (p, d) tr -> d = c \/ (p = AfterCommit /\ d = c' /\ o = ADone)).
Proof.
  unfold TxModel.apply_run. intros H.
  destruct (fst (pending _ _ _)) eqn:P.
  2-7: (inversion H; subst; split; [intros _; reflexivity | intros ? ? []]).
  destruct (apply_loop TxAll _ c None) as [[[o1 c1] w1] tr1] eqn:L.
  destruct (apply_loop_all _ _ _ _ _ _ _ L) as (Hc & Ht). subst c1.
  destruct o1; try (inversion H; subst; split; [reflexivity|]; intros p0 d Hin; left; eapply Ht; eauto).
  destruct w1 as [wd|].
  - inversion H; subst. split; [intros Hne; contradiction|].
    intros p0 d Hin. apply in_app_or in Hin as [Hin|Hin]; [left; eapply Ht; eauto|].
    simpl in Hin. destruct Hin as [Hin|[Hin|[]]]; inversion Hin; subst; auto.
  - inversion H; subst. split; [intros Hne; contradiction|].
    intros p0 d Hin. left; eapply Ht; eauto.
Qed.

Lemma crash_state_in tr pt k (d : db) : crash_state tr pt k = Some d -> In (pt, d) tr.
Proof.
  revert k; induction tr as [|[p x] tr IH]; intros k H; simpl in H; [discriminate|].
  destruct p, pt; simpl in H;
    try (right; eapply IH; eauto; fail);
    (destruct k as [|[|k]]; [right; eapply IH; eauto | inversion H; left; reflexivity | right; eapply IH; eauto]).
Qed.

(** ** tx-mode file: committed states are file boundaries *)

Lemma mode_for_none_dir m f : tf_directive f = None -> mode_for m f = Some m.
Proof. unfold mode_for. intros ->. reflexivity. Qed.

(** The committed state after the loop completed k files. *)
Definition boundary (files : list tfile) (c : db) (k : nat) : db :=
  let '(_, c', _, _) := apply_loop TxFile (firstn k files) c None in c'.

(** In file mode without directives every committed state seen by a crash
    point is the state after a whole number of files, and a failing file
    leaves the state after the last completely applied file. *)
Lemma apply_loop_file files (c : db) :
  no_directive files ->
  forall o c' w' tr, apply_loop TxFile files c None = (o, c', w', tr) ->
  w' = None /\
  (exists k, k <= length files /\ c' = boundary files c k /\
             (o = ADone -> k = length files) /\
             (forall j, j < k ->
                 let cj := boundary files c j in
                 match nth_error files j with
                 | Some f => fst (fst (fst (execute hash hash_eqb HS (tf_file f) (d_tbl cj)
                                   (bad_faults f (stored_applied hash (d_tbl cj) (f_version (tf_file f))))))) = ODone
                 | None => False
                 end)) /\
  (forall p d, In (p, d) tr -> exists k, k <= length files /\ d = boundary files c k).
Proof.
  revert c; induction files as [|f files IH]; intros c Hnd o c' w' tr H; simpl in H.
  - inversion H; subst. split; [reflexivity|]. split.
    + exists 0. simpl. repeat split; auto. intros j Hj; lia.
    + intros p d [].
  - rewrite (mode_for_none_dir TxFile f) in H by (apply Hnd; left; reflexivity).
    destruct (execute hash hash_eqb HS (tf_file f) (d_tbl c) _) as [[[oe te] fe] es] eqn:EX.
    destruct (run_in_tx es c c) as [w1 tr1] eqn:R.
    pose proof (run_in_tx_trace es c c) as Htr. rewrite R in Htr. simpl in Htr.
    assert (Hb0 : boundary (f :: files) c 0 = c) by reflexivity.
    destruct oe.
    + (* file done: commit, continue from w1 *)
      destruct (apply_loop TxFile files w1 None) as [[[o2 c2] w2] tr2] eqn:L.
      inversion H; subst.
      assert (Hnd' : no_directive files) by (intros g Hg; apply Hnd; right; exact Hg).
      destruct (IH w1 Hnd' _ _ _ _ L) as (Hw & (k & Hk & Hc & Hdone & Hpre) & Ht).
      assert (Hshift : forall j, boundary (f :: files) c (S j) = boundary files w1 j).
      { intros j. unfold boundary. cbn [firstn]. simpl.
        rewrite (mode_for_none_dir TxFile f) by (apply Hnd; left; reflexivity).
        rewrite EX, R.
        destruct (apply_loop TxFile (firstn j files) w1 None) as [[[o3 c3] w3] tr3]. reflexivity. }
      split; [exact Hw|]. split.
      * exists (S k). simpl. split; [lia|]. split; [rewrite Hshift; exact Hc|]. split.
        -- intros Ho. f_equal. apply Hdone. exact Ho.
        -- intros j Hj. destruct j as [|j].
           ++ cbv zeta. cbn [nth_error]. rewrite Hb0, EX. reflexivity.
           ++ specialize (Hpre j ltac:(lia)). cbv zeta in *. cbn [nth_error]. rewrite Hshift. exact Hpre.
      * intros p d Hin. apply in_app_or in Hin as [Hin|Hin].
        -- exists 0. split; [simpl; lia|]. rewrite Hb0. eapply Htr; eauto.
        -- simpl in Hin. destruct Hin as [Hin|[Hin|Hin]].
           ++ inversion Hin; subst. exists 0. split; [simpl; lia|]. rewrite Hb0. reflexivity.
           ++ inversion Hin; subst. exists 1. split; [simpl; lia|]. rewrite Hshift. reflexivity.
           ++ destruct (Ht _ _ Hin) as (j & Hj & Hd). exists (S j). split; [simpl; lia|].
              rewrite Hshift. exact Hd.
    + inversion H; subst. split; [reflexivity|]. split.
      * exists 0. split; [simpl; lia|]. split; [rewrite Hb0; reflexivity|]. split; [discriminate|]. intros j Hj; lia.
      * intros p d Hin. exists 0. split; [simpl; lia|]. rewrite Hb0. eapply Htr; eauto.
    + inversion H; subst. split; [reflexivity|]. split.
      * exists 0. split; [simpl; lia|]. split; [rewrite Hb0; reflexivity|]. split; [discriminate|]. intros j Hj; lia.
      * intros p d Hin. exists 0. split; [simpl; lia|]. rewrite Hb0. eapply Htr; eauto.
    + inversion H; subst. split; [reflexivity|]. split.
      * exists 0. split; [simpl; lia|]. split; [rewrite Hb0; reflexivity|]. split; [discriminate|]. intros j Hj; lia.
      * intros p d Hin. exists 0. split; [simpl; lia|]. rewrite Hb0. eapply Htr; eauto.
    + inversion H; subst. split; [reflexivity|]. split.
      * exists 0. split; [simpl; lia|]. split; [rewrite Hb0; reflexivity|]. split; [discriminate|]. intros j Hj; lia.
      * intros p d Hin. exists 0. split; [simpl; lia|]. rewrite Hb0. eapply Htr; eauto.
Qed.

(** ** tx-mode none: effects are committed one by one *)

Definition tbl_of_events (es : list (event hash)) (t : list (rev hash)) : list (rev hash) :=
  fold_left (fun t e => match e with EWrite r true => tbl_put t r | _ => t end) es t.

Lemma tbl_of_events_app a b t : tbl_of_events (a ++ b) t = tbl_of_events b (tbl_of_events a t).
Proof. unfold tbl_of_events. apply fold_left_app. Qed.

Lemma tbl_of_events_cons e es t : tbl_of_events (e :: es) t = tbl_of_events es (tbl_of_events [e] t).
Proof. reflexivity. Qed.

Lemma write_tbl (t : list (rev hash)) fs r ok t' fs' e :
  write t fs r = (ok, t', fs', e) -> t' = tbl_of_events [e] t.
Proof.
  unfold write. destruct (pop fs) as [fail fs1]. destruct fail; intros H; inversion H; subst; reflexivity.
Qed.

Lemma run_stmts_tbl v rest srest r t fs :
  forall o r' t' fs' es, run_stmts hash v rest srest r t fs = (o, r', t', fs', es) ->
  t' = tbl_of_events es t.
Proof.
  revert srest r t fs; induction rest as [|s rest IH]; intros srest r t fs o r' t' fs' es H; simpl in H.
  - inversion H; subst. reflexivity.
  - destruct (pop fs) as [fail fs1]. destruct fail; [inversion H; subst; reflexivity|].
    destruct srest as [|h srest]; [inversion H; subst; reflexivity|].
    destruct (write t fs1 (step_applied r h)) as [[[ok t2] fs2] e] eqn:W.
    pose proof (write_tbl _ _ _ _ _ _ _ W) as Hw.
    destruct ok.
    + destruct (run_stmts hash v rest srest (step_applied r h) t2 fs2) as [[[[o2 r2] t3] fs3] es2] eqn:R.
      inversion H; subst. rewrite (IH _ _ _ _ _ _ _ _ _ R). reflexivity.
    + inversion H; subst. reflexivity.
Qed.

Lemma execute_tbl f t fs :
  forall o t' fs' es, execute hash hash_eqb HS f t fs = (o, t', fs', es) -> t' = tbl_of_events es t.
Proof.
  intros o t' fs' es H. unfold ExecModel.execute in H.
  set (r0 := match tbl_get t (f_version f) with Some r => r | None => new_rev (f_version f) (length (f_stmts f)) end) in *.
  destruct (write t fs r0) as [[[ok t1] fs1] e1] eqn:W1.
  pose proof (write_tbl _ _ _ _ _ _ _ W1) as Hw1.
  destruct ok; simpl in H; [|inversion H; subst; reflexivity].
  destruct (if 0 <? r_applied r0 then check_loop hash hash_eqb (r_applied r0) 0 (sums hash HS (f_stmts f)) (r_hashes r0) else Some None) as [[c|]|].
  - destruct (write t1 fs1 r0) as [[[ok2 t2] fs2] e2] eqn:W2.
    pose proof (write_tbl _ _ _ _ _ _ _ W2) as Hw2.
    inversion H; subst. reflexivity.
  - simpl in H. destruct (length (f_stmts f) <? r_applied r0); [inversion H; subst; reflexivity|].
    destruct (run_stmts hash _ _ _ _ t1 fs1) as [[[[o2 r2] t2] fs2] es2] eqn:R.
    pose proof (run_stmts_tbl _ _ _ _ _ _ _ _ _ _ _ R) as Hr.
    destruct o2.
    + destruct (write t2 fs2 (set_hashes r2 [])) as [[[ok3 t3] fs3] e3] eqn:W3.
      pose proof (write_tbl _ _ _ _ _ _ _ W3) as Hw3.
      inversion H; subst. rewrite (tbl_of_events_cons e1 (es2 ++ [e3])), tbl_of_events_app. reflexivity.
    + destruct (write t2 fs2 r2) as [[[ok3 t3] fs3] e3] eqn:W3.
      pose proof (write_tbl _ _ _ _ _ _ _ W3) as Hw3.
      inversion H; subst. rewrite (tbl_of_events_cons e1 (es2 ++ [e3])), tbl_of_events_app. reflexivity.
    + inversion H; subst. rewrite (tbl_of_events_cons e1 es2). reflexivity.
    + inversion H; subst. rewrite (tbl_of_events_cons e1 es2). reflexivity.
    + inversion H; subst. rewrite (tbl_of_events_cons e1 es2). reflexivity.
  - inversion H; subst. reflexivity.
Qed.

Definition db_of_events (es : list (event hash)) (d : db) : db := fold_left (apply_event hash) es d.

Lemma db_of_events_tbl es (d : db) : d_tbl (db_of_events es d) = tbl_of_events es (d_tbl d).
Proof.
  revert d; induction es as [|e es IH]; intros d; [reflexivity|].
  unfold db_of_events, tbl_of_events in *. simpl. rewrite IH.
  destruct e as [v i s [|]|r [|]]; reflexivity.
Qed.

Lemma db_of_events_journal es (d : db) :
  d_journal (db_of_events es d) = d_journal d ++ map snd (journal es).
Proof.
  revert d; induction es as [|e es IH]; intros d; simpl; [rewrite app_nil_r; reflexivity|].
  unfold db_of_events in *. simpl. rewrite IH.
  destruct e as [v i s [|]|r [|]]; simpl; rewrite <- ?app_assoc; reflexivity.
Qed.

(** Direct execution ends in the fold of all events, and every crash point
    sees the fold of a prefix of the events. *)
Lemma run_direct_spec es (d : db) :
  fst (run_direct es d) = db_of_events es d /\
  (forall p x, In (p, x) (snd (run_direct es d)) -> exists n, n <= length es /\ x = db_of_events (firstn n es) d).
Proof.
  revert d; induction es as [|e es IH]; intros d; simpl.
  - split; [reflexivity|intros p x []].
  - destruct (run_direct es (apply_event hash d e)) as [d2 tr] eqn:R.
    destruct (IH (apply_event hash d e)) as [Hf Ht]. rewrite R in Hf, Ht. simpl in Hf, Ht.
    split; [exact Hf|].
    intros p x [Hin|Hin].
    + inversion Hin; subst. exists 0. split; [lia|reflexivity].
    + apply in_app_or in Hin as [Hin|Hin].
      * destruct (event_ok hash e); simpl in Hin; [|contradiction].
        destruct Hin as [Hin|[]]. inversion Hin; subst. exists 1. split; [lia|reflexivity].
      * destruct (Ht _ _ Hin) as (n & Hn & Hx). exists (S n). split; [lia|exact Hx].
Qed.

(** C13, mode none, one file: the database holds exactly the successful prefix
    of the file's statements and the revision table is the one Execute left
    (partial revision, error recorded). *)
Lemma apply_loop_none_single f (c : db) :
  mode_for TxNone f = Some TxNone ->
  forall o t' fs' es,
    execute hash hash_eqb HS (tf_file f) (d_tbl c)
            (bad_faults f (stored_applied hash (d_tbl c) (f_version (tf_file f)))) = (o, t', fs', es) ->
    o <> ODone ->
    forall rest, exists tr,
      apply_loop TxNone (f :: rest) c None = (AFail o, mkDb (d_journal c ++ map snd (journal es)) t', None, tr).
Proof.
  intros Hm o t' fs' es EX Hne rest. simpl. rewrite Hm, EX.
  destruct (run_direct es c) as [c1 tr] eqn:R.
  destruct (run_direct_spec es c) as [Hf _]. rewrite R in Hf. simpl in Hf.
  exists tr. destruct o; try contradiction;
    (f_equal; f_equal; f_equal; subst c1;
     rewrite <- (db_of_events_journal es c), (execute_tbl _ _ _ _ _ _ _ EX), <- (db_of_events_tbl es c);
     destruct (db_of_events es c); reflexivity).
Qed.

End TxProofs.
