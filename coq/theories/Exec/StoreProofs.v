(** Proofs about M-STORE (EntRevisions + the CLI apply loop) used by C12:
    the storage contract the C12 theorems rest on, and the C12 statements
    lifted from [Executor.Execute] over an abstract table to [Execute] over the
    store with read faults, and to the file loop of `migrate apply`. *)
From Coq Require Import List NArith Bool Arith Lia.
From Atlas Require Import Base.Bytes Base.ListX Exec.ExecModel Exec.ExecProofs Exec.PendingModel Exec.RunModel Exec.StoreModel.
Import ListNotations.

Section Proofs.
Variable hash : Type.
Variable hash_eqb : hash -> hash -> bool.
Variable HS : bytes -> hash.
Hypothesis hash_eqb_spec : forall a b, hash_eqb a b = true <-> a = b.

Notation rev := (rev hash).
Notation execute := (execute hash hash_eqb HS).
Notation execute_rd := (execute_rd hash hash_eqb HS).
Notation execute_st := (execute_st hash hash_eqb HS).
Notation apply_files := (apply_files hash hash_eqb HS).
Notation read_revision := (read_revision hash).
Notation recorded := (recorded hash HS).
Notation collision_at := (collision_at hash HS).

Lemma pop_hd_tl (fs : list bool) : pop fs = (hd false fs, tl fs).
Proof. destruct fs; reflexivity. Qed.

(** ** [execute_rd] generalises [execute] *)
Lemma execute_rd_get f (t : list rev) fs :
  execute_rd f (tbl_get t (f_version f)) t fs = execute f t fs.
Proof. reflexivity. Qed.

(** ** the storage contract *)

(** A read returns the exact stored row, NotExist exactly when there is none,
    and an error only when the statement itself failed. *)
Lemma read_revision_spec (t : list rev) fs v :
  read_revision t fs v =
  (if hd false fs then RdError
   else match tbl_get t v with Some r => RdRow r | None => RdNotExist end, tl fs).
Proof. unfold StoreModel.read_revision. rewrite pop_hd_tl. destruct (hd false fs); reflexivity. Qed.

(** An upsert overwrites every column: what is read back is the revision written. *)
Lemma write_then_read (t : list rev) fs r ok t' fs' e fs2 :
  write t fs r = (ok, t', fs', e) -> ok = true -> hd false fs2 = false ->
  fst (read_revision t' fs2 (r_version r)) = RdRow r.
Proof.
  intros W Hok Hf. apply write_ok_inv in W as (_ & Hput & _ & _ & _).
  rewrite read_revision_spec, Hf, (Hput Hok), tbl_get_put_same. reflexivity.
Qed.

(** ... and the other rows are untouched. *)
Lemma write_then_read_other (t : list rev) fs r ok t' fs' e v :
  write t fs r = (ok, t', fs', e) -> v <> r_version r -> tbl_get t' v = tbl_get t v.
Proof.
  intros W Hv. apply write_ok_inv in W as (_ & Hput & Hfail & _ & _).
  destruct ok; [rewrite (Hput eq_refl); apply tbl_get_put_other; exact Hv|rewrite (Hfail eq_refl); reflexivity].
Qed.

(** A failed upsert leaves the table as it was. *)
Lemma write_fail_unchanged (t : list rev) fs r ok t' fs' e :
  write t fs r = (ok, t', fs', e) -> ok = false -> t' = t.
Proof. intros W Hok. apply write_ok_inv in W as (_ & _ & Hfail & _ & _). auto. Qed.

(** ** [execute_st] *)

Lemma execute_st_read_error f (t : list rev) fs :
  hd false fs = true -> execute_st f t fs = (SReadErr, t, tl fs, []).
Proof.
  intros H. unfold StoreModel.execute_st. rewrite read_revision_spec, H. reflexivity.
Qed.

Lemma execute_st_read_ok f (t : list rev) fs :
  hd false fs = false ->
  execute_st f t fs =
  let '(o, t', fs', es) := execute f t (tl fs) in (SExec o, t', fs', es).
Proof.
  intros H. unfold StoreModel.execute_st. rewrite read_revision_spec, H.
  rewrite <- execute_rd_get. destruct (tbl_get t (f_version f)); reflexivity.
Qed.

(** C12_read_error_refuses: when reading the revision fails, nothing is
    executed, nothing is written and the table is unchanged -- also for every
    file that follows, in both transaction modes. *)
Lemma C12_read_error_lemma txfile f rest (t : list rev) fs :
  hd false fs = true ->
  execute_st f t fs = (SReadErr, t, tl fs, []) /\
  apply_files txfile (f :: rest) t fs = (SReadErr, t, tl fs, [], []).
Proof.
  intros H. split; [apply execute_st_read_error; exact H|].
  cbn [StoreModel.apply_files]. rewrite (execute_st_read_error _ _ _ H).
  destruct txfile; reflexivity.
Qed.

(** The applied part was edited: whatever fails in the storage layer (the
    read, the first or the deferred write), nothing is executed and the table
    is what it was; without a fault the outcome is HistoryChanged. *)
Lemma C12_refuse_st_lemma (t : list rev) fs f r old :
  tbl_get t (f_version f) = Some r ->
  0 < r_applied r -> recorded r old ->
  firstn (r_applied r) (f_stmts f) <> firstn (r_applied r) old ->
  forall o t' fs' es, execute_st f t fs = (o, t', fs', es) ->
  collision_at old (f_stmts f) (r_applied r) \/
  (exec_events es = [] /\ t' = t /\ o <> SExec ODone /\
   (hd false fs = true -> o = SReadErr /\ es = []) /\
   (hd false fs = false -> hd false (tl fs) = true -> o = SExec OWriteErr) /\
   (hd false fs = false -> hd false (tl fs) = false ->
      exists i, o = SExec (OHistory i) /\ 1 <= i <= r_applied r)).
Proof.
  intros Hget Hpos Hrec Hne o t' fs' es Hex.
  destruct (hd false fs) eqn:Hh.
  - rewrite (execute_st_read_error _ _ _ Hh) in Hex. inversion Hex; subst. right.
    repeat split; auto; try discriminate.
  - rewrite (execute_st_read_ok _ _ _ Hh) in Hex.
    destruct (execute f t (tl fs)) as [[[o0 t0] fs0] es0] eqn:E.
    inversion Hex; subst.
    destruct (C12_refuse_lemma hash hash_eqb HS hash_eqb_spec t (tl fs) f r old Hget Hpos Hrec Hne _ _ _ _ E)
      as [Hc|(He & Ht & Hw & Hhist)]; [left; exact Hc|right].
    repeat split; auto; try discriminate.
    + destruct (hd false (tl fs)) eqn:H2.
      * rewrite (Hw eq_refl). discriminate.
      * destruct (Hhist eq_refl) as (i & -> & _). discriminate.
    + intros _ H2. rewrite (Hw H2). reflexivity.
    + intros _ H2. destruct (Hhist H2) as (i & -> & Hi). exists i. split; [reflexivity|exact Hi].
Qed.

(** ... and the file loop of `migrate apply` stops there: no statement of this
    or of any following file runs, nothing is committed, in both tx modes. *)
Lemma C12_refuse_apply_lemma txfile (t : list rev) fs f rest r old :
  tbl_get t (f_version f) = Some r ->
  0 < r_applied r -> recorded r old ->
  firstn (r_applied r) (f_stmts f) <> firstn (r_applied r) old ->
  forall o t' fs' es j, apply_files txfile (f :: rest) t fs = (o, t', fs', es, j) ->
  collision_at old (f_stmts f) (r_applied r) \/
  (exec_events es = [] /\ j = [] /\ t' = t /\ o <> SExec ODone).
Proof.
  intros Hget Hpos Hrec Hne o t' fs' es j Hap.
  cbn [StoreModel.apply_files] in Hap.
  destruct (execute_st f t fs) as [[[o1 t1] fs1] es1] eqn:E.
  destruct (C12_refuse_st_lemma t fs f r old Hget Hpos Hrec Hne _ _ _ _ E)
    as [Hc|(He & Ht & Ho & _)]; [left; exact Hc|right].
  assert (journal es1 = []) as Hj.
  { clear - He. induction es1 as [|e es1 IH]; [reflexivity|].
    destruct e as [v i s ok|r0 ok]; simpl in *; [discriminate|auto]. }
  destruct o1 as [|[]]; try congruence;
    (destruct txfile; inversion Hap; subst; repeat split; auto; discriminate).
Qed.

(** Only the tail was edited, no fault: Execute over the store resumes with
    the new tail and leaves a complete revision. *)
Lemma C12_tail_st_lemma (t : list rev) f r old :
  tbl_get t (f_version f) = Some r -> recorded r old ->
  firstn (r_applied r) (f_stmts f) = firstn (r_applied r) old ->
  exists t' es r',
    execute_st f t [] = (SExec ODone, t', [], es) /\
    journal es = map (pair (f_version f)) (skipn (r_applied r) (f_stmts f)) /\
    tbl_get t' (f_version f) = Some r' /\
    r_applied r' = length (f_stmts f) /\ r_total r' = length (f_stmts f) /\ r_hashes r' = [] /\
    (forall v', v' <> f_version f -> tbl_get t' v' = tbl_get t v').
Proof.
  intros Hget Hrec Hsame.
  destruct (C12_tail_lemma hash hash_eqb HS hash_eqb_spec t f r old Hget Hrec Hsame)
    as (t' & es & r' & Hex & Hrest).
  exists t', es, r'. split; [|exact Hrest].
  rewrite execute_st_read_ok by reflexivity. simpl tl. rewrite Hex. reflexivity.
Qed.

(** Never a panic, whatever the storage does. *)
Lemma C12_no_panic_st_lemma f (t : list rev) fs :
  (forall r, tbl_get t (f_version f) = Some r -> r_applied r <= length (r_hashes r)) ->
  forall o t' fs' es, execute_st f t fs = (o, t', fs', es) -> o <> SExec OPanic.
Proof.
  intros Hwf o t' fs' es Hex.
  destruct (hd false fs) eqn:Hh.
  - rewrite (execute_st_read_error _ _ _ Hh) in Hex. inversion Hex; discriminate.
  - rewrite (execute_st_read_ok _ _ _ Hh) in Hex.
    destruct (execute f t (tl fs)) as [[[o0 t0] fs0] es0] eqn:E.
    inversion Hex; subst. intros Hp. inversion Hp; subst.
    exact (C12_no_panic_lemma hash hash_eqb HS hash_eqb_spec f t (tl fs) Hwf _ _ _ _ E eq_refl).
Qed.

(** ** the whole command on a one-file directory *)

(** [Executor.Pending] on a directory with one (non-checkpoint) file whose
    revision is the only one stored and is partial: the file is pending. *)
Lemma pending_single_partial c f (r : rev) :
  f_ckpt f = false -> r_version r = f_version f -> r_applied r <> r_total r ->
  pending c [f] [r] = (PFiles [f], None).
Proof.
  intros Hck Hv Hpart. unfold pending, skip_checkpoints, last_opt. cbn [filter length Nat.sub nth_error].
  rewrite Hck. cbn [negb filter].
  assert (r_applied r =? r_total r = false) as -> by (apply Nat.eqb_neq; exact Hpart).
  cbn [negb andb Nat.eqb length map].
  unfold bsearch. cbn [length map bsearch_loop Nat.ltb Nat.leb Nat.add Nat.div Nat.divmod fst nth_error].
  rewrite Hv, bytes_ltb_irrefl. cbn [Nat.ltb Nat.leb nth_error].
  rewrite bytes_eqb_refl, Hck.
  unfold files_last_index. cbn [last_index_from]. rewrite bytes_eqb_refl.
  cbn [skipn firstn index_func]. reflexivity.
Qed.

(** `atlas migrate apply` on a one-file directory whose partially applied
    file had its applied part edited: for every fault stream, both tx modes
    and every count argument, nothing is executed or committed and the table
    is what it was; the command does not succeed. *)
Lemma C12_refuse_cli_lemma txfile c n fs f (r : rev) old :
  f_ckpt f = false -> r_version r = f_version f -> r_applied r <> r_total r ->
  0 < r_applied r -> recorded r old ->
  firstn (r_applied r) (f_stmts f) <> firstn (r_applied r) old ->
  forall o t' fs' es j, cli_apply hash hash_eqb HS txfile c n [f] [r] fs = (o, t', fs', es, j) ->
  collision_at old (f_stmts f) (r_applied r) \/
  (exec_events es = [] /\ j = [] /\ t' = [r] /\
   o <> CRun (SExec ODone) /\ o <> CPend PNoPending).
Proof.
  intros Hck Hv Hpart Hpos Hrec Hne o t' fs' es j Hcli.
  unfold cli_apply, read_revisions_f in Hcli.
  rewrite pop_hd_tl in Hcli. destruct (hd false fs).
  { inversion Hcli; subst. right. repeat split; auto; discriminate. }
  change (read_revisions hash [r]) with [r] in Hcli.
  rewrite (pending_single_partial c f r Hck Hv Hpart) in Hcli. cbn [negb] in Hcli.
  rewrite pop_hd_tl in Hcli. destruct (hd false (tl fs)).
  { inversion Hcli; subst. right. repeat split; auto; discriminate. }
  assert ((if 0 <? n then firstn n [f] else [f]) = [f]) as E.
  { destruct n; [reflexivity|]. cbn. destruct n; reflexivity. }
  rewrite E in Hcli.
  destruct (apply_files txfile [f] [r] (tl (tl fs))) as [[[[o1 t1] fs1] es1] j1] eqn:A.
  inversion Hcli; subst.
  assert (tbl_get [r] (f_version f) = Some r) as Hget.
  { cbn. rewrite Hv, bytes_eqb_refl. reflexivity. }
  destruct (C12_refuse_apply_lemma txfile [r] (tl (tl fs)) f [] r old Hget Hpos Hrec Hne _ _ _ _ _ A)
    as [Hc|(He & Hj & Ht & Ho)]; [left; exact Hc|right].
  repeat split; auto; [congruence|discriminate].
Qed.

End Proofs.
