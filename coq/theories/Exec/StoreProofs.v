(** Proofs about M-STORE (EntRevisions + the CLI apply loop) used by C12:
    the storage contract the C12 theorems rest on, and the C12 statements
    lifted from [Executor.Execute] over an abstract table to [Execute] over the
    store with read faults, and to the file loop of `migrate apply`. *)
From Coq Require Import List NArith Bool Arith Lia.
From Atlas Require Import Base.Bytes Base.ListX Exec.ExecModel Exec.ExecProofs Exec.StepProofs Exec.PendingModel Exec.RunModel Exec.StoreModel.
Import ListNotations.

Section Proofs.
Variable hash : Type.
Variable hash_eqb : hash -> hash -> bool.
Variable HS : bytes -> hash.
Hypothesis hash_eqb_spec : forall a b, hash_eqb a b = true <-> a = b.

Notation rev := (rev hash).
Notation execute := (execute hash hash_eqb HS).
Notation execute_rd := (execute_rd hash hash_eqb HS).
Notation execute_st := (execute_st hash hash_eqb HS).
Notation apply_files := (apply_files hash hash_eqb HS).
Notation read_revision := (read_revision hash).
Notation recorded := (recorded hash HS).
Notation collision_at := (collision_at hash HS).

Lemma pop_hd_tl (fs : list bool) : pop fs = (hd false fs, tl fs).
Proof. destruct fs; reflexivity. Qed.

(** ** [execute_rd] generalises [execute] *)
Lemma execute_rd_get f (t : list rev) fs :
  execute_rd f (tbl_get t (f_version f)) t fs = execute f t fs.
Proof. reflexivity. Qed.

(** ** the storage contract *)

(** A read returns the exact stored row, NotExist exactly when there is none,
    and an error only when the statement itself failed. *)
Lemma read_revision_spec (t : list rev) fs v :
  read_revision t fs v =
  (if hd false fs then RdError
   else match tbl_get t v with Some r => RdRow r | None => RdNotExist end, tl fs).
Proof. unfold StoreModel.read_revision. rewrite pop_hd_tl. destruct (hd false fs); reflexivity. Qed.

(** An upsert overwrites every column: what is read back is the revision written. *)
Lemma write_then_read (t : list rev) fs r ok t' fs' e fs2 :
  write t fs r = (ok, t', fs', e) -> ok = true -> hd false fs2 = false ->
  fst (read_revision t' fs2 (r_version r)) = RdRow r.
Proof.
  intros W Hok Hf. apply write_ok_inv in W as (_ & Hput & _ & _ & _).
  rewrite read_revision_spec, Hf, (Hput Hok), tbl_get_put_same. reflexivity.
Qed.

(** ... and the other rows are untouched. *)
Lemma write_then_read_other (t : list rev) fs r ok t' fs' e v :
  write t fs r = (ok, t', fs', e) -> v <> r_version r -> tbl_get t' v = tbl_get t v.
Proof.
  intros W Hv. apply write_ok_inv in W as (_ & Hput & Hfail & _ & _).
  destruct ok; [rewrite (Hput eq_refl); apply tbl_get_put_other; exact Hv|rewrite (Hfail eq_refl); reflexivity].
Qed.

(** A failed upsert leaves the table as it was. *)
Lemma write_fail_unchanged (t : list rev) fs r ok t' fs' e :
  write t fs r = (ok, t', fs', e) -> ok = false -> t' = t.
Proof. intros W Hok. apply write_ok_inv in W as (_ & _ & Hfail & _ & _). auto. Qed.

(** ** [execute_st] *)

Lemma execute_st_read_error f (t : list rev) fs :
  hd false fs = true -> execute_st f t fs = (SReadErr, t, tl fs, []).
Proof.
  intros H. unfold StoreModel.execute_st. rewrite read_revision_spec, H. reflexivity.
Qed.

Lemma execute_st_read_ok f (t : list rev) fs :
  hd false fs = false ->
  execute_st f t fs =
  let '(o, t', fs', es) := execute f t (tl fs) in (SExec o, t', fs', es).
Proof.
  intros H. unfold StoreModel.execute_st. rewrite read_revision_spec, H.
  rewrite <- execute_rd_get. destruct (tbl_get t (f_version f)); reflexivity.
Qed.

(** C12_read_error_refuses: when reading the revision fails, nothing is
    executed, nothing is written and the table is unchanged -- also for every
    file that follows, in both transaction modes. *)
Lemma C12_read_error_lemma txfile f rest (t : list rev) fs :
  hd false fs = true ->
  execute_st f t fs = (SReadErr, t, tl fs, []) /\
  apply_files txfile (f :: rest) t fs = (SReadErr, t, tl fs, [], []).
Proof.
  intros H. split; [apply execute_st_read_error; exact H|].
  cbn [StoreModel.apply_files]. rewrite (execute_st_read_error _ _ _ H).
  destruct txfile; reflexivity.
Qed.

(** The applied part was edited: whatever fails in the storage layer (the
    read, the first or the deferred write), nothing is executed and the table
    is what it was; without a fault the outcome is HistoryChanged. *)
Lemma C12_refuse_st_lemma (t : list rev) fs f r old :
  tbl_get t (f_version f) = Some r ->
  0 < r_applied r -> recorded r old ->
  firstn (r_applied r) (f_stmts f) <> firstn (r_applied r) old ->
  forall o t' fs' es, execute_st f t fs = (o, t', fs', es) ->
  collision_at old (f_stmts f) (r_applied r) \/
  (exec_events es = [] /\ t' = t /\ o <> SExec ODone /\
   (hd false fs = true -> o = SReadErr /\ es = []) /\
   (hd false fs = false -> hd false (tl fs) = true -> o = SExec OWriteErr) /\
   (hd false fs = false -> hd false (tl fs) = false ->
      exists i, o = SExec (OHistory i) /\ 1 <= i <= r_applied r)).
Proof.
  intros Hget Hpos Hrec Hne o t' fs' es Hex.
  destruct (hd false fs) eqn:Hh.
  - rewrite (execute_st_read_error _ _ _ Hh) in Hex. inversion Hex; subst. right.
    repeat split; auto; try discriminate.
  - rewrite (execute_st_read_ok _ _ _ Hh) in Hex.
    destruct (execute f t (tl fs)) as [[[o0 t0] fs0] es0] eqn:E.
    inversion Hex; subst.
    destruct (C12_refuse_lemma hash hash_eqb HS hash_eqb_spec t (tl fs) f r old Hget Hpos Hrec Hne _ _ _ _ E)
      as [Hc|(He & Ht & Hw & Hhist)]; [left; exact Hc|right].
    repeat split; auto; try discriminate.
    + destruct (hd false (tl fs)) eqn:H2.
      * rewrite (Hw eq_refl). discriminate.
      * destruct (Hhist eq_refl) as (i & -> & _). discriminate.
    + intros _ H2. rewrite (Hw H2). reflexivity.
    + intros _ H2. destruct (Hhist H2) as (i & -> & Hi). exists i. split; [reflexivity|exact Hi].
Qed.

(** ... and the file loop of `migrate apply` stops there: no statement of this
    or of any following file runs, nothing is committed, in both tx modes. *)
Lemma C12_refuse_apply_lemma txfile (t : list rev) fs f rest r old :
  tbl_get t (f_version f) = Some r ->
  0 < r_applied r -> recorded r old ->
  firstn (r_applied r) (f_stmts f) <> firstn (r_applied r) old ->
  forall o t' fs' es j, apply_files txfile (f :: rest) t fs = (o, t', fs', es, j) ->
  collision_at old (f_stmts f) (r_applied r) \/
  (exec_events es = [] /\ j = [] /\ t' = t /\ o <> SExec ODone).
Proof.
  intros Hget Hpos Hrec Hne o t' fs' es j Hap.
  cbn [StoreModel.apply_files] in Hap.
  destruct (execute_st f t fs) as [[[o1 t1] fs1] es1] eqn:E.
  destruct (C12_refuse_st_lemma t fs f r old Hget Hpos Hrec Hne _ _ _ _ E)
    as [Hc|(He & Ht & Ho & _)]; [left; exact Hc|right].
  assert (journal es1 = []) as Hj.
  { clear - He. induction es1 as [|e es1 IH]; [reflexivity|].
    destruct e as [v i s ok|r0 ok]; simpl in *; [discriminate|auto]. }
  destruct o1 as [|[]]; try congruence;
    (destruct txfile; inversion Hap; subst; repeat split; auto; discriminate).
Qed.

(** Only the tail was edited, no fault: Execute over the store resumes with
    the new tail and leaves a complete revision. *)
Lemma C12_tail_st_lemma (t : list rev) f r old :
  tbl_get t (f_version f) = Some r -> recorded r old ->
  firstn (r_applied r) (f_stmts f) = firstn (r_applied r) old ->
  exists t' es r',
    execute_st f t [] = (SExec ODone, t', [], es) /\
    journal es = map (pair (f_version f)) (skipn (r_applied r) (f_stmts f)) /\
    tbl_get t' (f_version f) = Some r' /\
    r_applied r' = length (f_stmts f) /\ r_total r' = length (f_stmts f) /\ r_hashes r' = [] /\
    (forall v', v' <> f_version f -> tbl_get t' v' = tbl_get t v').
Proof.
  intros Hget Hrec Hsame.
  destruct (C12_tail_lemma hash hash_eqb HS hash_eqb_spec t f r old Hget Hrec Hsame)
    as (t' & es & r' & Hex & Hrest).
  exists t', es, r'. split; [|exact Hrest].
  rewrite execute_st_read_ok by reflexivity. simpl tl. rewrite Hex. reflexivity.
Qed.

(** Never a panic, whatever the storage does. *)
Lemma C12_no_panic_st_lemma f (t : list rev) fs :
  (forall r, tbl_get t (f_version f) = Some r -> r_applied r <= length (r_hashes r)) ->
  forall o t' fs' es, execute_st f t fs = (o, t', fs', es) -> o <> SExec OPanic.
Proof.
  intros Hwf o t' fs' es Hex.
  destruct (hd false fs) eqn:Hh.
  - rewrite (execute_st_read_error _ _ _ Hh) in Hex. inversion Hex; discriminate.
  - rewrite (execute_st_read_ok _ _ _ Hh) in Hex.
    destruct (execute f t (tl fs)) as [[[o0 t0] fs0] es0] eqn:E.
    inversion Hex; subst. intros Hp. inversion Hp; subst.
    exact (C12_no_panic_lemma hash hash_eqb HS hash_eqb_spec f t (tl fs) Hwf _ _ _ _ E eq_refl).
Qed.

(** ** the whole command on a one-file directory *)

(** [Executor.Pending] on a directory with one (non-checkpoint) file whose
    revision is the only one stored and is partial: the file is pending. *)
Lemma pending_single_partial c f (r : rev) :
  f_ckpt f = false -> r_version r = f_version f -> r_applied r <> r_total r ->
  pending c [f] [r] = (PFiles [f], None).
Proof.
  intros Hck Hv Hpart. unfold pending, skip_checkpoints, last_opt. cbn [filter length Nat.sub nth_error].
  rewrite Hck. cbn [negb filter].
  assert (r_applied r =? r_total r = false) as -> by (apply Nat.eqb_neq; exact Hpart).
  cbn [negb andb Nat.eqb length map].
  unfold bsearch. cbn [length map bsearch_loop Nat.ltb Nat.leb Nat.add Nat.div Nat.divmod fst nth_error].
  rewrite Hv, bytes_ltb_irrefl. cbn [Nat.ltb Nat.leb nth_error].
  rewrite bytes_eqb_refl, Hck.
  unfold files_last_index. cbn [last_index_from]. rewrite bytes_eqb_refl.
  cbn [skipn firstn index_func]. reflexivity.
Qed.

(** `atlas migrate apply` on a one-file directory whose partially applied
    file had its applied part edited: for every fault stream, both tx modes
    and every count argument, nothing is executed or committed and the table
    is what it was; the command does not succeed. *)
Lemma C12_refuse_cli_lemma txfile c n fs f (r : rev) old :
  f_ckpt f = false -> r_version r = f_version f -> r_applied r <> r_total r ->
  0 < r_applied r -> recorded r old ->
  firstn (r_applied r) (f_stmts f) <> firstn (r_applied r) old ->
  forall o t' fs' es j, cli_apply hash hash_eqb HS txfile c n [f] [r] fs = (o, t', fs', es, j) ->
  collision_at old (f_stmts f) (r_applied r) \/
  (exec_events es = [] /\ j = [] /\ t' = [r] /\
   o <> CRun (SExec ODone) /\ o <> CPend PNoPending).
Proof.
  intros Hck Hv Hpart Hpos Hrec Hne o t' fs' es j Hcli.
  unfold cli_apply, read_revisions_f in Hcli.
  rewrite pop_hd_tl in Hcli. destruct (hd false fs).
  { inversion Hcli; subst. right. repeat split; auto; discriminate. }
  change (read_revisions hash [r]) with [r] in Hcli.
  rewrite (pending_single_partial c f r Hck Hv Hpart) in Hcli. cbn [negb] in Hcli.
  rewrite pop_hd_tl in Hcli. destruct (hd false (tl fs)).
  { inversion Hcli; subst. right. repeat split; auto; discriminate. }
  assert ((if 0 <? n then firstn n [f] else [f]) = [f]) as E.
  { destruct n; [reflexivity|]. cbn. destruct n; reflexivity. }
  rewrite E in Hcli.
  destruct (apply_files txfile [f] [r] (tl (tl fs))) as [[[[o1 t1] fs1] es1] j1] eqn:A.
  inversion Hcli; subst.
  assert (tbl_get [r] (f_version f) = Some r) as Hget.
  { cbn. rewrite Hv, bytes_eqb_refl. reflexivity. }
  destruct (C12_refuse_apply_lemma txfile [r] (tl (tl fs)) f [] r old Hget Hpos Hrec Hne _ _ _ _ _ A)
    as [Hc|(He & Hj & Ht & Ho)]; [left; exact Hc|right].
  repeat split; auto; [congruence|discriminate].
Qed.

(** ** a one-row table stays a one-row table *)
Lemma tbl_put_single (x y : rev) : r_version x = r_version y -> tbl_put [x] y = [y].
Proof. intros E. cbn. rewrite E, bytes_eqb_refl. reflexivity. Qed.

Lemma write_single (x y : rev) fs ok t' fs' e :
  write [x] fs y = (ok, t', fs', e) -> r_version x = r_version y ->
  exists x', t' = [x'] /\ r_version x' = r_version x.
Proof.
  intros W E. apply write_ok_inv in W as (_ & Hput & Hfail & _ & _).
  destruct ok.
  - exists y. rewrite (Hput eq_refl), (tbl_put_single _ _ E). auto.
  - exists x. rewrite (Hfail eq_refl). auto.
Qed.

Lemma run_stmts_single v rest : forall srest (r x : rev) fs o r2 t' fs' es,
  run_stmts hash v rest srest r [x] fs = (o, r2, t', fs', es) ->
  r_version r = r_version x ->
  (exists x', t' = [x'] /\ r_version x' = r_version x) /\ r_version r2 = r_version x.
Proof.
  induction rest as [|s rest IH]; intros srest r x fs o r2 t' fs' es H E; simpl in H.
  - inversion H; subst. split; [exists x; auto|exact E].
  - destruct (pop fs) as [fail fs1]. destruct fail.
    + inversion H; subst. split; [exists x; auto|exact E].
    + destruct srest as [|h srest].
      * inversion H; subst. split; [exists x; auto|exact E].
      * destruct (write [x] fs1 (step_applied r h)) as [[[ok t2] fs2] e] eqn:W.
        destruct (write_single _ _ _ _ _ _ _ W) as (x1 & -> & Hx1); [simpl; congruence|].
        destruct ok.
        -- destruct (run_stmts hash v rest srest (step_applied r h) [x1] fs2) as [[[[o3 r3] t3] fs3] es3] eqn:R.
           inversion H; subst.
           destruct (IH _ _ _ _ _ _ _ _ _ R) as [(x' & -> & Hx') Hr]; [simpl; congruence|].
           split; [exists x'; split; [reflexivity|congruence]|congruence].
        -- inversion H; subst. split; [exists x1; auto|simpl; exact E].
Qed.

Lemma execute_single f (r : rev) fs o t' fs' es :
  r_version r = f_version f ->
  execute f [r] fs = (o, t', fs', es) ->
  exists x', t' = [x'] /\ r_version x' = f_version f.
Proof.
  intros Hv Hex. unfold ExecModel.execute in Hex.
  assert (tbl_get [r] (f_version f) = Some r) as Hget by (cbn; rewrite Hv, bytes_eqb_refl; reflexivity).
  rewrite Hget in Hex.
  destruct (write [r] fs r) as [[[ok t1] fs1] e1] eqn:W1.
  destruct (write_single _ _ _ _ _ _ _ W1 eq_refl) as (x1 & -> & Hx1).
  destruct ok; simpl in Hex; [|inversion Hex; subst; exists x1; split; [reflexivity|congruence]].
  destruct (if 0 <? r_applied r then check_loop hash hash_eqb (r_applied r) 0 (sums hash HS (f_stmts f)) (r_hashes r) else Some None)
    as [[c|]|].
  - destruct (write [x1] fs1 r) as [[[ok2 t2] fs2] e2] eqn:W2.
    destruct (write_single _ _ _ _ _ _ _ W2) as (x2 & -> & Hx2); [congruence|].
    inversion Hex; subst. exists x2. split; [reflexivity|congruence].
  - simpl in Hex. destruct (length (f_stmts f) <? r_applied r).
    + inversion Hex; subst. exists x1. split; [reflexivity|congruence].
    + destruct (run_stmts hash (f_version f) (skipn (r_applied r) (f_stmts f)) (skipn (r_applied r) (sums hash HS (f_stmts f)))
                 (set_total r (length (f_stmts f))) [x1] fs1) as [[[[o2 r2] t2] fs2] es2] eqn:R.
      destruct (run_stmts_single _ _ _ _ _ _ _ _ _ _ _ R) as [(x2 & -> & Hx2) Hr2]; [simpl; congruence|].
      destruct o2.
      * destruct (write [x2] fs2 (set_hashes r2 [])) as [[[ok3 t3] fs3] e3] eqn:W3.
        destruct (write_single _ _ _ _ _ _ _ W3) as (x3 & -> & Hx3); [simpl; congruence|].
        inversion Hex; subst. exists x3. split; [reflexivity|congruence].
      * destruct (write [x2] fs2 r2) as [[[ok3 t3] fs3] e3] eqn:W3.
        destruct (write_single _ _ _ _ _ _ _ W3) as (x3 & -> & Hx3); [congruence|].
        inversion Hex; subst. exists x3. split; [reflexivity|congruence].
      * inversion Hex; subst. exists x2. split; [reflexivity|congruence].
      * inversion Hex; subst. exists x2. split; [reflexivity|congruence].
      * inversion Hex; subst. exists x2. split; [reflexivity|congruence].
  - inversion Hex; subst. exists x1. split; [reflexivity|congruence].
Qed.

Lemma bytes_leb_refl' a : bytes_leb a a = true.
Proof. rewrite bytes_leb_ltb, bytes_ltb_irrefl. reflexivity. Qed.

(** [Executor.Pending] when the only file's only revision is complete: nothing to do. *)
Lemma pending_single_complete c f (r : rev) :
  f_ckpt f = false -> r_version r = f_version f -> r_applied r = r_total r ->
  pending c [f] [r] = (PNoPending, None).
Proof.
  intros Hck Hv Hdone. unfold pending, skip_checkpoints, last_opt. cbn [filter length Nat.sub nth_error].
  rewrite Hck. cbn [negb filter].
  assert (r_applied r =? r_total r = true) as Hd by (apply Nat.eqb_eq; exact Hdone).
  rewrite Hd. cbn [negb andb].
  unfold files_last_index. cbn [last_index_from]. rewrite Hv, bytes_leb_refl'.
  cbn [skipn firstn index_func]. rewrite bytes_leb_refl'.
  cbn [Nat.ltb Nat.leb andb skipn filter].
  unfold out_of_order, bsearch. cbn [length map bsearch_loop Nat.ltb Nat.leb Nat.add Nat.div Nat.divmod fst nth_error].
  rewrite Hv, bytes_ltb_irrefl. cbn [Nat.ltb Nat.leb nth_error].
  rewrite bytes_eqb_refl, Hd. cbn [negb orb].
  destruct (c_order c); reflexivity.
Qed.

(** `atlas migrate apply` on a one-file directory whose partially applied file
    had only its tail edited, no fault: it executes exactly the new tail,
    leaves one complete revision, and the next `migrate apply` has nothing to do. *)
Lemma C12_tail_cli_lemma txfile c n f (r : rev) old :
  f_ckpt f = false -> r_version r = f_version f -> r_applied r <> r_total r ->
  recorded r old ->
  firstn (r_applied r) (f_stmts f) = firstn (r_applied r) old ->
  exists es r',
    cli_apply hash hash_eqb HS txfile c n [f] [r] [] =
      (CRun (SExec ODone), [r'], [], es, map (pair (f_version f)) (skipn (r_applied r) (f_stmts f))) /\
    r_version r' = f_version f /\
    r_applied r' = length (f_stmts f) /\ r_total r' = length (f_stmts f) /\ r_hashes r' = [] /\
    cli_apply hash hash_eqb HS txfile c n [f] [r'] [] = (CPend PNoPending, [r'], [], [], []).
Proof.
  intros Hck Hv Hpart Hrec Hsame.
  assert (tbl_get [r] (f_version f) = Some r) as Hget by (cbn; rewrite Hv, bytes_eqb_refl; reflexivity).
  destruct (C12_tail_lemma hash hash_eqb HS hash_eqb_spec [r] f r old Hget Hrec Hsame)
    as (t' & es & r' & Hex & Hj & Hget' & Ha & Ht & Hh & _).
  destruct (execute_single f r [] _ _ _ _ Hv Hex) as (x' & -> & Hx').
  assert (x' = r') as ->.
  { cbn in Hget'. rewrite Hx', bytes_eqb_refl in Hget'. congruence. }
  assert ((if 0 <? n then firstn n [f] else [f]) = [f]) as E.
  { destruct n; [reflexivity|]. cbn. destruct n; reflexivity. }
  exists es, r'. split; [|split; [exact Hx'|split; [exact Ha|split; [exact Ht|split; [exact Hh|]]]]].
  - unfold cli_apply, read_revisions_f. cbn [pop].
    change (read_revisions hash [r]) with [r].
    rewrite (pending_single_partial c f r Hck Hv Hpart). cbn [negb pop]. rewrite E.
    cbn [StoreModel.apply_files]. rewrite (execute_st_read_ok f [r] []) by reflexivity.
    cbn [tl]. rewrite Hex. rewrite !app_nil_r, Hj. reflexivity.
  - unfold cli_apply, read_revisions_f. cbn [pop].
    change (read_revisions hash [r']) with [r'].
    rewrite (pending_single_complete c f r' Hck Hx') by congruence. reflexivity.
Qed.

(** ** whatever fails, recorded progress is never lost and only the tail runs *)

Lemma write_keeps_progress (t : list rev) fs y ok t' fs' e v x k0 :
  write t fs y = (ok, t', fs', e) ->
  tbl_get t v = Some x -> k0 <= r_applied x -> r_version y = v -> k0 <= r_applied y ->
  exists x', tbl_get t' v = Some x' /\ k0 <= r_applied x'.
Proof.
  intros W Hget Hx Hv Hy. apply write_ok_inv in W as (_ & Hput & Hfail & _ & _).
  destruct ok.
  - exists y. rewrite (Hput eq_refl), <- Hv, tbl_get_put_same. auto.
  - exists x. rewrite (Hfail eq_refl). auto.
Qed.

Lemma run_stmts_progress v rest : forall srest (r : rev) t fs o r2 t' fs' es x k0,
  run_stmts hash v rest srest r t fs = (o, r2, t', fs', es) ->
  tbl_get t v = Some x -> k0 <= r_applied x -> r_version r = v -> k0 <= r_applied r ->
  (exists x', tbl_get t' v = Some x' /\ k0 <= r_applied x') /\
  r_version r2 = v /\ k0 <= r_applied r2 /\
  exists m, journal es = map (pair v) (firstn m rest).
Proof.
  induction rest as [|s rest IH]; intros srest r t fs o r2 t' fs' es x k0 H Hget Hx Hv Hr; simpl in H.
  - inversion H; subst. repeat split; eauto. exists 0. reflexivity.
  - destruct (pop fs) as [fail fs1]. destruct fail.
    + inversion H; subst. repeat split; eauto. exists 0. reflexivity.
    + destruct srest as [|h srest].
      * inversion H; subst. repeat split; eauto. exists 1. reflexivity.
      * destruct (write t fs1 (step_applied r h)) as [[[ok t2] fs2] e] eqn:W.
        destruct (write_keeps_progress _ _ _ _ _ _ _ _ _ k0 W Hget Hx) as (x1 & Hget1 & Hx1);
          [simpl; exact Hv|simpl; lia|].
        pose proof (write_ok_inv _ _ _ _ _ _ _ _ W) as (He & _). subst e.
        destruct ok.
        -- subst v.
           destruct (run_stmts hash (r_version r) rest srest (step_applied r h) t2 fs2) as [[[[o3 r3] t3] fs3] es3] eqn:R.
           inversion H; subst.
           destruct (IH _ _ _ _ _ _ _ _ _ _ k0 R Hget1 Hx1) as (Hx' & Hv3 & Hr3 & m & Hm);
             [reflexivity|simpl; lia|].
           repeat split; auto. exists (S m). simpl. rewrite Hm. reflexivity.
        -- inversion H; subst. repeat split; eauto; [simpl; lia|]. exists 1. reflexivity.
Qed.

(** For every file, table and fault stream: the revision of the file that was
    stored before [Execute] is still there afterwards and its [Applied] did not
    decrease (it is never replaced by a fresh one); and when the applied part is
    intact the statements executed are a prefix of the not-yet-applied tail. *)
Lemma C12_progress_lemma f (t : list rev) fs r :
  tbl_get t (f_version f) = Some r ->
  forall o t' fs' es, execute_st f t fs = (o, t', fs', es) ->
  (exists r', tbl_get t' (f_version f) = Some r' /\ r_applied r <= r_applied r') /\
  exists m, journal es = map (pair (f_version f)) (firstn m (skipn (r_applied r) (f_stmts f))).
Proof.
  intros Hget o t' fs' es Hex.
  pose proof (tbl_get_version hash _ _ _ Hget) as Hv.
  destruct (hd false fs) eqn:Hh.
  { rewrite (execute_st_read_error _ _ _ Hh) in Hex. inversion Hex; subst.
    split; [exists r; auto|exists 0; reflexivity]. }
  rewrite (execute_st_read_ok _ _ _ Hh) in Hex.
  destruct (execute f t (tl fs)) as [[[o0 t0] fs0] es0] eqn:E.
  inversion Hex; subst. clear Hex.
  unfold ExecModel.execute in E. rewrite Hget in E.
  destruct (write t (tl fs) r) as [[[ok t1] fs1] e1] eqn:W1.
  destruct (write_keeps_progress _ _ _ _ _ _ _ _ _ (r_applied r) W1 Hget (le_n _) Hv (le_n _)) as (x1 & Hget1 & Hx1).
  assert (journal [e1] = []) as Hj1.
  { apply write_ok_inv in W1 as (-> & _). reflexivity. }
  destruct ok; simpl in E.
  2:{ inversion E; subst. split; [exists x1; auto|exists 0; exact Hj1]. }
  destruct (if 0 <? r_applied r then check_loop hash hash_eqb (r_applied r) 0 (sums hash HS (f_stmts f)) (r_hashes r) else Some None)
    as [[c|]|].
  - destruct (write t1 fs1 r) as [[[ok2 t2] fs2] e2] eqn:W2.
    destruct (write_keeps_progress _ _ _ _ _ _ _ _ _ (r_applied r) W2 Hget1 Hx1 Hv (le_n _)) as (x2 & Hget2 & Hx2).
    inversion E; subst. split; [exists x2; auto|]. exists 0.
    apply write_ok_inv in W1 as (-> & _). apply write_ok_inv in W2 as (-> & _). reflexivity.
  - simpl in E. destruct (length (f_stmts f) <? r_applied r).
    + inversion E; subst. split; [exists x1; auto|exists 0; exact Hj1].
    + destruct (run_stmts hash (f_version f) (skipn (r_applied r) (f_stmts f)) (skipn (r_applied r) (sums hash HS (f_stmts f)))
                 (set_total r (length (f_stmts f))) t1 fs1) as [[[[o2 r2] t2] fs2] es2] eqn:R.
      destruct (run_stmts_progress _ _ _ _ _ _ _ _ _ _ _ _ (r_applied r) R Hget1 Hx1) as ((x2 & Hget2 & Hx2) & Hv2 & Hr2 & m & Hm);
        [simpl; exact Hv|simpl; lia|].
      assert (forall e3 : event hash, (exists r3 ok3, e3 = EWrite r3 ok3) ->
              journal (e1 :: es2 ++ [e3]) = map (pair (f_version f)) (firstn m (skipn (r_applied r) (f_stmts f)))) as Hje.
      { intros e3 (r3 & ok3 & ->). apply write_ok_inv in W1 as (-> & _). cbn [journal].
        rewrite journal_app. cbn [journal]. rewrite app_nil_r. exact Hm. }
      assert (journal (e1 :: es2) = map (pair (f_version f)) (firstn m (skipn (r_applied r) (f_stmts f)))) as Hj2.
      { apply write_ok_inv in W1 as (-> & _). cbn [journal]. exact Hm. }
      destruct o2.
      * destruct (write t2 fs2 (set_hashes r2 [])) as [[[ok3 t3] fs3] e3] eqn:W3.
        destruct (write_keeps_progress _ _ _ _ _ _ _ _ _ (r_applied r) W3 Hget2 Hx2) as (x3 & Hget3 & Hx3);
          [simpl; exact Hv2|simpl; exact Hr2|].
        inversion E; subst. split; [exists x3; auto|]. exists m. apply Hje.
        apply write_ok_inv in W3 as (-> & _). eauto.
      * destruct (write t2 fs2 r2) as [[[ok3 t3] fs3] e3] eqn:W3.
        destruct (write_keeps_progress _ _ _ _ _ _ _ _ _ (r_applied r) W3 Hget2 Hx2 Hv2 Hr2) as (x3 & Hget3 & Hx3).
        inversion E; subst. split; [exists x3; auto|]. exists m. apply Hje.
        apply write_ok_inv in W3 as (-> & _). eauto.
      * inversion E; subst. split; [exists x2; auto|exists m; exact Hj2].
      * inversion E; subst. split; [exists x2; auto|exists m; exact Hj2].
      * inversion E; subst. split; [exists x2; auto|exists m; exact Hj2].
  - inversion E; subst. split; [exists x1; auto|exists 0; exact Hj1].
Qed.

(** ** the premise [recorded] is what the executor itself leaves behind *)

(** Tables reachable by earlier attempts on the (unchanged) file [f], through
    the store, with arbitrary faults: the revision was absent at first; an
    attempt is made only while the file is pending (absent or partial revision:
    what [Executor.Pending] returns). *)
Inductive after_attempts (f : file) : list rev -> Prop :=
| AA_first t : tbl_get t (f_version f) = None -> after_attempts f t
| AA_again t fs o t' fs' es :
    after_attempts f t ->
    (forall r, tbl_get t (f_version f) = Some r -> r_applied r <> r_total r) ->
    execute_st f t fs = (o, t', fs', es) -> after_attempts f t'.

Definition attempt_inv (f : file) (t : list rev) : Prop :=
  tbl_get t (f_version f) = None \/
  exists r, tbl_get t (f_version f) = Some r /\ r_total r = length (f_stmts f) /\
            claim_ok hash HS f r (r_applied r).

Lemma claim_partial_recorded f (r : rev) :
  claim_ok hash HS f r (r_applied r) -> r_total r = length (f_stmts f) -> r_applied r <> r_total r ->
  recorded r (f_stmts f).
Proof.
  intros (_ & _ & Hle & [Hh|[Hm _]]) Ht Hp; [split; [exact Hle|exact Hh]|congruence].
Qed.

Lemma after_attempts_inv f t : after_attempts f t -> attempt_inv f t.
Proof.
  induction 1 as [t Hn|t fs o t' fs' es _ IH Hpend Hex]; [left; exact Hn|].
  destruct (hd false fs) eqn:Hh.
  { rewrite (execute_st_read_error _ _ _ Hh) in Hex. inversion Hex; subst. exact IH. }
  rewrite (execute_st_read_ok _ _ _ Hh) in Hex.
  destruct (execute f t (tl fs)) as [[[o0 t0] fs0] es0] eqn:E. inversion Hex; subst. clear Hex.
  assert (exists r0, pre hash HS f t r0 /\ r_total r0 = length (f_stmts f)) as (r0 & Hpre & Htot).
  { destruct IH as [Hn|(r & Hg & Ht & Hc)].
    - exists (new_rev (f_version f) (length (f_stmts f))). split; [left; auto|reflexivity].
    - exists r. split; [right; split; [exact Hg|]|exact Ht].
      apply claim_partial_recorded; auto. }
  destruct (execute_spec hash hash_eqb HS hash_eqb_spec f t r0 (tl fs) o0 t' fs' es Hpre Htot E)
    as (c & a' & _ & _ & _ & _ & _ & _ & Hst & _).
  destruct Hst as [(-> & Hn & _)|(r' & -> & Hc & Ht')]; [left; exact Hn|].
  right. exists r'. pose proof Hc as (Hv & Ha & _).
  split; [rewrite <- Hv; apply tbl_get_put_same|]. split; [exact Ht'|]. rewrite Ha. exact Hc.
Qed.

(** End to end: the file was attempted any number of times (any faults), is
    partially applied, and then its applied part is edited: the next attempt,
    whatever fails in the storage layer, executes nothing and leaves the table
    as it is (or a collision between the two files' prefixes is exhibited).
    No premise about the stored hashes is left: they are what the earlier
    attempts recorded. *)
Lemma C12_end_to_end_refuse_lemma f_old f_new t (r : rev) :
  after_attempts f_old t -> f_version f_new = f_version f_old ->
  tbl_get t (f_version f_old) = Some r -> 0 < r_applied r -> r_applied r <> r_total r ->
  firstn (r_applied r) (f_stmts f_new) <> firstn (r_applied r) (f_stmts f_old) ->
  forall fs o t' fs' es, execute_st f_new t fs = (o, t', fs', es) ->
  collision_at (f_stmts f_old) (f_stmts f_new) (r_applied r) \/
  (exec_events es = [] /\ t' = t /\ o <> SExec ODone).
Proof.
  intros HA Hv Hget Hpos Hpart Hne fs o t' fs' es Hex.
  destruct (after_attempts_inv _ _ HA) as [Hn|(r1 & Hg & Ht & Hc)]; [congruence|].
  assert (r1 = r) as -> by congruence.
  pose proof (claim_partial_recorded _ _ Hc Ht Hpart) as Hrec.
  rewrite <- Hv in Hget.
  destruct (C12_refuse_st_lemma t fs f_new r (f_stmts f_old) Hget Hpos Hrec Hne _ _ _ _ Hex)
    as [Hcol|(He & Ht' & Ho & _)]; [left; exact Hcol|right; auto].
Qed.

(** ... and when only the tail was edited (or nothing), the fault-free next
    attempt runs exactly the new tail and leaves a complete revision. *)
Lemma C12_end_to_end_tail_lemma f_old f_new t (r : rev) :
  after_attempts f_old t -> f_version f_new = f_version f_old ->
  tbl_get t (f_version f_old) = Some r -> r_applied r <> r_total r ->
  firstn (r_applied r) (f_stmts f_new) = firstn (r_applied r) (f_stmts f_old) ->
  exists t' es r',
    execute_st f_new t [] = (SExec ODone, t', [], es) /\
    journal es = map (pair (f_version f_new)) (skipn (r_applied r) (f_stmts f_new)) /\
    tbl_get t' (f_version f_new) = Some r' /\
    r_applied r' = length (f_stmts f_new) /\ r_total r' = length (f_stmts f_new) /\ r_hashes r' = [] /\
    (forall v', v' <> f_version f_new -> tbl_get t' v' = tbl_get t v').
Proof.
  intros HA Hv Hget Hpart Hsame.
  destruct (after_attempts_inv _ _ HA) as [Hn|(r1 & Hg & Ht & Hc)]; [congruence|].
  assert (r1 = r) as -> by congruence.
  pose proof (claim_partial_recorded _ _ Hc Ht Hpart) as Hrec.
  rewrite <- Hv in Hget.
  exact (C12_tail_st_lemma t f_new r (f_stmts f_old) Hget Hrec Hsame).
Qed.

(** ** attribution: the statement reported is the first edited one *)
Lemma check_loop_first k : forall i sm hs j,
  i <= j < i + k ->
  (forall m, i <= m < j -> m < length sm /\ exists a, nth_error sm m = Some a /\ nth_error hs m = Some a) ->
  (length sm <= j \/ exists a b, nth_error sm j = Some a /\ nth_error hs j = Some b /\ a <> b) ->
  check_loop hash hash_eqb k i sm hs = Some (Some j).
Proof.
  induction k as [|k IH]; intros i sm hs j Hj Hsame Hdiff; [lia|].
  simpl. destruct (Nat.eq_dec i j) as [->|Hij].
  - destruct Hdiff as [Hl|(a & b & Ha & Hb & Hab)].
    + assert (length sm <=? j = true) as -> by (apply Nat.leb_le; exact Hl). reflexivity.
    + assert (j < length sm) as Hlt by (apply nth_error_Some; congruence).
      assert (length sm <=? j = false) as -> by (apply Nat.leb_gt; exact Hlt).
      rewrite Ha, Hb. destruct (hash_eqb a b) eqn:E; [apply hash_eqb_spec in E; contradiction|reflexivity].
  - destruct (Hsame i) as (Hl & a & Ha & Hb); [lia|].
    assert (length sm <=? i = false) as -> by (apply Nat.leb_gt; exact Hl).
    rewrite Ha, Hb.
    assert (hash_eqb a a = true) as -> by (apply hash_eqb_spec; reflexivity).
    apply IH; [lia| |exact Hdiff]. intros m Hm. apply Hsame. lia.
Qed.

(** The first [j] statements are as recorded, statement [j+1] (one of the
    applied ones) is not -- or the file ends there: the error names exactly
    statement [j+1], or the two versions of the file collide at that prefix. *)
Lemma C12_attribution_lemma (t : list rev) fs f r old j :
  tbl_get t (f_version f) = Some r -> recorded r old ->
  j < r_applied r ->
  firstn j (f_stmts f) = firstn j old ->
  firstn (S j) (f_stmts f) <> firstn (S j) old ->
  hd false fs = false ->
  forall o t' fs' es, execute f t fs = (o, t', fs', es) ->
  o = OHistory (S j) \/
  (concat (firstn (S j) (f_stmts f)) <> concat (firstn (S j) old) /\
   HS (concat (firstn (S j) (f_stmts f))) = HS (concat (firstn (S j) old))).
Proof.
  intros Hget Hrec Hj Hsame Hdiff Hfs o t' fs' es Hex.
  set (stmts := f_stmts f) in *.
  pose proof Hrec as [Hk _].
  assert (Hjl : j <= length stmts).
  { assert (length (firstn j stmts) = length (firstn j old)) as E by (rewrite Hsame; reflexivity).
    rewrite !firstn_length in E. lia. }
  assert (Hpref : forall m, 0 <= m < j ->
            m < length (sums hash HS stmts) /\
            exists a, nth_error (sums hash HS stmts) m = Some a /\ nth_error (r_hashes r) m = Some a).
  { intros m Hm. rewrite sums_length. split; [lia|].
    exists (HS (concat (firstn (S m) stmts))). split; [apply sums_nth; lia|].
    rewrite (recorded_nth hash HS _ _ _ Hrec) by lia. do 2 f_equal.
    assert (firstn (S m) stmts = firstn (S m) (firstn j stmts)) as -> by (rewrite firstn_firstn; f_equal; lia).
    rewrite Hsame, firstn_firstn. do 2 f_equal. lia. }
  assert (Hcl : check_loop hash hash_eqb (r_applied r) 0 (sums hash HS stmts) (r_hashes r) = Some (Some j) \/
                (concat (firstn (S j) stmts) <> concat (firstn (S j) old) /\
                 HS (concat (firstn (S j) stmts)) = HS (concat (firstn (S j) old)))).
  { destruct (le_lt_dec (length stmts) j) as [Hl|Hl].
    - left. apply check_loop_first; [lia|exact Hpref|left; rewrite sums_length; exact Hl].
    - assert (Hcne : concat (firstn (S j) stmts) <> concat (firstn (S j) old)).
      { intros Hc. apply Hdiff.
        destruct (nth_error_some_lt stmts j Hl) as [x Hx].
        destruct (nth_error_some_lt old j) as [y Hy]; [lia|].
        rewrite (firstn_S_snoc stmts j x Hx), (firstn_S_snoc old j y Hy) in *.
        rewrite !concat_app in Hc. simpl in Hc. rewrite !app_nil_r in Hc.
        rewrite Hsame in Hc. apply app_inv_head in Hc. subst. rewrite Hsame. reflexivity. }
      destruct (hash_eqb (HS (concat (firstn (S j) stmts))) (HS (concat (firstn (S j) old)))) eqn:Eh.
      + apply hash_eqb_spec in Eh. right. split; assumption.
      + left. apply check_loop_first; [lia|exact Hpref|right].
        exists (HS (concat (firstn (S j) stmts))), (HS (concat (firstn (S j) old))).
        split; [apply sums_nth; exact Hl|]. split; [apply (recorded_nth hash HS _ _ _ Hrec); exact Hj|].
        intros E. rewrite E in Eh.
        assert (hash_eqb (HS (concat (firstn (S j) old))) (HS (concat (firstn (S j) old))) = true) as X
          by (apply hash_eqb_spec; reflexivity). congruence. }
  destruct Hcl as [CL|Hcol]; [left|right; exact Hcol].
  unfold ExecModel.execute in Hex. fold stmts in Hex. rewrite Hget in Hex.
  unfold write at 1 in Hex. rewrite pop_hd_tl, Hfs in Hex. cbn [negb] in Hex.
  assert (0 <? r_applied r = true) as Hp by (apply Nat.ltb_lt; lia). rewrite Hp, CL in Hex.
  destruct (write (tbl_put t r) (tl fs) r) as [[[ok2 t2] fs2] e2]. inversion Hex. reflexivity.
Qed.

(** ** histories in which the tail of the file changes between the attempts *)

Lemma sums_from_firstn a : forall acc s,
  firstn a (sums_from hash HS acc s) = sums_from hash HS acc (firstn a s).
Proof.
  induction a as [|a IH]; intros acc s; [reflexivity|].
  destruct s as [|x s]; [reflexivity|]. cbn [sums_from firstn]. rewrite IH. reflexivity.
Qed.

Lemma recorded_tail_edit (r : rev) s s' :
  recorded r s -> firstn (r_applied r) s' = firstn (r_applied r) s -> recorded r s'.
Proof.
  intros [Hk Hh] E. split.
  - assert (length (firstn (r_applied r) s') = length (firstn (r_applied r) s)) as L by (rewrite E; reflexivity).
    rewrite !firstn_length in L. lia.
  - rewrite Hh. unfold sums. rewrite !sums_from_firstn, E. reflexivity.
Qed.

(** What the executor leaves behind for a file: the stored revision, if any, is
    complete by its own account or records a prefix of the file. *)
Definition stored_ok (f : file) (t : list rev) : Prop :=
  forall r, tbl_get t (f_version f) = Some r ->
    r_applied r = r_total r \/ recorded r (f_stmts f).

Lemma rv_recorded f kind m :
  m <= length (f_stmts f) ->
  recorded (rv hash (f_version f) (length (f_stmts f)) kind (sums hash HS (f_stmts f)) m) (f_stmts f).
Proof. intros H. split; [exact H|reflexivity]. Qed.

Lemma execute_stored_ok f (t : list rev) fs o t' fs' es :
  stored_ok f t ->
  (forall r, tbl_get t (f_version f) = Some r -> r_applied r <> r_total r) ->
  execute f t fs = (o, t', fs', es) -> stored_ok f t'.
Proof.
  intros Hinv Hpend Hex.
  assert (exists r0, pre hash HS f t r0) as (r0 & Hpre).
  { destruct (tbl_get t (f_version f)) as [r|] eqn:G.
    - exists r. right. split; [exact G|]. destruct (Hinv r G) as [E|Hr]; [destruct (Hpend r eq_refl E)|exact Hr].
    - exists (new_rev (f_version f) (length (f_stmts f))). left. split; [exact G|reflexivity]. }
  assert (recorded r0 (f_stmts f)) as Hr0.
  { destruct Hpre as [[_ ->]|[_ H]]; [split; [simpl; lia|reflexivity]|exact H]. }
  pose proof (pre_version hash HS f t r0 Hpre) as Hv0.
  destruct (execute_shape hash hash_eqb HS hash_eqb_spec f t r0 Hpre fs o t' fs' es Hex) as [Hsh _].
  assert (Hput : forall r', r_version r' = f_version f ->
            (r_applied r' = r_total r' \/ recorded r' (f_stmts f)) -> stored_ok f (tbl_put t r')).
  { intros r' Hv Hr' r Hg. rewrite <- Hv, tbl_get_put_same in Hg. inversion Hg; subst. exact Hr'. }
  assert (Hcur : forall c, r_applied r0 + c <= length (f_stmts f) ->
            r_version (cur hash HS f r0 c) = f_version f /\ recorded (cur hash HS f r0 c) (f_stmts f) /\
            r_total (cur hash HS f r0 c) = length (f_stmts f) /\ r_applied (cur hash HS f r0 c) = r_applied r0 + c).
  { intros c Hc. unfold cur. destruct (c =? 0) eqn:E.
    - apply Nat.eqb_eq in E. subst c. rewrite Nat.add_0_r. simpl. repeat split; auto; apply Hr0.
    - simpl. repeat split; auto. }
  assert (Hsto : forall c, r_applied r0 + c <= length (f_stmts f) ->
            r_version (sto hash HS f r0 c) = f_version f /\ recorded (sto hash HS f r0 c) (f_stmts f)).
  { intros c Hc. unfold sto. destruct (c =? 0); [split; assumption|]. simpl. repeat split; auto. }
  destruct Hsh as [_ -> _|c ok3 Hc _ _ ->|c s ok3 Hn _ _ ->|c s Hn _ _ ->].
  - exact Hinv.
  - destruct (Hcur c) as (Hv & Hrec & Ht & Ha); [lia|]. destruct (Hsto c) as (Hvs & Hrs); [lia|].
    destruct ok3; apply Hput; [simpl; exact Hv|left; simpl; lia|exact Hvs|right; exact Hrs].
  - assert (r_applied r0 + c < length (f_stmts f)) as Hlt by (apply nth_error_Some; congruence).
    destruct (Hcur c) as (Hv & Hrec & Ht & Ha); [lia|]. destruct (Hsto c) as (Hvs & Hrs); [lia|].
    destruct ok3; apply Hput; [simpl; exact Hv| |exact Hvs|right; exact Hrs].
    right. destruct Hrec as [A B]. split; simpl; assumption.
  - assert (r_applied r0 + c < length (f_stmts f)) as Hlt by (apply nth_error_Some; congruence).
    destruct (Hsto c) as (Hvs & Hrs); [lia|]. apply Hput; [exact Hvs|right; exact Hrs].
Qed.

(** Histories of a file: attempts through the store (arbitrary faults, only
    while the file is pending) interleaved with edits that leave the applied
    part alone (tail-only edits; any edit while nothing is recorded). *)
Inductive file_history : file -> list rev -> Prop :=
| FH_first f t : tbl_get t (f_version f) = None -> file_history f t
| FH_attempt f t fs o t' fs' es :
    file_history f t ->
    (forall r, tbl_get t (f_version f) = Some r -> r_applied r <> r_total r) ->
    execute_st f t fs = (o, t', fs', es) -> file_history f t'
| FH_tail_edit f f' t :
    file_history f t -> f_version f' = f_version f ->
    (forall r, tbl_get t (f_version f) = Some r -> r_applied r <> r_total r /\
       firstn (r_applied r) (f_stmts f') = firstn (r_applied r) (f_stmts f)) ->
    file_history f' t.

Lemma file_history_stored_ok f t : file_history f t -> stored_ok f t.
Proof.
  induction 1 as [f t Hn|f t fs o t' fs' es _ IH Hpend Hex|f f' t _ IH Hv Hed].
  - intros r Hg. congruence.
  - destruct (hd false fs) eqn:Hh.
    { rewrite (execute_st_read_error _ _ _ Hh) in Hex. inversion Hex; subst. exact IH. }
    rewrite (execute_st_read_ok _ _ _ Hh) in Hex.
    destruct (execute f t (tl fs)) as [[[o0 t0] fs0] es0] eqn:E. inversion Hex; subst.
    exact (execute_stored_ok f t (tl fs) o0 t' fs' es IH Hpend E).
  - intros r Hg. rewrite Hv in Hg. destruct (Hed r Hg) as [Hp Hs].
    destruct (IH r Hg) as [E|Hr]; [contradiction|]. right. exact (recorded_tail_edit r _ _ Hr Hs).
Qed.

(** After any such history, a partially applied file whose applied part is
    then edited is refused under every fault stream, with the first edited
    statement named when the lookup and the first write succeed. *)
Lemma C12_history_refuse_lemma f f_new t (r : rev) :
  file_history f t -> f_version f_new = f_version f ->
  tbl_get t (f_version f) = Some r -> 0 < r_applied r -> r_applied r <> r_total r ->
  firstn (r_applied r) (f_stmts f_new) <> firstn (r_applied r) (f_stmts f) ->
  forall fs o t' fs' es, execute_st f_new t fs = (o, t', fs', es) ->
  collision_at (f_stmts f) (f_stmts f_new) (r_applied r) \/
  (exec_events es = [] /\ t' = t /\ o <> SExec ODone /\
   (hd false fs = false -> hd false (tl fs) = false ->
      exists i, o = SExec (OHistory i) /\ 1 <= i <= r_applied r)).
Proof.
  intros HH Hv Hget Hpos Hpart Hne fs o t' fs' es Hex.
  destruct (file_history_stored_ok _ _ HH r Hget) as [E|Hrec]; [contradiction|].
  rewrite <- Hv in Hget.
  destruct (C12_refuse_st_lemma t fs f_new r (f_stmts f) Hget Hpos Hrec Hne _ _ _ _ Hex)
    as [Hcol|(He & Ht' & Ho & _ & _ & Hh)]; [left; exact Hcol|right; auto].
Qed.

Lemma C12_history_tail_lemma f f_new t (r : rev) :
  file_history f t -> f_version f_new = f_version f ->
  tbl_get t (f_version f) = Some r -> r_applied r <> r_total r ->
  firstn (r_applied r) (f_stmts f_new) = firstn (r_applied r) (f_stmts f) ->
  exists t' es r',
    execute_st f_new t [] = (SExec ODone, t', [], es) /\
    journal es = map (pair (f_version f_new)) (skipn (r_applied r) (f_stmts f_new)) /\
    tbl_get t' (f_version f_new) = Some r' /\
    r_applied r' = length (f_stmts f_new) /\ r_total r' = length (f_stmts f_new) /\ r_hashes r' = [] /\
    (forall v', v' <> f_version f_new -> tbl_get t' v' = tbl_get t v').
Proof.
  intros HH Hv Hget Hpart Hsame.
  destruct (file_history_stored_ok _ _ HH r Hget) as [E|Hrec]; [contradiction|].
  rewrite <- Hv in Hget.
  exact (C12_tail_st_lemma t f_new r (f_stmts f) Hget Hrec Hsame).
Qed.

End Proofs.
