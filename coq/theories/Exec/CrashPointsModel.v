(** Names of the crash points of M-TX as the hook calls spell them
    (sql/migrate/migrate.go: verifPoint("before-exec") ... ; cmdapi/migrate.go: tx.commit).
    [point_name] is what the extracted driver prints and parses; [all_points] enumerates the type.
    The census of the hook calls in the Go tree is generated: gen/Gen_CrashPoints.v. No proofs here. *)
From Coq Require Import List String.
From Atlas Require Import Exec.TxModel.
Import ListNotations.
Open Scope string_scope.

Definition point_name (p : point) : string :=
  match p with
  | BeforeExec => "before-exec" | AfterExec => "after-exec"
  | BeforeWrite => "before-write" | AfterWrite => "after-write"
  | BeforeCommit => "before-commit" | AfterCommit => "after-commit"
  end.

Definition all_points : list point :=
  [BeforeExec; AfterExec; BeforeWrite; AfterWrite; BeforeCommit; AfterCommit].

Definition point_of_name (s : string) : option point :=
  find (fun p => String.eqb (point_name p) s) all_points.

(** a hook call of the tree is covered iff its name is the name of a point of the model *)
Definition hooks_covered (hooks : list (string * string)) : bool :=
  forallb (fun h => match point_of_name (snd h) with Some _ => true | None => false end) hooks.
(** ... and every point of the model is a hook call of the tree *)
Definition points_hooked (hooks : list (string * string)) : bool :=
  forallb (fun p => existsb (fun h => String.eqb (snd h) (point_name p)) hooks) all_points.

(** (for the non-vacuity example: a hook the model does not know) *)
Definition example_unknown_hook : list (string * string) := [("sql/sqlite/driver.go", "after-lock")].
