(** C09 over the store contract: `atlas migrate apply --tx-mode none` over the
    Ent revision store (M-STORE-TX, [cli_apply_m TxNone], every revisions SELECT,
    every upsert and every statement may fail) is simulated, event by event and
    table by table, by a sequence of ideal [ExecuteN(1)] runs (one per file the
    loop reaches; a failing SELECT ends the run without an event). Hence the
    resume invariant of RunProofs.v transfers to the store model. *)
From Coq Require Import List NArith Bool Arith Lia.
From Atlas Require Import Base.Bytes Base.ListX Base.Stutter Exec.ExecModel Exec.ExecProofs Exec.StepProofs
  Exec.PendingModel Exec.PendingProofs Exec.RunModel Exec.TxModel Exec.TxProofs Exec.RunProofs
  Exec.StoreModel Exec.StoreProofs Exec.StoreTxModel.
Import ListNotations.

Lemma filter_version_none (l : list file) v :
  ~ In v (map f_version l) ->
  filter (fun tf => bytes_eqb (f_version (tf_file tf)) v) (map plain l) = [].
Proof.
  induction l as [|a l IH]; simpl; intros H; [reflexivity|].
  destruct (bytes_eqb (f_version a) v) eqn:E.
  - apply bytes_eqb_eq in E. exfalso. apply H. left. exact E.
  - apply IH. intros H'. apply H. right. exact H'.
Qed.

Lemma filter_version_unique (dirf : list file) (a : file) :
  NoDup (map f_version dirf) -> In a dirf ->
  filter (fun tf => bytes_eqb (f_version (tf_file tf)) (f_version a)) (map plain dirf) = [plain a].
Proof.
  induction dirf as [|x l IH]; intros Hnd Hin; [destruct Hin|].
  inversion Hnd as [|? ? Hx Hnd']; subst. simpl.
  destruct Hin as [->|Hin].
  - rewrite bytes_eqb_refl. f_equal. apply filter_version_none. exact Hx.
  - destruct (bytes_eqb (f_version x) (f_version a)) eqn:E.
    + apply bytes_eqb_eq in E. exfalso. apply Hx. rewrite E. apply in_map. exact Hin.
    + apply IH; assumption.
Qed.

Lemma with_directives_plain (dirf chosen : list file) :
  NoDup (map f_version dirf) -> incl chosen dirf ->
  with_directives (map plain dirf) chosen = map plain chosen.
Proof.
  intros Hnd. induction chosen as [|a l IH]; intros Hin; [reflexivity|].
  unfold with_directives in *. simpl.
  rewrite (filter_version_unique dirf a Hnd (Hin a (or_introl eq_refl))). simpl. f_equal.
  apply IH. intros x Hx. apply Hin. right. exact Hx.
Qed.

Lemma in_firstn {A} n (l : list A) x : In x (firstn n l) -> In x l.
Proof. intros H. rewrite <- (firstn_skipn n l). apply in_or_app. left. exact H. Qed.
Lemma in_skipn {A} n (l : list A) x : In x (skipn n l) -> In x l.
Proof. intros H. rewrite <- (firstn_skipn n l). apply in_or_app. right. exact H. Qed.

Section StoreRun.
Variable hash : Type.
Variable hash_eqb : hash -> hash -> bool.
Variable HS : bytes -> hash.
Hypothesis hash_eqb_spec : forall a b, hash_eqb a b = true <-> a = b.
Notation rev := (rev hash).
Notation event := (event hash).
Notation sdb := (sdb hash).

(** number of failed bookkeeping writes directly after a statement, run by run *)
Definition m_wf (outs : list (cx_outcome * sdb * list event)) : nat :=
  list_sum (map (fun x => wf (snd x)) outs).

Lemma execute_st_cases f (t : list rev) fs :
  execute_st hash hash_eqb HS f t fs =
  let '(b, fs0) := pop fs in
  if b then (SReadErr, t, fs0, [])
  else let '(o, t', fs', es) := execute hash hash_eqb HS f t fs0 in (SExec o, t', fs', es).
Proof.
  unfold execute_st, read_revision. destruct (pop fs) as [b fs0]. destruct b; [reflexivity|].
  destruct (tbl_get t (f_version f)) as [r|] eqn:E; rewrite <- E, (execute_rd_get hash hash_eqb HS f t fs0); reflexivity.
Qed.

Lemma run_all_app (a b : list run) (t : list rev) :
  run_all hash hash_eqb HS (a ++ b) t =
  run_all hash hash_eqb HS a t ++ run_all hash hash_eqb HS b (final_tbl hash (run_all hash hash_eqb HS a t) t).
Proof.
  revert t; induction a as [|r a IH]; intros t; [reflexivity|].
  cbn [app RunModel.run_all].
  destruct (execute_n hash hash_eqb HS (run_cfg r) (run_n r) (run_dir r) t (run_faults r)) as [[[o t'] fs'] es].
  rewrite IH. reflexivity.
Qed.

Section Dir.
Variable all : list file.
Hypothesis Hsorted : sorted_files all.
Variable skipped : list file.
Hypothesis Hfull : sorted_files (skipped ++ all).
Hypothesis Hfresh : from_last_ckpt (skipped ++ all) = all.
Notation dir := (skipped ++ all).
Notation Inv := (Inv hash HS all).
Notation normal := (normal all).
Notation run_all := (run_all hash hash_eqb HS).
Notation run_ok := (run_ok all skipped).
Notation GInv := (GInv hash HS all).

Lemma ideal_one c f l (t : list rev) k a has fs0 :
  cfg_ok c -> Inv t k a has -> normal k a has -> skipn k all = f :: l ->
  execute_n hash hash_eqb HS c 1 dir t fs0 =
  let '(o, t1, fs1, es) := execute hash hash_eqb HS f t fs0 in (RExec o, t1, fs1, es).
Proof.
  intros Hc HI Hn Esk.
  pose proof (pending_inv hash HS all Hsorted skipped Hfull Hfresh c t k a has Hc HI Hn) as Hp.
  rewrite Esk in Hp. change (finish (f :: l)) with (PFiles (f :: l)) in Hp.
  rewrite (execute_n_first_n hash hash_eqb HS c 1 dir t fs0 _ Hp).
  change (if 0 <? 1 then firstn 1 (f :: l) else f :: l) with [f].
  rewrite exec_files_single. reflexivity.
Qed.

Definition simulated (t : list rev) (es : list event) (t' : list rev) : Prop :=
  exists rs, Forall run_ok rs /\
    all_events hash (run_all rs t) = es /\
    final_tbl hash (run_all rs t) t = t' /\
    wf_all hash (run_all rs t) <= wf es.

Lemma simulated_nil t : simulated t [] t.
Proof. exists []. split; [constructor|]. simpl. repeat split. unfold wf_all, wf. simpl. lia. Qed.

Lemma apply_files_m_sim c : cfg_ok c ->
  forall files (t : list rev) j0 fs o cd w' fs' es k a has,
  Inv t k a has -> normal k a has ->
  files = firstn (length files) (skipn k all) ->
  apply_files_m hash hash_eqb HS TxNone (map plain files) (mkSdb j0 t) None fs = (o, cd, w', fs', es) ->
  w' = None /\ s_journal cd = j0 ++ journal es /\ simulated t es (s_tbl cd).
Proof.
  intros Hc. induction files as [|f rest IH]; intros t j0 fs o cd w' fs' es k a has HI Hn Hfiles Hex.
  - simpl in Hex. inversion Hex; subst. simpl. split; [reflexivity|]. split; [rewrite app_nil_r; reflexivity|].
    apply simulated_nil.
  - cbn [length firstn] in Hfiles.
    destruct (skipn k all) as [|f' tl] eqn:Esk; [discriminate|].
    inversion Hfiles as [[Ef Erest]]. subst f'.
    destruct (skipn_cons_inv all k f tl Esk) as [Hnth Esk'].
    cbn [map apply_files_m] in Hex.
    change (mode_for TxNone (plain f)) with (Some TxNone) in Hex.
    unfold exec_on in Hex. cbn [tf_file plain s_tbl s_journal] in Hex.
    rewrite execute_st_cases in Hex.
    destruct (pop fs) as [b fs0]. destruct b.
    + inversion Hex; subst. simpl. split; [reflexivity|]. split; [rewrite app_nil_r; reflexivity|].
      apply simulated_nil.
    + pose proof (ideal_one c f tl t k a has fs0 Hc HI Hn Esk) as Hid.
      destruct (execute hash hash_eqb HS f t fs0) as [[[o1 t1] fs1] es1] eqn:EX.
      set (r1 := mkRun c 1 dir fs0).
      assert (Hr1 : run_ok r1) by (split; [reflexivity|exact Hc]).
      assert (Hone : run_all [r1] t = [(RExec o1, t1, es1)]).
      { cbn [RunModel.run_all]. unfold r1. cbn [run_cfg run_n run_dir run_faults]. rewrite Hid. reflexivity. }
      assert (o1 = ODone \/ o1 <> ODone) as [Eo|Hne] by (destruct o1; auto; right; discriminate).
      * subst o1.
        destruct (apply_files_m hash hash_eqb HS TxNone (map plain rest) (mkSdb (j0 ++ journal es1) t1) None fs1)
          as [[[[o2 c2] w2] fs2] es2] eqn:EX2.
        inversion Hex; subst o cd w' fs' es. clear Hex.
        assert (Hx : exec_files hash hash_eqb HS [f] t fs0 = (ODone, t1, fs1, es1))
          by (rewrite exec_files_single; exact EX).
        assert (Hf1 : [f] = firstn (length [f]) (skipn k all)) by (rewrite Esk; reflexivity).
        destruct (exec_files_inv hash hash_eqb HS hash_eqb_spec all Hsorted [f] t fs0 ODone t1 fs1 es1 k a has HI Hn Hf1 Hx)
          as (Hp & _ & Ht1).
        destruct (Hp es1 [] ltac:(rewrite app_nil_r; reflexivity)) as (k1 & a1 & has1 & e1 & HI1 & _ & _ & _ & H5).
        destruct (H5 eq_refl) as [_ Hd].
        assert (Hne1 : [f] <> []) by discriminate.
        destruct (Hd eq_refl (or_introl Hne1)) as (E1 & E2 & E3 & E4). subst k1 a1 has1 e1.
        rewrite <- Ht1 in HI1. replace (k + length [f]) with (S k) in HI1 by (simpl; lia).
        assert (Hn1 : normal (S k) 0 false) by (intros H; discriminate).
        assert (Erest' : rest = firstn (length rest) (skipn (S k) all)) by (rewrite Esk'; exact Erest).
        destruct (IH t1 (j0 ++ journal es1) fs1 o2 c2 w2 fs2 es2 (S k) 0 false HI1 Hn1 Erest' EX2)
          as (-> & Hj & rs' & Hok & Hev & Hft & Hwf).
        split; [reflexivity|]. split; [rewrite Hj, journal_app, app_assoc; reflexivity|].
        exists ([r1] ++ rs'). split; [constructor; assumption|].
        rewrite run_all_app, Hone. unfold final_tbl at 1. cbn [fold_left fst snd].
        unfold all_events, final_tbl, wf_all in *. rewrite flat_map_app, fold_left_app, map_app, list_sum_app.
        cbn [flat_map fold_left map list_sum fst snd]. rewrite app_nil_r, Hev, Hft.
        split; [reflexivity|]. split; [reflexivity|].
        pose proof (wf_app hash es1 es2).
        assert (list_sum [wf es1] = wf es1) as -> by (simpl; lia). lia.
      * assert ((MFail (SExec o1), mkSdb (j0 ++ journal es1) t1, @None sdb, fs1, es1) = (o, cd, w', fs', es)) as Eres.
        { rewrite <- Hex. destruct o1; try reflexivity. contradiction. }
        inversion Eres; subst o cd w' fs' es. clear Eres Hex.
        split; [reflexivity|]. split; [reflexivity|].
        exists [r1]. split; [constructor; [assumption|constructor]|].
        rewrite Hone. unfold all_events, final_tbl, wf_all. cbn [flat_map fold_left map fst snd s_tbl].
        rewrite app_nil_r. split; [reflexivity|]. split; [reflexivity|]. simpl. lia.
Qed.

Lemma map_tf_file_plain (l : list file) : map tf_file (map plain l) = l.
Proof. induction l as [|a l IH]; simpl; [reflexivity|]. rewrite IH. reflexivity. Qed.

(** One `atlas migrate apply [n] --tx-mode none` over the store, from any state that satisfies the invariant. *)
Lemma cli_apply_m_sim c n (d : sdb) fs co d' fs' es :
  cfg_ok c -> (exists k a has, Inv (s_tbl d) k a has) ->
  cli_apply_m hash hash_eqb HS TxNone c n (map plain dir) d fs = (co, d', fs', es) ->
  s_journal d' = s_journal d ++ journal es /\ simulated (s_tbl d) es (s_tbl d').
Proof.
  intros Hc (k0 & a0 & has0 & HI0) Hex.
  destruct (normalize hash HS all (s_tbl d) k0 a0 has0 HI0) as (k & a & has & HI & Hn & _).
  unfold cli_apply_m in Hex. rewrite map_tf_file_plain in Hex.
  unfold read_revisions_f in Hex.
  destruct (pop fs) as [b1 fs1]. destruct b1.
  { inversion Hex; subst. split; [rewrite app_nil_r; reflexivity|apply simulated_nil]. }
  rewrite (pending_inv hash HS all Hsorted skipped Hfull Hfresh c (s_tbl d) k a has Hc HI Hn) in Hex.
  cbn [negb] in Hex.
  destruct (skipn k all) as [|f l] eqn:Esk.
  - cbn [finish] in Hex. destruct (pop fs1) as [b2 fs2]. destruct b2; inversion Hex; subst; simpl;
      (split; [rewrite app_nil_r; reflexivity|apply simulated_nil]).
  - change (finish (f :: l)) with (PFiles (f :: l)) in Hex. cbv iota in Hex.
    destruct (pop fs1) as [b2 fs3]. destruct b2.
    { inversion Hex; subst. simpl. split; [rewrite app_nil_r; reflexivity|apply simulated_nil]. }
    set (chosen := if 0 <? n then firstn n (f :: l) else f :: l) in *.
    assert (Hch : chosen = firstn (length chosen) (skipn k all)).
    { rewrite Esk. unfold chosen. destruct (0 <? n); [apply firstn_length_self|].
      symmetry. apply firstn_all. }
    assert (Hincl : incl chosen dir).
    { intros x Hx. rewrite Hch in Hx. apply in_or_app. right. eapply in_skipn. eapply in_firstn. exact Hx. }
    rewrite (with_directives_plain dir chosen (sorted_files_NoDup _ Hfull) Hincl) in Hex.
    destruct d as [j0 t0]. cbn [s_tbl s_journal] in *.
    destruct (apply_files_m hash hash_eqb HS TxNone (map plain chosen) (mkSdb j0 t0) None fs3)
      as [[[[o c1] w1] fs4] es1] eqn:EX.
    destruct (apply_files_m_sim c Hc chosen t0 j0 fs3 o c1 w1 fs4 es1 k a has HI Hn Hch EX) as (-> & Hj & Hsim).
    assert ((XRun o, c1, fs4, [] ++ es1) = (co, d', fs', es)) as Eres.
    { rewrite <- Hex. destruct o; reflexivity. }
    inversion Eres; subst. simpl. split; assumption.
Qed.

(** ** histories of store runs *)
Definition mrun_ok (r : m_run) : Prop := mr_mode r = TxNone /\ mr_dir r = map plain dir.

Lemma m_cfg_ok : cfg_ok m_cfg.
Proof. split; reflexivity. Qed.

Lemma m_history_sim : forall (rs : list m_run) (d : sdb) J D,
  Forall mrun_ok rs -> GInv (s_tbl d) J D ->
  let outs := m_history hash hash_eqb HS rs d in
  s_journal (m_final hash outs d) = s_journal d ++ journal (m_events hash outs) /\
  exists irs, Forall run_ok irs /\
    all_events hash (run_all irs (s_tbl d)) = m_events hash outs /\
    final_tbl hash (run_all irs (s_tbl d)) (s_tbl d) = s_tbl (m_final hash outs d) /\
    wf_all hash (run_all irs (s_tbl d)) <= m_wf outs.
Proof.
  induction rs as [|r rs IH]; intros d J D Hok HG.
  - simpl. split; [rewrite app_nil_r; reflexivity|]. exists []. split; [constructor|].
    simpl. repeat split. unfold wf_all, m_wf. simpl. lia.
  - inversion Hok as [|? ? [Hm Hd] Hok']; subst.
    cbn [m_history]. rewrite Hm, Hd.
    destruct (cli_apply_m hash hash_eqb HS TxNone m_cfg (mr_n r) (map plain dir) d (mr_faults r))
      as [[[co d1] fs1] es1] eqn:EX.
    assert (HIe : exists k a has, Inv (s_tbl d) k a has).
    { destruct HG as (k & a & has & e & dd & HI & _). eauto. }
    destruct (cli_apply_m_sim m_cfg (mr_n r) d (mr_faults r) co d1 fs1 es1 m_cfg_ok HIe EX)
      as (Hj1 & irs1 & Hok1 & Hev1 & Hft1 & Hwf1).
    destruct (runs_ginv hash hash_eqb HS hash_eqb_spec all Hsorted skipped Hfull Hfresh irs1 (s_tbl d) J D Hok1 HG)
      as (HG1 & _).
    rewrite Hft1 in HG1.
    destruct (IH d1 _ _ Hok' HG1) as (Hj2 & irs2 & Hok2 & Hev2 & Hft2 & Hwf2).
    unfold m_events, m_final, m_wf in *. cbn [flat_map fold_left map list_sum fst snd].
    split.
    + rewrite Hj2, Hj1, journal_app, app_assoc. reflexivity.
    + exists (irs1 ++ irs2). split; [apply Forall_app; split; assumption|].
      rewrite run_all_app, Hft1.
      unfold all_events, final_tbl, wf_all in *.
      rewrite flat_map_app, fold_left_app, map_app, list_sum_app, Hev1, Hft1, Hev2, Hft2.
      split; [reflexivity|]. split; [reflexivity|]. unfold list_sum in *. cbn [fold_right] in *. lia.
Qed.

Lemma resume_store_lemma (rs : list m_run) :
  Forall mrun_ok rs ->
  let outs := m_history hash hash_eqb HS rs (mkSdb [] []) in
  exists P E reps,
    P <= E /\ E <= P + 1 /\ E <= length (plan all) /\ length reps = E /\
    s_journal (m_final hash outs (mkSdb [] [])) = expand (firstn E (plan all)) reps /\
    journal (m_events hash outs) = s_journal (m_final hash outs (mkSdb [] [])) /\
    list_sum reps <= m_wf outs /\
    claimed_plan hash all (s_tbl (m_final hash outs (mkSdb [] []))) = firstn P (plan all).
Proof.
  intros Hok outs.
  destruct (m_history_sim rs (mkSdb [] []) [] 0 Hok (GInv_nil hash HS all)) as (Hj & irs & Hoki & Hev & Hft & Hwf).
  fold outs in Hj, Hev, Hft, Hwf. cbn [s_tbl s_journal app] in *.
  destruct (resume_lemma hash hash_eqb HS hash_eqb_spec all Hsorted skipped Hfull Hfresh irs Hoki)
    as (P & E & reps & H1 & H2 & H3 & H4 & H5 & H6 & H7).
  exists P, E, reps. rewrite Hev in H5. rewrite Hft in H7.
  repeat (split; [assumption|]). split; [rewrite Hj; exact H5|]. split; [symmetry; exact Hj|].
  split; [lia|exact H7].
Qed.

Lemma never_overclaims_store_lemma (rs : list m_run) :
  Forall mrun_ok rs ->
  forall pre post, m_events hash (m_history hash hash_eqb HS rs (mkSdb [] [])) = pre ++ post ->
  exists P E reps,
    P <= E /\ E <= P + 1 /\ E <= length (plan all) /\ length reps = E /\
    journal pre = expand (firstn E (plan all)) reps /\
    claimed_plan hash all (tbl_of_events hash pre []) = firstn P (plan all) /\
    (forall r, In r (tbl_of_events hash pre []) ->
       exists f, In f all /\ claim_ok hash HS f r (r_applied r) /\ r_total r = length (f_stmts f)).
Proof.
  intros Hok pre post E.
  destruct (m_history_sim rs (mkSdb [] []) [] 0 Hok (GInv_nil hash HS all)) as (_ & irs & Hoki & Hev & _).
  cbn [s_tbl] in Hev. rewrite <- Hev in E.
  exact (never_overclaims_runs hash hash_eqb HS hash_eqb_spec all Hsorted skipped Hfull Hfresh irs Hoki pre post E).
Qed.

End Dir.

(** ** whole directories (checkpoint files allowed) *)
Section Full.
Variable full : list file.
Hypothesis Hfs : sorted_files full.
Notation all := (from_last_ckpt full).

Definition mrun_on (r : m_run) : Prop := mr_mode r = TxNone /\ mr_dir r = map plain full.

Lemma mrun_on_ok sk rs : full = sk ++ all -> Forall mrun_on rs -> Forall (mrun_ok all sk) rs.
Proof.
  intros E H. induction H as [|r rs [H1 H2] _ IH]; constructor; [|exact IH].
  split; [exact H1|]. rewrite <- E. exact H2.
Qed.

Lemma resume_store_full (rs : list m_run) :
  Forall mrun_on rs ->
  let outs := m_history hash hash_eqb HS rs (mkSdb [] []) in
  exists P E reps,
    P <= E /\ E <= P + 1 /\ E <= length (plan all) /\ length reps = E /\
    s_journal (m_final hash outs (mkSdb [] [])) = expand (firstn E (plan all)) reps /\
    journal (m_events hash outs) = s_journal (m_final hash outs (mkSdb [] [])) /\
    list_sum reps <= m_wf outs /\
    claimed_plan hash all (s_tbl (m_final hash outs (mkSdb [] []))) = firstn P (plan all).
Proof.
  intros Hok. destruct (full_split full Hfs) as (sk & Efull & Hs1 & Hs2 & Hfr).
  exact (resume_store_lemma all Hs1 sk Hs2 Hfr rs (mrun_on_ok sk rs Efull Hok)).
Qed.

Lemma never_overclaims_store_full (rs : list m_run) :
  Forall mrun_on rs ->
  forall pre post, m_events hash (m_history hash hash_eqb HS rs (mkSdb [] [])) = pre ++ post ->
  exists P E reps,
    P <= E /\ E <= P + 1 /\ E <= length (plan all) /\ length reps = E /\
    journal pre = expand (firstn E (plan all)) reps /\
    claimed_plan hash all (tbl_of_events hash pre []) = firstn P (plan all) /\
    (forall r, In r (tbl_of_events hash pre []) ->
       exists f, In f all /\ claim_ok hash HS f r (r_applied r) /\ r_total r = length (f_stmts f)).
Proof.
  intros Hok. destruct (full_split full Hfs) as (sk & Efull & Hs1 & Hs2 & Hfr).
  exact (never_overclaims_store_lemma all Hs1 sk Hs2 Hfr rs (mrun_on_ok sk rs Efull Hok)).
Qed.

End Full.
End StoreRun.
