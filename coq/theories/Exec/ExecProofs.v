(** Proofs about M-EXEC used by C12 (and shared with C09). *)
From Coq Require Import List NArith Bool Arith Lia.
From Atlas Require Import Base.Bytes Base.ListX Exec.ExecModel.
Import ListNotations.

Section Proofs.
Variable hash : Type.
Variable hash_eqb : hash -> hash -> bool.
Variable HS : bytes -> hash.
Hypothesis hash_eqb_spec : forall a b, hash_eqb a b = true <-> a = b.

Notation rev := (rev hash).
Notation sums := (sums hash HS).
Notation sums_from := (sums_from hash HS).
Notation check_loop := (check_loop hash hash_eqb).
Notation execute := (execute hash hash_eqb HS).
Notation run_stmts := (run_stmts hash).

(** ** table lemmas *)
Lemma tbl_get_version (t : list rev) v r : tbl_get t v = Some r -> r_version r = v.
Proof.
  induction t as [|x t IH]; simpl; [discriminate|].
  destruct (bytes_eqb (r_version x) v) eqn:E; intros H.
  - inversion H; subst. apply bytes_eqb_eq; exact E.
  - auto.
Qed.

Lemma tbl_put_same (t : list rev) v r : tbl_get t v = Some r -> tbl_put t r = t.
Proof.
  induction t as [|x t IH]; simpl; [discriminate|].
  destruct (bytes_eqb (r_version x) v) eqn:E; intros H.
  - inversion H; subst. rewrite bytes_eqb_refl. reflexivity.
  - pose proof (tbl_get_version _ _ _ H) as Hv. subst v. rewrite E. f_equal. auto.
Qed.

Lemma tbl_get_put_same (t : list rev) r : tbl_get (tbl_put t r) (r_version r) = Some r.
Proof.
  induction t as [|x t IH]; simpl.
  - rewrite bytes_eqb_refl. reflexivity.
  - destruct (bytes_eqb (r_version x) (r_version r)) eqn:E; simpl.
    + rewrite bytes_eqb_refl. reflexivity.
    + rewrite E. exact IH.
Qed.

Lemma tbl_get_put_other (t : list rev) r v :
  v <> r_version r -> tbl_get (tbl_put t r) v = tbl_get t v.
Proof.
  intros Hne. induction t as [|x t IH]; simpl.
  - destruct (bytes_eqb (r_version r) v) eqn:E; [apply bytes_eqb_eq in E; congruence|reflexivity].
  - destruct (bytes_eqb (r_version x) (r_version r)) eqn:E; simpl.
    + apply bytes_eqb_eq in E.
      destruct (bytes_eqb (r_version r) v) eqn:E1; [apply bytes_eqb_eq in E1; congruence|].
      destruct (bytes_eqb (r_version x) v) eqn:E2; [apply bytes_eqb_eq in E2; congruence|].
      reflexivity.
    + destruct (bytes_eqb (r_version x) v); [reflexivity|exact IH].
Qed.

Lemma tbl_put_put (t : list rev) a b :
  r_version a = r_version b -> tbl_put (tbl_put t a) b = tbl_put t b.
Proof.
  intros E. induction t as [|x t IH]; simpl.
  - rewrite E, bytes_eqb_refl. reflexivity.
  - destruct (bytes_eqb (r_version x) (r_version a)) eqn:Ea; simpl.
    + rewrite <- E, Ea. rewrite E, bytes_eqb_refl. reflexivity.
    + rewrite <- E, Ea. rewrite E in *. f_equal. exact IH.
Qed.

(** ** sums *)
Lemma sums_from_length acc ss : length (sums_from acc ss) = length ss.
Proof. revert acc; induction ss as [|s ss IH]; intros acc; simpl; [reflexivity|]. rewrite IH; reflexivity. Qed.

Lemma sums_length ss : length (sums ss) = length ss.
Proof. apply sums_from_length. Qed.

Lemma sums_from_nth acc ss i :
  i < length ss ->
  nth_error (sums_from acc ss) i = Some (HS (acc ++ concat (firstn (S i) ss))).
Proof.
  revert acc i; induction ss as [|s ss IH]; intros acc i Hi; simpl in Hi; [lia|].
  destruct i as [|i].
  - simpl. rewrite app_nil_r. reflexivity.
  - cbn [sums_from nth_error]. rewrite IH by lia.
    cbn [firstn concat]. rewrite app_assoc. reflexivity.
Qed.

Lemma sums_nth ss i :
  i < length ss -> nth_error (sums ss) i = Some (HS (concat (firstn (S i) ss))).
Proof. intros Hi. unfold ExecModel.sums. rewrite sums_from_nth by exact Hi. reflexivity. Qed.

(** Prefixes whose cumulative concatenations agree are equal. *)
Lemma prefix_concats_eq (a b : list bytes) k :
  k <= length a -> k <= length b ->
  (forall j, j < k -> concat (firstn (S j) a) = concat (firstn (S j) b)) ->
  firstn k a = firstn k b.
Proof.
  induction k as [|k IH]; intros Ha Hb H; [reflexivity|].
  destruct (nth_error_some_lt a k) as [x Hx]; [lia|].
  destruct (nth_error_some_lt b k) as [y Hy]; [lia|].
  assert (firstn k a = firstn k b) as E by (apply IH; [lia|lia|intros j Hj; apply H; lia]).
  specialize (H k (Nat.lt_succ_diag_r k)).
  rewrite (firstn_S_snoc a k x Hx), (firstn_S_snoc b k y Hy) in *.
  rewrite !concat_app in H. simpl in H. rewrite !app_nil_r in H.
  rewrite E in H. apply app_inv_head in H. subst. rewrite E. reflexivity.
Qed.

(** Bounded search for the first index whose cumulative concatenations differ. *)
Lemma concats_dec (a b : list bytes) k :
  (forall j, j < k -> concat (firstn (S j) a) = concat (firstn (S j) b)) \/
  (exists j, j < k /\ concat (firstn (S j) a) <> concat (firstn (S j) b)).
Proof.
  induction k as [|k [IH|[j [Hj Hne]]]].
  - left; intros j Hj; lia.
  - destruct (bytes_eq_dec (concat (firstn (S k) a)) (concat (firstn (S k) b))) as [E|E].
    + left; intros j Hj. destruct (Nat.eq_dec j k); [subst; exact E|apply IH; lia].
    + right; exists k; split; [lia|exact E].
  - right; exists j; split; [lia|exact Hne].
Qed.

(** ** check_loop *)
Lemma check_loop_ok k i sm hs :
  check_loop k i sm hs = Some None ->
  forall j, i <= j < i + k ->
    j < length sm /\ exists a, nth_error sm j = Some a /\ nth_error hs j = Some a.
Proof.
  revert i; induction k as [|k IH]; intros i H j Hj; [lia|].
  simpl in H.
  destruct (length sm <=? i) eqn:L; [discriminate|].
  apply Nat.leb_gt in L.
  destruct (nth_error sm i) as [a|] eqn:Ea; [|discriminate].
  destruct (nth_error hs i) as [b|] eqn:Eb; [|discriminate].
  destruct (hash_eqb a b) eqn:Eh; [|discriminate].
  apply hash_eqb_spec in Eh; subst b.
  destruct (Nat.eq_dec j i) as [->|Hne].
  - split; [exact L|]. exists a; auto.
  - apply (IH (S i) H). lia.
Qed.

Lemma check_loop_changed k i sm hs c :
  check_loop k i sm hs = Some (Some c) -> i <= c < i + k.
Proof.
  revert i; induction k as [|k IH]; intros i H; simpl in H; [discriminate|].
  destruct (length sm <=? i); [inversion H; lia|].
  destruct (nth_error sm i); [|discriminate].
  destruct (nth_error hs i); [|discriminate].
  destruct (hash_eqb h h0); [apply IH in H; lia|inversion H; lia].
Qed.

Lemma check_loop_no_panic k i sm hs :
  i + k <= length hs -> check_loop k i sm hs <> None.
Proof.
  revert i; induction k as [|k IH]; intros i H; simpl; [discriminate|].
  destruct (length sm <=? i) eqn:L; [discriminate|].
  apply Nat.leb_gt in L.
  destruct (nth_error_some_lt sm i L) as [a ->].
  destruct (nth_error_some_lt hs i) as [b ->]; [lia|].
  destruct (hash_eqb a b); [apply IH; lia|discriminate].
Qed.

(** If the prefix is unchanged the loop accepts. *)
Lemma check_loop_same k i sm hs :
  (forall j, i <= j < i + k -> j < length sm /\ nth_error sm j = nth_error hs j) ->
  check_loop k i sm hs = Some None.
Proof.
  revert i; induction k as [|k IH]; intros i H; simpl; [reflexivity|].
  destruct (H i) as [L E]; [lia|].
  destruct (length sm <=? i) eqn:L'; [apply Nat.leb_le in L'; lia|].
  destruct (nth_error_some_lt sm i L) as [a Ea]. rewrite Ea. rewrite <- E, Ea.
  assert (hash_eqb a a = true) as -> by (apply hash_eqb_spec; reflexivity).
  apply IH. intros j Hj. apply H. lia.
Qed.

(** ** write *)
Lemma write_ok_inv (t : list rev) fs r ok t' fs' e :
  write t fs r = (ok, t', fs', e) ->
  e = EWrite r ok /\ (ok = true -> t' = tbl_put t r) /\ (ok = false -> t' = t) /\
  ok = negb (fst (pop fs)) /\ fs' = snd (pop fs).
Proof.
  unfold write. destruct (pop fs) as [fail fs1]. destruct fail; intros H; inversion H; subst; simpl;
    repeat split; auto; discriminate.
Qed.

(** ** run_stmts: never panics when the sums cover the statements, and
    with no pending fault it runs everything. *)
Lemma run_stmts_no_panic v rest srest r t fs :
  length srest = length rest ->
  let '(o, _, _, _, _) := run_stmts v rest srest r t fs in o <> OPanic.
Proof.
  revert srest r t fs; induction rest as [|s rest IH]; intros srest r t fs Hl; simpl; [discriminate|].
  destruct (pop fs) as [fail fs1]. destruct fail; [discriminate|].
  destruct srest as [|h srest]; [simpl in Hl; lia|].
  destruct (write t fs1 (step_applied r h)) as [[[ok t2] fs2] e] eqn:W.
  destruct ok; [|discriminate].
  specialize (IH srest (step_applied r h) t2 fs2).
  destruct (run_stmts v rest srest (step_applied r h) t2 fs2) as [[[[o r''] t3] fs3] es].
  apply IH. simpl in Hl; lia.
Qed.

Lemma run_stmts_nofault v rest srest r t :
  length srest = length rest ->
  exists r' t' es,
    run_stmts v rest srest r t [] = (ODone, r', t', [], es) /\
    journal es = map (pair v) rest /\
    r_applied r' = r_applied r + length rest /\
    r_total r' = r_total r /\ r_version r' = r_version r /\
    r_hashes r' = r_hashes r ++ srest /\
    (rest <> [] -> r_err r' = false /\ t' = tbl_put t r') /\ (rest = [] -> r' = r /\ t' = t) /\
    (forall v', v' <> r_version r -> tbl_get t' v' = tbl_get t v').
Proof.
  revert srest r t; induction rest as [|s rest IH]; intros srest r t Hl.
  - destruct srest; [|simpl in Hl; lia]. exists r, t, []. simpl.
    rewrite Nat.add_0_r, app_nil_r. repeat split; auto; congruence.
  - destruct srest as [|h srest]; [simpl in Hl; lia|].
    simpl. destruct (IH srest (step_applied r h) (tbl_put t (step_applied r h))) as
        (r' & t' & es & Hrun & Hj & Ha & Ht & Hv & Hh & Hne & Hnil & Hoth); [simpl in Hl; lia|].
    rewrite Hrun. exists r', t', (EExec v (r_applied r) s true :: EWrite (step_applied r h) true :: es).
    split; [reflexivity|]. simpl. rewrite Hj. simpl in *.
    repeat split; auto; try lia; try congruence.
    + rewrite Hh, <- app_assoc. reflexivity.
    + destruct rest as [|s' rest'].
      * destruct (Hnil eq_refl) as [-> ->]. reflexivity.
      * apply Hne; discriminate.
    + destruct rest as [|s' rest'].
      * destruct (Hnil eq_refl) as [-> ->]. reflexivity.
      * destruct Hne as [_ ->]; [discriminate|]. apply tbl_put_put. simpl. congruence.
    + intros v' Hv'. rewrite Hoth by exact Hv'. apply tbl_get_put_other. exact Hv'.
Qed.

(** ** C12 *)

(** An explicit collision of [HS] between the cumulative concatenations of
    the recorded and the current statements. *)
Definition collision_at (old new : list bytes) (k : nat) : Prop :=
  exists j, j < k /\
    concat (firstn (S j) new) <> concat (firstn (S j) old) /\
    HS (concat (firstn (S j) new)) = HS (concat (firstn (S j) old)).

Definition recorded (r : rev) (old : list bytes) : Prop :=
  r_applied r <= length old /\ r_hashes r = firstn (r_applied r) (sums old).

Lemma recorded_nth r old j :
  recorded r old -> j < r_applied r ->
  nth_error (r_hashes r) j = Some (HS (concat (firstn (S j) old))).
Proof.
  intros [Hk Hh] Hj. rewrite Hh.
  rewrite nth_error_firstn by exact Hj. apply sums_nth. lia.
Qed.

Lemma recorded_length r old : recorded r old -> length (r_hashes r) = r_applied r.
Proof. intros [Hk ->]. rewrite firstn_length, sums_length. lia. Qed.

Lemma C12_refuse_lemma t fs f r old :
  tbl_get t (f_version f) = Some r ->
  0 < r_applied r -> recorded r old ->
  firstn (r_applied r) (f_stmts f) <> firstn (r_applied r) old ->
  forall o t' fs' es, execute f t fs = (o, t', fs', es) ->
  collision_at old (f_stmts f) (r_applied r) \/
  (exec_events es = [] /\ t' = t /\
   (hd false fs = true -> o = OWriteErr) /\
   (hd false fs = false -> exists i, o = OHistory i /\ 1 <= i <= r_applied r)).
Proof.
  intros Hget Hpos Hrec Hne o t' fs' es Hex.
  unfold ExecModel.execute in Hex. rewrite Hget in Hex.
  destruct (write t fs r) as [[[ok t1] fs1] e1] eqn:W1.
  apply write_ok_inv in W1 as (He1 & Hok1 & Hfail1 & Hokv & Hfs1).
  destruct ok; simpl in Hex.
  2:{ inversion Hex; subst. right. rewrite Hfail1 by reflexivity.
      repeat split; auto.
      intros Hh. destruct fs as [|[] ?]; simpl in *; discriminate. }
  rewrite (Hok1 eq_refl), (tbl_put_same _ _ _ Hget) in *.
  assert (0 <? r_applied r = true) as Hp by (apply Nat.ltb_lt; exact Hpos).
  rewrite Hp in Hex.
  destruct (check_loop (r_applied r) 0 (sums (f_stmts f)) (r_hashes r)) as [[c|]|] eqn:CL.
  - (* history changed *)
    destruct (write t fs1 r) as [[[ok2 t2] fs2] e2] eqn:W2.
    apply write_ok_inv in W2 as (He2 & Hok2 & Hfail2 & _ & _).
    inversion Hex; subst. right.
    assert (t' = t) as -> by (destruct ok2; [rewrite Hok2, (tbl_put_same _ _ _ Hget); reflexivity|auto]).
    repeat split; auto.
    + intros Hh. destruct fs as [|[] ?]; simpl in *; discriminate.
    + intros _. pose proof (check_loop_changed _ _ _ _ _ CL) as Hc.
      exists (S c). split; [reflexivity|]. lia.
  - (* accepted although the prefix differs: collision *)
    left. pose proof (check_loop_ok _ _ _ _ CL) as Hall.
    assert (r_applied r <= length (f_stmts f)) as Hlen.
    { destruct (Hall (r_applied r - 1)) as [L _]; [lia|]. rewrite sums_length in L. lia. }
    destruct (concats_dec (f_stmts f) old (r_applied r)) as [Hsame|[j [Hj Hd]]].
    + exfalso. apply Hne. apply prefix_concats_eq; auto. apply Hrec.
    + exists j. split; [exact Hj|]. split; [exact Hd|].
      destruct (Hall j) as [L [a [Ha Hb]]]; [lia|].
      rewrite sums_nth in Ha by (rewrite sums_length in L; exact L).
      rewrite (recorded_nth _ _ _ Hrec Hj) in Hb. congruence.
  - exfalso. eapply check_loop_no_panic; [|exact CL].
    rewrite (recorded_length _ _ Hrec). lia.
Qed.


Lemma journal_app (a b : list (event hash)) : journal (a ++ b) = journal a ++ journal b.
Proof.
  induction a as [|e a IH]; simpl; [reflexivity|].
  destruct e as [v i s [|]|r ok]; simpl; rewrite IH; reflexivity.
Qed.

Lemma exec_events_app (a b : list (event hash)) :
  exec_events (a ++ b) = exec_events a ++ exec_events b.
Proof.
  induction a as [|e a IH]; simpl; [reflexivity|].
  destruct e as [v i s ok|r ok]; simpl; rewrite IH; reflexivity.
Qed.

Lemma C12_no_panic_lemma f t fs :
  (forall r, tbl_get t (f_version f) = Some r -> r_applied r <= length (r_hashes r)) ->
  forall o t' fs' es, execute f t fs = (o, t', fs', es) -> o <> OPanic.
Proof.
  intros Hwf o t' fs' es Hex. unfold ExecModel.execute in Hex.
  set (stmts := f_stmts f) in *.
  set (r0 := match tbl_get t (f_version f) with Some r => r | None => new_rev (f_version f) (length stmts) end) in *.
  assert (r_applied r0 <= length (r_hashes r0)) as Hr0.
  { unfold r0. destruct (tbl_get t (f_version f)) eqn:G; [apply Hwf; reflexivity|simpl; lia]. }
  destruct (write t fs r0) as [[[ok t1] fs1] e1].
  destruct ok; simpl in Hex; [|inversion Hex; discriminate].
  destruct (0 <? r_applied r0) eqn:Hp.
  - destruct (check_loop (r_applied r0) 0 (sums stmts) (r_hashes r0)) as [[c|]|] eqn:CL.
    + destruct (write t1 fs1 r0) as [[[ok2 t2] fs2] e2]. inversion Hex; discriminate.
    + pose proof (check_loop_ok _ _ _ _ CL) as Hall. apply Nat.ltb_lt in Hp.
      destruct (Hall (r_applied r0 - 1)) as [L _]; [lia|]. rewrite sums_length in L.
      simpl in Hex.
      destruct (length stmts <? r_applied r0) eqn:Hlt; [apply Nat.ltb_lt in Hlt; lia|].
      pose proof (run_stmts_no_panic (f_version f) (skipn (r_applied r0) stmts)
                    (skipn (r_applied r0) (sums stmts)) (set_total r0 (length stmts)) t1 fs1) as NP.
      destruct (run_stmts _ _ _ _ _ _) as [[[[o2 r2] t2] fs2] es2].
      assert (o2 <> OPanic) as Ho2 by (apply NP; rewrite !skipn_length, sums_length; reflexivity).
      destruct o2; try (inversion Hex; subst; congruence).
      * destruct (write t2 fs2 (set_hashes r2 [])) as [[[ok3 t3] fs3] e3].
        inversion Hex. destruct ok3; discriminate.
      * destruct (write t2 fs2 r2) as [[[ok3 t3] fs3] e3]. inversion Hex; discriminate.
    + exfalso. eapply check_loop_no_panic; [|exact CL]. lia.
  - apply Nat.ltb_ge in Hp. simpl in Hex.
    destruct (length stmts <? r_applied r0) eqn:Hlt; [apply Nat.ltb_lt in Hlt; lia|].
    pose proof (run_stmts_no_panic (f_version f) (skipn (r_applied r0) stmts)
                  (skipn (r_applied r0) (sums stmts)) (set_total r0 (length stmts)) t1 fs1) as NP.
    destruct (run_stmts _ _ _ _ _ _) as [[[[o2 r2] t2] fs2] es2].
    assert (o2 <> OPanic) as Ho2 by (apply NP; rewrite !skipn_length, sums_length; reflexivity).
    destruct o2; try (inversion Hex; subst; congruence).
    * destruct (write t2 fs2 (set_hashes r2 [])) as [[[ok3 t3] fs3] e3].
      inversion Hex. destruct ok3; discriminate.
    * destruct (write t2 fs2 r2) as [[[ok3 t3] fs3] e3]. inversion Hex; discriminate.
Qed.

Lemma C12_tail_lemma t f r old :
  tbl_get t (f_version f) = Some r -> recorded r old ->
  firstn (r_applied r) (f_stmts f) = firstn (r_applied r) old ->
  exists t' es r',
    execute f t [] = (ODone, t', [], es) /\
    journal es = map (pair (f_version f)) (skipn (r_applied r) (f_stmts f)) /\
    tbl_get t' (f_version f) = Some r' /\
    r_applied r' = length (f_stmts f) /\ r_total r' = length (f_stmts f) /\ r_hashes r' = [] /\
    (forall v', v' <> f_version f -> tbl_get t' v' = tbl_get t v').
Proof.
  intros Hget Hrec Hsame.
  pose proof (tbl_get_version _ _ _ Hget) as Hver.
  destruct Hrec as [Hk Hh].
  set (k := r_applied r) in *. set (stmts := f_stmts f) in *.
  assert (k <= length stmts) as Hk'.
  { assert (length (firstn k stmts) = length (firstn k old)) as E by (rewrite Hsame; reflexivity).
    rewrite !firstn_length in E. lia. }
  unfold ExecModel.execute. fold stmts. rewrite Hget. fold k.
  unfold write at 1. simpl. rewrite (tbl_put_same _ _ _ Hget).
  assert ((if 0 <? k then check_loop k 0 (sums stmts) (r_hashes r) else Some None) = Some None) as ->.
  { destruct (0 <? k); [|reflexivity]. apply check_loop_same. intros j Hj.
    rewrite sums_length. split; [lia|].
    rewrite sums_nth by lia. rewrite Hh, nth_error_firstn by lia. rewrite sums_nth by lia.
    do 2 f_equal.
    assert (firstn (S j) stmts = firstn (S j) (firstn k stmts)) as ->
      by (rewrite firstn_firstn; f_equal; lia).
    rewrite Hsame, firstn_firstn. do 2 f_equal. lia. }
  assert (length stmts <? k = false) as Hlt by (apply Nat.ltb_ge; lia).
  simpl. fold k. rewrite Hlt.
  destruct (run_stmts_nofault (f_version f) (skipn k stmts) (skipn k (sums stmts))
              (set_total r (length stmts)) t) as
      (r2 & t2 & es & Hrun & Hj & Ha & Ht & Hv & Hhs & Hne & Hnil & Hoth).
  { rewrite !skipn_length, sums_length. reflexivity. }
  rewrite Hrun. unfold write. simpl.
  exists (tbl_put t2 (set_hashes r2 [])), (EWrite r true :: es ++ [EWrite (set_hashes r2 []) true]),
         (set_hashes r2 []).
  split; [reflexivity|]. simpl in *. rewrite journal_app. simpl. rewrite app_nil_r.
  split; [exact Hj|].
  split. { replace (f_version f) with (r_version (set_hashes r2 [])) by (simpl; congruence).
           apply tbl_get_put_same. }
  split. { rewrite Ha, skipn_length. fold k. lia. }
  split; [exact Ht|]. split; [reflexivity|].
  intros v' Hv'. rewrite tbl_get_put_other by (simpl; congruence). apply Hoth. congruence.
Qed.

End Proofs.
