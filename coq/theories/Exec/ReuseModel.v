(** M-REUSE: the [Executor] VALUE as explicit state.

    [migrate.Executor] keeps its migration directory in the field [e.dir].
    [Executor.ExecuteTo] (sql/migrate/migrate.go) is the one method that assigns
    it: when the requested version lies before a checkpoint file it swaps the
    directory for an in-memory copy of [files[:idx+1]], calls [e.Pending] (which
    may fail: nothing pending, MissingMigrationError, non-linear history, not
    clean, baseline errors) and puts the directory back:

        dir, mem := e.dir, &MemDir{}
        mem.CopyFiles(files[:idx+1])
        e.dir = mem
        pending, err = e.Pending(ctx)
        e.dir = dir
        if err != nil { return err }

    Here every method takes the executor and returns the executor it leaves
    behind, statement by statement ([set_dir] = the assignment to [e.dir]).
    [ExecuteN] and [Pending] read [e.dir] and do not assign it.  No proofs here. *)
From Coq Require Import List NArith Bool Arith.
From Atlas Require Import Base.Bytes Exec.ExecModel Exec.PendingModel Exec.RunModel.
Import ListNotations.

Section Reuse.
Variable hash : Type.
Variable hash_eqb : hash -> hash -> bool.
Variable HS : bytes -> hash.
Notation rev := (rev hash).
Notation event := (event hash).

(** The Executor value: its options and its [dir] field ([Dir.Files()] of it). *)
Record executor := mkExecutor { e_cfg : cfg; e_dir : list file }.
Definition set_dir (e : executor) (d : list file) : executor := mkExecutor (e_cfg e) d.

Inductive to_outcome :=
| TNotFound                 (* "migration with version %q not found" (in the directory, or among the pending files) *)
| TRun (ro : run_outcome).

(** What follows [pending, err = e.Pending(ctx)]: the baseline write Pending
    itself performs, `if err != nil { return err }`, the choice among the
    pending files, [e.exec]. *)
Definition exec_chosen (p : presult) (w : option rev) (choose : list file -> option (list file))
           (t : list rev) (fs : list bool) : to_outcome * list rev * list bool * list event :=
  let '(wok, t1, fs1, ev1) :=
    match w with
    | None => (true, t, fs, [])
    | Some r => let '(ok, t', fs', e) := write t fs r in (ok, t', fs', [e])
    end in
  if negb wok then (TRun (RPend PWriteErr), t1, fs1, ev1) else
  match p with
  | PFiles files =>
      match choose files with
      | None => (TNotFound, t1, fs1, ev1)
      | Some chosen =>
          let '(o, t2, fs2, es) := exec_files hash hash_eqb HS chosen t1 fs1 in
          (TRun (RExec o), t2, fs2, ev1 ++ es)
      end
  | _ => (TRun (RPend p), t1, fs1, ev1)
  end.

Definition version_is (v : bytes) (f : file) : bool := bytes_eqb (f_version f) v.

(** [Executor.ExecuteTo]. *)
Definition execute_to (e : executor) (v : bytes) (t : list rev) (fs : list bool)
  : to_outcome * executor * list rev * list bool * list event :=
  let files := e_dir e in
  match files_last_index (version_is v) files with
  | None => (TNotFound, e, t, fs, [])
  | Some idx =>
      if existsb f_ckpt (skipn (S idx) files) then
        (* the version is before a checkpoint: Pending would skip it *)
        let dir := e_dir e in
        let e1 := set_dir e (firstn (S idx) files) in                          (* e.dir = mem *)
        let '(p, w) := pending (e_cfg e1) (e_dir e1) (read_revisions hash t) in  (* pending, err = e.Pending(ctx) *)
        let e2 := set_dir e1 dir in                                            (* e.dir = dir *)
        let '(o, t', fs', es) := exec_chosen p w (fun l => Some l) t fs in
        (o, e2, t', fs', es)
      else
        let '(p, w) := pending (e_cfg e) (e_dir e) (read_revisions hash t) in
        let strip l := option_map (fun i => firstn (S i) l) (files_last_index (version_is v) l) in
        let '(o, t', fs', es) := exec_chosen p w strip t fs in
        (o, e, t', fs', es)
  end.

(** The same method WITHOUT the restore on the error path (the assignment
    [e.dir = dir] moved below `if err != nil { return err }`).  Used only by the
    witness [C09_executor_reuse_needs_restore]. *)
Definition is_files (p : presult) : bool := match p with PFiles _ => true | _ => false end.
Definition execute_to_leaky (e : executor) (v : bytes) (t : list rev) (fs : list bool)
  : to_outcome * executor * list rev * list bool * list event :=
  let files := e_dir e in
  match files_last_index (version_is v) files with
  | None => (TNotFound, e, t, fs, [])
  | Some idx =>
      if existsb f_ckpt (skipn (S idx) files) then
        let dir := e_dir e in
        let e1 := set_dir e (firstn (S idx) files) in
        let '(p, w) := pending (e_cfg e1) (e_dir e1) (read_revisions hash t) in
        let e2 := if is_files p then set_dir e1 dir else e1 in
        let '(o, t', fs', es) := exec_chosen p w (fun l => Some l) t fs in
        (o, e2, t', fs', es)
      else
        let '(p, w) := pending (e_cfg e) (e_dir e) (read_revisions hash t) in
        let strip l := option_map (fun i => firstn (S i) l) (files_last_index (version_is v) l) in
        let '(o, t', fs', es) := exec_chosen p w strip t fs in
        (o, e, t', fs', es)
  end.

(** [Executor.ExecuteN] / [Executor.Pending] of an executor value. *)
Definition execute_n_of (e : executor) (n : nat) (t : list rev) (fs : list bool) :=
  execute_n hash hash_eqb HS (e_cfg e) n (e_dir e) t fs.
Definition pending_of (e : executor) (t : list rev) : presult * option rev :=
  pending (e_cfg e) (e_dir e) (read_revisions hash t).

(** A session: method calls on ONE executor value, each with its own fault stream. *)
Inductive op :=
| OpN (n : nat) (fs : list bool)        (* ExecuteN(n) *)
| OpTo (v : bytes) (fs : list bool)     (* ExecuteTo(v) *)
| OpPending.                            (* Pending (a baseline write it asks for is performed, without fault) *)

Inductive op_result :=
| ResRun (o : to_outcome) (t : list rev) (es : list event)
| ResPending (p : presult) (t : list rev).

Section Session.
Variable exec_to : executor -> bytes -> list rev -> list bool -> to_outcome * executor * list rev * list bool * list event.

Definition step (e : executor) (o : op) (t : list rev) : op_result * executor * list rev :=
  match o with
  | OpN n fs =>
      let '(ro, t', _, es) := execute_n_of e n t fs in (ResRun (TRun ro) t' es, e, t')
  | OpTo v fs =>
      let '(o', e', t', _, es) := exec_to e v t fs in (ResRun o' t' es, e', t')
  | OpPending =>
      let '(p, w) := pending_of e t in
      let t' := match w with Some r => tbl_put t r | None => t end in
      (ResPending p t', e, t')
  end.

(** [session]: every call on the executor the previous call left behind. *)
Fixpoint session (e : executor) (ops : list op) (t : list rev) : list op_result :=
  match ops with
  | [] => []
  | o :: ops' => let '(r, e', t') := step e o t in r :: session e' ops' t'
  end.

(** [session_fresh]: every call on a NEW executor over the same directory and options ([e0]). *)
Fixpoint session_fresh (e0 : executor) (ops : list op) (t : list rev) : list op_result :=
  match ops with
  | [] => []
  | o :: ops' => let '(r, _, t') := step e0 o t in r :: session_fresh e0 ops' t'
  end.
End Session.

End Reuse.
