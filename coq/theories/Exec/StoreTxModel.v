(** M-STORE-TX: what `atlas migrate apply` runs the executor with -- the Ent
    revision store (M-STORE: [StoreModel.execute_st], every SELECT / upsert /
    statement pops one boolean of an arbitrary fault stream) under the CLI's
    transaction multiplexer with the mode resolved PER FILE
    (cmd/atlas/internal/cmdapi/migrate.go: tx.driverFor / modeFor / txmodeFor /
    mayRollback / mayCommit / commit; migrate_oss.go: migrateApplyRun).

    It joins the two existing models: [StoreModel.apply_files] (arbitrary
    storage faults, but one global mode none|file and no directives) and
    [TxModel.apply_loop] (all three modes and per-file directives, but only
    deterministic statement failures).  [TxModel.mode_for] is re-used as it is.

    State: the committed database [c] (journal of the statements whose effect
    is durable + revision table) and the working copy [w] of the open
    transaction, if any.  Assumed of the engine, not modelled: a transaction is
    atomic; BEGIN / COMMIT / ROLLBACK do not fail.  No proofs here. *)
From Coq Require Import List NArith Bool Arith.
From Atlas Require Import Base.Bytes Exec.ExecModel Exec.PendingModel Exec.RunModel Exec.TxModel Exec.StoreModel.
Import ListNotations.

Section StoreTx.
Variable hash : Type.
Variable hash_eqb : hash -> hash -> bool.
Variable HS : bytes -> hash.
Notation rev := (rev hash).
Notation event := (event hash).

(** journal = (version, statement) of every statement whose effect is in the database. *)
Record sdb := mkSdb { s_journal : list (bytes * bytes); s_tbl : list rev }.

Inductive mx_outcome :=
| MDone
| MFail (o : st_outcome)    (* Execute returned an error (incl. "read revision") *)
| MDirective.               (* tx.modeFor: invalid / conflicting txmode directive *)

(** [Execute] of one file on the state [d] (the connection or the open transaction). *)
Definition exec_on (f : tfile) (d : sdb) (fs : list bool) : st_outcome * sdb * list bool * list event :=
  let '(o, t1, fs1, es) := execute_st hash hash_eqb HS (tf_file f) (s_tbl d) fs in
  (o, mkSdb (s_journal d ++ journal es) t1, fs1, es).

(** The loop of migrateApplyRun:
      for _, f := range pending {
        if drv, rrw, err = mux.driverFor(ctx, f); err != nil { break }
        ...
        if err = mux.mayRollback(ex.Execute(ctx, f)); err != nil { break }
        if err = mux.mayCommit(); err != nil { break }
      }
    [g] = tx.mode (the global --tx-mode).  Result: outcome, committed state, open
    transaction, faults left, all events (also those rolled back). *)
Fixpoint apply_files_m (g : mode) (files : list tfile) (c : sdb) (w : option sdb) (fs : list bool)
  : mx_outcome * sdb * option sdb * list bool * list event :=
  match files with
  | [] => (MDone, c, w, fs, [])
  | f :: rest =>
      match mode_for g f with
      | None => (MDirective, c, w, fs, [])
      | Some TxNone =>
          (* driverFor: tx.c.Driver, tx.rrw -- every statement and every revision write is final *)
          let '(o, c1, fs1, es) := exec_on f c fs in
          match o with
          | SExec ODone =>
              let '(o2, c2, w2, fs2, es2) := apply_files_m g rest c1 w fs1 in
              (o2, c2, w2, fs2, es ++ es2)
          | _ => (MFail o, c1, w, fs1, es)       (* mayRollback: tx.tx == nil *)
          end
      | Some _ =>
          (* file: tx.tx = tx.c.Tx(..) (no open transaction here); all: the open one, or a new one *)
          let w0 := match w with Some x => x | None => c end in
          let '(o, w1, fs1, es) := exec_on f w0 fs in
          match o with
          | SExec ODone =>
              match g with
              | TxAll =>                         (* mayCommit: tx.mode == txModeAll -> nothing *)
                  let '(o2, c2, w2, fs2, es2) := apply_files_m g rest c (Some w1) fs1 in
                  (o2, c2, w2, fs2, es ++ es2)
              | _ =>                             (* mayCommit -> commit; tx.tx = nil *)
                  let '(o2, c2, w2, fs2, es2) := apply_files_m g rest w1 None fs1 in
                  (o2, c2, w2, fs2, es ++ es2)
              end
          | _ => (MFail o, c, None, fs1, es)     (* mayRollback: tx.tx.Rollback() *)
          end
      end
  end.

Inductive cx_outcome :=
| XReadErr                  (* one of the two ReadRevisions calls failed *)
| XPend (p : presult)
| XRun (o : mx_outcome).

(** The files Pending chose, with their directives. *)
Definition with_directives (dir : list tfile) (chosen : list file) : list tfile :=
  flat_map (fun f => filter (fun tf => bytes_eqb (f_version (tf_file tf)) (f_version f)) dir) chosen.

(** One `atlas migrate apply [n] --tx-mode g` from [ex.Pending] on
    (same text as [StoreModel.cli_apply]; the loop is [apply_files_m], then
    `if err == nil { err = mux.commit() }`). *)
Definition cli_apply_m (g : mode) (c : cfg) (n : nat) (dir : list tfile) (d : sdb) (fs : list bool)
  : cx_outcome * sdb * list bool * list event :=
  let t := s_tbl d in
  let '(r1, fs1) := read_revisions_f hash t fs in
  match r1 with
  | None => (XReadErr, d, fs1, [])
  | Some revs =>
      let '(p, w) := pending c (map tf_file dir) revs in
      let '(wok, t1, fs2, ev1) :=
        match w with
        | None => (true, t, fs1, [])
        | Some r => let '(ok, t', fs', e) := write t fs1 r in (ok, t', fs', [e])
        end in
      let d1 := mkSdb (s_journal d) t1 in
      if negb wok then (XPend PWriteErr, d1, fs2, ev1) else
      match p with
      | PFiles files =>
          let '(r2, fs3) := read_revisions_f hash t1 fs2 in
          match r2 with
          | None => (XReadErr, d1, fs3, ev1)
          | Some _ =>
              let chosen := if 0 <? n then firstn n files else files in
              let '(o, c1, w1, fs4, es) := apply_files_m g (with_directives dir chosen) d1 None fs3 in
              match o, w1 with
              | MDone, Some wd => (XRun MDone, wd, fs4, ev1 ++ es)   (* mux.commit() *)
              | _, _ => (XRun o, c1, fs4, ev1 ++ es)                (* an open transaction is rolled back on Close *)
              end
          end
      | PNoPending =>
          let '(r2, fs3) := read_revisions_f hash t1 fs2 in
          match r2 with
          | None => (XReadErr, d1, fs3, ev1)
          | Some _ => (XPend PNoPending, d1, fs3, ev1)
          end
      | _ => (XPend p, d1, fs2, ev1)
      end
  end.

(** A history of `migrate apply --allow-dirty` runs; mode, count, directory
    (tail edits!) and fault stream may change between runs. *)
Record m_run := mkMRun { mr_mode : mode; mr_n : nat; mr_dir : list tfile; mr_faults : list bool }.

Definition m_cfg : cfg := mkCfg Linear None true true.

Fixpoint m_history (rs : list m_run) (d : sdb) : list (cx_outcome * sdb * list event) :=
  match rs with
  | [] => []
  | r :: rs' =>
      let '(o, d', _, es) := cli_apply_m (mr_mode r) m_cfg (mr_n r) (mr_dir r) d (mr_faults r) in
      (o, d', es) :: m_history rs' d'
  end.

(** What a history leaves: all events in order, and the final database. *)
Definition m_events (outs : list (cx_outcome * sdb * list event)) : list event :=
  flat_map (fun x => snd x) outs.
Definition m_final (outs : list (cx_outcome * sdb * list event)) (d : sdb) : sdb :=
  fold_left (fun _ x => snd (fst x)) outs d.

End StoreTx.

(** A file without a txmode directive. *)
Definition plain (f : file) : tfile := mkTfile f None None.

Arguments mkSdb {hash}.
Arguments s_journal {hash}.
Arguments s_tbl {hash}.
