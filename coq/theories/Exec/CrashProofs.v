(** Crash / failure recovery of `migrate apply` (C10 re-run clause, C10
    rev_sound, C13 fix-and-rerun): M-TX over the C09 resume invariant.

    Setting: the migration directory is [dskip ++ dir]; its files are strictly
    sorted by version; [dir] is the directory from its last checkpoint file on
    (the files of [dskip] are never run). Every file may carry a txmode
    directive; a command with global mode [g] is [valid] if no directive is
    rejected ([mode_for g tf <> None]); each file then runs in its effective
    mode [mode_for g tf].

    [St c D k a has e]: the database [c] is in a resume state -- its revision
    table satisfies the C09 invariant at (k, a, has); its journal is the plan up
    to the executed position [pos k a + e] with at most [D] repeated statements
    (repeats + the unclaimed statement [e] <= D).
    [Bd c k] = [St c 0 k 0 false false]: a file boundary -- exactly the
    statements of the first [k] files, their complete revisions, nothing else.
    [LK t k]: every row has type "execute" and the rows of the first [k] files
    are literally the completed revisions (no partial hashes, no error). *)
From Coq Require Import List NArith Bool Arith Lia.
From Atlas Require Import Base.Bytes Base.ListX Base.Stutter
  Exec.ExecModel Exec.ExecProofs Exec.StepProofs Exec.PendingModel Exec.PendingProofs
  Exec.RunModel Exec.TxModel Exec.TxProofs Exec.RunProofs.
Import ListNotations.

Definition clean (d : list tfile) : Prop := forall f, In f d -> tf_bad f = None.
Definition valid (g : mode) (d : list tfile) : Prop := forall tf, In tf d -> mode_for g tf <> None.

Lemma filter_unique {A} (key : A -> bytes) (l : list A) x :
  NoDup (map key l) -> In x l -> filter (fun y => bytes_eqb (key y) (key x)) l = [x].
Proof.
  induction l as [|y l IH]; simpl; intros Hnd Hin; [destruct Hin|].
  inversion Hnd as [|? ? Hni Hnd']; subst.
  destruct Hin as [->|Hin].
  - rewrite bytes_eqb_refl. f_equal. apply filter_false. intros z Hz.
    apply bytes_eqb_neq. intros E. apply Hni. rewrite <- E. apply in_map. exact Hz.
  - assert (bytes_eqb (key y) (key x) = false) as ->.
    { apply bytes_eqb_neq. intros E. apply Hni. rewrite E. apply in_map. exact Hin. }
    apply IH; assumption.
Qed.

Lemma nth_error_ext' {A} (l l' : list A) : (forall i, nth_error l i = nth_error l' i) -> l = l'.
Proof.
  revert l'; induction l as [|x l IH]; intros [|y l'] H; [reflexivity| | |].
  - specialize (H 0). discriminate.
  - specialize (H 0). discriminate.
  - pose proof (H 0) as H0. simpl in H0. inversion H0; subst. f_equal. apply IH. intros i. apply (H (S i)).
Qed.

Lemma In_firstn {A} n (l : list A) x : In x (firstn n l) -> In x l.
Proof. intros H. rewrite <- (firstn_skipn n l). apply in_or_app. left. exact H. Qed.
Lemma In_skipn {A} n (l : list A) x : In x (skipn n l) -> In x l.
Proof. intros H. rewrite <- (firstn_skipn n l). apply in_or_app. right. exact H. Qed.

Section Crash.
Variable hash : Type.
Variable hash_eqb : hash -> hash -> bool.
Variable HS : bytes -> hash.
Hypothesis hash_eqb_spec : forall a b, hash_eqb a b = true <-> a = b.

Variable dskip dir : list tfile.
Let all := map tf_file dir.
Let skipped := map tf_file dskip.
Hypothesis Hfull : sorted_files (skipped ++ all).
Hypothesis Hfresh : from_last_ckpt (skipped ++ all) = all.

Lemma Hsorted : sorted_files all.
Proof. pose proof Hfull as H. apply StronglySorted_app_inv in H as (_ & H & _). exact H. Qed.

Notation rev := (rev hash).
Notation event := (event hash).
Notation db := (db hash).
Notation execute := (execute hash hash_eqb HS).
Notation exec_files := (exec_files hash hash_eqb HS).
Notation apply_loop := (apply_loop hash hash_eqb HS).
Notation apply_run := (apply_run hash hash_eqb HS).
Notation tbl_of_events := (tbl_of_events hash).
Notation db_of_events := (db_of_events hash).
Notation run_direct := (run_direct hash).
Notation run_in_tx := (run_in_tx hash).
Notation crash_state := (crash_state hash).
Notation Inv := (Inv hash HS all).
Notation normal := (normal all).
Notation pos := (pos all).
Notation upto := (upto all).
Local Notation plen := (length (plan all)).
Local Notation len f := (length (f_stmts f)).

(** ** states *)
Definition done_rev (f : file) : rev := mkRev (f_version f) (len f) (len f) [] false 2%N.
Definition K2 (t : list rev) : Prop := forall r, In r t -> r_kind r = 2%N.
Definition Lit (t : list rev) (k : nat) : Prop :=
  forall i f, i < k -> nth_error all i = Some f -> tbl_get t (f_version f) = Some (done_rev f).
Definition LK (t : list rev) (k : nat) : Prop := K2 t /\ Lit t k.

Definition St (c : db) (D k a : nat) (has e : bool) : Prop :=
  Inv (d_tbl c) k a has /\
  exists J d, d_journal c = map snd J /\ stutter d (upto (pos k a + b2n e)) J /\
              pos k a + b2n e <= plen /\ d + b2n e <= D.

Definition Bd (c : db) (k : nat) : Prop := St c 0 k 0 false false.
Definition DInv (c : db) (D : nat) : Prop := exists k a has e, St c D k a has e.

Lemma Bd_empty : Bd (mkDb [] []) 0.
Proof.
  split; [apply Inv_nil|]. exists [], 0. split; [reflexivity|]. split; [constructor|]. simpl. split; lia.
Qed.

Lemma LK_empty : LK [] 0.
Proof. split; [intros r []|intros i f Hi; lia]. Qed.

Lemma St_weaken c D D' k a has e : D <= D' -> St c D k a has e -> St c D' k a has e.
Proof.
  intros Hle (HI & J & d & H1 & H2 & H3 & H4). split; [exact HI|]. exists J, d. repeat split; auto. lia.
Qed.

Lemma Bd_journal c k : Bd c k -> d_journal c = map snd (plan (firstn k all)).
Proof.
  intros (_ & J & d & Hj & Hst & _ & Hd). assert (d = 0) as -> by lia.
  apply stutter_zero in Hst. cbn [b2n] in Hst. rewrite Nat.add_0_r, upto_pos0 in Hst. rewrite Hj, Hst. reflexivity.
Qed.

Lemma St0 c k a has e : St c 0 k a has e -> e = false.
Proof. intros (_ & J & d & _ & _ & _ & Hd). destruct e; [simpl in Hd; lia|reflexivity]. Qed.

(** One step: the table moves to (k1, a1, has1), the journal grows by [X]. *)
Lemma St_step (c c' : db) D k a has e k1 a1 has1 e1 X :
  St c D k a has e ->
  Inv (d_tbl c') k1 a1 has1 ->
  d_journal c' = d_journal c ++ map snd X ->
  upto (pos k a) ++ X = upto (pos k1 a1 + b2n e1) ->
  pos k a <= pos k1 a1 -> pos k1 a1 + b2n e1 <= plen ->
  exists e', St c' (D + b2n e1) k1 a1 has1 e'.
Proof.
  intros (HI & J & d & Hj & Hst & HE & HD) HI' Hj' Hup Hle Hb.
  destruct (stutter_step all (pos k a) e d J X (pos k1 a1) e1 Hst HE Hup Hle Hb) as (e' & d' & S1 & S2 & S3).
  exists e'. split; [exact HI'|]. exists (J ++ X), d'. split; [rewrite Hj', Hj, map_app; reflexivity|].
  split; [exact S1|]. split; [exact S2|lia].
Qed.

(** ** slices of the directory *)
Definition slice (tfiles : list tfile) (k : nat) : Prop :=
  tfiles = firstn (length tfiles) (skipn k dir).

Lemma slice_cons tf rest k : slice (tf :: rest) k ->
  nth_error dir k = Some tf /\ nth_error all k = Some (tf_file tf) /\ slice rest (S k) /\ In tf dir.
Proof.
  unfold slice. cbn [length firstn]. intros H.
  destruct (skipn k dir) as [|x tl] eqn:E; [discriminate|]. injection H as Ex Er. subst x.
  apply skipn_cons_inv in E as [Hn Hs]. rewrite <- Hs in Er.
  split; [exact Hn|]. split; [unfold all; apply map_nth_error; exact Hn|]. split; [exact Er|].
  eapply nth_error_In; exact Hn.
Qed.

Lemma execute_clean_faults (tf : tfile) (t : list rev) a :
  tf_bad tf = None -> execute (tf_file tf) t (bad_faults tf a) = execute (tf_file tf) t [].
Proof.
  intros Hb. unfold bad_faults. rewrite Hb.
  assert (forall n, bad_faults_from n a None = []) as -> by (destruct n; reflexivity).
  reflexivity.
Qed.

Lemma mode_for_nf g tf : g <> TxAll -> mode_for g tf <> None ->
  mode_for g tf = Some TxNone \/ mode_for g tf = Some TxFile.
Proof.
  unfold mode_for. intros Hg Hv. destruct (tf_directive tf) as [[[| |]|]|]; destruct g; simpl in *; auto; congruence.
Qed.

Lemma mode_for_all_valid tf : mode_for TxAll tf <> None -> mode_for TxAll tf = Some TxAll.
Proof. intros Hv. destruct (mode_for_all tf) as [E|E]; [exact E|congruence]. Qed.

(** ** one Execute of file [k] from a resume state *)
Lemma file_facts (t : list rev) k a has f fs o t1 fs1 es :
  Inv t k a has -> normal k a has -> nth_error all k = Some f ->
  execute f t fs = (o, t1, fs1, es) ->
  t1 = tbl_of_events es t /\
  (forall x1 x2, es = x1 ++ x2 ->
     exists a1 has1 e1,
       Inv (tbl_of_events x1 t) k a1 has1 /\
       upto (pos k a) ++ journal x1 = upto (pos k a1 + b2n e1) /\
       pos k a <= pos k a1 /\ pos k a1 + b2n e1 <= plen) /\
  (o = ODone -> Inv t1 (S k) 0 false /\ upto (pos k a) ++ journal es = upto (pos (S k) 0) /\ all_ok es) /\
  (o = OStmtErr -> wf es = 0) /\
  (fs = [] -> o = ODone /\ fs1 = []).
Proof.
  intros HI Hnorm Hn EX.
  destruct (Inv_pre hash HS all Hsorted t k a has f HI Hnorm Hn) as (r0 & Hpre & Htot & Ha).
  pose proof (pre_applied hash HS f t r0 Hpre) as Hle. rewrite Ha in Hle.
  destruct (execute_shape hash hash_eqb HS hash_eqb_spec f t r0 Hpre fs o t1 fs1 es EX) as [Hsh Hnf].
  pose proof (shape_good hash HS f t r0 o t1 es Hpre Htot Hsh) as Hgood. rewrite Ha in Hgood.
  split; [apply (execute_tbl hash hash_eqb HS f t fs o t1 fs1 es EX)|]. split; [|split; [|split; [|exact Hnf]]].
  - intros x1 x2 E. rewrite E in Hgood.
    destruct (file_prefix hash HS all Hsorted t k a has f x1 x2 HI Hnorm Hn Hle Hgood)
      as (a1 & has1 & e1 & H1 & H2 & H3 & H4 & _).
    exists a1, has1, e1. split; [exact H1|]. split; [exact H2|]. split; [unfold RunProofs.pos; lia|].
    rewrite pos_add. apply (pos_bound all k f _ Hn H4).
  - intros ->.
    assert ([f] = firstn (length [f]) (skipn k all)) as Hsl.
    { simpl. rewrite (skipn_nth_cons all k f Hn). reflexivity. }
    pose proof (exec_files_single hash hash_eqb HS f t fs) as Hs. rewrite EX in Hs.
    destruct (exec_files_inv hash hash_eqb HS hash_eqb_spec all Hsorted [f] t fs ODone t1 fs1 es k a has HI Hnorm Hsl Hs)
      as (Hp & _ & Ht).
    destruct (Hp es [] ltac:(rewrite app_nil_r; reflexivity)) as (k1 & a1 & has1 & e1 & H1 & H2 & _ & _ & H5).
    destruct (H5 eq_refl) as [_ Hd].
    destruct (Hd eq_refl ltac:(left; discriminate)) as (-> & -> & -> & ->).
    rewrite <- Ht in H1. cbn [b2n] in H2. rewrite Nat.add_0_r in H2.
    replace (k + length [f]) with (S k) in * by (simpl; lia).
    split; [exact H1|]. split; [exact H2|].
    destruct (stop_on_fault_execute hash hash_eqb HS _ _ _ _ _ _ _ EX) as [_ Hok]. apply Hok. reflexivity.
  - intros ->.
    destruct Hsh as [Ho _ _|c ok3 _ Ho _ _|c s ok3 Hnth _ Hes _|c s _ Ho _ _];
      try discriminate; [destruct ok3; discriminate|].
    subst es. assert (r_applied r0 + c < len f) as Hlt by (apply nth_error_Some; congruence).
    rewrite shape_wf by lia. reflexivity.
Qed.

(** rows: type and literal completed revisions *)
Lemma execute_lit (t : list rev) k a has f fs o t1 fs1 es :
  Inv t k a has -> normal k a has -> nth_error all k = Some f -> K2 t ->
  execute f t fs = (o, t1, fs1, es) ->
  K2 t1 /\
  (forall v', v' <> f_version f -> tbl_get t1 v' = tbl_get t v') /\
  (o = ODone -> tbl_get t1 (f_version f) = Some (done_rev f)).
Proof.
  intros HI Hnorm Hn HK EX.
  destruct (Inv_pre hash HS all Hsorted t k a has f HI Hnorm Hn) as (r0 & Hpre & Htot & Ha).
  destruct (execute_shape hash hash_eqb HS hash_eqb_spec f t r0 Hpre fs o t1 fs1 es EX) as [Hsh _].
  destruct (execute_spec hash hash_eqb HS hash_eqb_spec f t r0 fs o t1 fs1 es Hpre Htot EX)
    as (_ & _ & _ & _ & _ & _ & _ & _ & _ & Soth & _).
  assert (r_kind r0 = 2%N) as Hk0.
  { destruct Hpre as [[_ ->]|[Hg _]]; [reflexivity|]. apply HK. eapply tbl_get_In; exact Hg. }
  assert (r_version r0 = f_version f) as Hv0 by (apply (pre_version hash HS f t r0 Hpre)).
  assert (forall c, r_kind (cur hash HS f r0 c) = 2%N) as Kcur.
  { intros c. unfold cur. destruct (c =? 0); [exact Hk0|exact Hk0]. }
  assert (forall c, r_kind (sto hash HS f r0 c) = 2%N) as Ksto.
  { intros c. unfold sto. destruct (c =? 0); [exact Hk0|exact Hk0]. }
  assert (forall X, r_kind X = 2%N -> K2 (tbl_put t X)) as Kput.
  { intros X HX r Hr. apply tbl_put_In in Hr as [->|Hr]; [exact HX|apply HK; exact Hr]. }
  split; [|split; [exact Soth|]].
  - destruct Hsh as [_ Ht _|c ok3 _ _ _ Ht|c s ok3 _ _ _ Ht|c s _ _ _ Ht]; subst t1.
    + exact HK.
    + apply Kput. destruct ok3; [apply Kcur|apply Ksto].
    + apply Kput. destruct ok3; [apply Kcur|apply Ksto].
    + apply Kput. apply Ksto.
  - intros ->.
    destruct Hsh as [Ho _ _|c ok3 Hc Ho _ Ht|c s ok3 _ Ho _ _|c s _ Ho _ _]; try discriminate.
    destruct ok3; [|discriminate]. subst t1.
    assert (set_hashes (cur hash HS f r0 c) [] = done_rev f) as ->.
    { unfold cur. destruct (c =? 0) eqn:Ec.
      - apply Nat.eqb_eq in Ec. subst c. rewrite Nat.add_0_r in Hc.
        destruct has.
        + exfalso. pose proof (Hnorm eq_refl f Hn). lia.
        + destruct Hpre as [[_ ->]|[Hg _]].
          * simpl in Hc. unfold done_rev, set_hashes, set_total, new_rev. simpl. rewrite <- Hc. reflexivity.
          * exfalso. rewrite (Inv_notin hash HS all Hsorted t k a false k f HI Hn ltac:(simpl; lia)) in Hg. discriminate.
      - unfold done_rev, set_hashes, rv. simpl. rewrite Hc, Hk0. reflexivity. }
    replace (f_version f) with (r_version (done_rev f)) at 1 by reflexivity. apply tbl_get_put_same.
Qed.

Lemma LK_step (t t1 : list rev) k f :
  nth_error all k = Some f -> LK t k -> K2 t1 ->
  (forall v', v' <> f_version f -> tbl_get t1 v' = tbl_get t v') ->
  tbl_get t1 (f_version f) = Some (done_rev f) -> LK t1 (S k).
Proof.
  intros Hn [_ HL] HK1 Hoth Hf. split; [exact HK1|].
  intros i g Hi Hg. destruct (Nat.eq_dec i k) as [->|Hne].
  - rewrite Hn in Hg. inversion Hg; subst g. exact Hf.
  - rewrite Hoth; [apply (HL i g); [lia|exact Hg]|].
    intros E. pose proof (versions_inj all Hsorted i k g f Hg Hn E). lia.
Qed.

Lemma LK_keep (t t1 : list rev) k f :
  nth_error all k = Some f -> LK t k -> K2 t1 ->
  (forall v', v' <> f_version f -> tbl_get t1 v' = tbl_get t v') -> LK t1 k.
Proof.
  intros Hn [_ HL] HK1 Hoth. split; [exact HK1|].
  intros i g Hi Hg. rewrite Hoth; [apply (HL i g); assumption|].
  intros E. pose proof (versions_inj all Hsorted i k g f Hg Hn E). lia.
Qed.

Lemma run_in_tx_fst es (w c : db) : fst (run_in_tx es w c) = db_of_events es w.
Proof.
  revert w; induction es as [|e es IH]; intros w; simpl; [reflexivity|].
  destruct (run_in_tx es (apply_event hash w e) c) as [w'' tr] eqn:R.
  specialize (IH (apply_event hash w e)). rewrite R in IH. exact IH.
Qed.

(** The whole file ran ([ODone]): the database after its events. *)
Lemma file_done (c : db) D k a has e f fs t1 fs1 es :
  St c D k a has e -> normal k a has -> nth_error all k = Some f ->
  execute f (d_tbl c) fs = (ODone, t1, fs1, es) ->
  (exists e', St (db_of_events es c) D (S k) 0 false e') /\
  (LK (d_tbl c) k -> LK (d_tbl (db_of_events es c)) (S k)).
Proof.
  intros HS0 Hnorm Hn EX. pose proof HS0 as [HI _].
  destruct (file_facts (d_tbl c) k a has f fs ODone t1 fs1 es HI Hnorm Hn EX) as (Ht1 & _ & Hd & _).
  destruct (Hd eq_refl) as (HI1 & Hup & Hok).
  assert (d_tbl (db_of_events es c) = t1) as Et by (rewrite db_of_events_tbl; symmetry; exact Ht1).
  split.
  - destruct (St_step c (db_of_events es c) D k a has e (S k) 0 false false (journal es) HS0
                ltac:(rewrite Et; exact HI1) (db_of_events_journal hash es c)
                ltac:(cbn [b2n]; rewrite Nat.add_0_r; exact Hup))
      as [e' H'].
    + rewrite (pos_next all k f Hn). unfold RunProofs.pos.
      destruct HI as (_ & _ & _ & Hk). destruct has.
      * destruct Hk as (f' & r & Hn' & _ & (_ & _ & Hle & _) & _). rewrite Hn in Hn'. inversion Hn'; subst. lia.
      * subst a. lia.
    + cbn [b2n]. rewrite Nat.add_0_r. eapply Inv_pos_le; exact HI1.
    + exists e'. cbn [b2n] in H'. rewrite Nat.add_0_r in H'. exact H'.
  - intros HL. destruct (execute_lit (d_tbl c) k a has f fs ODone t1 fs1 es HI Hnorm Hn (proj1 HL) EX) as (K1 & Hoth & Hf).
    rewrite Et. apply (LK_step (d_tbl c) t1 k f Hn HL K1 Hoth (Hf eq_refl)).
Qed.

(** A prefix of the file's events (a crash inside the file without transaction). *)
Lemma file_prefix_state (c : db) D k a has e f fs o t1 fs1 es x1 x2 :
  St c D k a has e -> normal k a has -> nth_error all k = Some f ->
  execute f (d_tbl c) fs = (o, t1, fs1, es) -> es = x1 ++ x2 ->
  exists a1 has1 e1, St (db_of_events x1 c) (D + 1) k a1 has1 e1.
Proof.
  intros HS0 Hnorm Hn EX E. pose proof HS0 as [HI _].
  destruct (file_facts (d_tbl c) k a has f fs o t1 fs1 es HI Hnorm Hn EX) as (_ & Hp & _).
  destruct (Hp x1 x2 E) as (a1 & has1 & e1 & H1 & H2 & H3 & H4).
  destruct (St_step c (db_of_events x1 c) D k a has e k a1 has1 e1 (journal x1) HS0
              ltac:(rewrite db_of_events_tbl; exact H1) (db_of_events_journal hash x1 c) H2 H3 H4) as [e' H'].
  exists a1, has1, e'. eapply St_weaken; [|exact H']. destruct e1; simpl; lia.
Qed.

(** ** the apply loop, global mode none or file, per-file effective modes *)

(** What a crash point of the loop can see. *)
Definition crash_class (g : mode) (D k0 a0 : nat) (has0 : bool) (x : db) : Prop :=
  (* between files / inside a transactional file: the state the loop started
     from, or the state after a whole number of further files *)
  (exists j a has e, St x D j a has e /\ ((j = k0 /\ a = a0 /\ has = has0) \/ (a = 0 /\ has = false))) \/
  (* inside a file that runs without transaction *)
  (exists j tf a has e, nth_error dir j = Some tf /\ mode_for g tf = Some TxNone /\ St x (D + 1) j a has e).

Lemma loop_mixed g : g <> TxAll ->
  forall tfiles (c : db) D k a has e,
  St c D k a has e -> normal k a has -> slice tfiles k -> clean tfiles -> valid g tfiles ->
  exists c' tr k' a' has' e',
    apply_loop g tfiles c None = (ADone, c', None, tr) /\
    St c' D k' a' has' e' /\ normal k' a' has' /\
    (tfiles <> [] -> k' = k + length tfiles /\ a' = 0 /\ has' = false) /\
    (tfiles = [] -> k' = k /\ a' = a /\ has' = has) /\
    (LK (d_tbl c) k -> LK (d_tbl c') k') /\
    (forall p x, In (p, x) tr -> crash_class g D k a has x).
Proof.
  intros Hg. induction tfiles as [|tf rest IH]; intros c D k a has e HS0 Hnorm Hsl Hcl Hval.
  - exists c, [], k, a, has, e. split; [reflexivity|]. split; [exact HS0|]. split; [exact Hnorm|].
    split; [congruence|]. split; [auto|]. split; [auto|intros p x []].
  - destruct (slice_cons tf rest k Hsl) as (Hnd & Hn & Hsl' & Hin).
    pose proof HS0 as [HI _].
    destruct (execute (tf_file tf) (d_tbl c) []) as [[[o1 t1] fs1] es] eqn:EX.
    destruct (file_facts (d_tbl c) k a has (tf_file tf) [] o1 t1 fs1 es HI Hnorm Hn EX) as (_ & _ & _ & _ & Hnf).
    destruct (Hnf eq_refl) as [-> ->].
    destruct (file_done c D k a has e (tf_file tf) [] t1 [] es HS0 Hnorm Hn EX) as ([e1 HS1] & HL1).
    set (c1 := db_of_events es c) in *.
    destruct (IH c1 D (S k) 0 false e1 HS1 ltac:(intros H; discriminate) Hsl'
                ltac:(intros x Hx; apply Hcl; right; exact Hx) ltac:(intros x Hx; apply Hval; right; exact Hx))
      as (c' & tr2 & k' & a' & has' & e' & Hloop & HS' & Hn' & Hne & Hnil & HL' & Htr2).
    assert (k' = k + length (tf :: rest) /\ a' = 0 /\ has' = false) as Hfin.
    { destruct rest as [|y rest'].
      - destruct (Hnil eq_refl) as (-> & -> & ->). simpl. repeat split; lia.
      - destruct (Hne ltac:(discriminate)) as (-> & -> & ->). simpl. repeat split; lia. }
    assert (forall p x, In (p, x) tr2 -> crash_class g D k a has x) as Htr2'.
    { intros p x Hx. destruct (Htr2 p x Hx) as [(j & a2 & has2 & e2 & H1 & H2)|H]; [left|right; exact H].
      exists j, a2, has2, e2. split; [exact H1|]. right. destruct H2 as [(_ & -> & ->)|H2]; auto. }
    cbn [TxModel.apply_loop].
    rewrite (execute_clean_faults tf _ _ (Hcl tf (or_introl eq_refl))), EX.
    destruct (mode_for_nf g tf Hg (Hval tf (or_introl eq_refl))) as [Em|Em]; rewrite Em.
    + (* no transaction: effects are committed one by one *)
      destruct (run_direct es c) as [c1' tr1] eqn:R.
      destruct (run_direct_spec hash es c) as [Hf Hsp]. rewrite R in Hf, Hsp. simpl in Hf, Hsp. subst c1'.
      fold c1. rewrite Hloop.
      exists c', (tr1 ++ tr2), k', a', has', e'. split; [reflexivity|]. split; [exact HS'|]. split; [exact Hn'|].
      split; [intros _; exact Hfin|]. split; [discriminate|]. split; [intros HL; apply HL'; apply HL1; exact HL|].
      intros p x Hx. apply in_app_or in Hx as [Hx|Hx]; [|apply (Htr2' p x Hx)].
      destruct (Hsp p x Hx) as (m & Hm & ->).
      destruct (file_prefix_state c D k a has e (tf_file tf) [] ODone t1 [] es (firstn m es) (skipn m es)
                  HS0 Hnorm Hn EX (eq_sym (firstn_skipn m es))) as (a1 & has1 & e2 & H2).
      right. exists k, tf, a1, has1, e2. auto.
    + (* a transaction around the file *)
      destruct (run_in_tx es c c) as [w1' tr1] eqn:R.
      pose proof (run_in_tx_fst es c c) as Hf. rewrite R in Hf. simpl in Hf. subst w1'. fold c1.
      pose proof (run_in_tx_trace hash es c c) as Htr1. rewrite R in Htr1. simpl in Htr1.
      rewrite Hloop.
      exists c', (tr1 ++ [(BeforeCommit, c); (AfterCommit, c1)] ++ tr2), k', a', has', e'.
      split; [reflexivity|]. split; [exact HS'|]. split; [exact Hn'|].
      split; [intros _; exact Hfin|]. split; [discriminate|]. split; [intros HL; apply HL'; apply HL1; exact HL|].
      assert (crash_class g D k a has c) as Hc0 by (left; exists k, a, has, e; auto).
      intros p x Hx. apply in_app_or in Hx as [Hx|Hx]; [rewrite (Htr1 p x Hx); exact Hc0|].
      simpl in Hx. destruct Hx as [Hx|[Hx|Hx]].
      * inversion Hx; subst. exact Hc0.
      * inversion Hx; subst. left. exists (S k), 0, false, e1. auto.
      * apply (Htr2' p x Hx).
Qed.

(** ** global mode all: one working copy, committed at the end *)
Lemma loop_all_clean : forall tfiles (c : db) (w : option db) D k a has e,
  St (match w with Some x => x | None => c end) D k a has e -> normal k a has ->
  slice tfiles k -> clean tfiles -> valid TxAll tfiles ->
  exists w1 tr k' a' has' e',
    apply_loop TxAll tfiles c w = (ADone, c, w1, tr) /\
    St (match w1 with Some x => x | None => c end) D k' a' has' e' /\ normal k' a' has' /\
    (tfiles <> [] -> w1 <> None /\ k' = k + length tfiles /\ a' = 0 /\ has' = false) /\
    (tfiles = [] -> w1 = w /\ k' = k /\ a' = a /\ has' = has) /\
    (LK (d_tbl (match w with Some x => x | None => c end)) k ->
     LK (d_tbl (match w1 with Some x => x | None => c end)) k').
Proof.
  induction tfiles as [|tf rest IH]; intros c w D k a has e HS0 Hnorm Hsl Hcl Hval.
  - exists w, [], k, a, has, e. split; [reflexivity|]. split; [exact HS0|]. split; [exact Hnorm|].
    split; [congruence|]. split; [auto|auto].
  - destruct (slice_cons tf rest k Hsl) as (Hnd & Hn & Hsl' & Hin).
    set (w0 := match w with Some x => x | None => c end) in *.
    pose proof HS0 as [HI _].
    destruct (execute (tf_file tf) (d_tbl w0) []) as [[[o1 t1] fs1] es] eqn:EX.
    destruct (file_facts (d_tbl w0) k a has (tf_file tf) [] o1 t1 fs1 es HI Hnorm Hn EX) as (_ & _ & _ & _ & Hnf).
    destruct (Hnf eq_refl) as [-> ->].
    destruct (file_done w0 D k a has e (tf_file tf) [] t1 [] es HS0 Hnorm Hn EX) as ([e1 HS1] & HL1).
    set (w1 := db_of_events es w0) in *.
    destruct (IH c (Some w1) D (S k) 0 false e1 HS1 ltac:(intros H; discriminate) Hsl'
                ltac:(intros x Hx; apply Hcl; right; exact Hx) ltac:(intros x Hx; apply Hval; right; exact Hx))
      as (w2 & tr2 & k' & a' & has' & e' & Hloop & HS' & Hn' & Hne & Hnil & HL').
    cbn [TxModel.apply_loop]. rewrite (mode_for_all_valid tf (Hval tf (or_introl eq_refl))). fold w0.
    rewrite (execute_clean_faults tf _ _ (Hcl tf (or_introl eq_refl))), EX.
    destruct (run_in_tx es w0 c) as [w1' tr1] eqn:R.
    pose proof (run_in_tx_fst es w0 c) as Hf. rewrite R in Hf. simpl in Hf. subst w1'. fold w1.
    rewrite Hloop. exists w2, (tr1 ++ tr2), k', a', has', e'.
    split; [reflexivity|]. split; [exact HS'|]. split; [exact Hn'|]. split; [|split; [discriminate|]].
    + intros _. destruct rest as [|y rest'].
      * destruct (Hnil eq_refl) as (-> & -> & -> & ->). simpl. repeat split; try lia. discriminate.
      * destruct (Hne ltac:(discriminate)) as (Hw & -> & -> & ->). simpl. repeat split; try lia. exact Hw.
    + intros HL. apply HL'. apply HL1. exact HL.
Qed.

(** ** the whole command *)
Definition dsl (k n : nat) : list tfile :=
  if 0 <? n then firstn n (skipn k dir) else skipn k dir.

Lemma dsl_slice k n : slice (dsl k n) k.
Proof.
  unfold slice, dsl. destruct (0 <? n); [apply firstn_length_self|]. symmetry. apply firstn_all.
Qed.

Lemma dsl_In k n x : In x (dsl k n) -> In x dir.
Proof.
  unfold dsl. destruct (0 <? n); intros H; [apply In_firstn in H|]; apply In_skipn in H; exact H.
Qed.

Lemma dsl_chosen k n :
  (if 0 <? n then firstn n (skipn k all) else skipn k all) = map tf_file (dsl k n).
Proof.
  unfold dsl, all. destruct (0 <? n); rewrite skipn_map; [rewrite firstn_map|]; reflexivity.
Qed.

Lemma tchosen_dsl k n :
  flat_map (fun f => filter (fun tf => bytes_eqb (f_version (tf_file tf)) (f_version f)) (dskip ++ dir))
           (map tf_file (dsl k n)) = dsl k n.
Proof.
  assert (NoDup (map (fun tf => f_version (tf_file tf)) (dskip ++ dir))) as Hnd.
  { pose proof (sorted_files_NoDup (skipped ++ all) Hfull) as H. unfold skipped, all in H.
    rewrite <- map_app, map_map in H. exact H. }
  pose proof (dsl_In k n) as Hin. induction (dsl k n) as [|x l IH]; [reflexivity|].
  simpl. rewrite (filter_unique (fun tf => f_version (tf_file tf)) (dskip ++ dir) x Hnd
                    ltac:(apply in_or_app; right; apply Hin; left; reflexivity)).
  simpl. f_equal. apply IH. intros y Hy. apply Hin. right. exact Hy.
Qed.

Definition the_cfg : cfg := mkCfg Linear None true true.

Lemma the_cfg_ok : cfg_ok the_cfg.
Proof. split; reflexivity. Qed.

Lemma apply_run_unfold g n (c : db) k a has :
  Inv (d_tbl c) k a has -> normal k a has ->
  apply_run g n (dskip ++ dir) c =
  match skipn k all with
  | [] => (APend PNoPending, c, [])
  | _ => let '(o, c1, w, tr) := apply_loop g (dsl k n) c None in
         match o, w with
         | ADone, Some wd => (ADone, wd, tr ++ [(BeforeCommit, c1); (AfterCommit, wd)])
         | _, _ => (o, c1, tr)
         end
  end.
Proof.
  intros HI Hnorm. unfold TxModel.apply_run. rewrite map_app. fold all. fold skipped. fold the_cfg.
  rewrite (pending_inv hash HS all Hsorted skipped Hfull Hfresh the_cfg (d_tbl c) k a has the_cfg_ok HI Hnorm).
  destruct (skipn k all) as [|f l] eqn:E; [reflexivity|].
  cbn [fst finish]. rewrite <- E, (dsl_chosen k n), tchosen_dsl. reflexivity.
Qed.

Lemma dsl_nonempty k n : skipn k all <> [] -> dsl k n <> [].
Proof.
  unfold dsl, all. rewrite skipn_map. destruct (skipn k dir) as [|x l]; [simpl; congruence|].
  intros _. destruct (0 <? n) eqn:E; [|discriminate].
  apply Nat.ltb_lt in E. destruct n; [lia|discriminate].
Qed.

Lemma dsl_full_length k : k <= length all -> k + length (dsl k 0) = length all.
Proof. intros H. unfold dsl. simpl. rewrite skipn_length. unfold all in *. rewrite map_length in *. lia. Qed.

Lemma skipn_nil_full k a has t : Inv t k a has -> skipn k all = [] -> k = length all /\ a = 0 /\ has = false.
Proof.
  intros (Hm & _ & _ & Hk) E. apply (f_equal (@length _)) in E. rewrite skipn_length in E. simpl in E.
  destruct has; simpl in Hm; [lia|]. subst a. repeat split; lia.
Qed.

(** The final state: everything applied. *)
Definition completed (c : db) (D : nat) : Prop :=
  (exists reps, length reps = plen /\ list_sum reps <= D /\
                d_journal c = map snd (expand (plan all) reps)) /\
  (forall f, In f all -> exists r, tbl_get (d_tbl c) (f_version f) = Some r /\
                                   r_applied r = len f /\ r_total r = len f).

Lemma St_completed c D a has e : St c D (length all) a has e -> completed c D.
Proof.
  intros (HI & J & d & Hj & Hst & HE & HD).
  assert (a = 0 /\ has = false) as [-> ->].
  { destruct HI as (Hm & _ & _ & Hk). destruct has; simpl in Hm; [lia|]. auto. }
  rewrite pos_all in Hst, HE. destruct e; [simpl in HE; lia|]. cbn [b2n] in *.
  rewrite Nat.add_0_r, upto_all in Hst. split.
  - destruct (stutter_expand _ _ _ Hst) as (reps & Hl & Hs & ->). exists reps. repeat split; auto. lia.
  - intros f Hin. apply In_nth_error in Hin as [i Hi].
    assert (i < length all) as Hlt by (apply nth_error_Some; congruence).
    destruct HI as (_ & _ & Hrows & _). destruct (Hrows i f Hlt Hi) as (r & Hg & (_ & Hap & _) & Ht).
    exists r. auto.
Qed.

Lemma completed0 c : completed c 0 -> d_journal c = map snd (plan all).
Proof.
  intros [(reps & Hl & Hs & Hj) _]. rewrite Hj. f_equal.
  assert (stutter 0 (plan all) (plan all)) as H0 by apply stutter_refl.
  clear Hj. revert Hl Hs. generalize (plan all). intros p Hl Hs.
  assert (forall n, In n reps -> n = 0) as Hz.
  { clear Hl. induction reps as [|x reps IH]; intros n [].
    - subst. simpl in Hs. lia.
    - apply IH; [simpl in Hs; lia|assumption]. }
  clear Hs. unfold expand. revert reps Hl Hz. induction p as [|y p IH]; intros [|x reps] Hl Hz; try discriminate; [reflexivity|].
  simpl. rewrite (Hz x (or_introl eq_refl)). simpl. f_equal. apply IH; [simpl in Hl; lia|].
  intros n Hn. apply Hz. right. exact Hn.
Qed.

(** The literal final table: one completed revision per file, in order. *)
Lemma LK_full_table (t : list rev) a has : Inv t (length all) a has -> LK t (length all) -> t = map done_rev all.
Proof.
  intros HI [_ HL]. pose proof HI as (Hm & Hmap & _).
  assert (has = false) as -> by (destruct has; simpl in Hm; [lia|reflexivity]).
  cbn [b2n] in Hmap. rewrite Nat.add_0_r, firstn_all in Hmap.
  apply nth_error_ext'. intros i. rewrite nth_error_map.
  destruct (nth_error all i) as [f|] eqn:Ef.
  - assert (i < length all) as Hlt by (apply nth_error_Some; congruence).
    destruct (nth_error t i) as [r|] eqn:Er.
    + pose proof (HL i f Hlt Ef) as H.
      rewrite (Inv_row hash HS all Hsorted t (length all) a false i r f HI Er Ef) in H. simpl. congruence.
    + exfalso. apply nth_error_None in Er.
      assert (length t = length all) by (rewrite <- (map_length (@r_version hash)), Hmap, map_length; reflexivity). lia.
  - simpl. apply nth_error_None. apply nth_error_None in Ef.
    assert (length t = length all) by (rewrite <- (map_length (@r_version hash)), Hmap, map_length; reflexivity). lia.
Qed.

(** One clean command (no failing statement) from a resume state. *)
Lemma run_clean g n (c : db) D k a has e :
  clean dir -> valid g dir -> St c D k a has e -> normal k a has ->
  exists o c1 tr k1 a1 has1 e1,
    apply_run g n (dskip ++ dir) c = (o, c1, tr) /\
    (o = ADone \/ o = APend PNoPending) /\
    St c1 D k1 a1 has1 e1 /\ normal k1 a1 has1 /\
    (n = 0 -> k1 = length all) /\
    (LK (d_tbl c) k -> LK (d_tbl c1) k1) /\
    (forall p x, In (p, x) tr ->
       match g with
       | TxAll => x = c \/ (p = AfterCommit /\ x = c1)
       | _ => crash_class g D k a has x
       end).
Proof.
  intros Hcl Hval HS0 Hnorm. pose proof HS0 as [HI _].
  rewrite (apply_run_unfold g n c k a has HI Hnorm).
  destruct (skipn k all) as [|f l] eqn:E.
  - destruct (skipn_nil_full k a has _ HI E) as (Ek & -> & ->).
    exists (APend PNoPending), c, [], k, 0, false, e. split; [reflexivity|]. split; [auto|].
    split; [exact HS0|]. split; [exact Hnorm|]. split; [auto|]. split; [auto|intros p x []].
  - assert (clean (dsl k n)) as Hcl' by (intros x Hx; apply Hcl; eapply dsl_In; eauto).
    assert (valid g (dsl k n)) as Hval' by (intros x Hx; apply Hval; eapply dsl_In; eauto).
    assert (dsl k n <> []) as Hne by (apply dsl_nonempty; rewrite E; discriminate).
    assert (k <= length all) as Hkl by (destruct HI as (Hm & _); lia).
    destruct (mode_eqb g TxAll) eqn:Eg.
    + assert (g = TxAll) as -> by (destruct g; simpl in Eg; congruence).
      destruct (loop_all_clean (dsl k n) c None D k a has e HS0 Hnorm (dsl_slice k n) Hcl' Hval')
        as (w1 & tr & k' & a' & has' & e' & Hloop & HS' & Hn' & Hfin & _ & HL').
      destruct (Hfin Hne) as (Hw & -> & -> & ->). destruct w1 as [wd|]; [|congruence].
      rewrite Hloop. exists ADone, wd, (tr ++ [(BeforeCommit, c); (AfterCommit, wd)]), (k + length (dsl k n)), 0, false, e'.
      split; [reflexivity|]. split; [auto|]. split; [exact HS'|]. split; [exact Hn'|].
      split; [intros ->; apply dsl_full_length; exact Hkl|]. split; [exact HL'|].
      destruct (apply_loop_all hash hash_eqb HS _ _ _ _ _ _ _ Hloop) as [_ Htr].
      intros p x Hx. apply in_app_or in Hx as [Hx|Hx]; [left; eapply Htr; eauto|].
      simpl in Hx. destruct Hx as [Hx|[Hx|[]]]; inversion Hx; subst; auto.
    + assert (g <> TxAll) as Hg by (intros ->; discriminate).
      destruct (loop_mixed g Hg (dsl k n) c D k a has e HS0 Hnorm (dsl_slice k n) Hcl' Hval')
        as (c' & tr & k' & a' & has' & e' & Hloop & HS' & Hn' & Hfin & _ & HL' & Htr).
      destruct (Hfin Hne) as (-> & -> & ->). rewrite Hloop.
      exists ADone, c', tr, (k + length (dsl k n)), 0, false, e'.
      split; [reflexivity|]. split; [auto|]. split; [exact HS'|]. split; [exact Hn'|].
      split; [intros ->; apply dsl_full_length; exact Hkl|]. split; [exact HL'|].
      destruct g; [exact Htr|exact Htr|congruence].
Qed.

Lemma crash_state_in' tr pt i (d : db) : crash_state tr pt i = Some d -> In (pt, d) tr.
Proof. apply crash_state_in. Qed.

(** ** the statements exported to Props_C10 *)

(** Crash anywhere, then run the same command again. *)
Lemma crash_rerun g (c0 : db) D k0 a0 has0 e0 n o c1 tr pt i d :
  clean dir -> valid g dir -> St c0 D k0 a0 has0 e0 -> normal k0 a0 has0 ->
  apply_run g n (dskip ++ dir) c0 = (o, c1, tr) -> crash_state tr pt i = Some d ->
  (* the state the crash leaves *)
  DInv d (D + 1) /\
  match g with
  | TxAll => d = c0 \/ (pt = AfterCommit /\ d = c1 /\ o = ADone)
  | _ => crash_class g D k0 a0 has0 d
  end /\
  (* the re-run *)
  exists o2 c2 tr2,
    apply_run g 0 (dskip ++ dir) d = (o2, c2, tr2) /\ (o2 = ADone \/ o2 = APend PNoPending) /\
    completed c2 (D + 1) /\ DInv c2 (D + 1) /\
    (g = TxAll \/ (exists k a has e, St d D k a has e) -> completed c2 D).
Proof.
  intros Hcl Hval HS0 Hnorm Hrun Hcr.
  destruct (run_clean g n c0 D k0 a0 has0 e0 Hcl Hval HS0 Hnorm)
    as (o' & c1' & tr' & k1 & a1 & has1 & e1 & E & Ho & HS1 & _ & _ & _ & Htr).
  rewrite E in Hrun. inversion Hrun; subst o' c1' tr'.
  pose proof (Htr pt d (crash_state_in' tr pt i d Hcr)) as Hd.
  assert ((exists k a has e, St d D k a has e) \/ (exists k a has e, St d (D + 1) k a has e)) as Hcases.
  { destruct g.
    - destruct Hd as [(j & a & has & e & H & _)|(j & tf & a & has & e & _ & _ & H)]; [left|right]; eauto.
    - destruct Hd as [(j & a & has & e & H & _)|(j & tf & a & has & e & _ & _ & H)]; [left|right]; eauto.
    - left. destruct Hd as [->|(_ & ->)]; eauto 8. }
  assert (DInv d (D + 1)) as HD.
  { destruct Hcases as [(k & a & has & e & H)|H]; [|exact H].
    exists k, a, has, e. eapply St_weaken; [|exact H]. lia. }
  split; [exact HD|]. split.
  { destruct g; [exact Hd|exact Hd|].
    destruct (apply_run_all_atomic hash hash_eqb HS n (dskip ++ dir) c0 o c1 tr E) as [_ Ht].
    exact (Ht pt d (crash_state_in' tr pt i d Hcr)). }
  assert (forall D', (exists k a has e, St d D' k a has e) ->
            exists o2 c2 tr2, apply_run g 0 (dskip ++ dir) d = (o2, c2, tr2) /\
                              (o2 = ADone \/ o2 = APend PNoPending) /\ completed c2 D' /\ DInv c2 D') as Hrer.
  { intros D' (k & a & has & e & HSd).
    pose proof HSd as (HId & Jd & dd & Hj & Hst & HE & HDd).
    destruct (normalize hash HS all (d_tbl d) k a has HId) as (k' & a' & has' & HI' & Hn' & Ep).
    assert (St d D' k' a' has' e) as HSd'.
    { split; [exact HI'|]. exists Jd, dd. rewrite Ep. auto. }
    destruct (run_clean g 0 d D' k' a' has' e Hcl Hval HSd' Hn')
      as (o2 & c2 & tr2 & k2 & a2 & has2 & e2 & E2 & Ho2 & HS2 & _ & Hk2 & _ & _).
    exists o2, c2, tr2. split; [exact E2|]. split; [exact Ho2|].
    rewrite (Hk2 eq_refl) in HS2. split; [eapply St_completed; exact HS2|]. eexists _, _, _, _; exact HS2. }
  destruct (Hrer (D + 1) HD) as (o2 & c2 & tr2 & E2 & Ho2 & Hc2 & HD2).
  exists o2, c2, tr2. split; [exact E2|]. split; [exact Ho2|]. split; [exact Hc2|]. split; [exact HD2|].
  intros Hex.
  assert (exists k a has e, St d D k a has e) as Hex'.
  { destruct Hex as [->|Hex]; [|exact Hex]. destruct Hcases as [H|H]; [exact H|].
    destruct Hd as [->|(_ & ->)]; eauto 8. }
  destruct (Hrer D Hex') as (o3 & c3 & tr3 & E3 & _ & Hc3 & _).
  rewrite E3 in E2. inversion E2; subst. exact Hc3.
Qed.

(** *** readable corollaries, from a file boundary *)
Definition whole_files (c : db) : Prop := exists j, Bd c j /\ d_journal c = map snd (plan (firstn j all)).

Lemma class_boundary g k0 (x : db) :
  crash_class g 0 k0 0 false x ->
  whole_files x \/
  (exists j tf a has e, nth_error dir j = Some tf /\ mode_for g tf = Some TxNone /\ St x 1 j a has e).
Proof.
  intros [(j & a & has & e & HS1 & Hc)|H]; [left|right; exact H].
  assert (a = 0 /\ has = false) as [-> ->] by (destruct Hc as [(_ & -> & ->)|[-> ->]]; auto).
  rewrite (St0 x j 0 false e HS1) in HS1. exists j. split; [exact HS1|apply Bd_journal; exact HS1].
Qed.

(** file mode, every file effectively in file mode *)
Lemma file_crash_rerun (c0 : db) k0 n o c1 tr pt i d :
  clean dir -> (forall tf, In tf dir -> mode_for TxFile tf = Some TxFile) -> Bd c0 k0 ->
  apply_run TxFile n (dskip ++ dir) c0 = (o, c1, tr) -> crash_state tr pt i = Some d ->
  whole_files d /\
  exists o2 c2 tr2, apply_run TxFile 0 (dskip ++ dir) d = (o2, c2, tr2) /\
                    (o2 = ADone \/ o2 = APend PNoPending) /\ completed c2 0 /\
                    d_journal c2 = map snd (plan all).
Proof.
  intros Hcl Hm HB Hrun Hcr.
  assert (valid TxFile dir) as Hval by (intros tf Hin; rewrite (Hm tf Hin); discriminate).
  destruct (crash_rerun TxFile c0 0 k0 0 false false n o c1 tr pt i d Hcl Hval HB ltac:(intros H; discriminate) Hrun Hcr)
    as (_ & Hc & o2 & c2 & tr2 & E2 & Ho2 & _ & _ & Hex).
  assert (whole_files d) as Hw.
  { destruct (class_boundary TxFile k0 d Hc) as [H|(j & tf & a & has & e & Hn & Em & _)]; [exact H|].
    rewrite (Hm tf (nth_error_In _ _ Hn)) in Em. discriminate. }
  split; [exact Hw|]. exists o2, c2, tr2. split; [exact E2|]. split; [exact Ho2|].
  assert (completed c2 0) as Hc2 by (apply Hex; right; destruct Hw as (j & Hj & _); eauto 8).
  split; [exact Hc2|apply completed0; exact Hc2].
Qed.

Lemma all_crash_rerun (c0 : db) k0 n o c1 tr pt i d :
  clean dir -> valid TxAll dir -> Bd c0 k0 ->
  apply_run TxAll n (dskip ++ dir) c0 = (o, c1, tr) -> crash_state tr pt i = Some d ->
  (d = c0 \/ (pt = AfterCommit /\ d = c1 /\ o = ADone)) /\
  exists o2 c2 tr2, apply_run TxAll 0 (dskip ++ dir) d = (o2, c2, tr2) /\
                    (o2 = ADone \/ o2 = APend PNoPending) /\ completed c2 0 /\
                    d_journal c2 = map snd (plan all).
Proof.
  intros Hcl Hval HB Hrun Hcr.
  destruct (crash_rerun TxAll c0 0 k0 0 false false n o c1 tr pt i d Hcl Hval HB ltac:(intros H; discriminate) Hrun Hcr)
    as (_ & Hc & o2 & c2 & tr2 & E2 & Ho2 & _ & _ & Hex).
  split; [exact Hc|]. exists o2, c2, tr2. split; [exact E2|]. split; [exact Ho2|].
  assert (completed c2 0) as Hc2 by (apply Hex; left; reflexivity).
  split; [exact Hc2|apply completed0; exact Hc2].
Qed.

(** global mode none or file with any valid per-file directives *)
Lemma mixed_crash_rerun g (c0 : db) k0 n o c1 tr pt i d :
  g <> TxAll -> clean dir -> valid g dir -> Bd c0 k0 ->
  apply_run g n (dskip ++ dir) c0 = (o, c1, tr) -> crash_state tr pt i = Some d ->
  (whole_files d \/
   (exists j tf a has e, nth_error dir j = Some tf /\ mode_for g tf = Some TxNone /\ St d 1 j a has e)) /\
  exists o2 c2 tr2, apply_run g 0 (dskip ++ dir) d = (o2, c2, tr2) /\
                    (o2 = ADone \/ o2 = APend PNoPending) /\ completed c2 1 /\
                    (whole_files d -> completed c2 0 /\ d_journal c2 = map snd (plan all)).
Proof.
  intros Hg Hcl Hval HB Hrun Hcr.
  destruct (crash_rerun g c0 0 k0 0 false false n o c1 tr pt i d Hcl Hval HB ltac:(intros H; discriminate) Hrun Hcr)
    as (_ & Hc & o2 & c2 & tr2 & E2 & Ho2 & Hc21 & _ & Hex).
  assert (crash_class g 0 k0 0 false d) as Hc' by (destruct g; [exact Hc|exact Hc|congruence]).
  split; [apply (class_boundary g k0 d Hc')|].
  exists o2, c2, tr2. split; [exact E2|]. split; [exact Ho2|]. split; [exact Hc21|].
  intros (j & Hj & _). assert (completed c2 0) as Hc2 by (apply Hex; right; eauto 8).
  split; [exact Hc2|apply completed0; exact Hc2].
Qed.



(** what a resume state says about journal and table (rev_sound) *)
Lemma DInv_sound (d : db) D :
  DInv d D ->
  exists P E reps,
    P <= E /\ E <= P + 1 /\ E <= plen /\ length reps = E /\ list_sum reps <= D /\
    d_journal d = map snd (expand (firstn E (plan all)) reps) /\
    claimed_plan hash all (d_tbl d) = firstn P (plan all).
Proof.
  intros (k & a & has & e & HI & J & dd & Hj & Hst & HE & HD).
  destruct (stutter_expand _ _ _ Hst) as (reps & Hl & Hs & HJ).
  exists (pos k a), (pos k a + b2n e), reps.
  split; [lia|]. split; [destruct e; simpl; lia|]. split; [exact HE|].
  split; [rewrite Hl; apply upto_length; exact HE|]. split; [lia|].
  split; [rewrite Hj, HJ; reflexivity|].
  eapply Inv_claimed; eauto. exact Hsorted.
Qed.

Lemma rev_sound_lemma g (c0 : db) k0 n o c1 tr pt i d :
  clean dir -> valid g dir -> Bd c0 k0 ->
  apply_run g n (dskip ++ dir) c0 = (o, c1, tr) -> crash_state tr pt i = Some d ->
  exists P E reps,
    P <= E /\ E <= P + 1 /\ E <= plen /\ length reps = E /\ list_sum reps <= 1 /\
    d_journal d = map snd (expand (firstn E (plan all)) reps) /\
    claimed_plan hash all (d_tbl d) = firstn P (plan all).
Proof.
  intros Hcl Hval HB Hrun Hcr.
  destruct (crash_rerun g c0 0 k0 0 false false n o c1 tr pt i d Hcl Hval HB ltac:(intros H; discriminate) Hrun Hcr)
    as (HD & _). apply (DInv_sound d 1 HD).
Qed.

(** After a failed statement the file's revision is partial. *)
Lemma stmt_err_partial (t : list rev) k a has f fs t1 fs1 es a1 has1 :
  Inv t k a has -> normal k a has -> nth_error all k = Some f ->
  execute f t fs = (OStmtErr, t1, fs1, es) -> Inv t1 k a1 has1 -> normal k a1 has1.
Proof.
  intros HI Hnorm Hn EX HI1 -> f' Hn'. rewrite Hn in Hn'. inversion Hn'; subst f'.
  destruct (Inv_pre hash HS all Hsorted t k a has f HI Hnorm Hn) as (r0 & Hpre & Htot & Ha).
  destruct (execute_shape hash hash_eqb HS hash_eqb_spec f t r0 Hpre fs _ _ _ _ EX) as [Hsh _].
  destruct HI1 as (_ & _ & _ & (g & r & Hg & Hgr & (_ & Hap & _) & _)). rewrite Hn in Hg. inversion Hg; subst g.
  destruct Hsh as [Ho _ _|c ok3 _ Ho _ _|c s ok3 Hnth _ _ Ht|c s _ Ho _ _];
    try discriminate; [destruct ok3; discriminate|].
  assert (r_applied r0 + c < len f) as Hlt by (apply nth_error_Some; congruence).
  assert (r_version (if ok3 then set_err (cur hash HS f r0 c) true else sto hash HS f r0 c) = f_version f) as Hv.
  { destruct ok3; [simpl; apply (cur_version hash HS f t r0 Hpre)|apply (sto_version hash HS f t r0 Hpre)]. }
  assert (r_applied (if ok3 then set_err (cur hash HS f r0 c) true else sto hash HS f r0 c) = r_applied r0 + c) as Hap'.
  { unfold cur, sto. destruct ok3; destruct (c =? 0) eqn:Ec; simpl; try reflexivity;
      apply Nat.eqb_eq in Ec; subst c; lia. }
  subst t1. rewrite <- Hv, tbl_get_put_same in Hgr. inversion Hgr; subst r. lia.
Qed.

(** ** failing statements ([tf_bad]): where a failed command leaves the database *)
Lemma loop_any g : g <> TxAll ->
  forall tfiles (c : db) D k a has e,
  St c D k a has e -> normal k a has -> slice tfiles k -> valid g tfiles -> LK (d_tbl c) k ->
  exists o c' tr, apply_loop g tfiles c None = (o, c', None, tr) /\
    (o = ADone \/ o = AFail OStmtErr ->
     exists k' a' has' e', St c' D k' a' has' e' /\ normal k' a' has' /\ LK (d_tbl c') k').
Proof.
  intros Hg. induction tfiles as [|tf rest IH]; intros c D k a has e HS0 Hnorm Hsl Hval HL.
  - exists ADone, c, []. split; [reflexivity|]. intros _. exists k, a, has, e. auto.
  - destruct (slice_cons tf rest k Hsl) as (Hnd & Hn & Hsl' & Hin).
    pose proof HS0 as [HI _].
    cbn [TxModel.apply_loop].
    destruct (execute (tf_file tf) (d_tbl c) _) as [[[o1 t1] fs1] es] eqn:EX.
    destruct (file_facts (d_tbl c) k a has (tf_file tf) _ o1 t1 fs1 es HI Hnorm Hn EX) as (Ht1 & Hp & _ & Hwf & _).
    destruct (execute_lit (d_tbl c) k a has (tf_file tf) _ o1 t1 fs1 es HI Hnorm Hn (proj1 HL) EX) as (K1 & Hoth & _).
    assert (o1 = ODone ->
            exists o c' tr, apply_loop g rest (db_of_events es c) None = (o, c', None, tr) /\
              (o = ADone \/ o = AFail OStmtErr -> exists k' a' has' e', St c' D k' a' has' e' /\ normal k' a' has' /\ LK (d_tbl c') k')) as Hcont.
    { intros ->. destruct (file_done c D k a has e (tf_file tf) _ t1 fs1 es HS0 Hnorm Hn EX) as ([e1 HS1] & HL1).
      apply (IH (db_of_events es c) D (S k) 0 false e1 HS1 ltac:(intros H; discriminate) Hsl'
               ltac:(intros x Hx; apply Hval; right; exact Hx) (HL1 HL)). }
    destruct (mode_for_nf g tf Hg (Hval tf (or_introl eq_refl))) as [Em|Em]; rewrite Em.
    + destruct (run_direct es c) as [c1' tr1] eqn:R.
      destruct (run_direct_spec hash es c) as [Hf _]. rewrite R in Hf. simpl in Hf. subst c1'.
      destruct o1.
      * destruct (Hcont eq_refl) as (o2 & c' & tr2 & Hloop & H2). rewrite Hloop. eexists _, _, _. split; [reflexivity|exact H2].
      * eexists _, _, _. split; [reflexivity|]. intros _.
        destruct (file_whole hash hash_eqb HS hash_eqb_spec all Hsorted (d_tbl c) k a has (tf_file tf) _ _ _ _ _ HI Hnorm Hn EX)
          as (a1 & has1 & e1 & H1 & H2 & H3 & H4 & H5).
        rewrite (Hwf eq_refl) in H5. destruct e1; [discriminate|].
        destruct (St_step c (db_of_events es c) D k a has e k a1 has1 false (journal es) HS0
                    ltac:(rewrite db_of_events_tbl, <- Ht1; exact H1) (db_of_events_journal hash es c) H2
                    ltac:(unfold RunProofs.pos; lia)
                    ltac:(rewrite pos_add; apply (pos_bound all k _ _ Hn H4))) as [e' H'].
        cbn [b2n] in H'. rewrite Nat.add_0_r in H'.
        exists k, a1, has1, e'. split; [exact H'|].
        split; [apply (stmt_err_partial (d_tbl c) k a has (tf_file tf) _ t1 fs1 es a1 has1 HI Hnorm Hn EX H1)|].
        rewrite db_of_events_tbl, <- Ht1. apply (LK_keep (d_tbl c) t1 k (tf_file tf) Hn HL K1 Hoth).
      * eexists _, _, _. split; [reflexivity|]. intros [H|H]; discriminate.
      * eexists _, _, _. split; [reflexivity|]. intros [H|H]; discriminate.
      * eexists _, _, _. split; [reflexivity|]. intros [H|H]; discriminate.
    + destruct (run_in_tx es c c) as [w1' tr1] eqn:R.
      pose proof (run_in_tx_fst es c c) as Hf. rewrite R in Hf. simpl in Hf. subst w1'.
      destruct o1.
      * destruct (Hcont eq_refl) as (o2 & c' & tr2 & Hloop & H2). rewrite Hloop. eexists _, _, _. split; [reflexivity|exact H2].
      * eexists _, _, _. split; [reflexivity|]. intros _. exists k, a, has, e. auto.
      * eexists _, _, _. split; [reflexivity|]. intros _. exists k, a, has, e. auto.
      * eexists _, _, _. split; [reflexivity|]. intros _. exists k, a, has, e. auto.
      * eexists _, _, _. split; [reflexivity|]. intros _. exists k, a, has, e. auto.
Qed.

Lemma run_any g n (c : db) D k a has e o c1 tr :
  valid g dir -> St c D k a has e -> normal k a has -> LK (d_tbl c) k ->
  apply_run g n (dskip ++ dir) c = (o, c1, tr) -> o = AFail OStmtErr ->
  exists k' a' has' e', St c1 D k' a' has' e' /\ normal k' a' has' /\ LK (d_tbl c1) k'.
Proof.
  intros Hval HS0 Hnorm HL Hrun Ho. pose proof HS0 as [HI _].
  destruct (mode_eqb g TxAll) eqn:Eg.
  - assert (g = TxAll) as -> by (destruct g; simpl in Eg; congruence).
    destruct (apply_run_all_atomic hash hash_eqb HS n (dskip ++ dir) c o c1 tr Hrun) as [Hc _].
    rewrite Hc by (rewrite Ho; discriminate). eauto 8.
  - assert (g <> TxAll) as Hg by (intros ->; discriminate).
    rewrite (apply_run_unfold g n c k a has HI Hnorm) in Hrun.
    destruct (skipn k all) as [|f l] eqn:E; [inversion Hrun; subst; discriminate|].
    destruct (loop_any g Hg (dsl k n) c D k a has e HS0 Hnorm (dsl_slice k n)
                ltac:(intros x Hx; apply Hval; eapply dsl_In; eauto) HL) as (o' & c' & tr' & Hloop & H).
    rewrite Hloop in Hrun. destruct o'; inversion Hrun; subst; apply H; auto.
Qed.

(** The fixed directory: the same files without a failing statement. *)
Definition fixed : list tfile := map (fun tf => mkTfile (tf_file tf) (tf_directive tf) None) dir.

Lemma fixed_files : map tf_file fixed = all.
Proof. unfold fixed, all. rewrite map_map. reflexivity. Qed.

Lemma fixed_clean : clean fixed.
Proof. intros f Hin. apply in_map_iff in Hin as (x & <- & _). reflexivity. Qed.

Lemma fixed_valid g : valid g dir -> valid g fixed.
Proof. intros H f Hin. apply in_map_iff in Hin as (x & <- & Hx). apply (H x Hx). Qed.

(** The one final state of a completed migration. *)
Definition final_db : db := mkDb (map snd (plan all)) (map done_rev all).

Lemma St_final c a has e : St c 0 (length all) a has e -> LK (d_tbl c) (length all) -> c = final_db.
Proof.
  intros HS0 HL. pose proof HS0 as [HI _].
  pose proof (completed0 c (St_completed c 0 a has e HS0)) as Hj.
  pose proof (LK_full_table (d_tbl c) a has HI HL) as Ht.
  destruct c as [j t]. simpl in *. subst. reflexivity.
Qed.

End Crash.

(** ** C13: fixing the failing statement and re-running *)
Section Fix.
Variable hash : Type.
Variable hash_eqb : hash -> hash -> bool.
Variable HS : bytes -> hash.
Hypothesis hash_eqb_spec : forall a b, hash_eqb a b = true <-> a = b.
Variable dskip dir : list tfile.
Hypothesis Hfull : sorted_files (map tf_file dskip ++ map tf_file dir).
Hypothesis Hfresh : from_last_ckpt (map tf_file dskip ++ map tf_file dir) = map tf_file dir.

Notation fdir := (fixed dir).
Notation apply_run := (apply_run hash hash_eqb HS).

Lemma fixed_full : sorted_files (map tf_file dskip ++ map tf_file fdir).
Proof. rewrite (fixed_files dir). exact Hfull. Qed.
Lemma fixed_fresh : from_last_ckpt (map tf_file dskip ++ map tf_file fdir) = map tf_file fdir.
Proof. rewrite (fixed_files dir). exact Hfresh. Qed.

Lemma St_fixed (c : db hash) D k a has e : St hash HS dir c D k a has e <-> St hash HS fdir c D k a has e.
Proof. unfold St. rewrite (fixed_files dir). reflexivity. Qed.
Lemma LK_fixed (t : list (rev hash)) k : LK hash dir t k <-> LK hash fdir t k.
Proof. unfold LK, Lit, done_rev. rewrite (fixed_files dir). reflexivity. Qed.
Lemma normal_fixed k a has : normal (map tf_file dir) k a has <-> normal (map tf_file fdir) k a has.
Proof. rewrite (fixed_files dir). reflexivity. Qed.
Lemma final_fixed : final_db hash fdir = final_db hash dir.
Proof. unfold final_db, done_rev. rewrite (fixed_files dir). reflexivity. Qed.

(** From any resume state without repeats and with literal rows, applying the
    fixed directory ends in THE final state. *)
Lemma fixed_completes g (c : db hash) k a has e :
  valid g dir -> St hash HS dir c 0 k a has e -> normal (map tf_file dir) k a has -> LK hash dir (d_tbl c) k ->
  exists o2 c2 tr2, apply_run g 0 (dskip ++ fdir) c = (o2, c2, tr2) /\
                    (o2 = ADone \/ o2 = APend PNoPending) /\ c2 = final_db hash dir.
Proof.
  intros Hval HS0 Hnorm HL.
  destruct (run_clean hash hash_eqb HS hash_eqb_spec dskip fdir fixed_full fixed_fresh g 0 c 0 k a has e
              (fixed_clean dir) (fixed_valid dir g Hval) (proj1 (St_fixed c 0 k a has e) HS0)
              (proj1 (normal_fixed k a has) Hnorm))
    as (o2 & c2 & tr2 & k2 & a2 & has2 & e2 & E2 & Ho2 & HS2 & _ & Hk2 & HL2 & _).
  exists o2, c2, tr2. split; [exact E2|]. split; [exact Ho2|].
  rewrite (Hk2 eq_refl) in HS2, HL2. rewrite <- final_fixed.
  apply (St_final hash HS dskip fdir fixed_full c2 a2 has2 e2 HS2). apply HL2. apply LK_fixed. exact HL.
Qed.

Lemma fix_rerun_lemma g (c0 : db hash) k0 n o c1 tr :
  valid g dir -> Bd hash HS dir c0 k0 -> LK hash dir (d_tbl c0) k0 ->
  apply_run g n (dskip ++ dir) c0 = (o, c1, tr) -> o = AFail OStmtErr ->
  exists o2 c2 tr2 o3 c3 tr3,
    apply_run g 0 (dskip ++ fdir) c1 = (o2, c2, tr2) /\ (o2 = ADone \/ o2 = APend PNoPending) /\
    apply_run g 0 (dskip ++ fdir) c0 = (o3, c3, tr3) /\ (o3 = ADone \/ o3 = APend PNoPending) /\
    c2 = c3 /\ c2 = final_db hash dir.
Proof.
  intros Hval HB HL Hrun Ho.
  assert (normal (map tf_file dir) k0 0 false) as Hn0 by (intros H; discriminate).
  destruct (run_any hash hash_eqb HS hash_eqb_spec dskip dir Hfull Hfresh g n c0 0 k0 0 false false o c1 tr
              Hval HB Hn0 HL Hrun Ho) as (k & a & has & e & HS1 & Hn1 & HL1).
  destruct (fixed_completes g c1 k a has e Hval HS1 Hn1 HL1) as (o2 & c2 & tr2 & E2 & Ho2 & Hc2).
  destruct (fixed_completes g c0 k0 0 false false Hval HB Hn0 HL) as (o3 & c3 & tr3 & E3 & Ho3 & Hc3).
  exists o2, c2, tr2, o3, c3, tr3. repeat (split; [assumption|]). split; congruence.
Qed.

End Fix.
