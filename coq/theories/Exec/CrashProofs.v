(** Crash / failure recovery of `migrate apply` (C10 re-run clause, C10
    rev_sound, C13 fix-and-rerun): M-TX over the C09 resume invariant.

    Setting: one directory [dir] (its files strictly sorted by version, no
    checkpoint file, no txmode directive). A database state is described by
    - [Bd d k]   : a file boundary -- the journal holds exactly the statements
                   of the first [k] files, the table holds their complete
                   revisions and nothing else;
    - [DInv d D] : the general resume state -- the table satisfies the C09
                   invariant and the journal is the plan up to the executed
                   position with at most [D] repeated statements. *)
From Coq Require Import List NArith Bool Arith Lia.
From Atlas Require Import Base.Bytes Base.ListX Base.Stutter
  Exec.ExecModel Exec.ExecProofs Exec.StepProofs Exec.PendingModel Exec.PendingProofs
  Exec.RunModel Exec.TxModel Exec.TxProofs Exec.RunProofs.
Import ListNotations.

Section Crash.
Variable hash : Type.
Variable hash_eqb : hash -> hash -> bool.
Variable HS : bytes -> hash.
Hypothesis hash_eqb_spec : forall a b, hash_eqb a b = true <-> a = b.

Variable dir : list tfile.
Let all := map tf_file dir.
Hypothesis Hsorted : sorted_files all.
Hypothesis Hnock : forall f, In f all -> f_ckpt f = false.
Hypothesis Hnodir : no_directive dir.

Notation rev := (rev hash).
Notation event := (event hash).
Notation db := (db hash).
Notation execute := (execute hash hash_eqb HS).
Notation exec_files := (exec_files hash hash_eqb HS).
Notation execute_n := (execute_n hash hash_eqb HS).
Notation apply_loop := (apply_loop hash hash_eqb HS).
Notation apply_run := (apply_run hash hash_eqb HS).
Notation tbl_of_events := (tbl_of_events hash).
Notation db_of_events := (db_of_events hash).
Notation run_direct := (run_direct hash).
Notation run_in_tx := (run_in_tx hash).
Notation Inv := (Inv hash HS all).
Notation normal := (normal all).
Notation pos := (pos all).
Notation upto := (upto all).
Notation GInv := (GInv hash HS all).
Notation GDone := (GDone hash HS all).
Local Notation plen := (length (plan all)).

Definition clean (d : list tfile) : Prop := forall f, In f d -> tf_bad f = None.

Definition Bd (d : db) (k : nat) : Prop :=
  Inv (d_tbl d) k 0 false /\ d_journal d = map snd (upto (pos k 0)).

Definition DInv (d : db) (D : nat) : Prop :=
  exists J, d_journal d = map snd J /\ GInv (d_tbl d) J D.

Lemma Bd_DInv d k : Bd d k -> DInv d 0.
Proof.
  intros [HI Hj]. exists (upto (pos k 0)). split; [exact Hj|].
  exists k, 0, false, false, 0. split; [exact HI|]. cbn [b2n]. rewrite Nat.add_0_r.
  split; [apply stutter_refl|]. split; [|lia].
  eapply Inv_pos_le; exact HI.
Qed.

Lemma Bd_empty : Bd (mkDb [] []) 0.
Proof. split; [apply Inv_nil|reflexivity]. Qed.

(** the model's fault stream of a file without a failing statement is "no fault" *)
Lemma execute_clean_faults (tf : tfile) (t : list rev) a :
  tf_bad tf = None -> execute (tf_file tf) t (bad_faults tf a) = execute (tf_file tf) t [].
Proof.
  intros Hb. unfold bad_faults. rewrite Hb.
  assert (forall n, bad_faults_from n a None = []) as -> by (destruct n; reflexivity).
  reflexivity.
Qed.

Lemma mode_for_plain m tf : In tf dir -> mode_for m tf = Some m.
Proof. intros Hin. apply mode_for_none_dir. apply Hnodir. exact Hin. Qed.

(** ** slices of the directory *)
Definition slice (tfiles : list tfile) (k : nat) : Prop :=
  tfiles = firstn (length tfiles) (skipn k dir).

Lemma slice_files tfiles k : slice tfiles k ->
  map tf_file tfiles = firstn (length (map tf_file tfiles)) (skipn k all).
Proof.
  intros H. unfold all. rewrite map_length, skipn_map, firstn_map, <- H. reflexivity.
Qed.

Lemma slice_cons tf rest k : slice (tf :: rest) k ->
  nth_error dir k = Some tf /\ nth_error all k = Some (tf_file tf) /\ slice rest (S k) /\ In tf dir.
Proof.
  unfold slice. cbn [length firstn]. intros H.
  destruct (skipn k dir) as [|x tl] eqn:E; [discriminate|]. injection H as Ex Er. subst x.
  apply skipn_cons_inv in E as [Hn Hs]. rewrite <- Hs in Er.
  split; [exact Hn|]. split; [unfold all; apply map_nth_error; exact Hn|]. split; [exact Er|].
  eapply nth_error_In; exact Hn.
Qed.

(** one file, fault-free, from a state that satisfies the invariant *)
Lemma one_file t k a has f :
  Inv t k a has -> normal k a has -> nth_error all k = Some f ->
  exists t1 es,
    execute f t [] = (ODone, t1, [], es) /\ t1 = tbl_of_events es t /\
    Inv t1 (S k) 0 false /\ upto (pos k a) ++ journal es = upto (pos (S k) 0).
Proof.
  intros HI Hnorm Hn.
  assert ([f] = firstn (length [f]) (skipn k all)) as Hsl.
  { simpl. rewrite (skipn_nth_cons all k f Hn). reflexivity. }
  destruct (execute f t []) as [[[o t1] fs1] es] eqn:EX.
  pose proof (exec_files_single hash hash_eqb HS f t []) as Hs. rewrite EX in Hs.
  destruct (exec_files_inv hash hash_eqb HS hash_eqb_spec all Hsorted [f] t [] o t1 fs1 es k a has HI Hnorm Hsl Hs)
    as (Hp & Hnf & Ht).
  destruct (Hnf eq_refl) as [-> ->].
  destruct (Hp es [] ltac:(rewrite app_nil_r; reflexivity)) as (k1 & a1 & has1 & e1 & H1 & H2 & _ & _ & H5).
  destruct (H5 eq_refl) as [_ Hd].
  destruct (Hd eq_refl ltac:(left; discriminate)) as (-> & -> & -> & ->).
  rewrite <- Ht in H1. cbn [b2n] in H2. rewrite Nat.add_0_r in H2.
  replace (k + length [f]) with (S k) in * by (simpl; lia).
  exists t1, es. auto.
Qed.

Lemma one_file_Bd (w0 : db) k f :
  Bd w0 k -> nth_error all k = Some f ->
  exists t1 es, execute f (d_tbl w0) [] = (ODone, t1, [], es) /\ Bd (db_of_events es w0) (S k).
Proof.
  intros [HI Hj] Hn.
  destruct (one_file (d_tbl w0) k 0 false f HI ltac:(intros H; discriminate) Hn) as (t1 & es & EX & Ht & HI1 & Hup).
  exists t1, es. split; [exact EX|]. split.
  - rewrite db_of_events_tbl, <- Ht. exact HI1.
  - rewrite db_of_events_journal, Hj, <- map_app, Hup. reflexivity.
Qed.

Lemma run_in_tx_fst es (w c : db) : fst (run_in_tx es w c) = db_of_events es w.
Proof.
  revert w; induction es as [|e es IH]; intros w; simpl; [reflexivity|].
  destruct (run_in_tx es (apply_event hash w e) c) as [w'' tr] eqn:R.
  specialize (IH (apply_event hash w e)). rewrite R in IH. exact IH.
Qed.

Lemma run_direct_app es1 es2 (c : db) :
  snd (run_direct (es1 ++ es2) c) = snd (run_direct es1 c) ++ snd (run_direct es2 (db_of_events es1 c)).
Proof.
  revert c; induction es1 as [|e es1 IH]; intros c; simpl; [reflexivity|].
  specialize (IH (apply_event hash c e)).
  destruct (run_direct (es1 ++ es2) (apply_event hash c e)) as [d1 tr1].
  destruct (run_direct es1 (apply_event hash c e)) as [d2 tr2].
  simpl in *. rewrite IH. rewrite <- !app_assoc. reflexivity.
Qed.

Lemma db_of_events_app es1 es2 (c : db) :
  db_of_events (es1 ++ es2) c = db_of_events es2 (db_of_events es1 c).
Proof. unfold TxProofs.db_of_events. apply fold_left_app. Qed.

(** ** tx-mode none = the executor's run, event by event *)
Lemma loop_none_exec : forall tfiles (c : db) k a has,
  Inv (d_tbl c) k a has -> normal k a has -> slice tfiles k -> clean tfiles ->
  exists t' es,
    exec_files (map tf_file tfiles) (d_tbl c) [] = (ODone, t', [], es) /\
    apply_loop TxNone tfiles c None = (ADone, db_of_events es c, None, snd (run_direct es c)).
Proof.
  induction tfiles as [|tf rest IH]; intros c k a has HI Hnorm Hsl Hcl.
  - exists (d_tbl c), []. split; reflexivity.
  - destruct (slice_cons tf rest k Hsl) as (Hnd & Hn & Hsl' & Hin).
    destruct (one_file (d_tbl c) k a has (tf_file tf) HI Hnorm Hn) as (t1 & es1 & EX & Ht1 & HI1 & _).
    set (c1 := db_of_events es1 c).
    assert (d_tbl c1 = t1) as Etc1 by (unfold c1; rewrite db_of_events_tbl; symmetry; exact Ht1).
    destruct (IH c1 (S k) 0 false ltac:(rewrite Etc1; exact HI1) ltac:(intros H; discriminate) Hsl'
                ltac:(intros g Hg; apply Hcl; right; exact Hg)) as (t' & es_r & EXr & Hloop).
    exists t', (es1 ++ es_r). split.
    + cbn [map ExecModel.exec_files]. rewrite EX. rewrite <- Etc1, EXr. reflexivity.
    + cbn [TxModel.apply_loop]. rewrite (mode_for_plain TxNone tf Hin).
      rewrite (execute_clean_faults tf _ _ (Hcl tf (or_introl eq_refl))), EX.
      destruct (run_direct es1 c) as [c1' tr1] eqn:R.
      destruct (run_direct_spec hash es1 c) as [Hf _]. rewrite R in Hf. simpl in Hf. subst c1'.
      fold c1. rewrite Hloop. rewrite db_of_events_app, run_direct_app, R. reflexivity.
Qed.

(** ** tx-mode file: commits are file boundaries *)
Lemma loop_file_clean : forall tfiles (c : db) k,
  Bd c k -> slice tfiles k -> clean tfiles ->
  exists c' tr, apply_loop TxFile tfiles c None = (ADone, c', None, tr) /\
                Bd c' (k + length tfiles) /\
                (forall p x, In (p, x) tr -> exists j, Bd x j).
Proof.
  induction tfiles as [|tf rest IH]; intros c k HB Hsl Hcl.
  - exists c, []. split; [reflexivity|]. split; [rewrite Nat.add_0_r; exact HB|intros p x []].
  - destruct (slice_cons tf rest k Hsl) as (Hnd & Hn & Hsl' & Hin).
    destruct (one_file_Bd c k (tf_file tf) HB Hn) as (t1 & es1 & EX & HB1).
    set (w1 := db_of_events es1 c) in *.
    destruct (IH w1 (S k) HB1 Hsl' ltac:(intros g Hg; apply Hcl; right; exact Hg)) as (c' & tr2 & Hloop & HB' & Htr2).
    cbn [TxModel.apply_loop]. rewrite (mode_for_plain TxFile tf Hin).
    rewrite (execute_clean_faults tf _ _ (Hcl tf (or_introl eq_refl))), EX.
    destruct (run_in_tx es1 c c) as [w1' tr1] eqn:R.
    pose proof (run_in_tx_fst es1 c c) as Hf. rewrite R in Hf. simpl in Hf. subst w1'. fold w1.
    pose proof (run_in_tx_trace hash es1 c c) as Htr1. rewrite R in Htr1. simpl in Htr1.
    rewrite Hloop. eexists _, _. split; [reflexivity|]. split.
    + replace (k + length (tf :: rest)) with (S k + length rest) by (simpl; lia). exact HB'.
    + intros p x Hx. apply in_app_or in Hx as [Hx|Hx].
      * exists k. rewrite (Htr1 p x Hx). exact HB.
      * simpl in Hx. destruct Hx as [Hx|[Hx|Hx]].
        -- inversion Hx; subst. exists k. exact HB.
        -- inversion Hx; subst. exists (S k). exact HB1.
        -- apply (Htr2 p x Hx).
Qed.

(** ** tx-mode all: one working copy, committed at the end *)
Lemma loop_all_clean : forall tfiles (c : db) (w : option db) k,
  Bd (match w with Some x => x | None => c end) k -> slice tfiles k -> clean tfiles ->
  exists w1 tr, apply_loop TxAll tfiles c w = (ADone, c, w1, tr) /\
                Bd (match w1 with Some x => x | None => c end) (k + length tfiles) /\
                (tfiles <> [] -> w1 <> None).
Proof.
  induction tfiles as [|tf rest IH]; intros c w k HB Hsl Hcl.
  - exists w, []. split; [reflexivity|]. split; [rewrite Nat.add_0_r; exact HB|congruence].
  - destruct (slice_cons tf rest k Hsl) as (Hnd & Hn & Hsl' & Hin).
    set (w0 := match w with Some x => x | None => c end) in *.
    destruct (one_file_Bd w0 k (tf_file tf) HB Hn) as (t1 & es1 & EX & HB1).
    set (w1 := db_of_events es1 w0) in *.
    destruct (IH c (Some w1) (S k) HB1 Hsl' ltac:(intros g Hg; apply Hcl; right; exact Hg))
      as (w2 & tr2 & Hloop & HB' & Hne).
    cbn [TxModel.apply_loop]. rewrite (mode_for_plain TxAll tf Hin). fold w0.
    rewrite (execute_clean_faults tf _ _ (Hcl tf (or_introl eq_refl))), EX.
    destruct (run_in_tx es1 w0 c) as [w1' tr1] eqn:R.
    pose proof (run_in_tx_fst es1 w0 c) as Hf. rewrite R in Hf. simpl in Hf. subst w1'. fold w1.
    rewrite Hloop. eexists _, _. split; [reflexivity|]. split.
    + replace (k + length (tf :: rest)) with (S k + length rest) by (simpl; lia). exact HB'.
    + intros _. destruct rest as [|x rest'].
      * simpl in Hloop. inversion Hloop; subst. discriminate.
      * apply Hne. discriminate.
Qed.

(** ** the whole command *)
Lemma filter_unique {A} (key : A -> bytes) (l : list A) x :
  NoDup (map key l) -> In x l -> filter (fun y => bytes_eqb (key y) (key x)) l = [x].
Proof.
  induction l as [|y l IH]; simpl; intros Hnd Hin; [destruct Hin|].
  inversion Hnd as [|? ? Hni Hnd']; subst.
  destruct Hin as [->|Hin].
  - rewrite bytes_eqb_refl. f_equal. apply filter_false. intros z Hz.
    apply bytes_eqb_neq. intros E. apply Hni. rewrite <- E. apply in_map. exact Hz.
  - assert (bytes_eqb (key y) (key x) = false) as ->.
    { apply bytes_eqb_neq. intros E. apply Hni. rewrite E. apply in_map. exact Hin. }
    apply IH; assumption.
Qed.

Lemma In_firstn {A} n (l : list A) x : In x (firstn n l) -> In x l.
Proof. intros H. rewrite <- (firstn_skipn n l). apply in_or_app. left. exact H. Qed.
Lemma In_skipn {A} n (l : list A) x : In x (skipn n l) -> In x l.
Proof. intros H. rewrite <- (firstn_skipn n l). apply in_or_app. right. exact H. Qed.

Definition dsl (k n : nat) : list tfile :=
  if 0 <? n then firstn n (skipn k dir) else skipn k dir.

Lemma dsl_slice k n : slice (dsl k n) k.
Proof.
  unfold slice, dsl. destruct (0 <? n); [apply firstn_length_self|]. symmetry. apply firstn_all.
Qed.

Lemma dsl_In k n x : In x (dsl k n) -> In x dir.
Proof.
  unfold dsl. destruct (0 <? n); intros H; [apply In_firstn in H|]; apply In_skipn in H; exact H.
Qed.

Lemma dsl_chosen k n :
  (if 0 <? n then firstn n (skipn k all) else skipn k all) = map tf_file (dsl k n).
Proof.
  unfold dsl, all. destruct (0 <? n); rewrite skipn_map; [rewrite firstn_map|]; reflexivity.
Qed.

Lemma tchosen_dsl k n :
  flat_map (fun f => filter (fun tf => bytes_eqb (f_version (tf_file tf)) (f_version f)) dir)
           (map tf_file (dsl k n)) = dsl k n.
Proof.
  assert (NoDup (map (fun tf => f_version (tf_file tf)) dir)) as Hnd.
  { pose proof (sorted_files_NoDup all Hsorted) as H. unfold all in H. rewrite map_map in H. exact H. }
  pose proof (dsl_In k n) as Hin. induction (dsl k n) as [|x l IH]; [reflexivity|].
  simpl. rewrite (filter_unique (fun tf => f_version (tf_file tf)) dir x Hnd (Hin x (or_introl eq_refl))).
  simpl. f_equal. apply IH. intros y Hy. apply Hin. right. exact Hy.
Qed.

Definition the_cfg : cfg := mkCfg Linear None true true.

Lemma the_cfg_ok : cfg_ok the_cfg.
Proof. split; reflexivity. Qed.

Lemma apply_run_unfold global n (c : db) k a has :
  Inv (d_tbl c) k a has -> normal k a has ->
  apply_run global n dir c =
  match skipn k all with
  | [] => (APend PNoPending, c, [])
  | _ => let '(o, c1, w, tr) := apply_loop global (dsl k n) c None in
         match o, w with
         | ADone, Some wd => (ADone, wd, tr ++ [(BeforeCommit, c1); (AfterCommit, wd)])
         | _, _ => (o, c1, tr)
         end
  end.
Proof.
  intros HI Hnorm. unfold TxModel.apply_run. fold all. fold the_cfg.
  rewrite (pending_inv hash HS all Hsorted Hnock the_cfg (d_tbl c) k a has the_cfg_ok HI Hnorm).
  destruct (skipn k all) as [|f l] eqn:E; [reflexivity|].
  cbn [fst finish]. rewrite <- E, (dsl_chosen k n), tchosen_dsl. reflexivity.
Qed.

Lemma dsl_nonempty k n : skipn k all <> [] -> dsl k n <> [].
Proof.
  unfold dsl, all. rewrite skipn_map. destruct (skipn k dir) as [|x l]; [simpl; congruence|].
  intros _. destruct (0 <? n) eqn:E; [|discriminate].
  apply Nat.ltb_lt in E. destruct n; [lia|discriminate].
Qed.

Lemma Bd_final (c : db) : Bd c (length all) ->
  d_journal c = map snd (plan all) /\
  (forall f, In f all -> exists r, tbl_get (d_tbl c) (f_version f) = Some r /\
                                   r_applied r = length (f_stmts f) /\ r_total r = length (f_stmts f)).
Proof.
  intros [HI Hj]. split.
  - rewrite Hj, pos_all, upto_all. reflexivity.
  - intros f Hin. apply In_nth_error in Hin as [i Hi].
    assert (i < length all) as Hlt by (apply nth_error_Some; congruence).
    destruct HI as (_ & _ & Hrows & _). destruct (Hrows i f Hlt Hi) as (r & Hg & (_ & Hap & _) & Ht).
    exists r. auto.
Qed.

Lemma Bd_le (c : db) k : Bd c k -> k <= length all.
Proof. intros [(Hm & _) _]. simpl in Hm. lia. Qed.

Lemma dsl_full_length k : k <= length all -> k + length (dsl k 0) = length all.
Proof. intros H. unfold dsl. simpl. rewrite skipn_length. unfold all in *. rewrite map_length in *. lia. Qed.

(** file mode: every crash point and the end of the command are file boundaries;
    without a count the command ends at the last boundary *)
Lemma run_file_clean (c : db) k n :
  clean dir -> Bd c k ->
  exists o c1 tr, apply_run TxFile n dir c = (o, c1, tr) /\
    (o = ADone \/ o = APend PNoPending) /\ (exists j, Bd c1 j) /\
    (n = 0 -> Bd c1 (length all)) /\
    (forall p x, In (p, x) tr -> exists j, Bd x j).
Proof.
  intros Hcl HB. pose proof HB as [HI _].
  rewrite (apply_run_unfold TxFile n c k 0 false HI ltac:(intros H; discriminate)).
  destruct (skipn k all) as [|f l] eqn:E.
  - eexists _, _, _. split; [reflexivity|]. split; [auto|]. split; [eauto|]. split; [|intros p x []].
    intros _. assert (k = length all) as <-; [|exact HB].
    pose proof (Bd_le c k HB). apply (f_equal (@length _)) in E. rewrite skipn_length in E. simpl in E. lia.
  - destruct (loop_file_clean (dsl k n) c k HB (dsl_slice k n) ltac:(intros g Hg; apply Hcl; eapply dsl_In; eauto))
      as (c' & tr & Hloop & HB' & Htr).
    rewrite Hloop. eexists _, _, _. split; [reflexivity|]. split; [auto|]. split; [eauto|]. split; [|exact Htr].
    intros ->. rewrite (dsl_full_length k (Bd_le c k HB)) in HB'. exact HB'.
Qed.

Lemma run_all_clean (c : db) k n :
  clean dir -> Bd c k ->
  exists o c1 tr, apply_run TxAll n dir c = (o, c1, tr) /\
    (o = ADone \/ o = APend PNoPending) /\ (exists j, Bd c1 j) /\
    (n = 0 -> Bd c1 (length all)).
Proof.
  intros Hcl HB. pose proof HB as [HI _].
  rewrite (apply_run_unfold TxAll n c k 0 false HI ltac:(intros H; discriminate)).
  destruct (skipn k all) as [|f l] eqn:E.
  - eexists _, _, _. split; [reflexivity|]. split; [auto|]. split; [eauto|].
    intros _. assert (k = length all) as <-; [|exact HB].
    pose proof (Bd_le c k HB). apply (f_equal (@length _)) in E. rewrite skipn_length in E. simpl in E. lia.
  - destruct (loop_all_clean (dsl k n) c None k HB (dsl_slice k n) ltac:(intros g Hg; apply Hcl; eapply dsl_In; eauto))
      as (w1 & tr & Hloop & HB' & Hne).
    rewrite Hloop. destruct w1 as [wd|].
    2:{ exfalso. apply (Hne (dsl_nonempty k n ltac:(rewrite E; discriminate))). reflexivity. }
    eexists _, _, _. split; [reflexivity|]. split; [auto|]. split; [eauto|].
    intros ->. rewrite (dsl_full_length k (Bd_le c k HB)) in HB'. exact HB'.
Qed.

Lemma all_ok_wf0 (es : list event) : all_ok es -> wf es = 0.
Proof.
  intros H. unfold wf. apply wf_from_no_wfail. intros r Hin.
  unfold all_ok in H. rewrite Forall_forall in H. specialize (H _ Hin). discriminate.
Qed.

(** none mode: the command is the executor's run; crash points see event prefixes *)
Lemma run_none_clean (c : db) D n :
  clean dir -> DInv c D ->
  exists o c1 tr, apply_run TxNone n dir c = (o, c1, tr) /\
    (o = ADone \/ o = APend PNoPending) /\ DInv c1 D /\
    (n = 0 -> exists J, d_journal c1 = map snd J /\ GDone (d_tbl c1) J D) /\
    (forall p x, In (p, x) tr -> DInv x (D + 1)).
Proof.
  intros Hcl (J & Hj & HG).
  pose proof HG as (k0 & a0 & has0 & e & d & HI0 & _).
  destruct (normalize hash HS all (d_tbl c) k0 a0 has0 HI0) as (k & a & has & HI & Hnorm & _).
  rewrite (apply_run_unfold TxNone n c k a has HI Hnorm).
  pose proof (pending_inv hash HS all Hsorted Hnock the_cfg (d_tbl c) k a has the_cfg_ok HI Hnorm) as Hpend.
  destruct (skipn k all) as [|f l] eqn:E.
  - pose proof (execute_n_error hash hash_eqb HS the_cfg n all (d_tbl c) [] _ Hpend ltac:(intros p; discriminate)) as EXn.
    destruct (run_ginv hash hash_eqb HS hash_eqb_spec all Hsorted Hnock the_cfg n (d_tbl c) [] _ _ _ _ J D the_cfg_ok HG EXn)
      as (G1 & _ & _ & Gd).
    simpl in G1, Gd. rewrite app_nil_r, Nat.add_0_r in *.
    eexists _, _, _. split; [reflexivity|]. split; [auto|]. split; [exists J; auto|]. split; [|intros p x []].
    intros ->. exists J. split; [exact Hj|]. apply Gd; reflexivity.
  - destruct (loop_none_exec (dsl k n) c k a has HI Hnorm (dsl_slice k n) ltac:(intros g Hg; apply Hcl; eapply dsl_In; eauto))
      as (t' & es & EXf & Hloop).
    rewrite Hloop.
    change (finish (f :: l)) with (PFiles (f :: l)) in Hpend.
    pose proof (execute_n_first_n hash hash_eqb HS the_cfg n all (d_tbl c) [] _ Hpend) as EXn.
    rewrite <- E, (dsl_chosen k n), EXf in EXn.
    destruct (run_ginv hash hash_eqb HS hash_eqb_spec all Hsorted Hnock the_cfg n (d_tbl c) [] _ _ _ _ J D the_cfg_ok HG EXn)
      as (G1 & Ht & Gp & Gd).
    assert (wf es = 0) as Hwf.
    { apply all_ok_wf0. destruct (stop_on_fault_files hash hash_eqb HS _ _ _ _ _ _ _ EXf) as [_ Hok]. apply Hok. reflexivity. }
    rewrite Hwf, Nat.add_0_r in *.
    eexists _, _, _. split; [reflexivity|]. split; [auto|].
    assert (d_journal (db_of_events es c) = map snd (J ++ journal es)) as Hj1.
    { rewrite db_of_events_journal, Hj, map_app. reflexivity. }
    split; [|split].
    + exists (J ++ journal es). split; [exact Hj1|]. rewrite db_of_events_tbl, <- Ht. exact G1.
    + intros ->. exists (J ++ journal es). split; [exact Hj1|]. rewrite db_of_events_tbl, <- Ht. apply Gd; reflexivity.
    + intros p x Hx. destruct (run_direct_spec hash es c) as [_ Hsp].
      destruct (Hsp p x Hx) as (m & Hm & ->).
      exists (J ++ journal (firstn m es)). split.
      * rewrite db_of_events_journal, Hj, map_app. reflexivity.
      * rewrite db_of_events_tbl. apply (Gp (firstn m es) (skipn m es)). symmetry. apply firstn_skipn.
Qed.

(** what a resume state says about the journal and the table *)
Lemma DInv_sound (d : db) D :
  DInv d D ->
  exists P E reps,
    P <= E /\ E <= P + 1 /\ E <= plen /\ length reps = E /\ list_sum reps <= D /\
    d_journal d = map snd (expand (firstn E (plan all)) reps) /\
    claimed_plan hash all (d_tbl d) = firstn P (plan all).
Proof.
  intros (J & Hj & (k & a & has & e & dd & HI & Hst & HE & HD)).
  destruct (stutter_expand _ _ _ Hst) as (reps & Hl & Hs & HJ).
  exists (pos k a), (pos k a + b2n e), reps.
  split; [lia|]. split; [destruct e; simpl; lia|]. split; [exact HE|].
  split; [rewrite Hl; apply upto_length; exact HE|]. split; [lia|].
  split; [rewrite Hj, HJ; reflexivity|].
  eapply Inv_claimed; eauto.
Qed.

Lemma GDone_sound (t : list rev) J D :
  GDone t J D ->
  (exists reps, length reps = plen /\ list_sum reps <= D /\ J = expand (plan all) reps) /\
  (forall f, In f all -> exists r, tbl_get t (f_version f) = Some r /\
                                   r_applied r = length (f_stmts f) /\ r_total r = length (f_stmts f)).
Proof.
  intros (HI & d & Hst & Hd). split.
  - destruct (stutter_expand _ _ _ Hst) as (reps & Hl & Hs & HJ). exists reps. repeat split; auto. lia.
  - intros f Hin. apply In_nth_error in Hin as [i Hi].
    assert (i < length all) as Hlt by (apply nth_error_Some; congruence).
    destruct HI as (_ & _ & Hrows & _). destruct (Hrows i f Hlt Hi) as (r & Hg & (_ & Hap & _) & Ht).
    exists r. auto.
Qed.

(** ** the statements exported to Props_C10 *)
Notation crash_state := (crash_state hash).

Definition completed (c : db) : Prop :=
  d_journal c = map snd (plan all) /\
  (forall f, In f all -> exists r, tbl_get (d_tbl c) (f_version f) = Some r /\
                                   r_applied r = length (f_stmts f) /\ r_total r = length (f_stmts f)).

Lemma Bd_whole_files (d : db) j : Bd d j -> d_journal d = map snd (plan (firstn j all)).
Proof. intros [_ Hj]. rewrite Hj, upto_pos0. reflexivity. Qed.

Lemma file_crash_rerun (c0 : db) k0 n o c1 tr pt i d :
  clean dir -> Bd c0 k0 ->
  apply_run TxFile n dir c0 = (o, c1, tr) -> crash_state tr pt i = Some d ->
  (exists j, Bd d j /\ d_journal d = map snd (plan (firstn j all))) /\
  exists o2 c2 tr2, apply_run TxFile 0 dir d = (o2, c2, tr2) /\
                    (o2 = ADone \/ o2 = APend PNoPending) /\ completed c2 /\ Bd c2 (length all).
Proof.
  intros Hcl HB Hrun Hcr.
  destruct (run_file_clean c0 k0 n Hcl HB) as (o' & c1' & tr' & E & _ & _ & _ & Htr).
  rewrite E in Hrun. inversion Hrun; subst o' c1' tr'.
  destruct (Htr pt d (crash_state_in hash tr pt i d Hcr)) as [j HBd].
  split; [exists j; split; [exact HBd|apply Bd_whole_files; exact HBd]|].
  destruct (run_file_clean d j 0 Hcl HBd) as (o2 & c2 & tr2 & E2 & Ho2 & _ & Hfin & _).
  exists o2, c2, tr2. split; [exact E2|]. split; [exact Ho2|].
  split; [apply Bd_final; apply Hfin; reflexivity|apply Hfin; reflexivity].
Qed.

Lemma all_crash_rerun (c0 : db) k0 n o c1 tr pt i d :
  clean dir -> Bd c0 k0 ->
  apply_run TxAll n dir c0 = (o, c1, tr) -> crash_state tr pt i = Some d ->
  (d = c0 \/ (pt = AfterCommit /\ d = c1 /\ o = ADone)) /\
  (exists j, Bd d j /\ d_journal d = map snd (plan (firstn j all))) /\
  exists o2 c2 tr2, apply_run TxAll 0 dir d = (o2, c2, tr2) /\
                    (o2 = ADone \/ o2 = APend PNoPending) /\ completed c2 /\ Bd c2 (length all).
Proof.
  intros Hcl HB Hrun Hcr.
  destruct (run_all_clean c0 k0 n Hcl HB) as (o' & c1' & tr' & E & _ & [j1 HB1] & _).
  rewrite E in Hrun. inversion Hrun; subst o' c1' tr'.
  destruct (apply_run_all_atomic hash hash_eqb HS n dir c0 o c1 tr E) as [_ Ht].
  pose proof (Ht pt d (crash_state_in hash tr pt i d Hcr)) as Hd.
  split; [exact Hd|].
  assert (exists j, Bd d j) as [j HBd].
  { destruct Hd as [->|(_ & -> & _)]; eauto. }
  split; [exists j; split; [exact HBd|apply Bd_whole_files; exact HBd]|].
  destruct (run_all_clean d j 0 Hcl HBd) as (o2 & c2 & tr2 & E2 & Ho2 & _ & Hfin).
  exists o2, c2, tr2. split; [exact E2|]. split; [exact Ho2|].
  split; [apply Bd_final; apply Hfin; reflexivity|apply Hfin; reflexivity].
Qed.

Lemma none_crash_rerun (c0 : db) D n o c1 tr pt i d :
  clean dir -> DInv c0 D ->
  apply_run TxNone n dir c0 = (o, c1, tr) -> crash_state tr pt i = Some d ->
  DInv d (D + 1) /\
  exists o2 c2 tr2, apply_run TxNone 0 dir d = (o2, c2, tr2) /\
    (o2 = ADone \/ o2 = APend PNoPending) /\
    (exists reps, length reps = plen /\ list_sum reps <= D + 1 /\
                  d_journal c2 = map snd (expand (plan all) reps)) /\
    (forall f, In f all -> exists r, tbl_get (d_tbl c2) (f_version f) = Some r /\
                                     r_applied r = length (f_stmts f) /\ r_total r = length (f_stmts f)) /\
    DInv c2 (D + 1).
Proof.
  intros Hcl HD Hrun Hcr.
  destruct (run_none_clean c0 D n Hcl HD) as (o' & c1' & tr' & E & _ & _ & _ & Htr).
  rewrite E in Hrun. inversion Hrun; subst o' c1' tr'.
  pose proof (Htr pt d (crash_state_in hash tr pt i d Hcr)) as HDd.
  split; [exact HDd|].
  destruct (run_none_clean d (D + 1) 0 Hcl HDd) as (o2 & c2 & tr2 & E2 & Ho2 & HD2 & Hfin & _).
  destruct (Hfin eq_refl) as (J & Hj & HG).
  destruct (GDone_sound (d_tbl c2) J (D + 1) HG) as ((reps & Hl & Hs & ->) & Hrows).
  exists o2, c2, tr2. split; [exact E2|]. split; [exact Ho2|].
  split; [exists reps; auto|]. split; [exact Hrows|exact HD2].
Qed.

Lemma rev_sound_lemma global (c0 : db) k0 n o c1 tr pt i d :
  clean dir -> Bd c0 k0 ->
  apply_run global n dir c0 = (o, c1, tr) -> crash_state tr pt i = Some d ->
  exists P E reps,
    P <= E /\ E <= P + 1 /\ E <= plen /\ length reps = E /\ list_sum reps <= 1 /\
    d_journal d = map snd (expand (firstn E (plan all)) reps) /\
    claimed_plan hash all (d_tbl d) = firstn P (plan all).
Proof.
  intros Hcl HB Hrun Hcr.
  assert (DInv d 1) as HD.
  { destruct global.
    - destruct (none_crash_rerun c0 0 n o c1 tr pt i d Hcl (Bd_DInv c0 k0 HB) Hrun Hcr) as [H _]. exact H.
    - destruct (file_crash_rerun c0 k0 n o c1 tr pt i d Hcl HB Hrun Hcr) as [(j & Hj & _) _].
      destruct (Bd_DInv d j Hj) as (J & H1 & (k & a & has & e & dd & G1 & G2 & G3 & G4)).
      exists J. split; [exact H1|]. exists k, a, has, e, dd. split; [exact G1|split; [exact G2|split; [exact G3|lia]]].
    - destruct (all_crash_rerun c0 k0 n o c1 tr pt i d Hcl HB Hrun Hcr) as (_ & (j & Hj & _) & _).
      destruct (Bd_DInv d j Hj) as (J & H1 & (k & a & has & e & dd & G1 & G2 & G3 & G4)).
      exists J. split; [exact H1|]. exists k, a, has, e, dd. split; [exact G1|split; [exact G2|split; [exact G3|lia]]]. }
  apply DInv_sound. exact HD.
Qed.

(** ** failing statements ([tf_bad]): where a failed command leaves the database *)
Lemma one_file_any (t : list rev) k a has f fs o t1 fs1 es :
  Inv t k a has -> normal k a has -> nth_error all k = Some f ->
  execute f t fs = (o, t1, fs1, es) ->
  t1 = tbl_of_events es t /\
  (o = ODone -> Inv t1 (S k) 0 false /\ upto (pos k a) ++ journal es = upto (pos (S k) 0)).
Proof.
  intros HI Hnorm Hn EX.
  assert ([f] = firstn (length [f]) (skipn k all)) as Hsl.
  { simpl. rewrite (skipn_nth_cons all k f Hn). reflexivity. }
  pose proof (exec_files_single hash hash_eqb HS f t fs) as Hs. rewrite EX in Hs.
  destruct (exec_files_inv hash hash_eqb HS hash_eqb_spec all Hsorted [f] t fs o t1 fs1 es k a has HI Hnorm Hsl Hs)
    as (Hp & _ & Ht).
  split; [exact Ht|]. intros ->.
  destruct (Hp es [] ltac:(rewrite app_nil_r; reflexivity)) as (k1 & a1 & has1 & e1 & H1 & H2 & _ & _ & H5).
  destruct (H5 eq_refl) as [_ Hd].
  destruct (Hd eq_refl ltac:(left; discriminate)) as (-> & -> & -> & ->).
  rewrite <- Ht in H1. cbn [b2n] in H2. rewrite Nat.add_0_r in H2.
  replace (k + length [f]) with (S k) in * by (simpl; lia). auto.
Qed.

Lemma wf_stmt_err (t : list rev) k a has f fs t1 fs1 es :
  Inv t k a has -> normal k a has -> nth_error all k = Some f ->
  execute f t fs = (OStmtErr, t1, fs1, es) -> wf es = 0.
Proof.
  intros HI Hnorm Hn EX.
  destruct (Inv_pre hash HS all Hsorted t k a has f HI Hnorm Hn) as (r0 & Hpre & Htot & Ha).
  destruct (execute_shape hash hash_eqb HS hash_eqb_spec f t r0 Hpre fs _ _ _ _ EX) as [Hsh _].
  destruct Hsh as [Ho _ _|c ok3 _ Ho _ _|c s ok3 Hnth _ Hes _|c s _ Ho _ _];
    try discriminate; [destruct ok3; discriminate|].
  subst es. assert (r_applied r0 + c < length (f_stmts f)) as Hlt by (apply nth_error_Some; congruence).
  rewrite shape_wf by lia. reflexivity.
Qed.

Lemma loop_file_any : forall tfiles (c : db) k,
  Bd c k -> slice tfiles k ->
  exists o c' tr, apply_loop TxFile tfiles c None = (o, c', None, tr) /\
                  (exists j, Bd c' j) /\ (o = ADone -> Bd c' (k + length tfiles)).
Proof.
  induction tfiles as [|tf rest IH]; intros c k HB Hsl.
  - exists ADone, c, []. split; [reflexivity|]. split; [eauto|]. intros _. rewrite Nat.add_0_r. exact HB.
  - destruct (slice_cons tf rest k Hsl) as (Hnd & Hn & Hsl' & Hin).
    pose proof HB as [HI Hj].
    cbn [TxModel.apply_loop]. rewrite (mode_for_plain TxFile tf Hin).
    destruct (execute (tf_file tf) (d_tbl c) _) as [[[o1 t1] fs1] es1] eqn:EX.
    destruct (one_file_any (d_tbl c) k 0 false (tf_file tf) _ o1 t1 fs1 es1 HI ltac:(intros H; discriminate) Hn EX)
      as (Ht1 & Hdone).
    destruct (run_in_tx es1 c c) as [w1' tr1] eqn:R.
    pose proof (run_in_tx_fst es1 c c) as Hf. rewrite R in Hf. simpl in Hf. subst w1'.
    destruct o1;
      try (eexists _, _, _; split; [reflexivity|]; split; [eauto|]; intros H; discriminate).
    destruct (Hdone eq_refl) as [HI1 Hup].
    assert (Bd (db_of_events es1 c) (S k)) as HB1.
    { split; [rewrite db_of_events_tbl, <- Ht1; exact HI1|].
      rewrite db_of_events_journal, Hj, <- map_app, Hup. reflexivity. }
    destruct (IH (db_of_events es1 c) (S k) HB1 Hsl') as (o2 & c' & tr2 & Hloop & HBj & Hd).
    rewrite Hloop. eexists _, _, _. split; [reflexivity|]. split; [exact HBj|].
    intros Ho. replace (k + length (tf :: rest)) with (S k + length rest) by (simpl; lia). apply Hd. exact Ho.
Qed.

Lemma run_file_any (c : db) k n :
  Bd c k -> exists o c1 tr, apply_run TxFile n dir c = (o, c1, tr) /\ exists j, Bd c1 j.
Proof.
  intros HB. pose proof HB as [HI _].
  rewrite (apply_run_unfold TxFile n c k 0 false HI ltac:(intros H; discriminate)).
  destruct (skipn k all) as [|f l] eqn:E; [eexists _, _, _; split; [reflexivity|eauto]|].
  destruct (loop_file_any (dsl k n) c k HB (dsl_slice k n)) as (o & c' & tr & Hloop & HBj & _).
  rewrite Hloop. destruct o; eexists _, _, _; (split; [reflexivity|exact HBj]).
Qed.

Lemma loop_none_any : forall tfiles (c : db) k a has J D,
  Inv (d_tbl c) k a has -> normal k a has -> slice tfiles k ->
  d_journal c = map snd J -> GInv (d_tbl c) J D ->
  exists o c' tr, apply_loop TxNone tfiles c None = (o, c', None, tr) /\
                  (o = ADone \/ o = AFail OStmtErr -> DInv c' D).
Proof.
  induction tfiles as [|tf rest IH]; intros c k a has J D HI Hnorm Hsl Hj HG.
  - exists ADone, c, []. split; [reflexivity|]. intros _. exists J. auto.
  - destruct (slice_cons tf rest k Hsl) as (Hnd & Hn & Hsl' & Hin).
    cbn [TxModel.apply_loop]. rewrite (mode_for_plain TxNone tf Hin).
    destruct (execute (tf_file tf) (d_tbl c) _) as [[[o1 t1] fs1] es1] eqn:EX.
    destruct (one_file_any (d_tbl c) k a has (tf_file tf) _ o1 t1 fs1 es1 HI Hnorm Hn EX) as (Ht1 & Hdone).
    (* this Execute is one ExecuteN with count 1 *)
    pose proof (pending_inv hash HS all Hsorted Hnock the_cfg (d_tbl c) k a has the_cfg_ok HI Hnorm) as Hpend.
    rewrite (skipn_nth_cons all k _ Hn) in Hpend. cbn [finish] in Hpend.
    pose proof (execute_n_first_n hash hash_eqb HS the_cfg 1 all (d_tbl c)
                  (bad_faults tf (stored_applied hash (d_tbl c) (f_version (tf_file tf)))) _ Hpend) as EXn.
    cbn [Nat.ltb Nat.leb firstn] in EXn. rewrite exec_files_single, EX in EXn.
    destruct (run_ginv hash hash_eqb HS hash_eqb_spec all Hsorted Hnock the_cfg 1 (d_tbl c) _ _ _ _ _ J D the_cfg_ok HG EXn)
      as (G1 & _ & _ & _).
    destruct (run_direct es1 c) as [c1' tr1] eqn:R.
    destruct (run_direct_spec hash es1 c) as [Hf _]. rewrite R in Hf. simpl in Hf. subst c1'.
    assert (d_journal (db_of_events es1 c) = map snd (J ++ journal es1)) as Hj1.
    { rewrite db_of_events_journal, Hj, map_app. reflexivity. }
    assert (d_tbl (db_of_events es1 c) = t1) as Et1 by (rewrite db_of_events_tbl; symmetry; exact Ht1).
    destruct o1.
    + (* file done *)
      destruct (Hdone eq_refl) as [HI1 _].
      assert (wf es1 = 0) as Hwf.
      { apply all_ok_wf0. destruct (stop_on_fault_execute hash hash_eqb HS _ _ _ _ _ _ _ EX) as [_ Hok]. apply Hok. reflexivity. }
      rewrite Hwf, Nat.add_0_r in G1.
      destruct (IH (db_of_events es1 c) (S k) 0 false (J ++ journal es1) D
                  ltac:(rewrite Et1; exact HI1) ltac:(intros H; discriminate) Hsl' Hj1 ltac:(rewrite Et1; exact G1))
        as (o2 & c' & tr2 & Hloop & HD).
      rewrite Hloop. eexists _, _, _. split; [reflexivity|exact HD].
    + eexists _, _, _. split; [reflexivity|]. intros _.
      rewrite (wf_stmt_err (d_tbl c) k a has (tf_file tf) _ _ _ _ HI Hnorm Hn EX), Nat.add_0_r in G1.
      exists (J ++ journal es1). split; [exact Hj1|]. rewrite Et1. exact G1.
    + eexists _, _, _. split; [reflexivity|]. intros [H|H]; discriminate.
    + eexists _, _, _. split; [reflexivity|]. intros [H|H]; discriminate.
    + eexists _, _, _. split; [reflexivity|]. intros [H|H]; discriminate.
Qed.

Lemma run_none_any (c : db) k n o c1 tr :
  Bd c k -> apply_run TxNone n dir c = (o, c1, tr) ->
  o = ADone \/ o = AFail OStmtErr -> DInv c1 0.
Proof.
  intros HB Hrun Ho. pose proof HB as [HI Hj].
  rewrite (apply_run_unfold TxNone n c k 0 false HI ltac:(intros H; discriminate)) in Hrun.
  destruct (skipn k all) as [|f l] eqn:E.
  - inversion Hrun; subst. destruct Ho; discriminate.
  - destruct (Bd_DInv c k HB) as (J & HJ & HG).
    destruct (loop_none_any (dsl k n) c k 0 false J 0 HI ltac:(intros H; discriminate) (dsl_slice k n) HJ HG)
      as (o' & c' & tr' & Hloop & HD).
    rewrite Hloop in Hrun. destruct o'; inversion Hrun; subst; apply HD; exact Ho.
Qed.

(** The fixed directory: the same files without a failing statement. *)
Definition fixed : list tfile := map (fun tf => mkTfile (tf_file tf) (tf_directive tf) None) dir.

Lemma fixed_files : map tf_file fixed = all.
Proof. unfold fixed, all. rewrite map_map. reflexivity. Qed.

Lemma fixed_clean : clean fixed.
Proof. intros f Hin. apply in_map_iff in Hin as (x & <- & _). reflexivity. Qed.

Lemma fixed_no_directive : no_directive fixed.
Proof. intros f Hin. apply in_map_iff in Hin as (x & <- & Hx). simpl. apply Hnodir. exact Hx. Qed.

End Crash.

(** ** C13: fixing the failing statement and re-running *)
Section Fix.
Variable hash : Type.
Variable hash_eqb : hash -> hash -> bool.
Variable HS : bytes -> hash.
Hypothesis hash_eqb_spec : forall a b, hash_eqb a b = true <-> a = b.
Variable dir : list tfile.
Hypothesis Hsorted : sorted_files (map tf_file dir).
Hypothesis Hnock : forall f, In f (map tf_file dir) -> f_ckpt f = false.
Hypothesis Hnodir : no_directive dir.

Notation fdir := (fixed dir).
Notation apply_run := (apply_run hash hash_eqb HS).

Lemma Bd_fixed (c : db hash) k : Bd hash HS dir c k <-> Bd hash HS fdir c k.
Proof. unfold Bd. rewrite (fixed_files dir). reflexivity. Qed.

Lemma DInv_fixed (c : db hash) D : DInv hash HS dir c D <-> DInv hash HS fdir c D.
Proof. unfold DInv. rewrite (fixed_files dir). reflexivity. Qed.

Lemma completed_fixed (c : db hash) : completed hash dir c <-> completed hash fdir c.
Proof. unfold completed. rewrite (fixed_files dir). reflexivity. Qed.

Lemma fixed_sorted : sorted_files (map tf_file fdir).
Proof. rewrite (fixed_files dir). exact Hsorted. Qed.
Lemma fixed_nock : forall f, In f (map tf_file fdir) -> f_ckpt f = false.
Proof. rewrite (fixed_files dir). exact Hnock. Qed.

(** From any state a failed command can leave, the fixed directory completes. *)
Lemma fixed_completes global (c : db hash) :
  (match global with TxNone => DInv hash HS dir c 0 | _ => exists j, Bd hash HS dir c j end) ->
  exists o2 c2 tr2, apply_run global 0 fdir c = (o2, c2, tr2) /\
                    (o2 = ADone \/ o2 = APend PNoPending) /\ completed hash dir c2.
Proof.
  intros H. destruct global.
  - apply DInv_fixed in H.
    destruct (run_none_clean hash hash_eqb HS hash_eqb_spec fdir fixed_sorted fixed_nock (fixed_no_directive dir Hnodir)
                c 0 0 (fixed_clean dir) H) as (o2 & c2 & tr2 & E & Ho & _ & Hfin & _).
    exists o2, c2, tr2. split; [exact E|]. split; [exact Ho|].
    destruct (Hfin eq_refl) as (J & Hj & (HI & d & Hst & Hd)).
    assert (d = 0) as -> by lia. apply stutter_zero in Hst. subst J.
    apply completed_fixed. split; [exact Hj|].
    intros f Hin. apply In_nth_error in Hin as [i Hi].
    assert (i < length (map tf_file fdir)) as Hlt by (apply nth_error_Some; congruence).
    destruct HI as (_ & _ & Hrows & _). destruct (Hrows i f Hlt Hi) as (r & Hg & (_ & Hap & _) & Ht).
    exists r. auto.
  - destruct H as [j HB]. apply Bd_fixed in HB.
    destruct (run_file_clean hash hash_eqb HS hash_eqb_spec fdir fixed_sorted fixed_nock (fixed_no_directive dir Hnodir)
                c j 0 (fixed_clean dir) HB) as (o2 & c2 & tr2 & E & Ho & _ & Hfin & _).
    exists o2, c2, tr2. split; [exact E|]. split; [exact Ho|].
    apply completed_fixed. apply (Bd_final hash HS fdir). apply Hfin. reflexivity.
  - destruct H as [j HB]. apply Bd_fixed in HB.
    destruct (run_all_clean hash hash_eqb HS hash_eqb_spec fdir fixed_sorted fixed_nock (fixed_no_directive dir Hnodir)
                c j 0 (fixed_clean dir) HB) as (o2 & c2 & tr2 & E & Ho & _ & Hfin).
    exists o2, c2, tr2. split; [exact E|]. split; [exact Ho|].
    apply completed_fixed. apply (Bd_final hash HS fdir). apply Hfin. reflexivity.
Qed.

Lemma fix_rerun_lemma global (c0 : db hash) k0 n o c1 tr :
  Bd hash HS dir c0 k0 ->
  apply_run global n dir c0 = (o, c1, tr) -> o = AFail OStmtErr ->
  exists o2 c2 tr2 o3 c3 tr3,
    apply_run global 0 fdir c1 = (o2, c2, tr2) /\ (o2 = ADone \/ o2 = APend PNoPending) /\
    apply_run global 0 fdir c0 = (o3, c3, tr3) /\ (o3 = ADone \/ o3 = APend PNoPending) /\
    completed hash dir c2 /\ completed hash dir c3 /\ d_journal c2 = d_journal c3.
Proof.
  intros HB Hrun Ho.
  assert (match global with TxNone => DInv hash HS dir c1 0 | _ => exists j, Bd hash HS dir c1 j end) as H1.
  { destruct global.
    - apply (run_none_any hash hash_eqb HS hash_eqb_spec dir Hsorted Hnock Hnodir c0 k0 n o c1 tr HB Hrun). right. exact Ho.
    - destruct (run_file_any hash hash_eqb HS hash_eqb_spec dir Hsorted Hnock Hnodir c0 k0 n HB) as (o' & c1' & tr' & E & Hj).
      rewrite E in Hrun. inversion Hrun; subst. exact Hj.
    - destruct (apply_run_all_atomic hash hash_eqb HS n dir c0 o c1 tr Hrun) as [Hc _].
      rewrite Hc by (rewrite Ho; discriminate). eauto. }
  assert (match global with TxNone => DInv hash HS dir c0 0 | _ => exists j, Bd hash HS dir c0 j end) as H0.
  { destruct global; eauto. eapply Bd_DInv; eauto. }
  destruct (fixed_completes global c1 H1) as (o2 & c2 & tr2 & E2 & Ho2 & Hc2).
  destruct (fixed_completes global c0 H0) as (o3 & c3 & tr3 & E3 & Ho3 & Hc3).
  exists o2, c2, tr2, o3, c3, tr3. repeat (split; [assumption|]).
  destruct Hc2 as [-> _]. destruct Hc3 as [-> _]. reflexivity.
Qed.

End Fix.
