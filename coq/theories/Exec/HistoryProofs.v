(** The closed-loop model ([HistoryModel]) keeps the revisions table well formed: whatever
    sequence of [migrate status / apply / set] commands runs on whatever (sorted) directories,
    no version ever has two rows. Hence the reader returns a strictly sorted list at every
    step ([C11_reader_sorted]) and every theorem of C11 applies to every reachable state. *)
From Coq Require Import List NArith Bool Arith Sorted Lia.
From Atlas Require Import Base.Bytes Exec.ExecModel Exec.PendingModel Exec.RunModel Exec.PendingProofs
  Exec.RunProofs Exec.StatusModel Exec.StatusProofs Exec.HistoryModel.
Import ListNotations.

Section HistoryProofs.
Variable hash : Type.
Variable hash_eqb : hash -> hash -> bool.
Variable HS : bytes -> hash.
Variable fails : bytes -> bool.
Notation rev := (rev hash).

Definition vers (t : list rev) : list bytes := map (@r_version hash) t.
Definition wf_db (d : db hash) : Prop := NoDup (vers (db_revs d)).

Lemma in_vers_dec (v : bytes) (t : list rev) : {In v (vers t)} + {~ In v (vers t)}.
Proof.
  apply in_dec. intros a b. destruct (bytes_eqb a b) eqn:E.
  - left. apply bytes_eqb_eq. exact E.
  - right. apply bytes_eqb_neq. exact E.
Qed.

Lemma NoDup_app_snoc {A} (l : list A) x : NoDup l -> ~ In x l -> NoDup (l ++ [x]).
Proof.
  induction 1 as [|a l Hn Hd IH]; simpl; intros Hx; [constructor; [intros []|constructor]|].
  constructor.
  - intros H. apply in_app_or in H as [H|[<-|[]]]; [contradiction|]. apply Hx. left. reflexivity.
  - apply IH. intros H. apply Hx. right. exact H.
Qed.

Lemma tbl_put_NoDup (t : list rev) r : NoDup (vers t) -> NoDup (vers (tbl_put t r)).
Proof.
  intros H. unfold vers in *. destruct (in_vers_dec (r_version r) t) as [I|N].
  - rewrite (tbl_put_versions_in hash t r I). exact H.
  - rewrite (tbl_put_versions_notin hash t r N). apply NoDup_app_snoc; assumption.
Qed.

(** every table the executor produces is reached by [tbl_put]s *)
Section Closed.
Variable P : list rev -> Prop.
Hypothesis Pput : forall t r, P t -> P (tbl_put t r).

Lemma write_pres t fs r : P t -> P (snd (fst (fst (write t fs r)))).
Proof. intros H. unfold write. destruct (pop fs) as [[|] fs']; simpl; auto. Qed.

Lemma run_stmts_pres v rest : forall srest r t fs,
  P t -> P (snd (fst (fst (run_stmts hash v rest srest r t fs)))).
Proof.
  induction rest as [|s rest IH]; intros srest r t fs H; simpl; [exact H|].
  destruct (pop fs) as [[|] fs1]; simpl; [exact H|].
  destruct srest as [|h srest]; simpl; [exact H|].
  pose proof (write_pres t fs1 (step_applied r h) H) as W.
  destruct (write t fs1 (step_applied r h)) as [[[ok t2] fs2] e]. simpl in W.
  destruct ok; simpl; [|exact W].
  specialize (IH srest (step_applied r h) t2 fs2 W).
  destruct (run_stmts hash v rest srest (step_applied r h) t2 fs2) as [[[[o r''] t3] fs3] es]. simpl in *. exact IH.
Qed.

Lemma execute_pres f t fs : P t -> P (snd (fst (fst (execute hash hash_eqb HS f t fs)))).
Proof.
  intros H. unfold execute. cbv zeta.
  set (r0 := match tbl_get t (f_version f) with Some r => r | None => new_rev (f_version f) (length (f_stmts f)) end).
  pose proof (write_pres t fs r0 H) as W1.
  destruct (write t fs r0) as [[[ok t1] fs1] e1]. simpl in W1.
  destruct ok; simpl; [|exact W1].
  destruct (if 0 <? r_applied r0 then _ else _) as [[i|]|].
  - pose proof (write_pres t1 fs1 r0 W1) as W2.
    destruct (write t1 fs1 r0) as [[[ok2 t2] fs2] e2]. exact W2.
  - destruct (length (f_stmts f) <? r_applied r0); [exact W1|].
    pose proof (run_stmts_pres (f_version f) (skipn (r_applied r0) (f_stmts f))
                  (skipn (r_applied r0) (sums hash HS (f_stmts f)))
                  (set_total r0 (length (f_stmts f))) t1 fs1 W1) as R.
    destruct (run_stmts hash _ _ _ _ t1 fs1) as [[[[o r2] t2] fs2] es]. simpl in R.
    destruct o; try exact R.
    + pose proof (write_pres t2 fs2 (set_hashes r2 []) R) as W3.
      destruct (write t2 fs2 (set_hashes r2 [])) as [[[ok3 t3] fs3] e3]. exact W3.
    + pose proof (write_pres t2 fs2 r2 R) as W3.
      destruct (write t2 fs2 r2) as [[[ok3 t3] fs3] e3]. exact W3.
  - exact W1.
Qed.

Lemma run_seq_pres keep files : forall t, P t -> P (snd (fst (run_seq hash hash_eqb HS fails keep files t))).
Proof.
  induction files as [|f rest IH]; intros t H; simpl; [exact H|].
  pose proof (execute_pres f t (file_faults hash fails f t) H) as E.
  destruct (execute hash hash_eqb HS f t (file_faults hash fails f t)) as [[[o t1] fs1] es]. simpl in E.
  destruct o; simpl; try (destruct keep; simpl; assumption).
  specialize (IH t1 E). destruct (run_seq hash hash_eqb HS fails keep rest t1) as [[ok t2] ran2]. exact IH.
Qed.

Lemma run_files_pres mode files t : P t -> P (fst (run_files hash hash_eqb HS fails mode files t)).
Proof.
  intros H. unfold run_files. destruct mode.
  - pose proof (run_seq_pres true files t H) as R. destruct (run_seq _ _ _ _ true files t) as [[ok t'] ran]. exact R.
  - pose proof (run_seq_pres false files t H) as R. destruct (run_seq _ _ _ _ false files t) as [[ok t'] ran]. exact R.
  - pose proof (run_seq_pres false files t H) as R. destruct (run_seq _ _ _ _ false files t) as [[ok t'] ran].
    destruct ok; simpl; assumption.
Qed.
End Closed.

Lemma apply_run_wf o b a n mode dry all (d : db hash) :
  wf_db d -> wf_db (snd (apply_run hash hash_eqb HS fails o b a n mode dry all d)).
Proof.
  unfold wf_db, apply_run. intros H.
  destruct (apply_plan _ n all (db_read hash d)) as [p w].
  assert (NoDup (vers (match w with Some r => tbl_put (db_revs d) r | None => db_revs d end))) as H1
    by (destruct w; [apply tbl_put_NoDup|]; exact H).
  destruct p; simpl; try exact H1.
  destruct dry; simpl; [exact H1|].
  pose proof (run_files_pres (fun t => NoDup (vers t)) tbl_put_NoDup mode fs _ H1) as R.
  destruct (run_files _ _ _ _ mode fs _) as [t2 ran]. exact R.
Qed.

Lemma db_read_sorted (d : db hash) : wf_db d -> sorted_revs (db_read hash d).
Proof.
  unfold db_read. intros H. destruct (db_table d); [apply read_revisions_sorted; exact H|constructor].
Qed.

(** [migrate set]: the table it leaves is sorted, for every argument *)
Lemma migrate_set_sorted arg all (revs t' : list rev) :
  sorted_files all -> sorted_revs revs -> migrate_set arg all revs = SetOk t' -> sorted_revs t'.
Proof.
  intros Hsa Hsr Hset. unfold migrate_set in Hset.
  destruct (match arg with None => _ | Some v => _ end) as [[v|]|]; try discriminate.
  injection Hset as <-.
  set (revs1 := set_loop v revs) in *.
  assert (sorted_revs revs1) as Hs1 by (apply set_loop_sorted; exact Hsr).
  set (pend := match last_opt revs1 with
               | None => set_upto v all
               | Some l => if bytes_ltb (r_version l) v then set_between (r_version l) v all else []
               end) in *.
  assert (forall x, In x pend -> forall r1, In r1 revs1 -> bytes_ltb (r_version r1) (f_version x) = true) as Hpend.
  { intros x Hx. subst pend. destruct revs1 as [|q0 tl] eqn:E1; [intros r1 []|].
    rewrite <- E1 in *. assert (revs1 <> []) as N1 by (rewrite E1; discriminate).
    rewrite (last_opt_last hash revs1 q0 N1) in Hx.
    destruct (bytes_ltb (r_version (last revs1 q0)) v); [|destruct Hx].
    apply set_between_In in Hx as (_ & B & _).
    intros r1 Hr1. destruct (sorted_revs_last_max hash revs1 q0 r1 Hs1 Hr1) as [->|L]; [exact B|].
    eapply bytes_ltb_trans; eauto. }
  assert (sorted_files pend) as Hsp.
  { subst pend. destruct (last_opt revs1) as [l|]; [|apply set_upto_sorted; exact Hsa].
    destruct (bytes_ltb (r_version l) v); [apply set_between_sorted; exact Hsa|constructor]. }
  apply StronglySorted_app_intro; [exact Hs1| |].
  - apply (proj2 (StronglySorted_map (fun a b => bytes_ltb a b = true) (@r_version hash) _)).
    rewrite map_map. cbn [resolved_rev r_version].
    apply (proj1 (StronglySorted_map (fun a b => bytes_ltb a b = true) f_version pend)). exact Hsp.
  - intros a b Ha Hb. apply in_map_iff in Hb as (x & <- & Hx). unfold rver_lt. cbn [resolved_rev r_version].
    apply (Hpend x Hx). exact Ha.
Qed.

Lemma set_run_wf arg all (d : db hash) :
  sorted_files all -> wf_db d -> wf_db (snd (set_run hash arg all d)).
Proof.
  intros Hsa H. unfold set_run, wf_db.
  destruct (migrate_set arg all (db_read hash d)) as [t'| |] eqn:E; simpl; try exact H.
  apply (sorted_revs_NoDup hash). apply (migrate_set_sorted arg all (db_read hash d) t' Hsa (db_read_sorted d H) E).
Qed.

Lemma step_wf all k (d : db hash) :
  sorted_files all -> wf_db d -> wf_db (snd (step hash hash_eqb HS fails all k d)).
Proof.
  intros Hsa H. destruct k as [|o b a n m dry|arg]; simpl.
  - exact H.
  - pose proof (apply_run_wf o b a n m dry all d H) as R.
    destruct (apply_run hash hash_eqb HS fails o b a n m dry all d) as [[p w] d']. exact R.
  - pose proof (set_run_wf arg all d Hsa H) as R. destruct (set_run hash arg all d) as [r d']. exact R.
Qed.

Theorem history_wf ks : forall (d : db hash),
  (forall all k, In (all, k) ks -> sorted_files all) -> wf_db d ->
  Forall (fun ad => wf_db (snd ad) /\ sorted_revs (db_read hash (snd ad)))
         (history hash hash_eqb HS fails ks d).
Proof.
  induction ks as [|[all k] ks IH]; intros d Hs H; simpl; [constructor|].
  pose proof (step_wf all k d (Hs all k (or_introl eq_refl)) H) as S.
  destruct (step hash hash_eqb HS fails all k d) as [a d']. simpl in S.
  constructor; [split; [exact S|apply db_read_sorted; exact S]|].
  apply IH; [|exact S]. intros all' k' Hin. apply (Hs all' k'). right. exact Hin.
Qed.

End HistoryProofs.
