(** M-TX, part 2.

    (a) The whole `atlas migrate apply` command around the apply loop
        (cmd/atlas/internal/cmdapi/migrate_oss.go: migrateApplyRun): [mrrw.Migrate]
        creates the revisions table, [Executor.Pending] runs with the REAL
        driver and revision writer (so a baseline revision is really written),
        and only then the loop asks [tx.driverFor] for a driver per file. With
        --dry-run [tx.driverFor] returns the wrappers [dryRunDriver] /
        [dryRunRevisions] (cmdapi/migrate.go) before it looks at the mode or the
        file's txmode directive: ExecContext and WriteRevision succeed without
        any effect, ReadRevision reads the real table.

    (b) `atlas schema apply` (cmdapi/schema.go: applyChanges; sql/sqlclient:
        Client.Tx; sql/sqlite/driver.go: OpenTx, CommitFunc, RollbackFunc,
        enableFK; sql/internal/sqlx/plan.go: ApplyChanges) as an event sequence:
        the planned statements are opaque, statement [bad] fails, the engine
        reports whether the commit-time foreign-key check finds new violations.

    No proofs here. *)
From Coq Require Import List NArith Bool Arith.
From Atlas Require Import Base.Bytes Exec.ExecModel Exec.PendingModel Exec.RunModel Exec.TxModel.
Import ListNotations.

Section Dry.
Variable hash : Type.
Variable hash_eqb : hash -> hash -> bool.
Variable HS : bytes -> hash.
Notation db := (db hash).

(** The target database as the dry-run clause sees it: does the table
    atlas_schema_revisions exist, and the journal / revision rows. *)
Record cdb := mkCdb { cd_revtable : bool; cd_db : db }.

(** The loop of migrateApplyRun under --dry-run: [tx.driverFor] returns the
    wrappers; Execute runs every remaining statement "successfully". *)
Fixpoint dry_loop (files : list tfile) (c : db) : aoutcome :=
  match files with
  | [] => ADone
  | f :: rest =>
      let '(o, _, _, _) := execute hash hash_eqb HS (tf_file f) (d_tbl c) [] in
      match o with
      | ODone => dry_loop rest c
      | _ => AFail o
      end
  end.

(** One `atlas migrate apply [n] [--dry-run] [--baseline v] [--allow-dirty]`. *)
Definition migrate_apply (dry : bool) (global : mode) (n : nat) (cf : cfg) (dir : list tfile) (d : cdb)
  : aoutcome * cdb :=
  let c := cd_db d in
  let all := map tf_file dir in
  (* mrrw.Migrate(ctx): the revisions table exists from here on *)
  let '(p, w) := pending cf all (read_revisions hash (d_tbl c)) in
  (* Executor.Pending writes the baseline revision with the real writer *)
  let c1 := match w with
            | Some r => mkDb (d_journal c) (tbl_put (d_tbl c) r)
            | None => c
            end in
  match p with
  | PFiles ps =>
      let chosen := if 0 <? n then firstn n ps else ps in
      let tchosen := flat_map (fun f => filter (fun tf => bytes_eqb (f_version (tf_file tf)) (f_version f)) dir) chosen in
      if dry then (dry_loop tchosen c1, mkCdb true c1)
      else
        let '(o, c2, wopt, _) := apply_loop hash hash_eqb HS global tchosen c1 None in
        match o, wopt with
        | ADone, Some wd => (ADone, mkCdb true wd)
        | _, _ => (o, mkCdb true c2)
        end
  | _ => (APend p, mkCdb true c1)
  end.

End Dry.

Arguments mkCdb {hash}.
Arguments cd_revtable {hash}.
Arguments cd_db {hash}.

(** ** schema apply *)
Record sdb := mkSdb {
  s_effects : list bytes;   (* committed effects of executed statements, in order *)
  s_fk : bool               (* PRAGMA foreign_keys of the connection *)
}.

Inductive sevent :=
| SPragma (on : bool)       (* PRAGMA foreign_keys = on/off *)
| SBegin
| SFkCheck                  (* PRAGMA foreign_key_check *)
| SExec (i : nat) (s : bytes) (ok : bool)
| SCommit
| SRollback.

Inductive soutcome :=
| SOk
| SApplyErr (applied : nat)   (* sqlx.ApplyError{applied: i} *)
| SFkMismatch.                (* "foreign key mismatch" found by CommitFunc *)

(** sqlx.ApplyChanges: the statements of the plan in order, stop at the first error. *)
Fixpoint exec_plan (i : nat) (stmts : list bytes) (bad : option nat) (eff : list bytes)
  : option nat * list bytes * list sevent :=
  match stmts with
  | [] => (None, eff, [])
  | s :: rest =>
      if (match bad with Some b => b =? i | None => false end)
      then (Some i, eff, [SExec i s false])
      else let '(r, eff', es) := exec_plan (S i) rest bad (eff ++ [s]) in
           (r, eff', SExec i s true :: es)
  end.

Definition fk_after (es : list sevent) (fk : bool) : bool :=
  fold_left (fun b e => match e with SPragma x => x | _ => b end) es fk.

(** The transactional branch of applyChanges: client.Tx (sqlite.OpenTx),
    tx.ApplyChanges, then tx.Rollback() / tx.Commit() (RollbackFunc / CommitFunc).
    [new_violation]: what the foreign-key check before commit finds compared with
    the one taken when the transaction was opened. *)
Definition apply_changes_tx (stmts : list bytes) (bad : option nat)
           (new_violation : bool) (d : sdb) : soutcome * sdb * list sevent :=
  (* OpenTx: foreign keys off (if on), BEGIN, violations before *)
  let on := s_fk d in
  let pre := (if on then [SPragma false] else []) ++ [SBegin] ++ (if on then [SFkCheck] else []) in
  let '(r, eff, es) := exec_plan 0 stmts bad (s_effects d) in
  match r with
  | Some i =>
      (* tx.Rollback() -> RollbackFunc: Rollback, enableFK *)
      let evs := pre ++ es ++ [SRollback] ++ (if on then [SPragma true] else []) in
      (SApplyErr i, mkSdb (s_effects d) (fk_after evs (s_fk d)), evs)
  | None =>
      (* tx.Commit() -> CommitFunc *)
      if on && new_violation
      then let evs := pre ++ es ++ [SFkCheck; SRollback; SPragma true] in
           (SFkMismatch, mkSdb (s_effects d) (fk_after evs (s_fk d)), evs)
      else let evs := pre ++ es ++ (if on then [SFkCheck] else []) ++ [SCommit] ++ (if on then [SPragma true] else []) in
           (SOk, mkSdb eff (fk_after evs (s_fk d)), evs)
  end.

(** applyChanges (schema.go). *)
Definition apply_changes (txmode : mode) (stmts : list bytes) (bad : option nat)
           (new_violation : bool) (d : sdb) : soutcome * sdb * list sevent :=
  match txmode with
  | TxNone =>
      (* client.ApplyChanges: no transaction *)
      let '(r, eff, es) := exec_plan 0 stmts bad (s_effects d) in
      ((match r with None => SOk | Some i => SApplyErr i end), mkSdb eff (fk_after es (s_fk d)), es)
  | _ => apply_changes_tx stmts bad new_violation d
  end.
