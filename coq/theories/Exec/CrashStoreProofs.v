(** Proofs about M-STORE (C10 round 4). *)
From Coq Require Import List NArith Bool Arith Lia.
From Atlas Require Import Base.Bytes Base.ListX Exec.ExecModel Exec.ExecProofs Exec.PendingModel Exec.RunModel
  Exec.TxModel Exec.TxProofs Exec.CrashStoreModel.
Import ListNotations.

Section StoreProofs.
Variable hash : Type.
Variable hash_eqb : hash -> hash -> bool.
Variable HS : bytes -> hash.
Notation rev := (rev hash).
Notation event := (event hash).
Notation db := (db hash).
Notation execute := (execute hash hash_eqb HS).
Notation run_stmts := (run_stmts hash).
Notation run_direct := (run_direct hash).

(** ** the contract *)
Lemma store_write_read (t : list rev) r t' :
  write_revision hash t r false = Some t' ->
  read_revision hash t' (r_version r) false = RRow hash r /\
  (forall v, v <> r_version r -> read_revision hash t' v false = read_revision hash t v false).
Proof.
  unfold write_revision, read_revision. intros E. inversion E; subst t'. split.
  - rewrite (tbl_get_put_same hash). reflexivity.
  - intros v Hv. rewrite (tbl_get_put_other hash) by exact Hv. reflexivity.
Qed.

Lemma store_read_exact (t : list rev) v :
  match read_revision hash t v false with
  | RRow _ r => tbl_get t v = Some r
  | RNotExist _ => tbl_get t v = None
  | RErr _ => False
  end.
Proof. unfold read_revision. destruct (tbl_get t v); reflexivity. Qed.

Lemma execute_st_read_error f (t : list rev) fs :
  execute_st hash hash_eqb HS f t true fs = (XRead, t, fs, []).
Proof. reflexivity. Qed.

Lemma execute_st_ok f (t : list rev) fs :
  execute_st hash hash_eqb HS f t false fs =
  (let '(o, t', fs', es) := execute f t fs in (XExec o, t', fs', es)).
Proof. unfold execute_st, read_revision. destruct (tbl_get t (f_version f)); reflexivity. Qed.

(** ** a refused write is a crash right before it *)
Definition all_ok (es : list event) : Prop := Forall (fun e => event_ok hash e = true) es.

Lemma write_event (t : list rev) fs r ok t' fs' e :
  write t fs r = (ok, t', fs', e) -> e = EWrite r ok /\ (ok = false -> t' = t).
Proof.
  unfold write. destruct (pop fs) as [[|] fs1]; intros H; inversion H; subst; auto.
  split; [reflexivity|discriminate].
Qed.

Lemma run_stmts_events v rest : forall srest r (t : list rev) fs o r' t' fs' es,
  run_stmts v rest srest r t fs = (o, r', t', fs', es) ->
  match o with
  | ODone => all_ok es
  | OWriteErr => exists es0 x, es = es0 ++ [EWrite x false] /\ all_ok es0
  | _ => True
  end.
Proof.
  induction rest as [|s rest IH]; intros srest r t fs o r' t' fs' es H; simpl in H.
  - inversion H; subst. constructor.
  - destruct (pop fs) as [[|] fs1].
    + inversion H; subst. exact I.
    + destruct srest as [|h srest']; [inversion H; subst; exact I|].
      destruct (write t fs1 (step_applied r h)) as [[[ok t2] fs2] e] eqn:W.
      destruct (write_event _ _ _ _ _ _ _ W) as [-> _].
      destruct ok.
      * destruct (run_stmts v rest srest' (step_applied r h) t2 fs2) as [[[[o2 r2] t3] fs3] es2] eqn:R.
        inversion H; subst. specialize (IH _ _ _ _ _ _ _ _ _ R).
        destruct o; try exact I.
        -- constructor; [reflexivity|]. constructor; [reflexivity|exact IH].
        -- destruct IH as (es0 & x & -> & Hok).
           exists (EExec v (r_applied r) s true :: EWrite (step_applied r h) true :: es0), x.
           split; [reflexivity|]. constructor; [reflexivity|]. constructor; [reflexivity|exact Hok].
      * inversion H; subst. exists [EExec v (r_applied r) s true], (step_applied r h).
        split; [reflexivity|]. constructor; [reflexivity|constructor].
Qed.

(** Execute ends with OWriteErr exactly at a refused write: every event before
    it succeeded and nothing follows it. *)
Lemma execute_write_err f (t : list rev) fs t' fs' es :
  execute f t fs = (OWriteErr, t', fs', es) ->
  exists es0 x, es = es0 ++ [EWrite x false] /\ all_ok es0.
Proof.
  unfold ExecModel.execute. intros H.
  set (r0 := match tbl_get t (f_version f) with Some r => r | None => new_rev (f_version f) (length (f_stmts f)) end) in *.
  destruct (write t fs r0) as [[[ok t1] fs1] e1] eqn:W1.
  destruct (write_event _ _ _ _ _ _ _ W1) as [-> _].
  destruct ok; simpl in H.
  2:{ inversion H; subst. exists [], r0. split; [reflexivity|constructor]. }
  destruct (if 0 <? r_applied r0 then check_loop hash hash_eqb (r_applied r0) 0 (sums hash HS (f_stmts f)) (r_hashes r0) else Some None)
    as [[i|]|]; [| |inversion H].
  - destruct (write t1 fs1 r0) as [[[ok2 t2] fs2] e2]. inversion H.
  - cbn [r_applied set_total] in H. destruct (length (f_stmts f) <? r_applied r0); [inversion H|].
    destruct (run_stmts (f_version f) _ _ _ t1 fs1) as [[[[o r2] t2] fs2] es2] eqn:R.
    pose proof (run_stmts_events _ _ _ _ _ _ _ _ _ _ _ R) as HR.
    destruct o.
    + destruct (write t2 fs2 (set_hashes r2 [])) as [[[ok3 t3] fs3] e3] eqn:W3.
      destruct (write_event _ _ _ _ _ _ _ W3) as [-> _].
      destruct ok3; inversion H; subst.
      exists (EWrite r0 true :: es2), (set_hashes r2 []). split; [reflexivity|].
      constructor; [reflexivity|exact HR].
    + destruct (write t2 fs2 r2) as [[[ok3 t3] fs3] e3]. inversion H.
    + inversion H; subst. destruct HR as (es0 & x & -> & Hok).
      exists (EWrite r0 true :: es0), x. split; [reflexivity|]. constructor; [reflexivity|exact Hok].
    + inversion H.
    + inversion H.
Qed.

Lemma run_direct_app es1 es2 (d : db) :
  run_direct (es1 ++ es2) d =
  (let '(d1, tr1) := run_direct es1 d in let '(d2, tr2) := run_direct es2 d1 in (d2, tr1 ++ tr2)).
Proof.
  revert d; induction es1 as [|e es1 IH]; intros d; simpl.
  - destruct (run_direct es2 d); reflexivity.
  - rewrite IH. destruct (run_direct es1 (apply_event hash d e)) as [d1 tr1].
    destruct (run_direct es2 d1) as [d2 tr2]. simpl. rewrite app_assoc. reflexivity.
Qed.

(** Without a transaction (tx-mode none / a `txmode none` file): the state a
    refused revision write leaves is the state the LAST crash point of the run
    shows, and that point is a before-write: a storage fault on a write is a crash
    right before that write. *)
Lemma write_fault_is_crash f (c : db) fs t' fs' es :
  execute f (d_tbl c) fs = (OWriteErr, t', fs', es) ->
  forall c' tr, run_direct es c = (c', tr) ->
  exists tr0, tr = tr0 ++ [(BeforeWrite, c')].
Proof.
  intros EX c' tr R.
  destruct (execute_write_err _ _ _ _ _ _ EX) as (es0 & x & -> & _).
  rewrite run_direct_app in R.
  destruct (run_direct es0 c) as [d1 tr1]. simpl in R. inversion R; subst.
  exists tr1. reflexivity.
Qed.

End StoreProofs.
