(** Lemmas about M-EDIT (C12 round 5): file names, the "h1:" text of a stored
    partial hash, whitespace edits of applied statements. *)
From Coq Require Import List NArith Bool Arith Lia.
From Atlas Require Import Base.Bytes Base.ListX Exec.ExecModel Exec.ExecProofs Exec.PendingModel Exec.RunModel
  Exec.StoreModel Exec.StoreProofs Exec.EditModel.
Import ListNotations.

(** ** prefixes / suffixes *)
Lemma strip_prefix_app p r : strip_prefix p (p ++ r) = Some r.
Proof. induction p as [|x p IH]; simpl; [reflexivity|]. rewrite N.eqb_refl. exact IH. Qed.

Lemma strip_prefix_some p : forall s r, strip_prefix p s = Some r -> s = p ++ r.
Proof.
  induction p as [|x p IH]; intros s r H; simpl in *.
  - injection H as <-. reflexivity.
  - destruct s as [|y s]; [discriminate|]. destruct (N.eqb x y) eqn:E; [|discriminate].
    apply N.eqb_eq in E. subst y. rewrite (IH s r H). reflexivity.
Qed.

Lemma trim_prefix_app p r : trim_prefix (p ++ r) p = r.
Proof. unfold trim_prefix. rewrite strip_prefix_app. reflexivity. Qed.

Lemma trim_suffix_app x p : trim_suffix (x ++ p) p = x.
Proof.
  unfold trim_suffix. rewrite rev_app_distr, strip_prefix_app. apply rev_involutive.
Qed.

(** A name that does not end in the suffix is left alone. *)
Lemma trim_suffix_none s p : (forall x, s <> x ++ p) -> trim_suffix s p = s.
Proof.
  intros H. unfold trim_suffix. destruct (strip_prefix (List.rev p) (List.rev s)) as [r|] eqn:E; [|reflexivity].
  exfalso. apply strip_prefix_some in E. apply (H (List.rev r)).
  rewrite <- (rev_involutive s), E, rev_app_distr, rev_involutive. reflexivity.
Qed.

(** ** SplitN(s, "_", 2) *)
Lemma split_under_no v : ~ In 95%N v -> split_under v = (v, None).
Proof.
  induction v as [|c v IH]; intros H; simpl; [reflexivity|].
  destruct (N.eqb c 95) eqn:E.
  - apply N.eqb_eq in E. exfalso. apply H. left. exact E.
  - rewrite IH; [reflexivity|]. intros Hin. apply H. right. exact Hin.
Qed.

Lemma split_under_first v d : ~ In 95%N v -> split_under (v ++ 95%N :: d) = (v, Some d).
Proof.
  induction v as [|c v IH]; intros H; simpl; [reflexivity|].
  destruct (N.eqb c 95) eqn:E.
  - apply N.eqb_eq in E. exfalso. apply H. left. exact E.
  - rewrite IH; [reflexivity|]. intros Hin. apply H. right. exact Hin.
Qed.

(** ** LocalFile.Version / Desc: what the name shapes mean *)
Lemma version_of_name_plain v : ~ In 95%N v -> version_of_name (v ++ dot_sql) = v.
Proof. intros H. unfold version_of_name. rewrite trim_suffix_app, split_under_no by exact H. reflexivity. Qed.

Lemma version_of_name_desc v d : ~ In 95%N v -> version_of_name (v ++ 95%N :: d ++ dot_sql) = v.
Proof.
  intros H. unfold version_of_name.
  replace (v ++ 95%N :: d ++ dot_sql) with ((v ++ 95%N :: d) ++ dot_sql) by (rewrite <- app_assoc; reflexivity).
  rewrite trim_suffix_app, split_under_first by exact H. reflexivity.
Qed.

Lemma desc_of_name_plain v : ~ In 95%N v -> ~ In 95%N dot_sql -> desc_of_name (v ++ dot_sql) = [].
Proof.
  intros H Hd. unfold desc_of_name. rewrite split_under_no; [reflexivity|].
  intros Hin. apply in_app_or in Hin. tauto.
Qed.

Lemma desc_of_name_desc v d : ~ In 95%N v -> desc_of_name (v ++ 95%N :: d ++ dot_sql) = d.
Proof.
  intros H. unfold desc_of_name. rewrite split_under_first by exact H. cbn [snd]. apply trim_suffix_app.
Qed.

Lemma dot_sql_no_under : ~ In 95%N dot_sql.
Proof. unfold dot_sql. simpl. intros [H|[H|[H|[H|[]]]]]; discriminate. Qed.

(** ** "h1:" *)
Lemma sum_eqb_stored_hash a b : sum_eqb_stored a (stored_hash b) = bytes_eqb a b.
Proof. unfold sum_eqb_stored, stored_hash. rewrite trim_prefix_app. reflexivity. Qed.

Lemma stored_eqb_hash a b : stored_eqb (stored_hash a) (stored_hash b) = bytes_eqb a b.
Proof. unfold stored_eqb. unfold stored_hash at 1. rewrite trim_prefix_app. apply sum_eqb_stored_hash. Qed.

Lemma stored_hash_inj a b : stored_hash a = stored_hash b -> a = b.
Proof. unfold stored_hash. apply app_inv_head. Qed.

Lemma stored_eqb_spec a b : stored_eqb (stored_hash a) (stored_hash b) = true <-> stored_hash a = stored_hash b.
Proof.
  rewrite stored_eqb_hash. rewrite bytes_eqb_eq. split; [intros ->; reflexivity|apply stored_hash_inj].
Qed.

(** ** an edit of one applied statement changes the applied prefix *)
Lemma firstn_differs {A} (old new : list A) k j s s' :
  j < k -> nth_error old j = Some s -> nth_error new j = Some s' -> s <> s' ->
  firstn k new <> firstn k old.
Proof.
  intros Hj Ho Hn Hne E.
  assert (nth_error (firstn k new) j = nth_error (firstn k old) j) as X by (rewrite E; reflexivity).
  rewrite !nth_error_firstn in X by exact Hj. rewrite Ho, Hn in X. injection X as X. apply Hne. symmetry. exact X.
Qed.

Section Edit.
Variable hash : Type.
Variable hash_eqb : hash -> hash -> bool.
Variable HS : bytes -> hash.
Hypothesis hash_eqb_spec : forall a b, hash_eqb a b = true <-> a = b.

(** The conclusion of C12_refuse_any_storage_fault. *)
Definition refused_st (t : list (rev hash)) (fs : list bool) (k : nat)
  (o : st_outcome) (t' : list (rev hash)) (es : list (event hash)) : Prop :=
  exec_events es = [] /\ t' = t /\ o <> SExec ODone /\ o <> SExec OPanic /\
  (hd false fs = true -> o = SReadErr /\ es = []) /\
  (hd false fs = false -> hd false (tl fs) = true -> o = SExec OWriteErr) /\
  (hd false fs = false -> hd false (tl fs) = false ->
     exists i, o = SExec (OHistory i) /\ 1 <= i <= k).

Lemma refuse_st_refused (t : list (rev hash)) fs f r old :
  tbl_get t (f_version f) = Some r ->
  0 < r_applied r -> recorded hash HS r old ->
  firstn (r_applied r) (f_stmts f) <> firstn (r_applied r) old ->
  forall o t' fs' es, execute_st hash hash_eqb HS f t fs = (o, t', fs', es) ->
  collision_at hash HS old (f_stmts f) (r_applied r) \/ refused_st t fs (r_applied r) o t' es.
Proof.
  intros Hget Hk Hrec Hdiff o t' fs' es Hex.
  destruct (C12_refuse_st_lemma hash hash_eqb HS hash_eqb_spec t fs f r old Hget Hk Hrec Hdiff o t' fs' es Hex)
    as [Hc|(He & Ht & Hnd & Hr & Hw & Hh)]; [left; exact Hc|right].
  unfold refused_st.
  split; [exact He|]. split; [exact Ht|]. split; [exact Hnd|].
  split; [|split; [exact Hr|split; [exact Hw|exact Hh]]].
  intros Hp. destruct (hd false fs) eqn:E1.
  - destruct (Hr eq_refl) as [Ho _]. congruence.
  - destruct (hd false (tl fs)) eqn:E2.
    + specialize (Hw eq_refl eq_refl). congruence.
    + destruct (Hh eq_refl eq_refl) as (i & Ho & _). congruence.
Qed.

(** Whitespace edit of one applied statement. *)
Lemma whitespace_edit_refused (t : list (rev hash)) fs f r old j s s' :
  tbl_get t (f_version f) = Some r -> recorded hash HS r old ->
  j < r_applied r ->
  nth_error old j = Some s -> nth_error (f_stmts f) j = Some s' ->
  s <> s' ->
  forall o t' fs' es, execute_st hash hash_eqb HS f t fs = (o, t', fs', es) ->
  collision_at hash HS old (f_stmts f) (r_applied r) \/ refused_st t fs (r_applied r) o t' es.
Proof.
  intros Hget Hrec Hj Ho Hn Hne.
  apply (refuse_st_refused t fs f r old Hget); [lia|exact Hrec|].
  exact (firstn_differs old (f_stmts f) (r_applied r) j s s' Hj Ho Hn Hne).
Qed.

(** The file name matters only through the version extracted from it. *)
Lemma file_of_same_version n1 n2 stmts ck :
  version_of_name n1 = version_of_name n2 ->
  file_of (mkNFile n1 stmts ck) = file_of (mkNFile n2 stmts ck).
Proof. intros H. unfold file_of. cbn [nf_name nf_stmts nf_ckpt]. rewrite H. reflexivity. Qed.

(** The hash chain: entry i is HS of the concatenation (no separator) of the texts 0..i. *)
Lemma sums_chain (ss : list bytes) :
  length (sums hash HS ss) = length ss /\
  forall i, i < length ss -> nth_error (sums hash HS ss) i = Some (HS (concat (firstn (S i) ss))).
Proof.
  split; [apply sums_length|]. intros i Hi. apply sums_nth. exact Hi.
Qed.

(** A completely applied file is never looked at again: [Pending] decides by
    version and [Applied = Total]; the statements of the file (and the file hash
    stored in [Revision.Hash]) are not compared by `migrate apply`. *)
Lemma completed_file_not_checked txfile c n (f : file) (r : rev hash) :
  f_ckpt f = false -> r_version r = f_version f -> r_applied r = r_total r ->
  cli_apply hash hash_eqb HS txfile c n [f] [r] [] = (CPend PNoPending, [r], [], [], []).
Proof.
  intros Hck Hv Hdone. unfold cli_apply, read_revisions_f. cbn [pop].
  change (read_revisions hash [r]) with [r].
  rewrite (pending_single_complete hash c f r Hck Hv Hdone). reflexivity.
Qed.

End Edit.
