(** M-TX, part 3: `atlas migrate apply --exec-order linear|linear-skip|non-linear`
    (cmdapi/migrate.go: migrateApplyFlags.migrateOptions -> migrate.WithExecOrder;
    sql/migrate/migrate.go: Executor.Pending decides which files run: an out-of-order file that
    was never applied or only partially applied is put in FRONT of the pending files under
    non-linear, skipped under linear-skip, an error under linear).
    [apply_run_ord] is [TxModel.apply_run] with the order as a parameter; the loop, the
    transaction multiplexer and the crash trace are the same. No proofs here. *)
From Coq Require Import List NArith Bool Arith.
From Atlas Require Import Base.Bytes Exec.ExecModel Exec.PendingModel Exec.RunModel Exec.TxModel.
Import ListNotations.

Section TxOrder.
Variable hash : Type.
Variable hash_eqb : hash -> hash -> bool.
Variable HS : bytes -> hash.
Notation db := (db hash).

(** the files of the directory with the versions [Pending] chose, in that order *)
Definition chosen_tfiles (dir : list tfile) (chosen : list file) : list tfile :=
  flat_map (fun f => filter (fun tf => bytes_eqb (f_version (tf_file tf)) (f_version f)) dir) chosen.

Definition apply_run_ord (ord : order) (global : mode) (n : nat) (dir : list tfile) (c : db)
  : aoutcome * db * list (point * db) :=
  let all := map tf_file dir in
  let cfg := mkCfg ord None true true in
  match fst (pending cfg all (read_revisions hash (d_tbl c))) with
  | PFiles p =>
      let chosen := if 0 <? n then firstn n p else p in
      let '(o, c1, w, tr) := apply_loop hash hash_eqb HS global (chosen_tfiles dir chosen) c None in
      match o, w with
      | ADone, Some wd => (ADone, wd, tr ++ [(BeforeCommit, c1); (AfterCommit, wd)])
      | _, _ => (o, c1, tr)
      end
  | p => (APend p, c, [])
  end.

End TxOrder.
