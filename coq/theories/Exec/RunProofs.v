(** The C09 resume invariant: what relates the revision table to the journal
    between (and inside) runs of [Executor.ExecuteN], and its consequences for
    any sequence of runs, each with its own fault stream.

    Setting: one directory [all] (files strictly sorted by version, no
    checkpoint files), no baseline, and a revision reader that lists the stored
    revisions by version ([read_revisions], as the CLI's Ent reader does).

    - [Inv t k a has]: the table holds complete revisions of the first [k]
      files and, if [has], a revision of file [k] that claims its first [a]
      statements -- nothing else.
    - [good]: inside one [Execute], every bookkeeping write claims exactly what
      ran, and at most one executed statement is not yet claimed.
    - [Step]/[GInv]: across event prefixes and runs, the journal is the planned
      statement list up to a position [E] with repeats, the table claims a
      position [P] with [P <= E <= P + 1], and every repeat is paid for by a
      failed bookkeeping write that directly followed its statement. *)
From Coq Require Import List NArith Bool Arith Lia Sorted.
From Atlas Require Import Base.Bytes Base.ListX Base.Stutter
  Exec.ExecModel Exec.ExecProofs Exec.StepProofs Exec.PendingModel Exec.PendingProofs
  Exec.RunModel Exec.TxModel Exec.TxProofs.
Import ListNotations.

Definition b2n (b : bool) : nat := if b then 1 else 0.

(** * generic facts about the table *)
Section Table.
Variable hash : Type.
Notation rev := (rev hash).

Lemma tbl_get_None (t : list rev) v : tbl_get t v = None <-> ~ In v (map (@r_version hash) t).
Proof.
  induction t as [|x t IH]; simpl; [tauto|].
  destruct (bytes_eqb (r_version x) v) eqn:E.
  - apply bytes_eqb_eq in E. split; [discriminate|]. intros H. exfalso. apply H. left. exact E.
  - apply bytes_eqb_neq in E. rewrite IH. tauto.
Qed.

Lemma tbl_get_In (t : list rev) v r : tbl_get t v = Some r -> In r t.
Proof.
  induction t as [|x t IH]; simpl; [discriminate|].
  destruct (bytes_eqb (r_version x) v); intros H; [inversion H; left; reflexivity|right; auto].
Qed.

Lemma tbl_get_of_In (t : list rev) r :
  NoDup (map (@r_version hash) t) -> In r t -> tbl_get t (r_version r) = Some r.
Proof.
  induction t as [|x t IH]; simpl; intros Hnd Hin; [destruct Hin|].
  inversion Hnd as [|? ? Hni Hnd']; subst.
  destruct Hin as [->|Hin]; [rewrite bytes_eqb_refl; reflexivity|].
  destruct (bytes_eqb (r_version x) (r_version r)) eqn:E; [|auto].
  apply bytes_eqb_eq in E. exfalso. apply Hni. rewrite E. apply in_map. exact Hin.
Qed.

Lemma tbl_put_versions_in (t : list rev) r :
  In (r_version r) (map (@r_version hash) t) -> map (@r_version hash) (tbl_put t r) = map (@r_version hash) t.
Proof.
  induction t as [|x t IH]; simpl; [intros []|].
  destruct (bytes_eqb (r_version x) (r_version r)) eqn:E; intros H.
  - apply bytes_eqb_eq in E. simpl. rewrite E. reflexivity.
  - apply bytes_eqb_neq in E. destruct H as [H|H]; [congruence|]. simpl. rewrite IH by exact H. reflexivity.
Qed.

Lemma tbl_put_versions_notin (t : list rev) r :
  ~ In (r_version r) (map (@r_version hash) t) ->
  map (@r_version hash) (tbl_put t r) = map (@r_version hash) t ++ [r_version r].
Proof.
  induction t as [|x t IH]; simpl; [reflexivity|].
  destruct (bytes_eqb (r_version x) (r_version r)) eqn:E; intros H.
  - apply bytes_eqb_eq in E. exfalso. apply H. left. exact E.
  - simpl. rewrite IH; [reflexivity|]. intros H'. apply H. right. exact H'.
Qed.

Lemma tbl_put_In (t : list rev) r x : In x (tbl_put t r) -> x = r \/ In x t.
Proof.
  induction t as [|y t IH]; simpl; [intros [<-|[]]; auto|].
  destruct (bytes_eqb (r_version y) (r_version r)); simpl.
  - intros [<-|H]; auto.
  - intros [<-|H]; auto. destruct (IH H); auto.
Qed.

Lemma read_revisions_sorted_id (t : list rev) : sorted_revs t -> read_revisions hash t = t.
Proof.
  unfold read_revisions. induction 1 as [|x l Hs IH Hf]; simpl; [reflexivity|].
  rewrite IH. destruct l as [|y l]; simpl; [reflexivity|].
  inversion Hf as [|? ? Hxy _]; subst. unfold rver_lt in Hxy.
  rewrite (bytes_ltb_leb _ _ Hxy). reflexivity.
Qed.

End Table.

(** * the plan of a directory and positions in it *)
Definition fplan (f : file) : list (bytes * bytes) := map (pair (f_version f)) (f_stmts f).
Definition plan (fl : list file) : list (bytes * bytes) := flat_map fplan fl.

Lemma plan_app a b : plan (a ++ b) = plan a ++ plan b.
Proof. apply flat_map_app. Qed.

Lemma sorted_files_NoDup all : sorted_files all -> NoDup (map f_version all).
Proof.
  induction 1 as [|x l Hs IH Hf]; simpl; constructor; [|exact IH].
  intros Hin. apply in_map_iff in Hin as (y & Ey & Hy). rewrite Forall_forall in Hf.
  specialize (Hf y Hy). unfold fver_lt in Hf. rewrite Ey, bytes_ltb_irrefl in Hf. discriminate.
Qed.

Lemma nth_error_firstn_split {A} (l : list A) k x :
  nth_error l k = Some x -> firstn (S k) l = firstn k l ++ [x] /\ l = firstn k l ++ x :: skipn (S k) l.
Proof.
  intros H. split; [apply firstn_S_snoc; exact H|].
  rewrite <- (firstn_skipn k l) at 1. f_equal. apply skipn_nth_cons. exact H.
Qed.

Section Resume.
Variable hash : Type.
Variable hash_eqb : hash -> hash -> bool.
Variable HS : bytes -> hash.
Hypothesis hash_eqb_spec : forall a b, hash_eqb a b = true <-> a = b.

Notation rev := (rev hash).
Notation event := (event hash).
Notation execute := (execute hash hash_eqb HS).
Notation exec_files := (exec_files hash hash_eqb HS).
Notation execute_n := (execute_n hash hash_eqb HS).
Notation claim_ok := (claim_ok hash HS).
Notation tbl_of_events := (tbl_of_events hash).
Notation sums := (sums hash HS).

(** ** inside one [Execute] *)
Section Good.
Variable f : file.
Local Notation fv := (f_version f).
Local Notation fstmts := (f_stmts f).
Local Notation fn := (length (f_stmts f)).

(** State [(a, e)]: the last successful write claims [a] statements; [e] =
    one more statement ran and is not claimed yet. *)
Fixpoint good (a : nat) (e : bool) (es : list event) : Prop :=
  match es with
  | [] => True
  | EExec v i s ok :: es' =>
      e = false /\ v = fv /\ i = a /\ nth_error fstmts a = Some s /\ good a ok es'
  | EWrite r ok :: es' =>
      claim_ok f r (a + b2n e) /\ r_total r = fn /\
      good (if ok then a + b2n e else a) (if ok then false else e) es'
  end.

Lemma good_okrun kind : forall c a tl,
  a + c <= fn -> good (a + c) false tl ->
  good a false (okrun hash fv fn kind (sums fstmts) fstmts a c ++ tl).
Proof.
  induction c as [|c IH]; intros a tl H Hg.
  - rewrite Nat.add_0_r in Hg. exact Hg.
  - simpl. destruct (nth_error_some_lt fstmts a) as [s Hs]; [lia|]. rewrite Hs.
    simpl. split; [reflexivity|]. split; [reflexivity|]. split; [reflexivity|]. split; [exact Hs|].
    split.
    + repeat split; unfold rv; cbn [r_applied r_version r_hashes b2n]; try lia.
      left. f_equal. lia.
    + split; [reflexivity|]. cbn [b2n]. replace (a + 1) with (S a) by lia.
      apply IH; [lia|]. replace (S a + c) with (a + S c) by lia. exact Hg.
Qed.

Lemma shape_good t r0 o t' es :
  pre hash HS f t r0 -> r_total r0 = fn ->
  exec_shape hash HS f t r0 o t' es -> good (r_applied r0) false es.
Proof.
  intros Hpre Htot Hsh.
  pose proof (pre_applied hash HS f t r0 Hpre) as Ha.
  set (a0 := r_applied r0) in *.
  assert (claim_ok f r0 (a0 + b2n false)) as C0.
  { cbn [b2n]. rewrite Nat.add_0_r. repeat split;
      [apply (pre_version hash HS f t r0 Hpre)|exact Ha|left; apply (pre_hashes hash HS f t r0 Hpre)]. }
  assert (forall c, r_total (cur hash HS f r0 c) = fn) as Tcur.
  { intros c. unfold cur. destruct (c =? 0); reflexivity. }
  destruct Hsh as [Ho Ht Hes|c ok3 Hc Ho Hes Ht|c s ok3 Hn Ho Hes Ht|c s Hn Ho Hes Ht]; subst es.
  - simpl. split; [exact C0|]. split; [exact Htot|exact I].
  - cbn [good]. split; [exact C0|]. split; [exact Htot|]. cbn [b2n]. rewrite Nat.add_0_r.
    apply good_okrun; [fold a0; lia|]. cbn [good b2n]. rewrite Nat.add_0_r.
    destruct (cur_claim hash HS f t r0 Hpre c) as (Hv & Hap & _ & _); [fold a0; lia|].
    split; [|split; [apply Tcur|destruct ok3; exact I]].
    unfold StepProofs.claim_ok. simpl. fold a0.
    split; [exact Hv|]. split; [exact Hap|]. split; [lia|]. right. split; [lia|reflexivity].
  - assert (a0 + c < fn) as Hlt by (apply nth_error_Some; unfold a0; congruence).
    cbn [good]. split; [exact C0|]. split; [exact Htot|]. cbn [b2n]. rewrite Nat.add_0_r.
    apply good_okrun; [fold a0; lia|]. cbn [good b2n]. rewrite Nat.add_0_r.
    split; [reflexivity|]. split; [reflexivity|]. split; [reflexivity|]. split; [exact Hn|].
    destruct (cur_claim hash HS f t r0 Hpre c) as (Hv & Hap & Hle & Hh); [fold a0; lia|].
    split; [|split; [apply Tcur|destruct ok3; exact I]].
    repeat split; simpl; auto.
  - assert (a0 + c < fn) as Hlt by (apply nth_error_Some; unfold a0; congruence).
    cbn [good]. split; [exact C0|]. split; [exact Htot|]. cbn [b2n]. rewrite Nat.add_0_r.
    apply good_okrun; [fold a0; lia|]. cbn [good b2n].
    split; [reflexivity|]. split; [reflexivity|]. split; [reflexivity|]. split; [exact Hn|].
    split; [|split; [reflexivity|exact I]].
    repeat split; unfold rv; cbn [r_applied r_version r_hashes]; try lia. left. f_equal. lia.
Qed.

(** What any prefix of a good event list leaves behind. *)
Lemma good_prefix : forall es1 es2 a e (t : list rev),
  a + b2n e <= fn ->
  good a e (es1 ++ es2) ->
  exists a1 e1,
    good a1 e1 es2 /\ a <= a1 /\ a + b2n e <= a1 + b2n e1 /\ a1 + b2n e1 <= fn /\
    journal es1 = map (pair fv) (firstn (a1 + b2n e1 - (a + b2n e)) (skipn (a + b2n e) fstmts)) /\
    ((tbl_of_events es1 t = t /\ a1 = a) \/
     (exists r1, tbl_of_events es1 t = tbl_put t r1 /\ claim_ok f r1 a1 /\ r_total r1 = fn)).
Proof.
  induction es1 as [|x es1 IH]; intros es2 a e t Hb Hg.
  - exists a, e. split; [exact Hg|]. split; [lia|]. split; [lia|]. split; [exact Hb|].
    split; [rewrite Nat.sub_diag; reflexivity|]. left. split; reflexivity.
  - destruct x as [v i s ok|r ok]; cbn [app good] in Hg.
    + destruct Hg as (-> & -> & -> & Hn & Hg). cbn [b2n] in *.
      assert (a < fn) as Hlt by (apply nth_error_Some; congruence).
      destruct (IH es2 a ok t ltac:(destruct ok; simpl; lia) Hg)
        as (a1 & e1 & Hg1 & Hle & Hle2 & Hb1 & Hj & Htb).
      exists a1, e1. split; [exact Hg1|]. split; [exact Hle|]. split; [destruct ok; simpl in *; lia|].
      split; [exact Hb1|]. split.
      * destruct ok; cbn [journal b2n] in *.
        -- rewrite Hj. rewrite !Nat.add_0_r.
           rewrite (skipn_nth_cons _ _ _ Hn).
           replace (a1 + b2n e1 - a) with (S (a1 + b2n e1 - (a + 1))) by lia.
           cbn [firstn map]. replace (S a) with (a + 1) by lia. reflexivity.
        -- rewrite Hj. reflexivity.
      * exact Htb.
    + destruct Hg as (Hcl & Htot & Hg).
      destruct ok.
      * destruct (IH es2 (a + b2n e) false (tbl_put t r) ltac:(simpl; lia) Hg)
          as (a1 & e1 & Hg1 & Hle & Hle2 & Hb1 & Hj & Htb).
        cbn [b2n] in Hle2, Hj. rewrite Nat.add_0_r in Hle2, Hj.
        exists a1, e1. split; [exact Hg1|]. split; [lia|]. split; [lia|]. split; [exact Hb1|].
        split; [exact Hj|]. right.
        change (tbl_of_events (EWrite r true :: es1) t) with (tbl_of_events es1 (tbl_put t r)).
        destruct Htb as [[Ht Ea]|(r1 & Ht & Hc1 & Ht1)].
        -- exists r. split; [exact Ht|]. split; [rewrite Ea; exact Hcl|exact Htot].
        -- exists r1. split; [|split; [exact Hc1|exact Ht1]].
           rewrite Ht. apply tbl_put_put. destruct Hcl as (-> & _). destruct Hc1 as (-> & _). reflexivity.
      * destruct (IH es2 a e t Hb Hg) as (a1 & e1 & Hg1 & Hle & Hle2 & Hb1 & Hj & Htb).
        exists a1, e1. repeat (split; [assumption|]). exact Htb.
Qed.

End Good.


Lemma journal_positions_length (es : list event) : length (journal es) = length (positions es).
Proof.
  induction es as [|x es IH]; [reflexivity|].
  destruct x as [v i s [|]|r ok]; simpl; rewrite ?IH; reflexivity.
Qed.

(** ** one directory *)
Section Dir.
Variable all : list file.
Hypothesis Hsorted : sorted_files all.
Hypothesis Hnock : forall f, In f all -> f_ckpt f = false.

Definition pos (k a : nat) : nat := length (plan (firstn k all)) + a.
Definition upto (n : nat) : list (bytes * bytes) := firstn n (plan all).
Local Notation plen := (length (plan all)).
Local Notation len f := (length (f_stmts f)).

Lemma plan_split k f : nth_error all k = Some f ->
  plan all = plan (firstn k all) ++ fplan f ++ plan (skipn (S k) all).
Proof.
  intros Hn. destruct (nth_error_firstn_split all k f Hn) as [_ Hall].
  pose proof (f_equal plan Hall) as Hp. rewrite plan_app in Hp. exact Hp.
Qed.

Lemma upto_pos k f a : nth_error all k = Some f -> a <= len f ->
  upto (pos k a) = plan (firstn k all) ++ map (pair (f_version f)) (firstn a (f_stmts f)).
Proof.
  intros Hn Ha. unfold upto, pos. rewrite (plan_split k f Hn).
  rewrite firstn_app. rewrite firstn_all2 by lia. f_equal.
  replace (length (plan (firstn k all)) + a - length (plan (firstn k all))) with a by lia.
  rewrite firstn_app. unfold fplan. rewrite map_length.
  replace (a - len f) with 0 by lia. simpl. rewrite app_nil_r. apply firstn_map.
Qed.

Lemma pos_add k a x : pos k a + x = pos k (a + x).
Proof. unfold pos. lia. Qed.

Lemma pos_next k f : nth_error all k = Some f -> pos (S k) 0 = pos k (len f).
Proof.
  intros Hn. destruct (nth_error_firstn_split all k f Hn) as [Hf _].
  unfold pos. rewrite Hf, plan_app, app_length. simpl. rewrite app_nil_r. unfold fplan. rewrite map_length. lia.
Qed.

Lemma pos_bound k f a : nth_error all k = Some f -> a <= len f -> pos k a <= plen.
Proof.
  intros Hn Ha. rewrite (plan_split k f Hn), !app_length. unfold pos, fplan. rewrite map_length. lia.
Qed.

Lemma pos_all : pos (length all) 0 = plen.
Proof. unfold pos. rewrite firstn_all. lia. Qed.

Lemma upto_length n : n <= plen -> length (upto n) = n.
Proof. intros H. unfold upto. apply firstn_length_le. exact H. Qed.

Lemma versions_inj i j f g :
  nth_error all i = Some f -> nth_error all j = Some g -> f_version f = f_version g -> i = j.
Proof.
  intros Hi Hj E. pose proof (sorted_files_NoDup all Hsorted) as Hnd.
  apply (proj1 (NoDup_nth_error _) Hnd).
  - rewrite map_length. apply nth_error_Some. congruence.
  - rewrite (map_nth_error f_version _ _ Hi), (map_nth_error f_version _ _ Hj), E. reflexivity.
Qed.

(** The resume invariant. *)
Definition Inv (t : list rev) (k a : nat) (has : bool) : Prop :=
  k + b2n has <= length all /\
  map (@r_version hash) t = map f_version (firstn (k + b2n has) all) /\
  (forall i f, i < k -> nth_error all i = Some f ->
     exists r, tbl_get t (f_version f) = Some r /\ claim_ok f r (len f) /\ r_total r = len f) /\
  (if has then exists f r, nth_error all k = Some f /\ tbl_get t (f_version f) = Some r /\
                          claim_ok f r a /\ r_total r = len f
   else a = 0).

Definition normal (k a : nat) (has : bool) : Prop :=
  has = true -> forall f, nth_error all k = Some f -> a < len f.

Lemma Inv_nil : Inv [] 0 0 false.
Proof.
  split; [simpl; lia|]. split; [reflexivity|]. split; [intros i f Hi; lia|reflexivity].
Qed.

Lemma Inv_notin t k a has j g :
  Inv t k a has -> nth_error all j = Some g -> k + b2n has <= j -> tbl_get t (f_version g) = None.
Proof.
  intros (Hm & Hmap & _) Hj Hle. apply tbl_get_None. rewrite Hmap. intros Hin.
  apply In_nth_error in Hin as [i Hi].
  assert (i < k + b2n has) as Hlt.
  { assert (i < length (map f_version (firstn (k + b2n has) all))) as L by (apply nth_error_Some; congruence).
    rewrite map_length, firstn_length in L. lia. }
  destruct (nth_error (firstn (k + b2n has) all) i) as [f|] eqn:Ef.
  2:{ rewrite nth_error_map, Ef in Hi. discriminate. }
  rewrite nth_error_map, Ef in Hi. simpl in Hi. inversion Hi as [E].
  rewrite nth_error_firstn in Ef by exact Hlt.
  pose proof (versions_inj i j f g Ef Hj E). lia.
Qed.

Lemma Inv_complete t k f : nth_error all k = Some f -> Inv t k (len f) true -> Inv t (S k) 0 false.
Proof.
  intros Hn (Hm & Hmap & Hrows & (f' & r & Hn' & Hg & Hc & Ht)).
  rewrite Hn in Hn'. inversion Hn'; subst f'. unfold Inv. cbn [b2n] in *.
  split; [lia|]. split; [replace (S k + 0) with (k + 1) by lia; exact Hmap|].
  split; [|reflexivity].
  intros i g Hi Hg'. destruct (Nat.eq_dec i k) as [->|Hne].
  - rewrite Hn in Hg'. inversion Hg'; subst g. exists r. auto.
  - apply (Hrows i g); [lia|exact Hg'].
Qed.

Lemma normalize t k a has : Inv t k a has ->
  exists k' a' has', Inv t k' a' has' /\ normal k' a' has' /\ pos k' a' = pos k a.
Proof.
  intros HI. destruct has.
  2:{ exists k, a, false. split; [exact HI|]. split; [intros H; discriminate|reflexivity]. }
  pose proof HI as (_ & _ & _ & (f & r & Hn & Hg & Hc & Ht)).
  destruct Hc as (_ & _ & Hle & _).
  destruct (Nat.eq_dec a (len f)) as [->|Hne].
  - exists (S k), 0, false. split; [apply (Inv_complete t k f Hn HI)|].
    split; [intros H; discriminate|apply pos_next; exact Hn].
  - exists k, a, true. split; [exact HI|]. split; [|reflexivity].
    intros _ f' Hn'. rewrite Hn in Hn'. inversion Hn'; subst f'. lia.
Qed.

Lemma Inv_pre t k a has f :
  Inv t k a has -> normal k a has -> nth_error all k = Some f ->
  exists r0, pre hash HS f t r0 /\ r_total r0 = len f /\ r_applied r0 = a.
Proof.
  intros HI Hnorm Hn. destruct has.
  - pose proof HI as (_ & _ & _ & (f' & r & Hn' & Hg & Hc & Ht)).
    rewrite Hn in Hn'. inversion Hn'; subst f'.
    pose proof (Hnorm eq_refl f Hn) as Hlt.
    destruct Hc as (Hv & Hap & Hle & Hh).
    exists r. split; [|split; [exact Ht|exact Hap]].
    right. split; [exact Hg|]. split; [lia|]. rewrite Hap.
    destruct Hh as [Hh|[E _]]; [exact Hh|lia].
  - pose proof HI as (_ & _ & _ & Ea). subst a.
    exists (new_rev (f_version f) (len f)). split; [|split; reflexivity].
    left. split; [|reflexivity]. apply (Inv_notin t k 0 false k f HI Hn). simpl. lia.
Qed.

Lemma Inv_put t k a has f r' a' :
  Inv t k a has -> nth_error all k = Some f ->
  claim_ok f r' a' -> r_total r' = len f -> Inv (tbl_put t r') k a' true.
Proof.
  intros HI Hn Hc Ht. pose proof HI as (Hm & Hmap & Hrows & Hk).
  pose proof Hc as (Hv & _).
  assert (k < length all) as Hlt by (apply nth_error_Some; congruence).
  destruct (nth_error_firstn_split all k f Hn) as [Hf1 _].
  split; [simpl; lia|]. split; [|split].
  - destruct has; cbn [b2n] in *.
    + rewrite tbl_put_versions_in; [exact Hmap|]. rewrite Hmap, Hv.
      apply in_map. replace (k + 1) with (S k) by lia. rewrite Hf1. apply in_or_app. right. left. reflexivity.
    + rewrite tbl_put_versions_notin.
      * rewrite Hmap, Hv. rewrite Nat.add_0_r. replace (k + 1) with (S k) by lia.
        rewrite Hf1, map_app. reflexivity.
      * apply tbl_get_None. rewrite Hv. apply (Inv_notin t k a false k f HI Hn). simpl. lia.
  - intros i g Hi Hg. destruct (Hrows i g Hi Hg) as (r & Hgr & Hcr & Htr).
    exists r. split; [|auto]. rewrite tbl_get_put_other; [exact Hgr|].
    rewrite Hv. intros E. pose proof (versions_inj i k g f Hg Hn E). lia.
  - exists f, r'. split; [exact Hn|]. split; [|auto]. rewrite <- Hv. apply tbl_get_put_same.
Qed.

(** Prefixes of the events of one [Execute] of file [k]. *)
Lemma file_prefix t k a has f x1 x2 :
  Inv t k a has -> normal k a has -> nth_error all k = Some f ->
  a <= len f ->
  good f a false (x1 ++ x2) ->
  exists a1 has1 e1,
    Inv (tbl_of_events x1 t) k a1 has1 /\
    upto (pos k a) ++ journal x1 = upto (pos k a1 + b2n e1) /\
    a <= a1 /\ a1 + b2n e1 <= len f /\
    length (journal x1) = a1 + b2n e1 - a.
Proof.
  intros HI Hnorm Hn Hle Hg.
  destruct (good_prefix f x1 x2 a false t ltac:(simpl; lia) Hg)
    as (a1 & e1 & _ & Hle1 & Hle2 & Hb1 & Hj & Htb).
  cbn [b2n] in Hle2, Hj. rewrite Nat.add_0_r in Hle2, Hj.
  assert (upto (pos k a) ++ journal x1 = upto (pos k a1 + b2n e1)) as Hup.
  { rewrite pos_add. rewrite (upto_pos k f a Hn Hle), (upto_pos k f (a1 + b2n e1) Hn Hb1).
    rewrite Hj, <- app_assoc, <- map_app, firstn_add_skipn. do 3 f_equal. lia. }
  assert (length (journal x1) = a1 + b2n e1 - a) as Hlen.
  { rewrite Hj, map_length, firstn_length, skipn_length. lia. }
  destruct Htb as [[Ht Ea]|(r1 & Ht & Hc1 & Ht1)].
  - exists a1, has, e1. rewrite Ht. split; [rewrite Ea; exact HI|]. repeat split; auto.
  - exists a1, true, e1. rewrite Ht. split; [eapply Inv_put; eauto|]. repeat split; auto.
Qed.

(** [Executor.exec] over pending files, from a state that satisfies the invariant. *)
Lemma exec_files_inv : forall files t fs o t' fs' es k a has,
  Inv t k a has -> normal k a has ->
  files = firstn (length files) (skipn k all) ->
  exec_files files t fs = (o, t', fs', es) ->
  (forall es1 es2, es = es1 ++ es2 ->
     exists k1 a1 has1 e1,
       Inv (tbl_of_events es1 t) k1 a1 has1 /\
       upto (pos k a) ++ journal es1 = upto (pos k1 a1 + b2n e1) /\
       pos k a <= pos k1 a1 /\ pos k1 a1 + b2n e1 <= plen /\
       (es2 = [] -> b2n e1 <= wf es /\
          (o = ODone -> files <> [] \/ (a = 0 /\ has = false) ->
           k1 = k + length files /\ a1 = 0 /\ has1 = false /\ e1 = false))) /\
  (fs = [] -> o = ODone) /\ t' = tbl_of_events es t.
Proof.
  induction files as [|f rest IH]; intros t fs o t' fs' es k a has HI Hnorm Hfiles Hex.
  - simpl in Hex. inversion Hex; subst o t' fs' es. split; [|split; [reflexivity|reflexivity]].
    intros es1 es2 E. symmetry in E. apply app_eq_nil in E as [-> ->].
    exists k, a, has, false. cbn [b2n]. rewrite Nat.add_0_r. simpl. rewrite app_nil_r.
    split; [exact HI|]. split; [reflexivity|]. split; [lia|]. split.
    + destruct (normalize t k a has HI) as (k' & a' & has' & HI' & _ & <-).
      destruct has'.
      * destruct HI' as (_ & _ & _ & (g & r & Hg & _ & (_ & _ & Hle & _) & _)).
        apply (pos_bound k' g a' Hg Hle).
      * destruct HI' as (Hm & _ & _ & ->). simpl in Hm. rewrite Nat.add_0_r in Hm.
        unfold pos. rewrite Nat.add_0_r. rewrite <- (firstn_skipn k' all) at 2. rewrite plan_app, app_length. lia.
    + intros _. split; [lia|]. intros _ [H|[-> ->]]; [congruence|]. repeat split; lia.
  - (* the first pending file is file number k *)
    cbn [length firstn] in Hfiles.
    destruct (skipn k all) as [|f' tl] eqn:Esk; [discriminate|].
    inversion Hfiles as [[Ef Erest]]. subst f'.
    apply skipn_cons_inv in Esk as [Hn Esk']. subst tl.
    destruct (Inv_pre t k a has f HI Hnorm Hn) as (r0 & Hpre & Htot & Ha).
    pose proof (pre_applied hash HS f t r0 Hpre) as Hle. rewrite Ha in Hle.
    cbn [ExecModel.exec_files] in Hex.
    destruct (execute f t fs) as [[[o1 t1] fs1] es_f] eqn:EX.
    pose proof (execute_tbl hash hash_eqb HS f t fs o1 t1 fs1 es_f EX) as Ht1.
    destruct (execute_shape hash hash_eqb HS hash_eqb_spec f t r0 Hpre fs o1 t1 fs1 es_f EX) as [Hsh _].
    pose proof (shape_good f t r0 o1 t1 es_f Hpre Htot Hsh) as Hgood. rewrite Ha in Hgood.
    destruct (execute_spec hash hash_eqb HS hash_eqb_spec f t r0 fs o1 t1 fs1 es_f Hpre Htot EX)
      as (c & a' & S1 & S2 & S3 & S4 & Spos & Swf & Stbl & Soth & Sdone & Sok & Snf).
    rewrite Ha in *.
    (* the whole file *)
    destruct (file_prefix t k a has f es_f [] HI Hnorm Hn Hle ltac:(rewrite app_nil_r; exact Hgood))
      as (aw & hasw & ew & HIw & Hupw & Hlew & Hbw & Hlenw).
    rewrite <- Ht1 in HIw.
    assert (aw = a') as Eaw.
    { destruct Stbl as [(-> & Hnone & _ & _ & -> & _)|(r' & -> & Hc' & _)].
      - destruct hasw.
        + destruct HIw as (_ & _ & _ & (g & r & Hg & Hgr & _)). rewrite Hn in Hg. inversion Hg; subst g.
          rewrite Hnone in Hgr. discriminate.
        + destruct HIw as (_ & _ & _ & ->). reflexivity.
      - destruct hasw.
        + destruct HIw as (_ & _ & _ & (g & r & Hg & Hgr & (_ & Hap & _) & _)). rewrite Hn in Hg. inversion Hg; subst g.
          destruct Hc' as (Hv' & Hap' & _). rewrite <- Hv', tbl_get_put_same in Hgr. inversion Hgr; subst r. lia.
        + exfalso. pose proof (Inv_notin _ k aw false k f HIw Hn ltac:(simpl; lia)) as Hnone.
          destruct Hc' as (Hv' & _). rewrite <- Hv', tbl_get_put_same in Hnone. discriminate. }
    assert (b2n ew = wf es_f) as Eew.
    { assert (c = aw + b2n ew - a) as Ec.
      { rewrite <- Hlenw, journal_positions_length, Spos, map_length, seq_length. reflexivity. }
      rewrite Swf. lia. }
    assert (forall x1 x2, es_f = x1 ++ x2 ->
       exists k1 a1 has1 e1,
         Inv (tbl_of_events x1 t) k1 a1 has1 /\
         upto (pos k a) ++ journal x1 = upto (pos k1 a1 + b2n e1) /\
         pos k a <= pos k1 a1 /\ pos k1 a1 + b2n e1 <= plen /\
         (x2 = [] -> b2n e1 <= wf es_f)) as Hfile.
    { intros x1 x2 E. rewrite E in Hgood.
      destruct (file_prefix t k a has f x1 x2 HI Hnorm Hn Hle Hgood)
        as (a1 & has1 & e1 & HI1 & Hup1 & Hle1 & Hb1 & Hlen1).
      exists k, a1, has1, e1. split; [exact HI1|]. split; [exact Hup1|].
      split; [unfold pos; lia|]. split; [rewrite pos_add; apply (pos_bound k f _ Hn Hb1)|].
      intros ->. rewrite app_nil_r in E. subst x1.
      assert (a1 + b2n e1 = aw + b2n ew) as E2 by lia.
      assert (a1 = a').
      { destruct Stbl as [(Et & Hnone & _ & _ & -> & _)|(r' & Et & Hc' & _)].
        - rewrite <- Ht1, Et in HI1. destruct has1.
          + destruct HI1 as (_ & _ & _ & (g & r & Hg & Hgr & _)). rewrite Hn in Hg. inversion Hg; subst g.
            rewrite Hnone in Hgr. discriminate.
          + destruct HI1 as (_ & _ & _ & ->). reflexivity.
        - rewrite <- Ht1, Et in HI1. destruct has1.
          + destruct HI1 as (_ & _ & _ & (g & r & Hg & Hgr & (_ & Hap & _) & _)). rewrite Hn in Hg. inversion Hg; subst g.
            destruct Hc' as (Hv' & Hap' & _). rewrite <- Hv', tbl_get_put_same in Hgr. inversion Hgr; subst r. lia.
          + exfalso. pose proof (Inv_notin _ k a1 false k f HI1 Hn ltac:(simpl; lia)) as Hnone.
            destruct Hc' as (Hv' & _). rewrite <- Hv', tbl_get_put_same in Hnone. discriminate. }
      lia. }
    assert (o1 = ODone \/ o1 <> ODone) as [Eo|Hne] by (destruct o1; auto; right; discriminate).
    + (* the file completed: continue with file k + 1 *)
      subst o1. destruct (Sdone eq_refl) as [Ea' Hallok]. 
      destruct (exec_files rest t1 fs1) as [[[o2 t2] fs2] es_r] eqn:EXr.
      inversion Hex; subst o t' fs' es. clear Hex.
      assert (Inv t1 (S k) 0 false) as HI1.
      { apply (Inv_complete t1 k f Hn).
        destruct Stbl as [(_ & _ & Ees & _)|(r' & -> & Hc' & Ht')].
        - rewrite Ees in Hallok. inversion Hallok as [|? ? Hx _]; subst. discriminate.
        - rewrite <- Ea'. eapply Inv_put; eauto. }
      assert (normal (S k) 0 false) as Hnorm1 by (intros H; discriminate).
      destruct (IH t1 fs1 o2 t2 fs2 es_r (S k) 0 false HI1 Hnorm1 Erest EXr) as (IHp & IHnf & IHt).
      assert (ew = false) as Eew0 by (destruct ew; [simpl in Hbw; lia|reflexivity]).
      assert (upto (pos k a) ++ journal es_f = upto (pos (S k) 0)) as Hupf.
      { rewrite Hupw, Eew0, Eaw, Ea'. cbn [b2n]. rewrite Nat.add_0_r, (pos_next k f Hn). reflexivity. }
      split; [|split].
      * intros es1 es2 E.
        assert ((exists x y, es_f = es1 ++ x :: y) \/ (exists l, es1 = es_f ++ l /\ es_r = l ++ es2)) as [(x & y & E1)|(l & E1 & E2)].
        { apply app_eq_app in E as [l [[E1 E2]|[E1 E2]]].
          - destruct l as [|x y]; [|left; eauto].
            right. exists []. rewrite app_nil_r in *. simpl in E2. subst. split; reflexivity.
          - right. eauto. }
        -- destruct (Hfile es1 (x :: y) E1) as (k1 & a1 & has1 & e1 & H1 & H2 & H3 & H4 & _).
           exists k1, a1, has1, e1. repeat (split; [assumption|]).
           intros ->. exfalso. rewrite E1, <- app_assoc in E. simpl in E.
           apply (f_equal (@length _)) in E. rewrite !app_length in E. simpl in E. lia.
        -- destruct (IHp l es2 E2) as (k1 & a1 & has1 & e1 & H1 & H2 & H3 & H4 & H5).
           exists k1, a1, has1, e1.
           split; [rewrite E1, tbl_of_events_app, <- Ht1; exact H1|].
           split; [rewrite E1, journal_app, app_assoc, Hupf; exact H2|].
           split; [rewrite (pos_next k f Hn) in H3; unfold pos in *; lia|]. split; [exact H4|].
           intros ->. destruct (H5 eq_refl) as [Hw Hd]. split.
           ++ pose proof (wf_app hash es_f es_r). lia.
           ++ intros Ho _. destruct (Hd Ho ltac:(right; split; reflexivity)) as (-> & -> & -> & ->).
              rewrite <- Erest. repeat split; simpl; try reflexivity; lia.
      * intros ->. destruct (Snf eq_refl) as [_ ->]. apply IHnf. reflexivity.
      * rewrite tbl_of_events_app, <- Ht1. exact IHt.
    + (* the file failed: the run ends here *)
      assert ((o, t', fs', es) = (o1, t1, fs1, es_f)) as Eres.
      { rewrite <- Hex. destruct o1; try reflexivity. contradiction. }
      inversion Eres; subst o t' fs' es. clear Eres Hex.
      split; [|split; [|exact Ht1]].
      * intros es1 es2 E. destruct (Hfile es1 es2 E) as (k1 & a1 & has1 & e1 & H1 & H2 & H3 & H4 & H5).
        exists k1, a1, has1, e1. repeat (split; [assumption|]).
        intros E2. split; [apply H5; exact E2|]. intros Ho. contradiction.
      * intros ->. destruct (Snf eq_refl) as [Ho _]. contradiction.
Qed.

(*PART3*)
End Dir.
End Resume.
